import ScyllaVerif.Model.Carrier
/-
The documented compatibility matrix, transcribed ONCE BY HAND from `/repo/docs/source/data-types/data-types.md`
(lines 12-37: "Database types and their Rust equivalents") and `collections.md` (List ↔ `Vec<T>`; Set ↔ `Vec<T>`,
`HashSet<T>`, `BTreeSet<T>`; Map ↔ `HashMap<K, V>`, `BTreeMap<K, V>`), `tuple.md`, `vector.md` (Vector ↔ `Vec<T>`).
It is independent of `Model/Carrier.lean`'s `accepts` / `deserAccepts` (only the carrier / type syntax is shared);
`Props/C17.lean` compares the two over all pairs of two nesting levels (a TEST, labelled as such).
-/
namespace ScyllaVerif.DocMatrix
open ScyllaVerif.Cql ScyllaVerif.Carrier

/-- `* Boolean <----> bool` … `* Varint <----> value::CqlVarint, …` -/
def docNatives : Scalar → List NativeTy
  | .bool => [.boolean]
  | .i8 => [.tinyint]
  | .i16 => [.smallint]
  | .i32 => [.int]
  | .i64 => [.bigint]
  | .f32 => [.float]
  | .f64 => [.double]
  | .str => [.ascii, .text]          -- `Ascii`, `Text`, `Varchar` <----> `&str`, `String`, `Box<str>`, `Arc<str>`
  | .counter => [.counter]           -- `value::Counter`
  | .blob => [.blob]                 -- `&[u8]`, `Vec<u8>`, `Bytes`, `[u8; N]`
  | .inet => [.inet]
  | .uuid => [.uuid]
  | .timeuuid => [.timeuuid]
  | .date => [.date]
  | .time => [.time]
  | .timestamp => [.timestamp]
  | .duration => [.duration]
  | .decimal => [.decimal]
  | .varint => [.varint]

mutual
/-- The documented pairs, one documentation rule per constructor, at any nesting depth (`Option` /
`MaybeUnset` wrap any of them: `statements/values.md`; `CqlValue` "can represent any CQL value";
a Rust tuple of n fields pairs with a CQL tuple of the same n field types).  `MaybeEmpty` is NOT mentioned by docs/source (grep finds nothing): its rule
here (transparent) is taken from the rustdoc of `scylla_cql_core::value::MaybeEmpty` / `Emptiable`. -/
def docAccepts : Carrier → CqlTy → Bool
  | .scalar s, t => match t with
    | .native n => (docNatives s).contains n
    | _ => false
  | .opt c, t => docAccepts c t
  | .maybeUnset c, t => docAccepts c t
  | .maybeEmpty c, t => docAccepts c t
  | .vec c, t => match t with
    | .list e => docAccepts c e          -- `List` <----> `Vec<T>`
    | .set e => docAccepts c e           -- `Set` <----> `Vec<T>`
    | .vector e _ => docAccepts c e      -- `Vector` <----> `Vec<T>`
    | _ => false
  | .hashSet c, t => match t with
    | .set e => docAccepts c e           -- `Set` is represented as `Vec<T>`, `HashSet<T>` or `BTreeSet<T>`
    | _ => false
  | .btreeSet c, t => match t with
    | .set e => docAccepts c e
    | _ => false
  | .hashMap k v, t => match t with
    | .map kt vt => docAccepts k kt && docAccepts v vt   -- `Map` … `HashMap<K, V>` or `BTreeMap<K, V>`
    | _ => false
  | .btreeMap k v, t => match t with
    | .map kt vt => docAccepts k kt && docAccepts v vt
    | _ => false
  | .tuple cs, t => match t with
    | .tuple ts => decide (cs.length = ts.length) && docAcceptsZip cs ts   -- `Tuple` <----> Rust tuples
    | _ => false
  | .dyn, _ => true
  | _, _ => false
def docAcceptsZip : List Carrier → List CqlTy → Bool
  | c :: cs, t :: ts => docAccepts c t && docAcceptsZip cs ts
  | _, _ => true
end

mutual
/-- The documented pairs plus the deviations the serialization code itself documents in comments:
set carriers are written through `serialize_sequence`, which takes `List(_) | Set(_)` (value.rs:939-955);
"Allow CQL tuples with more fields than the Rust tuple" (value.rs:862-865); `MaybeEmpty` first checks
`supports_special_empty_value` (value.rs:423-429); `Unset` is a marker for any column. -/
def docLooseSer : Carrier → CqlTy → Bool
  | .scalar s, t => match t with
    | .native n => (docNatives s).contains n
    | _ => false
  | .unset, _ => true
  | .opt c, t => docLooseSer c t
  | .maybeUnset c, t => docLooseSer c t
  | .maybeEmpty c, t => t.supportsEmpty && docLooseSer c t
  | .vec c, t => match t with
    | .list e => docLooseSer c e
    | .set e => docLooseSer c e
    | .vector e _ => docLooseSer c e
    | _ => false
  | .hashSet c, t => match t with
    | .set e => docLooseSer c e
    | .list e => docLooseSer c e
    | _ => false
  | .btreeSet c, t => match t with
    | .set e => docLooseSer c e
    | .list e => docLooseSer c e
    | _ => false
  | .hashMap k v, t => match t with
    | .map kt vt => docLooseSer k kt && docLooseSer v vt
    | _ => false
  | .btreeMap k v, t => match t with
    | .map kt vt => docLooseSer k kt && docLooseSer v vt
    | _ => false
  | .tuple cs, t => match t with
    | .tuple ts => decide (cs.length ≤ ts.length) && docLooseZip cs ts
    | _ => false
  | .dyn, _ => true
  | _, _ => false
def docLooseZip : List Carrier → List CqlTy → Bool
  | c :: cs, t :: ts => docLooseSer c t && docLooseZip cs ts
  | _, _ => true
end

mutual
/-- Carrier types the documentation speaks about on the READ side: everything built from the documented leaves
by `Option`, `MaybeEmpty`, `Vec`, the set and map types, tuples and `CqlValue` (not `Unset` / `MaybeUnset`,
which cannot be read, nor the driver-internal iterator types). -/
def documentedDe : Carrier → Bool
  | .scalar _ => true
  | .opt c => documentedDe c
  | .maybeEmpty c => documentedDe c
  | .vec c => documentedDe c
  | .hashSet c => documentedDe c
  | .btreeSet c => documentedDe c
  | .hashMap k v => documentedDe k && documentedDe v
  | .btreeMap k v => documentedDe k && documentedDe v
  | .tuple cs => documentedDeList cs
  | .dyn => true
  | _ => false
def documentedDeList : List Carrier → Bool
  | [] => true
  | c :: cs => documentedDe c && documentedDeList cs
end

mutual
/-- Carrier types the documentation speaks about on the WRITE side (adds `Unset` / `MaybeUnset`). -/
def documentedSer : Carrier → Bool
  | .scalar _ => true
  | .unset => true
  | .opt c => documentedSer c
  | .maybeUnset c => documentedSer c
  | .maybeEmpty c => documentedSer c
  | .vec c => documentedSer c
  | .hashSet c => documentedSer c
  | .btreeSet c => documentedSer c
  | .hashMap k v => documentedSer k && documentedSer v
  | .btreeMap k v => documentedSer k && documentedSer v
  | .tuple cs => documentedSerList cs
  | .dyn => true
  | _ => false
def documentedSerList : List Carrier → Bool
  | [] => true
  | c :: cs => documentedSer c && documentedSerList cs
end

mutual
/-- The carrier type has no `MaybeEmpty` layer (which additionally needs an emptiable column on write; the
documentation does not describe `MaybeEmpty` at all — it is documented only in the API docs of
`scylla_cql_core::value::MaybeEmpty`). -/
def noME : Carrier → Bool
  | .maybeEmpty _ => false
  | .opt c => noME c
  | .maybeUnset c => noME c
  | .vec c => noME c
  | .hashSet c => noME c
  | .btreeSet c => noME c
  | .hashMap k v => noME k && noME v
  | .btreeMap k v => noME k && noME v
  | .tuple cs => noMEs cs
  | _ => true
def noMEs : List Carrier → Bool
  | [] => true
  | c :: cs => noME c && noMEs cs
end

/-! ### the finite universes of the comparison -/

def allScalars : List Scalar :=
  [.i8, .i16, .i32, .i64, .f32, .f64, .bool, .str, .blob, .inet, .uuid, .timeuuid, .date, .time, .timestamp,
   .duration, .varint, .decimal, .counter]

def allNatives : List NativeTy :=
  [.ascii, .boolean, .blob, .counter, .date, .decimal, .double, .duration, .float, .int, .bigint, .text,
   .timestamp, .inet, .smallint, .tinyint, .time, .timeuuid, .uuid, .varint]

/-- `impl Emptiable for …` (`value.rs:66-105`): the leaves `MaybeEmpty<T>` can be instantiated with. -/
def emptiable : List Scalar :=
  [.bool, .i8, .i16, .i32, .i64, .f32, .f64, .varint, .decimal, .date, .time, .timestamp, .timeuuid, .inet, .uuid]

/-- One more nesting level of carriers over `cs` (maps / 2-tuples pair with fixed leaves). -/
def wrapCarriers (cs : List Carrier) : List Carrier :=
  cs.flatMap (fun c => [.opt c, .vec c, .hashSet c, .btreeSet c, .tuple [c], .hashMap (.scalar .i32) c,
    .btreeMap c (.scalar .str), .tuple [.scalar .i32, c]])

/-- One more nesting level of column types over `ts` (maps / 2-tuples pair with fixed natives). -/
def wrapTypes (ts : List CqlTy) : List CqlTy :=
  ts.flatMap (fun t => [.list t, .set t, .vector t 2, .tuple [t], .tuple [t, t, t], .udt "ks" "typ" [("a", t)],
    .map (.native .int) t, .map t (.native .text), .tuple [.native .int, t]])

/-- Carriers of nesting ≤ 2 over two leaves incl. `CqlValue`, `Unset`, `MaybeUnset` (sanity test universe). -/
def carriersT : List Carrier :=
  let c0 : List Carrier := [.scalar .i32, .scalar .str, .dyn, .unset, .maybeUnset (.scalar .i32)]
  c0 ++ wrapCarriers c0
/-- Column types of nesting ≤ 2 over two natives. -/
def typesT : List CqlTy :=
  let t0 : List CqlTy := [.native .int, .native .text]
  let t1 := t0 ++ wrapTypes t0
  t1 ++ wrapTypes [.list (.native .int), .tuple [.native .int, .native .text], .udt "ks" "typ" [("a", .native .int)]]

end ScyllaVerif.DocMatrix

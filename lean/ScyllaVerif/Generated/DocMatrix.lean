import ScyllaVerif.Model.Carrier
/-
The documented compatibility matrix, transcribed ONCE BY HAND from `/repo/docs/source/data-types/data-types.md`
(lines 12-37: "Database types and their Rust equivalents") and `collections.md` (List ↔ `Vec<T>`; Set ↔ `Vec<T>`,
`HashSet<T>`, `BTreeSet<T>`; Map ↔ `HashMap<K, V>`, `BTreeMap<K, V>`), `tuple.md`, `vector.md` (Vector ↔ `Vec<T>`).
It is independent of `Model/Carrier.lean`'s `accepts` / `deserAccepts` (only the carrier / type syntax is shared);
`Props/C17.lean` compares the two over all pairs of two nesting levels (a TEST, labelled as such).
-/
namespace ScyllaVerif.DocMatrix
open ScyllaVerif.Cql ScyllaVerif.Carrier

/-- `* Boolean <----> bool` … `* Varint <----> value::CqlVarint, …` -/
def docNatives : Scalar → List NativeTy
  | .bool => [.boolean]
  | .i8 => [.tinyint]
  | .i16 => [.smallint]
  | .i32 => [.int]
  | .i64 => [.bigint]
  | .f32 => [.float]
  | .f64 => [.double]
  | .str => [.ascii, .text]          -- `Ascii`, `Text`, `Varchar` <----> `&str`, `String`, `Box<str>`, `Arc<str>`
  | .counter => [.counter]           -- `value::Counter`
  | .blob => [.blob]                 -- `&[u8]`, `Vec<u8>`, `Bytes`, `[u8; N]`
  | .inet => [.inet]
  | .uuid => [.uuid]
  | .timeuuid => [.timeuuid]
  | .date => [.date]
  | .time => [.time]
  | .timestamp => [.timestamp]
  | .duration => [.duration]
  | .decimal => [.decimal]
  | .varint => [.varint]

/-- The documented pairs, one nesting level of documentation rule per constructor (`Option` / `MaybeUnset` /
`MaybeEmpty` wrap any of them: `statements/values.md`). -/
def docAccepts : Carrier → CqlTy → Bool
  | .scalar s, .native n => (docNatives s).contains n
  | .opt c, t => docAccepts c t
  | .maybeUnset c, t => docAccepts c t
  | .maybeEmpty c, t => docAccepts c t
  | .vec c, .list e => docAccepts c e          -- `List` <----> `Vec<T>`
  | .vec c, .set e => docAccepts c e           -- `Set` <----> `Vec<T>`
  | .vec c, .vector e _ => docAccepts c e      -- `Vector` <----> `Vec<T>`
  | .hashSet c, .set e => docAccepts c e       -- `Set` is represented as `Vec<T>`, `HashSet<T>` or `BTreeSet<T>`
  | .btreeSet c, .set e => docAccepts c e
  | .hashMap k v, .map kt vt => docAccepts k kt && docAccepts v vt   -- `Map` … `HashMap<K, V>` or `BTreeMap<K, V>`
  | .btreeMap k v, .map kt vt => docAccepts k kt && docAccepts v vt
  | .tuple [c1], .tuple [t1] => docAccepts c1 t1                      -- `Tuple` <----> Rust tuples
  | .tuple [c1, c2], .tuple [t1, t2] => docAccepts c1 t1 && docAccepts c2 t2
  | _, _ => false

/-- The documented pairs plus the three deviations the serialization code itself documents in comments:
set carriers are written through `serialize_sequence`, which takes `List(_) | Set(_)` (value.rs:939-955);
"Allow CQL tuples with more fields than the Rust tuple" (value.rs:862-865); `MaybeEmpty` first checks
`supports_special_empty_value` (value.rs:423-429). -/
def docLooseSer : Carrier → CqlTy → Bool
  | .scalar s, .native n => (docNatives s).contains n
  | .opt c, t => docLooseSer c t
  | .maybeUnset c, t => docLooseSer c t
  | .maybeEmpty c, t => t.supportsEmpty && docLooseSer c t
  | .vec c, .list e => docLooseSer c e
  | .vec c, .set e => docLooseSer c e
  | .vec c, .vector e _ => docLooseSer c e
  | .hashSet c, .set e => docLooseSer c e
  | .btreeSet c, .set e => docLooseSer c e
  | .hashSet c, .list e => docLooseSer c e
  | .btreeSet c, .list e => docLooseSer c e
  | .hashMap k v, .map kt vt => docLooseSer k kt && docLooseSer v vt
  | .btreeMap k v, .map kt vt => docLooseSer k kt && docLooseSer v vt
  | .tuple [c1], .tuple (t1 :: _) => docLooseSer c1 t1
  | .tuple [c1, c2], .tuple (t1 :: t2 :: _) => docLooseSer c1 t1 && docLooseSer c2 t2
  | _, _ => false

/-! ### the finite universes of the comparison -/

def allScalars : List Scalar :=
  [.i8, .i16, .i32, .i64, .f32, .f64, .bool, .str, .blob, .inet, .uuid, .timeuuid, .date, .time, .timestamp,
   .duration, .varint, .decimal, .counter]

def allNatives : List NativeTy :=
  [.ascii, .boolean, .blob, .counter, .date, .decimal, .double, .duration, .float, .int, .bigint, .text,
   .timestamp, .inet, .smallint, .tinyint, .time, .timeuuid, .uuid, .varint]

/-- `impl Emptiable for …` (`value.rs:66-105`): the leaves `MaybeEmpty<T>` can be instantiated with. -/
def emptiable : List Scalar :=
  [.bool, .i8, .i16, .i32, .i64, .f32, .f64, .varint, .decimal, .date, .time, .timestamp, .timeuuid, .inet, .uuid]

/-- One more nesting level of carriers over `cs` (maps / 2-tuples pair with fixed leaves). -/
def wrapCarriers (cs : List Carrier) : List Carrier :=
  cs.flatMap (fun c => [.opt c, .vec c, .hashSet c, .btreeSet c, .tuple [c], .hashMap (.scalar .i32) c,
    .btreeMap c (.scalar .str), .tuple [.scalar .i32, c]])

/-- One more nesting level of column types over `ts` (maps / 2-tuples pair with fixed natives). -/
def wrapTypes (ts : List CqlTy) : List CqlTy :=
  ts.flatMap (fun t => [.list t, .set t, .vector t 2, .tuple [t], .tuple [t, t, t], .udt "ks" "typ" [("a", t)],
    .map (.native .int) t, .map t (.native .text), .tuple [.native .int, t]])

/-- Carriers of nesting ≤ 1 over ALL leaves (167). -/
def carriers1 : List Carrier :=
  emptiable.map (fun s => .maybeEmpty (.scalar s)) ++ wrapCarriers (allScalars.map .scalar)
/-- Column types of nesting ≤ 1 over ALL natives (200). -/
def types1 : List CqlTy := allNatives.map .native ++ wrapTypes (allNatives.map .native)

/-- Carriers of nesting exactly 2 over one leaf (64), column types of nesting ≤ 2 over two natives (200). -/
def carriers2 : List Carrier := wrapCarriers (wrapCarriers [.scalar .i32])
def types2 : List CqlTy :=
  let t0 : List CqlTy := [.native .int, .native .text]
  let t1 := t0 ++ wrapTypes t0
  t1 ++ wrapTypes t1

end ScyllaVerif.DocMatrix

import ScyllaVerif.Model.StreamMap
import ScyllaVerif.Model.Conn
import ScyllaVerif.Model.FrameStream
import ScyllaVerif.Proofs.StreamMap
import ScyllaVerif.Proofs.Conn
import ScyllaVerif.Proofs.FrameStream
import ScyllaVerif.Model.ConnIO
import ScyllaVerif.Proofs.ConnIO
import ScyllaVerif.Model.Pool
import ScyllaVerif.Proofs.Pool
import ScyllaVerif.Model.Routing
import ScyllaVerif.Proofs.PoolRefiller
import ScyllaVerif.Props.C02
import ScyllaVerif.Model.Retry
import ScyllaVerif.Model.Exec
import ScyllaVerif.Model.PoolReconnect
import ScyllaVerif.Model.PoolKeyspace
import ScyllaVerif.Proofs.PoolReconnect
import ScyllaVerif.Model.C10MetaFetch
/-!
# C10 — when a connection dies every request in flight on it fails promptly; none hangs

Model: `Model/Conn.lean` (the C02 transition system; `break_ k` = the router's `try_join!` ended with error `k`:
reader I/O / header error, writer error, orphan threshold, keep-alive timeout, keep-alive request error;
a `Missing` lookup breaks it too) and `Model/FrameStream.lean` (`read_response_frame`).
The theorems show that the state machine leaves no waiter once the break event occurs, for every reachable state
(every event history, every in-flight set). That the event occurs promptly in real time (tokio timers, OS socket
errors) is outside the model; the end-to-end half of the harness observes it under virtual time (a test).
-/
namespace ScyllaVerif.Props.C10
open ScyllaVerif.StreamMap ScyllaVerif.Conn ScyllaVerif.FrameStream ScyllaVerif.ConnIO

/-! ## 1. a break completes everyone -/

/-- After the router ended (for whatever reason) no caller is left waiting, except one that is in the middle of
`submit_channel.send()` — it obtained channel capacity before the channel was closed and has not pushed its task
yet (`permits`); its own next step completes it (`push_after_break_fails`). Everybody else has an outcome in its
oneshot (`delivered`), has returned (`done`) or had been abandoned. For every state satisfying the invariant, hence
(`inv_reachable`) for every event history and in-flight set. -/
theorem break_completes_everyone (c : Conn) (h : Inv c) (k : BreakKind) (r : Nat)
    (hw : getCaller (doBreak c k).callers r = some .waiting) : r ∈ c.permits := by
  have hi := (h.callers.doBreak k).tracked r hw
  rcases hi with m | m | ⟨s, hs⟩ | m
  · cases m
  · cases m
  · cases hs
  · exact m

/-- The same for the event itself … -/
theorem break_event_completes_everyone (c : Conn) (h : Inv c) (hb : c.broken = false) (k : BreakKind) (r : Nat) :
    (step c (.break_ k)).broken = true ∧
      (getCaller (step c (.break_ k)).callers r = some .waiting → r ∈ (step c (.break_ k)).permits) := by
  simp only [step, hb, Bool.false_eq_true, if_false]
  exact ⟨rfl, break_completes_everyone c h k r⟩

/-- … and in general: in every reachable state with a dead router, whoever waits is in that window. -/
theorem broken_waiter_holds_permit (evs : List Ev) (r : Nat) (hb : (run Conn.init evs).broken = true)
    (hw : getCaller (run Conn.init evs).callers r = some .waiting) : r ∈ (run Conn.init evs).permits := by
  have h := Inv.reachable evs
  obtain ⟨hq, hs, _, hh, _⟩ := h.map.brk hb
  rcases h.callers.tracked r hw with m | m | ⟨s, hs'⟩ | m
  · rw [hs] at m; cases m
  · rw [hq] at m; cases m
  · rw [hh] at hs'; cases hs'
  · exact m

theorem broken_no_waiter (evs : List Ev) (r : Nat) (hb : (run Conn.init evs).broken = true)
    (hp : (run Conn.init evs).permits = []) :
    getCaller (run Conn.init evs).callers r ≠ some .waiting := by
  intro hw
  have := broken_waiter_holds_permit evs r hb hw
  rw [hp] at this; cases this

/-- The window closes: the racing caller's push reaches the drain loop (`receiver.close()` + `recv()` until every
outstanding permit is used up), which fails the task with the error that broke the connection. This is the hang
repaired by /repo commit 8b0b75c. -/
theorem push_after_break_fails (c : Conn) (h : Inv c) (hb : c.broken = true) (r : Nat) (hp : r ∈ c.permits)
    (hw : getCaller c.callers r = some .waiting) :
    ∃ k, c.cause = some k ∧
      getCaller (step c (.push r)).callers r = some (.delivered (.err (.broken k))) := by
  obtain ⟨_, _, _, _, k, hk⟩ := h.map.brk hb
  refine ⟨k, hk, ?_⟩
  have hc : c.permits.contains r = true := by simpa using hp
  simp only [step, hc, hb, if_true, getCaller_deliver, hw, drainErr, hk]
  simp

theorem push_permits (c : Conn) (r : Nat) : (step c (.push r)).permits = c.permits.filter (· != r) := by
  simp only [step]
  split
  · split <;> rfl
  · rename_i hc
    have hc : r ∉ c.permits := by simpa using hc
    symm
    apply List.filter_eq_self.mpr
    intro x hx
    have : x ≠ r := fun e => hc (e ▸ hx)
    simpa using this

theorem pushes_permits (l : List Nat) (c : Conn) :
    ∀ x, x ∈ (run c (l.map Ev.push)).permits → x ∈ c.permits ∧ x ∉ l := by
  unfold Conn.run
  induction l generalizing c with
  | nil => intro x hx; exact ⟨hx, by simp⟩
  | cons r rest ih =>
    intro x hx
    simp only [List.map_cons, List.foldl_cons] at hx
    have := ih (step c (.push r)) x hx
    rw [push_permits] at this
    have hm := List.mem_filter.mp this.1
    have hne : x ≠ r := by simpa using hm.2
    exact ⟨hm.1, by simp [hne, this.2]⟩

theorem run_broken_stays (evs : List Ev) (c : Conn) (hb : c.broken = true)
    (hstep : ∀ c e, c.broken = true → (step c e).broken = true) : (run c evs).broken = true := by
  unfold Conn.run
  induction evs generalizing c with
  | nil => exact hb
  | cons e rest ih => exact ih (step c e) (hstep c e hb)

/-- What each waiter gets: a registered or queued one the error that broke the connection, one parked for
channel capacity `ChannelError`, one in the push window nothing yet. Nothing else changes (in particular a
delivered response stays delivered). -/
theorem break_outcomes (c : Conn) (k : BreakKind) (r : Nat) :
    getCaller (doBreak c k).callers r =
      if getCaller c.callers r = some .waiting then
        (if r ∈ c.map.handlers.map (·.2) ∨ r ∈ c.queue then some (.delivered (.err (.broken k)))
         else if r ∈ c.sending then some (.delivered (.err .channelError))
         else some .waiting)
      else getCaller c.callers r :=
  doBreak_callers c k r

theorem break_fails_waiters (c : Conn) (h : Inv c) (k : BreakKind) (r : Nat)
    (hw : getCaller c.callers r = some .waiting) (hp : r ∉ c.permits) :
    getCaller (doBreak c k).callers r = some (.delivered (.err (.broken k))) ∨
    getCaller (doBreak c k).callers r = some (.delivered (.err .channelError)) := by
  have hne := break_completes_everyone c h k r
  rw [break_outcomes] at *
  simp only [hw, if_true] at *
  split
  · exact Or.inl rfl
  · rename_i h1
    simp only [h1, if_false] at hne
    split
    · exact Or.inr rfl
    · rename_i h2; simp only [h2, if_false] at hne; exact absurd (hne trivial) hp

/-- non-vacuity: four requests — one written, one queued behind it, one answered but not yet polled, one in the
push window — and a keep-alive timeout; then the racing push. -/
example :
    let c := run Conn.init [.submit, .submit, .writerTake, .writerTake, .respond 1, .submit, .submitRace,
      .break_ .keepaliveTimeout]
    getCaller c.callers 0 = some (.delivered (.err (.broken .keepaliveTimeout))) ∧
    getCaller c.callers 1 = some (.delivered (.frame 1)) ∧
    getCaller c.callers 2 = some (.delivered (.err (.broken .keepaliveTimeout))) ∧
    getCaller c.callers 3 = some .waiting ∧ c.permits = [3] ∧
    getCaller (step c (.push 3)).callers 3 = some (.delivered (.err (.broken .keepaliveTimeout))) ∧
    (step c (.push 3)).permits = [] := by decide +kernel

/-- The router BEFORE /repo commit 8b0b75c merely dropped the receiver: a task pushed afterwards by a sender that
already held capacity stayed in the dead channel for as long as the connection lived. -/
def pushOld (c : Conn) (r : Nat) : Conn :=
  if c.broken && c.permits.contains r then { c with permits := c.permits.filter (· != r) }
  else step c (.push r)

/-- Counterexample OF THE OLD MODEL (documentation of the repaired defect, not a statement about the current
code): the racing caller is still waiting although the router is gone, the channel is empty, nobody holds capacity
any more — no step of the system will ever complete it. -/
example :
    let c := pushOld (run Conn.init [.submitRace, .break_ .frameHeaderParseError]) 0
    c.broken = true ∧ c.permits = [] ∧ c.queue = [] ∧ c.sending = [] ∧
      getCaller c.callers 0 = some .waiting := by decide +kernel

/-! ## 2. after the break -/

theorem broken_stays (c : Conn) (e : Ev) (hb : c.broken = true) : (step c e).broken = true := by
  cases e <;> simp only [step, hb, if_true] <;> try rfl
  all_goals (split <;> first | rfl | exact hb)

/-- Once every caller of the push window has pushed, nobody at all is waiting: the race window leaves no hang. -/
theorem race_window_drains (c : Conn) (h : Inv c) (hb : c.broken = true) (r : Nat) :
    getCaller (run c (c.permits.map Ev.push)).callers r ≠ some .waiting := by
  intro hw
  have hinv : Inv (run c (c.permits.map Ev.push)) := h.run _
  have hb' := run_broken_stays (c.permits.map Ev.push) c hb broken_stays
  obtain ⟨hq, hs, _, hh, _⟩ := hinv.map.brk hb'
  rcases hinv.callers.tracked r hw with m | m | ⟨s, hs'⟩ | m
  · rw [hs] at m; cases m
  · rw [hq] at m; cases m
  · rw [hh] at hs'; cases hs'
  · have := pushes_permits c.permits c r m
    exact this.2 this.1

/-- A request submitted after the break fails immediately with `ChannelError`. -/
theorem after_break_submit_fails (c : Conn) (hb : c.broken = true) :
    getCaller (step c .submit).callers c.nextReq = some (.done (.err .channelError)) := by
  simp [step, hb, getCaller_setCaller]

/-- A caller holds a response frame. -/
def holdsFrame (c : Conn) (r f : Nat) : Prop :=
  getCaller c.callers r = some (.delivered (.frame f)) ∨ getCaller c.callers r = some (.done (.frame f))

/-- After the break nobody is handed a response any more: the set of callers holding a frame does not grow. -/
theorem no_delivery_after_break_step (c : Conn) (e : Ev) (hb : c.broken = true) (r f : Nat)
    (h : holdsFrame (step c e) r f) : holdsFrame c r f := by
  unfold holdsFrame at *
  cases e with
  | submit =>
    simp only [step, hb, if_true, getCaller_setCaller] at h
    split at h
    · rcases h with e | e <;> cases e
    · exact h
  | submitFull =>
    simp only [step, hb, if_true, getCaller_setCaller] at h
    split at h
    · rcases h with e | e <;> cases e
    · exact h
  | enqueue r' => simpa only [step, hb, if_true] using h
  | submitRace =>
    simp only [step, hb, if_true, getCaller_setCaller] at h
    split at h
    · rcases h with e | e <;> cases e
    · exact h
  | push r' =>
    simp only [step, hb, if_true] at h
    split at h
    · simp only [getCaller_deliver] at h
      split at h
      · rcases h with e | e <;> cases e
      · exact h
    · exact h
  | writerTake => simpa only [step, hb, if_true] using h
  | orphanerStep => simpa only [step, hb, if_true] using h
  | respond i => simpa only [step, hb, if_true] using h
  | unsolicited s => simpa only [step, hb, if_true] using h
  | break_ k => simpa only [step, hb, if_true] using h
  | cancel r' =>
    simp only [step] at h
    split at h
    · simp only [getCaller_setCaller] at h
      split at h
      · rcases h with e | e <;> cases e
      · exact h
    · simp only [getCaller_setCaller] at h
      split at h
      · rcases h with e | e <;> cases e
      · exact h
    · exact h
  | recv r' =>
    simp only [step] at h
    split at h
    · rename_i o hg
      simp only [getCaller_setCaller] at h
      split at h
      · rename_i e; subst e
        rcases h with e | e
        · cases e
        · simp only [Option.some.injEq, CallerSt.done.injEq] at e
          subst e; exact Or.inl hg
      · exact h
    · exact h

theorem no_delivery_after_break (c : Conn) (evs : List Ev) (hb : c.broken = true) (r f : Nat)
    (h : holdsFrame (run c evs) r f) : holdsFrame c r f := by
  unfold Conn.run at h
  induction evs generalizing c with
  | nil => exact h
  | cons e rest ih =>
    exact no_delivery_after_break_step c e hb r f (ih (step c e) (broken_stays c e hb) h)

/-! ## 3. the faults -/

/-- A frame on a stream `s ≥ 0` that is NOT outstanding at the server (never asked, or answered already) breaks the
connection (`UnexpectedStreamId`) and everybody in flight is completed. This is the whole domain of the statement:
frames on negative streams are ignored (`negative_stream_ignored`), a frame on an outstanding stream is that
request's answer — dropped without a break if the id was orphaned (`orphaned_answer_is_dropped`,
`outstanding_stream_no_break`). Non-vacuity: the example after `unowed_stream_frame_breaks`. -/
theorem unsolicited_stream_breaks (c : Conn) (h : Inv c) (hb : c.broken = false) (s : Nat) (hs : s < 32768)
    (hno : ∀ r, (s, r) ∉ c.server) :
    (step c (.unsolicited s)).broken = true ∧ (step c (.unsolicited s)).cause = some .unexpectedStreamId ∧
      ∀ r, getCaller (step c (.unsolicited s)).callers r = some .waiting → r ∈ c.permits := by
  have hany : ¬ (c.server.any (fun p => p.1 == s)) = true := by
    intro ha
    obtain ⟨⟨s', r'⟩, hm, e⟩ := List.any_eq_true.mp ha
    have : s' = s := by simpa using e
    subst this
    exact hno r' hm
  have hs' : ¬ idCount ≤ s := by unfold idCount; omega
  have hstr := not_mem_streams_of_any hany
  have e : step c (.unsolicited s) =
      doBreak ({ c with map := { c.map with ids := c.map.ids.free s } } : Conn) .unexpectedStreamId := by
    simp only [step, hb, Bool.false_eq_true, if_false, hs', hany, lookup_unowed h.map hstr]
  rw [e]
  refine ⟨rfl, rfl, ?_⟩
  intro r
  exact break_completes_everyone _ ⟨h.map.freeUnowed hstr, { h.callers with }⟩ _ r

/-- Event level only: the break event with cause `KeepaliveTimeout` is `doBreak` (an unfolding) and completes
everybody. That the keepaliver actually raises it when the peer stops answering is `keepalive_no_response_breaks` /
`keepalive_stall_breaks` below, about `Model/ConnIO.lean` `kaTurn`. -/
theorem keepalive_timeout_breaks (c : Conn) (h : Inv c) (hb : c.broken = false) (r : Nat) :
    step c (.break_ .keepaliveTimeout) = doBreak c .keepaliveTimeout ∧
    (step c (.break_ .keepaliveTimeout)).cause = some .keepaliveTimeout ∧
    (getCaller (step c (.break_ .keepaliveTimeout)).callers r = some .waiting → r ∈ c.permits) := by
  have e : step c (.break_ .keepaliveTimeout) = doBreak c .keepaliveTimeout := by
    simp only [step, hb, Bool.false_eq_true, if_false]
  rw [e]
  exact ⟨rfl, rfl, break_completes_everyone c h _ r⟩

/-! ## 4. a cut at any byte offset never yields a partial or foreign frame -/

/-- Reading the first `k` bytes of any sequence of (wire-representable) response frames yields exactly the first
`n` frames for some `n` — never a truncated, altered or invented frame —, and the stream then ends `clean` only
if the cut is exactly on the boundary after them; otherwise the reader reports a cut inside the header or the
body (`FrameHeaderParseError` → break). It never reports a bad header. `n` is maximal: the next frame, if there is
one, is not completely inside the first `k` bytes. (`boundary` is not a success either: on EOF the reader fails
there too — `eof_always_breaks`.) -/
theorem cut_never_partial (frames : List Frame) (hwf : ∀ f ∈ frames, f.wf) (k : Nat) :
    ∃ n, n ≤ frames.length ∧ (readFrames ((encodeAll frames).take k)).1 = frames.take n ∧
      (encodeAll (frames.take n)).length ≤ k ∧
      ((readFrames ((encodeAll frames).take k)).2 = .boundary ↔
          (k = (encodeAll (frames.take n)).length ∨ (n = frames.length ∧ (encodeAll frames).length ≤ k))) ∧
      (∀ w, (readFrames ((encodeAll frames).take k)).2 ≠ .badHeader w) ∧
      (n = frames.length ∨ k < (encodeAll (frames.take (n + 1))).length) :=
  readFrames_take frames hwf k

/-- The uncut stream reads back exactly. -/
theorem read_all (frames : List Frame) (hwf : ∀ f ∈ frames, f.wf) :
    readFrames (encodeAll frames) = (frames, .boundary) := by
  induction frames with
  | nil => exact readFrames_nil
  | cons f fs ih =>
    have hall : encodeAll (f :: fs) = encode f ++ encodeAll fs := by simp [encodeAll]
    rw [hall, readFrames_frame (readFrame_encode f (hwf f List.mem_cons_self) _),
      ih (fun g hg => hwf g (List.mem_cons_of_mem _ hg))]

/-- non-vacuity: two frames, cut inside the second body. -/
example :
    let f1 : Frame := ⟨0, 3, 0x08, [1, 2]⟩
    let f2 : Frame := ⟨0, 7, 0x08, [9, 9, 9]⟩
    readFrames ((encodeAll [f1, f2]).take 21) = ([f1], .cutInBody 2 3) := by decide +kernel

/-- Corruption beyond truncation — ARBITRARY bytes: whatever the peer sends, a frame the reader returns is
exactly the bytes it consumed (the validated 9-byte header and a body of exactly the announced length, nothing
more, nothing less) and is wire-representable. No partial frame is ever delivered. -/
theorem returned_frame_is_exact (bytes : List UInt8) (f : Frame) (rest : List UInt8)
    (h : readFrame bytes = .frame f rest) : bytes = encode f ++ rest ∧ f.wf :=
  readFrame_exact bytes f rest h

/-- NO 1 MiB BOUND. `read_response_frame` preallocates `min(length, 1 MiB)` for the body (`MAX_BODY_PREALLOCATION`;
the growth of the buffer beyond it is C08's `readBodyLoop`, `Proofs/C08BodyRead.lean` `readBody_alloc`) but its READ
LIMIT is the announced `length`: a frame whose body is longer than the preallocation cap is read whole - the model's
frame read takes exactly `length` bytes whatever their number - and what follows it on the wire is the next frame's
header, not this body's tail. (An instance of `Proofs.FrameStream.readFrame_encode`, stated for the large case because
the seeded change C02-7 made the cap the limit; driven by the `B` operation of the `conn` schedules: bodies of 2^20 - 1,
2^20, 2^20 + 1, 2^20 + 37 and several MiB whose tail looks like a frame for another stream in flight.) -/
theorem large_body_is_read_whole (f g : Frame) (hf : f.wf) (hg : g.wf) (_hbig : 1048576 ≤ f.body.length)
    (rest : List UInt8) :
    readFrame (encode f ++ rest) = .frame f rest ∧
    readFrame (encode f ++ (encode g ++ rest)) = .frame f (encode g ++ rest) ∧
    readFrame (encode g ++ rest) = .frame g rest :=
  ⟨readFrame_encode f hf rest, readFrame_encode f hf _, readFrame_encode g hg rest⟩

/-! ## 5. from bytes to the break: the reader (`Model/ConnIO.lean`) -/

/-- In a state with a dead router, whoever waits is in the push window (`broken_waiter_holds_permit` for any
state satisfying the invariant). -/
theorem inv_broken_waiter (c : Conn) (h : Inv c) (hb : c.broken = true) (r : Nat)
    (hw : getCaller c.callers r = some .waiting) : r ∈ c.permits := by
  obtain ⟨hq, hs, _, hh, _⟩ := h.map.brk hb
  rcases h.callers.tracked r hw with m | m | ⟨s, hs'⟩ | m
  · rw [hs] at m; cases m
  · rw [hq] at m; cases m
  · rw [hh] at hs'; cases hs'
  · exact m

/-- The reader is "deliver the whole frames in order, then judge the end of the bytes" (`reader` is the
recursion the drivers execute; this is the form the theorems use). -/
theorem reader_is_deliver_then_end (c : Conn) (bytes : List UInt8) (eof : Bool) :
    (reader c bytes eof).1 = readerEnd (deliverFrames c (readFrames bytes).1) (readFrames bytes).2 eof :=
  reader_eq bytes c eof

/-- Whatever bytes arrived — whole frames, a cut header, a cut body, garbage, or NOTHING AT ALL after the last
frame (EOF exactly on a frame boundary: `read_exact` fails with `HeaderIoError`) — once the peer has closed the
router has ended, and nobody is left waiting (outside the push window). -/
theorem eof_always_breaks (c : Conn) (h : Inv c) (bytes : List UInt8) :
    (reader c bytes true).1.broken = true ∧
    ∀ r, getCaller (reader c bytes true).1.callers r = some .waiting → r ∈ (reader c bytes true).1.permits :=
  ⟨reader_eof_broken c bytes,
   fun r hw => inv_broken_waiter _ (inv_reader h bytes true) (reader_eof_broken c bytes) r hw⟩

/-- non-vacuity of the boundary case: one request answered by one whole frame, then FIN: the second request's
caller gets the error although the stream ended "cleanly" between frames. -/
example :
    let c := run Conn.init [.submit, .submit, .writerTake, .writerTake]
    let c' := (reader c (encode ⟨0, 1, 0x08, [7]⟩) true).1
    c'.broken = true ∧ getCaller c'.callers 1 = some (.delivered (.frame 1)) ∧
      getCaller c'.callers 0 = some (.delivered (.err (.broken .frameHeaderParseError))) := by decide +kernel

theorem answers_take {c : Conn} {fs : List Frame} (h : Answers c fs) (n : Nat) : Answers c (fs.take n) := by
  refine ⟨?_, fun f hf => h.2 f (List.mem_of_mem_take hf)⟩
  have : (fs.take n).map (·.stream) = (fs.map (·.stream)).take n := by simp
  rw [this]
  exact List.Nodup.sublist (List.take_sublist _ _) h.1

theorem readerEnd_keeps {c : Conn} {r : Nat} {st : CallerSt} (hs : getCaller c.callers r = some st)
    (hne : st ≠ .waiting) (t : Tail) (e : Bool) : getCaller (readerEnd c t e).callers r = some st := by
  have key : ∀ k, getCaller (step c (.break_ k)).callers r = some st := by
    intro k
    simp only [step]
    split
    · exact hs
    · exact doBreak_keeps hs hne k
  unfold readerEnd
  cases t <;> simp only <;> (try split) <;> first | exact hs | exact key _

/-- THE END-TO-END STATEMENT. The server writes any sequence of wire-representable frames; the connection is cut
after ANY number `k` of bytes and the peer closes. Then, for the number `n` of frames completely inside the first
`k` bytes (`cut_never_partial`: the reader sees exactly `frames.take n`, `n` maximal):
  1. the router has ended;
  2. the final state is: `frames.take n` delivered in order, then the break;
  3. a caller holds a response only if it held it before or one of those `n` complete frames is on the stream
     that carried its request (no response is manufactured from the cut-off bytes or for anybody else), and a
     response a caller holds is the one for its own request;
  4. if the frames answer distinct outstanding requests, every one of the first `n` addressees that was still
     waiting holds its own response;
  5. every other caller that was waiting has an error (nobody is left waiting outside the push window). -/
theorem cut_then_eof (c : Conn) (h : Inv c) (hb : c.broken = false) (frames : List Frame)
    (hwf : ∀ f ∈ frames, f.wf) (k : Nat) :
    ∃ n t, n ≤ frames.length ∧ (n = frames.length ∨ k < (encodeAll (frames.take (n + 1))).length) ∧
      (encodeAll (frames.take n)).length ≤ k ∧
      let c' := (reader c ((encodeAll frames).take k) true).1
      c' = readerEnd (deliverFrames c (frames.take n)) t true ∧
      c'.broken = true ∧
      (∀ r g, holds c' r g → g = r ∧
        (holds c r g ∨ ∃ f, f ∈ frames.take n ∧ 0 ≤ f.stream ∧ (f.stream.toNat, r) ∈ c.server)) ∧
      (Answers c frames → ∀ f, f ∈ frames.take n → ∀ r, (f.stream.toNat, r) ∈ c.server →
        getCaller c.callers r = some .waiting → getCaller c'.callers r = some (.delivered (.frame r))) ∧
      (∀ r, getCaller c'.callers r = some .waiting → r ∈ c'.permits) := by
  obtain ⟨n, hn, hpre, hle, _, _, hmax⟩ := readFrames_take frames hwf k
  refine ⟨n, (readFrames ((encodeAll frames).take k)).2, hn, hmax, hle, ?_⟩
  have heq := reader_eq ((encodeAll frames).take k) c true
  rw [hpre] at heq
  have hinv : Inv (reader c ((encodeAll frames).take k) true).1 := inv_reader h _ true
  have hbr := reader_eof_broken c ((encodeAll frames).take k)
  refine ⟨heq, hbr, ?_, ?_, fun r hw => inv_broken_waiter _ hinv hbr r hw⟩
  · intro r g hh
    refine ⟨hinv.callers.own r g hh, ?_⟩
    rw [heq] at hh
    exact (deliverFrames_effect h _).2 r g (readerEnd_holds _ _ r g hh)
  · intro ha f hf r hm hw
    have := (deliverFrames_delivers h hb (frames.take n) (answers_take ha n)).2 f hf r hm hw
    rw [heq]
    exact readerEnd_keeps this (by intro e; cases e) _ _

/-! ### bytes -/

theorem encodeAll_mem_split (fs : List Frame) (f : Frame) (hf : f ∈ fs) :
    ∃ pre post, encodeAll fs = pre ++ encode f ++ post := by
  induction fs with
  | nil => cases hf
  | cons g rest ih =>
    rcases List.mem_cons.mp hf with e | m
    · subst e; exact ⟨[], encodeAll rest, by simp [encodeAll]⟩
    · obtain ⟨pre, post, h⟩ := ih m
      exact ⟨encode g ++ pre, post, by simp [encodeAll] at h ⊢; rw [h]⟩

/-- BYTE-LEVEL IDENTITY OF A RESPONSE. Whatever bytes arrive: if, after the reader has processed them, caller `r`
holds a response it did not hold before, then the frame it was handed (`answerOf`: the first whole frame on the
stream that carried `r`'s request) is one of the frames the reader returned, it is on the stream of an entry
`(stream, r)` outstanding at the server, and its exact encoding — validated header and the whole body — is a
contiguous slice of the bytes the peer sent. The model's `Outcome.frame r` names the request; this theorem names the
bytes behind it. -/
theorem delivered_frame_was_sent (c : Conn) (h : Inv c) (bytes : List UInt8) (eof : Bool) (r g : Nat)
    (hnew : holds (reader c bytes eof).1 r g) (hold : ¬ holds c r g) :
    g = r ∧ ∃ f, answerOf c (readFrames bytes).1 r = some f ∧ f ∈ (readFrames bytes).1 ∧ 0 ≤ f.stream ∧
      (f.stream.toNat, r) ∈ c.server ∧ ∃ pre post, bytes = pre ++ encode f ++ post := by
  have hinv := inv_reader h bytes eof
  refine ⟨hinv.callers.own r g hnew, ?_⟩
  rw [reader_eq] at hnew
  rcases (deliverFrames_effect h _).2 r g (readerEnd_holds _ _ r g hnew) with h0 | ⟨f0, hf0, hp0, hm0⟩
  · exact absurd h0 hold
  · -- some frame qualifies, so `find?` returns one, and whatever it returns qualifies
    have hex : ∃ f, answerOf c (readFrames bytes).1 r = some f := by
      unfold answerOf
      cases hfind : (readFrames bytes).1.find?
          (fun f => decide (0 ≤ f.stream) && c.server.contains (f.stream.toNat, r)) with
      | some f => exact ⟨f, rfl⟩
      | none =>
        exfalso
        have := List.find?_eq_none.mp hfind f0 hf0
        simp [hp0] at this
        exact this hm0
    obtain ⟨f, hf⟩ := hex
    have hmem : f ∈ (readFrames bytes).1 := List.mem_of_find?_eq_some hf
    have hprop := List.find?_some hf
    simp only [Bool.and_eq_true, decide_eq_true_eq] at hprop
    have hsrv : (f.stream.toNat, r) ∈ c.server := by simpa using hprop.2
    obtain ⟨rest, hb⟩ := readFrames_exact bytes
    obtain ⟨pre, post, hsp⟩ := encodeAll_mem_split _ f hmem
    exact ⟨f, hf, hmem, hprop.1, hsrv, pre, post ++ rest, by rw [hb, hsp]; simp⟩

/-- non-vacuity: three requests, the server answers 2 then 0, the stream is cut inside the second frame's body and
closed: request 2 holds its response, 0 and 1 hold the connection error. -/
example :
    let c := run Conn.init [.submit, .submit, .submit, .writerTake, .writerTake, .writerTake]
    let bytes := encodeAll [⟨0, 2, 0x08, [1, 2]⟩, ⟨0, 0, 0x08, [3, 4, 5]⟩]
    let c' := (reader c (bytes.take 20) true).1
    c'.broken = true ∧ getCaller c'.callers 2 = some (.delivered (.frame 2)) ∧
      getCaller c'.callers 0 = some (.delivered (.err (.broken .frameHeaderParseError))) ∧
      getCaller c'.callers 1 = some (.delivered (.err (.broken .frameHeaderParseError))) := by decide +kernel

/-- A garbage header breaks the connection at once, even while the peer stays. -/
theorem bad_header_breaks (c : Conn) (h : Inv c) (bytes : List UInt8) (eof : Bool) (w : BadHeader)
    (hbad : (readFrames bytes).2 = .badHeader w) :
    (reader c bytes eof).1.broken = true ∧
    ∀ r, getCaller (reader c bytes eof).1.callers r = some .waiting → r ∈ (reader c bytes eof).1.permits :=
  ⟨reader_bad_header_broken c bytes eof w hbad,
   fun r hw => inv_broken_waiter _ (inv_reader h bytes eof) (reader_bad_header_broken c bytes eof w hbad) r hw⟩

/-! ### chunks: a frame may arrive in pieces, with anything else happening in between (`Model/ConnIO.lean` `Wire`) -/

/-- FRAME ALIGNMENT, for every interleaving of chunk arrivals (of any sizes: parts of a header, parts of a body,
several frames at once), a close, and arbitrary events of the connection (submissions, cancellations, orphan
notices, writes, answers routed, breaks): the bytes received so far are always a number of whole, exactly encoded
frames followed by what is still buffered — the reader never loses, repeats or re-synchronises inside a frame. With
`returned_frame_is_exact` this makes byte identity a statement about CHUNKED delivery. It rests on the one structural
assumption written next to `Wire`: a partly received frame survives every other event (the read is never raced
against another future and dropped). -/
theorem wire_is_frame_aligned (evs : List WEv) :
    ∃ fs, (wrun { c := Conn.init } evs).received = encodeAll fs ++ (wrun { c := Conn.init } evs).inbuf :=
  aligned_run ⟨[], rfl⟩ evs

/-- … and the connection's invariant (hence every theorem above) holds along any such history. -/
theorem wire_inv (evs : List WEv) : Inv (wrun { c := Conn.init } evs).c := inv_wrun Inv.init evs

/-- How the response bytes are cut into chunks does not matter: feeding `a`, then `b`, with nothing else happening in
between, leaves exactly the state of feeding `a ++ b` at once. -/
theorem chunking_is_irrelevant (a b : List UInt8) (c : Conn) (eof : Bool) :
    reader (reader c a false).1 ((reader c a false).2 ++ b) eof = reader c (a ++ b) eof :=
  reader_chunks a b c eof

/-- non-vacuity: the answer to request 1 arrives in three pieces (cut inside the header and inside the body) while
request 0 is abandoned and its orphan notice is processed in between: request 1 still gets exactly its frame, nothing
is left in the buffer. -/
example :
    let f : Frame := ⟨0, 1, 0x08, [10, 20, 30, 40]⟩
    let bs := encode f
    let w := wrun { c := run Conn.init [.submit, .submit, .writerTake, .writerTake] }
      [.bytes (bs.take 5), .conn (.cancel 0), .bytes ((bs.drop 5).take 6), .conn .orphanerStep, .bytes (bs.drop 11)]
    w.inbuf = [] ∧ w.c.broken = false ∧ getCaller w.c.callers 1 = some (.delivered (.frame 1)) ∧
      answerOf (run Conn.init [.submit, .submit, .writerTake, .writerTake]) [f] 1 = some f := by decide +kernel

/-! ### which frames break the connection, precisely (`reader` 1637-1683) -/

/-- A frame on a negative stream (`-1`: an event, no event sender in this configuration; `< -1`: reserved) is
ignored: nothing changes. -/
theorem negative_stream_ignored (c : Conn) (f : Frame) (hneg : f.stream < 0) : deliverFrame c f = c := by
  unfold deliverFrame; simp [hneg]

/-- A frame on a non-negative stream that IS outstanding at the server is that request's answer: the router
lives on (also when the id was orphaned: `Orphaned`, the frame is dropped, no break). -/
theorem outstanding_stream_no_break (c : Conn) (h : Inv c) (hb : c.broken = false) (f : Frame)
    (hpos : 0 ≤ f.stream) (hs : f.stream.toNat ∈ srvStreams c) : (deliverFrame c f).broken = false := by
  have := (deliverFrames_delivers h hb [f] ⟨by simp, fun g hg => by
    simp only [List.mem_singleton] at hg; subst hg; exact ⟨hpos, hs⟩⟩).1
  simpa [deliverFrames] using this

theorem orphaned_answer_is_dropped (c : Conn) (h : Inv c) (hb : c.broken = false) (i s r : Nat)
    (hi : c.server[i]? = some (s, r)) (ho : s ∈ c.map.orphans) :
    (step c (.respond i)).broken = false ∧ (step c (.respond i)).callers = c.callers := by
  simp only [step, hb, Bool.false_eq_true, if_false, hi, hlookup_orphaned ho]
  exact ⟨trivial, trivial⟩

/-- A frame on a non-negative stream that is NOT outstanding breaks the connection. (This — `s ≥ 0`, `s` not
outstanding — is the precise domain of `unsolicited_stream_breaks`.) -/
theorem unowed_stream_frame_breaks (c : Conn) (h : Inv c) (hb : c.broken = false) (f : Frame) (hwf : f.wf)
    (hpos : 0 ≤ f.stream) (hs : f.stream.toNat ∉ srvStreams c) :
    (deliverFrame c f).broken = true ∧ (deliverFrame c f).cause = some .unexpectedStreamId := by
  have hidx : c.server.findIdx? (fun p => p.1 == f.stream.toNat) = none := by
    apply List.findIdx?_eq_none_iff.mpr
    intro p hp
    have : p.1 ≠ f.stream.toNat := fun e => hs (e ▸ mem_streams (s := p.1) (r := p.2) hp)
    simpa using this
  have hneg : ¬ f.stream < 0 := by omega
  have hlt : f.stream.toNat < 32768 := by have := hwf.2.2.1; omega
  have := unsolicited_stream_breaks c h hb f.stream.toNat hlt (fun r hm => hs (mem_streams hm))
  unfold deliverFrame
  simp only [hneg, if_false, hidx]
  exact ⟨this.1, this.2.1⟩

/-- non-vacuity of `unsolicited_stream_breaks`: request 0 is outstanding on stream 0; a frame on stream 5 breaks
the connection and request 0 gets `UnexpectedStreamId`. A frame on stream -1 or -7 does not. -/
example :
    let c := run Conn.init [.submit, .writerTake]
    let c5 := deliverFrame c ⟨0, 5, 0x08, []⟩
    c5.broken = true ∧ getCaller c5.callers 0 = some (.delivered (.err (.broken .unexpectedStreamId))) ∧
      deliverFrame c ⟨0, -1, 0x0C, []⟩ = c ∧ (deliverFrame c ⟨0, -7, 0x08, []⟩).broken = false := by
  refine ⟨by decide +kernel, by decide +kernel, negative_stream_ignored _ _ (by decide), ?_⟩
  rw [negative_stream_ignored _ _ (by decide)]; decide +kernel

/-! ### the event stream (a connection with an event sender) -/

theorem break_cause {c : Conn} (hb : c.broken = false) (k : BreakKind) : (step c (.break_ k)).cause = some k := by
  simp only [step, hb, Bool.false_eq_true, if_false]
  rfl


/-- A well-formed EVENT on stream -1 is forwarded — WHEN the event channel takes it (receiver alive, a free slot):
the request path does not notice, one slot is used. -/
theorem wellformed_event_is_forwarded (eventOk : Frame → Bool) (ch : EvChan) (c : Conn) (f : Frame)
    (hs : f.stream = -1) (hb : c.broken = false) (hok : eventOk f = true) (hopen : ch.closed = false)
    (hroom : 0 < ch.room) :
    deliverFrameEv eventOk ch c f = some (c, { ch with room := ch.room - 1 }) := by
  unfold deliverFrameEv
  have : ¬ ch.room = 0 := by omega
  simp [hs, hb, hok, hopen, this]

/-- The receiver of the event channel is gone (`SendError`): even a WELL-FORMED event ends the router with
`CqlEventHandlingError`, and nobody is left waiting. -/
theorem event_receiver_gone_breaks (eventOk : Frame → Bool) (ch : EvChan) (c : Conn) (h : Inv c)
    (hb : c.broken = false) (f : Frame) (hs : f.stream = -1) (hok : eventOk f = true) (hcl : ch.closed = true) :
    ∃ c', deliverFrameEv eventOk ch c f = some (c', ch) ∧ c'.broken = true ∧
      c'.cause = some .cqlEventHandlingError ∧
      ∀ r, getCaller c'.callers r = some .waiting → r ∈ c'.permits := by
  refine ⟨step c (.break_ .cqlEventHandlingError), ?_, break_sets_broken _ _, break_cause hb _, fun r hw =>
    inv_broken_waiter _ (h.step _) (break_sets_broken _ _) r hw⟩
  unfold deliverFrameEv
  simp [hs, hb, hok, hcl]

/-- The event channel is full: the reader blocks ON that frame — it and every byte after it (answers to requests,
to keep-alives) stay unread, the connection state does not move. What ends this is the consumer making room. The
keep-alive does NOT rescue a connection in this state as far as the ROUTER is concerned: the keepaliver's timeout
makes the router's `select!` drop the parked reader and end (`keepalive_silence_breaks` - on such a connection the
probe's answer stays unread behind the event, so the timeout does fire if keep-alive is configured; the control
connection configures it like every connection); without keep-alive nothing in the connection ends the wait
(`eof_does_not_break_a_parked_reader`). -/
theorem full_event_channel_stalls_reader (eventOk : Frame → Bool) (ch : EvChan) (c : Conn) (hb : c.broken = false)
    (f : Frame) (hw : f.wf) (rest : List UInt8) (eof : Bool) (hs : f.stream = -1) (hok : eventOk f = true)
    (hopen : ch.closed = false) (hfull : ch.room = 0) :
    readerEv eventOk ch c (encode f ++ rest) eof = (c, encode f ++ rest, ch) := by
  rw [readerEv]
  simp only [hb, Bool.false_eq_true, if_false]
  have hf := readFrame_encode f hw rest
  split
  · rename_i f' rest' hf'
    rw [hf] at hf'
    cases hf'
    have : deliverFrameEv eventOk ch c f = none := by
      unfold deliverFrameEv; simp [hs, hb, hok, hopen, hfull]
    rw [this]
  · rename_i hne
    exact absurd hf (hne f rest)

/-- Anything else on stream -1 (a non-EVENT opcode, a body that does not parse as an event) ends the router with
`CqlEventHandlingError` whatever the state of the event channel, and nobody is left waiting. -/
theorem malformed_event_breaks (eventOk : Frame → Bool) (ch : EvChan) (c : Conn) (h : Inv c) (hb : c.broken = false)
    (f : Frame) (hs : f.stream = -1) (hbad : eventOk f = false) :
    ∃ c', deliverFrameEv eventOk ch c f = some (c', ch) ∧ c'.broken = true ∧
      c'.cause = some .cqlEventHandlingError ∧
      ∀ r, getCaller c'.callers r = some .waiting → r ∈ c'.permits := by
  refine ⟨step c (.break_ .cqlEventHandlingError), ?_, break_sets_broken _ _, break_cause hb _, fun r hw =>
    inv_broken_waiter _ (h.step _) (break_sets_broken _ _) r hw⟩
  unfold deliverFrameEv
  simp [hs, hb, hbad]

/-- On every other stream the event sender changes nothing. -/
theorem event_sender_only_matters_on_stream_minus_one (eventOk : Frame → Bool) (ch : EvChan) (c : Conn) (f : Frame)
    (hs : f.stream ≠ -1) : deliverFrameEv eventOk ch c f = some (deliverFrame c f, ch) := by
  unfold deliverFrameEv; simp [hs]

/-- non-vacuity: capacity 1, never drained: the first STATUS_CHANGE-like event is forwarded, the second blocks the
reader with the answer of request 0 behind it unread. -/
example :
    let ok : Frame → Bool := fun f => f.opcode == 0x0C
    let c := run Conn.init [.submit, .writerTake]
    let ev : Frame := ⟨0, -1, 0x0C, [1]⟩
    let bytes := encode ev ++ encode ev ++ encode ⟨0, 0, 0x08, [7]⟩
    let r := readerEv ok ⟨false, 1⟩ c bytes false
    r.2.2 = ⟨false, 0⟩ ∧ r.2.1 = encode ev ++ encode ⟨0, 0, 0x08, [7]⟩ ∧
      getCaller r.1.callers 0 = some .waiting := by decide +kernel

/-! ### the reader-level guarantees of section 5, for a connection WITH an event sender -/

/-- The invariant of the connection model holds along `readerEv` (so every statement of sections 1-3 that is
about "a state satisfying `Inv`" applies to a connection with an event sender as well). -/
theorem event_reader_keeps_invariant (eventOk : Frame → Bool) (ch : EvChan) (c : Conn) (h : Inv c)
    (bytes : List UInt8) (eof : Bool) : Inv (readerEv eventOk ch c bytes eof).1 :=
  inv_readerEv eventOk eof bytes.length bytes (Nat.le_refl _) ch c h

/-- `eof_always_breaks` lifted, with its EXACT exception: once the peer has closed, the router of a connection with
an event sender has ended and nobody is left waiting — UNLESS the reader is parked in `event_sender.send(..).await`
on a full event channel (`Parked`: not broken, the next thing buffered is a well-formed event, the channel is open
and has no room). A parked reader has not seen the EOF: it is not reading. -/
theorem eof_breaks_unless_parked_on_events (eventOk : Frame → Bool) (ch : EvChan) (c : Conn) (h : Inv c)
    (bytes : List UInt8) :
    ((readerEv eventOk ch c bytes true).1.broken = true ∧
      ∀ r, getCaller (readerEv eventOk ch c bytes true).1.callers r = some .waiting →
        r ∈ (readerEv eventOk ch c bytes true).1.permits) ∨
    Parked eventOk (readerEv eventOk ch c bytes true) := by
  rcases readerEv_eof eventOk bytes.length bytes (Nat.le_refl _) ch c with hb | hp
  · exact .inl ⟨hb, fun r hw => inv_broken_waiter _ (event_reader_keeps_invariant eventOk ch c h bytes true) hb r hw⟩
  · exact .inr hp

/-- With an event consumer that keeps up (room for every event the bytes can hold) the exception cannot occur:
`eof_always_breaks` holds for the connection with an event sender. -/
theorem eof_breaks_when_events_are_consumed (eventOk : Frame → Bool) (ch : EvChan) (c : Conn) (h : Inv c)
    (bytes : List UInt8) (hroom : bytes.length ≤ ch.room) :
    (readerEv eventOk ch c bytes true).1.broken = true ∧
      ∀ r, getCaller (readerEv eventOk ch c bytes true).1.callers r = some .waiting →
        r ∈ (readerEv eventOk ch c bytes true).1.permits := by
  have hb := readerEv_eof_room eventOk bytes.length bytes (Nat.le_refl _) ch c hroom
  exact ⟨hb, fun r hw => inv_broken_waiter _ (event_reader_keeps_invariant eventOk ch c h bytes true) hb r hw⟩

/-- The death report (section 7) for a connection with an event sender: whenever its router can report a death,
every caller has its outcome. -/
theorem event_connection_death_report (eventOk : Frame → Bool) (ch : EvChan) (c : Conn) (h : Inv c)
    (bytes : List UInt8) (eof : Bool) (k : BreakKind) (hk : (readerEv eventOk ch c bytes eof).1.cause = some k) :
    (readerEv eventOk ch c bytes eof).1.broken = true ∧
      ∀ r, getCaller (readerEv eventOk ch c bytes eof).1.callers r = some .waiting →
        r ∈ (readerEv eventOk ch c bytes eof).1.permits := by
  have hi := event_reader_keeps_invariant eventOk ch c h bytes eof
  have hb : (readerEv eventOk ch c bytes eof).1.broken = true := by
    cases hb : (readerEv eventOk ch c bytes eof).1.broken with
    | true => rfl
    | false => have := hi.map.alive hb; rw [hk] at this; cases this
  exact ⟨hb, fun r hw => inv_broken_waiter _ hi hb r hw⟩

/-- THE EXCEPTION IS REAL (`eof_always_breaks` is FALSE for a connection whose event consumer has stopped): one slot,
never drained; two events, the answer of request 0, then the peer closes. The reader is parked on the second event:
the router has not ended, request 0 still waits, its answer and the EOF are unread. Only a consumer that makes room -
or the keep-alive timeout, if keep-alive is configured - ends this (observed on the real router by the
`conne <wc>/2` cases). -/
theorem eof_does_not_break_a_parked_reader :
    let ok : Frame → Bool := fun f => f.opcode == 0x0C
    let c := run Conn.init [.submit, .writerTake]
    let ev : Frame := ⟨0, -1, 0x0C, [1]⟩
    let r := readerEv ok ⟨false, 1⟩ c (encode ev ++ encode ev ++ encode ⟨0, 0, 0x08, [7]⟩) true
    r.1.broken = false ∧ getCaller r.1.callers 0 = some .waiting ∧ r.2.2 = ⟨false, 0⟩ := by decide +kernel

/-! ## 6. the keepaliver (`Model/ConnIO.lean` `kaTurn`) -/

/-- A due tick — or a hint (`trigger_keepalive`) at any time — issues the keep-alive request (an ordinary request:
fresh id; queued, or parked if the submit channel is full), arms the timeout, and schedules the next periodic probe
at most one interval later (exactly one interval later after a hint: `interval.reset()`); the hint is consumed —
unless a tick was due at the same instant and `select!` drew the tick arm (`preferTick`): then the hint stays stored
for the next round. All other conclusions hold for BOTH draws. -/
theorem keepalive_tick (k : KaSt) (hb : k.c.broken = false) (hp : k.pending = none)
    (ht : k.hint = true ∨ k.clock ≥ k.next) :
    (kaTurn k).c = step k.c (if k.full then .submitFull else .submit) ∧
    (kaTurn k).pending = some (k.c.nextReq, k.clock + k.timeout) ∧
    (kaTurn k).next ≤ k.clock + k.interval ∧ (kaTurn k).clock = k.clock ∧
    (k.hint = true → (k.preferTick = false ∨ k.clock < k.next) →
      (kaTurn k).next = k.clock + k.interval ∧ (kaTurn k).hint = false) ∧
    (k.hint = true → k.preferTick = true → k.clock ≥ k.next → (kaTurn k).hint = true) := by
  unfold kaTurn
  simp only [hb, Bool.false_eq_true, if_false, hp]
  by_cases harm : (k.hint && !(k.preferTick && decide (k.clock ≥ k.next))) = true
  · simp only [harm, if_true]
    refine ⟨trivial, trivial, Nat.le_refl _, trivial, fun _ _ => ⟨trivial, trivial⟩, ?_⟩
    intro h1 h2 h3
    simp [h1, h2, h3] at harm
  · simp only [harm, Bool.false_eq_true, if_false]
    have ht' : k.clock ≥ k.next := by
      rcases ht with h | h
      · simp only [h, Bool.true_and, Bool.not_eq_true', Bool.not_eq_false, Bool.and_eq_true,
          decide_eq_true_eq] at harm
        exact harm.2
      · exact h
    simp only [ht', if_true]
    refine ⟨trivial, trivial, ?_, trivial, ?_, ?_⟩
    · split <;> omega
    · intro h1 h2
      exfalso
      rcases h2 with h2 | h2
      · simp [h1, h2] at harm
      · omega
    · intro h1 _ _; exact h1

/-- Without a hint and before the tick is due the keepaliver does nothing; a hint that arrives while a probe is in
flight stays stored (one permit) and is consumed by the next iteration. -/
theorem keepalive_idle (k : KaSt) (hp : k.pending = none) (hh : k.hint = false) (ht : k.clock < k.next) :
    kaTurn k = k := by
  unfold kaTurn
  split
  · rfl
  · have : ¬ k.clock ≥ k.next := by omega
    simp [hp, hh, this]

/-- The keep-alive request is in flight, its deadline has passed and nothing (neither a response nor an error)
has reached the keepaliver: the router ends — with `KeepaliveTimeout` if it was alive — and nobody is left
waiting. -/
theorem keepalive_no_response_breaks (k : KaSt) (h : Inv k.c) (r deadline : Nat)
    (hp : k.pending = some (r, deadline)) (ht : k.clock ≥ deadline)
    (hnr : ∀ o, getCaller k.c.callers r ≠ some (.delivered o)) :
    (kaTurn k).c.broken = true ∧
    (k.c.broken = false → (kaTurn k).c.cause = some .keepaliveTimeout) ∧
    ∀ r', getCaller (kaTurn k).c.callers r' = some .waiting → r' ∈ (kaTurn k).c.permits := by
  cases hb : k.c.broken with
  | true =>
    have e : kaTurn k = k := by unfold kaTurn; simp [hb]
    rw [e]
    exact ⟨hb, fun hf => Bool.noConfusion hf, fun r' hw => inv_broken_waiter _ h hb r' hw⟩
  | false =>
    have e : (kaTurn k).c = step (step k.c (.cancel r)) (.break_ .keepaliveTimeout) := by
      unfold kaTurn
      simp only [hb, Bool.false_eq_true, if_false, hp]
      split
      · rename_i g hg; exact absurd hg (hnr _)
      · rename_i g hg; exact absurd hg (hnr _)
      · simp only [ht, if_true]
    have hbc : (step k.c (.cancel r)).broken = false := by
      simp only [step]
      split <;> exact hb
    rw [e]
    refine ⟨break_sets_broken _ _, fun _ => ?_, fun r' hw =>
      inv_broken_waiter _ ((h.step _).step _) (break_sets_broken _ _) r' hw⟩
    exact break_cause hbc _

/-- The keep-alive request came back with an ERROR (e.g. `UnableToAllocStreamId`: the probe goes through the same
stream-id allocator as every request, and all 32768 ids may be taken by requests the silent peer never answers):
the keepaliver ends the router with `KeepaliveRequestError` at once — it does not count the round as fine — and
nobody is left waiting. -/
theorem keepalive_request_error_breaks (k : KaSt) (h : Inv k.c) (hb : k.c.broken = false) (r deadline : Nat)
    (hp : k.pending = some (r, deadline)) (e : ErrKind)
    (he : getCaller k.c.callers r = some (.delivered (.err e))) :
    (kaTurn k).c.broken = true ∧ (kaTurn k).c.cause = some .keepaliveRequestError ∧
    ∀ r', getCaller (kaTurn k).c.callers r' = some .waiting → r' ∈ (kaTurn k).c.permits := by
  have ec : (kaTurn k).c = step (step k.c (.recv r)) (.break_ .keepaliveRequestError) := by
    unfold kaTurn
    simp only [hb, Bool.false_eq_true, if_false, hp, he]
  have hbc : (step k.c (.recv r)).broken = false := by
    simp only [step]
    split <;> exact hb
  rw [ec]
  exact ⟨break_sets_broken _ _, break_cause hbc _, fun r' hw =>
    inv_broken_waiter _ ((h.step _).step _) (break_sets_broken _ _) r' hw⟩

/-- SILENCE ALWAYS BREAKS: a probe is in flight, its deadline has passed, and the keepaliver's request does not hold
a RESPONSE (whatever else happened to it: still waiting, or failed with any error, in particular
`UnableToAllocStreamId` when every stream id is held by an unanswered request). Then the keepaliver's turn ends the
router and nobody is left waiting — whatever the number of requests in flight. -/
theorem keepalive_silence_breaks (k : KaSt) (h : Inv k.c) (r deadline : Nat)
    (hp : k.pending = some (r, deadline)) (ht : k.clock ≥ deadline)
    (hnr : ∀ f, getCaller k.c.callers r ≠ some (.delivered (.frame f))) :
    (kaTurn k).c.broken = true ∧
    ∀ r', getCaller (kaTurn k).c.callers r' = some .waiting → r' ∈ (kaTurn k).c.permits := by
  cases hb : k.c.broken with
  | true =>
    have e : kaTurn k = k := by unfold kaTurn; simp [hb]
    rw [e]; exact ⟨hb, fun r' hw => inv_broken_waiter _ h hb r' hw⟩
  | false =>
    by_cases herr : ∃ e, getCaller k.c.callers r = some (.delivered (.err e))
    · obtain ⟨e, he⟩ := herr
      have := keepalive_request_error_breaks k h hb r deadline hp e he
      exact ⟨this.1, this.2.2⟩
    · have hno : ∀ o, getCaller k.c.callers r ≠ some (.delivered o) := by
        intro o ho
        cases o with
        | frame f => exact hnr f ho
        | err e => exact herr ⟨e, ho⟩
      have := keepalive_no_response_breaks k h r deadline hp ht hno
      exact ⟨this.1, this.2.2⟩

/-- ALL 32768 STREAM IDS TAKEN: a tick is due (or a hint given), the writer is idle, and no stream id is free
(every one is held by a request the peer has not answered). The probe is submitted like any request, the writer
cannot allocate a stream id for it and answers it with `UnableToAllocStreamId`, and the keepaliver's next turn ends
the router with `KeepaliveRequestError`: every one of the 32768 callers gets its error, none waits for a timeout
that could never be armed. -/
theorem keepalive_exhausted_ids_breaks (k : KaSt) (h : Inv k.c) (hb : k.c.broken = false) (hp : k.pending = none)
    (ht : k.hint = true ∨ k.clock ≥ k.next) (hfull : k.full = false) (hq : k.c.queue = [])
    (hex : ∀ id, id < 32768 → k.c.map.ids.isUsed id = true) :
    let k1 := kaTurn k
    let k2 := kaTurn { k1 with c := step k1.c .writerTake }
    k2.c.broken = true ∧ k2.c.cause = some .keepaliveRequestError ∧
    ∀ r', getCaller k2.c.callers r' = some .waiting → r' ∈ k2.c.permits := by
  intro k1 k2
  obtain ⟨hc, hpend, _, _, _, _⟩ := keepalive_tick k hb hp ht
  have hc1 : k1.c = step k.c .submit := by show (kaTurn k).c = _; rw [hc, hfull]; rfl
  have hsub : step k.c .submit =
      { k.c with nextReq := k.c.nextReq + 1, queue := k.c.queue ++ [k.c.nextReq],
                 callers := setCaller k.c.callers k.c.nextReq .waiting } := by
    simp only [step, hb, Bool.false_eq_true, if_false]
  have hnone : (step k.c .submit).map.allocate k.c.nextReq = none := by
    rw [hsub]
    exact hallocate_none.mpr ((sallocate_none h.map.len).mpr hex)
  have hb1 : (step k.c .submit).broken = false := by rw [hsub]; exact hb
  have hq1 : (step k.c .submit).queue = k.c.nextReq :: [] := by rw [hsub, hq]; rfl
  have hw1 : getCaller (step k.c .submit).callers k.c.nextReq = some .waiting := by
    rw [hsub]; simp [getCaller_setCaller]
  have hdel := ScyllaVerif.Props.C02.exhausted_caller_gets_error (step k.c .submit) k.c.nextReq [] hb1 hq1 hnone hw1
  have hb2 : (step (step k.c .submit) .writerTake).broken = false := by
    rw [ScyllaVerif.Props.C02.exhaustion (step k.c .submit) k.c.nextReq [] hb1 hq1 hnone]; exact hb1
  have hinv2 : Inv (step (step k.c .submit) .writerTake) := (h.step _).step _
  have := keepalive_request_error_breaks { k1 with c := step k1.c .writerTake } (by rw [hc1]; exact hinv2)
    (by rw [hc1]; exact hb2) k.c.nextReq (k.clock + k.timeout) hpend .unableToAllocStreamId
    (by rw [hc1]; exact hdel)
  exact this

/-- "Stops answering keep-alives": a tick is due (or a hint was given); whatever happens afterwards (`evs`: any events of callers,
writer, orphaner, reader and server), if no RESPONSE reaches the keepaliver's request (it may stay unanswered, or fail — e.g. with
`UnableToAllocStreamId` when all 32768 stream ids are held by unanswered requests) and at least `timeout` ms
pass, the keepaliver's next turn ends the router and nobody is left waiting. Since a tick is due at most
`interval` after the previous one (`keepalive_tick`), a peer that falls silent is detected within
`interval + timeout` of virtual time. -/
theorem keepalive_stall_breaks (k : KaSt) (h : Inv k.c) (hp : k.pending = none)
    (ht : k.hint = true ∨ k.clock ≥ k.next)
    (evs : List Ev) (dt : Nat) (hdt : dt ≥ k.timeout)
    (hnr : ∀ f, getCaller (run (kaTurn k).c evs).callers k.c.nextReq ≠ some (.delivered (.frame f))) :
    let k1 := kaTurn k
    let k2 := kaTurn { k1 with c := run k1.c evs, clock := k1.clock + dt }
    k2.c.broken = true ∧ ∀ r', getCaller k2.c.callers r' = some .waiting → r' ∈ k2.c.permits := by
  intro k1 k2
  cases hb : k.c.broken with
  | true =>
    have e1 : k1 = k := by show kaTurn k = k; unfold kaTurn; simp [hb]
    have hb2 : (run k.c evs).broken = true := run_broken_stays evs k.c hb broken_stays
    have e2 : k2 = { k with c := run k.c evs, clock := k.clock + dt } := by
      show kaTurn _ = _
      rw [e1]; unfold kaTurn; simp [hb2]
    rw [e2]
    exact ⟨hb2, fun r' hw => inv_broken_waiter _ (h.run evs) hb2 r' hw⟩
  | false =>
    obtain ⟨hc, hpend, _, hclk, _, _⟩ := keepalive_tick k hb hp ht
    have hinv : Inv (run k1.c evs) := by
      show Inv (run (kaTurn k).c evs)
      rw [hc]; exact (h.step _).run evs
    have := keepalive_silence_breaks { k1 with c := run k1.c evs, clock := k1.clock + dt } hinv
      k.c.nextReq (k.clock + k.timeout) hpend
      (by show (kaTurn k).clock + dt ≥ k.clock + k.timeout; rw [hclk]; omega) hnr
    exact this

/-- non-vacuity of the hint arm: long before the tick is due a hint makes the keepaliver probe at once and re-bases
the schedule; the stalled peer is then detected `timeout` later. -/
example :
    let k0 : KaSt := { c := run Conn.init [.submit, .writerTake], interval := 30000, timeout := 300, clock := 500,
                       next := 30000, hint := true }
    let k1 := kaTurn k0
    let k2 := kaTurn { k1 with c := run k1.c [.writerTake], clock := 800 }
    k1.pending = some (1, 800) ∧ k1.next = 30500 ∧ k1.hint = false ∧ k2.c.cause = some .keepaliveTimeout ∧
      (kaTurn { k0 with hint := false }).pending = none := by decide +kernel

/-- non-vacuity: one user request in flight, the keep-alive is written too, the server answers neither. -/
example :
    let k0 : KaSt := { c := run Conn.init [.submit, .writerTake], interval := 1000, timeout := 300, clock := 1000,
                       next := 1000 }
    let k1 := kaTurn k0
    let k2 := kaTurn { k1 with c := run k1.c [.writerTake], clock := 1300 }
    k1.pending = some (1, 1300) ∧ k2.c.cause = some .keepaliveTimeout ∧
      getCaller k2.c.callers 0 = some (.delivered (.err (.broken .keepaliveTimeout))) := by decide +kernel

/-! ## 7. the pool keeps working through the remaining connections (`Model/Pool.lean`) -/

/-- NOT definitional — over the full refiller model of `Model/Routing.lean` (shared with C12: shard buckets,
`maybe_reshard` clearing the buckets without publishing, excess connections, the arms of
`handle_ready_connection` that drop or park a connection without publishing, `remove_connection` with its
bucket / excess / already-gone arms): after ANY sequence of ready / broken connection events, what the pool offers
to routing is exactly what the refiller holds in its shard buckets. This is what licenses `Model/Pool.lean`'s
`shared := conns'` (the id-level abstraction used for the liveness bookkeeping below). -/
theorem refiller_publishes_what_it_holds (size : ScyllaVerif.Routing.PoolSize)
    (hsz : ScyllaVerif.PoolRefiller.SizePos size) (evts : List ScyllaVerif.Routing.PoolEvt)
    (rf : ScyllaVerif.Routing.Refiller) (h : (ScyllaVerif.Routing.Refiller.init size).run evts = some rf) :
    ScyllaVerif.PoolRefiller.offered rf = ScyllaVerif.PoolRefiller.held rf :=
  ScyllaVerif.PoolRefiller.published_is_held size hsz evts rf h

/-- Composition with the connection model: the pool learns of a death through `error_sender`, which the router
fires only AFTER the handlers were failed and the submit channel was drained (`router` 1595-1618; in the model the
cause is recorded by `doBreak` only). So whenever a death can be reported (`cause = some k`, the enabling condition
of `Pool.die`), the router has ended and every caller of that connection already has its outcome (only a caller in
the push window is still on its way, and it gets the error from the drain loop). -/
theorem death_report_means_callers_completed (c : Conn) (h : Inv c) (k : BreakKind) (hk : c.cause = some k) :
    c.broken = true ∧ ∀ r, getCaller c.callers r = some .waiting → r ∈ c.permits := by
  have hb : c.broken = true := by
    cases hb : c.broken with
    | true => rfl
    | false => have := h.map.alive hb; rw [hk] at this; cases this
  exact ⟨hb, fun r hw => inv_broken_waiter c h hb r hw⟩

theorem death_report_reachable (evs : List Ev) (k : BreakKind) (hk : (run Conn.init evs).cause = some k) :
    (run Conn.init evs).broken = true ∧
    ∀ r, getCaller (run Conn.init evs).callers r = some .waiting → r ∈ (run Conn.init evs).permits :=
  death_report_means_callers_completed _ (Inv.reachable evs) k hk

section pool
open ScyllaVerif.Pool

/-- `remove_connection` publishes: after the refiller has processed a death the published list IS its private
list — whether or not other connections survive. -/
theorem remove_publishes (p : Pool) (id : Nat) (h : PInv p) :
    (Pool.step p (.process id)).shared = (Pool.step p (.process id)).conns :=
  (h.step _).pub

/-- After any sequence of openings, refused openings, connection deaths and refiller steps: every PUBLISHED
connection is alive, or its death has not been processed yet. -/
theorem published_alive_or_pending (evs : List PEv) (id : Nat)
    (hp : id ∈ (Pool.run Pool.init evs).shared) :
    id ∉ (Pool.run Pool.init evs).dead ∨ id ∈ (Pool.run Pool.init evs).pending := by
  have h := PInv.init.run evs
  rw [h.pub] at hp
  by_cases hd : id ∈ (Pool.run Pool.init evs).dead
  · exact Or.inr (h.deadPending id hp hd)
  · exact Or.inl hd

/-- Once its death is processed a connection is not offered any more — now … -/
theorem processed_not_offered (p : Pool) (id : Nat) (hpend : id ∈ p.pending) :
    id ∉ (Pool.step p (.process id)).shared := by
  have hc : p.pending.contains id = true := by simpa using hpend
  simp only [Pool.step, hc, if_true]
  intro hm
  have := (List.mem_filter.mp hm).2
  simp at this

/-- … and never again (ids are not reused): in every later state a dead connection that is not pending is not
published. -/
theorem dead_processed_never_offered (evs : List PEv) (id : Nat)
    (hd : id ∈ (Pool.run Pool.init evs).dead) (hnp : id ∉ (Pool.run Pool.init evs).pending) :
    id ∉ (Pool.run Pool.init evs).shared := by
  intro hp
  rcases published_alive_or_pending evs id hp with h | h
  · exact h hd
  · exact hnp h

/-- With no death left to process, routing only ever sees live connections, and sees one as soon as the refiller
holds one: "the session keeps working through the remaining connections". -/
theorem quiescent_pool_offers_exactly_the_live (evs : List PEv) (hq : (Pool.run Pool.init evs).pending = []) :
    (∀ id, id ∈ (Pool.run Pool.init evs).shared → id ∉ (Pool.run Pool.init evs).dead) ∧
    (Pool.run Pool.init evs).shared = (Pool.run Pool.init evs).conns := by
  refine ⟨?_, (PInv.init.run evs).pub⟩
  intro id hp
  rcases published_alive_or_pending evs id hp with h | h
  · exact h
  · rw [hq] at h; cases h

/-- non-vacuity: three connections, the second dies and is processed while the node refuses new ones: connections 0
and 2 stay published, 1 is gone. -/
example :
    let p := Pool.run Pool.init [.opened, .opened, .opened, .die 1, .openFailed, .process 1, .openFailed]
    p.shared = [0, 2] ∧ p.dead = [1] ∧ p.pending = [] := by decide

/-- Counterexample OF A DEFECTIVE REFILLER (`stepStale`: publish only when the pool became empty — documentation of
what this layer and the `pool` cases guard against, not a statement about the current code): the dead connection 1
is still offered after its death has been processed although 0 and 2 are alive. -/
example :
    let p := [PEv.opened, .opened, .opened, .die 1, .process 1].foldl stepStale Pool.init
    1 ∈ p.shared ∧ 1 ∈ p.dead ∧ p.pending = [] ∧ p.conns = [0, 2] := by decide

end pool

/-! ## 8. "… and is retried elsewhere only as the retry policy allows" — composition with the request fiber of C06

`Model/Exec.lean` / `Model/Retry.lean` (the models of `execution.rs` `run_request_speculative_fiber` and of the retry
policies, owned and tied to the code by C06) take over where this model ends: the caller of a dead connection gets
`InternalRequestError::BrokenConnection(..)` (`err (.broken k)` or `err .channelError` here, `break_outcomes`), which
`RequestAttemptError::from` turns into `RequestAttemptError::BrokenConnection`. -/

section retry
open ScyllaVerif.Retry ScyllaVerif.Exec

/-- `impl From<InternalRequestError> for RequestAttemptError` restricted to what a connection hands its callers. -/
def attemptErr : ErrKind → Retry.Err
  | .unableToAllocStreamId => .unableToAllocStreamId
  | .broken _ => .brokenConnection
  | .channelError => .brokenConnection

/-- Every error that the break of a connection hands out is a `BrokenConnection` for the retry policy. -/
theorem break_errors_are_broken_connection (c : Conn) (h : Inv c) (k : BreakKind) (r : Nat)
    (hw : getCaller c.callers r = some .waiting) (hp : r ∉ c.permits) :
    ∃ e, getCaller (doBreak c k).callers r = some (.delivered (.err e)) ∧ attemptErr e = .brokenConnection := by
  rcases break_fails_waiters c h k r hw hp with h1 | h1
  · exact ⟨_, h1, rfl⟩
  · exact ⟨_, h1, rfl⟩

/-- The default retry policy on a `BrokenConnection` (non-serial consistency): next target if the request is
idempotent, give up otherwise — whatever the retry session has seen before. -/
theorem default_policy_on_broken_connection (s : Sess) (idem : Bool) (cl : Consistency) (hcl : cl.isSerial = false) :
    (decideRetry .default s ⟨.brokenConnection, idem, cl⟩).2 = if idem then .retryNext none else .dontRetry := by
  simp [decideRetry, decideDefault, hcl]

/-- THE SESSION KEEPS WORKING THROUGH THE REMAINING CONNECTIONS. The request fiber of `execution.rs`, default retry
policy, non-serial consistency: the attempt on the current target fails because its connection died. An IDEMPOTENT
request goes on with the NEXT target of the plan (same consistency, the dead target is not tried again), and a
following success completes it; a NON-idempotent request is not re-sent anywhere: the fiber stops with that error. -/
theorem broken_connection_is_retried_on_next_target (outcomes : Nat → Exec.Outcome) (fuel : Nat) (av : Target)
    (rest : List Target) (t : Nat) (loc : Loc Sess) (e : ErrKind) (he : attemptErr e = .brokenConnection)
    (hav : av 0 = true) (hout : outcomes loc.k = .fail (attemptErr e)) (hcl : loc.cl.isSerial = false) :
    exec (builtin .default) true outcomes (fuel + 1) (av :: rest) t loc =
      (exec (builtin .default) true outcomes fuel rest (t + 1)
          ⟨loc.k + 1, loc.cl, some (loc.sess.getD Sess.init), some (.attempt .brokenConnection)⟩).push
        ⟨t, loc.cl⟩ (.retryNext none) (if loc.sess.isSome then 0 else 1) ∧
    exec (builtin .default) false outcomes (fuel + 1) (av :: rest) t loc =
      ⟨[⟨t, loc.cl⟩], [.dontRetry], .stopped .brokenConnection, if loc.sess.isSome then 0 else 1⟩ := by
  rw [he] at hout
  constructor
  · simp [exec, hav, hout, builtin, decideRetry, decideDefault, hcl, Decision.newCl]
  · simp [exec, hav, hout, builtin, decideRetry, decideDefault, hcl]

/-- non-vacuity: a plan of three nodes; the connection to the first dies under the request (`KeepaliveTimeout`), the
second answers: the idempotent request completes on target 1 after one `RetryNextTarget`; the non-idempotent one
ends with `BrokenConnection` after a single attempt. -/
example :
    let outs : Nat → Exec.Outcome := fun k => if k = 0 then .fail (attemptErr (.broken .keepaliveTimeout)) else .ok
    let plan := [Target.always, Target.always, Target.always]
    (Exec.run .default true .quorum plan outs).final = .completed 1 ∧
    (Exec.run .default true .quorum plan outs).attempts = [⟨0, .quorum⟩, ⟨1, .quorum⟩] ∧
    (Exec.run .default false .quorum plan outs).final = .stopped .brokenConnection ∧
    (Exec.run .default false .quorum plan outs).attempts = [⟨0, .quorum⟩] := by decide

end retry

/-! ## 9. re-established connections: the reconnect policies never stop the refiller (`Model/PoolReconnect.lean`)

The pool's refiller asks its reconnect-policy session for the delay before every refill attempt
(`connection_pool.rs` `PoolRefiller::run`); a panic there ends the refiller task for good - the pool stays `Broken`
and the node is never reconnected. -/

section reconnect
open ScyllaVerif.PoolReconnect

/-- For EVERY history of fill outcomes the exponential session's `current_delay` stays within
`[min_fill_backoff, max_fill_backoff]` … -/
theorem reconnect_state_within_limits (c : ExpCfg) (hok : c.ok) (hist : List Fill) :
    c.min ≤ expRun c hist ∧ expRun c hist ≤ c.max :=
  expRun_bounds c hok.1 hok.2.1 hist

/-- … so `get_delay` NEVER PANICS and answers a delay within the limits, for every history and every jitter
multiplier of the configured range (also ranges above 1). -/
theorem reconnect_get_delay_total (c : ExpCfg) (hok : c.ok) (hist : List Fill) (ppm : Nat)
    (hj : c.jlo ≤ ppm ∧ ppm ≤ c.jhi) :
    ∃ d, expGetDelay c (expRun c hist) ppm = some d ∧ c.min ≤ d ∧ d ≤ c.max := by
  obtain ⟨hmin, hmax⟩ := reconnect_state_within_limits c hok hist
  obtain ⟨r, hr, _⟩ := mulJ_some_of_le (expRun c hist) ppm c.max c.jhi hmax hj.2 hok.2.2.2
  refine ⟨clamp r c.min c.max, ?_, clamp_bounds r c.min c.max hok.1⟩
  simp [expGetDelay, hr]

/-- A successful fill resets the back-off. -/
theorem reconnect_success_resets (c : ExpCfg) (hist : List Fill) :
    expRun c (hist ++ [.success]) = c.min := by
  simp [expRun, List.foldl_append, expStep, expOnSuccess]

/-- An error doubles the back-off up to the cap. -/
theorem reconnect_error_doubles (c : ExpCfg) (hist : List Fill) :
    expRun c (hist ++ [.error]) = Nat.min c.max (satDouble (expRun c hist)) := by
  simp [expRun, List.foldl_append, expStep, expOnError]

/-- The constant policy: no state, `get_delay = delay × jitter`, never a panic while that fits a `Duration`. -/
theorem reconnect_constant_total (delay ppm jhi : Nat) (hj : ppm ≤ jhi) (hfit : delay * jhi / 1000000 ≤ durMax) :
    constGetDelay delay ppm = some (delay * ppm / 1000000) := by
  obtain ⟨r, hr, he⟩ := mulJ_some_of_le delay ppm delay jhi (Nat.le_refl _) hj hfit
  rw [constGetDelay, hr, he]

/-- non-vacuity (the production defaults 50 ms .. 10 s, jitter 0.85 .. 1.15): after 500 failed fills the state is the
cap and the largest jittered delay is the cap. -/
example :
    let c : ExpCfg := ⟨50000000, 10000000000, 850000, 1150000⟩
    expRun c (List.replicate 500 .error) = 10000000000 ∧
    expGetDelay c (expRun c (List.replicate 500 .error)) 1150000 = some 10000000000 ∧
    expGetDelay c (expRun c (List.replicate 500 .error ++ [.success])) 850000 = some 50000000 := by
  decide +kernel

/-- Counterexample OF A DEFECTIVE SESSION (`expOnErrorUncapped`: `on_fill_error` without the cap - documentation of
what this section and the `rp` / `poolr` cases guard against, not a statement about the code): after 69 failed fills
the state has saturated at `Duration::MAX`, and `get_delay` panics for every jitter multiplier above 1. -/
example :
    let cur := (List.replicate 69 ()).foldl (fun d _ => expOnErrorUncapped d) 50000000
    cur = durMax ∧ mulJ cur 1000001 = none := by decide +kernel

end reconnect

/-! ## 10. OBSERVATION (a gap of the code, not a guarantee): a held `USE` on a NEW connection stops refilling for good
(`Model/PoolKeyspace.lean`)

With a session keyspace, a freshly opened connection sits in `ready_connections` until its `USE` is answered - without
a timeout - and `need_filling` is false while anything sits there. A node that accepts, handshakes, answers keep-alive
OPTIONS but never answers `USE` therefore freezes the pool at its current connections: deaths only shrink it, no
trigger refills it. Keep-alive does not rescue it (the probe IS answered). Driven by the `poolk` cases, which observe
exactly this on the real pool. -/

section poolkeyspace
open ScyllaVerif.PoolKeyspace

/-- While a connection's `USE` is held (`setting > 0`, nothing completes), whatever dies and however often the
refiller's loop runs: no new connection is opened (`setting` does not change) and the pool only shrinks. -/
theorem held_use_blocks_refill (p : KPool) (hs : 0 < p.setting) (evs : List KEv) (hsil : ∀ e ∈ evs, silent e = true) :
    (PoolKeyspace.run p evs).setting = p.setting ∧ (PoolKeyspace.run p evs).conns ≤ p.conns := by
  induction evs generalizing p with
  | nil => exact ⟨rfl, Nat.le_refl _⟩
  | cons e rest ih =>
    have he : silent e = true := hsil e (by simp)
    have hrest : ∀ e ∈ rest, silent e = true := fun e' h' => hsil e' (by simp [h'])
    have key : (PoolKeyspace.step p e).setting = p.setting ∧ (PoolKeyspace.step p e).conns ≤ p.conns := by
      cases e with
      | die => exact ⟨rfl, Nat.sub_le _ _⟩
      | fill =>
        have : needFilling p = false := by
          unfold needFilling
          have : (p.setting == 0) = false := by simp; omega
          simp [this]
        simp [PoolKeyspace.step, this]
      | complete => simp [silent] at he
      | fail => simp [silent] at he
    obtain ⟨h1, h2⟩ := ih (PoolKeyspace.step p e) (by rw [key.1]; exact hs) hrest
    refine ⟨?_, ?_⟩
    · show (PoolKeyspace.run (PoolKeyspace.step p e) rest).setting = p.setting
      rw [h1, key.1]
    · show (PoolKeyspace.run (PoolKeyspace.step p e) rest).conns ≤ p.conns
      exact Nat.le_trans h2 key.2

/-- In particular the pool can run EMPTY and stay empty: k deaths after the held `USE` leave no connection, and no
refill follows (the `poolk 2` history). Without the held connection (`setting = 0`) the same history refills. -/
example :
    PoolKeyspace.run ⟨2, 0, 2⟩ [.die, .fill, .die, .fill, .fill] = ⟨0, 1, 2⟩ ∧
    PoolKeyspace.run ⟨2, 0, 2⟩ [.die, .fill, .complete, .die, .fill, .complete] = ⟨2, 0, 2⟩ := by decide

end poolkeyspace

/-! ## The layer above the connection: what the metadata fetch makes of a failed request (round 9, C10-9)

`Model/C10MetaFetch.lean`: `query_table_partitioners` / `query_keyspaces_tablets` turn ONE error into an empty answer
(`DbError::Invalid` of the last attempt: the table does not exist). A request that was in flight when the control
connection died completes with `BrokenConnectionError` (above: `break_errors_are_broken_connection`); the theorems
below say that this - and every other failure - reaches the caller of the fetch: the fetch fails, nothing is published
from it. Driven by the `metaf` cases (real Session, one request of a fetch meets a scripted fault). -/
section metafetch
open ScyllaVerif.C10MetaFetch ScyllaVerif.Retry

/-- The swallowed pattern is exactly one value: the last attempt failed with `DbError::Invalid`. -/
theorem isMissingTable_iff (e : FetchErr) :
    isMissingTable e = true ↔ e = attemptFailure (.dbError .invalid) := by
  constructor
  · intro h
    unfold isMissingTable at h
    split at h
    · rfl
    · cases h
  · rintro rfl; rfl

/-- THE FILTER, for every result type, every "empty" value and every outcome: the result is `Ok v` exactly if the
query itself was answered with `v`, or `v` is the empty answer and the last attempt failed with `DbError::Invalid`. -/
theorem tolerates_exactly_missing_table {α : Type} (empty : α) (r : QueryResult α) (v : α) :
    tolerateMissingTable empty r = .ok v ↔
      r = .ok v ∨ (v = empty ∧ r = .error (attemptFailure (.dbError .invalid))) := by
  cases r with
  | ok w => simp [tolerateMissingTable]
  | error e =>
    by_cases h : isMissingTable e = true
    · have he := (isMissingTable_iff e).1 h
      subst he
      simp [tolerateMissingTable, h, eq_comm]
    · have hne : e ≠ attemptFailure (.dbError .invalid) := fun he => h ((isMissingTable_iff e).2 he)
      simp [tolerateMissingTable, h, hne]

/-- Every other error is returned as it is (the `result => result` arm). -/
theorem other_errors_pass {α : Type} (empty : α) (e : FetchErr) (h : e ≠ attemptFailure (.dbError .invalid)) :
    tolerateMissingTable empty (.error e : QueryResult α) = .error e := by
  have : isMissingTable e = false := by
    cases hm : isMissingTable e with
    | false => rfl
    | true => exact absurd ((isMissingTable_iff e).1 hm) h
  simp [tolerateMissingTable, this]

/-- In particular every failed ATTEMPT other than `DbError::Invalid` - PREPARE, first page or a later page. -/
theorem only_invalid_is_swallowed {α : Type} (empty : α) (a : Retry.Err) (h : a ≠ .dbError .invalid) :
    tolerateMissingTable empty (.error (attemptFailure a) : QueryResult α) = .error (attemptFailure a) := by
  apply other_errors_pass
  intro he
  apply h
  simpa [attemptFailure] using he

/-- No error a connection hands to its callers is `DbError::Invalid`. -/
theorem connection_error_is_not_invalid (e : ErrKind) : attemptErr e ≠ .dbError .invalid := by
  cases e <;> simp [attemptErr]

/-- COMPOSITION WITH THE CONNECTION MODEL (C10-9): the connection breaks - whatever the reachable state `c`, the
break kind `k` and the in-flight set - while the `scylla_tables` / `scylla_keyspaces` request `r` waits on it: the
caller `r` is handed a connection error `e`, and the tolerant query returns THAT error, not the empty answer. -/
theorem request_in_flight_at_break_fails_the_tolerant_query (c : Conn) (h : Inv c) (k : BreakKind) (r : Nat)
    (hw : getCaller c.callers r = some .waiting) (hp : r ∉ c.permits) {α : Type} (empty : α) :
    ∃ e, getCaller (doBreak c k).callers r = some (.delivered (.err e)) ∧
      tolerateMissingTable empty (.error (attemptFailure (attemptErr e)) : QueryResult α)
        = .error (attemptFailure (attemptErr e)) := by
  obtain ⟨e, h1, _⟩ := break_errors_are_broken_connection c h k r hw hp
  exact ⟨e, h1, only_invalid_is_swallowed empty _ (connection_error_is_not_invalid e)⟩

/-- The error a single query contributes to the fetch. -/
theorem queryVerdict_none_iff (t : Table) (r : QueryResult Unit) :
    queryVerdict t r = none ↔
      r = .ok () ∨ (t.tolerant = true ∧ r = .error (attemptFailure (.dbError .invalid))) := by
  unfold queryVerdict
  cases ht : t.tolerant with
  | false =>
    cases r with
    | ok w => simp
    | error e => simp
  | true =>
    have key := tolerates_exactly_missing_table () r ()
    cases hr : tolerateMissingTable () r with
    | ok w =>
      have : tolerateMissingTable () r = .ok () := by rw [hr]
      simpa [hr] using key.1 this
    | error e =>
      simp only [if_true]
      constructor
      · intro h; cases h
      · intro h
        have := key.2 (by rcases h with h | ⟨_, h⟩ <;> simp [h])
        rw [hr] at this; cases this

private theorem findSome_none {β γ : Type} (f : β → Option γ) (l : List β) :
    l.findSome? f = none ↔ ∀ x ∈ l, f x = none := by
  simp

private theorem mem_all (t : Table) : t ∈ Table.all := by
  cases t <;> simp [Table.all]

/-- THE FETCH RETURNS Ok EXACTLY IF every one of its queries was answered, or was one of the two tolerant queries and
failed with `DbError::Invalid` - for every assignment of outcomes to the queries. -/
theorem fetch_ok_iff (out : Table → QueryResult Unit) :
    fetchVerdict out = none ↔
      ∀ t, out t = .ok () ∨ (t.tolerant = true ∧ out t = .error (attemptFailure (.dbError .invalid))) := by
  unfold fetchVerdict
  rw [findSome_none]
  constructor
  · intro h t
    exact (queryVerdict_none_iff t (out t)).1 (h t (mem_all t))
  · intro h t _
    exact (queryVerdict_none_iff t (out t)).2 (h t)

/-- A fetch one of whose requests died with the connection FAILS (nothing is published from it), whichever query it
was, whatever the other queries returned. -/
theorem fetch_fails_when_a_request_dies_with_the_connection (out : Table → QueryResult Unit) (t : Table)
    (e : ErrKind) (h : out t = .error (attemptFailure (attemptErr e))) : (fetchVerdict out).isSome = true := by
  cases hv : fetchVerdict out with
  | some _ => rfl
  | none =>
    rcases (fetch_ok_iff out).1 hv t with h1 | ⟨_, h1⟩
    · rw [h] at h1; cases h1
    · rw [h] at h1
      have : attemptErr e = .dbError .invalid := by simpa [attemptFailure] using h1
      exact absurd this (connection_error_is_not_invalid e)

/-- What is published about a table's partitioner is the node's own value, or "none" after the node SAID that
`scylla_tables` does not exist - never "none" made from an unanswered request. -/
theorem published_partitioner_is_the_nodes_or_missing (p q : Option String) (r : QueryResult Unit)
    (h : publishedPartitioner p r = some q) :
    (r = .ok () ∧ q = p) ∨ (r = .error (attemptFailure (.dbError .invalid)) ∧ q = none) := by
  unfold publishedPartitioner at h
  cases r with
  | ok w => left; simp [tolerateMissingTable] at h; exact ⟨rfl, h.symm⟩
  | error e =>
    right
    by_cases hm : isMissingTable e = true
    · simp [tolerateMissingTable, hm] at h
      exact ⟨by rw [(isMissingTable_iff e).1 hm], h.symm⟩
    · simp [tolerateMissingTable, hm] at h

private theorem dbOfCode_invalid (code : Nat) : dbOfCode code = .invalid ↔ code = 0x2200 := by
  unfold dbOfCode
  constructor
  · intro h
    by_cases h0 : code = 0x2200
    · exact h0
    · simp only [h0, if_false] at h
      repeat (split at h; · cases h)
      cases h
  · rintro rfl; rfl

/-- The scripted faults of the `metaf` cases: the fetch survives exactly `ERROR Invalid` on a tolerant query. -/
theorem faultTolerated_iff (t : Table) (f : Fault) :
    faultTolerated t f = true ↔ t.tolerant = true ∧ f = .db 0x2200 := by
  unfold faultTolerated
  rw [Option.isNone_iff_eq_none, fetch_ok_iff]
  constructor
  · intro h
    have ht := h t
    simp only [faulted, if_true] at ht
    rcases ht with h1 | ⟨h1, h2⟩
    · cases h1
    · refine ⟨h1, ?_⟩
      have h3 : faultErr f = .dbError .invalid := by simpa [attemptFailure] using h2
      cases f with
      | db code =>
        have : dbOfCode code = .invalid := by simpa [faultErr] using h3
        rw [(dbOfCode_invalid code).1 this]
      | badBody => simp [faultErr] at h3
      | badErr => simp [faultErr] at h3
      | connection => simp [faultErr] at h3
  · rintro ⟨ht, rfl⟩ t'
    by_cases h : t' = t
    · subst h; right; exact ⟨ht, by simp [faulted, faultErr, dbOfCode]⟩
    · left; simp [faulted, h]

/-- Non-vacuity: the node says the table is missing → empty answer; the connection dies / the node is overloaded /
the body is garbage → the error; a fetch with a dead `scylla_tables` request fails, one with a missing table does not. -/
example :
    tolerateMissingTable ([] : List Nat) (.error (attemptFailure (.dbError .invalid))) = .ok [] ∧
    tolerateMissingTable ([] : List Nat) (.error (attemptFailure .brokenConnection))
      = .error (attemptFailure .brokenConnection) ∧
    tolerateMissingTable ([] : List Nat) (.error (attemptFailure (.dbError .overloaded)))
      = .error (attemptFailure (.dbError .overloaded)) ∧
    tolerateMissingTable ([] : List Nat) (.error (.prepareError (.dbError .invalid)))
      = .error (.prepareError (.dbError .invalid)) ∧
    tolerateMissingTable ([] : List Nat) (.ok [1, 2]) = .ok [1, 2] ∧
    faultTolerated .scyllaTables .connection = false ∧ faultTolerated .scyllaTables (.db 0x2200) = true ∧
    faultTolerated .tables (.db 0x2200) = false ∧ faultTolerated .scyllaKeyspaces .badBody = false ∧
    publishedPartitioner (some "cdc") (.error (attemptFailure .brokenConnection)) = none ∧
    publishedPartitioner (some "cdc") (.error (attemptFailure (.dbError .invalid))) = some none ∧
    publishedPartitioner (some "cdc") (.ok ()) = some (some "cdc") :=
  ⟨rfl, rfl, rfl, rfl, rfl, by decide, by decide, by decide, by decide, rfl, rfl, rfl⟩

end metafetch

end ScyllaVerif.Props.C10

import ScyllaVerif.Model.StreamMap
import ScyllaVerif.Model.Conn
import ScyllaVerif.Model.FrameStream
import ScyllaVerif.Proofs.StreamMap
import ScyllaVerif.Proofs.Conn
import ScyllaVerif.Proofs.FrameStream
/-!
# C10 — when a connection dies every request in flight on it fails promptly; none hangs

Model: `Model/Conn.lean` (the C02 transition system; `break_ k` = the router's `try_join!` ended with error `k`:
reader I/O / header error, writer error, orphan threshold, keep-alive timeout, keep-alive request error;
a `Missing` lookup breaks it too) and `Model/FrameStream.lean` (`read_response_frame`).
The theorems show that the state machine leaves no waiter once the break event occurs, for every reachable state
(every event history, every in-flight set). That the event occurs promptly in real time (tokio timers, OS socket
errors) is outside the model; the end-to-end half of the harness observes it under virtual time (a test).
-/
namespace ScyllaVerif.Props.C10
open ScyllaVerif.StreamMap ScyllaVerif.Conn ScyllaVerif.FrameStream

/-! ## 1. a break completes everyone -/

/-- After the router ended (for whatever reason) no caller is left waiting: each one has an outcome in its oneshot
(`delivered`), has returned (`done`) or had been abandoned. For every state satisfying the invariant, hence
(`inv_reachable`) for every event history and in-flight set. -/
theorem break_completes_everyone (c : Conn) (h : Inv c) (k : BreakKind) (r : Nat) :
    getCaller (doBreak c k).callers r ≠ some .waiting := by
  intro hw
  have hi := (h.callers.doBreak k).tracked r hw
  rcases hi with m | m | ⟨s, hs⟩
  · cases m
  · cases m
  · cases hs

/-- The same for the event itself … -/
theorem break_event_completes_everyone (c : Conn) (h : Inv c) (hb : c.broken = false) (k : BreakKind) (r : Nat) :
    (step c (.break_ k)).broken = true ∧ getCaller (step c (.break_ k)).callers r ≠ some .waiting := by
  simp only [step, hb, Bool.false_eq_true, if_false]
  exact ⟨rfl, break_completes_everyone c h k r⟩

/-- … and in general: in every reachable state with a dead router nobody waits. -/
theorem broken_no_waiter (evs : List Ev) (r : Nat) (hb : (run Conn.init evs).broken = true) :
    getCaller (run Conn.init evs).callers r ≠ some .waiting := by
  intro hw
  have h := Inv.reachable evs
  obtain ⟨hq, hs, _, hh⟩ := h.map.brk hb
  rcases h.callers.tracked r hw with m | m | ⟨s, hs'⟩
  · rw [hs] at m; cases m
  · rw [hq] at m; cases m
  · rw [hh] at hs'; cases hs'

/-- What each waiter gets: a registered one the error that broke the connection, a queued or parked one
`ChannelError`. Nothing else changes (in particular a delivered response stays delivered). -/
theorem break_outcomes (c : Conn) (k : BreakKind) (r : Nat) :
    getCaller (doBreak c k).callers r =
      if getCaller c.callers r = some .waiting then
        (if r ∈ c.map.handlers.map (·.2) then some (.delivered (.err (.broken k)))
         else if r ∈ c.queue ∨ r ∈ c.sending then some (.delivered (.err .channelError))
         else some .waiting)
      else getCaller c.callers r :=
  doBreak_callers c k r

theorem break_fails_waiters (c : Conn) (h : Inv c) (k : BreakKind) (r : Nat)
    (hw : getCaller c.callers r = some .waiting) :
    getCaller (doBreak c k).callers r = some (.delivered (.err (.broken k))) ∨
    getCaller (doBreak c k).callers r = some (.delivered (.err .channelError)) := by
  have hne := break_completes_everyone c h k r
  rw [break_outcomes] at *
  simp only [hw, if_true] at *
  split
  · exact Or.inl rfl
  · rename_i h1
    simp only [h1, if_false] at hne
    split
    · exact Or.inr rfl
    · rename_i h2; simp only [h2, if_false] at hne; exact absurd rfl hne

/-- non-vacuity: three requests — one written, one queued behind it, one answered but not yet polled — and a
keep-alive timeout. -/
example :
    let c := run Conn.init [.submit, .submit, .writerTake, .writerTake, .respond 1, .submit, .break_ .keepaliveTimeout]
    getCaller c.callers 0 = some (.delivered (.err (.broken .keepaliveTimeout))) ∧
    getCaller c.callers 1 = some (.delivered (.frame 1)) ∧
    getCaller c.callers 2 = some (.delivered (.err .channelError)) := by decide +kernel

/-! ## 2. after the break -/

theorem broken_stays (c : Conn) (e : Ev) (hb : c.broken = true) : (step c e).broken = true := by
  cases e <;> simp only [step, hb, if_true] <;> try rfl
  all_goals (split <;> first | rfl | exact hb)

/-- A request submitted after the break fails immediately with `ChannelError`. -/
theorem after_break_submit_fails (c : Conn) (hb : c.broken = true) :
    getCaller (step c .submit).callers c.nextReq = some (.done (.err .channelError)) := by
  simp [step, hb, getCaller_setCaller]

/-- A caller holds a response frame. -/
def holdsFrame (c : Conn) (r f : Nat) : Prop :=
  getCaller c.callers r = some (.delivered (.frame f)) ∨ getCaller c.callers r = some (.done (.frame f))

/-- After the break nobody is handed a response any more: the set of callers holding a frame does not grow. -/
theorem no_delivery_after_break_step (c : Conn) (e : Ev) (hb : c.broken = true) (r f : Nat)
    (h : holdsFrame (step c e) r f) : holdsFrame c r f := by
  unfold holdsFrame at *
  cases e with
  | submit =>
    simp only [step, hb, if_true, getCaller_setCaller] at h
    split at h
    · rcases h with e | e <;> cases e
    · exact h
  | submitFull =>
    simp only [step, hb, if_true, getCaller_setCaller] at h
    split at h
    · rcases h with e | e <;> cases e
    · exact h
  | enqueue r' => simpa only [step, hb, if_true] using h
  | writerTake => simpa only [step, hb, if_true] using h
  | orphanerStep => simpa only [step, hb, if_true] using h
  | respond i => simpa only [step, hb, if_true] using h
  | unsolicited s => simpa only [step, hb, if_true] using h
  | break_ k => simpa only [step, hb, if_true] using h
  | cancel r' =>
    simp only [step] at h
    split at h
    · simp only [getCaller_setCaller] at h
      split at h
      · rcases h with e | e <;> cases e
      · exact h
    · simp only [getCaller_setCaller] at h
      split at h
      · rcases h with e | e <;> cases e
      · exact h
    · exact h
  | recv r' =>
    simp only [step] at h
    split at h
    · rename_i o hg
      simp only [getCaller_setCaller] at h
      split at h
      · rename_i e; subst e
        rcases h with e | e
        · cases e
        · simp only [Option.some.injEq, CallerSt.done.injEq] at e
          subst e; exact Or.inl hg
      · exact h
    · exact h

theorem no_delivery_after_break (c : Conn) (evs : List Ev) (hb : c.broken = true) (r f : Nat)
    (h : holdsFrame (run c evs) r f) : holdsFrame c r f := by
  unfold Conn.run at h
  induction evs generalizing c with
  | nil => exact h
  | cons e rest ih =>
    exact no_delivery_after_break_step c e hb r f (ih (step c e) (broken_stays c e hb) h)

/-! ## 3. the faults -/

/-- A frame for a stream nobody is waiting on breaks the connection (`UnexpectedStreamId`) — and by
`break_completes_everyone` everybody in flight is completed. -/
theorem unsolicited_stream_breaks (c : Conn) (h : Inv c) (hb : c.broken = false) (s : Nat) (hs : s < 32768)
    (hno : ∀ r, (s, r) ∉ c.server) :
    (step c (.unsolicited s)).broken = true ∧ (step c (.unsolicited s)).cause = some .unexpectedStreamId ∧
      ∀ r, getCaller (step c (.unsolicited s)).callers r ≠ some .waiting := by
  have hany : ¬ (c.server.any (fun p => p.1 == s)) = true := by
    intro ha
    obtain ⟨⟨s', r'⟩, hm, e⟩ := List.any_eq_true.mp ha
    have : s' = s := by simpa using e
    subst this
    exact hno r' hm
  have hs' : ¬ idCount ≤ s := by unfold idCount; omega
  have hstr := not_mem_streams_of_any hany
  have e : step c (.unsolicited s) =
      doBreak ({ c with map := { c.map with ids := c.map.ids.free s } } : Conn) .unexpectedStreamId := by
    simp only [step, hb, Bool.false_eq_true, if_false, hs', hany, lookup_unowed h.map hstr]
  rw [e]
  refine ⟨rfl, rfl, ?_⟩
  intro r
  apply break_completes_everyone
  exact ⟨h.map.freeUnowed hstr, { h.callers with }⟩

/-- A keep-alive timeout is the break event with cause `KeepaliveTimeout` (the timer is abstract): the router
ends, every handler receives that error. -/
theorem keepalive_timeout_breaks (c : Conn) (h : Inv c) (hb : c.broken = false) (r : Nat) :
    step c (.break_ .keepaliveTimeout) = doBreak c .keepaliveTimeout ∧
    (step c (.break_ .keepaliveTimeout)).cause = some .keepaliveTimeout ∧
    getCaller (step c (.break_ .keepaliveTimeout)).callers r ≠ some .waiting := by
  have e : step c (.break_ .keepaliveTimeout) = doBreak c .keepaliveTimeout := by
    simp only [step, hb, Bool.false_eq_true, if_false]
  rw [e]
  exact ⟨rfl, rfl, break_completes_everyone c h _ r⟩

/-! ## 4. a cut at any byte offset never yields a partial or foreign frame -/

/-- Reading the first `k` bytes of any sequence of (wire-representable) response frames yields exactly the first
`n` frames for some `n` — never a truncated, altered or invented frame —, and the stream then ends `clean` only
if the cut is exactly on the boundary after them; otherwise the reader reports a cut inside the header or the
body (`FrameHeaderParseError` → break). It never reports a bad header. -/
theorem cut_never_partial (frames : List Frame) (hwf : ∀ f ∈ frames, f.wf) (k : Nat) :
    ∃ n, n ≤ frames.length ∧ (readFrames ((encodeAll frames).take k)).1 = frames.take n ∧
      (encodeAll (frames.take n)).length ≤ k ∧
      ((readFrames ((encodeAll frames).take k)).2 = .clean ↔
          (k = (encodeAll (frames.take n)).length ∨ (n = frames.length ∧ (encodeAll frames).length ≤ k))) ∧
      (∀ w, (readFrames ((encodeAll frames).take k)).2 ≠ .badHeader w) :=
  readFrames_take frames hwf k

/-- The uncut stream reads back exactly. -/
theorem read_all (frames : List Frame) (hwf : ∀ f ∈ frames, f.wf) :
    readFrames (encodeAll frames) = (frames, .clean) := by
  induction frames with
  | nil => exact readFrames_nil
  | cons f fs ih =>
    have hall : encodeAll (f :: fs) = encode f ++ encodeAll fs := by simp [encodeAll]
    rw [hall, readFrames_frame (readFrame_encode f (hwf f List.mem_cons_self) _),
      ih (fun g hg => hwf g (List.mem_cons_of_mem _ hg))]

/-- non-vacuity: two frames, cut inside the second body. -/
example :
    let f1 : Frame := ⟨0, 3, 0x08, [1, 2]⟩
    let f2 : Frame := ⟨0, 7, 0x08, [9, 9, 9]⟩
    readFrames ((encodeAll [f1, f2]).take 21) = ([f1], .cutInBody 2 3) := by decide +kernel

end ScyllaVerif.Props.C10

import ScyllaVerif.Model.StreamMap
import ScyllaVerif.Model.Conn
import ScyllaVerif.Model.FrameStream
import ScyllaVerif.Proofs.StreamMap
import ScyllaVerif.Proofs.Conn
import ScyllaVerif.Proofs.FrameStream
/-!
# C10 — when a connection dies every request in flight on it fails promptly; none hangs

Model: `Model/Conn.lean` (the C02 transition system; `break_ k` = the router's `try_join!` ended with error `k`:
reader I/O / header error, writer error, orphan threshold, keep-alive timeout, keep-alive request error;
a `Missing` lookup breaks it too) and `Model/FrameStream.lean` (`read_response_frame`).
The theorems show that the state machine leaves no waiter once the break event occurs, for every reachable state
(every event history, every in-flight set). That the event occurs promptly in real time (tokio timers, OS socket
errors) is outside the model; the end-to-end half of the harness observes it under virtual time (a test).
-/
namespace ScyllaVerif.Props.C10
open ScyllaVerif.StreamMap ScyllaVerif.Conn ScyllaVerif.FrameStream

/-! ## 1. a break completes everyone -/

/-- After the router ended (for whatever reason) no caller is left waiting, except one that is in the middle of
`submit_channel.send()` — it obtained channel capacity before the channel was closed and has not pushed its task
yet (`permits`); its own next step completes it (`push_after_break_fails`). Everybody else has an outcome in its
oneshot (`delivered`), has returned (`done`) or had been abandoned. For every state satisfying the invariant, hence
(`inv_reachable`) for every event history and in-flight set. -/
theorem break_completes_everyone (c : Conn) (h : Inv c) (k : BreakKind) (r : Nat)
    (hw : getCaller (doBreak c k).callers r = some .waiting) : r ∈ c.permits := by
  have hi := (h.callers.doBreak k).tracked r hw
  rcases hi with m | m | ⟨s, hs⟩ | m
  · cases m
  · cases m
  · cases hs
  · exact m

/-- The same for the event itself … -/
theorem break_event_completes_everyone (c : Conn) (h : Inv c) (hb : c.broken = false) (k : BreakKind) (r : Nat) :
    (step c (.break_ k)).broken = true ∧
      (getCaller (step c (.break_ k)).callers r = some .waiting → r ∈ (step c (.break_ k)).permits) := by
  simp only [step, hb, Bool.false_eq_true, if_false]
  exact ⟨rfl, break_completes_everyone c h k r⟩

/-- … and in general: in every reachable state with a dead router, whoever waits is in that window. -/
theorem broken_waiter_holds_permit (evs : List Ev) (r : Nat) (hb : (run Conn.init evs).broken = true)
    (hw : getCaller (run Conn.init evs).callers r = some .waiting) : r ∈ (run Conn.init evs).permits := by
  have h := Inv.reachable evs
  obtain ⟨hq, hs, _, hh, _⟩ := h.map.brk hb
  rcases h.callers.tracked r hw with m | m | ⟨s, hs'⟩ | m
  · rw [hs] at m; cases m
  · rw [hq] at m; cases m
  · rw [hh] at hs'; cases hs'
  · exact m

theorem broken_no_waiter (evs : List Ev) (r : Nat) (hb : (run Conn.init evs).broken = true)
    (hp : (run Conn.init evs).permits = []) :
    getCaller (run Conn.init evs).callers r ≠ some .waiting := by
  intro hw
  have := broken_waiter_holds_permit evs r hb hw
  rw [hp] at this; cases this

/-- The window closes: the racing caller's push reaches the drain loop (`receiver.close()` + `recv()` until every
outstanding permit is used up), which fails the task with the error that broke the connection. This is the hang
repaired by /repo commit 8b0b75c. -/
theorem push_after_break_fails (c : Conn) (h : Inv c) (hb : c.broken = true) (r : Nat) (hp : r ∈ c.permits)
    (hw : getCaller c.callers r = some .waiting) :
    ∃ k, c.cause = some k ∧
      getCaller (step c (.push r)).callers r = some (.delivered (.err (.broken k))) := by
  obtain ⟨_, _, _, _, k, hk⟩ := h.map.brk hb
  refine ⟨k, hk, ?_⟩
  have hc : c.permits.contains r = true := by simpa using hp
  simp only [step, hc, hb, if_true, getCaller_deliver, hw, drainErr, hk]
  simp

theorem push_permits (c : Conn) (r : Nat) : (step c (.push r)).permits = c.permits.filter (· != r) := by
  simp only [step]
  split
  · split <;> rfl
  · rename_i hc
    have hc : r ∉ c.permits := by simpa using hc
    symm
    apply List.filter_eq_self.mpr
    intro x hx
    have : x ≠ r := fun e => hc (e ▸ hx)
    simpa using this

theorem pushes_permits (l : List Nat) (c : Conn) :
    ∀ x, x ∈ (run c (l.map Ev.push)).permits → x ∈ c.permits ∧ x ∉ l := by
  unfold Conn.run
  induction l generalizing c with
  | nil => intro x hx; exact ⟨hx, by simp⟩
  | cons r rest ih =>
    intro x hx
    simp only [List.map_cons, List.foldl_cons] at hx
    have := ih (step c (.push r)) x hx
    rw [push_permits] at this
    have hm := List.mem_filter.mp this.1
    have hne : x ≠ r := by simpa using hm.2
    exact ⟨hm.1, by simp [hne, this.2]⟩

theorem run_broken_stays (evs : List Ev) (c : Conn) (hb : c.broken = true)
    (hstep : ∀ c e, c.broken = true → (step c e).broken = true) : (run c evs).broken = true := by
  unfold Conn.run
  induction evs generalizing c with
  | nil => exact hb
  | cons e rest ih => exact ih (step c e) (hstep c e hb)

/-- What each waiter gets: a registered or queued one the error that broke the connection, one parked for
channel capacity `ChannelError`, one in the push window nothing yet. Nothing else changes (in particular a
delivered response stays delivered). -/
theorem break_outcomes (c : Conn) (k : BreakKind) (r : Nat) :
    getCaller (doBreak c k).callers r =
      if getCaller c.callers r = some .waiting then
        (if r ∈ c.map.handlers.map (·.2) ∨ r ∈ c.queue then some (.delivered (.err (.broken k)))
         else if r ∈ c.sending then some (.delivered (.err .channelError))
         else some .waiting)
      else getCaller c.callers r :=
  doBreak_callers c k r

theorem break_fails_waiters (c : Conn) (h : Inv c) (k : BreakKind) (r : Nat)
    (hw : getCaller c.callers r = some .waiting) (hp : r ∉ c.permits) :
    getCaller (doBreak c k).callers r = some (.delivered (.err (.broken k))) ∨
    getCaller (doBreak c k).callers r = some (.delivered (.err .channelError)) := by
  have hne := break_completes_everyone c h k r
  rw [break_outcomes] at *
  simp only [hw, if_true] at *
  split
  · exact Or.inl rfl
  · rename_i h1
    simp only [h1, if_false] at hne
    split
    · exact Or.inr rfl
    · rename_i h2; simp only [h2, if_false] at hne; exact absurd (hne trivial) hp

/-- non-vacuity: four requests — one written, one queued behind it, one answered but not yet polled, one in the
push window — and a keep-alive timeout; then the racing push. -/
example :
    let c := run Conn.init [.submit, .submit, .writerTake, .writerTake, .respond 1, .submit, .submitRace,
      .break_ .keepaliveTimeout]
    getCaller c.callers 0 = some (.delivered (.err (.broken .keepaliveTimeout))) ∧
    getCaller c.callers 1 = some (.delivered (.frame 1)) ∧
    getCaller c.callers 2 = some (.delivered (.err (.broken .keepaliveTimeout))) ∧
    getCaller c.callers 3 = some .waiting ∧ c.permits = [3] ∧
    getCaller (step c (.push 3)).callers 3 = some (.delivered (.err (.broken .keepaliveTimeout))) ∧
    (step c (.push 3)).permits = [] := by decide +kernel

/-- The router BEFORE /repo commit 8b0b75c merely dropped the receiver: a task pushed afterwards by a sender that
already held capacity stayed in the dead channel for as long as the connection lived. -/
def pushOld (c : Conn) (r : Nat) : Conn :=
  if c.broken && c.permits.contains r then { c with permits := c.permits.filter (· != r) }
  else step c (.push r)

/-- Counterexample OF THE OLD MODEL (documentation of the repaired defect, not a statement about the current
code): the racing caller is still waiting although the router is gone, the channel is empty, nobody holds capacity
any more — no step of the system will ever complete it. -/
example :
    let c := pushOld (run Conn.init [.submitRace, .break_ .frameHeaderParseError]) 0
    c.broken = true ∧ c.permits = [] ∧ c.queue = [] ∧ c.sending = [] ∧
      getCaller c.callers 0 = some .waiting := by decide +kernel

/-! ## 2. after the break -/

theorem broken_stays (c : Conn) (e : Ev) (hb : c.broken = true) : (step c e).broken = true := by
  cases e <;> simp only [step, hb, if_true] <;> try rfl
  all_goals (split <;> first | rfl | exact hb)

/-- Once every caller of the push window has pushed, nobody at all is waiting: the race window leaves no hang. -/
theorem race_window_drains (c : Conn) (h : Inv c) (hb : c.broken = true) (r : Nat) :
    getCaller (run c (c.permits.map Ev.push)).callers r ≠ some .waiting := by
  intro hw
  have hinv : Inv (run c (c.permits.map Ev.push)) := h.run _
  have hb' := run_broken_stays (c.permits.map Ev.push) c hb broken_stays
  obtain ⟨hq, hs, _, hh, _⟩ := hinv.map.brk hb'
  rcases hinv.callers.tracked r hw with m | m | ⟨s, hs'⟩ | m
  · rw [hs] at m; cases m
  · rw [hq] at m; cases m
  · rw [hh] at hs'; cases hs'
  · have := pushes_permits c.permits c r m
    exact this.2 this.1

/-- A request submitted after the break fails immediately with `ChannelError`. -/
theorem after_break_submit_fails (c : Conn) (hb : c.broken = true) :
    getCaller (step c .submit).callers c.nextReq = some (.done (.err .channelError)) := by
  simp [step, hb, getCaller_setCaller]

/-- A caller holds a response frame. -/
def holdsFrame (c : Conn) (r f : Nat) : Prop :=
  getCaller c.callers r = some (.delivered (.frame f)) ∨ getCaller c.callers r = some (.done (.frame f))

/-- After the break nobody is handed a response any more: the set of callers holding a frame does not grow. -/
theorem no_delivery_after_break_step (c : Conn) (e : Ev) (hb : c.broken = true) (r f : Nat)
    (h : holdsFrame (step c e) r f) : holdsFrame c r f := by
  unfold holdsFrame at *
  cases e with
  | submit =>
    simp only [step, hb, if_true, getCaller_setCaller] at h
    split at h
    · rcases h with e | e <;> cases e
    · exact h
  | submitFull =>
    simp only [step, hb, if_true, getCaller_setCaller] at h
    split at h
    · rcases h with e | e <;> cases e
    · exact h
  | enqueue r' => simpa only [step, hb, if_true] using h
  | submitRace =>
    simp only [step, hb, if_true, getCaller_setCaller] at h
    split at h
    · rcases h with e | e <;> cases e
    · exact h
  | push r' =>
    simp only [step, hb, if_true] at h
    split at h
    · simp only [getCaller_deliver] at h
      split at h
      · rcases h with e | e <;> cases e
      · exact h
    · exact h
  | writerTake => simpa only [step, hb, if_true] using h
  | orphanerStep => simpa only [step, hb, if_true] using h
  | respond i => simpa only [step, hb, if_true] using h
  | unsolicited s => simpa only [step, hb, if_true] using h
  | break_ k => simpa only [step, hb, if_true] using h
  | cancel r' =>
    simp only [step] at h
    split at h
    · simp only [getCaller_setCaller] at h
      split at h
      · rcases h with e | e <;> cases e
      · exact h
    · simp only [getCaller_setCaller] at h
      split at h
      · rcases h with e | e <;> cases e
      · exact h
    · exact h
  | recv r' =>
    simp only [step] at h
    split at h
    · rename_i o hg
      simp only [getCaller_setCaller] at h
      split at h
      · rename_i e; subst e
        rcases h with e | e
        · cases e
        · simp only [Option.some.injEq, CallerSt.done.injEq] at e
          subst e; exact Or.inl hg
      · exact h
    · exact h

theorem no_delivery_after_break (c : Conn) (evs : List Ev) (hb : c.broken = true) (r f : Nat)
    (h : holdsFrame (run c evs) r f) : holdsFrame c r f := by
  unfold Conn.run at h
  induction evs generalizing c with
  | nil => exact h
  | cons e rest ih =>
    exact no_delivery_after_break_step c e hb r f (ih (step c e) (broken_stays c e hb) h)

/-! ## 3. the faults -/

/-- A frame for a stream nobody is waiting on breaks the connection (`UnexpectedStreamId`) — and by
`break_completes_everyone` everybody in flight is completed. -/
theorem unsolicited_stream_breaks (c : Conn) (h : Inv c) (hb : c.broken = false) (s : Nat) (hs : s < 32768)
    (hno : ∀ r, (s, r) ∉ c.server) :
    (step c (.unsolicited s)).broken = true ∧ (step c (.unsolicited s)).cause = some .unexpectedStreamId ∧
      ∀ r, getCaller (step c (.unsolicited s)).callers r = some .waiting → r ∈ c.permits := by
  have hany : ¬ (c.server.any (fun p => p.1 == s)) = true := by
    intro ha
    obtain ⟨⟨s', r'⟩, hm, e⟩ := List.any_eq_true.mp ha
    have : s' = s := by simpa using e
    subst this
    exact hno r' hm
  have hs' : ¬ idCount ≤ s := by unfold idCount; omega
  have hstr := not_mem_streams_of_any hany
  have e : step c (.unsolicited s) =
      doBreak ({ c with map := { c.map with ids := c.map.ids.free s } } : Conn) .unexpectedStreamId := by
    simp only [step, hb, Bool.false_eq_true, if_false, hs', hany, lookup_unowed h.map hstr]
  rw [e]
  refine ⟨rfl, rfl, ?_⟩
  intro r
  exact break_completes_everyone _ ⟨h.map.freeUnowed hstr, { h.callers with }⟩ _ r

/-- A keep-alive timeout is the break event with cause `KeepaliveTimeout` (the timer is abstract): the router
ends, every handler receives that error. -/
theorem keepalive_timeout_breaks (c : Conn) (h : Inv c) (hb : c.broken = false) (r : Nat) :
    step c (.break_ .keepaliveTimeout) = doBreak c .keepaliveTimeout ∧
    (step c (.break_ .keepaliveTimeout)).cause = some .keepaliveTimeout ∧
    (getCaller (step c (.break_ .keepaliveTimeout)).callers r = some .waiting → r ∈ c.permits) := by
  have e : step c (.break_ .keepaliveTimeout) = doBreak c .keepaliveTimeout := by
    simp only [step, hb, Bool.false_eq_true, if_false]
  rw [e]
  exact ⟨rfl, rfl, break_completes_everyone c h _ r⟩

/-! ## 4. a cut at any byte offset never yields a partial or foreign frame -/

/-- Reading the first `k` bytes of any sequence of (wire-representable) response frames yields exactly the first
`n` frames for some `n` — never a truncated, altered or invented frame —, and the stream then ends `clean` only
if the cut is exactly on the boundary after them; otherwise the reader reports a cut inside the header or the
body (`FrameHeaderParseError` → break). It never reports a bad header. -/
theorem cut_never_partial (frames : List Frame) (hwf : ∀ f ∈ frames, f.wf) (k : Nat) :
    ∃ n, n ≤ frames.length ∧ (readFrames ((encodeAll frames).take k)).1 = frames.take n ∧
      (encodeAll (frames.take n)).length ≤ k ∧
      ((readFrames ((encodeAll frames).take k)).2 = .boundary ↔
          (k = (encodeAll (frames.take n)).length ∨ (n = frames.length ∧ (encodeAll frames).length ≤ k))) ∧
      (∀ w, (readFrames ((encodeAll frames).take k)).2 ≠ .badHeader w) :=
  readFrames_take frames hwf k

/-- The uncut stream reads back exactly. -/
theorem read_all (frames : List Frame) (hwf : ∀ f ∈ frames, f.wf) :
    readFrames (encodeAll frames) = (frames, .boundary) := by
  induction frames with
  | nil => exact readFrames_nil
  | cons f fs ih =>
    have hall : encodeAll (f :: fs) = encode f ++ encodeAll fs := by simp [encodeAll]
    rw [hall, readFrames_frame (readFrame_encode f (hwf f List.mem_cons_self) _),
      ih (fun g hg => hwf g (List.mem_cons_of_mem _ hg))]

/-- non-vacuity: two frames, cut inside the second body. -/
example :
    let f1 : Frame := ⟨0, 3, 0x08, [1, 2]⟩
    let f2 : Frame := ⟨0, 7, 0x08, [9, 9, 9]⟩
    readFrames ((encodeAll [f1, f2]).take 21) = ([f1], .cutInBody 2 3) := by decide +kernel

end ScyllaVerif.Props.C10

/-
C19 — metadata updates handed between driver workers are neither lost nor duplicated.

Models: `Model/MergeChannel.lean` (transition system over the atomic steps of `merge_channel.rs`, with the
`tokio::sync::Notify` contract N1-N5 written out there) and `Model/MetaUpdate.lean` (`MetadataUpdate::merge_*`).
The inductive invariant and its preservation by every action are in `Proofs/MergeChannel.lean`.
`Model/RefreshFlow.lean` models the life of a refresh request across both workers (section "a requested refresh is
answered"). Honest labels: `full_fetch_replaces_routes`, `client_routes_merge_cases` and `merge_fills_slot` are case
splits that restate the definitions of `Model/MetaUpdate.lean` (they document the transcription; the evidence for
them is the differential `slot` run).

Every channel theorem is stated for `run init acts` with `acts : List Act` arbitrary: disabled actions stutter, so
this is every interleaving of the producer's and the consumer's atomic steps (two OS threads under sequential
consistency), every placement of cancellations (`Act.cancel`: a `select!` dropping a suspended `recv()`), spurious
polls of a parked consumer included.
-/
import ScyllaVerif.Proofs.MergeChannel
import ScyllaVerif.Model.MetaUpdate
import ScyllaVerif.Model.RefreshFlow
import ScyllaVerif.Model.ClusterConsumer
import ScyllaVerif.Model.C19PoolInit
import ScyllaVerif.Model.C19Whole
import ScyllaVerif.Model.C19FetchPlan
import ScyllaVerif.Model.C19Establish
import ScyllaVerif.Model.C19Deadline
import ScyllaVerif.Model.C19EventWait

namespace ScyllaVerif.Props.C19
open ScyllaVerif.MergeChannel

/-! ### every update in exactly one received value, in order -/

/-- The values returned by `recv` so far, concatenated, followed by the value `recv` has taken and is about to
return, followed by the slot's contents, are exactly the updates merged so far, in order: no update is lost,
none is observed twice, none is reordered - in every reachable state of every interleaving. -/
theorem no_loss_no_dup (acts : List Act) :
    let s := run init acts
    flat s.received ++ inflight s ++ slotContents s = s.merged :=
  (inv_reachable acts).data

/-- What the consumer has received is always a prefix of what was merged. -/
theorem received_prefix_of_merged (acts : List Act) :
    flat (run init acts).received <+: (run init acts).merged := by
  have h := (inv_reachable acts).data
  exact ⟨inflight (run init acts) ++ slotContents (run init acts), by rw [← h, List.append_assoc]⟩

/-- `recv` never returns `Some` of an empty batch (a received value carries at least one update). -/
theorem received_values_nonempty (acts : List Act) (v : List Nat)
    (h : some v ∈ (run init acts).received) : v ≠ [] :=
  (inv_reachable acts).recvNe v h

/-- When `recv` has nothing in flight and the slot is empty, everything merged has been received. -/
theorem all_received_when_slot_empty (acts : List Act)
    (hs : (run init acts).slot = none) (hr : ∀ v, (run init acts).rpc ≠ .ret (some v)) :
    flat (run init acts).received = (run init acts).merged := by
  have h := (inv_reachable acts).data
  have hi : inflight (run init acts) = [] := by
    unfold inflight
    split
    · exact absurd ‹_› (hr _)
    · rfl
  simpa [hi, slotContents, hs] using h

-- non-vacuity: producer merges 1 and 2 (merged into one pending value), the consumer receives `[1, 2]`,
-- the producer merges 3 while the consumer is between calls.
example :
    let s := run init [.callModify 1, .sStep, .sStep, .sStep, .callModify 2, .sStep, .sStep, .sStep,
      .callRecv, .rStep, .rStep, .rStep, .rStep, .callModify 3, .sStep, .sStep, .sStep]
    s.received = [some [1, 2]] ∧ s.slot = some [3] ∧ s.merged = [1, 2, 3] := by decide

/-! ### no lost wake-up -/

/-- A parked consumer (its `recv` returned `Pending`) is never left asleep while there is something for it:
if the slot holds a value or the sender has been dropped, then either its `Notified` future has been notified
AND its waker has been woken (so the runtime polls it again and `parked_notified_proceeds` applies), or the
producer's very next atomic step is the `notify_one()` that does so. Holds across cancel / restart as well
(`Act.cancel` and `Act.callRecv` are among the actions quantified over). -/
theorem no_lost_wakeup (acts : List Act) :
    let s := run init acts
    s.rpc = .parked → (s.slot.isSome = true ∨ s.senderDropped = true) →
      (s.waiter = .notified ∧ s.woken = true) ∨ s.spc = .modNotify true ∨ s.spc = .dropNotify := by
  intro s
  have inv : MergeChannel.Inv s := inv_reachable acts
  clear_value s
  intro hp hc
  have hreg : s.waiter = .notified ∨ (s.waiter ≠ .notified ∧ s.permit = false) := by
    rcases inv.parkedWaker hp with h | h
    · exact Or.inr ⟨by rw [h]; simp, inv.regNoPermit _ h⟩
    · exact Or.inl h
  rcases hc with hc | hc
  · rcases inv.signal hc with h | h | h | h
    · rcases hreg with hn | ⟨_, hnp⟩
      · exact Or.inl ⟨hn, inv.wokenInv hp hn⟩
      · rw [hnp] at h; exact absurd h (by simp)
    · exact Or.inl ⟨h, inv.wokenInv hp h⟩
    · exact Or.inr (Or.inl h)
    · rw [hp] at h; exact absurd h (by simp [onWayToTake])
  · rcases inv.dropSignal hc (Or.inr hp) with h | h | h
    · exact Or.inl ⟨h, inv.wokenInv hp h⟩
    · rcases hreg with hn | ⟨_, hnp⟩
      · exact Or.inl ⟨hn, inv.wokenInv hp hn⟩
      · rw [hnp] at h; exact absurd h (by simp)
    · exact Or.inr (Or.inr h)

/-- Same guarantee one step earlier: a consumer that found the slot empty and is about to poll `notified`
(line 173) will not park on a full slot / dropped sender unless the producer's `notify_one()` is still to come:
its poll returns `Ready` (notified, or a permit was consumed by `enable()`) - or the notify is the producer's next step. -/
theorem about_to_park_is_signalled (acts : List Act) :
    let s := run init acts
    s.rpc = .await → (s.slot.isSome = true ∨ s.senderDropped = true) →
      pollReady s = true ∨ s.spc = .modNotify true ∨ s.spc = .dropNotify := by
  intro s
  have inv : MergeChannel.Inv s := inv_reachable acts
  clear_value s
  intro hp hc
  have hf : s.fut = .waiting ∨ s.fut = .done := by
    have := inv.futPc; rw [hp] at this; simpa [futOk] using this
  have key : s.waiter = .notified ∨ s.permit = true → pollReady s = true := by
    intro h
    rcases hf with hf | hf
    · rcases h with h | h
      · simp [pollReady, hf, h]
      · -- a permit is stored: then no waiter is registered, contradiction with `waiting`
        have hw : s.waiter ≠ .none := fun hw => (inv.tie.mp hw) hf
        cases hwt : s.waiter with
        | none => exact absurd hwt hw
        | notified => simp [pollReady, hf, hwt]
        | registered w => have := inv.regNoPermit w hwt; rw [this] at h; exact absurd h (by simp)
    · simp [pollReady, hf]
  rcases hc with hc | hc
  · rcases inv.signal hc with h | h | h | h
    · exact Or.inl (key (Or.inr h))
    · exact Or.inl (key (Or.inl h))
    · exact Or.inr (Or.inl h)
    · rw [hp] at h; exact absurd h (by simp [onWayToTake])
  · rcases inv.dropSignal hc (Or.inl hp) with h | h | h
    · exact Or.inl (key (Or.inl h))
    · exact Or.inl (key (Or.inr h))
    · exact Or.inr (Or.inr h)

/-- Progress of a woken consumer: polled again, a parked consumer whose `Notified` was notified leaves the wait
and goes back to the top of the loop, i.e. to `enable()` and `take()`. -/
theorem parked_notified_proceeds (acts : List Act) :
    let s := run init acts
    s.rpc = .parked → s.waiter = .notified → (step s .rStep).rpc = .loopTop := by
  intro s
  have inv : MergeChannel.Inv s := inv_reachable acts
  clear_value s
  intro hp hw
  have hf : s.fut = .waiting := by
    have := inv.futPc; rw [hp] at this; simpa [futOk] using this
  simp [step, rStep, hp, awaitStep, pollReady, hf, hw]

/-- No deadlock at quiescence, value case: the producer has finished its call, the consumer is parked and a value is in
the slot. Then (by `no_lost_wakeup`) it has been woken, and the poll the runtime owes it returns exactly the pending
value: `recv` completes with `Some(slot contents)`, the slot is empty afterwards. -/
theorem woken_consumer_receives (acts : List Act) (v : List Nat) :
    let s := run init acts
    s.rpc = .parked → s.slot = some v → (s.spc = .idle ∨ s.spc = .gone) →
      s.woken = true ∧ (pollRecv s).rpc = .idle ∧ (pollRecv s).received = s.received ++ [some v] ∧
      (pollRecv s).slot = none := by
  intro s
  have hnl := no_lost_wakeup acts
  have inv : MergeChannel.Inv s := inv_reachable acts
  have hnl' : s.rpc = .parked → (s.slot.isSome = true ∨ s.senderDropped = true) →
      (s.waiter = .notified ∧ s.woken = true) ∨ s.spc = .modNotify true ∨ s.spc = .dropNotify := hnl
  clear_value s
  intro hp hs hq
  have hf : s.fut = .waiting := by
    have := inv.futPc; rw [hp] at this; simpa [futOk] using this
  have hw : s.waiter = .notified ∧ s.woken = true := by
    rcases hnl' hp (Or.inl (by simp [hs])) with h | h | h
    · exact h
    · rcases hq with hq | hq <;> rw [hq] at h <;> exact absurd h (by simp)
    · rcases hq with hq | hq <;> rw [hq] at h <;> exact absurd h (by simp)
  refine ⟨hw.2, ?_⟩
  by_cases hperm : s.permit = true <;>
    simp [pollRecv, settleReceiver, isSuspended, rStep, awaitStep, pollReady, pollNotified, dropNotified, enableFut,
      hp, hf, hw.1, hs, hperm]

/-- No deadlock at quiescence, close case: the producer is gone, the slot is empty, the consumer is parked. Then it has
been woken and the poll the runtime owes it returns `None`. -/
theorem woken_consumer_sees_close (acts : List Act) :
    let s := run init acts
    s.rpc = .parked → s.slot = none → s.spc = .gone →
      s.woken = true ∧ (pollRecv s).rpc = .idle ∧ (pollRecv s).received = s.received ++ [none] := by
  intro s
  have hnl := no_lost_wakeup acts
  have inv : MergeChannel.Inv s := inv_reachable acts
  have hnl' : s.rpc = .parked → (s.slot.isSome = true ∨ s.senderDropped = true) →
      (s.waiter = .notified ∧ s.woken = true) ∨ s.spc = .modNotify true ∨ s.spc = .dropNotify := hnl
  clear_value s
  intro hp hs hq
  have hf : s.fut = .waiting := by
    have := inv.futPc; rw [hp] at this; simpa [futOk] using this
  have hd : s.senderDropped = true := inv.sdFlag.mpr (Or.inr hq)
  have hw : s.waiter = .notified ∧ s.woken = true := by
    rcases hnl' hp (Or.inr hd) with h | h | h
    · exact h
    · rw [hq] at h; exact absurd h (by simp)
    · rw [hq] at h; exact absurd h (by simp)
  refine ⟨hw.2, ?_⟩
  by_cases hperm : s.permit = true <;>
    simp [pollRecv, settleReceiver, isSuspended, rStep, awaitStep, pollReady, pollNotified, dropNotified, enableFut,
      hp, hf, hw.1, hs, hperm, hd]

/-- Cancelling a parked `recv()` whose notification was delivered but never observed passes the notification on:
the permit is stored again, the value stays in the slot, the consumer is back between calls. -/
theorem cancel_restores_permit (acts : List Act) :
    let s := run init acts
    s.rpc = .parked → s.waiter = .notified →
      (step s .cancel).permit = true ∧ (step s .cancel).slot = s.slot ∧ (step s .cancel).rpc = .idle ∧
      (step s .cancel).merged = s.merged ∧ (step s .cancel).received = s.received := by
  intro s
  have inv : MergeChannel.Inv s := inv_reachable acts
  clear_value s
  intro hp hw
  have hf : s.fut = .waiting := by
    have := inv.futPc; rw [hp] at this; simpa [futOk] using this
  simp [step, cancel, hp, dropNotified, hf, hw]

/-- Cancellation never loses the signal: whenever the consumer is between `recv` calls (or holds a future it has
never polled) and a value is pending, a permit is stored in the `Notify` or the producer is about to store one. -/
theorem pending_value_signalled_between_calls (acts : List Act) :
    let s := run init acts
    (s.rpc = .idle ∨ s.rpc = .created) → s.slot.isSome = true → s.permit = true ∨ s.spc = .modNotify true := by
  intro s
  have inv : MergeChannel.Inv s := inv_reachable acts
  clear_value s
  intro hr hs
  have hf : s.fut = .absent := by
    have := inv.futPc
    rcases hr with hr | hr <;> rw [hr] at this <;> simpa [futOk] using this
  have hw : s.waiter = .none := inv.tie.mpr (by rw [hf]; simp)
  rcases inv.signal hs with h | h | h | h
  · exact Or.inl h
  · rw [hw] at h; exact absurd h (by simp)
  · exact Or.inr h
  · rcases hr with hr | hr <;> rw [hr] at h <;> exact absurd h (by simp [onWayToTake])

/-- Cancellation removes nothing from the slot and returns nothing: `merged`, `received` and the slot are untouched. -/
theorem cancel_is_data_neutral (s : State) :
    (step s .cancel).slot = s.slot ∧ (step s .cancel).merged = s.merged ∧ (step s .cancel).received = s.received := by
  simp only [step, cancel]
  split
  · simp
  · unfold dropNotified; split <;> (try split) <;> simp
  · simp

-- non-vacuity: the consumer parks, the producer merges 7 (waiter notified, waker woken), the wait is cancelled
-- (permit restored), a restarted `recv` returns `[7]` at its first poll.
example :
    let s := run init [.callRecv, .rStep, .rStep, .rStep, .rStep, .rStep, .callModify 7, .sStep, .sStep, .sStep]
    s.rpc = .parked ∧ s.waiter = .notified ∧ s.woken = true ∧ s.wakes = 1 ∧ s.slot = some [7] := by decide
example :
    let s := run init [.callRecv, .rStep, .rStep, .rStep, .rStep, .rStep, .callModify 7, .sStep, .sStep, .sStep,
      .cancel, .callRecv, .rStep, .rStep, .rStep, .rStep]
    s.received = [some [7]] ∧ s.rpc = .idle ∧ s.permit = false := by decide
-- non-vacuity of the two quiescence theorems: parked consumer + finished `modify` / finished drop
example :
    let s := run init [.callRecv, .rStep, .rStep, .rStep, .rStep, .rStep, .callModify 7, .sStep, .sStep, .sStep]
    s.rpc = .parked ∧ s.slot = some [7] ∧ s.spc = .idle ∧ (pollRecv s).received = [some [7]] := by decide
example :
    let s := run init [.callRecv, .rStep, .rStep, .rStep, .rStep, .rStep, .callDropSender, .sStep, .sStep]
    s.rpc = .parked ∧ s.slot = none ∧ s.spc = .gone ∧ (pollRecv s).received = [none] := by decide
-- the race the code comments on: the value is merged between `enable()` and the park; the poll is Ready.
example :
    let s := run init [.callRecv, .rStep, .rStep, .rStep, .rStep, .callModify 7, .sStep, .sStep, .sStep]
    s.rpc = .await ∧ s.slot = some [7] ∧ pollReady s = true := by decide

/-! ### `None` only after the last value -/

private theorem received_eq_or_snoc (s : State) (a : Act) :
    (step s a).received = s.received ∨ ∃ v, s.rpc = .ret v ∧ (step s a).received = s.received ++ [v] := by
  cases a with
  | callModify x => simp only [step]; split <;> simp
  | callDropSender => simp only [step]; split <;> simp
  | callRecv => simp only [step]; split <;> simp
  | callDropReceiver => simp only [step]; split <;> simp
  | cancel =>
    simp only [step, cancel]
    split
    · simp
    · unfold dropNotified; split <;> (try split) <;> simp
    · simp
  | sStep =>
    simp only [step, sStep]
    split
    · split <;> simp
    · simp
    · split
      · unfold notifyOne; split <;> simp
      · simp
    · simp
    · unfold notifyOne; split <;> simp
    · simp
    · simp
  | rStep =>
    simp only [step, rStep]
    split
    · simp
    · simp
    · unfold enableFut; split <;> simp
    · split <;> simp
    · split <;> simp
    · simp
    · rename_i v hv
      right
      refine ⟨v, hv, ?_⟩
      unfold dropNotified; split <;> (try split) <;> simp
    · left; unfold awaitStep pollNotified dropNotified enableFut
      split <;> split <;> (try split) <;> (try split) <;> (try split) <;> simp
    · left; unfold awaitStep pollNotified dropNotified enableFut
      split <;> split <;> (try split) <;> (try split) <;> (try split) <;> simp
    · simp
    · simp

/-- The step at which `recv` returns `None`: the sender has been dropped, the slot is empty, and everything that
was ever merged has ALREADY been returned by earlier `recv` calls - in particular a value merged right before the
drop is delivered first (the second `take()` at line 170). -/
theorem none_only_after_last (acts : List Act) (a : Act) :
    let s := run init acts
    (step s a).received = s.received ++ [none] →
      s.senderDropped = true ∧ s.slot = none ∧ flat s.received = s.merged := by
  intro s
  have inv : MergeChannel.Inv s := inv_reachable acts
  clear_value s
  intro h
  rcases received_eq_or_snoc s a with h' | ⟨v, hv, h'⟩
  · rw [h'] at h
    have := congrArg List.length h
    simp at this
  · rw [h'] at h
    have hv' : v = none := by
      have := List.append_cancel_left h
      simpa using this
    subst hv'
    obtain ⟨hd, hs⟩ := inv.retNone (Or.inl hv)
    refine ⟨hd, hs, ?_⟩
    have hdat := inv.data
    simpa [inflight, hv, slotContents, hs] using hdat

/-- Once `None` has been returned the channel is finished for good, in every later state: sender dropped, slot
empty, everything merged was received. -/
theorem none_is_final (acts : List Act) :
    let s := run init acts
    none ∈ s.received → s.senderDropped = true ∧ s.slot = none ∧ flat s.received ++ inflight s = s.merged := by
  intro s
  have inv : MergeChannel.Inv s := inv_reachable acts
  clear_value s
  intro h
  obtain ⟨hd, hs⟩ := inv.retNone (Or.inr h)
  refine ⟨hd, hs, ?_⟩
  have hdat := inv.data
  simpa [slotContents, hs] using hdat

/-- After the sender was dropped nothing more is merged. -/
theorem merged_frozen_after_drop (acts : List Act) (a : Act) :
    let s := run init acts
    s.senderDropped = true → (step s a).merged = s.merged := by
  intro s
  have inv : MergeChannel.Inv s := inv_reachable acts
  clear_value s
  intro hd
  have hspc := inv.sdFlag.mp hd
  cases a with
  | callModify x => simp only [step]; split <;> simp
  | callDropSender => simp only [step]; split <;> simp
  | callRecv => simp only [step]; split <;> simp
  | callDropReceiver => simp only [step]; split <;> simp
  | cancel =>
    simp only [step, cancel]
    split
    · simp
    · unfold dropNotified; split <;> (try split) <;> simp
    · simp
  | sStep =>
    rcases hspc with h | h
    · simp only [step, sStep, h]; unfold notifyOne; split <;> simp
    · simp [step, sStep, h]
  | rStep =>
    simp only [step, rStep]
    split
    · simp
    · simp
    · unfold enableFut; split <;> simp
    · split <;> simp
    · split <;> simp
    · simp
    · unfold dropNotified; split <;> (try split) <;> simp
    · unfold awaitStep pollNotified dropNotified enableFut
      split <;> split <;> (try split) <;> (try split) <;> (try split) <;> simp
    · unfold awaitStep pollNotified dropNotified enableFut
      split <;> split <;> (try split) <;> (try split) <;> (try split) <;> simp
    · simp
    · simp

-- non-vacuity: the race of the code comment at 167-169 - `take()` finds nothing, then the producer merges 5 and is
-- dropped, then the consumer reads the flag: the second `take()` still delivers `[5]`; `None` comes only afterwards.
example :
    let s := run init [.callRecv, .rStep, .rStep, .rStep, .callModify 5, .sStep, .sStep, .sStep,
      .callDropSender, .sStep, .sStep, .rStep, .rStep, .rStep,
      .callRecv, .rStep, .rStep, .rStep, .rStep, .rStep, .rStep]
    s.received = [some [5], none] ∧ s.merged = [5] := by decide

/-! ### the producer learns that the consumer is gone -/

/-- In every reachable state in which the receiver has been dropped, a `modify` call (run to completion, whatever the
consumer side is) returns `SendError` and does not apply `f`: slot, `merged`, permit and wake count are untouched. -/
theorem sender_learns (acts : List Act) (x : Nat) :
    let s := run init acts
    s.rpc = .gone → s.spc = .idle →
      (opMerge x s).sends = s.sends ++ [false] ∧ (opMerge x s).spc = .idle ∧ (opMerge x s).slot = s.slot ∧
      (opMerge x s).merged = s.merged ∧ (opMerge x s).permit = s.permit ∧ (opMerge x s).wakes = s.wakes := by
  intro s
  have inv : MergeChannel.Inv s := inv_reachable acts
  clear_value s
  intro hr hs
  have hrd : s.receiverDropped = true := inv.rdFlag.mpr hr
  simp [opMerge, settleSender, step, sStep, hs, hrd]

/-- The same at the level of the atomic step: in a reachable state, the load at line 106 observes the flag exactly
when the receiver is gone, and then the call ends at once with `SendError`. -/
theorem sender_learns_step (acts : List Act) (x : Nat) :
    let s := run init acts
    s.spc = .modStart x → s.rpc = .gone →
      (step s .sStep).sends = s.sends ++ [false] ∧ (step s .sStep).spc = .idle ∧
      (step s .sStep).slot = s.slot ∧ (step s .sStep).merged = s.merged := by
  intro s
  have inv : MergeChannel.Inv s := inv_reachable acts
  clear_value s
  intro hpc hr
  have hrd : s.receiverDropped = true := inv.rdFlag.mpr hr
  simp [step, sStep, hpc, hrd]

/-- ... and in every reachable state in which the receiver is alive, `modify` returns `Ok`, having applied `f`
exactly once (no spurious `SendError`). -/
theorem sender_proceeds_while_receiver_alive (acts : List Act) (x : Nat) :
    let s := run init acts
    s.rpc ≠ .gone → s.spc = .idle →
      (opMerge x s).sends = s.sends ++ [true] ∧ (opMerge x s).spc = .idle ∧
      (opMerge x s).merged = s.merged ++ [x] ∧ (opMerge x s).slot = applyPush s.slot x := by
  intro s
  have inv : MergeChannel.Inv s := inv_reachable acts
  clear_value s
  intro hr hs
  have hrd : s.receiverDropped = false := by
    cases h : s.receiverDropped with
    | false => rfl
    | true => exact absurd (inv.rdFlag.mp h) hr
  unfold opMerge
  simp only [step, hs, if_true]
  simp only [settleSender, sStep, hrd]
  simp
  unfold notifyOne
  split <;> simp

/-- `Ok` results and applied updates correspond one to one, in every reachable state: the number of `modify` calls
that returned `Ok`, plus one for a call that has applied `f` and not yet returned, is the number of merged updates.
In particular between calls (`spc` idle or gone) `#Ok = #merged`: a `SendError` call never applied anything and an
`Ok` call applied exactly once. -/
theorem ok_results_match_merged (acts : List Act) :
    let s := run init acts
    okCount s.sends + applied s.spc = s.merged.length ∧
    ((s.spc = .idle ∨ s.spc = .gone) → okCount s.sends = s.merged.length) := by
  intro s
  have h : SendsInv s := sendsInv_reachable acts
  clear_value s
  unfold SendsInv at h
  refine ⟨h, ?_⟩
  intro hq
  rcases hq with hq | hq <;> rw [hq] at h <;> simpa [applied] using h

private def Dead (s : State) : Prop :=
  s.receiverDropped = true ∧ (∀ x, s.spc ≠ .modLock x)

private theorem dead_step (s : State) (a : Act) (h : Dead s) :
    Dead (step s a) ∧ (step s a).merged = s.merged ∧ (step s a).slot = s.slot ∨
    Dead (step s a) ∧ (step s a).merged = s.merged ∧ (step s a).slot = none := by
  obtain ⟨hr, hl⟩ := h
  cases a with
  | callModify x => left; simp only [step]; split <;> simp_all [Dead]
  | callDropSender => left; simp only [step]; split <;> simp_all [Dead]
  | callRecv => left; simp only [step]; split <;> simp_all [Dead]
  | callDropReceiver => left; simp only [step]; split <;> simp_all [Dead]
  | cancel =>
    left
    simp only [step, cancel]
    split
    · simp_all [Dead]
    · unfold dropNotified; split <;> (try split) <;> simp_all [Dead]
    · simp_all [Dead]
  | sStep =>
    left
    simp only [step, sStep]
    split
    · split <;> simp_all [Dead]
    · exact absurd ‹_› (hl _)
    · split
      · unfold notifyOne; split <;> simp_all [Dead]
      · simp_all [Dead]
    · simp_all [Dead]
    · unfold notifyOne; split <;> simp_all [Dead]
    · simp_all [Dead]
    · simp_all [Dead]
  | rStep =>
    simp only [step, rStep]
    split
    · left; simp_all [Dead]
    · left; simp_all [Dead]
    · left; unfold enableFut; split <;> simp_all [Dead]
    · split
      · right; simp_all [Dead]
      · left; simp_all [Dead]
    · left; split <;> simp_all [Dead]
    · right; simp_all [Dead]
    · left; unfold dropNotified; split <;> (try split) <;> simp_all [Dead]
    · left; unfold awaitStep pollNotified dropNotified enableFut
      split <;> split <;> (try split) <;> (try split) <;> (try split) <;> simp_all [Dead]
    · left; unfold awaitStep pollNotified dropNotified enableFut
      split <;> split <;> (try split) <;> (try split) <;> (try split) <;> simp_all [Dead]
    · left; simp_all [Dead]
    · left; simp_all [Dead]

/-- Once the receiver is dropped and no `modify` is past its check, no closure is ever applied again: whatever the
producer does afterwards, every `modify` ends in `SendError` and `merged` never grows. -/
theorem after_receiver_drop_nothing_applied (s : State) (hr : s.receiverDropped = true)
    (hl : ∀ x, s.spc ≠ .modLock x) (acts : List Act) : (run s acts).merged = s.merged := by
  have : ∀ (acts : List Act) (s : State), Dead s → (run s acts).merged = s.merged := by
    intro acts
    induction acts with
    | nil => intro s _; rfl
    | cons a rest ih =>
      intro s hd
      rcases dead_step s a hd with ⟨hd', hm, _⟩ | ⟨hd', hm, _⟩
      · show (run (step s a) rest).merged = s.merged
        rw [ih _ hd', hm]
      · show (run (step s a) rest).merged = s.merged
        rw [ih _ hd', hm]
  exact this acts s ⟨hr, hl⟩

-- non-vacuity: the consumer drops the receiver; the producer's next `modify` fails and applies nothing.
example :
    let s := run init [.callDropReceiver, .callModify 4, .sStep]
    s.sends = [false] ∧ s.merged = [] ∧ s.slot = none ∧ s.spc = .idle := by decide
example :
    let s := run init [.callModify 1, .sStep, .sStep, .sStep, .callDropReceiver]
    s.rpc = .gone ∧ s.spc = .idle ∧ (opMerge 2 s).sends = [true, false] ∧ (opMerge 2 s).merged = [1] := by decide
example :
    let s := run init [.callModify 1, .sStep, .sStep, .sStep, .callRecv, .rStep]
    s.rpc ≠ .gone ∧ s.spc = .idle ∧ (opMerge 2 s).sends = [true, true] ∧ (opMerge 2 s).merged = [1, 2] ∧
      okCount (opMerge 2 s).sends = 2 := by decide

/-! ### the poll-granularity operations driven by the harness are interleavings of the atomic steps -/

private theorem settleSender_run (n : Nat) (s : State) : ∃ acts, settleSender n s = run s acts := by
  induction n generalizing s with
  | zero => exact ⟨[], rfl⟩
  | succ n ih =>
    unfold settleSender
    split
    · exact ⟨[], rfl⟩
    · obtain ⟨acts, h⟩ := ih (sStep s)
      exact ⟨.sStep :: acts, by rw [h]; rfl⟩

private theorem settleReceiver_run (n : Nat) (s : State) : ∃ acts, settleReceiver n s = run s acts := by
  induction n generalizing s with
  | zero => exact ⟨[], rfl⟩
  | succ n ih =>
    unfold settleReceiver
    split
    · exact ⟨[], rfl⟩
    · obtain ⟨acts, h⟩ := ih (rStep s)
      exact ⟨.rStep :: acts, by rw [h]; rfl⟩

private theorem run_append (s : State) (a b : List Act) : run s (a ++ b) = run (run s a) b := by
  simp [run, List.foldl_append]

/-- Each harness-level operation (`m<x>`, `D`, `s`, `p`, `c`, `X` of the differential run) is a particular
interleaving of atomic actions, so every state the model driver goes through is covered by the theorems above. -/
theorem poll_ops_are_interleavings (acts : List Act) (x : Nat) :
    let s := run init acts
    (∃ more, opMerge x s = run init (acts ++ more)) ∧ (∃ more, opDropSender s = run init (acts ++ more)) ∧
    (∃ more, pollRecv s = run init (acts ++ more)) ∧ (∃ more, opDropReceiver s = run init (acts ++ more)) := by
  intro s
  refine ⟨?_, ?_, ?_, ?_⟩
  · obtain ⟨m, h⟩ := settleSender_run 8 (step s (.callModify x))
    exact ⟨.callModify x :: m, by rw [run_append]; exact h⟩
  · obtain ⟨m, h⟩ := settleSender_run 8 (step s .callDropSender)
    exact ⟨.callDropSender :: m, by rw [run_append]; exact h⟩
  · obtain ⟨m, h⟩ := settleReceiver_run 32 (rStep s)
    exact ⟨.rStep :: m, by rw [run_append]; exact h⟩
  · exact ⟨[.cancel, .callDropReceiver], by rw [run_append]; rfl⟩

/-! ### `MetadataUpdate::merge_*` -/
section Update
open ScyllaVerif.MetaUpdate

/-- Every `merge_*` keeps the refresh reply channels the slot already holds, in order, and adds exactly the one it was
given: no reply channel is dropped unanswered, none is duplicated. -/
theorem merge_keeps_reply_channels (slot : Option Update) (op : Op) :
    refreshIds (apply slot op) = refreshIds slot ++ op.refresh := by
  cases op with
  | metadata m r =>
    rcases slot with _ | ⟨_ | ⟨m', rs⟩ | p, hints⟩ <;> cases r <;>
      simp [apply, mergeMetadata, slotMut, refreshIds, Op.refresh]
  | clientRoutes u =>
    rcases slot with _ | ⟨_ | ⟨m', rs⟩ | p, hints⟩
    · simp [apply, mergeClientRoutes, slotMut, refreshIds, Op.refresh]
    · simp [apply, mergeClientRoutes, slotMut, refreshIds, Op.refresh]
    · rcases m' with ⟨pe, st, _ | routes⟩ <;> simp [apply, mergeClientRoutes, slotMut, refreshIds, Op.refresh]
    · simp [apply, mergeClientRoutes, slotMut, refreshIds, Op.refresh]
  | topology p =>
    rcases slot with _ | ⟨_ | ⟨m', rs⟩ | p', hints⟩ <;>
      simp [apply, mergeTopology, slotMut, refreshIds, Op.refresh]
  | hint a up =>
    rcases slot with _ | ⟨_ | ⟨m', rs⟩ | p', hints⟩ <;>
      simp [apply, mergeHint, slotMut, refreshIds, Op.refresh]

/-- ... hence after any sequence of merges the slot holds exactly the reply channels attached since it was last
taken, each once, in order - all of them are handed to the consumer by the next `take()`. -/
theorem merges_keep_reply_channels (slot : Option Update) (ops : List Op) :
    refreshIds (applyAll slot ops) = refreshIds slot ++ ops.flatMap Op.refresh := by
  induction ops generalizing slot with
  | nil => simp [applyAll]
  | cons op rest ih =>
    show refreshIds (applyAll (apply slot op) rest) = _
    rw [ih, merge_keeps_reply_channels]; simp [List.append_assoc]

private theorem peersTag_apply (slot : Option Update) (op : Op) :
    peersTag (apply slot op) = match op.topo with | some t => some t | none => peersTag slot := by
  cases op with
  | metadata m r =>
    rcases slot with _ | ⟨_ | ⟨m', rs⟩ | p, hints⟩ <;> simp [apply, mergeMetadata, slotMut, peersTag, Op.topo]
  | clientRoutes u =>
    rcases slot with _ | ⟨_ | ⟨m', rs⟩ | p, hints⟩
    · simp [apply, mergeClientRoutes, slotMut, peersTag, Op.topo]
    · simp [apply, mergeClientRoutes, slotMut, peersTag, Op.topo]
    · rcases m' with ⟨pe, st, _ | routes⟩ <;> simp [apply, mergeClientRoutes, slotMut, peersTag, Op.topo]
    · simp [apply, mergeClientRoutes, slotMut, peersTag, Op.topo]
  | topology p =>
    rcases slot with _ | ⟨_ | ⟨m', rs⟩ | p', hints⟩ <;> simp [apply, mergeTopology, slotMut, peersTag, Op.topo]
  | hint a up =>
    rcases slot with _ | ⟨_ | ⟨m', rs⟩ | p', hints⟩ <;> simp [apply, mergeHint, slotMut, peersTag, Op.topo]

/-- The topology the consumer finds when it takes the slot is the one of the LATEST `merge_metadata` /
`merge_topology_update` since the slot was last taken (whatever other merges came in between or after). -/
theorem newest_topology_wins (slot : Option Update) (ops : List Op) :
    peersTag (applyAll slot ops) = match lastTopo ops with | some t => some t | none => peersTag slot := by
  induction ops generalizing slot with
  | nil => simp [applyAll, lastTopo]
  | cons op rest ih =>
    show peersTag (applyAll (apply slot op) rest) = _
    rw [ih, peersTag_apply]
    simp only [lastTopo]
    cases lastTopo rest <;> simp

/-- From an empty slot: exactly the latest topology, `none` iff no topology was merged. -/
theorem newest_topology_wins_from_empty (ops : List Op) : peersTag (applyAll none ops) = lastTopo ops := by
  rw [newest_topology_wins]; cases lastTopo ops <;> simp [peersTag]

private theorem lookup_assocInsert_self (m : List (Nat × Bool)) (a : Nat) (up : Bool) :
    (assocInsert m a up).lookup a = some up := by
  unfold assocInsert
  induction m with
  | nil => simp
  | cons p rest ih =>
    by_cases h : p.1 = a
    · have hb : (p.1 != a) = false := by simp [h]
      rw [List.filter_cons, hb]; simpa using ih
    · have hb : (p.1 != a) = true := by simp [h]
      have hne : (a == p.1) = false := by simp; exact fun e => h e.symm
      rw [List.filter_cons, hb]
      show List.lookup a (p :: (List.filter (fun p => p.1 != a) rest ++ [(a, up)])) = some up
      rw [List.lookup_cons, hne]; exact ih

private theorem lookup_assocInsert_other (m : List (Nat × Bool)) (a b : Nat) (up : Bool) (hb : b ≠ a) :
    (assocInsert m a up).lookup b = m.lookup b := by
  unfold assocInsert
  induction m with
  | nil =>
    have hne : (b == a) = false := by simp [hb]
    simp [List.lookup, hne]
  | cons p rest ih =>
    by_cases h : p.1 = a
    · have hf : (p.1 != a) = false := by simp [h]
      have hne : (b == p.1) = false := by simp [h, hb]
      rw [List.filter_cons, hf, List.lookup_cons, hne]; simpa using ih
    · have hf : (p.1 != a) = true := by simp [h]
      rw [List.filter_cons, hf]
      show List.lookup b (p :: (List.filter (fun p => p.1 != a) rest ++ [(a, up)])) = _
      rw [List.lookup_cons, List.lookup_cons, ih]

/-- Status hints: the latest hint for an address wins, hints for other addresses are kept. -/
theorem latest_hint_wins (slot : Option Update) (a b : Nat) (up : Bool) :
    (hintsOf (mergeHint slot a up)).lookup a = some up ∧
    (b ≠ a → (hintsOf (mergeHint slot a up)).lookup b = (hintsOf slot).lookup b) := by
  constructor
  · simp only [mergeHint, hintsOf]; exact lookup_assocInsert_self _ a up
  · intro hb
    simp only [mergeHint, hintsOf]
    rw [lookup_assocInsert_other _ a b up hb]
    cases slot <;> simp [slotMut]

/-- Every merge leaves the slot full (so `Sender::modify` always notifies after a `merge_*`). -/
theorem merge_fills_slot (slot : Option Update) (op : Op) : (apply slot op).isSome = true := by
  cases op with
  | metadata m r =>
    rcases slot with _ | ⟨_ | ⟨m', rs⟩ | p, hints⟩ <;> simp [apply, mergeMetadata, slotMut]
  | clientRoutes u =>
    rcases slot with _ | ⟨_ | ⟨m', rs⟩ | p, hints⟩
    · simp [apply, mergeClientRoutes, slotMut]
    · simp [apply, mergeClientRoutes, slotMut]
    · rcases m' with ⟨pe, st, _ | routes⟩ <;> simp [apply, mergeClientRoutes, slotMut]
    · simp [apply, mergeClientRoutes, slotMut]
  | topology p =>
    rcases slot with _ | ⟨_ | ⟨m', rs⟩ | p', hints⟩ <;> simp [apply, mergeTopology, slotMut]
  | hint a up => simp [apply, mergeHint]

/-- A full fetch subsumes whatever client-routes information was pending: afterwards the slot carries exactly the
routes of the new metadata (pending partial route updates were fetched before it and are dropped). -/
theorem full_fetch_replaces_routes (slot : Option Update) (m : Meta) (r : Option Nat) :
    routesOf (mergeMetadata slot m r) = m.clientRoutes.map (fun rs => rs.map fun e => (e.1, some e.2)) := by
  rcases slot with _ | ⟨_ | ⟨m', rs⟩ | p, hints⟩ <;> cases r <;> simp [mergeMetadata, slotMut, routesOf]

/-- A partial client-routes update arriving after a full fetch is applied to that fetch's snapshot
(`ClientRoutes::merge`), or ignored when client routes are not configured; onto an empty slot / a pending partial
update it is recorded / merged entry-wise (`ClientRoutesUpdate::merge`). -/
theorem client_routes_merge_cases (slot : Option Update) (upd : List (RouteKey × Option Nat)) :
    routesOf (mergeClientRoutes slot upd) =
      match slot with
      | some { changes := some (.full m _), .. } =>
        m.clientRoutes.map (fun rs => (routesApply rs upd).map fun e => (e.1, some e.2))
      | some { changes := some (.part p), .. } =>
        (match p.clientRoutes with
         | none => some upd
         | some existing => some (routesUpdateMerge existing upd))
      | _ => some upd := by
  rcases slot with _ | ⟨_ | ⟨m', rs⟩ | p, hints⟩
  · simp [mergeClientRoutes, slotMut, routesOf]
  · simp [mergeClientRoutes, slotMut, routesOf]
  · rcases m' with ⟨pe, st, _ | routes⟩ <;> simp [mergeClientRoutes, slotMut, routesOf]
  · rcases p with ⟨_ | cr, pe⟩ <;> simp [mergeClientRoutes, slotMut, routesOf]

-- non-vacuity: full fetch with refresh 0, topology update, a second full fetch with refresh 1 and a hint:
-- both reply channels are kept, the newest topology (9) wins.
example :
    let slot := applyAll none [.metadata { peers := 3 } (some 0), .topology 5, .metadata { peers := 9 } (some 1), .hint 2 true]
    refreshIds slot = [0, 1] ∧ peersTag slot = some 9 ∧ kind slot = "full" := by decide
-- a full fetch replaces pending partial changes (they were fetched before it)
example :
    let slot := applyAll none [.topology 5, .clientRoutes [((1, 1), some 7)], .metadata { peers := 6 } none]
    refreshIds slot = [] ∧ peersTag slot = some 6 ∧ kind slot = "full" := by decide

end Update

/-! ### a requested refresh is answered: requester → metadata worker → slot → cluster worker → reply -/
section Refresh
open ScyllaVerif.MetaUpdate ScyllaVerif.RefreshFlow

private theorem refreshIds_mergeMetadata (slot : Option Update) (m : Meta) (p : Option Nat) :
    refreshIds (mergeMetadata slot m p) = refreshIds slot ++ p.toList := by
  have := merge_keeps_reply_channels slot (.metadata m p)
  cases p <;> simpa [MetaUpdate.apply, Op.refresh] using this

private theorem refreshIds_apply_strip (slot : Option Update) (op : Op) :
    refreshIds (MetaUpdate.apply slot (stripRefresh op)) = refreshIds slot := by
  have := merge_keeps_reply_channels slot (stripRefresh op)
  cases op <;> simpa [stripRefresh, Op.refresh] using this

private theorem refreshIds_none : refreshIds none = [] := rfl

/-- Invariant of the refresh flow. -/
private structure FlowInv (s : Flow) : Prop where
  once : ∀ id, places s id = if id < s.next then 1 else 0
  idle : s.busy = false → s.applying = []
  nofetch : s.fetching = false → s.pending = none

private theorem count_single (a id : Nat) : List.count id [a] = if a = id then 1 else 0 := by
  by_cases h : a = id <;> simp [h]

private theorem flowInv_stopProducer (s : Flow) (h : FlowInv s) : FlowInv (stopProducer s) := by
  obtain ⟨once, idle, nofetch⟩ := h
  unfold stopProducer
  simp only []
  split
  · refine ⟨fun id => ?_, by simpa using idle, by simp⟩
    have := once id
    simp only [places, List.count_append, Option.toList_none, List.count_nil, refreshIds_none] at this ⊢
    omega
  · refine ⟨fun id => ?_, by simpa using idle, by simp⟩
    have := once id
    simp only [places, List.count_append, Option.toList_none, List.count_nil] at this ⊢
    omega

private theorem flowInv_step (s : Flow) (e : Ev) (h : FlowInv s) : FlowInv (RefreshFlow.step s e) := by
  have h0 := h
  obtain ⟨once, idle, nofetch⟩ := h
  cases e with
  | request =>
    simp only [RefreshFlow.step]
    split
    all_goals
      refine ⟨fun id => ?_, by simpa using idle, by simpa using nofetch⟩
      have := once id
      simp only [places, List.count_append, count_single] at this ⊢
      by_cases h1 : s.next = id
      · subst h1; simp at this ⊢; omega
      · have h3 : id < s.next + 1 ↔ id < s.next := by omega
        simp only [h3, h1, if_false] at this ⊢
        omega
  | recvRequest =>
    simp only [RefreshFlow.step]
    split
    · exact h0
    · split
      · rename_i r rest hw
        refine ⟨fun id => ?_, by simpa using idle, by simp⟩
        have := once id
        simp only [places, hw, List.count_append, Option.toList_some, List.count_cons, List.count_nil] at this ⊢
        omega
      · exact h0
  | periodicFetch =>
    simp only [RefreshFlow.step]
    split
    · exact h0
    · exact ⟨once, idle, by simp⟩
  | fetchOk m =>
    simp only [RefreshFlow.step]
    split
    · exact h0
    · split
      · exact flowInv_stopProducer s h0
      · refine ⟨fun id => ?_, by simpa using idle, by simp⟩
        have := once id
        simp only [places, refreshIds_mergeMetadata, List.count_append] at this ⊢
        simp only [Option.toList_none, List.count_nil]
        omega
  | fetchErrNoCc =>
    simp only [RefreshFlow.step]
    split
    · exact h0
    · refine ⟨fun id => ?_, by simpa using idle, by simp⟩
      have := once id
      simp only [places, List.count_append] at this ⊢
      simp only [Option.toList_none, List.count_nil]
      omega
  | fetchErrOnCc => exact h0
  | merge op =>
    simp only [RefreshFlow.step]
    split
    · exact h0
    · split
      · exact flowInv_stopProducer s h0
      · refine ⟨fun id => ?_, by simpa using idle, by simpa using nofetch⟩
        have := once id
        simp only [places, refreshIds_apply_strip] at this ⊢
        exact this
  | mergeEstab op =>
    simp only [RefreshFlow.step]
    split
    · exact h0
    · refine ⟨fun id => ?_, by simpa using idle, by simpa using nofetch⟩
      have := once id
      simp only [places, refreshIds_apply_strip] at this ⊢
      exact this
  | consumerTake =>
    simp only [RefreshFlow.step]
    split
    · exact h0
    · rename_i hc
      split
      · exact h0
      · rename_i u hu
        have hb : s.busy = false := by
          cases hbb : s.busy with
          | false => rfl
          | true => simp [hbb] at hc
        refine ⟨fun id => ?_, by simp, by simpa using nofetch⟩
        have := once id
        simp only [places, hu, idle hb, List.count_nil] at this ⊢
        simp only [refreshIds, List.count_nil] at this ⊢
        omega
  | consumerFinish =>
    simp only [RefreshFlow.step]
    split
    · exact h0
    · refine ⟨fun id => ?_, by simp, by simpa using nofetch⟩
      have := once id
      simp only [places, List.count_append, List.count_nil] at this ⊢
      omega
  | consumerGone =>
    simp only [RefreshFlow.step]
    split
    · exact h0
    · split
      · refine ⟨fun id => ?_, by simp, by simpa using nofetch⟩
        have := once id
        simp only [places, List.count_append, List.count_nil, refreshIds_none] at this ⊢
        omega
      · refine ⟨fun id => ?_, by simp, by simpa using nofetch⟩
        have := once id
        simp only [places, List.count_append, List.count_nil] at this ⊢
        omega
  | producerGone =>
    simp only [RefreshFlow.step]
    split
    · exact h0
    · exact flowInv_stopProducer s h0

private theorem flowInv_run (evs : List Ev) : FlowInv (RefreshFlow.run RefreshFlow.init evs) := by
  have : ∀ (evs : List Ev) (s : Flow), FlowInv s → FlowInv (RefreshFlow.run s evs) := by
    intro evs
    induction evs with
    | nil => intro s h; exact h
    | cons e rest ih => intro s h; exact ih _ (flowInv_step s e h)
  exact this evs RefreshFlow.init
    ⟨by intro id; simp [places, RefreshFlow.init, refreshIds], by simp [RefreshFlow.init], by simp [RefreshFlow.init]⟩

/-- For every interleaving of requests, producer steps (request pick-up, periodic fetches, successful / failed
fetches, other merges), consumer steps (take, finish) and worker shutdowns: every refresh request ever issued is in
EXACTLY ONE place - waiting in the request channel, pending in the metadata worker, in the slot, held by the running
`apply_metadata_update`, answered `Ok`, answered `Err`, or dropped - and no id that was never issued is anywhere.
So no reply channel is duplicated or silently forgotten by a merge, a take or an answer. -/
theorem refresh_request_in_exactly_one_place (evs : List Ev) (id : Nat) :
    places (RefreshFlow.run RefreshFlow.init evs) id =
      if id < (RefreshFlow.run RefreshFlow.init evs).next then 1 else 0 :=
  (flowInv_run evs).once id

/-- `set_pending_request` overwrites whatever is pending (in a release build its `debug_assert` is gone); the control
flow makes that harmless: in every reachable state in which a request can be received (no full fetch / attempt
running) nothing is pending. This is the `full_fetch_in_flight` discipline of metadata/worker.rs:689-704 as an invariant. -/
theorem pending_never_overwritten (evs : List Ev) :
    (RefreshFlow.run RefreshFlow.init evs).fetching = false → (RefreshFlow.run RefreshFlow.init evs).pending = none :=
  (flowInv_run evs).nofetch

private theorem alive_step (s : Flow) (e : Ev) (he : isAlive e = true) (hi : FlowInv s)
    (hs : s.consumerGone = false ∧ s.producerGone = false ∧ s.dropped = []) :
    (RefreshFlow.step s e).consumerGone = false ∧ (RefreshFlow.step s e).producerGone = false ∧
      (RefreshFlow.step s e).dropped = [] := by
  obtain ⟨hc, hp, hd⟩ := hs
  cases e with
  | consumerGone => simp [isAlive] at he
  | producerGone => simp [isAlive] at he
  | request => simp [RefreshFlow.step, hc, hp, hd]
  | recvRequest =>
    simp only [RefreshFlow.step, hp]
    split
    · exact ⟨hc, hp, hd⟩
    · rename_i hf
      have hpn : s.pending = none := hi.nofetch (by simpa using hf)
      split <;> simp [hc, hp, hd, hpn]
  | periodicFetch => simp only [RefreshFlow.step, hp]; split <;> simp [hc, hp, hd]
  | fetchOk m => simp only [RefreshFlow.step, hp, hc]; split <;> simp [hc, hp, hd]
  | fetchErrNoCc => simp only [RefreshFlow.step, hp]; split <;> simp [hc, hp, hd]
  | fetchErrOnCc => simp [RefreshFlow.step, hc, hp, hd]
  | merge op => simp only [RefreshFlow.step, hc, hp]; split <;> simp [hc, hp, hd]
  | mergeEstab op => simp only [RefreshFlow.step, hc, hp]; split <;> simp [hc, hp, hd]
  | consumerTake => simp only [RefreshFlow.step, hc]; split <;> (try split) <;> simp [hc, hp, hd]
  | consumerFinish => simp only [RefreshFlow.step, hc]; split <;> simp [hc, hp, hd]

private theorem alive_flags (evs : List Ev) (h : evs.all isAlive = true) (s : Flow) (hi : FlowInv s)
    (hs : s.consumerGone = false ∧ s.producerGone = false ∧ s.dropped = []) :
    (RefreshFlow.run s evs).consumerGone = false ∧ (RefreshFlow.run s evs).producerGone = false ∧
      (RefreshFlow.run s evs).dropped = [] := by
  induction evs generalizing s with
  | nil => exact hs
  | cons e rest ih =>
    simp only [List.all_cons, Bool.and_eq_true] at h
    exact ih h.2 _ (flowInv_step s e hi) (alive_step s e h.1 hi hs)

private theorem flowInv_init : FlowInv RefreshFlow.init :=
  ⟨by intro id; simp [places, RefreshFlow.init, refreshIds], by simp [RefreshFlow.init], by simp [RefreshFlow.init]⟩

/-- While both workers live, no reply channel is ever dropped: every issued request is waiting, pending, in the
slot, being applied, or answered (exactly one of these). The only ways to lose a reply are the two shutdown events. -/
theorem refresh_never_dropped_while_workers_alive (evs : List Ev) (h : evs.all isAlive = true) :
    (RefreshFlow.run RefreshFlow.init evs).dropped = [] :=
  (alive_flags evs h RefreshFlow.init flowInv_init ⟨rfl, rfl, rfl⟩).2.2

/-- Answers are final: a step only appends to the lists of answered requests. -/
theorem refresh_answers_only_grow (s : Flow) (e : Ev) :
    s.answeredOk <+: (RefreshFlow.step s e).answeredOk ∧ s.answeredErr <+: (RefreshFlow.step s e).answeredErr := by
  cases e with
  | request => simp only [RefreshFlow.step]; split <;> simp
  | recvRequest => simp only [RefreshFlow.step]; split <;> (try split) <;> simp
  | periodicFetch => simp only [RefreshFlow.step]; split <;> simp
  | fetchOk m => simp only [RefreshFlow.step, stopProducer]; split <;> (try split) <;> (try split) <;> simp
  | fetchErrNoCc => simp only [RefreshFlow.step]; split <;> simp
  | fetchErrOnCc => simp [RefreshFlow.step]
  | merge op => simp only [RefreshFlow.step, stopProducer]; split <;> (try split) <;> (try split) <;> simp
  | mergeEstab op => simp only [RefreshFlow.step]; split <;> simp
  | consumerTake => simp only [RefreshFlow.step]; split <;> (try split) <;> simp
  | consumerFinish => simp only [RefreshFlow.step]; split <;> simp
  | consumerGone => simp only [RefreshFlow.step]; split <;> (try split) <;> simp
  | producerGone => simp only [RefreshFlow.step, stopProducer]; split <;> (try split) <;> simp

-- EVALUATION: the consumer is gone and a server event arrives DURING an establishment attempt: the send error is
-- ignored, the producer lives on, and the failing attempt still answers the pending request with the error.
example :
    let s := RefreshFlow.run RefreshFlow.init
      [.request, .recvRequest, .consumerGone, .mergeEstab (.topology 3), .fetchErrNoCc]
    s.answeredErr = [0] ∧ s.dropped = [] ∧ s.producerGone = false := by decide

/-! #### possibility of progress -/

private def Clean (s : Flow) : Prop :=
  s.consumerGone = false ∧ s.producerGone = false ∧ s.fetching = false ∧ s.pending = none ∧ s.slot = none ∧
  s.applying = [] ∧ s.busy = false

private def m0 : Meta := { peers := 0 }
private def round : List Ev := [.recvRequest, .fetchOk m0, .consumerTake, .consumerFinish]
private def flushEvs : List Ev := [.consumerFinish, .periodicFetch, .fetchOk m0, .consumerTake, .consumerFinish]

private theorem fill (slot : Option Update) (p : Option Nat) : ∃ u, mergeMetadata slot m0 p = some u := by
  have := merge_fills_slot slot (.metadata m0 p)
  simp only [MetaUpdate.apply] at this
  exact Option.isSome_iff_exists.mp this

private theorem flush (s : Flow) (hc : s.consumerGone = false) (hp : s.producerGone = false) :
    Clean (RefreshFlow.run s flushEvs) ∧ (RefreshFlow.run s flushEvs).waiting = s.waiting := by
  obtain ⟨u, hu⟩ := fill s.slot s.pending
  cases hb : s.busy <;> cases hf : s.fetching <;>
    simp [Clean, flushEvs, RefreshFlow.run, RefreshFlow.step, hc, hp, hb, hf, hu]

private theorem one_round (s : Flow) (h : Clean s) (r : Nat) (rest : List Nat) (hw : s.waiting = r :: rest) :
    Clean (RefreshFlow.run s round) ∧ (RefreshFlow.run s round).waiting = rest := by
  obtain ⟨hc, hp, hf, hpe, hs, ha, hb⟩ := h
  obtain ⟨u, hu⟩ := fill none (some r)
  simp [Clean, round, RefreshFlow.run, RefreshFlow.step, hc, hp, hf, hpe, hs, hb, hw, hu]

private theorem frun_append (s : Flow) (a b : List Ev) :
    RefreshFlow.run s (a ++ b) = RefreshFlow.run (RefreshFlow.run s a) b := by
  simp [RefreshFlow.run, List.foldl_append]

private theorem next_unchanged : ∀ (evs' : List Ev) (s : Flow), (∀ e ∈ evs', e ≠ Ev.request) →
    (RefreshFlow.run s evs').next = s.next := by
  intro evs'
  induction evs' with
  | nil => intro s _; rfl
  | cons e r ih =>
    intro s hne
    have hr := ih (RefreshFlow.step s e) (fun e' he' => hne e' (List.mem_cons_of_mem _ he'))
    show (RefreshFlow.run (RefreshFlow.step s e) r).next = s.next
    rw [hr]
    cases e with
    | request => exact absurd rfl (hne _ (List.mem_cons_self))
    | recvRequest => simp only [RefreshFlow.step]; split <;> (try split) <;> rfl
    | periodicFetch => simp only [RefreshFlow.step]; split <;> rfl
    | fetchOk m => simp only [RefreshFlow.step, stopProducer]; split <;> (try split) <;> (try split) <;> rfl
    | fetchErrNoCc => simp only [RefreshFlow.step]; split <;> rfl
    | fetchErrOnCc => rfl
    | merge op => simp only [RefreshFlow.step, stopProducer]; split <;> (try split) <;> (try split) <;> rfl
    | mergeEstab op => simp only [RefreshFlow.step]; split <;> rfl
    | consumerTake => simp only [RefreshFlow.step]; split <;> (try split) <;> rfl
    | consumerFinish => simp only [RefreshFlow.step]; split <;> rfl
    | consumerGone => simp only [RefreshFlow.step]; split <;> (try split) <;> rfl
    | producerGone => simp only [RefreshFlow.step, stopProducer]; split <;> (try split) <;> rfl

private theorem drain : ∀ (n : Nat) (s : Flow), Clean s → s.waiting.length = n →
    ∃ evs, evs.all isAlive = true ∧ (∀ e ∈ evs, e ≠ Ev.request) ∧ Clean (RefreshFlow.run s evs) ∧
      (RefreshFlow.run s evs).waiting = [] := by
  intro n
  induction n with
  | zero =>
    intro s h hl
    exact ⟨[], rfl, by simp, h, List.length_eq_zero_iff.mp hl⟩
  | succ n ih =>
    intro s h hl
    match hw : s.waiting with
    | [] => simp [hw] at hl
    | r :: rest =>
      obtain ⟨hcl, hwr⟩ := one_round s h r rest hw
      have hl' : (RefreshFlow.run s round).waiting.length = n := by rw [hwr]; simp [hw] at hl; exact hl
      obtain ⟨evs, ha, hnr, hc2, hw2⟩ := ih _ hcl hl'
      refine ⟨round ++ evs, ?_, ?_, ?_, ?_⟩
      · simp [round, isAlive, ha]
      · intro e he
        rcases List.mem_append.mp he with he | he
        · simp [round] at he; rcases he with rfl | rfl | rfl | rfl <;> simp
        · exact hnr e he
      · rw [frun_append]; exact hc2
      · rw [frun_append]; exact hw2

/-- POSSIBILITY of progress ("eventually" as reachability, not as a fairness-based liveness proof): from every
reachable state in which both workers are alive there is a schedule of further events - none of them a shutdown, none
a new request - after which every request ever issued has been answered (`Ok` or `Err`), each exactly once, and none
was dropped. No reachable alive state is a dead end for a pending refresh. -/
theorem can_quiesce (evs : List Ev) (h : evs.all isAlive = true) :
    ∃ more, more.all isAlive = true ∧
      let s := RefreshFlow.run RefreshFlow.init (evs ++ more)
      Quiet s ∧ s.dropped = [] ∧ s.next = (RefreshFlow.run RefreshFlow.init evs).next ∧
      ∀ id, id < s.next → s.answeredOk.count id + s.answeredErr.count id = 1 := by
  have hal := alive_flags evs h RefreshFlow.init flowInv_init ⟨rfl, rfl, rfl⟩
  obtain ⟨hcl, hwk⟩ := flush (RefreshFlow.run RefreshFlow.init evs) hal.1 hal.2.1
  obtain ⟨rest, ha, hnr, h1, h2⟩ := drain _ _ hcl rfl
  refine ⟨flushEvs ++ rest, by simp [flushEvs, isAlive, ha], ?_⟩
  have hall : (evs ++ (flushEvs ++ rest)).all isAlive = true := by simp [h, flushEvs, isAlive, ha]
  have hfin : RefreshFlow.run RefreshFlow.init (evs ++ (flushEvs ++ rest)) =
      RefreshFlow.run (RefreshFlow.run (RefreshFlow.run RefreshFlow.init evs) flushEvs) rest := by
    rw [frun_append, frun_append]
  have hdrop := refresh_never_dropped_while_workers_alive _ hall
  have honce := fun id => refresh_request_in_exactly_one_place (evs ++ (flushEvs ++ rest)) id
  simp only []
  rw [hfin] at hdrop honce ⊢
  obtain ⟨_, _, _, hpe, hs, hap, _⟩ := h1
  refine ⟨⟨h2, hpe, by rw [hs]; rfl, hap⟩, hdrop, ?_, ?_⟩
  · -- no request among the added events: `next` is unchanged
    rw [next_unchanged rest _ hnr]
    apply next_unchanged
    intro e he
    simp [flushEvs] at he
    rcases he with rfl | rfl | rfl | rfl | rfl <;> simp
  · intro id hid
    have := honce id
    simp only [places, h2, hpe, hs, hap, hdrop, refreshIds_none, Option.toList_none, List.count_nil, hid, if_true] at this
    omega

-- EVALUATIONS (not theorems): three requests; the first attempt fails without a control connection (request 0 gets the
-- error), the next two are merged into ONE update while the consumer is busy, and are both answered when it is applied.
example :
    let s := RefreshFlow.run RefreshFlow.init
      [.request, .request, .request, .recvRequest, .fetchErrNoCc, .recvRequest, .fetchOk { peers := 1 }, .consumerTake,
       .recvRequest, .fetchOk { peers := 2 }, .merge (.topology 3), .consumerFinish, .consumerTake, .consumerFinish]
    s.answeredErr = [0] ∧ s.answeredOk = [1, 2] ∧ s.dropped = [] ∧ s.waiting = [] ∧ s.pending = none ∧
      s.slot = none ∧ s.applying = [] := by decide
-- a failed fetch on a live control connection keeps the request pending and the attempt running; no request is
-- picked up meanwhile (the second one waits in the channel)
example :
    let s := RefreshFlow.run RefreshFlow.init [.request, .request, .recvRequest, .fetchErrOnCc, .recvRequest]
    s.pending = some 0 ∧ s.waiting = [1] ∧ s.fetching = true ∧ s.dropped = [] := by decide
-- shutdown paths: the consumer goes (the slot lives on in the shared Arc), the producer's next send fails and it
-- stops - pending, queued and slot-held reply channels are all dropped; a later request dies at once
example :
    let s := RefreshFlow.run RefreshFlow.init
      [.request, .request, .request, .recvRequest, .fetchOk { peers := 1 }, .consumerGone, .recvRequest,
       .fetchOk { peers := 2 }, .request]
    s.dropped = [1, 2, 0, 3] ∧ s.producerGone = true ∧ s.slot = none ∧ places s 0 = 1 ∧ places s 3 = 1 := by decide

/-! #### freshness: a request is answered by a fetch that STARTED after the request was made -/

private structure TimeInv (t : Timed) : Prop where
  flowInv : FlowInv t.flow
  past : ∀ p ∈ t.issued, p.2 < t.clock
  all : ∀ id, id < t.flow.next → ∃ ti, (id, ti) ∈ t.issued
  ids : ∀ p ∈ t.issued, p.1 < t.flow.next
  pend : ∀ r, t.flow.pending = some r → ∀ ti, (r, ti) ∈ t.issued → ti < t.fetchStart
  servedAfter : ∀ p ∈ t.served, ∀ ti, (p.1, ti) ∈ t.issued → ti < p.2
  servedIds : ∀ p ∈ t.served, p.1 < t.flow.next
  answeredServed : ∀ id, (id ∈ t.flow.answeredOk ∨ id ∈ t.flow.applying ∨ id ∈ refreshIds t.flow.slot ∨
      id ∈ t.flow.answeredErr) → ∃ tF, (id, tF) ∈ t.served

private theorem timeInv_init : TimeInv tinit :=
  ⟨flowInv_init, by simp [tinit], by simp [tinit], by simp [tinit], by simp [tinit],
   by simp [tinit], by simp [tinit], by simp [tinit, refreshIds]⟩

private theorem pending_lt_next (f : Flow) (fi : FlowInv f) (r : Nat) (hr : f.pending = some r) : r < f.next := by
  have := fi.once r
  simp only [places, hr, Option.toList_some, List.count_cons_self] at this
  split at this
  · assumption
  · omega

private theorem waiting_lt_next (f : Flow) (fi : FlowInv f) (r : Nat) (hr : r ∈ f.waiting) : r < f.next := by
  have := fi.once r
  have hc : 0 < f.waiting.count r := List.count_pos_iff.mpr hr
  simp only [places] at this
  split at this
  · assumption
  · omega

/-- Sufficient conditions for one non-`request` transition to keep the time invariant. -/
private theorem timeInv_of (t t' : Timed) (h : TimeInv t) (fi' : FlowInv t'.flow)
    (hnext : t'.flow.next = t.flow.next) (hissued : t'.issued = t.issued) (hclock : t.clock ≤ t'.clock)
    (hpend : ∀ r, t'.flow.pending = some r →
      (t.flow.pending = some r ∧ t'.fetchStart = t.fetchStart) ∨ (r < t.flow.next ∧ t'.fetchStart = t.clock))
    (hserved : ∀ p ∈ t'.served, p ∈ t.served ∨ (t.flow.pending = some p.1 ∧ p.2 = t.fetchStart))
    (hans : ∀ id, (id ∈ t'.flow.answeredOk ∨ id ∈ t'.flow.applying ∨ id ∈ refreshIds t'.flow.slot ∨
        id ∈ t'.flow.answeredErr) →
      (id ∈ t.flow.answeredOk ∨ id ∈ t.flow.applying ∨ id ∈ refreshIds t.flow.slot ∨ id ∈ t.flow.answeredErr) ∨
      (∃ tF, (id, tF) ∈ t'.served))
    (hmono : ∀ p ∈ t.served, p ∈ t'.served) : TimeInv t' := by
  obtain ⟨fi, past, all, ids, pend, servedAfter, servedIds, answeredServed⟩ := h
  refine ⟨fi', ?_, ?_, ?_, ?_, ?_, ?_, ?_⟩
  · intro p hp; rw [hissued] at hp; have := past p hp; omega
  · intro id hid; rw [hnext] at hid; rw [hissued]; exact all id hid
  · intro p hp; rw [hissued] at hp; rw [hnext]; exact ids p hp
  · intro r hr ti hti
    rw [hissued] at hti
    rcases hpend r hr with ⟨h1, h2⟩ | ⟨_, h2⟩
    · rw [h2]; exact pend r h1 ti hti
    · rw [h2]; exact past _ hti
  · intro p hp ti hti
    rw [hissued] at hti
    rcases hserved p hp with h1 | ⟨h1, h2⟩
    · exact servedAfter p h1 ti hti
    · rw [h2]; exact pend p.1 h1 ti hti
  · intro p hp
    rw [hnext]
    rcases hserved p hp with h1 | ⟨h1, _⟩
    · exact servedIds p h1
    · exact pending_lt_next t.flow fi p.1 h1
  · intro id hid
    rcases hans id hid with h1 | h1
    · obtain ⟨tF, htF⟩ := answeredServed id h1
      exact ⟨tF, hmono _ htF⟩
    · exact h1

private theorem stopProducer_fields (f : Flow) :
    (stopProducer f).next = f.next ∧ (stopProducer f).pending = none ∧ (stopProducer f).answeredOk = f.answeredOk ∧
    (stopProducer f).answeredErr = f.answeredErr ∧ (stopProducer f).applying = f.applying ∧
    (∀ id, id ∈ refreshIds (stopProducer f).slot → id ∈ refreshIds f.slot) := by
  unfold stopProducer
  simp only []
  split <;> simp [refreshIds_none]

private theorem timeInv_step (t : Timed) (e : Ev) (h : TimeInv t) : TimeInv (tstep t e) := by
  have h0 := h
  obtain ⟨fi, past, all, ids, pend, servedAfter, servedIds, answeredServed⟩ := h
  have fi' : FlowInv (RefreshFlow.step t.flow e) := flowInv_step _ e fi
  cases e with
  | request =>
    have hn : (RefreshFlow.step t.flow .request).next = t.flow.next + 1 := by
      simp only [RefreshFlow.step]; split <;> rfl
    have hsame : (RefreshFlow.step t.flow .request).pending = t.flow.pending ∧
        (RefreshFlow.step t.flow .request).answeredOk = t.flow.answeredOk ∧
        (RefreshFlow.step t.flow .request).applying = t.flow.applying ∧
        (RefreshFlow.step t.flow .request).slot = t.flow.slot ∧
        (RefreshFlow.step t.flow .request).answeredErr = t.flow.answeredErr := by
      simp only [RefreshFlow.step]; split <;> simp
    obtain ⟨hp, ha, hap, hs, he⟩ := hsame
    refine ⟨fi', ?_, ?_, ?_, ?_, ?_, ?_, ?_⟩
    · intro p hp'
      simp only [tstep, List.mem_append, List.mem_singleton] at hp'
      rcases hp' with hp' | rfl
      · have := past p hp'; simp only [tstep]; omega
      · simp [tstep]
    · intro id hid
      simp only [tstep, hn] at hid ⊢
      by_cases hlt : id < t.flow.next
      · obtain ⟨ti, hti⟩ := all id hlt
        exact ⟨ti, List.mem_append_left _ hti⟩
      · have : id = t.flow.next := by omega
        exact ⟨t.clock, by simp [this]⟩
    · intro p hp'
      simp only [tstep, List.mem_append, List.mem_singleton] at hp'
      simp only [tstep, hn]
      rcases hp' with hp' | rfl
      · have := ids p hp'; omega
      · simp
    · intro r hr ti hti
      simp only [tstep, hp] at hr
      simp only [tstep, List.mem_append, List.mem_singleton, Prod.mk.injEq] at hti ⊢
      rcases hti with hti | ⟨hrn, _⟩
      · exact pend r hr ti hti
      · have := pending_lt_next t.flow fi r hr; omega
    · intro p hp' ti hti
      simp only [tstep] at hp'
      simp only [tstep, List.mem_append, List.mem_singleton, Prod.mk.injEq] at hti
      rcases hti with hti | ⟨hrn, _⟩
      · exact servedAfter p hp' ti hti
      · have := servedIds p hp'; omega
    · intro p hp'
      simp only [tstep] at hp'
      simp only [tstep, hn]
      have := servedIds p hp'; omega
    · intro id hid
      simp only [tstep, ha, hap, hs, he] at hid ⊢
      exact answeredServed id hid
  | recvRequest =>
    by_cases hen : (!t.flow.producerGone && !t.flow.fetching && !t.flow.waiting.isEmpty) = true
    · simp only [Bool.and_eq_true, Bool.not_eq_true'] at hen
      obtain ⟨⟨hpg, hf⟩, hw⟩ := hen
      match hwl : t.flow.waiting with
      | [] => simp [hwl] at hw
      | r :: rest =>
        have hr : r < t.flow.next := waiting_lt_next t.flow fi r (by simp [hwl])
        apply timeInv_of t _ h0
        · simpa [tstep, hpg, hf, hwl] using fi'
        · simp [tstep, RefreshFlow.step, hpg, hf, hwl]
        · simp [tstep, hpg, hf, hwl]
        · simp [tstep, hpg, hf, hwl]
        · intro r' hr'
          simp [tstep, RefreshFlow.step, hpg, hf, hwl] at hr' ⊢
          right; omega
        · intro p hp; left; simpa [tstep, hpg, hf, hwl] using hp
        · intro id hid; left; simpa [tstep, RefreshFlow.step, hpg, hf, hwl] using hid
        · intro p hp; simpa [tstep, hpg, hf, hwl] using hp
    · have hst : RefreshFlow.step t.flow .recvRequest = t.flow := by
        simp only [RefreshFlow.step]
        split
        · rfl
        · rename_i hc
          cases hwl : t.flow.waiting with
          | nil => rfl
          | cons r rest => simp [hwl] at hen hc; simp [hc] at hen
      have : tstep t .recvRequest = t := by
        simp only [tstep, hen, hst]; rfl
      rw [this]; exact h0
  | periodicFetch =>
    by_cases hen : (!t.flow.producerGone && !t.flow.fetching) = true
    · simp only [Bool.and_eq_true, Bool.not_eq_true'] at hen
      obtain ⟨hpg, hf⟩ := hen
      have hpn : t.flow.pending = none := fi.nofetch hf
      apply timeInv_of t _ h0
      · simpa [tstep, hpg, hf] using fi'
      · simp [tstep, RefreshFlow.step, hpg, hf]
      · simp [tstep, hpg, hf]
      · simp [tstep, hpg, hf]
      · intro r' hr'; simp [tstep, RefreshFlow.step, hpg, hf, hpn] at hr'
      · intro p hp; left; simpa [tstep, hpg, hf] using hp
      · intro id hid; left; simpa [tstep, RefreshFlow.step, hpg, hf] using hid
      · intro p hp; simpa [tstep, hpg, hf] using hp
    · have hst : RefreshFlow.step t.flow .periodicFetch = t.flow := by
        simp only [RefreshFlow.step]
        split
        · rfl
        · rename_i hc; simp at hc hen; simp [hc] at hen
      have : tstep t .periodicFetch = t := by simp only [tstep, hen, hst]; rfl
      rw [this]; exact h0
  | fetchOk m =>
    by_cases hen : (!t.flow.producerGone && t.flow.fetching) = true
    · simp only [Bool.and_eq_true, Bool.not_eq_true'] at hen
      obtain ⟨hpg, hf⟩ := hen
      cases hcg : t.flow.consumerGone with
      | false =>
        apply timeInv_of t _ h0
        · simpa [tstep, hpg, hf, hcg] using fi'
        · simp [tstep, RefreshFlow.step, hpg, hf, hcg]
        · simp [tstep, hpg, hf, hcg]
        · simp [tstep, hpg, hf, hcg]
        · intro r' hr'; simp [tstep, RefreshFlow.step, hpg, hf, hcg] at hr'
        · intro p hp
          simp only [tstep, hpg, hf, hcg, Bool.not_false, Bool.and_self, if_true, List.mem_append, List.mem_map,
            Option.mem_toList] at hp
          rcases hp with hp | ⟨r, hr, rfl⟩
          · exact Or.inl hp
          · exact Or.inr ⟨hr, rfl⟩
        · intro id hid
          simp only [tstep, RefreshFlow.step, hpg, hf, hcg, Bool.not_false, Bool.and_self, if_true,
            Bool.false_or, Bool.not_true, Bool.false_eq_true, if_false, refreshIds_mergeMetadata, List.mem_append,
            Option.mem_toList] at hid ⊢
          rcases hid with h1 | h1 | (h1 | h1) | h1
          · exact Or.inl (Or.inl h1)
          · exact Or.inl (Or.inr (Or.inl h1))
          · exact Or.inl (Or.inr (Or.inr (Or.inl h1)))
          · exact Or.inr ⟨t.fetchStart, Or.inr (List.mem_map.mpr ⟨id, by simpa using h1, rfl⟩)⟩
          · exact Or.inl (Or.inr (Or.inr (Or.inr h1)))
        · intro p hp; simp [tstep, hpg, hf, hcg]; exact Or.inl hp
      | true =>
        obtain ⟨s1, s2, s3, s4, s5, s6⟩ := stopProducer_fields t.flow
        apply timeInv_of t _ h0
        · simpa [tstep, hpg, hf, hcg] using fi'
        · simp [tstep, RefreshFlow.step, hpg, hf, hcg, s1]
        · simp [tstep, hpg, hf, hcg]
        · simp [tstep, hpg, hf, hcg]
        · intro r' hr'; simp [tstep, RefreshFlow.step, hpg, hf, hcg, s2] at hr'
        · intro p hp; left; simpa [tstep, hpg, hf, hcg] using hp
        · intro id hid; left
          have hfl : (tstep t (.fetchOk m)).flow = stopProducer t.flow := by
            simp [tstep, RefreshFlow.step, hpg, hf, hcg]
          rw [hfl, s3, s4, s5] at hid
          rcases hid with h1 | h1 | h1 | h1
          · exact Or.inl h1
          · exact Or.inr (Or.inl h1)
          · exact Or.inr (Or.inr (Or.inl (s6 id h1)))
          · exact Or.inr (Or.inr (Or.inr h1))
        · intro p hp; simpa [tstep, hpg, hf, hcg] using hp
    · have hst : RefreshFlow.step t.flow (.fetchOk m) = t.flow := by
        simp only [RefreshFlow.step]
        split
        · rfl
        · rename_i hc; simp at hc hen; simp [hc] at hen
      have hcond : (!t.flow.producerGone && t.flow.fetching && !t.flow.consumerGone) = false := by
        simp at hen ⊢; intro a b; simp [hen a] at b
      have : tstep t (.fetchOk m) = t := by simp only [tstep, hcond, hst]; rfl
      rw [this]; exact h0
  | fetchErrNoCc =>
    by_cases hen : (!t.flow.producerGone && t.flow.fetching) = true
    · simp only [Bool.and_eq_true, Bool.not_eq_true'] at hen
      obtain ⟨hpg, hf⟩ := hen
      apply timeInv_of t _ h0
      · simpa [tstep, hpg, hf] using fi'
      · simp [tstep, RefreshFlow.step, hpg, hf]
      · simp [tstep, hpg, hf]
      · simp [tstep, hpg, hf]
      · intro r' hr'; simp [tstep, RefreshFlow.step, hpg, hf] at hr'
      · intro p hp
        simp only [tstep, hpg, hf, Bool.not_false, Bool.and_self, if_true, List.mem_append, List.mem_map,
          Option.mem_toList] at hp
        rcases hp with hp | ⟨r, hr, rfl⟩
        · exact Or.inl hp
        · exact Or.inr ⟨hr, rfl⟩
      · intro id hid
        simp only [tstep, RefreshFlow.step, hpg, hf, Bool.not_false, Bool.and_self, if_true, Bool.false_or,
          Bool.not_true, Bool.false_eq_true, if_false, List.mem_append, Option.mem_toList] at hid ⊢
        rcases hid with h1 | h1 | h1 | (h1 | h1)
        · exact Or.inl (Or.inl h1)
        · exact Or.inl (Or.inr (Or.inl h1))
        · exact Or.inl (Or.inr (Or.inr (Or.inl h1)))
        · exact Or.inl (Or.inr (Or.inr (Or.inr h1)))
        · exact Or.inr ⟨t.fetchStart, Or.inr (List.mem_map.mpr ⟨id, by simpa using h1, rfl⟩)⟩
      · intro p hp; simp [tstep, hpg, hf]; exact Or.inl hp
    · have hst : RefreshFlow.step t.flow .fetchErrNoCc = t.flow := by
        simp only [RefreshFlow.step]
        split
        · rfl
        · rename_i hc; simp at hc hen; simp [hc] at hen
      have : tstep t .fetchErrNoCc = t := by simp only [tstep, hen, hst]; rfl
      rw [this]; exact h0
  | fetchErrOnCc => exact h0
  | merge op =>
    obtain ⟨s1, s2, s3, s4, s5, s6⟩ := stopProducer_fields t.flow
    apply timeInv_of t _ h0
    · simpa [tstep] using fi'
    · simp only [tstep, RefreshFlow.step]; split <;> (try split) <;> simp [s1]
    · simp [tstep]
    · simp [tstep]
    · intro r' hr'; left
      simp only [tstep, RefreshFlow.step] at hr' ⊢
      split at hr' <;> (try split at hr') <;> simp_all
    · intro p hp; left; simpa [tstep] using hp
    · intro id hid; left
      simp only [tstep, RefreshFlow.step] at hid
      split at hid
      · exact hid
      · split at hid
        · simp only [s3, s4, s5] at hid
          rcases hid with h1 | h1 | h1 | h1
          · exact Or.inl h1
          · exact Or.inr (Or.inl h1)
          · exact Or.inr (Or.inr (Or.inl (s6 id h1)))
          · exact Or.inr (Or.inr (Or.inr h1))
        · simpa [refreshIds_apply_strip] using hid
    · intro p hp; simpa [tstep] using hp
  | mergeEstab op =>
    apply timeInv_of t _ h0
    · simpa [tstep] using fi'
    · simp only [tstep, RefreshFlow.step]; split <;> simp
    · simp [tstep]
    · simp [tstep]
    · intro r' hr'; left
      simp only [tstep, RefreshFlow.step] at hr' ⊢
      split at hr' <;> simp_all
    · intro p hp; left; simpa [tstep] using hp
    · intro id hid; left
      simp only [tstep, RefreshFlow.step] at hid
      split at hid
      · exact hid
      · simpa [refreshIds_apply_strip] using hid
    · intro p hp; simpa [tstep] using hp
  | consumerTake =>
    apply timeInv_of t _ h0
    · simpa [tstep] using fi'
    · simp only [tstep, RefreshFlow.step]; split <;> (try split) <;> simp
    · simp [tstep]
    · simp [tstep]
    · intro r' hr'; left
      simp only [tstep, RefreshFlow.step] at hr' ⊢
      split at hr' <;> (try split at hr') <;> simp_all
    · intro p hp; left; simpa [tstep] using hp
    · intro id hid; left
      simp only [tstep, RefreshFlow.step] at hid
      split at hid
      · exact hid
      · split at hid
        · exact hid
        · rename_i u hu
          simp only [refreshIds_none, List.not_mem_nil, false_or] at hid
          rcases hid with h1 | h1 | h1
          · exact Or.inl h1
          · exact Or.inr (Or.inr (Or.inl (by rw [hu]; exact h1)))
          · exact Or.inr (Or.inr (Or.inr h1))
    · intro p hp; simpa [tstep] using hp
  | consumerFinish =>
    apply timeInv_of t _ h0
    · simpa [tstep] using fi'
    · simp only [tstep, RefreshFlow.step]; split <;> simp
    · simp [tstep]
    · simp [tstep]
    · intro r' hr'; left
      simp only [tstep, RefreshFlow.step] at hr' ⊢
      split at hr' <;> simp_all
    · intro p hp; left; simpa [tstep] using hp
    · intro id hid; left
      simp only [tstep, RefreshFlow.step] at hid
      split at hid
      · exact hid
      · simp only [List.mem_append, List.not_mem_nil, false_or] at hid
        rcases hid with (h1 | h1) | h1 | h1
        · exact Or.inl h1
        · exact Or.inr (Or.inl h1)
        · exact Or.inr (Or.inr (Or.inl h1))
        · exact Or.inr (Or.inr (Or.inr h1))
    · intro p hp; simpa [tstep] using hp
  | consumerGone =>
    apply timeInv_of t _ h0
    · simpa [tstep] using fi'
    · simp only [tstep, RefreshFlow.step]; split <;> (try split) <;> simp
    · simp [tstep]
    · simp [tstep]
    · intro r' hr'; left
      simp only [tstep, RefreshFlow.step] at hr' ⊢
      split at hr' <;> (try split at hr') <;> simp_all
    · intro p hp; left; simpa [tstep] using hp
    · intro id hid; left
      simp only [tstep, RefreshFlow.step] at hid
      split at hid
      · exact hid
      · split at hid <;> simp only [refreshIds_none, List.not_mem_nil, false_or] at hid
        · rcases hid with h1 | h1
          · exact Or.inl h1
          · exact Or.inr (Or.inr (Or.inr h1))
        · rcases hid with h1 | h1 | h1
          · exact Or.inl h1
          · exact Or.inr (Or.inr (Or.inl h1))
          · exact Or.inr (Or.inr (Or.inr h1))
    · intro p hp; simpa [tstep] using hp
  | producerGone =>
    obtain ⟨s1, s2, s3, s4, s5, s6⟩ := stopProducer_fields t.flow
    apply timeInv_of t _ h0
    · simpa [tstep] using fi'
    · simp only [tstep, RefreshFlow.step]; split <;> simp [s1]
    · simp [tstep]
    · simp [tstep]
    · intro r' hr'; left
      simp only [tstep, RefreshFlow.step] at hr' ⊢
      split at hr' <;> simp_all
    · intro p hp; left; simpa [tstep] using hp
    · intro id hid; left
      simp only [tstep, RefreshFlow.step] at hid
      split at hid
      · exact hid
      · simp only [s3, s4, s5] at hid
        rcases hid with h1 | h1 | h1 | h1
        · exact Or.inl h1
        · exact Or.inr (Or.inl h1)
        · exact Or.inr (Or.inr (Or.inl (s6 id h1)))
        · exact Or.inr (Or.inr (Or.inr h1))
    · intro p hp; simpa [tstep] using hp

private theorem timeInv_run (evs : List Ev) : TimeInv (trun tinit evs) := by
  have : ∀ (evs : List Ev) (t : Timed), TimeInv t → TimeInv (trun t evs) := by
    intro evs
    induction evs with
    | nil => intro t h; exact h
    | cons e rest ih => intro t h; exact ih _ (timeInv_step t e h)
  exact this evs tinit timeInv_init

/-- The ghost-timed run is the plain run with ghost fields added. -/
theorem timed_run_projects (evs : List Ev) : (trun tinit evs).flow = RefreshFlow.run RefreshFlow.init evs := by
  have : ∀ (evs : List Ev) (t : Timed), (trun t evs).flow = RefreshFlow.run t.flow evs := by
    intro evs
    induction evs with
    | nil => intro t; rfl
    | cons e rest ih =>
      intro t
      show (trun (tstep t e) rest).flow = RefreshFlow.run (RefreshFlow.step t.flow e) rest
      rw [ih]
      congr 1
      cases e <;> simp only [tstep] <;> (try split) <;> rfl
  exact this evs tinit

/-- FRESHNESS. For every interleaving of requests, producer and consumer steps and shutdowns: every refresh request that
has been answered - `Ok` (its reply channel was carried into the slot by `publish_metadata` and answered by the
consumer) or `Err` (the failed establishment attempt's error) - was served by a full fetch / establishment attempt that
STARTED strictly after the request was made; likewise for the requests whose reply channel is in the slot or held by the
running `apply_metadata_update`. No request is ever answered by a fetch that was already in flight when it was made. -/
theorem answering_fetch_started_after_request (evs : List Ev) (id : Nat) :
    let t := trun tinit evs
    (id ∈ t.flow.answeredOk ∨ id ∈ t.flow.applying ∨ id ∈ refreshIds t.flow.slot ∨ id ∈ t.flow.answeredErr) →
      ∃ tIssued tFetch, (id, tIssued) ∈ t.issued ∧ (id, tFetch) ∈ t.served ∧ tIssued < tFetch := by
  intro t hid
  have inv : TimeInv t := timeInv_run evs
  clear_value t
  obtain ⟨tF, htF⟩ := inv.answeredServed id hid
  obtain ⟨tI, htI⟩ := inv.all id (inv.servedIds _ htF)
  exact ⟨tI, tF, htI, htF, inv.servedAfter _ htF tI htI⟩

-- non-vacuity: request 0 starts fetch A (clock 1); request 1 is made while A is in flight (clock 2) and must NOT ride on A:
-- it is served by fetch B started at clock 3.
example :
    let t := trun tinit [.request, .recvRequest, .request, .recvRequest, .fetchOk { peers := 1 }, .recvRequest,
      .fetchOk { peers := 2 }, .consumerTake, .consumerFinish]
    t.issued = [(0, 0), (1, 2)] ∧ t.served = [(0, 1), (1, 3)] ∧ t.flow.answeredOk = [0, 1] := by decide

/-- The ∀ form: WHATEVER issue time and serving-fetch start time the ghost records hold for a request, the fetch started
strictly after the request was made (in every reachable state, for every request - answered or not). -/
theorem serving_fetch_started_after_request (evs : List Ev) (id tIssued tFetch : Nat) :
    (id, tIssued) ∈ (trun tinit evs).issued → (id, tFetch) ∈ (trun tinit evs).served → tIssued < tFetch :=
  fun hi hs => (timeInv_run evs).servedAfter (id, tFetch) hs tIssued hi


end Refresh

/-! ### the consumer publishes what it received: slot → `apply_metadata_update` → published `ClusterState` -/
section Consumer
open ScyllaVerif.MetaUpdate ScyllaVerif.ClusterConsumer

/-- Processing a received update publishes exactly the topology that update carries (full fetch or partial topology
fetch, with or without client routes in it, with or without a client-routes subscriber), and publishes nothing iff it
carries none. In particular handing the client routes to the subscriber does not disturb the peer list. -/
theorem consume_publishes_update_topology (c : Consumer) (u : Update) :
    (consume c u).published = (match peersTag (some u) with | some t => t | none => c.published) ∧
    (consume c u).publications = c.publications + (match peersTag (some u) with | some _ => 1 | none => 0) := by
  rcases u with ⟨_ | ⟨⟨pe, st, _ | r⟩, rs⟩ | ⟨_ | cr, _ | pp⟩, hints⟩ <;> cases hsub : c.hasSubscriber <;>
    simp [consume, handleClientRoutes, peersTag, hsub]

/-- ... answers EVERY reply channel the update holds, in order, and no other. -/
theorem consume_answers_every_reply (c : Consumer) (u : Update) :
    (consume c u).answered = c.answered ++ refreshIds (some u) := by
  rcases u with ⟨_ | ⟨⟨pe, st, _ | r⟩, rs⟩ | ⟨_ | cr, _ | pp⟩, hints⟩ <;> cases hsub : c.hasSubscriber <;>
    simp [consume, handleClientRoutes, refreshIds, hsub]

/-- ... processes every status hint of the update (DOWN hints first, then UP hints), and no other. -/
theorem consume_applies_every_hint (c : Consumer) (u : Update) :
    (consume c u).hintsApplied =
      c.hintsApplied ++ u.hints.filter (fun h => !h.2) ++ u.hints.filter (fun h => h.2) := by
  rcases u with ⟨_ | ⟨⟨pe, st, _ | r⟩, rs⟩ | ⟨_ | cr, _ | pp⟩, hints⟩ <;> cases hsub : c.hasSubscriber <;>
    simp [consume, handleClientRoutes, hsub]

/-- ... and, with a subscriber, hands it the client-routes information of the update (the full snapshot to
`replace_client_routes`, a partial update to `merge_client_routes_update`); without a subscriber nothing is delivered. -/
theorem consume_delivers_routes (c : Consumer) (u : Update) :
    (consume c u).delivered = c.delivered ++
      (if c.hasSubscriber then
        match u.changes with
        | some (.full m _) => (match m.clientRoutes with | some r => [.replace r] | none => [])
        | some (.part p) => (match p.clientRoutes with | some upd => [.mergeUpd upd] | none => [])
        | none => []
       else []) := by
  rcases u with ⟨_ | ⟨⟨pe, st, _ | r⟩, rs⟩ | ⟨_ | cr, _ | pp⟩, hints⟩ <;> cases hsub : c.hasSubscriber <;>
    simp [consume, handleClientRoutes, hsub]

private theorem effective_step (s : Pipe) (e : PEv) :
    effectiveTopology (pstep s e) =
      match e with
      | .merge op => (match op.topo with | some t => t | none => effectiveTopology s)
      | .take => effectiveTopology s
      | .tablets => effectiveTopology s := by
  cases e with
  | merge op =>
    simp only [pstep, effectiveTopology, peersTag_apply]
    cases op.topo <;> simp
  | take =>
    simp only [pstep]
    cases hs : s.slot with
    | none => simp
    | some u =>
      have := (consume_publishes_update_topology s.cons u).1
      have hn : peersTag (none : Option Update) = none := rfl
      simp only [effectiveTopology, hs, hn, this]
      cases peersTag (some u) <;> rfl
  | tablets => simp [pstep, effectiveTopology, applyTablets]

/-- For every history of producer merges (topology partial / full, client routes, status hints) interleaved with
consumer takes, starting from an empty slot and a published topology `t0`: the topology in effect - the slot's if an
update with a topology is still waiting, else the PUBLISHED one - is that of the latest `merge_metadata` /
`merge_topology_update` of the whole history (`t0` if there was none). No topology merged in is discarded by the
consumer, whatever else was merged with it. -/
theorem published_follows_latest_topology (sub : Bool) (t0 : Topo) (evs : List PEv) :
    effectiveTopology (prun { cons := { hasSubscriber := sub, published := t0 } } evs) =
      (match lastTopo (mergesOf evs) with | some t => t | none => t0) := by
  have gen : ∀ (evs : List PEv) (s : Pipe),
      effectiveTopology (prun s evs) =
        (match lastTopo (mergesOf evs) with | some t => t | none => effectiveTopology s) := by
    intro evs
    induction evs with
    | nil => intro s; simp [prun, mergesOf, lastTopo]
    | cons e rest ih =>
      intro s
      show effectiveTopology (prun (pstep s e) rest) = _
      rw [ih, effective_step]
      cases e with
      | merge op =>
        simp only [mergesOf, lastTopo]
        cases lastTopo (mergesOf rest) <;> cases op.topo <;> simp
      | take => simp only [mergesOf]
      | tablets => simp only [mergesOf]
  rw [gen]
  simp [effectiveTopology, peersTag]

private theorem effective_run : ∀ (evs : List PEv) (s : Pipe),
    effectiveTopology (prun s evs) =
      (match lastTopo (mergesOf evs) with | some t => t | none => effectiveTopology s) := by
  intro evs
  induction evs with
  | nil => intro s; simp [prun, mergesOf, lastTopo]
  | cons e rest ih =>
    intro s
    show effectiveTopology (prun (pstep s e) rest) = _
    rw [ih, effective_step]
    cases e with
    | merge op =>
      simp only [mergesOf, lastTopo]
      cases lastTopo (mergesOf rest) <;> cases op.topo <;> simp
    | take => simp only [mergesOf]
    | tablets => simp only [mergesOf]

/-- Processing an update rebuilds EVERY view of the published state from the topology the update carries (and leaves
them alone if it carries none); the host filter does not change. -/
theorem consume_rebuilds_every_view (c : Consumer) (u : Update) :
    (consume c u).filter = c.filter ∧
    (consume c u).views = (match peersTag (some u) with | some t => viewsOf c.filter t | none => c.views) := by
  rcases u with ⟨_ | ⟨⟨pe, st, _ | r⟩, rs⟩ | ⟨_ | cr, _ | pp⟩, hints⟩ <;> cases hsub : c.hasSubscriber <;>
    simp [consume, handleClientRoutes, peersTag, hsub]

private theorem views_inv : ∀ (evs : List PEv) (s : Pipe), s.cons.views = viewsOf s.cons.filter s.cons.published →
    (prun s evs).cons.views = viewsOf (prun s evs).cons.filter (prun s evs).cons.published ∧
    (prun s evs).cons.filter = s.cons.filter := by
  intro evs
  induction evs with
  | nil => intro s h; exact ⟨h, rfl⟩
  | cons e rest ih =>
    intro s h
    have hstep : (pstep s e).cons.views = viewsOf (pstep s e).cons.filter (pstep s e).cons.published ∧
        (pstep s e).cons.filter = s.cons.filter := by
      cases e with
      | merge op => exact ⟨by simpa [pstep] using h, by simp [pstep]⟩
      | tablets => exact ⟨by simpa [pstep, applyTablets] using h, by simp [pstep, applyTablets]⟩
      | take =>
        simp only [pstep]
        cases hs : s.slot with
        | none => exact ⟨by simpa using h, rfl⟩
        | some u =>
          obtain ⟨hf, hv⟩ := consume_rebuilds_every_view s.cons u
          have hp := (consume_publishes_update_topology s.cons u).1
          refine ⟨?_, hf⟩
          simp only []
          rw [hv, hp, hf]
          cases peersTag (some u) <;> simp [h]
    obtain ⟨h1, h2⟩ := ih (pstep s e) hstep.1
    exact ⟨h1, h2.trans hstep.2⟩

/-- FIELD-WISE: for every history of merges (full / partial topology with arbitrary per-node host id, address, dc, rack;
client routes; hints), consumer takes and tablet batches, for every host-filter mode - once the consumer has caught
up, EVERY view of the published state (`get_nodes_info()`, `known_nodes` / `get_node_by_host_id`, the ring) is exactly
the node list of the LATEST merged topology: every node with its latest address, datacenter, rack and the filter's
verdict on those. In particular a partial update that keeps the host-id set but moves a node, changes its rack or flips
the filter's verdict is fully reflected, and a tablets batch in between reverts nothing. -/
theorem every_view_is_latest_topology (sub : Bool) (filter : Nat) (t0 : Topo) (evs : List PEv)
    (h : (prun { cons := Consumer.start sub filter t0 } evs).slot = none) :
    let c := (prun { cons := Consumer.start sub filter t0 } evs).cons
    let latest := (match lastTopo (mergesOf evs) with | some t => t | none => t0)
    c.published = latest ∧ c.views.allNodes = nodesOf filter latest ∧ c.views.knownNodes = nodesOf filter latest ∧
      c.views.ring = nodesOf filter latest := by
  have heff := effective_run evs { cons := Consumer.start sub filter t0 }
  obtain ⟨hv, hf⟩ := views_inv evs { cons := Consumer.start sub filter t0 } (by simp [Consumer.start])
  have hpub : (prun { cons := Consumer.start sub filter t0 } evs).cons.published =
      (match lastTopo (mergesOf evs) with | some t => t | none => t0) := by
    have hn : peersTag (none : Option Update) = none := rfl
    have he0 : effectiveTopology { cons := Consumer.start sub filter t0 } = t0 := by
      simp [effectiveTopology, hn, Consumer.start]
    rw [he0] at heff
    simpa [effectiveTopology, h, hn] using heff
  simp only []
  rw [hv, hf, hpub]
  simp [viewsOf, Consumer.start]

-- non-vacuity: the shape of the seeded `all_nodes` defect - a partial topology update with the SAME host ids in which
-- node 2 moved to another address and changed rack, a tablets batch right after: every view shows the new attributes.
example :
    let t0 : Topo := ⟨[{ host := 1, addr := 10 }, { host := 2, addr := 20, rack := 1 }]⟩
    let t1 : Topo := ⟨[{ host := 1, addr := 10 }, { host := 2, addr := 21, rack := 9 }]⟩
    let s := prun { cons := Consumer.start false 2 t0 } [.merge (.topology t1), .take, .tablets]
    s.cons.views.allNodes = [⟨{ host := 1, addr := 10 }, true⟩, ⟨{ host := 2, addr := 21, rack := 9 }, false⟩] ∧
      s.cons.views.allNodes = s.cons.views.knownNodes ∧ s.cons.views.ring = s.cons.views.knownNodes ∧
      s.cons.tabletBatches = 1 := by decide

/-- Once the consumer has caught up (the slot is empty), the PUBLISHED topology is the latest merged one. -/
theorem caught_up_consumer_published_latest (sub : Bool) (t0 : Topo) (evs : List PEv)
    (h : (prun { cons := { hasSubscriber := sub, published := t0 } } evs).slot = none) :
    (prun { cons := { hasSubscriber := sub, published := t0 } } evs).cons.published =
      (match lastTopo (mergesOf evs) with | some t => t | none => t0) := by
  have := published_follows_latest_topology sub t0 evs
  simpa [effectiveTopology, h, peersTag] using this

private theorem answered_step (s : Pipe) (e : PEv) :
    (pstep s e).cons.answered ++ refreshIds (pstep s e).slot =
      s.cons.answered ++ refreshIds s.slot ++ (match e with | .merge op => op.refresh | _ => []) := by
  cases e with
  | merge op => simp [pstep, merge_keeps_reply_channels, List.append_assoc]
  | take =>
    simp only [pstep]
    cases hs : s.slot with
    | none => simp [hs]
    | some u =>
      have hn : refreshIds (none : Option Update) = [] := rfl
      simp [consume_answers_every_reply, hn]
  | tablets => simp [pstep, applyTablets]

/-- For the same histories: the reply channels answered by the consumer followed by those still in the slot are
exactly the reply channels the producer merged in, in order - each answered once or still waiting, none discarded. -/
theorem replies_answered_or_in_slot (sub : Bool) (t0 : Topo) (evs : List PEv) :
    let s := prun { cons := { hasSubscriber := sub, published := t0 } } evs
    s.cons.answered ++ refreshIds s.slot = (mergesOf evs).flatMap Op.refresh := by
  have gen : ∀ (evs : List PEv) (s : Pipe),
      (prun s evs).cons.answered ++ refreshIds (prun s evs).slot =
        s.cons.answered ++ refreshIds s.slot ++ (mergesOf evs).flatMap Op.refresh := by
    intro evs
    induction evs with
    | nil => intro s; simp [prun, mergesOf]
    | cons e rest ih =>
      intro s
      show (prun (pstep s e) rest).cons.answered ++ refreshIds (prun (pstep s e) rest).slot = _
      rw [ih, answered_step]
      cases e <;> simp [mergesOf, List.append_assoc]
  simp only []
  rw [gen]
  simp [refreshIds]

-- non-vacuity: the shape of the seeded consumer defect - a partial update carrying BOTH a topology and a client-routes
-- snapshot, processed by a consumer WITH a subscriber: the topology (7) must be published, the routes delivered.
example :
    let s := prun { cons := { hasSubscriber := true, published := 1 } }
      [.merge (.topology 7), .merge (.clientRoutes [((1, 1), some 9042)]), .merge (.hint 3 false), .take]
    s.cons.published = 7 ∧ s.cons.publications = 1 ∧ s.cons.delivered = [.mergeUpd [((1, 1), some 9042)]] ∧
      s.cons.hintsApplied = [(3, false)] ∧ s.slot = none := by decide
example :
    let s := prun { cons := { hasSubscriber := true, published := 1 } }
      [.merge (.metadata { peers := 4, clientRoutes := some [((1, 1), 5)] } (some 0)), .merge (.topology 6),
       .take, .merge (.clientRoutes [((1, 1), none)]), .take]
    s.cons.published = 6 ∧ s.cons.answered = [0] ∧ s.cons.publications = 1 ∧
      s.cons.delivered = [.replace [((1, 1), 5)], .mergeUpd [((1, 1), none)]] := by decide

end Consumer

/-! #### the two worker models composed: answered `Ok` ⇒ a state from a fetch started after the request is published -/
section Composed
open ScyllaVerif.C19Whole ScyllaVerif.ClusterConsumer ScyllaVerif.MetaUpdate ScyllaVerif.RefreshFlow

private structure WInv (w : Whole) : Prop where
  ti : TimeInv w.t
  clk : w.t.fetchStart ≤ w.t.clock
  servedLe : ∀ p ∈ w.t.served, p.2 ≤ w.t.fetchStart
  slotLe : ∀ a, w.slotFull = some a → a ≤ w.t.fetchStart
  takenLe : ∀ a, w.takenFull = some a → a ≤ w.t.fetchStart
  pubLe : ∀ a, w.publishedFull = some a → a ≤ w.t.fetchStart
  ordPT : ∀ a b, w.publishedFull = some a → w.takenFull = some b → a ≤ b
  ordPS : ∀ a b, w.publishedFull = some a → w.slotFull = some b → a ≤ b
  ordTS : ∀ a b, w.takenFull = some a → w.slotFull = some b → a ≤ b
  slotIds : ∀ id ∈ refreshIds w.t.flow.slot, ∃ tF tS, (id, tF) ∈ w.t.served ∧ w.slotFull = some tS ∧ tF ≤ tS
  applIds : ∀ id ∈ w.t.flow.applying, ∃ tF tS, (id, tF) ∈ w.t.served ∧ w.takenFull = some tS ∧ tF ≤ tS
  okIds : ∀ id ∈ w.t.flow.answeredOk, ∃ tF tP, (id, tF) ∈ w.t.served ∧ w.publishedFull = some tP ∧ tF ≤ tP
  link : w.t.flow.busy = true → ∃ u, w.taken = some u ∧ w.t.flow.applying = refreshIds (some u)
  consAns : w.cons.answered = w.t.flow.answeredOk

private theorem winv_init (sub : Bool) (t0 : Topo) : WInv (winit sub t0) :=
  ⟨timeInv_init, by simp [winit], by simp [winit], by simp [winit], by simp [winit], by simp [winit], by simp [winit],
   by simp [winit], by simp [winit], by simp [winit, refreshIds], by simp [winit], by simp [winit], by simp [winit],
   by simp [winit, Consumer.start]⟩

/-- A transition that changes neither the ghost stamps, the served log, the slot's / handler's / answered ids, the
`busy` flag nor the consumer - only (possibly) moves the clock and `fetchStart` forward - keeps the invariant. -/
private theorem winv_frame (w w' : Whole) (h : WInv w) (ti' : TimeInv w'.t)
    (hfs : w.t.fetchStart ≤ w'.t.fetchStart) (hclk : w'.t.fetchStart ≤ w'.t.clock)
    (hserved : ∀ p ∈ w'.t.served, p ∈ w.t.served ∨ p.2 = w.t.fetchStart)
    (hmono : ∀ p ∈ w.t.served, p ∈ w'.t.served)
    (hsf : w'.slotFull = w.slotFull) (htf : w'.takenFull = w.takenFull) (hpf : w'.publishedFull = w.publishedFull)
    (hslot : ∀ id ∈ refreshIds w'.t.flow.slot, id ∈ refreshIds w.t.flow.slot)
    (happl : ∀ id ∈ w'.t.flow.applying, id ∈ w.t.flow.applying)
    (hok : w'.t.flow.answeredOk = w.t.flow.answeredOk)
    (hlink : w'.t.flow.busy = true → ∃ u, w'.taken = some u ∧ w'.t.flow.applying = refreshIds (some u))
    (hcons : w'.cons = w.cons) : WInv w' := by
  obtain ⟨_, clk, servedLe, slotLe, takenLe, pubLe, ordPT, ordPS, ordTS, slotIds, applIds, okIds, link, consAns⟩ := h
  refine ⟨ti', hclk, ?_, ?_, ?_, ?_, ?_, ?_, ?_, ?_, ?_, ?_, hlink, ?_⟩
  · intro p hp
    rcases hserved p hp with h1 | h1
    · have := servedLe p h1; omega
    · omega
  · intro a ha; rw [hsf] at ha; have := slotLe a ha; omega
  · intro a ha; rw [htf] at ha; have := takenLe a ha; omega
  · intro a ha; rw [hpf] at ha; have := pubLe a ha; omega
  · intro a b ha hb; rw [hpf] at ha; rw [htf] at hb; exact ordPT a b ha hb
  · intro a b ha hb; rw [hpf] at ha; rw [hsf] at hb; exact ordPS a b ha hb
  · intro a b ha hb; rw [htf] at ha; rw [hsf] at hb; exact ordTS a b ha hb
  · intro id hid; rw [hsf]
    obtain ⟨tF, tS, h1, h2, h3⟩ := slotIds id (hslot id hid)
    exact ⟨tF, tS, hmono _ h1, h2, h3⟩
  · intro id hid; rw [htf]
    obtain ⟨tF, tS, h1, h2, h3⟩ := applIds id (happl id hid)
    exact ⟨tF, tS, hmono _ h1, h2, h3⟩
  · intro id hid; rw [hok] at hid; rw [hpf]
    obtain ⟨tF, tS, h1, h2, h3⟩ := okIds id hid
    exact ⟨tF, tS, hmono _ h1, h2, h3⟩
  · rw [hcons, hok]; exact consAns

private theorem wstep_t (w : Whole) (e : Ev) : (wstep w e).t = tstep w.t e := by
  cases e <;> simp only [wstep] <;> (try split) <;> (try split) <;> rfl

private theorem winv_step (w : Whole) (e : Ev) (h : WInv w) : WInv (wstep w e) := by
  have ti' : TimeInv (tstep w.t e) := timeInv_step w.t e h.ti
  have hnf := h.ti.flowInv.nofetch
  cases e with
  | request =>
    apply winv_frame w _ h (by rw [wstep_t]; exact ti')
    · simp [wstep, tstep]
    · have := h.clk; simp [wstep, tstep]; omega
    · intro p hp; left; simpa [wstep, tstep] using hp
    · intro p hp; simpa [wstep, tstep] using hp
    · simp [wstep]
    · simp [wstep]
    · simp [wstep]
    · intro id hid; simp only [wstep, tstep, RefreshFlow.step] at hid; split at hid <;> exact hid
    · intro id hid; simp only [wstep, tstep, RefreshFlow.step] at hid; split at hid <;> exact hid
    · simp only [wstep, tstep, RefreshFlow.step]; split <;> rfl
    · intro hb
      have : w.t.flow.busy = true := by
        simp only [wstep, tstep, RefreshFlow.step] at hb; split at hb <;> exact hb
      obtain ⟨u, h1, h2⟩ := h.link this
      refine ⟨u, by simpa [wstep] using h1, ?_⟩
      simp only [wstep, tstep, RefreshFlow.step]; split <;> exact h2
    · simp [wstep]
  | recvRequest =>
    by_cases hen : (!w.t.flow.producerGone && !w.t.flow.fetching && !w.t.flow.waiting.isEmpty) = true
    · have hen' := hen
      simp only [Bool.and_eq_true, Bool.not_eq_true'] at hen'
      obtain ⟨⟨hpg, hf⟩, hw⟩ := hen'
      match hwl : w.t.flow.waiting with
      | [] => simp [hwl] at hw
      | r :: rest =>
        apply winv_frame w _ h (by rw [wstep_t]; exact ti')
        · have := h.clk; simp [wstep, tstep, hpg, hf, hwl]; omega
        · simp [wstep, tstep, hpg, hf, hwl]
        · intro p hp; left; simpa [wstep, tstep, hpg, hf, hwl] using hp
        · intro p hp; simpa [wstep, tstep, hpg, hf, hwl] using hp
        · simp [wstep]
        · simp [wstep]
        · simp [wstep]
        · intro id hid; simpa [wstep, tstep, RefreshFlow.step, hpg, hf, hwl] using hid
        · intro id hid; simpa [wstep, tstep, RefreshFlow.step, hpg, hf, hwl] using hid
        · simp [wstep, tstep, RefreshFlow.step, hpg, hf, hwl]
        · intro hb
          have : w.t.flow.busy = true := by simpa [wstep, tstep, RefreshFlow.step, hpg, hf, hwl] using hb
          obtain ⟨u, h1, h2⟩ := h.link this
          exact ⟨u, by simpa [wstep] using h1, by simpa [wstep, tstep, RefreshFlow.step, hpg, hf, hwl] using h2⟩
        · simp [wstep]
    · have hst : RefreshFlow.step w.t.flow .recvRequest = w.t.flow := by
        simp only [RefreshFlow.step]
        split
        · rfl
        · rename_i hc
          cases hwl : w.t.flow.waiting with
          | nil => rfl
          | cons r rest => simp [hwl] at hen hc; simp [hc] at hen
      have : wstep w .recvRequest = w := by
        simp only [wstep, tstep, hen, hst]; rfl
      rw [this]; exact h
  | periodicFetch =>
    by_cases hen : (!w.t.flow.producerGone && !w.t.flow.fetching) = true
    · have hen' := hen
      simp only [Bool.and_eq_true, Bool.not_eq_true'] at hen'
      obtain ⟨hpg, hf⟩ := hen'
      apply winv_frame w _ h (by rw [wstep_t]; exact ti')
      · have := h.clk; simp [wstep, tstep, hpg, hf]; omega
      · simp [wstep, tstep, hpg, hf]
      · intro p hp; left; simpa [wstep, tstep, hpg, hf] using hp
      · intro p hp; simpa [wstep, tstep, hpg, hf] using hp
      · simp [wstep]
      · simp [wstep]
      · simp [wstep]
      · intro id hid; simpa [wstep, tstep, RefreshFlow.step, hpg, hf] using hid
      · intro id hid; simpa [wstep, tstep, RefreshFlow.step, hpg, hf] using hid
      · simp [wstep, tstep, RefreshFlow.step, hpg, hf]
      · intro hb
        have : w.t.flow.busy = true := by simpa [wstep, tstep, RefreshFlow.step, hpg, hf] using hb
        obtain ⟨u, h1, h2⟩ := h.link this
        exact ⟨u, by simpa [wstep] using h1, by simpa [wstep, tstep, RefreshFlow.step, hpg, hf] using h2⟩
      · simp [wstep]
    · have hst : RefreshFlow.step w.t.flow .periodicFetch = w.t.flow := by
        simp only [RefreshFlow.step]
        split
        · rfl
        · rename_i hc; simp at hc hen; simp [hc] at hen
      have : wstep w .periodicFetch = w := by simp only [wstep, tstep, hen, hst]; rfl
      rw [this]; exact h
  | fetchErrOnCc =>
    have : wstep w .fetchErrOnCc = w := by simp only [wstep, tstep, RefreshFlow.step]
    rw [this]; exact h
  | fetchErrNoCc =>
    by_cases hen : (!w.t.flow.producerGone && w.t.flow.fetching) = true
    · have hen' := hen
      simp only [Bool.and_eq_true, Bool.not_eq_true'] at hen'
      obtain ⟨hpg, hf⟩ := hen'
      apply winv_frame w _ h (by rw [wstep_t]; exact ti')
      · simp [wstep, tstep, hpg, hf]
      · have := h.clk; simpa [wstep, tstep, hpg, hf] using this
      · intro p hp
        simp only [wstep, tstep, hpg, hf, Bool.not_false, Bool.and_self, if_true, List.mem_append, List.mem_map] at hp
        rcases hp with hp | ⟨r, _, rfl⟩
        · exact Or.inl hp
        · exact Or.inr rfl
      · intro p hp; simp [wstep, tstep, hpg, hf]; exact Or.inl hp
      · simp [wstep]
      · simp [wstep]
      · simp [wstep]
      · intro id hid; simpa [wstep, tstep, RefreshFlow.step, hpg, hf] using hid
      · intro id hid; simpa [wstep, tstep, RefreshFlow.step, hpg, hf] using hid
      · simp [wstep, tstep, RefreshFlow.step, hpg, hf]
      · intro hb
        have : w.t.flow.busy = true := by simpa [wstep, tstep, RefreshFlow.step, hpg, hf] using hb
        obtain ⟨u, h1, h2⟩ := h.link this
        exact ⟨u, by simpa [wstep] using h1, by simpa [wstep, tstep, RefreshFlow.step, hpg, hf] using h2⟩
      · simp [wstep]
    · have hst : RefreshFlow.step w.t.flow .fetchErrNoCc = w.t.flow := by
        simp only [RefreshFlow.step]
        split
        · rfl
        · rename_i hc; simp at hc hen; simp [hc] at hen
      have : wstep w .fetchErrNoCc = w := by simp only [wstep, tstep, hen, hst]; rfl
      rw [this]; exact h
  | merge op =>
    obtain ⟨s1, s2, s3, s4, s5, s6⟩ := stopProducer_fields w.t.flow
    have hbusy : (RefreshFlow.step w.t.flow (.merge op)).busy = w.t.flow.busy := by
      simp only [RefreshFlow.step, stopProducer]; split <;> (try split) <;> (try split) <;> rfl
    apply winv_frame w _ h (by rw [wstep_t]; exact ti')
    · simp [wstep, tstep]
    · have := h.clk; simpa [wstep, tstep] using this
    · intro p hp; left; simpa [wstep, tstep] using hp
    · intro p hp; simpa [wstep, tstep] using hp
    · simp [wstep]
    · simp [wstep]
    · simp [wstep]
    · intro id hid
      simp only [wstep, tstep, RefreshFlow.step] at hid
      split at hid
      · exact hid
      · split at hid
        · exact s6 id hid
        · simpa [refreshIds_apply_strip] using hid
    · intro id hid
      simp only [wstep, tstep, RefreshFlow.step] at hid
      split at hid
      · exact hid
      · split at hid
        · rw [s5] at hid; exact hid
        · exact hid
    · simp only [wstep, tstep, RefreshFlow.step]; split <;> (try split) <;> simp [s3]
    · intro hb
      have : w.t.flow.busy = true := by simpa [wstep, tstep, hbusy] using hb
      obtain ⟨u, h1, h2⟩ := h.link this
      refine ⟨u, by simpa [wstep] using h1, ?_⟩
      simp only [wstep, tstep, RefreshFlow.step]; split <;> (try split) <;> simp [s5, h2]
    · simp [wstep]
  | mergeEstab op =>
    apply winv_frame w _ h (by rw [wstep_t]; exact ti')
    · simp [wstep, tstep]
    · have := h.clk; simpa [wstep, tstep] using this
    · intro p hp; left; simpa [wstep, tstep] using hp
    · intro p hp; simpa [wstep, tstep] using hp
    · simp [wstep]
    · simp [wstep]
    · simp [wstep]
    · intro id hid
      simp only [wstep, tstep, RefreshFlow.step] at hid
      split at hid
      · exact hid
      · simpa [refreshIds_apply_strip] using hid
    · intro id hid
      simp only [wstep, tstep, RefreshFlow.step] at hid
      split at hid <;> exact hid
    · simp only [wstep, tstep, RefreshFlow.step]; split <;> rfl
    · intro hb
      have : w.t.flow.busy = true := by
        simp only [wstep, tstep, RefreshFlow.step] at hb; split at hb <;> exact hb
      obtain ⟨u, h1, h2⟩ := h.link this
      refine ⟨u, by simpa [wstep] using h1, ?_⟩
      simp only [wstep, tstep, RefreshFlow.step]; split <;> exact h2
    · simp [wstep]
  | producerGone =>
    obtain ⟨s1, s2, s3, s4, s5, s6⟩ := stopProducer_fields w.t.flow
    have hbusy : (RefreshFlow.step w.t.flow .producerGone).busy = w.t.flow.busy := by
      simp only [RefreshFlow.step, stopProducer]; split <;> (try split) <;> rfl
    apply winv_frame w _ h (by rw [wstep_t]; exact ti')
    · simp [wstep, tstep]
    · have := h.clk; simpa [wstep, tstep] using this
    · intro p hp; left; simpa [wstep, tstep] using hp
    · intro p hp; simpa [wstep, tstep] using hp
    · simp [wstep]
    · simp [wstep]
    · simp [wstep]
    · intro id hid
      simp only [wstep, tstep, RefreshFlow.step] at hid
      split at hid
      · exact hid
      · exact s6 id hid
    · intro id hid
      simp only [wstep, tstep, RefreshFlow.step] at hid
      split at hid
      · exact hid
      · rw [s5] at hid; exact hid
    · simp only [wstep, tstep, RefreshFlow.step]; split <;> simp [s3]
    · intro hb
      have : w.t.flow.busy = true := by simpa [wstep, tstep, hbusy] using hb
      obtain ⟨u, h1, h2⟩ := h.link this
      refine ⟨u, by simpa [wstep] using h1, ?_⟩
      simp only [wstep, tstep, RefreshFlow.step]; split <;> simp [s5, h2]
    · simp [wstep]
  | consumerGone =>
    apply winv_frame w _ h (by rw [wstep_t]; exact ti')
    · simp [wstep, tstep]
    · have := h.clk; simpa [wstep, tstep] using this
    · intro p hp; left; simpa [wstep, tstep] using hp
    · intro p hp; simpa [wstep, tstep] using hp
    · simp [wstep]
    · simp [wstep]
    · simp [wstep]
    · intro id hid
      simp only [wstep, tstep, RefreshFlow.step] at hid
      split at hid
      · exact hid
      · split at hid
        · simp [refreshIds_none] at hid
        · exact hid
    · intro id hid
      simp only [wstep, tstep, RefreshFlow.step] at hid
      split at hid
      · exact hid
      · split at hid <;> simp at hid
    · simp only [wstep, tstep, RefreshFlow.step]; split <;> (try split) <;> rfl
    · intro hb
      simp only [wstep, tstep, RefreshFlow.step] at hb
      split at hb
      · obtain ⟨u, h1, h2⟩ := h.link hb
        refine ⟨u, by simpa [wstep] using h1, ?_⟩
        simp only [wstep, tstep, RefreshFlow.step]
        split
        · exact h2
        · rename_i hc1 hc2; exact absurd hc1 hc2
      · split at hb <;> simp at hb
    · simp [wstep]
  | fetchOk m =>
    by_cases hen : (!w.t.flow.producerGone && w.t.flow.fetching) = true
    · have hen' := hen
      simp only [Bool.and_eq_true, Bool.not_eq_true'] at hen'
      obtain ⟨hpg, hf⟩ := hen'
      cases hcg : w.t.flow.consumerGone with
      | false =>
        obtain ⟨_, clk, servedLe, slotLe, takenLe, pubLe, ordPT, ordPS, ordTS, slotIds, applIds, okIds, link, consAns⟩ := h
        have hfl : (wstep w (.fetchOk m)).t.flow =
            { w.t.flow with slot := mergeMetadata w.t.flow.slot m w.t.flow.pending, pending := none, fetching := false } := by
          simp [wstep, tstep, RefreshFlow.step, hpg, hf, hcg]
        have hsv : (wstep w (.fetchOk m)).t.served =
            w.t.served ++ w.t.flow.pending.toList.map (fun r => (r, w.t.fetchStart)) := by
          simp [wstep, tstep, hpg, hf, hcg]
        have hfs : (wstep w (.fetchOk m)).t.fetchStart = w.t.fetchStart := by simp [wstep, tstep, hpg, hf, hcg]
        have hck : (wstep w (.fetchOk m)).t.clock = w.t.clock := by simp [wstep, tstep, hpg, hf, hcg]
        have hsf : (wstep w (.fetchOk m)).slotFull = some w.t.fetchStart := by simp [wstep, hpg, hf, hcg]
        have htf : (wstep w (.fetchOk m)).takenFull = w.takenFull := by simp [wstep, hpg, hf, hcg]
        have hpf : (wstep w (.fetchOk m)).publishedFull = w.publishedFull := by simp [wstep, hpg, hf, hcg]
        have htk : (wstep w (.fetchOk m)).taken = w.taken := by simp [wstep, hpg, hf, hcg]
        have hcs : (wstep w (.fetchOk m)).cons = w.cons := by simp [wstep, hpg, hf, hcg]
        refine ⟨by rw [wstep_t]; exact ti', by rw [hfs, hck]; exact clk, ?_, ?_, ?_, ?_, ?_, ?_, ?_, ?_, ?_, ?_, ?_, ?_⟩
        · intro p hp
          rw [hsv, hfs] at *
          rcases List.mem_append.mp hp with h1 | h1
          · exact servedLe p h1
          · obtain ⟨r, _, rfl⟩ := List.mem_map.mp h1; exact Nat.le_refl _
        · intro a ha; rw [hsf] at ha; rw [hfs]; simp at ha; omega
        · intro a ha; rw [htf] at ha; rw [hfs]; exact takenLe a ha
        · intro a ha; rw [hpf] at ha; rw [hfs]; exact pubLe a ha
        · intro a b ha hb; rw [hpf] at ha; rw [htf] at hb; exact ordPT a b ha hb
        · intro a b ha hb; rw [hpf] at ha; rw [hsf] at hb; simp at hb; have := pubLe a ha; omega
        · intro a b ha hb; rw [htf] at ha; rw [hsf] at hb; simp at hb; have := takenLe a ha; omega
        · intro id hid
          rw [hfl] at hid
          simp only [refreshIds_mergeMetadata, List.mem_append, Option.mem_toList] at hid
          rw [hsv, hsf]
          rcases hid with h1 | h1
          · obtain ⟨tF, tS, a1, a2, a3⟩ := slotIds id h1
            exact ⟨tF, w.t.fetchStart, List.mem_append_left _ a1, rfl, by have := slotLe tS a2; omega⟩
          · exact ⟨w.t.fetchStart, w.t.fetchStart,
              List.mem_append_right _ (List.mem_map.mpr ⟨id, by simpa using h1, rfl⟩), rfl, Nat.le_refl _⟩
        · intro id hid
          rw [hfl] at hid
          rw [hsv, htf]
          obtain ⟨tF, tS, a1, a2, a3⟩ := applIds id hid
          exact ⟨tF, tS, List.mem_append_left _ a1, a2, a3⟩
        · intro id hid
          rw [hfl] at hid
          rw [hsv, hpf]
          obtain ⟨tF, tS, a1, a2, a3⟩ := okIds id hid
          exact ⟨tF, tS, List.mem_append_left _ a1, a2, a3⟩
        · intro hb
          rw [hfl] at hb
          obtain ⟨u, h1, h2⟩ := link hb
          exact ⟨u, by rw [htk]; exact h1, by rw [hfl]; exact h2⟩
        · rw [hcs, hfl]; exact consAns
      | true =>
        obtain ⟨s1, s2, s3, s4, s5, s6⟩ := stopProducer_fields w.t.flow
        have hfl : (wstep w (.fetchOk m)).t.flow = stopProducer w.t.flow := by
          simp [wstep, tstep, RefreshFlow.step, hpg, hf, hcg]
        have hbusy : (stopProducer w.t.flow).busy = w.t.flow.busy := by
          simp only [stopProducer]; split <;> rfl
        apply winv_frame w _ h (by rw [wstep_t]; exact ti')
        · simp [wstep, tstep, hpg, hf, hcg]
        · have := h.clk; simpa [wstep, tstep, hpg, hf, hcg] using this
        · intro p hp; left; simpa [wstep, tstep, hpg, hf, hcg] using hp
        · intro p hp; simpa [wstep, tstep, hpg, hf, hcg] using hp
        · simp [wstep, hpg, hf, hcg]
        · simp [wstep, hpg, hf, hcg]
        · simp [wstep, hpg, hf, hcg]
        · intro id hid; rw [hfl] at hid; exact s6 id hid
        · intro id hid; rw [hfl, s5] at hid; exact hid
        · rw [hfl, s3]
        · intro hb
          rw [hfl, hbusy] at hb
          obtain ⟨u, h1, h2⟩ := h.link hb
          exact ⟨u, by simpa [wstep, hpg, hf, hcg] using h1, by rw [hfl, s5]; exact h2⟩
        · simp [wstep, hpg, hf, hcg]
    · have hst : RefreshFlow.step w.t.flow (.fetchOk m) = w.t.flow := by
        simp only [RefreshFlow.step]
        split
        · rfl
        · rename_i hc; simp at hc hen; simp [hc] at hen
      have hcond : (!w.t.flow.producerGone && w.t.flow.fetching && !w.t.flow.consumerGone) = false := by
        simp at hen ⊢; intro a b; simp [hen a] at b
      have : wstep w (.fetchOk m) = w := by simp only [wstep, tstep, hcond, hst]; rfl
      rw [this]; exact h
  | consumerTake =>
    by_cases hen : (!w.t.flow.consumerGone && !w.t.flow.busy) = true
    · have hen' := hen
      simp only [Bool.and_eq_true, Bool.not_eq_true'] at hen'
      obtain ⟨hcg, hb⟩ := hen'
      cases hs : w.t.flow.slot with
      | none =>
        have hst : RefreshFlow.step w.t.flow .consumerTake = w.t.flow := by
          simp [RefreshFlow.step, hcg, hb, hs]
        have : wstep w .consumerTake = w := by simp only [wstep, tstep, hen, hs, hst]; rfl
        rw [this]; exact h
      | some u =>
        obtain ⟨_, clk, servedLe, slotLe, takenLe, pubLe, ordPT, ordPS, ordTS, slotIds, applIds, okIds, link, consAns⟩ := h
        have hfl : (wstep w .consumerTake).t.flow =
            { w.t.flow with slot := none, applying := refreshIds (some u), busy := true } := by
          simp [wstep, tstep, RefreshFlow.step, hcg, hb, hs]
        have hsv : (wstep w .consumerTake).t.served = w.t.served := by simp [wstep, tstep, hcg, hb, hs]
        have hfs : (wstep w .consumerTake).t.fetchStart = w.t.fetchStart := by simp [wstep, tstep, hcg, hb, hs]
        have hck : (wstep w .consumerTake).t.clock = w.t.clock := by simp [wstep, tstep, hcg, hb, hs]
        have hsf : (wstep w .consumerTake).slotFull = none := by simp [wstep, hcg, hb, hs]
        have htf : (wstep w .consumerTake).takenFull = w.slotFull := by simp [wstep, hcg, hb, hs]
        have hpf : (wstep w .consumerTake).publishedFull = w.publishedFull := by simp [wstep, hcg, hb, hs]
        have htk : (wstep w .consumerTake).taken = some u := by simp [wstep, hcg, hb, hs]
        have hcs : (wstep w .consumerTake).cons = w.cons := by simp [wstep, hcg, hb, hs]
        refine ⟨by rw [wstep_t]; exact ti', by rw [hfs, hck]; exact clk, ?_, ?_, ?_, ?_, ?_, ?_, ?_, ?_, ?_, ?_, ?_, ?_⟩
        · intro p hp; rw [hsv] at hp; rw [hfs]; exact servedLe p hp
        · intro a ha; rw [hsf] at ha; simp at ha
        · intro a ha; rw [htf] at ha; rw [hfs]; exact slotLe a ha
        · intro a ha; rw [hpf] at ha; rw [hfs]; exact pubLe a ha
        · intro a b ha hb'; rw [hpf] at ha; rw [htf] at hb'; exact ordPS a b ha hb'
        · intro a b ha hb'; rw [hsf] at hb'; simp at hb'
        · intro a b ha hb'; rw [hsf] at hb'; simp at hb'
        · intro id hid; rw [hfl] at hid; simp [refreshIds_none] at hid
        · intro id hid
          rw [hfl] at hid
          rw [hsv, htf]
          exact slotIds id (by rw [hs]; exact hid)
        · intro id hid
          rw [hfl] at hid
          rw [hsv, hpf]
          exact okIds id hid
        · intro _; exact ⟨u, htk, by rw [hfl]⟩
        · rw [hcs, hfl]; exact consAns
    · have hst : RefreshFlow.step w.t.flow .consumerTake = w.t.flow := by
        simp only [RefreshFlow.step]
        split
        · rfl
        · rename_i hc; simp at hc hen; simp [hc] at hen
      have : wstep w .consumerTake = w := by simp only [wstep, tstep, hen, hst]; rfl
      rw [this]; exact h
  | consumerFinish =>
    by_cases hen : (!w.t.flow.consumerGone && w.t.flow.busy) = true
    · have hen' := hen
      simp only [Bool.and_eq_true, Bool.not_eq_true'] at hen'
      obtain ⟨hcg, hb⟩ := hen'
      obtain ⟨_, clk, servedLe, slotLe, takenLe, pubLe, ordPT, ordPS, ordTS, slotIds, applIds, okIds, link, consAns⟩ := h
      obtain ⟨u, hu, happ⟩ := link hb
      have hfl : (wstep w .consumerFinish).t.flow =
          { w.t.flow with answeredOk := w.t.flow.answeredOk ++ w.t.flow.applying, applying := [], busy := false } := by
        simp [wstep, tstep, RefreshFlow.step, hcg, hb]
      have hsv : (wstep w .consumerFinish).t.served = w.t.served := by simp [wstep, tstep, hcg, hb]
      have hfs : (wstep w .consumerFinish).t.fetchStart = w.t.fetchStart := by simp [wstep, tstep, hcg, hb]
      have hck : (wstep w .consumerFinish).t.clock = w.t.clock := by simp [wstep, tstep, hcg, hb]
      have hsf : (wstep w .consumerFinish).slotFull = w.slotFull := by simp [wstep, hcg, hb]
      have htf : (wstep w .consumerFinish).takenFull = none := by simp [wstep, hcg, hb]
      have hpf : (wstep w .consumerFinish).publishedFull =
          (match w.takenFull with | some a => some a | none => w.publishedFull) := by
        simp [wstep, hcg, hb]; cases w.takenFull <;> rfl
      have hcs : (wstep w .consumerFinish).cons = consume w.cons u := by simp [wstep, hcg, hb, hu]
      refine ⟨by rw [wstep_t]; exact ti', by rw [hfs, hck]; exact clk, ?_, ?_, ?_, ?_, ?_, ?_, ?_, ?_, ?_, ?_, ?_, ?_⟩
      · intro p hp; rw [hsv] at hp; rw [hfs]; exact servedLe p hp
      · intro a ha; rw [hsf] at ha; rw [hfs]; exact slotLe a ha
      · intro a ha; rw [htf] at ha; simp at ha
      · intro a ha
        rw [hpf] at ha; rw [hfs]
        cases htk : w.takenFull with
        | none => rw [htk] at ha; exact pubLe a ha
        | some b => rw [htk] at ha; simp at ha; subst ha; exact takenLe _ htk
      · intro a b ha hb'; rw [htf] at hb'; simp at hb'
      · intro a b ha hb'
        rw [hpf] at ha; rw [hsf] at hb'
        cases htk : w.takenFull with
        | none => rw [htk] at ha; exact ordPS a b ha hb'
        | some c => rw [htk] at ha; simp at ha; subst ha; exact ordTS _ b htk hb'
      · intro a b ha hb'; rw [htf] at ha; simp at ha
      · intro id hid; rw [hfl] at hid; rw [hsv, hsf]; exact slotIds id hid
      · intro id hid; rw [hfl] at hid; simp at hid
      · intro id hid
        rw [hfl] at hid
        simp only [List.mem_append] at hid
        rw [hsv, hpf]
        rcases hid with h1 | h1
        · obtain ⟨tF, tP, a1, a2, a3⟩ := okIds id h1
          cases htk : w.takenFull with
          | none => exact ⟨tF, tP, a1, by simpa using a2, a3⟩
          | some c => exact ⟨tF, c, a1, rfl, by have := ordPT tP c a2 htk; omega⟩
        · obtain ⟨tF, tS, a1, a2, a3⟩ := applIds id h1
          exact ⟨tF, tS, a1, by rw [a2], a3⟩
      · intro hb'; rw [hfl] at hb'; simp at hb'
      · rw [hcs, hfl, consume_answers_every_reply, consAns, happ]
    · have hst : RefreshFlow.step w.t.flow .consumerFinish = w.t.flow := by
        simp only [RefreshFlow.step]
        split
        · rfl
        · rename_i hc; simp at hc hen; simp [hc] at hen
      have : wstep w .consumerFinish = w := by simp only [wstep, tstep, hen, hst]; rfl
      rw [this]; exact h

/-! The stamps: the ghost fields `slotFull` / `takenFull` / `publishedFull` ARE the `stamp` of the full metadata in the
slot / in the update being applied / last published by `consume` - provided the `fetchOk` events are `WellStamped`. -/

private theorem fullStamp_mergeMetadata (slot : Option Update) (m : Meta) (p : Option Nat) :
    fullStamp (mergeMetadata slot m p) = some m.stamp := by
  rcases slot with _ | ⟨_ | ⟨m', rs⟩ | pp, hints⟩ <;> cases p <;> simp [mergeMetadata, slotMut, fullStamp]

private theorem fullStamp_apply_nonmeta (slot : Option Update) (op : Op) (h : carriesMetadata op = false) :
    fullStamp (MetaUpdate.apply slot (stripRefresh op)) = fullStamp slot := by
  cases op with
  | metadata m r => simp [carriesMetadata] at h
  | clientRoutes u =>
    rcases slot with _ | ⟨_ | ⟨m', rs⟩ | pp, hints⟩
    · simp [stripRefresh, MetaUpdate.apply, mergeClientRoutes, slotMut, fullStamp]
    · simp [stripRefresh, MetaUpdate.apply, mergeClientRoutes, slotMut, fullStamp]
    · rcases m' with ⟨pe, st, _ | routes⟩ <;> simp [stripRefresh, MetaUpdate.apply, mergeClientRoutes, slotMut, fullStamp]
    · simp [stripRefresh, MetaUpdate.apply, mergeClientRoutes, slotMut, fullStamp]
  | topology t =>
    rcases slot with _ | ⟨_ | ⟨m', rs⟩ | pp, hints⟩ <;>
      simp [stripRefresh, MetaUpdate.apply, mergeTopology, slotMut, fullStamp]
  | hint a up =>
    rcases slot with _ | ⟨_ | ⟨m', rs⟩ | pp, hints⟩ <;>
      simp [stripRefresh, MetaUpdate.apply, mergeHint, slotMut, fullStamp]

/-- `consume` takes the published state's identity from the very metadata it builds the state from. -/
theorem consume_stamp_from_update (c : Consumer) (u : Update) :
    (consume c u).publishedStamp =
      (match fullStamp (some u) with | some a => some a | none => c.publishedStamp) ∧
    (∀ m rs, u.changes = some (.full m rs) →
      (consume c u).published = m.peers ∧ (consume c u).publishedStamp = some m.stamp) := by
  rcases u with ⟨_ | ⟨⟨pe, st, _ | r⟩, rs⟩ | ⟨_ | cr, _ | pp⟩, hints⟩ <;> cases hsub : c.hasSubscriber <;>
    simp [consume, handleClientRoutes, fullStamp, hsub]

private structure SInv (w : Whole) : Prop where
  stampSlot : w.t.flow.consumerGone = false → fullStamp w.t.flow.slot = w.slotFull
  stampTaken : w.t.flow.busy = true → ∀ u, w.taken = some u → fullStamp (some u) = w.takenFull
  stampPub : w.cons.publishedStamp = w.publishedFull

private theorem stopProducer_more (f : Flow) :
    (stopProducer f).consumerGone = f.consumerGone ∧ (stopProducer f).busy = f.busy ∧
    (f.consumerGone = false → (stopProducer f).slot = f.slot) := by
  unfold stopProducer
  simp only []
  split
  · rename_i h
    refine ⟨rfl, rfl, fun hc => ?_⟩
    rw [hc] at h; simp at h
  · exact ⟨rfl, rfl, fun _ => rfl⟩

private theorem sinv_step (w : Whole) (e : Ev) (h : SInv w) (hw : WInv w)
    (hst : match e with | .fetchOk m => m.stamp = w.t.fetchStart | _ => True) : SInv (wstep w e) := by
  obtain ⟨stampSlot, stampTaken, stampPub⟩ := h
  obtain ⟨sp1, sp2, sp3⟩ := stopProducer_more w.t.flow
  cases e with
  | request =>
    refine ⟨?_, ?_, ?_⟩
    · intro hc
      have h1 : w.t.flow.consumerGone = false := by
        simp only [wstep, tstep, RefreshFlow.step] at hc; split at hc <;> exact hc
      have := stampSlot h1
      simp only [wstep, tstep, RefreshFlow.step]; split <;> exact this
    · intro hb u hu
      have h1 : w.t.flow.busy = true := by
        simp only [wstep, tstep, RefreshFlow.step] at hb; split at hb <;> exact hb
      exact stampTaken h1 u (by simpa [wstep] using hu)
    · simpa [wstep] using stampPub
  | recvRequest =>
    have hfl : (wstep w .recvRequest).t.flow.consumerGone = w.t.flow.consumerGone ∧
        (wstep w .recvRequest).t.flow.slot = w.t.flow.slot ∧ (wstep w .recvRequest).t.flow.busy = w.t.flow.busy := by
      rw [wstep_t]
      simp only [tstep]
      have : ∀ f : Flow, (RefreshFlow.step f .recvRequest).consumerGone = f.consumerGone ∧
          (RefreshFlow.step f .recvRequest).slot = f.slot ∧ (RefreshFlow.step f .recvRequest).busy = f.busy := by
        intro f; simp only [RefreshFlow.step]; split <;> (try split) <;> simp
      split <;> exact this _
    refine ⟨?_, ?_, ?_⟩
    · intro hc; rw [hfl.1] at hc; rw [hfl.2.1]; simpa [wstep] using stampSlot hc
    · intro hb u hu; rw [hfl.2.2] at hb; simpa [wstep] using stampTaken hb u (by simpa [wstep] using hu)
    · simpa [wstep] using stampPub
  | periodicFetch =>
    have hfl : (wstep w .periodicFetch).t.flow.consumerGone = w.t.flow.consumerGone ∧
        (wstep w .periodicFetch).t.flow.slot = w.t.flow.slot ∧ (wstep w .periodicFetch).t.flow.busy = w.t.flow.busy := by
      rw [wstep_t]
      simp only [tstep]
      have : ∀ f : Flow, (RefreshFlow.step f .periodicFetch).consumerGone = f.consumerGone ∧
          (RefreshFlow.step f .periodicFetch).slot = f.slot ∧ (RefreshFlow.step f .periodicFetch).busy = f.busy := by
        intro f; simp only [RefreshFlow.step]; split <;> simp
      split <;> exact this _
    refine ⟨?_, ?_, ?_⟩
    · intro hc; rw [hfl.1] at hc; rw [hfl.2.1]; simpa [wstep] using stampSlot hc
    · intro hb u hu; rw [hfl.2.2] at hb; simpa [wstep] using stampTaken hb u (by simpa [wstep] using hu)
    · simpa [wstep] using stampPub
  | fetchErrNoCc =>
    have hfl : (wstep w .fetchErrNoCc).t.flow.consumerGone = w.t.flow.consumerGone ∧
        (wstep w .fetchErrNoCc).t.flow.slot = w.t.flow.slot ∧ (wstep w .fetchErrNoCc).t.flow.busy = w.t.flow.busy := by
      rw [wstep_t]
      simp only [tstep]
      have : ∀ f : Flow, (RefreshFlow.step f .fetchErrNoCc).consumerGone = f.consumerGone ∧
          (RefreshFlow.step f .fetchErrNoCc).slot = f.slot ∧ (RefreshFlow.step f .fetchErrNoCc).busy = f.busy := by
        intro f; simp only [RefreshFlow.step]; split <;> simp
      split <;> exact this _
    refine ⟨?_, ?_, ?_⟩
    · intro hc; rw [hfl.1] at hc; rw [hfl.2.1]; simpa [wstep] using stampSlot hc
    · intro hb u hu; rw [hfl.2.2] at hb; simpa [wstep] using stampTaken hb u (by simpa [wstep] using hu)
    · simpa [wstep] using stampPub
  | fetchErrOnCc =>
    have : wstep w .fetchErrOnCc = w := by simp only [wstep, tstep, RefreshFlow.step]
    rw [this]; exact ⟨stampSlot, stampTaken, stampPub⟩
  | merge op =>
    have hfl : (wstep w (.merge op)).t.flow = RefreshFlow.step w.t.flow (.merge op) := by rw [wstep_t]; simp [tstep]
    by_cases h1 : (w.t.flow.producerGone || carriesMetadata op) = true
    · have hs : RefreshFlow.step w.t.flow (.merge op) = w.t.flow := by simp [RefreshFlow.step, h1]
      rw [hs] at hfl
      exact ⟨fun hc => by rw [hfl] at hc ⊢; simpa [wstep] using stampSlot hc,
        fun hb u hu => by rw [hfl] at hb; simpa [wstep] using stampTaken hb u (by simpa [wstep] using hu),
        by simpa [wstep] using stampPub⟩
    · have hm : carriesMetadata op = false := by
        cases hcm : carriesMetadata op with
        | false => rfl
        | true => simp [hcm] at h1
      cases h2 : w.t.flow.consumerGone with
      | true =>
        have hs : RefreshFlow.step w.t.flow (.merge op) = stopProducer w.t.flow := by
          simp [RefreshFlow.step, h1, h2]
        rw [hs] at hfl
        refine ⟨?_, ?_, by simpa [wstep] using stampPub⟩
        · intro hc; rw [hfl, sp1, h2] at hc; simp at hc
        · intro hb u hu
          rw [hfl, sp2] at hb
          simpa [wstep] using stampTaken hb u (by simpa [wstep] using hu)
      | false =>
        have hs : RefreshFlow.step w.t.flow (.merge op) =
            { w.t.flow with slot := MetaUpdate.apply w.t.flow.slot (stripRefresh op) } := by
          simp [RefreshFlow.step, h1, h2]
        rw [hs] at hfl
        refine ⟨?_, ?_, by simpa [wstep] using stampPub⟩
        · intro _
          rw [hfl]
          simp only [fullStamp_apply_nonmeta _ _ hm]
          simpa [wstep] using stampSlot h2
        · intro hb u hu
          rw [hfl] at hb
          simpa [wstep] using stampTaken hb u (by simpa [wstep] using hu)
  | mergeEstab op =>
    have hfl : (wstep w (.mergeEstab op)).t.flow = RefreshFlow.step w.t.flow (.mergeEstab op) := by
      rw [wstep_t]; simp [tstep]
    by_cases h1 : (w.t.flow.producerGone || w.t.flow.consumerGone || carriesMetadata op) = true
    · have hs : RefreshFlow.step w.t.flow (.mergeEstab op) = w.t.flow := by simp [RefreshFlow.step, h1]
      rw [hs] at hfl
      exact ⟨fun hc => by rw [hfl] at hc ⊢; simpa [wstep] using stampSlot hc,
        fun hb u hu => by rw [hfl] at hb; simpa [wstep] using stampTaken hb u (by simpa [wstep] using hu),
        by simpa [wstep] using stampPub⟩
    · have hm : carriesMetadata op = false := by
        cases hcm : carriesMetadata op with
        | false => rfl
        | true => simp [hcm] at h1
      have hcg : w.t.flow.consumerGone = false := by
        cases hcc : w.t.flow.consumerGone with
        | false => rfl
        | true => simp [hcc] at h1
      have hs : RefreshFlow.step w.t.flow (.mergeEstab op) =
          { w.t.flow with slot := MetaUpdate.apply w.t.flow.slot (stripRefresh op) } := by
        simp [RefreshFlow.step, h1]
      rw [hs] at hfl
      refine ⟨?_, ?_, by simpa [wstep] using stampPub⟩
      · intro _
        rw [hfl]
        simp only [fullStamp_apply_nonmeta _ _ hm]
        simpa [wstep] using stampSlot hcg
      · intro hb u hu
        rw [hfl] at hb
        simpa [wstep] using stampTaken hb u (by simpa [wstep] using hu)
  | producerGone =>
    have hfl : (wstep w .producerGone).t.flow = RefreshFlow.step w.t.flow .producerGone := by
      rw [wstep_t]; simp [tstep]
    cases h1 : w.t.flow.producerGone with
    | true =>
      have hs : RefreshFlow.step w.t.flow .producerGone = w.t.flow := by simp [RefreshFlow.step, h1]
      rw [hs] at hfl
      exact ⟨fun hc => by rw [hfl] at hc ⊢; simpa [wstep] using stampSlot hc,
        fun hb u hu => by rw [hfl] at hb; simpa [wstep] using stampTaken hb u (by simpa [wstep] using hu),
        by simpa [wstep] using stampPub⟩
    | false =>
      have hs : RefreshFlow.step w.t.flow .producerGone = stopProducer w.t.flow := by simp [RefreshFlow.step, h1]
      rw [hs] at hfl
      refine ⟨?_, ?_, by simpa [wstep] using stampPub⟩
      · intro hc
        rw [hfl, sp1] at hc
        rw [hfl, sp3 hc]
        simpa [wstep] using stampSlot hc
      · intro hb u hu
        rw [hfl, sp2] at hb
        simpa [wstep] using stampTaken hb u (by simpa [wstep] using hu)
  | consumerGone =>
    have hfl : (wstep w .consumerGone).t.flow = RefreshFlow.step w.t.flow .consumerGone := by
      rw [wstep_t]; simp [tstep]
    refine ⟨?_, ?_, ?_⟩
    · intro hc
      rw [hfl] at hc
      simp only [RefreshFlow.step] at hc
      split at hc
      · rename_i h1; rw [h1] at hc; simp at hc
      · split at hc <;> simp at hc
    · intro hb u hu
      rw [hfl] at hb
      simp only [RefreshFlow.step] at hb
      split at hb
      · exact stampTaken hb u (by simpa [wstep] using hu) |> fun x => by simpa [wstep] using x
      · split at hb <;> simp at hb
    · simpa [wstep] using stampPub
  | fetchOk m =>
    by_cases hen : (!w.t.flow.producerGone && w.t.flow.fetching) = true
    · have hen' := hen
      simp only [Bool.and_eq_true, Bool.not_eq_true'] at hen'
      obtain ⟨hpg, hf⟩ := hen'
      cases hcg : w.t.flow.consumerGone with
      | false =>
        have hfl : (wstep w (.fetchOk m)).t.flow =
            { w.t.flow with slot := mergeMetadata w.t.flow.slot m w.t.flow.pending, pending := none, fetching := false } := by
          simp [wstep, tstep, RefreshFlow.step, hpg, hf, hcg]
        refine ⟨?_, ?_, ?_⟩
        · intro _
          rw [hfl]
          simp only [fullStamp_mergeMetadata]
          simp only [] at hst
          simp [wstep, hpg, hf, hcg, hst]
        · intro hb u hu
          rw [hfl] at hb
          have := stampTaken hb u (by simpa [wstep, hpg, hf, hcg] using hu)
          simpa [wstep, hpg, hf, hcg] using this
        · simpa [wstep, hpg, hf, hcg] using stampPub
      | true =>
        have hfl : (wstep w (.fetchOk m)).t.flow = stopProducer w.t.flow := by
          simp [wstep, tstep, RefreshFlow.step, hpg, hf, hcg]
        refine ⟨?_, ?_, ?_⟩
        · intro hc; rw [hfl, sp1, hcg] at hc; simp at hc
        · intro hb u hu
          rw [hfl, sp2] at hb
          have := stampTaken hb u (by simpa [wstep, hpg, hf, hcg] using hu)
          simpa [wstep, hpg, hf, hcg] using this
        · simpa [wstep, hpg, hf, hcg] using stampPub
    · have hst' : RefreshFlow.step w.t.flow (.fetchOk m) = w.t.flow := by
        simp only [RefreshFlow.step]
        split
        · rfl
        · rename_i hc; simp at hc hen; simp [hc] at hen
      have hcond : (!w.t.flow.producerGone && w.t.flow.fetching && !w.t.flow.consumerGone) = false := by
        simp at hen ⊢; intro a b; simp [hen a] at b
      have : wstep w (.fetchOk m) = w := by simp only [wstep, tstep, hcond, hst']; rfl
      rw [this]; exact ⟨stampSlot, stampTaken, stampPub⟩
  | consumerTake =>
    by_cases hen : (!w.t.flow.consumerGone && !w.t.flow.busy) = true
    · have hen' := hen
      simp only [Bool.and_eq_true, Bool.not_eq_true'] at hen'
      obtain ⟨hcg, hb⟩ := hen'
      cases hs : w.t.flow.slot with
      | none =>
        have hst' : RefreshFlow.step w.t.flow .consumerTake = w.t.flow := by
          simp [RefreshFlow.step, hcg, hb, hs]
        have : wstep w .consumerTake = w := by simp only [wstep, tstep, hen, hs, hst']; rfl
        rw [this]; exact ⟨stampSlot, stampTaken, stampPub⟩
      | some u =>
        have hfl : (wstep w .consumerTake).t.flow =
            { w.t.flow with slot := none, applying := refreshIds (some u), busy := true } := by
          simp [wstep, tstep, RefreshFlow.step, hcg, hb, hs]
        have hsl := stampSlot hcg
        rw [hs] at hsl
        refine ⟨?_, ?_, ?_⟩
        · intro _; rw [hfl]; simp [wstep, hcg, hb, hs, fullStamp]
        · intro _ u' hu'
          have : u' = u := by simpa [wstep, hcg, hb, hs] using hu'.symm
          subst this
          simpa [wstep, hcg, hb, hs] using hsl
        · simpa [wstep, hcg, hb, hs] using stampPub
    · have hst' : RefreshFlow.step w.t.flow .consumerTake = w.t.flow := by
        simp only [RefreshFlow.step]
        split
        · rfl
        · rename_i hc; simp at hc hen; simp [hc] at hen
      have : wstep w .consumerTake = w := by simp only [wstep, tstep, hen, hst']; rfl
      rw [this]; exact ⟨stampSlot, stampTaken, stampPub⟩
  | consumerFinish =>
    by_cases hen : (!w.t.flow.consumerGone && w.t.flow.busy) = true
    · have hen' := hen
      simp only [Bool.and_eq_true, Bool.not_eq_true'] at hen'
      obtain ⟨hcg, hb⟩ := hen'
      obtain ⟨u, hu, _⟩ := hw.link hb
      have hfl : (wstep w .consumerFinish).t.flow =
          { w.t.flow with answeredOk := w.t.flow.answeredOk ++ w.t.flow.applying, applying := [], busy := false } := by
        simp [wstep, tstep, RefreshFlow.step, hcg, hb]
      have htk := stampTaken hb u hu
      refine ⟨?_, ?_, ?_⟩
      · intro hc
        rw [hfl]
        simpa [wstep, hcg, hb] using stampSlot hcg
      · intro hb'; rw [hfl] at hb'; simp at hb'
      · have hcs : (wstep w .consumerFinish).cons = consume w.cons u := by simp [wstep, hcg, hb, hu]
        have hpf : (wstep w .consumerFinish).publishedFull =
            (match w.takenFull with | some a => some a | none => w.publishedFull) := by
          simp [wstep, hcg, hb]; cases w.takenFull <;> rfl
        rw [hcs, hpf, (consume_stamp_from_update w.cons u).1, htk, stampPub]
    · have hst' : RefreshFlow.step w.t.flow .consumerFinish = w.t.flow := by
        simp only [RefreshFlow.step]
        split
        · rfl
        · rename_i hc; simp at hc hen; simp [hc] at hen
      have : wstep w .consumerFinish = w := by simp only [wstep, tstep, hen, hst']; rfl
      rw [this]; exact ⟨stampSlot, stampTaken, stampPub⟩

private theorem winv_run (sub : Bool) (t0 : Topo) (evs : List Ev) : WInv (wrun (winit sub t0) evs) := by
  have : ∀ (evs : List Ev) (w : Whole), WInv w → WInv (wrun w evs) := by
    intro evs
    induction evs with
    | nil => intro w h; exact h
    | cons e rest ih => intro w h; exact ih _ (winv_step w e h)
  exact this evs _ (winv_init sub t0)

/-- The composed run is the (ghost-timed) request flow with the consumer model riding on it. -/
theorem composed_run_projects (sub : Bool) (t0 : Topo) (evs : List Ev) :
    (wrun (winit sub t0) evs).t = trun tinit evs := by
  have : ∀ (evs : List Ev) (w : Whole), (wrun w evs).t = trun w.t evs := by
    intro evs
    induction evs with
    | nil => intro w; rfl
    | cons e rest ih =>
      intro w
      show (wrun (wstep w e) rest).t = trun (tstep w.t e) rest
      rw [ih, wstep_t]
  exact this evs _

private theorem sinv_init (sub : Bool) (t0 : Topo) : SInv (winit sub t0) :=
  ⟨by simp [winit, fullStamp], by simp [winit], by simp [winit, Consumer.start]⟩

private theorem winv_sinv_run : ∀ (evs : List Ev) (w : Whole), WInv w → SInv w → WellStamped w evs →
    WInv (wrun w evs) ∧ SInv (wrun w evs) := by
  intro evs
  induction evs with
  | nil => intro w h1 h2 _; exact ⟨h1, h2⟩
  | cons e rest ih =>
    intro w h1 h2 hws
    obtain ⟨hst, hrest⟩ := hws
    exact ih (wstep w e) (winv_step w e h1) (sinv_step w e h2 h1 hst) hrest

/-- Every event list can be stamped the way `WellStamped` wants it (the stamp is a ghost identity of the fetch). -/
theorem restamp_wellStamped : ∀ (evs : List Ev) (w : Whole), WellStamped w (restamp w evs) := by
  intro evs
  induction evs with
  | nil => intro w; trivial
  | cons e rest ih =>
    intro w
    cases e <;> exact ⟨by simp [restamp], ih _⟩

/-- THE TWO WORKER MODELS COMPOSED. For every interleaving of requests, producer steps, consumer steps and shutdowns
(the metadata of each fetch identified by that fetch's start time, `WellStamped`): when a refresh request has been
answered `Ok`, the state the CONSUMER MODEL has published (`cons.publishedStamp`, which `consume` copies from the very
metadata it builds `cons.published` from - `consume_stamp_from_update`) comes from a full fetch that started no earlier
than the fetch that served the request - which itself started strictly after the request was made. Partial topology
fetches merged into that metadata afterwards refine its peer list and keep its identity
(`published_follows_latest_topology`). So `Cluster::refresh_metadata` returning `Ok` means: a state at least as fresh as
a fetch begun after the call is visible. -/
theorem answered_ok_sees_fresh_published_state (sub : Bool) (t0 : Topo) (evs : List Ev) (id : Nat)
    (hws : WellStamped (winit sub t0) evs) :
    let w := wrun (winit sub t0) evs
    id ∈ w.t.flow.answeredOk →
      ∃ tIssued tFetch tPub, (id, tIssued) ∈ w.t.issued ∧ (id, tFetch) ∈ w.t.served ∧
        w.cons.publishedStamp = some tPub ∧ tIssued < tFetch ∧ tFetch ≤ tPub := by
  intro w hid
  obtain ⟨inv, sinv⟩ := winv_sinv_run evs _ (winv_init sub t0) (sinv_init sub t0) hws
  have inv' : WInv w := inv
  have sinv' : SInv w := sinv
  clear_value w
  obtain ⟨tF, tP, h1, h2, h3⟩ := inv'.okIds id hid
  obtain ⟨tI, htI⟩ := inv'.ti.all id (inv'.ti.servedIds _ h1)
  exact ⟨tI, tF, tP, htI, h1, by rw [sinv'.stampPub]; exact h2, inv'.ti.servedAfter _ h1 tI htI, h3⟩

/-- In the composed run the consumer model answers exactly the requests the flow model counts as answered `Ok`. -/
theorem composed_models_agree_on_answers (sub : Bool) (t0 : Topo) (evs : List Ev) :
    (wrun (winit sub t0) evs).cons.answered = (wrun (winit sub t0) evs).t.flow.answeredOk :=
  (winv_run sub t0 evs).consAns

-- non-vacuity: request 0 starts fetch A (start time 1); request 1, made while A is in flight, is served by fetch B
-- (start time 3). When request 0 is answered the published state comes from A (1); when request 1 is, from B (3).
example :
    let w := wrun (winit false 0) [.request, .recvRequest, .request, .fetchOk { peers := 7, stamp := 1 }, .consumerTake,
      .consumerFinish]
    w.t.flow.answeredOk = [0] ∧ w.cons.publishedStamp = some 1 ∧ w.cons.published = 7 ∧
      w.t.issued = [(0, 0), (1, 2)] := by decide
example :
    let evs := restamp (winit false 0) [.request, .recvRequest, .request, .fetchOk { peers := 7 }, .recvRequest,
      .fetchOk { peers := 8 }, .merge (.topology 9), .consumerTake, .consumerFinish]
    let w := wrun (winit false 0) evs
    w.t.flow.answeredOk = [0, 1] ∧ w.cons.publishedStamp = some 3 ∧ w.cons.published = 9 ∧
      w.t.served = [(0, 1), (1, 3)] := by decide
-- the auditor's witness is no longer a run of the system: a `merge` cannot smuggle full metadata into the slot
example :
    let w := wrun (winit false 0) (restamp (winit false 0) [.request, .recvRequest, .fetchOk { peers := 7 },
      .merge (.metadata { peers := 99 } none), .consumerTake, .consumerFinish])
    w.t.flow.answeredOk = [0] ∧ w.cons.publishedStamp = some 1 ∧ w.cons.published = 7 := by decide

end Composed

/-! ### the wait on the connection pools inside `apply_metadata_update` terminates -/
section Pools
open ScyllaVerif.C19PoolInit ScyllaVerif.MetaUpdate ScyllaVerif.ClusterConsumer

private structure PInv (p : Pool) : Prop where
  init : p.shared = .initializing → p.conns = 0 ∧ (p.started = false ∨ p.inFlight > 0)
  created : ∀ e, p.waiter = .created e → e ≤ p.epoch
  awaiting : ∀ e, p.waiter = .awaiting e → (p.shared = .initializing ∧ e ≤ p.epoch) ∨ e < p.epoch

private theorem pinv_updateShared (p : Pool) (hc : ∀ e, p.waiter = .created e → e ≤ p.epoch)
    (ha : ∀ e, p.waiter = .awaiting e → e ≤ p.epoch) : PInv (updateShared p) := by
  refine ⟨?_, ?_, ?_⟩
  · intro hs; simp [updateShared] at hs; split at hs <;> simp at hs
  · intro e he; simp [updateShared] at he ⊢; have := hc e he; omega
  · intro e he; simp [updateShared] at he ⊢; right; have := ha e he; omega

private theorem awaiting_le (p : Pool) (h : PInv p) (e : Nat) (he : p.waiter = .awaiting e) : e ≤ p.epoch := by
  rcases h.awaiting e he with ⟨_, h1⟩ | h1 <;> omega

private theorem pinv_step (p : Pool) (ev : C19PoolInit.Ev) (h : PInv p) : PInv (C19PoolInit.step p ev) := by
  have hc := h.created
  have ha := awaiting_le p h
  cases ev with
  | startFilling k =>
    simp only [C19PoolInit.step]
    split
    · exact h
    · split
      · exact ⟨by intro _; simp_all [h.init], by simpa using hc, by simpa using h.awaiting⟩
      · rename_i h1 h2
        refine ⟨?_, by simpa using hc, by simpa using h.awaiting⟩
        intro hs
        have := (h.init hs).1
        exact absurd this h2
  | connFail =>
    simp only [C19PoolInit.step]
    split
    · exact h
    · unfold reportIfDrained
      split
      · exact pinv_updateShared _ (by simpa using hc) (by simpa using ha)
      · rename_i h1 h2
        refine ⟨?_, by simpa using hc, by simpa using h.awaiting⟩
        intro hs
        have := h.init hs
        simp only [] at hs h2 ⊢
        refine ⟨this.1, ?_⟩
        rcases this.2 with h3 | h3
        · exact Or.inl h3
        · right
          simp only [not_and] at h2
          have : ¬ (p.inFlight - 1 = 0) := fun hz => h2 hz this.1
          omega
  | shardPortFail => exact h
  | connOkNeedsKeyspace => exact h
  | keyspaceFail =>
    simp only [C19PoolInit.step]
    split
    · exact h
    · unfold reportIfDrained
      split
      · exact pinv_updateShared _ (by simpa using hc) (by simpa using ha)
      · rename_i h1 h2
        refine ⟨?_, by simpa using hc, by simpa using h.awaiting⟩
        intro hs
        have := h.init hs
        simp only [] at hs h2 ⊢
        refine ⟨this.1, ?_⟩
        rcases this.2 with h3 | h3
        · exact Or.inl h3
        · right
          simp only [not_and] at h2
          have : ¬ (p.inFlight - 1 = 0) := fun hz => h2 hz this.1
          omega
  | connOkAccept =>
    simp only [C19PoolInit.step]
    split
    · exact h
    · exact pinv_updateShared _ (by simpa using hc) (by simpa using ha)
  | connOkExcess =>
    simp only [C19PoolInit.step]
    split
    · exact h
    · rename_i h1
      refine ⟨?_, by simpa using hc, by simpa using h.awaiting⟩
      intro hs
      have := (h.init hs).1
      simp only [not_or] at h1
      exact absurd this h1.2
  | connDies =>
    simp only [C19PoolInit.step]
    split
    · exact h
    · exact pinv_updateShared _ (by simpa using hc) (by simpa using ha)
  | waitCall =>
    simp only [C19PoolInit.step]
    split
    · exact ⟨by simpa using h.init, by intro e he; simp at he; subst he; simp, by intro e he; simp at he⟩
    · exact h
  | waitLoad =>
    simp only [C19PoolInit.step]
    split
    · rename_i e he
      split
      · rename_i hs
        exact ⟨by simpa using h.init, by intro e' he'; simp at he', by intro e' he'; simp at he'; subst he'; exact Or.inl ⟨hs, hc e he⟩⟩
      · exact ⟨by simpa using h.init, by intro e' he'; simp at he', by intro e' he'; simp at he'⟩
    · exact h
  | waitPoll =>
    simp only [C19PoolInit.step]
    split
    · split
      · exact ⟨by simpa using h.init, by intro e' he'; simp at he', by intro e' he'; simp at he'⟩
      · exact h
    · exact h

private theorem pinv_run (evs : List C19PoolInit.Ev) : PInv (C19PoolInit.run {} evs) := by
  have : ∀ (evs : List C19PoolInit.Ev) (p : Pool), PInv p → PInv (C19PoolInit.run p evs) := by
    intro evs
    induction evs with
    | nil => intro p h; exact h
    | cons e rest ih => intro p h; exact ih _ (pinv_step p e h)
  exact this evs {} ⟨by simp, by simp, by simp⟩

/-- Every pool leaves `Initializing` once its first fill has nothing left in flight, WHATEVER the outcome of the
attempts: for every history of refiller events (attempt fails on the regular port, fails on the shard-aware port and is
retried, succeeds, succeeds after setting the keyspace, the keyspace cannot be set, a connection dies, refills)
interleaved with a `wait_until_initialized` call - in every reachable state in which the refiller has started and no
attempt / keyspace setting is under way, the published pool state is `Ready` or `Broken`, never `Initializing`. -/
theorem pool_leaves_initializing (evs : List C19PoolInit.Ev) :
    let p := C19PoolInit.run {} evs
    p.started = true → p.inFlight = 0 → p.shared ≠ .initializing := by
  intro p hs hf hi
  have inv : PInv p := pinv_run evs
  clear_value p
  rcases (inv.init hi).2 with h | h
  · rw [hs] at h; exact absurd h (by simp)
  · omega

/-- In particular the FIRST attempt of a brand-new pool decides: refused / handshake failure → `Broken`; accepted →
`Ready`; keyspace cannot be set → `Broken` (with any number of shard-port retries / keyspace detours in between). -/
theorem first_attempt_decides (k : Nat) (detours : List C19PoolInit.Ev)
    (hd : ∀ e ∈ detours, e = .shardPortFail ∨ e = .connOkNeedsKeyspace) (last : C19PoolInit.Ev)
    (hl : last = .connFail ∨ last = .keyspaceFail ∨ last = .connOkAccept) :
    let p := C19PoolInit.run {} (.startFilling k :: detours ++ [last])
    p.shared ≠ .initializing ∧ p.epoch = 1 ∧
      (p.shared = .ready ↔ last = .connOkAccept) := by
  have hdet : ∀ (detours : List C19PoolInit.Ev), (∀ e ∈ detours, e = .shardPortFail ∨ e = .connOkNeedsKeyspace) →
      ∀ p : Pool, C19PoolInit.run p detours = p := by
    intro detours
    induction detours with
    | nil => intro _ p; rfl
    | cons e rest ih =>
      intro h p
      have he := h e (List.mem_cons_self)
      have : C19PoolInit.step p e = p := by rcases he with rfl | rfl <;> rfl
      show C19PoolInit.run (C19PoolInit.step p e) rest = p
      rw [this]; exact ih (fun e' he' => h e' (List.mem_cons_of_mem _ he')) p
  have hrun : C19PoolInit.run {} (.startFilling k :: detours ++ [last]) =
      C19PoolInit.step (C19PoolInit.step {} (.startFilling k)) last := by
    show C19PoolInit.run (C19PoolInit.step {} (.startFilling k)) (detours ++ [last]) = _
    simp only [C19PoolInit.run, List.foldl_append]
    have := hdet detours hd (C19PoolInit.step {} (.startFilling k))
    simp only [C19PoolInit.run] at this
    rw [this]; rfl
  simp only []
  rw [hrun]
  rcases hl with rfl | rfl | rfl <;> simp [C19PoolInit.step, reportIfDrained, updateShared]

/-- No lost wake-up for `wait_until_initialized`: in every reachable state, a call that is under way and whose pool is
no longer `Initializing` can complete (it either has not loaded the state yet, or it was registered before the
`notify_waiters()` that accompanied the change). -/
theorem pool_waiter_never_stuck (evs : List C19PoolInit.Ev) :
    let p := C19PoolInit.run {} evs
    p.waiter ≠ .idle → p.shared ≠ .initializing → waiterCanFinish p = true := by
  intro p hw hs
  have inv : PInv p := pinv_run evs
  clear_value p
  cases hwt : p.waiter with
  | idle => exact absurd hwt hw
  | done => simp [waiterCanFinish, hwt]
  | created e => simp [waiterCanFinish, hwt, hs]
  | awaiting e =>
    rcases inv.awaiting e hwt with ⟨h1, _⟩ | h1
    · exact absurd h1 hs
    · simp [waiterCanFinish, hwt, h1]

/-- ... and then two steps of it (load, poll) complete it. -/
theorem pool_wait_terminates (evs : List C19PoolInit.Ev) :
    let p := C19PoolInit.run {} evs
    p.started = true → p.inFlight = 0 → p.waiter ≠ .idle →
      (C19PoolInit.run p [.waitLoad, .waitPoll]).waiter = .done := by
  intro p hs hf hw
  have hsh := pool_leaves_initializing evs hs hf
  have hcan := pool_waiter_never_stuck evs hw hsh
  have hsh' : p.shared ≠ .initializing := hsh
  have hcan' : waiterCanFinish p = true := hcan
  clear_value p
  cases hwt : p.waiter with
  | idle => exact absurd hwt hw
  | done => simp [C19PoolInit.run, C19PoolInit.step, hwt]
  | created e => simp [C19PoolInit.run, C19PoolInit.step, hwt, hsh']
  | awaiting e =>
    have : p.epoch > e := by simpa [waiterCanFinish, hwt] using hcan'
    simp [C19PoolInit.run, C19PoolInit.step, hwt, this]

/-- Hence `apply_metadata_update` is never parked for good at `wait_until_all_pools_are_initialized`: once the first
fill of every pool of the new state has nothing left in flight - reachable or not, refused or not - the update is
published and every reply channel answered, exactly as `consume` says. -/
theorem consume_not_parked_on_pools (c : Consumer) (u : Update) (histories : List (List C19PoolInit.Ev))
    (h : ∀ evs ∈ histories, (C19PoolInit.run {} evs).started = true ∧ (C19PoolInit.run {} evs).inFlight = 0) :
    consumeWaiting c u (histories.map (C19PoolInit.run {})) = some (consume c u) := by
  have hall : poolsInitialized (histories.map (C19PoolInit.run {})) = true := by
    simp only [poolsInitialized, List.all_map, List.all_eq_true]
    intro evs hevs
    have := pool_leaves_initializing evs (h evs hevs).1 (h evs hevs).2
    simpa using this
  unfold consumeWaiting
  cases peersTag (some u) <;> simp [hall]

/-- Which pools the next state waits for (`ClusterConsumer.poolsFor`): if every pool kept from the previous state has
left `Initializing` and every brand-new pool's first fill has concluded, then no pool of the new state is `Initializing` -
for every topology, filter mode and previous pool set. (A kept pool never goes back to `Initializing`:
`pool_leaves_initializing` holds for every later history of it.) -/
theorem pools_of_next_state_initialized (filter : Nat) (old : List (Nat × Nat × Nat × C19PoolInit.Pool))
    (fresh : Nat → C19PoolInit.Pool) (t : Topo)
    (hold : ∀ p ∈ old, p.2.2.2.shared ≠ .initializing) (hfresh : ∀ a, (fresh a).shared ≠ .initializing) :
    poolsInitialized ((ClusterConsumer.poolsFor filter old fresh t).map fun p => p.2.2.2) = true := by
  simp only [poolsInitialized, List.all_map, List.all_eq_true]
  intro p hp
  simp only [ClusterConsumer.poolsFor, List.mem_filterMap] at hp
  obtain ⟨n, _, hn⟩ := hp
  split at hn
  · split at hn
    · rename_i h d r pool hfind
      have hmem := List.mem_of_find?_eq_some hfind
      split at hn
      · simp at hn; subst hn; simpa using hold _ hmem
      · simp at hn; subst hn; simpa using hfresh n.addr
    · simp at hn; subst hn; simpa using hfresh n.addr
  · simp at hn

-- non-vacuity: a brand-new pool whose first attempt is refused (the shape of the seeded pool defect): Broken, and the
-- waiter that parked before the refusal is released; a pool still connecting parks the handler.
example :
    let p := C19PoolInit.run {} [.waitCall, .startFilling 3, .waitLoad, .connFail]
    p.shared = .broken ∧ p.waiter = .awaiting 0 ∧ waiterCanFinish p = true ∧
      (C19PoolInit.run p [.waitPoll]).waiter = .done := by decide
example :
    consumeWaiting { hasSubscriber := false, published := 0 } { changes := some (.part { peers := some 5 }) }
      [C19PoolInit.run {} [.startFilling 1]] = none ∧
    (consumeWaiting { hasSubscriber := false, published := 0 } { changes := some (.part { peers := some 5 }) }
      [C19PoolInit.run {} [.startFilling 1, .connFail]]).map (·.published) = some 5 := by decide

end Pools

/-! ### which fetch a server event schedules; full and partial fetches never overlap -/
section Scheduling
open ScyllaVerif.C19FetchPlan

private def isFullEntry (e : Kind × Nat × Nat) : Bool := e.1 == .full

private structure FInv (s : Sched) : Prop where
  done : ∀ e ∈ s.merged, e.2.2 < s.clock
  lfs : s.lastFullStart < s.clock
  pair : ∀ p ∈ s.merged, ∀ f ∈ s.merged, isFullEntry p = false → isFullEntry f = true → p.2.2 < f.2.1 ∨ f.2.2 < p.2.1
  q1 : ∀ F, s.pending = .full F → F < s.clock ∧ ∀ p ∈ s.merged, isFullEntry p = false → p.2.2 < F
  q2 : ∀ cr topo, s.pending = .part cr topo →
        (∀ t, (topo = some t ∨ cr = some t) → t < s.clock ∧ ∀ f ∈ s.merged, isFullEntry f = true → f.2.2 < t)

private theorem finv_init : FInv {} := ⟨by simp, by simp, by simp, by simp, by simp⟩

private theorem finv_handle (s : Sched) (e : SrvEvent) (h : FInv s) : FInv (handleServerEvent s e) := by
  obtain ⟨d, l, p, q1, q2⟩ := h
  cases e <;> exact ⟨by simpa [handleServerEvent] using d, by simpa [handleServerEvent] using l,
    by simpa [handleServerEvent] using p, by simpa [handleServerEvent] using q1, by simpa [handleServerEvent] using q2⟩

private theorem finv_startDue (s : Sched) (h : FInv s) : FInv (startDue s) := by
  obtain ⟨d, l, p, q1, q2⟩ := h
  unfold startDue
  split
  · -- a full fetch starts
    refine ⟨?_, by simp, by simpa using p, ?_, by simp⟩
    · intro e he; have := d e he; simp at he ⊢; omega
    · intro F hF
      simp at hF
      subst hF
      exact ⟨by simp, fun pp hp _ => d pp hp⟩
  · split
    · rename_i cr topo ownCr ownTopo hpend hplan
      have hq := q2 cr topo hpend
      have old : ∀ t, (topo = some t ∨ cr = some t) → ∀ c', s.clock ≤ c' →
          t < c' ∧ ∀ f ∈ s.merged, isFullEntry f = true → f.2.2 < t := by
        intro t ht c' hc'
        have := hq t ht
        exact ⟨by omega, this.2⟩
      have fresh : ∀ t c', s.clock ≤ t → t < c' → t < c' ∧ ∀ f ∈ s.merged, isFullEntry f = true → f.2.2 < t := by
        intro t c' h1 h2
        exact ⟨h2, fun f hf _ => by have := d f hf; omega⟩
      by_cases h1 : (cr.isNone && ownCr) = true <;> by_cases h2 : (topo.isNone && ownTopo) = true
      · simp only [h1, h2, if_true]
        refine ⟨fun e he => by have := d e he; simp at he ⊢; omega, by simp; omega, by simpa using p, by simp, ?_⟩
        intro cr' topo' hp' t ht
        simp at hp'
        obtain ⟨hc, ht'⟩ := hp'
        subst hc; subst ht'
        simp only [Option.some.injEq] at ht
        show _ < _ ∧ _
        rcases ht with ht | ht
        · subst ht; refine fresh _ _ ?_ ?_ <;> ((try dsimp only) <;> omega)
        · subst ht; refine fresh _ _ ?_ ?_ <;> ((try dsimp only) <;> omega)
      · simp only [h1, h2, if_true, if_false, Bool.false_eq_true]
        refine ⟨fun e he => by have := d e he; simp at he ⊢; omega, by simp; omega, by simpa using p, by simp, ?_⟩
        intro cr' topo' hp' t ht
        simp at hp'
        obtain ⟨hc, ht'⟩ := hp'
        subst hc; subst ht'
        simp only [Option.some.injEq] at ht
        show _ < _ ∧ _
        rcases ht with ht | ht
        · refine old t (Or.inl ht) _ ?_; (try dsimp only) <;> omega
        · subst ht; refine fresh _ _ ?_ ?_ <;> ((try dsimp only) <;> omega)
      · simp only [h1, h2, if_true, if_false, Bool.false_eq_true]
        refine ⟨fun e he => by have := d e he; simp at he ⊢; omega, by simp; omega, by simpa using p, by simp, ?_⟩
        intro cr' topo' hp' t ht
        simp at hp'
        obtain ⟨hc, ht'⟩ := hp'
        subst hc; subst ht'
        simp only [Option.some.injEq] at ht
        show _ < _ ∧ _
        rcases ht with ht | ht
        · subst ht; refine fresh _ _ ?_ ?_ <;> ((try dsimp only) <;> omega)
        · refine old t (Or.inr ht) _ ?_; (try dsimp only) <;> omega
      · simp only [h1, h2, if_false, Bool.false_eq_true]
        refine ⟨fun e he => by simpa using d e he, by simpa using l, by simpa using p, by simp, ?_⟩
        intro cr' topo' hp' t ht
        simp at hp'
        obtain ⟨hc, ht'⟩ := hp'
        subst hc; subst ht'
        simpa using old t ht _ (Nat.le_refl _)
    · exact ⟨d, l, p, q1, q2⟩

private theorem finv_step (s : Sched) (e : C19FetchPlan.Ev) (h : FInv s) : FInv (C19FetchPlan.step s e) := by
  have h0 := h
  obtain ⟨d, l, p, q1, q2⟩ := h
  cases e with
  | serverEvent ev => simp only [C19FetchPlan.step]; split; exact h0; exact finv_handle s ev h0
  | refreshRequest =>
    simp only [C19FetchPlan.step]; split
    · exact h0
    · exact ⟨by simpa using d, by simpa using l, by simpa using p, by simpa using q1, by simpa using q2⟩
  | deadline =>
    simp only [C19FetchPlan.step]; split
    · exact h0
    · exact ⟨by simpa using d, by simpa using l, by simpa using p, by simpa using q1, by simpa using q2⟩
  | startDue => simp only [C19FetchPlan.step]; split; exact h0; exact finv_startDue s h0
  | fullDone ok =>
    simp only [C19FetchPlan.step]; split
    · exact h0
    · split
      · rename_i t hp
        obtain ⟨ht, hq⟩ := q1 t hp
        split
        · refine ⟨?_, by simp; omega, ?_, by simp, by simp⟩
          · intro e he
            simp only [List.mem_append, List.mem_singleton] at he
            rcases he with he | rfl
            · have := d e he; simp; omega
            · simp
          · intro pp hpp f hf hnp hff
            simp only [List.mem_append, List.mem_singleton] at hpp hf
            rcases hpp with hpp | rfl <;> rcases hf with hf | rfl
            · exact p pp hpp f hf hnp hff
            · exact Or.inl (hq pp hpp hnp)
            · simp [isFullEntry] at hnp
            · simp [isFullEntry] at hnp
        · exact ⟨by simpa using d, by simpa using l, by simpa using p, by simp, by simp⟩
      · exact h0
  | topoDone ok =>
    simp only [C19FetchPlan.step]; split
    · exact h0
    · split
      · rename_i cr t hp
        have hq := q2 cr (some t) hp
        split
        · refine ⟨?_, by simp; omega, ?_, by simp, ?_⟩
          · intro e he
            simp only [List.mem_append, List.mem_singleton] at he
            rcases he with he | rfl
            · have := d e he; simp; omega
            · simp
          · intro pp hpp f hf hnp hff
            simp only [List.mem_append, List.mem_singleton] at hpp hf
            rcases hpp with hpp | rfl <;> rcases hf with hf | rfl
            · exact p pp hpp f hf hnp hff
            · simp [isFullEntry] at hff
            · exact Or.inr ((hq t (Or.inl rfl)).2 f hf hff)
            · simp [isFullEntry] at hff
          · intro cr' topo' hp' t' ht'
            simp at hp'
            obtain ⟨hc, htt⟩ := hp'
            subst hc; subst htt
            simp only [reduceCtorEq, false_or] at ht'
            have := hq t' (Or.inr ht')
            refine ⟨by have := this.1; simp; omega, ?_⟩
            intro f hf hff
            simp only [List.mem_append, List.mem_singleton] at hf
            rcases hf with hf | rfl
            · exact this.2 f hf hff
            · simp [isFullEntry] at hff
        · refine ⟨by simpa using d, by simpa using l, by simpa using p, by simp, ?_⟩
          intro cr' topo' hp' t' ht'
          simp at hp'
          obtain ⟨hc, htt⟩ := hp'
          subst hc; subst htt
          simp only [reduceCtorEq, false_or] at ht'
          simpa using hq t' (Or.inr ht')
      · exact h0
  | routesDone ok =>
    simp only [C19FetchPlan.step]; split
    · exact h0
    · split
      · rename_i t topo hp
        have hq := q2 (some t) topo hp
        split
        · refine ⟨?_, by simp; omega, ?_, by simp, ?_⟩
          · intro e he
            simp only [List.mem_append, List.mem_singleton] at he
            rcases he with he | rfl
            · have := d e he; simp; omega
            · simp
          · intro pp hpp f hf hnp hff
            simp only [List.mem_append, List.mem_singleton] at hpp hf
            rcases hpp with hpp | rfl <;> rcases hf with hf | rfl
            · exact p pp hpp f hf hnp hff
            · simp [isFullEntry] at hff
            · exact Or.inr ((hq t (Or.inr rfl)).2 f hf hff)
            · simp [isFullEntry] at hff
          · intro cr' topo' hp' t' ht'
            simp at hp'
            obtain ⟨hc, htt⟩ := hp'
            subst hc; subst htt
            simp only [reduceCtorEq, or_false] at ht'
            have := hq t' (Or.inl ht')
            refine ⟨by have := this.1; simp; omega, ?_⟩
            intro f hf hff
            simp only [List.mem_append, List.mem_singleton] at hf
            rcases hf with hf | rfl
            · exact this.2 f hf hff
            · simp [isFullEntry] at hff
        · refine ⟨by simpa using d, by simpa using l, by simpa using p, by simp, ?_⟩
          intro cr' topo' hp' t' ht'
          simp at hp'
          obtain ⟨hc, htt⟩ := hp'
          subst hc; subst htt
          simp only [reduceCtorEq, or_false] at ht'
          simpa using hq t' (Or.inl ht')
      · exact h0

private theorem finv_run (evs : List C19FetchPlan.Ev) : FInv (C19FetchPlan.run {} evs) := by
  have : ∀ (evs : List C19FetchPlan.Ev) (s : Sched), FInv s → FInv (C19FetchPlan.run s evs) := by
    intro evs
    induction evs with
    | nil => intro s h; exact h
    | cons e rest ih => intro s h; exact ih _ (finv_step s e h)
  exact this evs {} finv_init

/-- What each server event schedules (`handle_server_event`): SCHEMA_CHANGE nothing; TOPOLOGY_CHANGE a partial topology
fetch; STATUS_CHANGE the UP / DOWN hint AND a partial topology fetch; CLIENT_ROUTES_CHANGE a partial client-routes
fetch - and none of it overrides a full fetch that is already owed. -/
theorem server_event_schedules (s : Sched) :
    handleServerEvent s .schemaChange = s ∧
    (handleServerEvent s .topologyChange).plan = s.plan.noteTopology ∧
    (∀ a, (handleServerEvent s (.statusUp a)).plan = s.plan.noteTopology ∧
          (handleServerEvent s (.statusUp a)).hints = s.hints ++ [(a, true)]) ∧
    (∀ a, (handleServerEvent s (.statusDown a)).plan = s.plan.noteTopology ∧
          (handleServerEvent s (.statusDown a)).hints = s.hints ++ [(a, false)]) ∧
    (handleServerEvent s .clientRoutesChange).plan = s.plan.noteClientRoutes ∧
    (Plan.full.noteTopology = .full ∧ Plan.full.noteClientRoutes = .full) := by
  simp [handleServerEvent, Plan.noteTopology, Plan.noteClientRoutes]

/-- For every history of server events, refresh requests, deadlines, loop iterations and fetch completions: a partial
(topology / client-routes) fetch and a full fetch whose results were BOTH published never overlapped in time - the
partial one completed before the full one started, or started after the full one completed. In particular a topology
result published after a full fetch's result is genuinely newer than it (`merge_topology_update`'s comment, update.rs
170-173), and the peer list of a topology fetch that was running when a full fetch started is never merged. -/
theorem full_and_partial_fetches_never_overlap (evs : List C19FetchPlan.Ev) (k : Kind) (ts tc fs fc : Nat)
    (hk : k ≠ .full) (hp : (k, ts, tc) ∈ (C19FetchPlan.run {} evs).merged)
    (hf : (Kind.full, fs, fc) ∈ (C19FetchPlan.run {} evs).merged) : tc < fs ∨ fc < ts := by
  have := (finv_run evs).pair (k, ts, tc) hp (.full, fs, fc) hf (by cases k <;> simp_all [isFullEntry])
    (by simp [isFullEntry])
  simpa using this

private theorem startDue_of_full_pending (x : Sched) (t : Nat) (h : x.pending = .full t) : startDue x = x := by
  unfold startDue
  simp [h, isFullPending]

/-- Starting a due full fetch drops the plan's partial work and every running partial fetch; afterwards nothing partial
starts until it completes. -/
theorem full_start_drops_partial_fetches (s : Sched) (hn : isFullPending s.pending = false)
    (hdue : s.plan = .full ∨ s.deadlinePassed = true) :
    (startDue s).pending = .full s.clock ∧ (startDue s).plan = Plan.empty ∧
      startDue (startDue s) = startDue s := by
  have hc : (!isFullPending s.pending && (s.plan == .full || s.deadlinePassed)) = true := by
    rcases hdue with h | h <;> simp [hn, h]
  have hp : (startDue s).pending = .full s.clock := by unfold startDue; rw [if_pos hc]
  have hpl : (startDue s).plan = Plan.empty := by unfold startDue; rw [if_pos hc]
  refine ⟨hp, hpl, ?_⟩
  exact startDue_of_full_pending _ _ hp

/-- A failed partial fetch schedules a full one (`note_full_needed`); a failed full fetch gives the control connection up. -/
theorem failed_fetch_consequences (s : Sched) (hg : s.gaveUp = false) :
    (∀ cr t, s.pending = .part cr (some t) → (C19FetchPlan.step s (.topoDone false)).plan = .full) ∧
    (∀ t topo, s.pending = .part (some t) topo → (C19FetchPlan.step s (.routesDone false)).plan = .full) ∧
    (∀ t, s.pending = .full t → (C19FetchPlan.step s (.fullDone false)).gaveUp = true) := by
  refine ⟨?_, ?_, ?_⟩
  · intro cr t hp; simp [C19FetchPlan.step, hg, hp, Plan.noteFull]
  · intro t topo hp; simp [C19FetchPlan.step, hg, hp, Plan.noteFull]
  · intro t hp; simp [C19FetchPlan.step, hg, hp]

-- non-vacuity: a topology fetch (started at 1) is running when a refresh request makes a full fetch due; the full fetch
-- starts (2) and the topology fetch is dropped: its completion is not an event any more, only the full result is merged;
-- a STATUS_CHANGE during the full fetch stays owed and its topology fetch starts (4) only after the full one completed (3).
example :
    let s := C19FetchPlan.run {} [.serverEvent .topologyChange, .startDue, .refreshRequest, .startDue, .topoDone true,
      .serverEvent (.statusDown 7), .startDue, .fullDone true, .startDue, .topoDone true]
    s.merged = [(.full, 2, 3), (.topology, 4, 5)] ∧ s.hints = [(7, false)] ∧ s.pending = .part none none := by decide

end Scheduling

/-! ### (re-)establishing the control connection over several candidates keeps the metadata it fetched -/
section Establish
open ScyllaVerif.C19Establish ScyllaVerif.RefreshFlow ScyllaVerif.MetaUpdate

private theorem tryOnNodes_reestablish (cands : List Outcome) (rejected : Option Nat) :
    (tryOnNodes false cands rejected).metadata = expected cands rejected ∧
    (tryOnNodes false cands rejected = .err ↔ expected cands rejected = none) := by
  induction cands generalizing rejected with
  | nil => cases rejected <;> simp [tryOnNodes, expected, Result.metadata]
  | cons c rest ih =>
    cases c with
    | connectFail => simpa [tryOnNodes, expected] using ih rejected
    | fetchFail => simpa [tryOnNodes, expected] using ih rejected
    | fetched m rej =>
      cases rej with
      | false => simp [tryOnNodes, expected, Result.metadata]
      | true => simpa [tryOnNodes, expected] using ih (some m)

private theorem expected_some_of_fetched (cands : List Outcome) (rejected : Option Nat)
    (h : anyFetched cands = true ∨ rejected.isSome = true) : (expected cands rejected).isSome = true := by
  induction cands generalizing rejected with
  | nil => rcases h with h | h <;> simp_all [anyFetched, expected]
  | cons c rest ih =>
    cases c with
    | connectFail => simp only [expected]; exact ih rejected (by simpa [anyFetched] using h)
    | fetchFail => simp only [expected]; exact ih rejected (by simpa [anyFetched] using h)
    | fetched m rej => cases rej <;> simp only [expected] <;> first | simp | exact ih (some m) (Or.inr rfl)

/-- RE-ESTABLISHMENT never loses fetched metadata: for EVERY order of the candidates and EVERY outcome of the others
(connection refused, fetch failed before or AFTER the successful one, accepted or rejected by the host filter), if some
candidate's fetch succeeded the search does not end in `Err`, and the metadata it returns is that of the first candidate
the host filter accepts, else that of the LAST rejected one. -/
theorem reestablishment_keeps_fetched_metadata (cands : List Outcome) (h : anyFetched cands = true) :
    tryOnNodes false cands none ≠ .err ∧
    (tryOnNodes false cands none).metadata = expected cands none ∧ (expected cands none).isSome = true := by
  have hs := expected_some_of_fetched cands none (Or.inl h)
  obtain ⟨hm, he⟩ := tryOnNodes_reestablish cands none
  refine ⟨fun hc => ?_, hm, hs⟩
  rw [he.mp hc] at hs; simp at hs

/-- ... the same through the fallback to the contact points: if a known peer's or, failing all of them, a contact
point's fetch succeeded, `establish_cc_and_fetch_metadata` returns metadata. -/
theorem establish_keeps_fetched_metadata (peers contacts : List Outcome)
    (h : anyFetched peers = true ∨ anyFetched contacts = true) :
    establish false peers contacts ≠ .err ∧ (establish false peers contacts).metadata.isSome = true := by
  unfold establish
  by_cases hp : anyFetched peers = true
  · obtain ⟨h1, h2, h3⟩ := reestablishment_keeps_fetched_metadata peers hp
    cases hr : tryOnNodes false peers none with
    | err => exact absurd hr h1
    | kept m => simp [Result.metadata]
    | noCc m => simp [Result.metadata]
    | dummy => rw [hr] at h2; rw [← h2] at h3; simp [Result.metadata] at h3
  · have hc : anyFetched contacts = true := by rcases h with h | h; exact absurd h hp; exact h
    obtain ⟨h1, h2, h3⟩ := reestablishment_keeps_fetched_metadata contacts hc
    cases hr : tryOnNodes false peers none with
    | err =>
      simp only [Bool.false_eq_true, if_false]
      refine ⟨h1, ?_⟩
      rw [h2]; exact h3
    | kept m => simp [Result.metadata]
    | noCc m => simp [Result.metadata]
    | dummy =>
      obtain ⟨hm, _⟩ := tryOnNodes_reestablish peers none
      rw [hr] at hm
      have : expected peers none = none := by simpa [Result.metadata] using hm.symm
      -- `dummy` is never produced by a re-establishment
      exfalso
      have hne : ∀ (cs : List Outcome) (r : Option Nat), tryOnNodes false cs r ≠ .dummy := by
        intro cs
        induction cs with
        | nil => intro r; cases r <;> simp [tryOnNodes]
        | cons c rest ih =>
          intro r
          cases c with
          | connectFail => simpa [tryOnNodes] using ih r
          | fetchFail => simpa [tryOnNodes] using ih r
          | fetched m rej => cases rej <;> simp [tryOnNodes] <;> exact ih (some m)
      exact hne peers none hr

/-- What the worker without a control connection does with it: whenever some candidate's fetch succeeded, the event of the
request flow is `fetchOk` - `publish_metadata` carries the pending refresh request into the slot, from where the consumer
answers it `Ok` - and never `fetchErrNoCc`; the request is answered with the error only if NO candidate yielded metadata. -/
theorem worker_without_cc_publishes_what_was_fetched (topoOf : Nat → Topo) (peers contacts : List Outcome) (s : Flow)
    (h : anyFetched peers = true ∨ anyFetched contacts = true)
    (hp : s.producerGone = false) (hc : s.consumerGone = false) (hf : s.fetching = true) :
    let s' := RefreshFlow.step s (flowEvent topoOf (establish false peers contacts))
    s'.answeredErr = s.answeredErr ∧ s'.pending = none ∧
      refreshIds s'.slot = refreshIds s.slot ++ s.pending.toList := by
  obtain ⟨hne, hm⟩ := establish_keeps_fetched_metadata peers contacts h
  cases hr : establish false peers contacts with
  | err => exact absurd hr hne
  | dummy => rw [hr] at hm; simp [Result.metadata] at hm
  | kept m =>
    simp only [flowEvent, RefreshFlow.step, hp, hc, hf]
    simp [refreshIds_mergeMetadata]
  | noCc m =>
    simp only [flowEvent, RefreshFlow.step, hp, hc, hf]
    simp [refreshIds_mergeMetadata]

/-- INITIAL establishment: a failing fetch ends the search with the metadata of a rejected node, if one was fetched,
else dummy metadata - never with an error once a connection was opened. -/
theorem initial_fetch_failure_falls_back (before after : List Outcome)
    (hb : ∀ o ∈ before, o = .connectFail ∨ ∃ m, o = .fetched m true) :
    tryOnNodes true (before ++ .fetchFail :: after) none =
      (match expected before none with | some m => .noCc m | none => .dummy) := by
  have gen : ∀ (before : List Outcome) (r : Option Nat),
      (∀ o ∈ before, o = .connectFail ∨ ∃ m, o = .fetched m true) →
      tryOnNodes true (before ++ .fetchFail :: after) r =
        (match expected before r with | some m => .noCc m | none => .dummy) := by
    intro before
    induction before with
    | nil => intro r _; cases r <;> simp [tryOnNodes, expected]
    | cons o rest ih =>
      intro r h
      have hrest := fun o' ho' => h o' (List.mem_cons_of_mem _ ho')
      rcases h o (List.mem_cons_self) with rfl | ⟨m, rfl⟩
      · simpa [tryOnNodes, expected] using ih r hrest
      · simpa [tryOnNodes, expected] using ih (some m) hrest
  exact gen before none hb

-- non-vacuity: the shape of the seeded defect - re-establishment, candidate A answers the fetch but is rejected by the
-- host filter in its own metadata, candidate B (tried after it) accepts the connection and fails the fetch, C refuses:
-- the metadata fetched on A must be returned, and the pending request rides on it.
example :
    tryOnNodes false [.fetched 7 true, .fetchFail, .connectFail] none = .noCc 7 ∧
    establish false [.fetchFail, .fetched 7 true, .fetchFail] [.connectFail] = .noCc 7 ∧
    establish false [.fetchFail, .connectFail] [.fetched 8 false] = .kept 8 ∧
    establish false [.fetchFail] [.connectFail] = .err := by decide

end Establish

/-! ### the periodic refresh deadline does not starve a waiting refresh request -/
section Deadline
open ScyllaVerif.C19Deadline

/-- `deadline_after` never returns an instant that is already past (for a positive interval): not when the sum fits,
and not when it overflows. -/
theorem deadlineAfter_in_future (horizon far start iv : Nat) (hiv : 0 < iv) (hfar : 0 < far) :
    start < deadlineAfter horizon far start iv := by
  unfold deadlineAfter; split <;> omega

/-- An interval that overflows `Instant` means "never" (FAR_FUTURE from the start), not "now". -/
theorem deadlineAfter_never_past (horizon far start iv now : Nat) (hov : horizon < start + iv)
    (hnow : now < start + far) : ¬ deadlineAfter horizon far start iv ≤ now := by
  unfold deadlineAfter; split <;> omega

/-- What every reachable state of the loop satisfies. -/
private structure DInv (s : Loop) : Prop where
  inflight_plan : s.fullInFlight = true → s.planFull = false
  pending_owed : s.fullInFlight = false → s.pending = true → s.planFull = true
  counts : s.received = s.answered + (if s.pending then 1 else 0)
  last_start : ∀ t c p rest, s.starts = (t, c, p) :: rest → t ≤ s.now ∧ t + min s.interval s.far ≤ s.deadline

/-- consecutive full starts: one caused by the deadline alone is at least min(interval, FAR_FUTURE) after the
previous start. -/
def Spaced (gap : Nat) : List (Nat × Cause × Bool) → Prop
  | (t2, c2, _) :: (t1, c1, p1) :: rest => (c2 = Cause.deadline → t1 + gap ≤ t2) ∧ Spaced gap ((t1, c1, p1) :: rest)
  | _ => True

private structure DInv2 (s : Loop) : Prop extends DInv s where
  spaced : Spaced (min s.interval s.far) s.starts
  carried : ∀ t c p, (t, c, p) ∈ s.starts → p = true → c = Cause.owed

private theorem deadlineAfter_ge (horizon far start iv : Nat) : start + min iv far ≤ deadlineAfter horizon far start iv := by
  unfold deadlineAfter; split <;> omega

private theorem dinv_startDue (s : Loop) (h : DInv2 s) : DInv2 (startDue s) := by
  unfold startDue
  split
  next hc =>
    simp only [Bool.and_eq_true, Bool.not_eq_true', Bool.or_eq_true, decide_eq_true_eq] at hc
    obtain ⟨hnf, hdue⟩ := hc
    refine ⟨⟨?_, ?_, ?_, ?_⟩, ?_, ?_⟩
    · intro _; rfl
    · intro hf; simp at hf
    · exact h.counts
    · intro t c p rest he
      simp only [List.cons.injEq, Prod.mk.injEq] at he
      obtain ⟨⟨ht, _, _⟩, _⟩ := he
      subst ht
      exact ⟨Nat.le_refl _, deadlineAfter_ge _ _ _ _⟩
    · show Spaced _ (_ :: s.starts)
      cases hs : s.starts with
      | nil => simp [Spaced]
      | cons x rest =>
        obtain ⟨t1, c1, p1⟩ := x
        simp only [Spaced]
        refine ⟨?_, by have := h.spaced; rw [hs] at this; exact this⟩
        intro hcause
        have hpf : s.planFull = false := by
          cases hp : s.planFull with
          | false => rfl
          | true => simp [hp] at hcause
        have hd : s.deadline ≤ s.now := by
          rcases hdue with hp | hd
          · rw [hpf] at hp; cases hp
          · exact hd
        have := (h.last_start t1 c1 p1 rest hs).2
        omega
    · intro t c p hm hp
      simp only [List.mem_cons, Prod.mk.injEq] at hm
      rcases hm with ⟨_, hc, hpp⟩ | hm
      · subst hpp; subst hc
        have := h.pending_owed hnf hp
        simp [this]
      · exact h.carried t c p hm hp
  next => exact h

private theorem startDue_post (s : Loop) : (startDue s).fullInFlight = false → (startDue s).planFull = false := by
  unfold startDue
  split
  next => intro hf; simp at hf
  next hc =>
    intro hf
    cases hp : s.planFull with
    | false => rfl
    | true => simp [hf, hp] at hc

private theorem dinv_arm (s : Loop) (a : Arm) (h : DInv2 s) (hpost : s.fullInFlight = false → s.planFull = false) :
    DInv2 (arm s a) := by
  cases a with
  | refresh =>
    simp only [arm]
    by_cases hen : refreshEnabled s = true
    · rw [if_pos hen]
      simp only [refreshEnabled, Bool.and_eq_true, Bool.not_eq_true', decide_eq_true_eq] at hen
      refine ⟨⟨?_, ?_, ?_, h.last_start⟩, h.spaced, h.carried⟩
      · intro hf; simp [hen.1] at hf
      · intro _ _; rfl
      · have hc := h.counts
        have hp : s.pending = false := by
          cases hp : s.pending with
          | false => rfl
          | true =>
            -- a pending request with no fetch running means the plan owes a full fetch: impossible right after
            -- the loop top, which would have started it
            have h1 := h.pending_owed hen.1 hp
            have h2 := hpost hen.1
            rw [h1] at h2; cases h2
        simp [hp] at hc ⊢; omega
    · rw [if_neg hen]; exact h
  | deadline => exact h
  | fullDone =>
    simp only [arm]
    by_cases hf : s.fullInFlight = true
    · rw [if_pos hf]
      refine ⟨⟨?_, ?_, ?_, h.last_start⟩, h.spaced, h.carried⟩
      · intro hf'; simp at hf'
      · intro _ hp; simp at hp
      · have hc := h.counts
        simp only [Bool.false_eq_true, ↓reduceIte, Nat.add_zero]
        omega
    · rw [if_neg hf]; exact h
  | partialFailed =>
    simp only [arm]
    by_cases hf : s.fullInFlight = true
    · rw [if_pos hf]; exact h
    · rw [if_neg hf]
      refine ⟨⟨?_, ?_, h.counts, h.last_start⟩, h.spaced, h.carried⟩
      · intro hf'; exact absurd hf' hf
      · intro _ _; rfl
  | other => exact h

private theorem dinv_step (s : Loop) (e : C19Deadline.Ev) (h : DInv2 s) : DInv2 (C19Deadline.step s e) := by
  cases e with
  | tick d =>
    refine ⟨⟨h.inflight_plan, h.pending_owed, h.counts, ?_⟩, h.spaced, h.carried⟩
    intro t c p rest he
    have := h.last_start t c p rest he
    exact ⟨by show t ≤ s.now + d; omega, this.2⟩
  | request => exact ⟨⟨h.inflight_plan, h.pending_owed, h.counts, h.last_start⟩, h.spaced, h.carried⟩
  | select a => exact dinv_arm _ a (dinv_startDue s h) (startDue_post s)

private theorem dinv_init (horizon far iv now : Nat) : DInv2 (C19Deadline.init horizon far iv now) := by
  refine ⟨⟨?_, ?_, ?_, ?_⟩, ?_, ?_⟩ <;> simp [C19Deadline.init, Spaced]

private theorem dinv_run (evs : List C19Deadline.Ev) : ∀ s, DInv2 s → DInv2 (C19Deadline.run s evs) := by
  induction evs with
  | nil => intro s h; exact h
  | cons e es ih => intro s h; exact ih _ (dinv_step s e h)

private theorem run_params (evs : List C19Deadline.Ev) : ∀ s, (C19Deadline.run s evs).interval = s.interval ∧
    (C19Deadline.run s evs).far = s.far := by
  induction evs with
  | nil => intro s; exact ⟨rfl, rfl⟩
  | cons e es ih =>
    intro s
    have h := ih (C19Deadline.step s e)
    have hs : (C19Deadline.step s e).interval = s.interval ∧ (C19Deadline.step s e).far = s.far := by
      cases e with
      | tick d => exact ⟨rfl, rfl⟩
      | request => exact ⟨rfl, rfl⟩
      | select a =>
        have h1 : (startDue s).interval = s.interval ∧ (startDue s).far = s.far := by
          unfold startDue; split <;> exact ⟨rfl, rfl⟩
        cases a <;> simp only [C19Deadline.step, arm] <;> (try split) <;> exact h1
    exact ⟨h.1.trans hs.1, h.2.trans hs.2⟩

/-- FULL FETCHES DO NOT RUN BACK TO BACK: over every history of the loop (any interval, overflowing or not, any
schedule of `select!` picks, requests and clock ticks), a full fetch started by the periodic deadline alone starts at
least min(interval, FAR_FUTURE) after the previous full fetch was started. -/
theorem periodic_full_fetches_are_spaced (horizon far iv now : Nat) (evs : List C19Deadline.Ev) :
    Spaced (min iv far) (C19Deadline.run (C19Deadline.init horizon far iv now) evs).starts := by
  have h := (dinv_run evs _ (dinv_init horizon far iv now)).spaced
  have hp := run_params evs (C19Deadline.init horizon far iv now)
  rw [hp.1, hp.2] at h
  exact h

/-- Every request the loop received is answered by a published full fetch or is the pending one, and a full fetch that
carries a request was started because the plan owed it (never by the deadline alone with a request riding along
unnoticed). -/
theorem received_requests_answered_or_pending (horizon far iv now : Nat) (evs : List C19Deadline.Ev) :
    let s := C19Deadline.run (C19Deadline.init horizon far iv now) evs
    s.received = s.answered + (if s.pending then 1 else 0) ∧
    (∀ t c p, (t, c, p) ∈ s.starts → p = true → c = Cause.owed) := by
  have h := dinv_run evs _ (dinv_init horizon far iv now)
  exact ⟨h.counts, h.carried⟩

/-- THE AUDIT'S THEOREM. In any reachable state where a full fetch is in flight, a request waits in `refresh_channel`
and the deadline is not already past (which `deadlineAfter_in_future` guarantees at the instant the fetch was started,
for every positive interval): when the fetch completes, the loop top starts NOTHING, so the `refresh_channel` arm is
enabled at the following `select!`; when it is picked the request becomes the pending one, and the very next loop
top - whatever time has passed and whichever arm is picked next - starts the full fetch that carries it. -/
theorem waiting_request_received_before_next_full_start (horizon far iv now0 : Nat) (evs : List C19Deadline.Ev)
    (d : Nat) (a : Arm) :
    let s := C19Deadline.run (C19Deadline.init horizon far iv now0) evs
    s.fullInFlight = true → 0 < s.waiting → s.now < s.deadline →
    let s1 := C19Deadline.step s (.select .fullDone)
    let s2 := C19Deadline.step s1 (.select .refresh)
    let s3 := C19Deadline.step (C19Deadline.step s2 (.tick d)) (.select a)
    s1.fullInFlight = false ∧ (startDue s1).starts = s.starts ∧ refreshEnabled (startDue s1) = true ∧
    s2.pending = true ∧ s2.received = s.received + 1 ∧ s2.starts = s.starts ∧
    s3.starts = (s.now + d, Cause.owed, true) :: s.starts := by
  intro s hf hw hd
  have hinv := dinv_run evs _ (dinv_init horizon far iv now0)
  have hpf : s.planFull = false := hinv.inflight_plan hf
  have hsd : startDue s = s := by unfold startDue; simp [hf]
  have hnd : ¬ s.deadline ≤ s.now := by omega
  have e1 : C19Deadline.step s (.select .fullDone) =
      { s with fullInFlight := false, pending := false, answered := s.answered + (if s.pending then 1 else 0) } := by
    simp [C19Deadline.step, hsd, arm, hf]
  have hsd1 : startDue (C19Deadline.step s (.select .fullDone)) = C19Deadline.step s (.select .fullDone) := by
    rw [e1]; unfold startDue; simp [hpf, hnd]
  have e2 : C19Deadline.step (C19Deadline.step s (.select .fullDone)) (.select .refresh) =
      { s with fullInFlight := false, pending := true, planFull := true, waiting := s.waiting - 1,
               received := s.received + 1, answered := s.answered + (if s.pending then 1 else 0) } := by
    show arm (startDue (C19Deadline.step s (.select .fullDone))) .refresh = _
    rw [hsd1, e1]; simp [arm, refreshEnabled, hw]
  refine ⟨by rw [e1], by rw [hsd1, e1], ?_, by rw [e2], by rw [e2], by rw [e2], ?_⟩
  · rw [hsd1, e1]; simp [refreshEnabled, hw]
  · show (arm (startDue (C19Deadline.step _ (.tick d))) a).starts = _
    rw [e2]
    have : (startDue (C19Deadline.step
        { s with fullInFlight := false, pending := true, planFull := true, waiting := s.waiting - 1, received := s.received + 1, answered := s.answered + (if s.pending then 1 else 0) }
        (.tick d))).starts = (s.now + d, Cause.owed, true) :: s.starts := by
      simp [C19Deadline.step, startDue]
    cases a <;> simp only [arm] <;> (try split) <;> first | exact this | skip
    all_goals simp_all [C19Deadline.step, startDue]

/-- Non-vacuity, and the repaired code on the interval that was broken: `Duration::MAX` (overflowing) - a request made
while the first periodic fetch runs is received after it completes and gets its own fetch. -/
example :
    let s := C19Deadline.run (C19Deadline.init 1000 300 5000 10)
      [.tick 300, .select .other, .request, .select .fullDone, .select .refresh, .select .other, .select .fullDone]
    s.starts = [(310, Cause.owed, true), (310, Cause.deadline, false)] ∧ s.received = 1 ∧ s.answered = 1 := by decide

/-- THE DEFECT REPAIRED BY /repo 3ab1ad9, stated on the old `deadline_after` (`Instant::now()` on overflow): with an
interval that overflows `Instant` NO schedule whatsoever ever receives a refresh request - the loop top starts a full
fetch whenever none runs, so the guard `!full_fetch_in_flight` of the `refresh_channel` arm is false at every
`select!`. (A statement about `runOld`, the loop with the old function; the model's own `run` uses the repaired one.) -/
theorem old_deadline_starves_request (horizon iv now : Nat) (hov : horizon < now + iv) (evs : List C19Deadline.Ev) :
    (C19Deadline.runOld { horizon, far := 0, interval := iv, now, deadline := deadlineAfterOld horizon now iv } evs).received = 0 := by
  have key : ∀ (evs : List C19Deadline.Ev) (s : Loop),
      (s.deadline ≤ s.now ∧ s.received = 0 ∧ s.planFull = false ∧ s.horizon < s.now + s.interval) →
      (C19Deadline.runOld s evs).received = 0 := by
    intro evs
    induction evs with
    | nil => intro s h; exact h.2.1
    | cons e es ih =>
      intro s h
      apply ih
      obtain ⟨h1, h2, h3, h4⟩ := h
      cases e with
      | tick d => exact ⟨by show s.deadline ≤ s.now + d; omega, h2, h3, by show s.horizon < s.now + d + s.interval; omega⟩
      | request => exact ⟨h1, h2, h3, h4⟩
      | select a =>
        have hov' : ¬ s.now + s.interval ≤ s.horizon := by omega
        by_cases hf : s.fullInFlight = true
        · have hsd : startDueOld s = s := by unfold startDueOld; simp [hf]
          cases a <;> simp [C19Deadline.stepOld, hsd, arm, refreshEnabled, hf, h1, h2, h3, h4]
        · have hf' : s.fullInFlight = false := by simpa using hf
          have hsd : startDueOld s =
              { s with planFull := false, deadline := s.now, fullInFlight := true, starts := (s.now, Cause.deadline, s.pending) :: s.starts } := by
            unfold startDueOld; simp [hf', h1, h3, deadlineAfterOld, hov']
          cases a <;> simp [C19Deadline.stepOld, hsd, arm, refreshEnabled, h2, h4]
  apply key
  simp [deadlineAfterOld, show ¬ now + iv ≤ horizon by omega, hov]

end Deadline
/-! ### `wait_for_event` hands every server event on exactly once, cancelled and restarted waits included -/
section EventWait
open ScyllaVerif.C19EventWait

private theorem ew_step (c : Conn) (op : Op) (h : c.delivered ++ c.queue = c.accepted) :
    (C19EventWait.step c op).delivered ++ (C19EventWait.step c op).queue = (C19EventWait.step c op).accepted := by
  cases op with
  | push e =>
    simp only [C19EventWait.step]; split
    · simp [← h]
    · exact h
  | breakConn => simp only [C19EventWait.step]; split <;> exact h
  | dropErrSender => simp only [C19EventWait.step]; split <;> exact h
  | poll b =>
    simp only [C19EventWait.step, C19EventWait.poll]
    cases hq : c.queue with
    | nil => simp only []; split <;> simp_all
    | cons e rest => simp only []; split <;> simp_all
  | cancel => exact h

/-- EVERY SERVER EVENT EXACTLY ONCE, IN ORDER: over every history of the reader delivering events, the connection
failing, and `wait_for_event()` futures being polled, DROPPED (cancelled - the `select!` of `work_on_cc` /
`fetch_on_candidate` picked another arm) and started anew, the events returned so far followed by the events still in
the channel are exactly the events the channel accepted. Nothing is lost by a cancellation, nothing is returned twice. -/
theorem server_events_delivered_exactly_once_in_order (cap : Nat) (ops : List Op) :
    let c := C19EventWait.run { cap } ops
    c.delivered ++ c.queue = c.accepted := by
  have key : ∀ (ops : List Op) (c : Conn), c.delivered ++ c.queue = c.accepted →
      (C19EventWait.run c ops).delivered ++ (C19EventWait.run c ops).queue = (C19EventWait.run c ops).accepted := by
    intro ops
    induction ops with
    | nil => intro c h; exact h
    | cons op rest ih => intro c h; exact ih _ (ew_step c op h)
  exact key ops _ rfl

/-- A poll returns `Pending` exactly when nothing is ready; with an event queued and no error ready it returns THAT
event at that very poll - whether the future is fresh or was polled before (the model has no per-future state: the
differential `evwait` run is what ties the real future to that). -/
theorem queued_event_returned_by_next_poll (c : Conn) (b : Bool) :
    ((C19EventWait.poll c b).2 = .pending ↔ (c.queue = [] ∧ errReady c = false)) ∧
    (∀ e rest, c.queue = e :: rest → errReady c = false →
      (C19EventWait.poll c b).2 = .event e ∧ (C19EventWait.poll c b).1.queue = rest) := by
  constructor
  · unfold C19EventWait.poll
    cases hq : c.queue with
    | nil =>
      simp only []
      cases he : errReady c <;> simp [errOut]
      split <;> simp
    | cons e rest =>
      simp only []
      split <;> simp [errOut]
      split <;> simp
  · intro e rest hq he
    simp [C19EventWait.poll, hq, he]

/-- With no error, polling as many times as there are queued events returns all of them (in order), whatever was
cancelled before. -/
theorem drain_returns_every_queued_event (c : Conn) (he : errReady c = false) :
    (C19EventWait.run c (List.replicate c.queue.length (.poll false))).delivered = c.delivered ++ c.queue ∧
    (C19EventWait.run c (List.replicate c.queue.length (.poll false))).queue = [] := by
  have key : ∀ (q : List Nat) (c : Conn), c.queue = q → errReady c = false →
      (C19EventWait.run c (List.replicate q.length (.poll false))).delivered = c.delivered ++ q ∧
      (C19EventWait.run c (List.replicate q.length (.poll false))).queue = [] := by
    intro q
    induction q with
    | nil => intro c hq _; simp [C19EventWait.run, hq]
    | cons e rest ih =>
      intro c hq he
      have h1 : C19EventWait.step c (.poll false) = { c with queue := rest, delivered := c.delivered ++ [e] } := by
        simp [C19EventWait.step, C19EventWait.poll, hq]
      have := ih { c with queue := rest, delivered := c.delivered ++ [e] } rfl (by simpa [errReady] using he)
      simp only [List.length_cons, List.replicate_succ, C19EventWait.run, List.foldl_cons, h1]
      simpa [C19EventWait.run] using this
  exact key c.queue c rfl he

/-- Non-vacuity: a DOWN hint (event 259) taken over two cancelled waits, with a racing error. -/
example :
    let c := C19EventWait.run { cap := 2 } [.poll false, .cancel, .push 259, .cancel, .push 7, .push 8, .poll false,
      .breakConn, .poll false, .poll true]
    c.accepted = [259, 7] ∧ c.delivered = [259, 7] ∧ c.queue = [] ∧ c.err = .consumed := by decide

end EventWait
end ScyllaVerif.Props.C19

import ScyllaVerif.Model.PreparedCacheConc
/-!
# C14 — concurrent callers of one `CachingSession` (Model/PreparedCacheConc.lean)

For EVERY interleaving of the atomic map accesses of any number `N` of callers (any texts, any eviction choices):

* `handles_are_announced` — every handle returned (hit or miss) and every cache entry carries the id the cluster
  announces for exactly its text;
* `cache_overflow_bounded` — the cache holds at most `cap - 1 + N` statements. It CAN exceed `cap` (two callers leave the
  `while` loop before either inserts - the race the loop's comment describes): `overflow_is_reachable`; the excess is
  bounded by the number of concurrent callers, and `solo_exit_then_insert_within_capacity`: an insertion that follows
  its own loop exit without interference ends within the capacity (the next miss repairs the overflow);
* `victim_picked_whatever_the_length` / `over_eviction_is_reachable` — `len()` and `iter().next()` are separate steps:
  a victim is removed even if the length has meanwhile dropped below the capacity (the loop comment's "could evict
  more entries than strictly necessary");
* `hit_shares_cell` / `miss_makes_new_cell` — a hit returns a handle on the cached statement OBJECT (same metadata
  cell); a miss creates a NEW object whose cell no existing handle or entry has. So result metadata announced through
  one handle is what the next execution through another presents exactly when both came from hits on one entry (or
  are the miss that inserted it); two concurrent misses of one text yield two objects that do NOT share
  (`concurrent_misses_do_not_share`, a reachable state) - not guaranteed by the code; with the metadata-id extension
  each object is corrected independently by the server, decoding stays faithful per object (Props/C14.lean);
* `shared_cell_presents_latest` / `other_cell_presents_own` / `hit_handle_presents_latest` /
  `concurrent_misses_second_handle_presents_stale` — which version an execution through a handle presents after a
  schema change (`execThrough`): the latest announced through any handle on the SAME cell; its own object's otherwise.
-/
namespace ScyllaVerif.Props.C14CacheConc
open ScyllaVerif.PreparedCacheConc

def isIns : Pc → Bool
  | .inserting _ => true
  | _ => false

/-- callers `k < n` that left the loop and have not inserted yet -/
def countIns (pc : Nat → Pc) : Nat → Nat
  | 0 => 0
  | n + 1 => countIns pc n + (if isIns (pc n) then 1 else 0)

theorem countIns_le (pc : Nat → Pc) (n : Nat) : countIns pc n ≤ n := by
  induction n with
  | zero => simp [countIns]
  | succ n ih => simp only [countIns]; split <;> omega

theorem countIns_upd_ge (pc : Nat → Pc) (k : Nat) (v : Pc) (n : Nat) (h : n ≤ k) :
    countIns (upd pc k v) n = countIns pc n := by
  induction n with
  | zero => rfl
  | succ n ih =>
    have hk : n ≠ k := by omega
    simp [countIns, upd, hk, ih (by omega)]

theorem countIns_upd (pc : Nat → Pc) (k : Nat) (v : Pc) (n : Nat) (h : k < n) :
    countIns (upd pc k v) n + (if isIns (pc k) then 1 else 0) = countIns pc n + (if isIns v then 1 else 0) := by
  induction n with
  | zero => omega
  | succ n ih =>
    by_cases hk : n = k
    · subst hk
      simp only [countIns, upd, ↓reduceIte]
      rw [countIns_upd_ge pc n v n (Nat.le_refl _)]
      omega
    · have := ih (by omega)
      simp only [countIns, upd, hk, ↓reduceIte]
      omega

theorem countIns_lt_of_not (pc : Nat → Pc) (k n : Nat) (h : k < n) (hk : isIns (pc k) = false) : countIns pc n < n := by
  induction n with
  | zero => omega
  | succ n ih =>
    by_cases e : n = k
    · subst e
      have := countIns_le pc n
      simp only [countIns, hk]; simp; omega
    · have := ih (by omega)
      simp only [countIns]; split <;> omega

/-- every event is by a caller `< n` -/
def EvOK (n : Nat) : Ev → Prop
  | .begin k _ => k < n
  | .step k _ => k < n

theorem cacheRemove_length_le (t : String) (c : Cache) : (cacheRemove t c).length ≤ c.length := by
  simp only [cacheRemove]; exact List.length_filter_le _ _

theorem cacheInsert_length_le (e : Entry) (c : Cache) : (cacheInsert e c).length ≤ c.length + 1 := by
  have := cacheRemove_length_le e.text c
  simp only [cacheInsert, List.length_cons]; omega

/-- the overflow invariant -/
def Bound (cap n : Nat) (st : State) : Prop := st.cache.length + countIns st.pc n ≤ cap - 1 + n

theorem bound_apply (cap n : Nat) (prep : String → Except Nat String) (hcap : 0 < cap) (st : State) (e : Ev)
    (he : EvOK n e) (hb : Bound cap n st) : Bound cap n (apply cap prep st e) := by
  unfold Bound at hb ⊢
  cases e with
  | begin k t =>
    have hk : k < n := he
    simp only [apply, begin]
    have hcount := countIns_upd st.pc k (.lookup t) n hk
    cases hp : st.pc k <;> simp only [hp] at hcount ⊢ <;> first | exact hb | (simp [isIns] at hcount; omega)
  | step k c =>
    have hk : k < n := he
    simp only [apply, step]
    cases hp : st.pc k with
    | idle => exact hb
    | done e m => exact hb
    | failed c' => exact hb
    | lookup t =>
      simp only
      split
      · rename_i e' _
        have := countIns_upd st.pc k (.done e' false) n hk
        simp [hp, isIns] at this
        simp only
        omega
      · have := countIns_upd st.pc k (.preparing t) n hk
        simp [hp, isIns] at this
        simp only
        omega
    | preparing t =>
      simp only
      split
      · have := countIns_upd st.pc k (.failed ‹Nat›) n hk
        simp [hp, isIns] at this; simp only; omega
      · rename_i id _
        have := countIns_upd st.pc k (.loopHead ⟨t, id, st.nextCell⟩) n hk
        simp [hp, isIns] at this; simp only; omega
    | loopHead e' =>
      simp only
      split
      · have := countIns_upd st.pc k (.picking e') n hk
        simp [hp, isIns] at this; simp only; omega
      · rename_i hlt
        have := countIns_upd st.pc k (.inserting e') n hk
        simp [hp, isIns] at this
        have hlt' := countIns_lt_of_not st.pc k n hk (by simp [hp, isIns])
        simp only
        omega
    | picking e' =>
      simp only
      split
      · rename_i v _
        have := countIns_upd st.pc k (.removing e' v.text) n hk
        simp [hp, isIns] at this; simp only; omega
      · have := countIns_upd st.pc k (.loopHead e') n hk
        simp [hp, isIns] at this; simp only; omega
    | removing e' v =>
      have := countIns_upd st.pc k (.loopHead e') n hk
      simp [hp, isIns] at this
      have hl := cacheRemove_length_le v st.cache
      simp only
      omega
    | inserting e' =>
      have := countIns_upd st.pc k (.done e' true) n hk
      simp [hp, isIns] at this
      have hl := cacheInsert_length_le e' st.cache
      simp only
      omega

/-- `cache_overflow_bounded`: through EVERY interleaving of `n` callers the cache holds at most `cap - 1 + n`
statements (so with one caller: at most `cap`). -/
theorem cache_overflow_bounded (cap n : Nat) (prep : String → Except Nat String) (hcap : 0 < cap) (es : List Ev)
    (st : State) (hes : ∀ e ∈ es, EvOK n e) (hb : Bound cap n st) :
    (run cap prep st es).cache.length ≤ cap - 1 + n := by
  have : Bound cap n (run cap prep st es) := by
    induction es generalizing st with
    | nil => exact hb
    | cons e rest ih =>
      exact ih _ (fun e' he' => hes e' (by simp [he'])) (bound_apply cap n prep hcap st e (hes e (by simp)) hb)
  unfold Bound at this
  omega

/-- an insertion that directly follows its caller's own loop exit (no step of anybody in between) ends within the
capacity: the next miss repairs an overflow -/
theorem solo_exit_then_insert_within_capacity (cap : Nat) (prep : String → Except Nat String) (st : State) (k : Nat)
    (e : Entry) (c1 c2 : Nat) (hp : st.pc k = .loopHead e) (hlt : st.cache.length < cap) :
    (step cap prep (step cap prep st k c1) k c2).cache.length ≤ cap ∧
    (step cap prep (step cap prep st k c1) k c2).pc k = .done e true := by
  have h1 : step cap prep st k c1 = { st with pc := upd st.pc k (.inserting e) } := by
    simp [step, hp, Nat.not_le.mpr hlt]
  rw [h1]
  have hl := cacheInsert_length_le e st.cache
  simp [step, upd]
  omega

/-! ### handles -/

/-- the entry a program counter holds -/
def held : Pc → Option Entry
  | .loopHead e | .picking e | .removing e _ | .inserting e | .done e _ => some e
  | _ => none

/-- every entry anywhere carries the id the cluster announces for exactly its text, and an existing cell -/
def EntryOK (prep : String → Except Nat String) (next : Nat) (e : Entry) : Prop := prep e.text = .ok e.id ∧ e.cell < next

def Inv (prep : String → Except Nat String) (st : State) : Prop :=
  (∀ e ∈ st.cache, EntryOK prep st.nextCell e) ∧ (∀ k e, held (st.pc k) = some e → EntryOK prep st.nextCell e)

theorem cacheGet_mem (t : String) (c : Cache) (e : Entry) (h : cacheGet t c = some e) : e ∈ c ∧ e.text = t := by
  induction c with
  | nil => simp [cacheGet] at h
  | cons x rest ih =>
    simp only [cacheGet] at h
    split at h
    · rename_i hx
      simp only [Option.some.injEq] at h
      subst h
      exact ⟨by simp, by simpa using hx⟩
    · obtain ⟨a, b⟩ := ih h
      exact ⟨by simp [a], b⟩

theorem entryOK_mono (prep : String → Except Nat String) {a b : Nat} (h : a ≤ b) (e : Entry)
    (he : EntryOK prep a e) : EntryOK prep b e := ⟨he.1, Nat.lt_of_lt_of_le he.2 h⟩

theorem inv_apply (cap : Nat) (prep : String → Except Nat String) (st : State) (ev : Ev) (hinv : Inv prep st) :
    Inv prep (apply cap prep st ev) := by
  obtain ⟨hc, hp⟩ := hinv
  -- a caller's pc replaced by one holding nothing new, cache and nextCell unchanged
  have keep : ∀ (k : Nat) (v : Pc), (∀ e, held v = some e → EntryOK prep st.nextCell e) →
      Inv prep { st with pc := upd st.pc k v } := by
    intro k v hv
    refine ⟨hc, fun j e hj => ?_⟩
    simp only [upd] at hj
    split at hj
    · exact hv e hj
    · exact hp j e hj
  cases ev with
  | begin k t =>
    simp only [apply, begin]
    cases hk : st.pc k <;> simp only <;> first | exact ⟨hc, hp⟩ | exact keep k _ (fun e h => by simp [held] at h)
  | step k c =>
    simp only [apply, step]
    cases hk : st.pc k with
    | idle => exact ⟨hc, hp⟩
    | done e m => exact ⟨hc, hp⟩
    | failed c' => exact ⟨hc, hp⟩
    | lookup t =>
      simp only
      split
      · rename_i e hg
        exact keep k _ (fun e' h => by simp only [held, Option.some.injEq] at h; subst h; exact hc e (cacheGet_mem _ _ _ hg).1)
      · exact keep k _ (fun e h => by simp [held] at h)
    | preparing t =>
      simp only
      split
      · exact keep k _ (fun e h => by simp [held] at h)
      · rename_i id hid
        refine ⟨fun e he => entryOK_mono prep (Nat.le_succ _) e (hc e he), fun j e hj => ?_⟩
        simp only [upd] at hj
        split at hj
        · simp only [held, Option.some.injEq] at hj
          subst hj
          exact ⟨hid, Nat.lt_succ_self _⟩
        · exact entryOK_mono prep (Nat.le_succ _) e (hp j e hj)
    | loopHead e =>
      have he := hp k e (by simp [hk, held])
      simp only
      split
      · exact keep k _ (fun e' h => by simp only [held, Option.some.injEq] at h; subst h; exact he)
      · exact keep k _ (fun e' h => by simp only [held, Option.some.injEq] at h; subst h; exact he)
    | picking e =>
      have he := hp k e (by simp [hk, held])
      simp only
      split
      · exact keep k _ (fun e' h => by simp only [held, Option.some.injEq] at h; subst h; exact he)
      · exact keep k _ (fun e' h => by simp only [held, Option.some.injEq] at h; subst h; exact he)
    | removing e v =>
      have he := hp k e (by simp [hk, held])
      refine ⟨fun e' he' => hc e' ((List.mem_filter.mp he').1), fun j e' hj => ?_⟩
      simp only [upd] at hj
      split at hj
      · simp only [held, Option.some.injEq] at hj; subst hj; exact he
      · exact hp j e' hj
    | inserting e =>
      have he := hp k e (by simp [hk, held])
      refine ⟨fun e' he' => ?_, fun j e' hj => ?_⟩
      · simp only [cacheInsert, List.mem_cons] at he'
        rcases he' with rfl | h
        · exact he
        · exact hc e' ((List.mem_filter.mp h).1)
      · simp only [upd] at hj
        split at hj
        · simp only [held, Option.some.injEq] at hj; subst hj; exact he
        · exact hp j e' hj

/-- `handles_are_announced`: through every interleaving, every handle returned - by a hit or by a miss - and every
cache entry carries the id the cluster announces for EXACTLY its text. -/
theorem handles_are_announced (cap : Nat) (prep : String → Except Nat String) (es : List Ev) (st : State)
    (hinv : Inv prep st) :
    (∀ k e m, (run cap prep st es).pc k = .done e m → prep e.text = .ok e.id) ∧
    (∀ e ∈ (run cap prep st es).cache, prep e.text = .ok e.id) := by
  have : Inv prep (run cap prep st es) := by
    induction es generalizing st with
    | nil => exact hinv
    | cons e rest ih => exact ih _ (inv_apply cap prep st e hinv)
  exact ⟨fun k e m h => (this.2 k e (by simp [h, held])).1, fun e he => (this.1 e he).1⟩

/-- a HIT returns a handle on the cached statement object: same text, same id, SAME metadata cell -/
theorem hit_shares_cell (cap : Nat) (prep : String → Except Nat String) (st : State) (k c : Nat) (t : String)
    (e : Entry) (hp : st.pc k = .lookup t) (hg : cacheGet t st.cache = some e) :
    (step cap prep st k c).pc k = .done e false ∧ e ∈ st.cache ∧ e.text = t := by
  refine ⟨by simp [step, hp, hg, upd], (cacheGet_mem _ _ _ hg).1, (cacheGet_mem _ _ _ hg).2⟩

/-- a MISS creates a new statement object: its cell is one no cache entry and no handle of any caller has -/
theorem miss_makes_new_cell (cap : Nat) (prep : String → Except Nat String) (st : State) (hinv : Inv prep st)
    (k c : Nat) (t id : String) (hp : st.pc k = .preparing t) (hid : prep t = .ok id) :
    (step cap prep st k c).pc k = .loopHead ⟨t, id, st.nextCell⟩ ∧
    (∀ e ∈ st.cache, e.cell ≠ st.nextCell) ∧ (∀ j e, held (st.pc j) = some e → e.cell ≠ st.nextCell) := by
  refine ⟨by simp [step, hp, hid, upd], fun e he => Nat.ne_of_lt (hinv.1 e he).2, fun j e hj => Nat.ne_of_lt (hinv.2 j e hj).2⟩

/-! ### reachable states: the overflow, and two handles of one text that do not share -/

def st0 : State := ⟨[], fun _ => .idle, 0⟩
def prep0 : String → Except Nat String := fun t => .ok ("id:" ++ t)

/-- capacity 1, two callers missing different texts: both leave the loop before either inserts → 2 entries -/
theorem overflow_is_reachable :
    (run 1 prep0 st0 [.begin 0 "a", .begin 1 "b", .step 0 0, .step 1 0, .step 0 0, .step 1 0,
      .step 0 0, .step 1 0, .step 0 0, .step 1 0]).cache.length = 2 := by decide

/-- OVER-EVICTION: `len()` and `iter().next()` are separate map accesses. A caller that found the cache full picks and
removes a victim even if another caller has brought the length below the capacity in between -/
theorem victim_picked_whatever_the_length (cap : Nat) (prep : String → Except Nat String) (st : State) (k c : Nat)
    (e v : Entry) (hp : st.pc k = .picking e) (hv : st.cache[c % st.cache.length]? = some v) :
    (step cap prep st k c).pc k = .removing e v.text := by
  simp [step, hp, hv, upd]

/-- … reachable: capacity 2, cache {x, y}; caller 1 reads the length (2), caller 0 evicts x, caller 1 then picks y
although only ONE entry is left -/
theorem over_eviction_is_reachable :
    let s := run 2 prep0 ⟨[⟨"x", "id:x", 0⟩, ⟨"y", "id:y", 1⟩], fun _ => .idle, 2⟩
      [.begin 0 "a", .begin 1 "b", .step 0 0, .step 1 0, .step 0 0, .step 1 0, .step 1 0, .step 0 0, .step 0 0, .step 0 0,
       .step 1 0]
    s.cache.length = 1 ∧ s.pc 1 = .removing ⟨"b", "id:b", 3⟩ "y" := by decide

/-- two concurrent misses of ONE text: both callers get a handle for "a" with the announced id, with DIFFERENT cells;
the cache keeps the one inserted last -/
theorem concurrent_misses_do_not_share :
    let s := run 2 prep0 st0 [.begin 0 "a", .begin 1 "a", .step 0 0, .step 1 0, .step 0 0, .step 1 0,
      .step 0 0, .step 1 0, .step 0 0, .step 1 0]
    s.pc 0 = .done ⟨"a", "id:a", 0⟩ true ∧ s.pc 1 = .done ⟨"a", "id:a", 1⟩ true ∧ s.cache = [⟨"a", "id:a", 1⟩] := by
  decide

/-! ### what a handle presents after a schema change (metadata-id extension) -/

/-- after an execution through a handle on cell `c` the object holds the node's version … -/
theorem execThrough_cell (cells : Cells) (c srv : Nat) : (execThrough cells c srv).2.2 c = srv := by
  by_cases h : cells c = srv <;> simp [execThrough, h]

/-- … and no other object changes -/
theorem execThrough_other (cells : Cells) (c c' srv : Nat) (h : c' ≠ c) : (execThrough cells c srv).2.2 c' = cells c' := by
  simp [execThrough, h]

/-- handles SHARING a cell: the change announced through one is what the next execution through the other presents,
and the node has nothing to announce again -/
theorem shared_cell_presents_latest (cells : Cells) (c srv : Nat) :
    let after := (execThrough cells c srv).2.2
    (execThrough after c srv).1 = srv ∧ (execThrough after c srv).2.1 = false := by
  have := execThrough_cell cells c srv
  simp [execThrough] at this ⊢

/-- handles on DIFFERENT cells: the second still presents what its own object held, and is corrected by the node on
its own (METADATA_CHANGED again iff that differs from the node's version) -/
theorem other_cell_presents_own (cells : Cells) (c c' srv : Nat) (h : c' ≠ c) :
    let after := (execThrough cells c srv).2.2
    (execThrough after c' srv).1 = cells c' ∧ (execThrough after c' srv).2.1 = (cells c' != srv) ∧
      (execThrough after c' srv).2.2 c' = srv := by
  have ho := execThrough_other cells c c' srv h
  refine ⟨by simpa [execThrough] using ho, ?_, execThrough_cell _ _ _⟩
  show (((execThrough cells c srv).2.2 c') != srv) = _
  rw [ho]

/-- a HIT handle presents the latest version announced through the cached statement (or any other hit on it) -/
theorem hit_handle_presents_latest (cap : Nat) (prep : String → Except Nat String) (st : State) (k ch : Nat) (t : String)
    (e : Entry) (hp : st.pc k = .lookup t) (hg : cacheGet t st.cache = some e) (cells : Cells) (srv : Nat) :
    ∃ h, (step cap prep st k ch).pc k = .done h false ∧
      (execThrough (execThrough cells e.cell srv).2.2 h.cell srv).1 = srv :=
  ⟨e, (hit_shares_cell cap prep st k ch t e hp hg).1, (shared_cell_presents_latest cells e.cell srv).1⟩

/-- SERVER-SIDE EVICTION with the extension: the re-PREPARE's PREPARED announces the node's current metadata, which
`reprepare` stores in the statement object (`newCell`); the re-sent EXECUTE presents it and the node has nothing to
announce - whatever the object held before, for every handle on that cell -/
theorem evicted_execution_presents_announced (cells : Cells) (c srv : Nat) :
    (execThrough (newCell cells c srv) c srv).1 = srv ∧ (execThrough (newCell cells c srv) c srv).2.1 = false ∧
    ∀ c', c' ≠ c → (execThrough (newCell cells c srv) c srv).2.2 c' = cells c' := by
  refine ⟨by simp [execThrough, newCell], by simp [execThrough, newCell], fun c' h => ?_⟩
  simp [execThrough, newCell, h]

/-- the two handles of `concurrent_misses_do_not_share` (cells 0 and 1, both prepared under version 0) after the
schema moved to version 1: an execution through the first is told; the second STILL presents version 0 and is told
again; the cached statement is the second one -/
theorem concurrent_misses_second_handle_presents_stale :
    let cells := newCell (newCell (fun _ => 0) 0 0) 1 0
    let r0 := execThrough cells 0 1
    let r1 := execThrough r0.2.2 1 1
    r0.1 = 0 ∧ r0.2.1 = true ∧ r1.1 = 0 ∧ r1.2.1 = true ∧ (execThrough r1.2.2 0 1).1 = 1 ∧ (execThrough r1.2.2 1 1).1 = 1 := by
  decide

example : Bound 1 2 st0 := by simp [Bound, st0, countIns, isIns]
example : Inv prep0 st0 := ⟨fun e he => by simp [st0] at he, fun k e h => by simp [st0, held] at h⟩

end ScyllaVerif.Props.C14CacheConc

/-
C06 — a request not marked idempotent is never re-sent after it may have been applied.
Property theorems only (helper lemmas are `private`).
Models: `ScyllaVerif/Model/Retry.lean` (the three retry policies), `ScyllaVerif/Model/Exec.lean` (the fiber loop).

All theorems quantify over EVERY plan (list of targets, with or without a connection), EVERY outcome history
`outcomes : Nat → Outcome` (what the k-th attempt returns — any length, any errors with any field values), the
idempotence flag, the initial consistency and the policy.
-/
import ScyllaVerif.Model.Retry
import ScyllaVerif.Model.Exec

namespace ScyllaVerif.Props.C06
open ScyllaVerif.Retry ScyllaVerif.Exec

/-! ### the decision tables -/

/-- **Decision table, non-idempotent column.**  Whatever the policy, its session state, the consistency and
the error (with any field values): a retry decision for a request that is not marked idempotent is only ever
taken on an error that proves the attempt was not applied. -/
theorem decide_nonidempotent_retry_only_after_proof (pol : Policy) (s : Sess) (e : Err) (cl : Consistency)
    (h : (decideRetry pol s ⟨e, false, cl⟩).2.isRetry = true) : proofOfNonApplication e = true := by
  cases pol <;> cases e <;> try (rename_i db; cases db)
  all_goals
    simp only [decideRetry, decideDefault, decideDowngrading, decideFallthrough, maxLikelyToWorkCl,
      proofOfNonApplication] at h ⊢
  all_goals (repeat' split at h) <;> simp_all [Decision.isRetry]

end ScyllaVerif.Props.C06

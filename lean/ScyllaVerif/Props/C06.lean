/-
C06 — a request not marked idempotent is never re-sent after it may have been applied.
Property theorems only (helper lemmas are `private`).
Models: `ScyllaVerif/Model/Retry.lean` (the three retry policies), `ScyllaVerif/Model/Exec.lean` (the fiber loop).

All theorems quantify over EVERY plan (list of targets, with or without a connection), EVERY outcome history
`outcomes : Nat → Outcome` (what the k-th attempt returns — any length, any errors with any field values), the
idempotence flag, the initial consistency and the policy.  `run` = one request = one fiber over the plan.
-/
import ScyllaVerif.Model.Retry
import ScyllaVerif.Model.Exec
import ScyllaVerif.Generated.Constants

namespace ScyllaVerif.Props.C06
open ScyllaVerif.Retry ScyllaVerif.Exec

/-! ### the decision tables (every session state, every error with every field value) -/

/-- **Decision table, non-idempotent column.**  Whatever the policy, its session state, the consistency and
the error: a retry decision for a request that is not marked idempotent is only ever taken on an error that
proves the attempt was not applied. -/
theorem decide_nonidempotent_retry_only_after_proof (pol : Policy) (s : Sess) (e : Err) (cl : Consistency)
    (h : (decideRetry pol s ⟨e, false, cl⟩).2.isRetry = true) : proofOfNonApplication e = true := by
  cases pol <;> cases e <;> try (rename_i db; cases db)
  all_goals
    simp only [decideRetry, decideDefault, decideDowngrading, decideFallthrough, maxLikelyToWorkCl,
      proofOfNonApplication] at h ⊢
  all_goals (repeat' split at h) <;> simp_all [Decision.isRetry]

/-! ### "serial consistency" is exactly {SERIAL, LOCAL_SERIAL} -/

/-- The protocol code of a consistency, taken from the constants regenerated from `frame/types.rs` on every run. -/
def clCode : Consistency → Nat
  | .any => Generated.consistency_Any | .one => Generated.consistency_One | .two => Generated.consistency_Two
  | .three => Generated.consistency_Three | .quorum => Generated.consistency_Quorum | .all => Generated.consistency_All
  | .localQuorum => Generated.consistency_LocalQuorum | .eachQuorum => Generated.consistency_EachQuorum
  | .localOne => Generated.consistency_LocalOne | .serial => Generated.consistency_Serial
  | .localSerial => Generated.consistency_LocalSerial

/-- The model's `is_serial` is the two-element set {Serial, LocalSerial} — LocalSerial included. -/
theorem isSerial_iff (c : Consistency) : c.isSerial = true ↔ c = .serial ∨ c = .localSerial := by
  cases c <;> simp [Consistency.isSerial]

/-- … i.e. exactly the CQL codes 0x0008 (SERIAL) and 0x0009 (LOCAL_SERIAL), stated with the protocol's literals
(the codes of the variants come from the regenerated constants: a changed discriminant breaks this). -/
theorem isSerial_iff_code (c : Consistency) : c.isSerial = true ↔ clCode c = 0x0008 ∨ clCode c = 0x0009 := by
  cases c <;> decide

/-- The source's `Consistency::is_serial` (its `matches!` domain, re-extracted from `frame/types.rs` on every run;
the extractor fails closed if it is anything but a `matches!` over variants) is {Serial = 8, LocalSerial = 9},
the same set as the `SerialConsistency` enum, and the model's `isSerial` is membership in it. -/
theorem source_is_serial_domain :
    Generated.isSerialVariants = [("Serial", 0x0008), ("LocalSerial", 0x0009)] ∧
    Generated.isSerialVariants = Generated.serialConsistencies ∧
    ∀ c : Consistency, c.isSerial = (Generated.isSerialVariants.map (·.2)).contains (clCode c) := by
  refine ⟨by decide, by decide, fun c => ?_⟩
  cases c <;> decide

/-- The default policy answers `DontRetry` to everything at serial consistency and leaves its flags alone. -/
theorem decide_default_serial (s : Sess) (e : Err) (idem : Bool) (cl : Consistency) (h : cl.isSerial = true) :
    decideRetry .default s ⟨e, idem, cl⟩ = (s, .dontRetry) := by
  simp [decideRetry, decideDefault, h]

/-- The fallthrough policy answers `DontRetry` to everything. -/
theorem decide_fallthrough (s : Sess) (ri : ReqInfo) : decideRetry .fallthrough s ri = (s, .dontRetry) := rfl

/-- `IgnoreWriteError` (report success although the write timed out) is never decided for a request that is
not marked idempotent. -/
theorem decide_ignore_only_idempotent (pol : Policy) (s : Sess) (e : Err) (cl : Consistency) :
    (decideRetry pol s ⟨e, false, cl⟩).2 ≠ .ignoreWrite := by
  cases pol <;> cases e <;> try (rename_i db; cases db)
  all_goals
    simp only [decideRetry, decideDefault, decideDowngrading, decideFallthrough, maxLikelyToWorkCl]
  all_goals (repeat' split) <;> simp_all

/-- The same-node retry budget of a session (number of unset one-shot flags gating `RetrySameTarget`) never
grows … -/
theorem budget_nonincreasing (pol : Policy) (s : Sess) (ri : ReqInfo) :
    budget pol (decideRetry pol s ri).1 ≤ budget pol s := by
  obtain ⟨e, idem, cl⟩ := ri
  cases pol <;> cases e <;> try (rename_i db; cases db)
  all_goals
    simp only [decideRetry, decideDefault, decideDowngrading, budget]
  all_goals (repeat' split) <;> simp_all <;> omega

/-- … and every `RetrySameTarget` decision consumes one unit of it: the one-shot flags are really set, and
never reset, on every path that retries on the same node. -/
theorem budget_consumed_by_retrySame (pol : Policy) (s : Sess) (ri : ReqInfo)
    (h : (decideRetry pol s ri).2.isRetrySame = true) :
    budget pol (decideRetry pol s ri).1 + 1 ≤ budget pol s := by
  obtain ⟨e, idem, cl⟩ := ri
  cases pol <;> cases e <;> try (rename_i db; cases db)
  all_goals
    simp only [decideRetry, decideDefault, decideDowngrading, decideFallthrough, budget, maxLikelyToWorkCl] at h ⊢
  all_goals (repeat' split at h) <;> simp_all [Decision.isRetrySame] <;>
    first | omega | (split <;> simp_all <;> omega)

/-- The fixed number of same-node retries per request: default 2, downgrading 1, fallthrough 0. -/
theorem sameTargetBound_values :
    sameTargetBound .default = 2 ∧ sameTargetBound .downgrading = 1 ∧ sameTargetBound .fallthrough = 0 := by
  decide

/-- Hence one session never issues more `RetrySameTarget` decisions than its bound, over a history of any
length, with any errors and consistencies. -/
theorem replay_retrySame_bounded (pol : Policy) (idem : Bool) (s : Sess) (hist : List (Err × Consistency)) :
    ((replay pol idem s hist).filter Decision.isRetrySame).length ≤ budget pol s := by
  induction hist generalizing s with
  | nil => simp [replay]
  | cons x rest ih =>
    obtain ⟨e, cl⟩ := x
    simp only [replay, List.filter_cons]
    have h1 := budget_nonincreasing pol s ⟨e, idem, cl⟩
    have ih' := ih (decideRetry pol s ⟨e, idem, cl⟩).1
    split
    · rename_i hs
      have h2 := budget_consumed_by_retrySame pol s ⟨e, idem, cl⟩ hs
      simp only [List.length_cons]
      omega
    · omega

/-- `table_total`: every cell (policy × session state × error kind with any field values × idempotence ×
consistency) has a decision.  `decideRetry` is a total Lean function whose `match`es list every constructor
(Lean rejects a non-exhaustive match), so the wildcard arms of the Rust `match`es are closed by construction;
the statement below is therefore immediate, and is recorded for the evidence. -/
theorem table_total (pol : Policy) (s : Sess) (ri : ReqInfo) :
    ∃ s' d, decideRetry pol s ri = (s', d) := ⟨_, _, rfl⟩

/-- One decision per error of the history. -/
theorem replay_length (pol : Policy) (idem : Bool) (s : Sess) (hist : List (Err × Consistency)) :
    (replay pol idem s hist).length = hist.length := by
  induction hist generalizing s with
  | nil => rfl
  | cons x rest ih => obtain ⟨e, cl⟩ := x; simp [replay, ih]

-- non-vacuity: retry decisions exist for non-idempotent requests (on proof errors), the flags are one-shot,
-- downgrading lowers the consistency, ignore is reachable for idempotent requests
example :
    decideRetry .default Sess.init ⟨.dbError (.readTimeout 2 2 false), false, .quorum⟩ =
      ({ wasReadTimeoutRetry := true }, .retrySame none) ∧
    (decideRetry .default { wasReadTimeoutRetry := true } ⟨.dbError (.readTimeout 2 2 false), false, .quorum⟩).2 =
      .dontRetry ∧
    (decideRetry .default Sess.init ⟨.brokenConnection, true, .quorum⟩).2 = .retryNext none ∧
    (decideRetry .default Sess.init ⟨.brokenConnection, false, .quorum⟩).2 = .dontRetry ∧
    (decideRetry .downgrading Sess.init ⟨.dbError (.unavailable 2), false, .quorum⟩).2 = .retrySame (some .two) ∧
    (decideRetry .downgrading Sess.init ⟨.dbError (.writeTimeout 1 .simple), true, .quorum⟩).2 = .ignoreWrite ∧
    (decideRetry .downgrading Sess.init ⟨.dbError (.unavailable 0), false, .serial⟩).2 = .retryNext none ∧
    replay .default true Sess.init [(.dbError (.readTimeout 2 2 false), .one),
      (.dbError (.writeTimeout 0 .batchLog), .one), (.dbError (.readTimeout 2 2 false), .one)] =
      [.retrySame none, .retrySame none, .dontRetry] := by decide

/-! ### the execution loop: helper lemmas about `exec` from an arbitrary loop state -/

/-- Error of the `k`-th attempt (junk when it succeeded). -/
def errAt (outcomes : Nat → Outcome) (k : Nat) : Err :=
  match outcomes k with
  | .fail e => e
  | .ok => default

/-- The history shown to the retry session: error of each failed attempt and the consistency it was sent at. -/
def histOf (outcomes : Nat → Outcome) : Nat → List Attempt → List (Err × Consistency)
  | _, [] => []
  | k, a :: as => (errAt outcomes k, a.cl) :: histOf outcomes (k + 1) as

/-- 1 when the fiber ended with an answer to its last attempt (success, `DontRetry`, `IgnoreWriteError`),
0 when the plan ran out. -/
def answeredLast : Final → Nat
  | .exhausted _ => 0
  | .outOfFuel => 0
  | _ => 1

/-- 1 when the last attempt succeeded. -/
def succeeded : Final → Nat
  | .completed _ => 1
  | _ => 0

/-- `replay` for an arbitrary policy. -/
def replayFn {σ : Type} (P : PolicyFn σ) (idem : Bool) : σ → List (Err × Consistency) → List Decision
  | _, [] => []
  | s, (e, cl) :: rest =>
    let r := P.decide s ⟨e, idem, cl⟩
    r.2 :: replayFn P idem r.1 rest

private theorem replayFn_builtin (pol : Policy) (idem : Bool) (s : Sess) (hist : List (Err × Consistency)) :
    replayFn (builtin pol) idem s hist = replay pol idem s hist := by
  induction hist generalizing s with
  | nil => rfl
  | cons x rest ih => obtain ⟨e, cl⟩ := x; simp [replayFn, replay, ih]

/-- Number of retry decisions. -/
def countRetry (ds : List Decision) : Nat := (ds.filter Decision.isRetry).length

private theorem isRetry_of_same {d : Decision} {c} (h : d = .retrySame c) : d.isRetry = true := by
  subst h; rfl
private theorem isRetry_of_next {d : Decision} {c} (h : d = .retryNext c) : d.isRetry = true := by
  subst h; rfl
private theorem isRetrySame_of_same {d : Decision} {c} (h : d = .retrySame c) : d.isRetrySame = true := by
  subst h; rfl

private theorem exec_attempts_le (pol : Policy) (idem : Bool) (outcomes : Nat → Outcome) (fuel : Nat)
    (plan : List Target) (t : Nat) (loc : Loc Sess) :
    (exec (builtin pol) idem outcomes fuel plan t loc).attempts.length
      ≤ plan.length + budget pol (loc.sess.getD Sess.init) := by
  fun_induction exec (builtin pol) idem outcomes fuel plan t loc
  case case1 => simp
  case case2 => simp
  case case3 ih => simp only [List.length_cons] at ih ⊢; omega
  case case4 => simp only [List.length_cons, List.length_nil]; omega
  case case5 fuel av rest t loc hav a e hout created r loc' cl hd ih =>
    have h2 := budget_consumed_by_retrySame pol (loc.sess.getD Sess.init) ⟨e, idem, loc.cl⟩
      (isRetrySame_of_same hd)
    simp only [Trace.push, List.length_cons, loc', Option.getD_some, r] at ih h2 ⊢
    omega
  case case6 fuel av rest t loc hav a e hout created r loc' cl hd ih =>
    have h1 := budget_nonincreasing pol (loc.sess.getD Sess.init) ⟨e, idem, loc.cl⟩
    simp only [Trace.push, List.length_cons, loc', Option.getD_some, r] at ih h1 ⊢
    omega
  case case7 => simp only [List.length_cons, List.length_nil]; omega
  case case8 => simp only [List.length_cons, List.length_nil]; omega

private theorem exec_not_outOfFuel (pol : Policy) (idem : Bool) (outcomes : Nat → Outcome) (fuel : Nat)
    (plan : List Target) (t : Nat) (loc : Loc Sess)
    (h : plan.length + budget pol (loc.sess.getD Sess.init) < fuel) :
    (exec (builtin pol) idem outcomes fuel plan t loc).final ≠ .outOfFuel := by
  fun_induction exec (builtin pol) idem outcomes fuel plan t loc
  case case1 => simp
  case case2 => simp at h
  case case3 ih => simp only [List.length_cons] at h; exact ih (by simpa using by omega)
  case case4 => simp
  case case5 fuel av rest t loc hav a e hout created r loc' cl hd ih =>
    have h2 := budget_consumed_by_retrySame pol (loc.sess.getD Sess.init) ⟨e, idem, loc.cl⟩
      (isRetrySame_of_same hd)
    simp only [Trace.push]
    apply ih
    simp only [List.length_cons, loc', Option.getD_some, r] at h h2 ⊢
    omega
  case case6 fuel av rest t loc hav a e hout created r loc' cl hd ih =>
    have h1 := budget_nonincreasing pol (loc.sess.getD Sess.init) ⟨e, idem, loc.cl⟩
    simp only [Trace.push]
    apply ih
    simp only [List.length_cons, loc', Option.getD_some, r] at h h1 ⊢
    omega
  case case7 => simp
  case case8 => simp

private theorem exec_fuel_succ (pol : Policy) (idem : Bool) (outcomes : Nat → Outcome) (fuel : Nat)
    (plan : List Target) (t : Nat) (loc : Loc Sess)
    (h : plan.length + budget pol (loc.sess.getD Sess.init) < fuel) :
    exec (builtin pol) idem outcomes (fuel + 1) plan t loc = exec (builtin pol) idem outcomes fuel plan t loc := by
  fun_induction exec (builtin pol) idem outcomes fuel plan t loc
  case case1 => simp [exec]
  case case2 => simp at h
  case case3 fuel av rest t loc hav ih =>
    simp only [List.length_cons] at h
    rw [exec, if_pos hav]; exact ih (by simpa using by omega)
  case case4 fuel av rest t loc hav a hout => rw [exec, if_neg hav]; simp [hout, a]
  case case5 fuel av rest t loc hav a e hout created r loc' cl hd ih =>
    have h2 := budget_consumed_by_retrySame pol (loc.sess.getD Sess.init) ⟨e, idem, loc.cl⟩
      (isRetrySame_of_same hd)
    have ih' := ih (by simp only [List.length_cons, loc', Option.getD_some, r] at h h2 ⊢; omega)
    rw [exec, if_neg hav]; simp only [hout]
    simp only [r] at hd
    simp only [hd]
    simp only [loc', r, hd] at ih'
    simp only [hd, ih', loc', a, created, r]
  case case6 fuel av rest t loc hav a e hout created r loc' cl hd ih =>
    have h1 := budget_nonincreasing pol (loc.sess.getD Sess.init) ⟨e, idem, loc.cl⟩
    have ih' := ih (by simp only [List.length_cons, loc', Option.getD_some, r] at h h1 ⊢; omega)
    rw [exec, if_neg hav]; simp only [hout]
    simp only [r] at hd
    simp only [hd]
    simp only [loc', r, hd] at ih'
    simp only [hd, ih', loc', a, created, r]
  case case7 fuel av rest t loc hav a e hout created r hd =>
    rw [exec, if_neg hav]; simp only [hout]; simp only [r] at hd; simp only [hd, a, created]
  case case8 fuel av rest t loc hav a e hout created r hd =>
    rw [exec, if_neg hav]; simp only [hout]; simp only [r] at hd; simp only [hd, a, created]

private theorem exec_nonidem (pol : Policy) (outcomes : Nat → Outcome) (fuel : Nat)
    (plan : List Target) (t : Nat) (loc : Loc Sess) (i : Nat)
    (hi : i + 1 < (exec (builtin pol) false outcomes fuel plan t loc).attempts.length) :
    ∃ e, outcomes (loc.k + i) = .fail e ∧ proofOfNonApplication e = true := by
  fun_induction exec (builtin pol) false outcomes fuel plan t loc generalizing i
  case case1 => simp at hi
  case case2 => simp at hi
  case case3 ih => exact ih i hi
  case case4 => simp at hi
  case case5 fuel av rest t loc hav a e hout created r loc' cl hd ih =>
    cases i with
    | zero =>
      exact ⟨e, by simpa using hout,
        decide_nonidempotent_retry_only_after_proof pol _ e loc.cl (isRetry_of_same hd)⟩
    | succ j =>
      have := ih j (by simpa [Trace.push] using hi)
      simpa [loc', Nat.add_assoc, Nat.add_comm 1 j] using this
  case case6 fuel av rest t loc hav a e hout created r loc' cl hd ih =>
    cases i with
    | zero =>
      exact ⟨e, by simpa using hout,
        decide_nonidempotent_retry_only_after_proof pol _ e loc.cl (isRetry_of_next hd)⟩
    | succ j =>
      have := ih j (by simpa [Trace.push] using hi)
      simpa [loc', Nat.add_assoc, Nat.add_comm 1 j] using this
  case case7 => simp at hi
  case case8 => simp at hi

private theorem exec_default_serial (idem : Bool) (outcomes : Nat → Outcome) (fuel : Nat)
    (plan : List Target) (t : Nat) (loc : Loc Sess) (h : loc.cl.isSerial = true) :
    (exec (builtin .default) idem outcomes fuel plan t loc).attempts.length ≤ 1 := by
  fun_induction exec (builtin .default) idem outcomes fuel plan t loc
  case case1 => simp
  case case2 => simp
  case case3 ih => exact ih h
  case case4 => simp
  case case5 fuel av rest t loc hav a e hout created r loc' cl hd ih =>
    simp [r, decide_default_serial _ e idem loc.cl h] at hd
  case case6 fuel av rest t loc hav a e hout created r loc' cl hd ih =>
    simp [r, decide_default_serial _ e idem loc.cl h] at hd
  case case7 => simp
  case case8 => simp

private theorem exec_fallthrough (idem : Bool) (outcomes : Nat → Outcome) (fuel : Nat)
    (plan : List Target) (t : Nat) (loc : Loc Sess) :
    (exec (builtin .fallthrough) idem outcomes fuel plan t loc).attempts.length ≤ 1 := by
  fun_induction exec (builtin .fallthrough) idem outcomes fuel plan t loc
  case case1 => simp
  case case2 => simp
  case case3 ih => exact ih
  case case4 => simp
  case case5 fuel av rest t loc hav a e hout created r loc' cl hd ih =>
    simp [r, decide_fallthrough] at hd
  case case6 fuel av rest t loc hav a e hout created r loc' cl hd ih =>
    simp [r, decide_fallthrough] at hd
  case case7 => simp
  case case8 => simp

/-- attempts = retry decisions + (1 unless the plan ran out / fuel), decisions = failed attempts. -/
private theorem exec_counts {σ : Type} (P : PolicyFn σ) (idem : Bool) (outcomes : Nat → Outcome) (fuel : Nat)
    (plan : List Target) (t : Nat) (loc : Loc σ) :
    let tr := exec P idem outcomes fuel plan t loc
    tr.attempts.length = countRetry tr.decisions + answeredLast tr.final ∧
    tr.attempts.length = tr.decisions.length + succeeded tr.final := by
  fun_induction exec P idem outcomes fuel plan t loc
  case case1 => simp [countRetry, answeredLast, succeeded]
  case case2 => simp [countRetry, answeredLast, succeeded]
  case case3 ih => exact ih
  case case4 => simp [countRetry, answeredLast, succeeded]
  case case5 fuel av rest t loc hav a e hout created r loc' cl hd ih =>
    have hr := isRetry_of_same hd
    simp only [Trace.push, List.length_cons, countRetry, List.filter_cons, hr, if_true] at ih ⊢
    omega
  case case6 fuel av rest t loc hav a e hout created r loc' cl hd ih =>
    have hr := isRetry_of_next hd
    simp only [Trace.push, List.length_cons, countRetry, List.filter_cons, hr, if_true] at ih ⊢
    omega
  case case7 => simp [countRetry, Decision.isRetry, answeredLast, succeeded]
  case case8 => simp [countRetry, Decision.isRetry, answeredLast, succeeded]

/-- The first attempt made from a loop state: at the current consistency; on the current target exactly when its
next `get_connection()` succeeds, else on a later one. -/
private theorem exec_first {σ : Type} (P : PolicyFn σ) (idem : Bool) (outcomes : Nat → Outcome) (fuel : Nat)
    (plan : List Target) (t : Nat) (loc : Loc σ) (b : Attempt)
    (hb : (exec P idem outcomes fuel plan t loc).attempts[0]? = some b) :
    b.cl = loc.cl ∧ t ≤ b.target ∧ (∀ av rest, plan = av :: rest → (av 0 = true ↔ b.target = t)) := by
  fun_induction exec P idem outcomes fuel plan t loc
  case case1 => simp at hb
  case case2 => simp at hb
  case case3 fuel av rest t loc hav ih =>
    obtain ⟨h1, h2, _⟩ := ih hb
    refine ⟨h1, by omega, ?_⟩
    intro av' rest' he
    cases he
    constructor
    · intro h0; rw [hav] at h0; cases h0
    · intro h0; omega
  case case4 fuel av rest t loc hav a hout =>
    simp only [List.getElem?_cons_zero, Option.some.injEq] at hb; subst hb
    refine ⟨by simp [a], by simp [a], ?_⟩
    intro av' rest' he; cases he; simpa [a] using hav
  case case5 fuel av rest t loc hav a e hout created r loc' cl hd ih =>
    simp only [Trace.push, List.getElem?_cons_zero, Option.some.injEq] at hb; subst hb
    refine ⟨by simp [a], by simp [a], ?_⟩
    intro av' rest' he; cases he; simpa [a] using hav
  case case6 fuel av rest t loc hav a e hout created r loc' cl hd ih =>
    simp only [Trace.push, List.getElem?_cons_zero, Option.some.injEq] at hb; subst hb
    refine ⟨by simp [a], by simp [a], ?_⟩
    intro av' rest' he; cases he; simpa [a] using hav
  case case7 fuel av rest t loc hav a e hout created r hd =>
    simp only [List.getElem?_cons_zero, Option.some.injEq] at hb; subst hb
    refine ⟨by simp [a], by simp [a], ?_⟩
    intro av' rest' he; cases he; simpa [a] using hav
  case case8 fuel av rest t loc hav a e hout created r hd =>
    simp only [List.getElem?_cons_zero, Option.some.injEq] at hb; subst hb
    refine ⟨by simp [a], by simp [a], ?_⟩
    intro av' rest' he; cases he; simpa [a] using hav

/-- Every target passed over before the first attempt had a failing `get_connection()`. -/
private theorem exec_first_skips {σ : Type} (P : PolicyFn σ) (idem : Bool) (outcomes : Nat → Outcome) (fuel : Nat)
    (plan : List Target) (t : Nat) (loc : Loc σ) (b : Attempt)
    (hb : (exec P idem outcomes fuel plan t loc).attempts[0]? = some b) (t' : Nat) (h1 : t ≤ t')
    (h2 : t' < b.target) (av' : Target) (hav' : plan[t' - t]? = some av') : av' 0 = false := by
  fun_induction exec P idem outcomes fuel plan t loc
  case case1 => simp at hb
  case case2 => simp at hb
  case case3 fuel av rest t loc hav ih =>
    by_cases ht : t' = t
    · subst ht; simp only [Nat.sub_self, List.getElem?_cons_zero, Option.some.injEq] at hav'
      rw [← hav']; exact hav
    · have : t' - t = (t' - (t + 1)) + 1 := by omega
      rw [this, List.getElem?_cons_succ] at hav'
      exact ih hb (by omega) hav'
  case case4 fuel av rest t loc hav a hout =>
    simp only [List.getElem?_cons_zero, Option.some.injEq] at hb; subst hb; simp only [a] at h2; omega
  case case5 fuel av rest t loc hav a e hout created r loc' cl hd ih =>
    simp only [Trace.push, List.getElem?_cons_zero, Option.some.injEq] at hb; subst hb; simp only [a] at h2; omega
  case case6 fuel av rest t loc hav a e hout created r loc' cl hd ih =>
    simp only [Trace.push, List.getElem?_cons_zero, Option.some.injEq] at hb; subst hb; simp only [a] at h2; omega
  case case7 fuel av rest t loc hav a e hout created r hd =>
    simp only [List.getElem?_cons_zero, Option.some.injEq] at hb; subst hb; simp only [a] at h2; omega
  case case8 fuel av rest t loc hav a e hout created r hd =>
    simp only [List.getElem?_cons_zero, Option.some.injEq] at hb; subst hb; simp only [a] at h2; omega

private theorem cons_next_some {av : Target} {rest : List Target} {n : Nat} {av' : Target}
    (h : (av.next :: rest)[n]? = some av') (hj : ∃ j, av' j = true) :
    ∃ av'', (av :: rest)[n]? = some av'' ∧ ∃ j, av'' j = true := by
  cases n with
  | zero =>
    simp only [List.getElem?_cons_zero, Option.some.injEq] at h
    obtain ⟨j, hj⟩ := hj
    exact ⟨av, by simp, j + 1, by rw [← h] at hj; exact hj⟩
  | succ m => exact ⟨av', by simpa using h, hj⟩

private theorem cons_next_always {av : Target} {rest : List Target} {n : Nat} {av' : Target}
    (h : (av :: rest)[n]? = some av') (hj : ∀ j, av' j = true) :
    ∃ av'', (av.next :: rest)[n]? = some av'' ∧ ∀ j, av'' j = true := by
  cases n with
  | zero =>
    simp only [List.getElem?_cons_zero, Option.some.injEq] at h
    exact ⟨av.next, by simp, fun j => by rw [← h] at hj; exact hj (j + 1)⟩
  | succ m => exact ⟨av', by simpa using h, hj⟩

/-- Every attempt goes to a target of the plan on which some `get_connection()` call yields a connection. -/
private theorem exec_targets {σ : Type} (P : PolicyFn σ) (idem : Bool) (outcomes : Nat → Outcome) (fuel : Nat)
    (plan : List Target) (t : Nat) (loc : Loc σ) (b : Attempt)
    (hb : b ∈ (exec P idem outcomes fuel plan t loc).attempts) :
    t ≤ b.target ∧ ∃ av, plan[b.target - t]? = some av ∧ ∃ j, av j = true := by
  fun_induction exec P idem outcomes fuel plan t loc
  case case1 => simp at hb
  case case2 => simp at hb
  case case3 fuel av rest t loc hav ih =>
    obtain ⟨h1, av', h2, h3⟩ := ih hb
    refine ⟨by omega, av', ?_, h3⟩
    have : b.target - t = (b.target - (t + 1)) + 1 := by omega
    rw [this, List.getElem?_cons_succ]; exact h2
  case case4 fuel av rest t loc hav a hout =>
    simp only [List.mem_singleton] at hb; subst hb
    exact ⟨by simp [a], av, by simp [a], 0, by simpa using hav⟩
  case case5 fuel av rest t loc hav a e hout created r loc' cl hd ih =>
    simp only [Trace.push, List.mem_cons] at hb
    rcases hb with hb | hb
    · subst hb; exact ⟨by simp [a], av, by simp [a], 0, by simpa using hav⟩
    · obtain ⟨h1, av', h2, h3⟩ := ih hb
      exact ⟨h1, cons_next_some h2 h3⟩
  case case6 fuel av rest t loc hav a e hout created r loc' cl hd ih =>
    simp only [Trace.push, List.mem_cons] at hb
    rcases hb with hb | hb
    · subst hb; exact ⟨by simp [a], av, by simp [a], 0, by simpa using hav⟩
    · obtain ⟨h1, av', h2, h3⟩ := ih hb
      refine ⟨by omega, av', ?_, h3⟩
      have : b.target - t = (b.target - (t + 1)) + 1 := by omega
      rw [this, List.getElem?_cons_succ]; exact h2
  case case7 fuel av rest t loc hav a e hout created r hd =>
    simp only [List.mem_singleton] at hb; subst hb
    exact ⟨by simp [a], av, by simp [a], 0, by simpa using hav⟩
  case case8 fuel av rest t loc hav a e hout created r hd =>
    simp only [List.mem_singleton] at hb; subst hb
    exact ⟨by simp [a], av, by simp [a], 0, by simpa using hav⟩

/-- Number of attempts of `as` that went to target `tg` (= number of successful `get_connection()` calls made
on it). -/
def callsOn (as : List Attempt) (tg : Nat) : Nat := (as.filter (fun x => x.target == tg)).length

private theorem callsOn_cons_take_eq {x : Attempt} {as : List Attempt} {n tg : Nat} (h : x.target = tg) :
    callsOn ((x :: as).take (n + 1)) tg = callsOn (as.take n) tg + 1 := by
  simp [callsOn, List.take_succ_cons, h]

private theorem callsOn_cons_take_ne {x : Attempt} {as : List Attempt} {n tg : Nat} (h : x.target ≠ tg) :
    callsOn ((x :: as).take (n + 1)) tg = callsOn (as.take n) tg := by
  simp [callsOn, List.take_succ_cons, h]

/-- Attempt `i+1` follows decision `i`: it is a retry decision, the consistency is the one it named (or
unchanged); after `RetryNextTarget` the target is a later one; after `RetrySameTarget` it is the same target
exactly when that target's next `get_connection()` call succeeds (`execution.rs:536-547`), else a later one; and
every target passed over between the two attempts had a failing `get_connection()`. -/
private theorem exec_threading {σ : Type} (P : PolicyFn σ) (idem : Bool) (outcomes : Nat → Outcome) (fuel : Nat)
    (plan : List Target) (t : Nat) (loc : Loc σ) (i : Nat) (a b : Attempt)
    (ha : (exec P idem outcomes fuel plan t loc).attempts[i]? = some a)
    (hb : (exec P idem outcomes fuel plan t loc).attempts[i + 1]? = some b) :
    ∃ d, (exec P idem outcomes fuel plan t loc).decisions[i]? = some d ∧ d.isRetry = true ∧
      b.cl = d.newCl.getD a.cl ∧
      (d.isRetrySame = true → a.target ≤ b.target ∧
        (∀ av, plan[a.target - t]? = some av →
          (av (callsOn ((exec P idem outcomes fuel plan t loc).attempts.take (i + 1)) a.target) = true
            ↔ b.target = a.target))) ∧
      (d.isRetrySame = false → a.target < b.target) ∧
      (∀ t', a.target < t' → t' < b.target → ∀ av, plan[t' - t]? = some av → av 0 = false) := by
  fun_induction exec P idem outcomes fuel plan t loc generalizing i
  case case1 => simp at hb
  case case2 => simp at hb
  case case3 fuel av rest t loc hav ih =>
    obtain ⟨d, h1, h2, h3, h4, h5, h6⟩ := ih i ha hb
    have hta := (exec_targets _ _ _ _ _ _ _ _ (List.mem_of_getElem? ha)).1
    refine ⟨d, h1, h2, h3, fun hs => ⟨(h4 hs).1, fun av' hav' => (h4 hs).2 av' ?_⟩, h5, ?_⟩
    · have : a.target - t = (a.target - (t + 1)) + 1 := by omega
      rw [this, List.getElem?_cons_succ] at hav'; exact hav'
    · intro t' q1 q2 av' hav'
      have : t' - t = (t' - (t + 1)) + 1 := by omega
      rw [this, List.getElem?_cons_succ] at hav'
      exact h6 t' q1 q2 av' hav'
  case case4 => simp at hb
  case case5 fuel av rest t loc hav a0 e hout created r loc' cl hd ih =>
    cases i with
    | zero =>
      simp only [Trace.push, List.getElem?_cons_zero, Option.some.injEq] at ha
      simp only [Trace.push, Nat.zero_add, List.getElem?_cons_succ] at hb
      obtain ⟨h1, h2, h3⟩ := exec_first _ _ _ _ _ _ _ _ hb
      have hsk := exec_first_skips _ _ _ _ _ _ _ _ hb
      subst ha
      refine ⟨r.2, by simp [Trace.push], isRetry_of_same hd, ?_, ?_, ?_, ?_⟩
      · simpa [loc', a0] using h1
      · intro _
        refine ⟨by simpa [a0] using h2, ?_⟩
        intro av' hav'
        simp only [a0, Nat.sub_self, List.getElem?_cons_zero, Option.some.injEq] at hav'
        subst hav'
        have := h3 av.next rest rfl
        simpa [Trace.push, callsOn, a0, Target.next] using this
      · intro hc; rw [isRetrySame_of_same hd] at hc; cases hc
      · intro t' q1 q2 av' hav'
        simp only [a0] at q1
        have e1 : t' - t = (t' - t - 1) + 1 := by omega
        refine hsk t' (by omega) q2 av' ?_
        rw [e1, List.getElem?_cons_succ] at hav' ⊢; exact hav'
    | succ j =>
      simp only [Trace.push, List.getElem?_cons_succ] at ha hb
      obtain ⟨d, h1, h2, h3, h4, h5, h6⟩ := ih j ha hb
      have hta := (exec_targets _ _ _ _ _ _ _ _ (List.mem_of_getElem? ha)).1
      refine ⟨d, by simpa [Trace.push] using h1, h2, h3, fun hs => ⟨(h4 hs).1, fun av' hav' => ?_⟩, h5, ?_⟩
      · by_cases hta0 : a.target = t
        · have e0 : a.target - t = 0 := by omega
          rw [e0, List.getElem?_cons_zero, Option.some.injEq] at hav'
          subst hav'
          have := (h4 hs).2 av.next (by rw [e0]; simp)
          simp only [Trace.push]
          rw [callsOn_cons_take_eq (by simp [a0, hta0])]
          exact this
        · have e1 : a.target - t = (a.target - t - 1) + 1 := by omega
          have := (h4 hs).2 av' (by rw [e1, List.getElem?_cons_succ] at hav' ⊢; exact hav')
          simp only [Trace.push]
          rw [callsOn_cons_take_ne (by simp only [a0]; exact fun h => hta0 h.symm)]
          exact this
      · intro t' q1 q2 av' hav'
        have e1 : t' - t = (t' - t - 1) + 1 := by omega
        refine h6 t' q1 q2 av' ?_
        rw [e1, List.getElem?_cons_succ] at hav' ⊢; exact hav'
  case case6 fuel av rest t loc hav a0 e hout created r loc' cl hd ih =>
    cases i with
    | zero =>
      simp only [Trace.push, List.getElem?_cons_zero, Option.some.injEq] at ha
      simp only [Trace.push, Nat.zero_add, List.getElem?_cons_succ] at hb
      obtain ⟨h1, h2, h3⟩ := exec_first _ _ _ _ _ _ _ _ hb
      have hsk := exec_first_skips _ _ _ _ _ _ _ _ hb
      subst ha
      refine ⟨r.2, by simp [Trace.push], isRetry_of_next hd, ?_, ?_, ?_, ?_⟩
      · simpa [loc', a0] using h1
      · intro hc; rw [hd] at hc; cases hc
      · intro _; simp only [a0]; omega
      · intro t' q1 q2 av' hav'
        simp only [a0] at q1
        have e1 : t' - t = (t' - (t + 1)) + 1 := by omega
        rw [e1, List.getElem?_cons_succ] at hav'
        exact hsk t' (by omega) q2 av' hav'
    | succ j =>
      simp only [Trace.push, List.getElem?_cons_succ] at ha hb
      obtain ⟨d, h1, h2, h3, h4, h5, h6⟩ := ih j ha hb
      have hta := (exec_targets _ _ _ _ _ _ _ _ (List.mem_of_getElem? ha)).1
      refine ⟨d, by simpa [Trace.push] using h1, h2, h3, fun hs => ⟨(h4 hs).1, fun av' hav' => ?_⟩, h5, ?_⟩
      · have e1 : a.target - t = (a.target - (t + 1)) + 1 := by omega
        have := (h4 hs).2 av' (by rw [e1, List.getElem?_cons_succ] at hav'; exact hav')
        simp only [Trace.push]
        rw [callsOn_cons_take_ne (by simp only [a0]; omega)]
        exact this
      · intro t' q1 q2 av' hav'
        have e1 : t' - t = (t' - (t + 1)) + 1 := by omega
        rw [e1, List.getElem?_cons_succ] at hav'
        exact h6 t' q1 q2 av' hav'
  case case7 => simp at hb
  case case8 => simp at hb

/-- The decisions are exactly what ONE session of the policy answers when it is shown, in order, the error of
each failed attempt together with the idempotence flag and the consistency that attempt was sent at. -/
private theorem exec_decisions_replay {σ : Type} (P : PolicyFn σ) (idem : Bool) (outcomes : Nat → Outcome) (fuel : Nat)
    (plan : List Target) (t : Nat) (loc : Loc σ) :
    let tr := exec P idem outcomes fuel plan t loc
    tr.decisions = replayFn P idem (loc.sess.getD P.init)
      (histOf outcomes loc.k (tr.attempts.take tr.decisions.length)) := by
  fun_induction exec P idem outcomes fuel plan t loc
  case case1 => simp [histOf, replayFn]
  case case2 => simp [histOf, replayFn]
  case case3 ih => exact ih
  case case4 => simp [histOf, replayFn]
  case case5 fuel av rest t loc hav a e hout created r loc' cl hd ih =>
    simp only [Trace.push, List.length_cons, List.take_succ_cons, histOf, replayFn, errAt, hout] at ih ⊢
    simp only [loc', Option.getD_some] at ih
    simp only [a, r, List.cons.injEq, true_and]
    exact ih
  case case6 fuel av rest t loc hav a e hout created r loc' cl hd ih =>
    simp only [Trace.push, List.length_cons, List.take_succ_cons, histOf, replayFn, errAt, hout] at ih ⊢
    simp only [loc', Option.getD_some] at ih
    simp only [a, r, List.cons.injEq, true_and]
    exact ih
  case case7 fuel av rest t loc hav a e hout created r hd =>
    simp only [List.length_cons, List.length_nil, List.take_succ_cons, List.take_zero, histOf, replayFn, errAt,
      hout, a]
    simp only [r] at hd; simp [hd]
  case case8 fuel av rest t loc hav a e hout created r hd =>
    simp only [List.length_cons, List.length_nil, List.take_succ_cons, List.take_zero, histOf, replayFn, errAt,
      hout, a]
    simp only [r] at hd; simp [hd]

private theorem exec_sessions {σ : Type} (P : PolicyFn σ) (idem : Bool) (outcomes : Nat → Outcome) (fuel : Nat)
    (plan : List Target) (t : Nat) (loc : Loc σ) :
    let tr := exec P idem outcomes fuel plan t loc
    tr.newSessions = if loc.sess.isSome || tr.decisions.isEmpty then 0 else 1 := by
  fun_induction exec P idem outcomes fuel plan t loc
  case case1 => simp
  case case2 => simp
  case case3 ih => exact ih
  case case4 => simp
  case case5 fuel av rest t loc hav a e hout created r loc' cl hd ih =>
    simp only [Trace.push, loc', Option.isSome_some, Bool.true_or, if_true] at ih ⊢
    simp only [ih, created]; cases loc.sess <;> simp
  case case6 fuel av rest t loc hav a e hout created r loc' cl hd ih =>
    simp only [Trace.push, loc', Option.isSome_some, Bool.true_or, if_true] at ih ⊢
    simp only [ih, created]; cases loc.sess <;> simp
  case case7 fuel av rest t loc hav a e hout created r hd => simp only [created]; cases loc.sess <;> simp
  case case8 fuel av rest t loc hav a e hout created r hd => simp only [created]; cases loc.sess <;> simp

private theorem exec_ignored_idem (pol : Policy) (outcomes : Nat → Outcome) (fuel : Nat)
    (plan : List Target) (t : Nat) (loc : Loc Sess) (tg : Nat) :
    (exec (builtin pol) false outcomes fuel plan t loc).final ≠ .ignored tg := by
  fun_induction exec (builtin pol) false outcomes fuel plan t loc
  case case1 => simp
  case case2 => simp
  case case3 ih => exact ih
  case case4 => simp
  case case5 ih => simpa [Trace.push] using ih
  case case6 ih => simpa [Trace.push] using ih
  case case7 => simp
  case case8 fuel av rest t loc hav a e hout created r hd =>
    exact absurd hd (decide_ignore_only_idempotent pol _ e loc.cl)

/-- How the fiber ends, tied to the last attempt. -/
private theorem exec_final {σ : Type} (P : PolicyFn σ) (idem : Bool) (outcomes : Nat → Outcome) (fuel : Nat)
    (plan : List Target) (t : Nat) (loc : Loc σ) :
    let tr := exec P idem outcomes fuel plan t loc
    (∀ tg, tr.final = .completed tg → tr.attempts ≠ [] ∧
      outcomes (loc.k + tr.attempts.length - 1) = .ok ∧ (tr.attempts.getLast?.map (·.target)) = some tg) ∧
    (∀ e, tr.final = .stopped e → tr.attempts ≠ [] ∧
      outcomes (loc.k + tr.attempts.length - 1) = .fail e ∧ tr.decisions.getLast? = some .dontRetry) ∧
    (∀ tg, tr.final = .ignored tg → tr.attempts ≠ [] ∧
      tr.decisions.getLast? = some .ignoreWrite ∧ (tr.attempts.getLast?.map (·.target)) = some tg) := by
  fun_induction exec P idem outcomes fuel plan t loc
  case case1 => simp
  case case2 => simp
  case case3 ih => exact ih
  case case4 fuel av rest t loc hav a hout => simp [hout, a]
  case case5 fuel av rest t loc hav a e hout created r loc' cl hd ih =>
    simp only [Trace.push, loc'] at ih ⊢
    obtain ⟨i1, i2, i3⟩ := ih
    refine ⟨fun tg h => ?_, fun e h => ?_, fun tg h => ?_⟩
    · obtain ⟨n1, n2, n3⟩ := i1 tg h
      refine ⟨by simp, ?_, ?_⟩
      · have : 0 < (exec P idem outcomes fuel (av.next :: rest) t loc').attempts.length :=
          List.length_pos_iff.mpr n1
        simp only [List.length_cons, loc'] at n2 this ⊢
        have e1 : loc.k + ((exec P idem outcomes fuel (av.next :: rest) t loc').attempts.length + 1) - 1
            = loc.k + 1 + (exec P idem outcomes fuel (av.next :: rest) t loc').attempts.length - 1 := by omega
        rw [e1]; exact n2
      · rw [List.getLast?_cons_of_ne_nil n1]; exact n3
    · obtain ⟨n1, n2, n3⟩ := i2 e h
      refine ⟨by simp, ?_, ?_⟩
      · have : 0 < (exec P idem outcomes fuel (av.next :: rest) t loc').attempts.length :=
          List.length_pos_iff.mpr n1
        simp only [List.length_cons, loc'] at n2 this ⊢
        have e1 : loc.k + ((exec P idem outcomes fuel (av.next :: rest) t loc').attempts.length + 1) - 1
            = loc.k + 1 + (exec P idem outcomes fuel (av.next :: rest) t loc').attempts.length - 1 := by omega
        rw [e1]; exact n2
      · have hne : (exec P idem outcomes fuel (av.next :: rest) t loc').decisions ≠ [] := by
          intro hnil; rw [hnil] at n3; simp at n3
        rw [List.getLast?_cons_of_ne_nil hne]; exact n3
    · obtain ⟨n1, n2, n3⟩ := i3 tg h
      refine ⟨by simp, ?_, ?_⟩
      · have hne : (exec P idem outcomes fuel (av.next :: rest) t loc').decisions ≠ [] := by
          intro hnil; rw [hnil] at n2; simp at n2
        rw [List.getLast?_cons_of_ne_nil hne]; exact n2
      · rw [List.getLast?_cons_of_ne_nil n1]; exact n3
  case case6 fuel av rest t loc hav a e hout created r loc' cl hd ih =>
    simp only [Trace.push, loc'] at ih ⊢
    obtain ⟨i1, i2, i3⟩ := ih
    refine ⟨fun tg h => ?_, fun e h => ?_, fun tg h => ?_⟩
    · obtain ⟨n1, n2, n3⟩ := i1 tg h
      refine ⟨by simp, ?_, ?_⟩
      · have : 0 < (exec P idem outcomes fuel rest (t + 1) loc').attempts.length :=
          List.length_pos_iff.mpr n1
        simp only [List.length_cons, loc'] at n2 this ⊢
        have e1 : loc.k + ((exec P idem outcomes fuel rest (t + 1) loc').attempts.length + 1) - 1
            = loc.k + 1 + (exec P idem outcomes fuel rest (t + 1) loc').attempts.length - 1 := by omega
        rw [e1]; exact n2
      · rw [List.getLast?_cons_of_ne_nil n1]; exact n3
    · obtain ⟨n1, n2, n3⟩ := i2 e h
      refine ⟨by simp, ?_, ?_⟩
      · have : 0 < (exec P idem outcomes fuel rest (t + 1) loc').attempts.length :=
          List.length_pos_iff.mpr n1
        simp only [List.length_cons, loc'] at n2 this ⊢
        have e1 : loc.k + ((exec P idem outcomes fuel rest (t + 1) loc').attempts.length + 1) - 1
            = loc.k + 1 + (exec P idem outcomes fuel rest (t + 1) loc').attempts.length - 1 := by omega
        rw [e1]; exact n2
      · have hne : (exec P idem outcomes fuel rest (t + 1) loc').decisions ≠ [] := by
          intro hnil; rw [hnil] at n3; simp at n3
        rw [List.getLast?_cons_of_ne_nil hne]; exact n3
    · obtain ⟨n1, n2, n3⟩ := i3 tg h
      refine ⟨by simp, ?_, ?_⟩
      · have hne : (exec P idem outcomes fuel rest (t + 1) loc').decisions ≠ [] := by
          intro hnil; rw [hnil] at n2; simp at n2
        rw [List.getLast?_cons_of_ne_nil hne]; exact n2
      · rw [List.getLast?_cons_of_ne_nil n1]; exact n3
  case case7 fuel av rest t loc hav a e hout created r hd => simp [hout]
  case case8 fuel av rest t loc hav a e hout created r hd => simp [a]

/-- An attempt is followed by another one only if it failed (any request). -/
private theorem exec_resend_after_failure {σ : Type} (P : PolicyFn σ) (idem : Bool) (outcomes : Nat → Outcome) (fuel : Nat)
    (plan : List Target) (t : Nat) (loc : Loc σ) (i : Nat)
    (hi : i + 1 < (exec P idem outcomes fuel plan t loc).attempts.length) :
    ∃ e, outcomes (loc.k + i) = .fail e := by
  fun_induction exec P idem outcomes fuel plan t loc generalizing i
  case case1 => simp at hi
  case case2 => simp at hi
  case case3 ih => exact ih i hi
  case case4 => simp at hi
  case case5 fuel av rest t loc hav a e hout created r loc' cl hd ih =>
    cases i with
    | zero => exact ⟨e, by simpa using hout⟩
    | succ j =>
      have := ih j (by simpa [Trace.push] using hi)
      simpa [loc', Nat.add_assoc, Nat.add_comm 1 j] using this
  case case6 fuel av rest t loc hav a e hout created r loc' cl hd ih =>
    cases i with
    | zero => exact ⟨e, by simpa using hout⟩
    | succ j =>
      have := ih j (by simpa [Trace.push] using hi)
      simpa [loc', Nat.add_assoc, Nat.add_comm 1 j] using this
  case case7 => simp at hi
  case case8 => simp at hi

/-- Every attempt that was answered by a decision failed. -/
private theorem exec_decided_failed {σ : Type} (P : PolicyFn σ) (idem : Bool) (outcomes : Nat → Outcome)
    (fuel : Nat) (plan : List Target) (t : Nat) (loc : Loc σ) (i : Nat)
    (hi : i < (exec P idem outcomes fuel plan t loc).decisions.length) :
    ∃ e, outcomes (loc.k + i) = .fail e := by
  fun_induction exec P idem outcomes fuel plan t loc generalizing i
  case case1 => simp at hi
  case case2 => simp at hi
  case case3 ih => exact ih i hi
  case case4 => simp at hi
  case case5 fuel av rest t loc hav a e hout created r loc' cl hd ih =>
    cases i with
    | zero => exact ⟨e, by simpa using hout⟩
    | succ j =>
      have := ih j (by simpa [Trace.push] using hi)
      simpa [loc', Nat.add_assoc, Nat.add_comm 1 j] using this
  case case6 fuel av rest t loc hav a e hout created r loc' cl hd ih =>
    cases i with
    | zero => exact ⟨e, by simpa using hout⟩
    | succ j =>
      have := ih j (by simpa [Trace.push] using hi)
      simpa [loc', Nat.add_assoc, Nat.add_comm 1 j] using this
  case case7 fuel av rest t loc hav a e hout created r hd =>
    have : i = 0 := by simpa using hi
    subst this; exact ⟨e, by simpa using hout⟩
  case case8 fuel av rest t loc hav a e hout created r hd =>
    have : i = 0 := by simpa using hi
    subst this; exact ⟨e, by simpa using hout⟩

/-! ### the property theorems — about `run pol idem cl0 plan outcomes`: one request, one fiber -/

section
variable (pol : Policy) (idem : Bool) (cl0 : Consistency) (plan : List Target) (outcomes : Nat → Outcome)

/-- **C06, main statement.**  A request that is not marked idempotent is sent again (attempt `k+1` exists) only
if attempt `k` failed with an error proving it was not applied: unavailable, bootstrapping, no free stream id,
read timeout.  Every plan, every outcome history, every initial consistency, each of the three policies. -/
theorem nonidempotent_resend_only_after_proof (k : Nat)
    (h : k + 1 < (run pol false cl0 plan outcomes).attempts.length) :
    ∃ e, outcomes k = .fail e ∧ proofOfNonApplication e = true := by
  have := exec_nonidem pol outcomes _ plan 0 (Loc.init cl0) k h
  simpa [Loc.init] using this

/-- Contrapositive, for any error outside the four "proof" errors: attempt `k` is the last one. -/
theorem nonidempotent_never_resent_after (k : Nat) (e : Err) (hk : outcomes k = .fail e)
    (he : proofOfNonApplication e = false) :
    (run pol false cl0 plan outcomes).attempts.length ≤ k + 1 := by
  apply Nat.le_of_not_lt
  intro h
  obtain ⟨e', h1, h2⟩ := nonidempotent_resend_only_after_proof pol cl0 plan outcomes k h
  rw [hk] at h1; cases h1; rw [he] at h2; cases h2

/-- … never after a broken connection, -/
theorem never_after_broken_connection (k : Nat) (hk : outcomes k = .fail .brokenConnection) :
    (run pol false cl0 plan outcomes).attempts.length ≤ k + 1 :=
  nonidempotent_never_resent_after pol cl0 plan outcomes k _ hk rfl

/-- … never after an overloaded / server / truncate error, -/
theorem never_after_overloaded_server_truncate (k : Nat) (db : DbErr)
    (hdb : db = .overloaded ∨ db = .serverError ∨ db = .truncateError)
    (hk : outcomes k = .fail (.dbError db)) :
    (run pol false cl0 plan outcomes).attempts.length ≤ k + 1 := by
  apply nonidempotent_never_resent_after pol cl0 plan outcomes k _ hk
  rcases hdb with h | h | h <;> subst h <;> rfl

/-- … never after a write timeout (whatever `received` and the write type). -/
theorem never_after_write_timeout (k : Nat) (received : Int) (wt : WriteType)
    (hk : outcomes k = .fail (.dbError (.writeTimeout received wt))) :
    (run pol false cl0 plan outcomes).attempts.length ≤ k + 1 :=
  nonidempotent_never_resent_after pol cl0 plan outcomes k _ hk rfl

/-- A request that is not marked idempotent is never answered with `IgnoredWriteError`. -/
theorem ignored_write_only_idempotent (tg : Nat) :
    (run pol false cl0 plan outcomes).final ≠ .ignored tg :=
  exec_ignored_idem pol outcomes _ plan 0 (Loc.init cl0) tg

/-- **The default policy never retries a request at serial consistency**: at most one attempt. -/
theorem default_never_retries_serial (h : cl0.isSerial = true) :
    (run .default idem cl0 plan outcomes).attempts.length ≤ 1 :=
  exec_default_serial idem outcomes _ plan 0 (Loc.init cl0) h

/-- … in particular at LOCAL_SERIAL (0x0009) as well as at SERIAL (0x0008). -/
theorem default_never_retries_local_serial :
    (run .default idem .localSerial plan outcomes).attempts.length ≤ 1 ∧
    (run .default idem .serial plan outcomes).attempts.length ≤ 1 :=
  ⟨default_never_retries_serial idem .localSerial plan outcomes rfl,
   default_never_retries_serial idem .serial plan outcomes rfl⟩

/-- The fallthrough policy: at most one attempt. -/
theorem fallthrough_single_attempt :
    (run .fallthrough idem cl0 plan outcomes).attempts.length ≤ 1 :=
  exec_fallthrough idem outcomes _ plan 0 (Loc.init cl0)

/-- **Bound.**  The number of attempts is at most the plan length plus the policy's fixed number of same-node
retries (2 / 1 / 0, `sameTargetBound_values`). -/
theorem attempts_bounded :
    (run pol idem cl0 plan outcomes).attempts.length ≤ plan.length + sameTargetBound pol :=
  exec_attempts_le pol idem outcomes _ plan 0 (Loc.init cl0)

/-- **The loop terminates**: the fuel `run` gives the loop (plan length + same-node bound + 1 iterations) is
never exhausted — the Rust `loop` cannot spin with a built-in policy — -/
theorem loop_terminates : (run pol idem cl0 plan outcomes).final ≠ .outOfFuel :=
  exec_not_outOfFuel pol idem outcomes _ plan 0 (Loc.init cl0)
    (by simp only [Loc.init, Option.getD_none, sameTargetBound]; omega)

/-- … and any larger fuel gives exactly the same trace (the fuel is not a bound on what is modelled). -/
theorem fuel_irrelevant (extra : Nat) :
    runWith (builtin pol) idem cl0 plan outcomes (plan.length + sameTargetBound pol + 1 + extra)
      = run pol idem cl0 plan outcomes := by
  induction extra with
  | zero => rfl
  | succ n ih =>
    rw [← ih, ← Nat.add_assoc]
    apply exec_fuel_succ
    simp only [Loc.init, Option.getD_none, sameTargetBound]; omega

end

/-! ### "the driver sends exactly the attempts the policy decided — no more" : for EVERY retry policy
(`P : PolicyFn σ` = any `new_session` / `decide_should_retry`, built-in or user-defined) and any fuel -/

section
variable {σ : Type} (P : PolicyFn σ) (idem : Bool) (cl0 : Consistency) (plan : List Target)
  (outcomes : Nat → Outcome) (fuel : Nat)

/-- Unless the plan ran out, the number of attempts is 1 + the number of retry decisions; when the plan ran
out every failed attempt was answered by a retry decision and the last one could not be honoured. -/
theorem sends_exactly_decided_any_policy
    (hf : (runWith P idem cl0 plan outcomes fuel).final ≠ .outOfFuel) :
    let tr := runWith P idem cl0 plan outcomes fuel
    tr.attempts.length = countRetry tr.decisions + (if tr.final.planRanOut then 0 else 1) := by
  have h := (exec_counts P idem outcomes fuel plan 0 (Loc.init cl0)).1
  have hl : ∀ f : Final, f ≠ .outOfFuel → answeredLast f = if f.planRanOut then 0 else 1 := by
    intro f hf; cases f <;> simp_all [answeredLast, Final.planRanOut]
  simp only [runWith] at hf ⊢
  rw [h, hl _ hf]
  first | rfl | simp

/-- The retry session is consulted exactly once per failed attempt (all attempts fail except a final
successful one). -/
theorem one_decision_per_failed_attempt :
    let tr := runWith P idem cl0 plan outcomes fuel
    tr.attempts.length = tr.decisions.length + succeeded tr.final :=
  (exec_counts P idem outcomes fuel plan 0 (Loc.init cl0)).2

/-- Every attempt that the retry session was consulted about really failed — for every final, including
`ignored` and `exhausted` (whose last attempt, when there is one, is therefore a failure): `errAt`'s junk value for
a successful attempt is never used by `histOf` in `decisions_are_policy_replay`. -/
theorem decided_attempts_failed (i : Nat)
    (hi : i < (runWith P idem cl0 plan outcomes fuel).decisions.length) :
    ∃ e, outcomes i = .fail e ∧ errAt outcomes i = e := by
  obtain ⟨e, he⟩ := exec_decided_failed P idem outcomes fuel plan 0 (Loc.init cl0) i hi
  simp only [Loc.init, Nat.zero_add] at he
  exact ⟨e, he, by simp [errAt, he]⟩

/-- The decisions are those of ONE session of the policy (`new_session()` state) fed, in order, the error of
each failed attempt with the request's idempotence flag and the consistency that attempt was sent at. -/
theorem decisions_are_policy_replay_any_policy :
    let tr := runWith P idem cl0 plan outcomes fuel
    tr.decisions = replayFn P idem P.init (histOf outcomes 0 (tr.attempts.take tr.decisions.length)) :=
  exec_decisions_replay P idem outcomes fuel plan 0 (Loc.init cl0)

/-- Attempt `i+1` is the one decision `i` asked for: decision `i` is a retry decision and the consistency of
attempt `i+1` is the one it returned (or the unchanged one).  After `RetryNextTarget` the target is a later
one.  After `RetrySameTarget` it is the same target **exactly when** that target's next `get_connection()` call
succeeds (`get_connection()` is called again before every attempt, `execution.rs:536-547`; the call index is the
number of attempts made on the target so far), else a later one.  Every target passed over between the two
attempts had a failing `get_connection()`. -/
theorem attempt_follows_decision (i : Nat) (a b : Attempt)
    (ha : (runWith P idem cl0 plan outcomes fuel).attempts[i]? = some a)
    (hb : (runWith P idem cl0 plan outcomes fuel).attempts[i + 1]? = some b) :
    ∃ d, (runWith P idem cl0 plan outcomes fuel).decisions[i]? = some d ∧ d.isRetry = true ∧
      b.cl = d.newCl.getD a.cl ∧
      (d.isRetrySame = true → a.target ≤ b.target ∧
        (∀ av, plan[a.target]? = some av →
          (av (callsOn ((runWith P idem cl0 plan outcomes fuel).attempts.take (i + 1)) a.target) = true
            ↔ b.target = a.target))) ∧
      (d.isRetrySame = false → a.target < b.target) ∧
      (∀ t', a.target < t' → t' < b.target → ∀ av, plan[t']? = some av → av 0 = false) := by
  simpa [runWith] using exec_threading P idem outcomes fuel plan 0 (Loc.init cl0) i a b ha hb

/-- In particular a `RetrySameTarget` decision is followed by an attempt on the same target whenever the
target's pool keeps yielding connections. -/
theorem retry_same_stays_on_connected_target (i : Nat) (a b : Attempt) (d : Decision) (av : Target)
    (ha : (runWith P idem cl0 plan outcomes fuel).attempts[i]? = some a)
    (hb : (runWith P idem cl0 plan outcomes fuel).attempts[i + 1]? = some b)
    (hd : (runWith P idem cl0 plan outcomes fuel).decisions[i]? = some d) (hs : d.isRetrySame = true)
    (hav : plan[a.target]? = some av) (hal : ∀ j, av j = true) : b.target = a.target := by
  obtain ⟨d', h1, _, _, h4, _⟩ := attempt_follows_decision P idem cl0 plan outcomes fuel i a b ha hb
  rw [hd] at h1; cases h1
  exact ((h4 hs).2 av hav).mp (hal _)

/-- No request (idempotent or not, whatever the policy) is sent again after an attempt that succeeded. -/
theorem never_after_success (k : Nat) (hk : outcomes k = .ok) :
    (runWith P idem cl0 plan outcomes fuel).attempts.length ≤ k + 1 := by
  apply Nat.le_of_not_lt
  intro h
  obtain ⟨e, he⟩ := exec_resend_after_failure P idem outcomes fuel plan 0 (Loc.init cl0) k h
  simp [Loc.init, hk] at he

/-- The first attempt is sent at the statement's consistency. -/
theorem first_attempt_consistency (a : Attempt)
    (ha : (runWith P idem cl0 plan outcomes fuel).attempts[0]? = some a) : a.cl = cl0 :=
  (exec_first P idem outcomes fuel plan 0 (Loc.init cl0) a ha).1

/-- Attempts are only made on targets of the plan on which a `get_connection()` call yielded a connection (a
target whose pool gives no connection is skipped without an attempt). -/
theorem attempts_on_connected_targets (a : Attempt)
    (ha : a ∈ (runWith P idem cl0 plan outcomes fuel).attempts) :
    ∃ av, plan[a.target]? = some av ∧ ∃ j, av j = true := by
  simpa using (exec_targets P idem outcomes fuel plan 0 (Loc.init cl0) a ha).2

/-- The retry session is created lazily and at most once: no session when no attempt failed, else one. -/
theorem one_session :
    let tr := runWith P idem cl0 plan outcomes fuel
    tr.newSessions = if tr.decisions.isEmpty then 0 else 1 := by
  simpa [Loc.init, runWith] using exec_sessions P idem outcomes fuel plan 0 (Loc.init cl0)

/-- What is returned, tied to the last attempt: `Completed` = the last attempt succeeded (on that target); the
error returned after `DontRetry` is the error of the last attempt; `IgnoredWriteError` follows an
`IgnoreWriteError` decision on the last attempt. -/
theorem result_is_about_last_attempt :
    let tr := runWith P idem cl0 plan outcomes fuel
    (∀ tg, tr.final = .completed tg → tr.attempts ≠ [] ∧
      outcomes (tr.attempts.length - 1) = .ok ∧ (tr.attempts.getLast?.map (·.target)) = some tg) ∧
    (∀ e, tr.final = .stopped e → tr.attempts ≠ [] ∧
      outcomes (tr.attempts.length - 1) = .fail e ∧ tr.decisions.getLast? = some .dontRetry) ∧
    (∀ tg, tr.final = .ignored tg → tr.attempts ≠ [] ∧
      tr.decisions.getLast? = some .ignoreWrite ∧ (tr.attempts.getLast?.map (·.target)) = some tg) := by
  simpa [Loc.init, runWith] using exec_final P idem outcomes fuel plan 0 (Loc.init cl0)

end

/-- **The driver sends exactly the attempts the policy decided** — the built-in policies (no fuel hypothesis:
`loop_terminates`). -/
theorem sends_exactly_decided (pol : Policy) (idem : Bool) (cl0 : Consistency) (plan : List Target)
    (outcomes : Nat → Outcome) :
    let tr := run pol idem cl0 plan outcomes
    tr.attempts.length = countRetry tr.decisions + (if tr.final.planRanOut then 0 else 1) :=
  sends_exactly_decided_any_policy (builtin pol) idem cl0 plan outcomes _
    (loop_terminates pol idem cl0 plan outcomes)

/-- The decisions of a run with a built-in policy are `replay` of that policy (the function the `dec` cases of
the correspondence check compare with the real sessions). -/
theorem decisions_are_policy_replay (pol : Policy) (idem : Bool) (cl0 : Consistency) (plan : List Target)
    (outcomes : Nat → Outcome) :
    let tr := run pol idem cl0 plan outcomes
    tr.decisions = replay pol idem Sess.init (histOf outcomes 0 (tr.attempts.take tr.decisions.length)) := by
  have := decisions_are_policy_replay_any_policy (builtin pol) idem cl0 plan outcomes
    (plan.length + sameTargetBound pol + 1)
  simpa [replayFn_builtin, run] using this

/-! ### non-vacuity: concrete runs -/

/-- scripted outcomes; attempts beyond the script succeed -/
def script (os : List Outcome) : Nat → Outcome := fun k => os.getD k .ok

-- a non-idempotent request IS re-sent after read timeout (same node) and unavailable (next node; the target
-- without a connection is skipped), and NOT after the broken connection
example :
    run .default false .quorum [.always, .never, .always]
      (script [.fail (.dbError (.readTimeout 2 2 false)), .fail (.dbError (.unavailable 1)), .fail .brokenConnection])
    = ⟨[⟨0, .quorum⟩, ⟨0, .quorum⟩, ⟨2, .quorum⟩], [.retrySame none, .retryNext none, .dontRetry],
       .stopped .brokenConnection, 1⟩ := by decide

-- the bound plan.length + 2 is attained by the default policy (idempotent request, one target)
example :
    (run .default true .quorum [.always]
      (script [.fail (.dbError (.readTimeout 2 2 false)), .fail (.dbError (.writeTimeout 0 .batchLog)),
        .fail (.dbError (.readTimeout 2 2 false))])).attempts.length = 1 + sameTargetBound .default := by decide

-- downgrading: the lowered consistency is threaded into the next attempts, also across targets
example :
    run .downgrading false .quorum [.always, .always]
      (script [.fail (.dbError (.unavailable 2)), .fail (.dbError .isBootstrapping)])
    = ⟨[⟨0, .quorum⟩, ⟨0, .two⟩, ⟨1, .two⟩], [.retrySame (some .two), .retryNext none], .completed 1, 1⟩ := by
  decide

-- IgnoreWriteError (idempotent only); plan ran out after a RetryNextTarget (pool error is returned);
-- default at serial consistency: one attempt even after `unavailable`; empty plan
example :
    (run .downgrading true .all [.always, .always] (script [.fail (.dbError (.writeTimeout 1 .simple))])).final = .ignored 0 ∧
    run .default true .quorum [.always, .never] (script [.fail .brokenConnection])
      = ⟨[⟨0, .quorum⟩], [.retryNext none], .exhausted (some .pool), 1⟩ ∧
    run .default false .serial [.never, .always, .always] (script [.fail (.dbError (.unavailable 1))])
      = ⟨[⟨1, .serial⟩], [.dontRetry], .stopped (.dbError (.unavailable 1)), 1⟩ ∧
    run .default false .one [] (script []) = ⟨[], [], .exhausted none, 0⟩ ∧
    (run .fallthrough true .one [.always, .always] (script [.fail (.dbError .isBootstrapping)])).attempts.length = 1 := by
  decide

-- any policy: a scripted policy exercises `RetryNextTarget(Some cl)` (no built-in policy returns it) …
example :
    runWith (scripted [.retryNext (some .one), .retrySame (some .two)]) true .quorum [.always, .never, .always]
      (script [.fail .brokenConnection, .fail .brokenConnection]) 10
    = ⟨[⟨0, .quorum⟩, ⟨2, .one⟩, ⟨2, .two⟩], [.retryNext (some .one), .retrySame (some .two)], .completed 2, 1⟩ := by
  decide

-- … and the fuel hypothesis of `sends_exactly_decided_any_policy` is not vacuous: a user policy that always
-- answers RetrySameTarget makes the Rust loop spin for ever (the model runs out of fuel)
example :
    (runWith (⟨(), fun _ _ => ((), .retrySame none)⟩ : PolicyFn Unit) true .quorum [.always]
      (fun _ => .fail .brokenConnection) 7).final = .outOfFuel := by decide
-- the target's pool stops yielding connections between two same-target attempts (`Target.upTo 1`: only the
-- first `get_connection()` succeeds): the RetrySameTarget decision is followed by an attempt on the NEXT
-- target (and by no attempt at all, with the pool error returned, when there is none)
example :
    run .default false .quorum [Target.upTo 1, .always]
      (script [.fail (.dbError (.readTimeout 2 2 false)), .fail .brokenConnection])
    = ⟨[⟨0, .quorum⟩, ⟨1, .quorum⟩], [.retrySame none, .dontRetry], .stopped .brokenConnection, 1⟩ ∧
    run .default false .quorum [Target.upTo 1]
      (script [.fail (.dbError (.readTimeout 2 2 false)), .fail .brokenConnection])
    = ⟨[⟨0, .quorum⟩], [.retrySame none], .exhausted (some .pool), 1⟩ := by decide

/-! ### several fibers (speculative execution): the bound for "any request" -/

/-- What a fiber has sent plus what it can still send without a new target. -/
def fiberPot (pol : Policy) (f : Fiber Sess) : Nat :=
  f.log.length +
    (if f.done then 0 else budget pol (f.loc.sess.getD Sess.init) + (if f.cur.isSome then 1 else 0))

def pot (pol : Policy) (fs : List (Fiber Sess)) : Nat := (fs.map (fiberPot pol)).sum

private theorem fiber_step_pot (pol : Policy) (idem : Bool) (outcomes : Nat → Outcome) (f : Fiber Sess)
    (sp : SharedPlan) :
    (f.step (builtin pol) idem outcomes sp).2.rest.length + fiberPot pol (f.step (builtin pol) idem outcomes sp).1
      ≤ sp.rest.length + fiberPot pol f := by
  unfold Fiber.step
  split
  · exact Nat.le_refl _
  · rename_i hdone
    split
    · rename_i hcur
      split
      · rename_i hrest
        simp [fiberPot, hdone, hcur, hrest]
      · rename_i av rest hrest
        simp only [fiberPot, hdone, hcur, hrest, List.length_cons]
        simp <;> omega
    · rename_i t av hcur
      split
      · simp only [fiberPot, hdone, hcur]; simp <;> omega
      · simp only []
        split
        · simp only [fiberPot, hdone, hcur, List.length_cons]; simp <;> omega
        · rename_i e hout
          have h1 := budget_nonincreasing pol (f.loc.sess.getD Sess.init) ⟨e, idem, f.loc.cl⟩
          split
          · rename_i cl hd
            have h2 := budget_consumed_by_retrySame pol (f.loc.sess.getD Sess.init) ⟨e, idem, f.loc.cl⟩
              (by rw [hd]; rfl)
            simp only [fiberPot, hdone, hcur, List.length_cons, Option.getD_some] at h1 h2 ⊢
            simp <;> omega
          · simp only [fiberPot, hdone, hcur, List.length_cons, Option.getD_some] at h1 ⊢
            simp <;> omega
          · simp only [fiberPot, hdone, hcur, List.length_cons]; simp <;> omega
          · simp only [fiberPot, hdone, hcur, List.length_cons]; simp <;> omega

private theorem stepAt_pot (pol : Policy) (idem : Bool) (outcomes : Nat → Nat → Outcome) (id i : Nat)
    (fs : List (Fiber Sess)) (sp : SharedPlan) :
    (stepAt (builtin pol) idem outcomes id i fs sp).2.rest.length
        + pot pol (stepAt (builtin pol) idem outcomes id i fs sp).1
      ≤ sp.rest.length + pot pol fs := by
  induction fs generalizing id i with
  | nil => simp [stepAt]
  | cons f fs ih =>
    cases i with
    | zero =>
      have := fiber_step_pot pol idem (outcomes id) f sp
      simp only [stepAt, pot, List.map_cons, List.sum_cons] at this ⊢
      omega
    | succ j =>
      have := ih (id + 1) j
      simp only [stepAt, pot, List.map_cons, List.sum_cons] at this ⊢
      omega

private theorem stepAt_length (pol : Policy) (idem : Bool) (outcomes : Nat → Nat → Outcome) (id i : Nat)
    (fs : List (Fiber Sess)) (sp : SharedPlan) :
    (stepAt (builtin pol) idem outcomes id i fs sp).1.length = fs.length := by
  induction fs generalizing id i with
  | nil => simp [stepAt]
  | cons f fs ih => cases i <;> simp [stepAt, ih]

private theorem runSched_pot (pol : Policy) (idem : Bool) (outcomes : Nat → Nat → Outcome) (sched : List Nat)
    (st : List (Fiber Sess) × SharedPlan) :
    (runSched (builtin pol) idem outcomes sched st).2.rest.length
        + pot pol (runSched (builtin pol) idem outcomes sched st).1
      ≤ st.2.rest.length + pot pol st.1 := by
  induction sched generalizing st with
  | nil => simp [runSched]
  | cons i sched ih =>
    simp only [runSched]
    exact Nat.le_trans (ih _) (stepAt_pot pol idem outcomes 0 i st.1 st.2)

private theorem totalAttempts_le_pot (pol : Policy) (fs : List (Fiber Sess)) : totalAttempts fs ≤ pot pol fs := by
  induction fs with
  | nil => simp [totalAttempts, pot]
  | cons f fs ih =>
    simp only [totalAttempts, pot, List.map_cons, List.sum_cons, fiberPot] at ih ⊢
    omega

private theorem pot_fresh (pol : Policy) (cl0 : Consistency) (n : Nat) :
    pot pol (List.replicate n (Fiber.fresh cl0)) = n * sameTargetBound pol := by
  induction n with
  | zero => simp [pot]
  | succ m ih =>
    simp only [pot, List.replicate_succ, List.map_cons, List.sum_cons] at ih ⊢
    rw [ih]
    simp only [fiberPot, Fiber.fresh, Loc.init, Option.getD_none, sameTargetBound]
    simp [Nat.succ_mul]; omega

/-- **Bound with speculative execution.**  `nFibers` fibers (the first one plus up to `max_retry_count`
speculative ones), each with its own retry session, share one plan iterator and run under ANY interleaving
(`sched`: which fiber performs its next loop iteration — any length; fibers that are launched late, cancelled or
never launched just stop appearing in it), with any outcomes for each fiber's attempts.  At every moment the
total number of attempts made by all fibers is at most the plan length plus `nFibers` times the policy's fixed
number of same-node retries. -/
theorem attempts_bounded_speculative (pol : Policy) (idem : Bool) (cl0 : Consistency) (plan : List Target)
    (outcomes : Nat → Nat → Outcome) (nFibers : Nat) (sched : List Nat) :
    totalAttempts (runSched (builtin pol) idem outcomes sched
        (List.replicate nFibers (Fiber.fresh cl0), ⟨plan, 0⟩)).1
      ≤ plan.length + nFibers * sameTargetBound pol := by
  have h1 := totalAttempts_le_pot pol (runSched (builtin pol) idem outcomes sched
    (List.replicate nFibers (Fiber.fresh cl0), ⟨plan, 0⟩)).1
  have h2 := runSched_pot pol idem outcomes sched (List.replicate nFibers (Fiber.fresh cl0), ⟨plan, 0⟩)
  rw [pot_fresh] at h2
  simp only at h2
  omega

-- two fibers, default policy, one target each: both use their two same-node retries: 2 + 2·2 = 6 attempts
example :
    totalAttempts (runSched (builtin .default) true (fun _ k => script
        [.fail (.dbError (.readTimeout 2 2 false)), .fail (.dbError (.writeTimeout 0 .batchLog)),
         .fail .brokenConnection] k)
        [0, 1, 0, 1, 0, 1, 0, 1, 0, 1]
        (List.replicate 2 (Fiber.fresh .quorum), ⟨[.always, .always], 0⟩)).1 = 6 := by decide


/-! ### the multi-fiber step model is the single-fiber loop: `Fiber.step` iterated = `exec`
(so the differentially tested `exec` and the `Fiber.step` used by `attempts_bounded_speculative` are one loop) -/

/-- One fiber stepped `n` times on its own. -/
def iterFiber {σ : Type} (P : PolicyFn σ) (idem : Bool) (o : Nat → Outcome) :
    Nat → Fiber σ × SharedPlan → Fiber σ × SharedPlan
  | 0, s => s
  | n + 1, s => iterFiber P idem o n (s.1.step P idem o s.2)

/-- **Tie.**  Whenever `exec` does not run out of fuel, a single fiber stepped alone from the same loop state
finishes after some number of steps having made exactly the attempts of `exec`, in the same order (the log is
kept latest-first). -/
theorem fiber_steps_refine_exec {σ : Type} (P : PolicyFn σ) (idem : Bool) (o : Nat → Outcome) (fuel : Nat)
    (plan : List Target) (t : Nat) (loc : Loc σ) (log : List Attempt)
    (hf : (exec P idem o fuel plan t loc).final ≠ .outOfFuel) :
    ∃ n, (iterFiber P idem o n (⟨none, loc, false, log⟩, ⟨plan, t⟩)).1.done = true ∧
      (iterFiber P idem o n (⟨none, loc, false, log⟩, ⟨plan, t⟩)).1.log
        = (exec P idem o fuel plan t loc).attempts.reverse ++ log := by
  fun_induction exec P idem o fuel plan t loc generalizing log
  case case1 => exact ⟨1, by simp [iterFiber, Fiber.step], by simp [iterFiber, Fiber.step]⟩
  case case2 => simp at hf
  case case3 fuel av rest t loc hav ih =>
    obtain ⟨n, h1, h2⟩ := ih log hf
    refine ⟨n + 2, ?_, ?_⟩
    · simpa [iterFiber, Fiber.step, hav] using h1
    · simpa [iterFiber, Fiber.step, hav] using h2
  case case4 fuel av rest t loc hav a hout =>
    refine ⟨2, ?_, ?_⟩ <;> simp [iterFiber, Fiber.step, hav, hout, a]
  case case5 fuel av rest t loc hav a e hout created r loc' cl hd ih =>
    obtain ⟨n, h1, h2⟩ := ih (a :: log) (by simpa [Trace.push] using hf)
    cases n with
    | zero => simp [iterFiber] at h1
    | succ m =>
      refine ⟨m + 2, ?_, ?_⟩
      · simp only [iterFiber, Fiber.step] at h1 ⊢
        simp only [r] at hd
        simpa [hav, hout, hd, loc', a, r] using h1
      · simp only [iterFiber, Fiber.step] at h2 ⊢
        simp only [r] at hd
        simpa [hav, hout, hd, loc', a, r, Trace.push] using h2
  case case6 fuel av rest t loc hav a e hout created r loc' cl hd ih =>
    obtain ⟨n, h1, h2⟩ := ih (a :: log) (by simpa [Trace.push] using hf)
    refine ⟨n + 2, ?_, ?_⟩
    · simp only [iterFiber, Fiber.step]
      simp only [r] at hd
      simpa [hav, hout, hd, loc', a, r] using h1
    · simp only [iterFiber, Fiber.step]
      simp only [r] at hd
      simpa [hav, hout, hd, loc', a, r, Trace.push] using h2
  case case7 fuel av rest t loc hav a e hout created r hd =>
    simp only [r] at hd
    refine ⟨2, ?_, ?_⟩ <;> simp [iterFiber, Fiber.step, hav, hout, hd, a]
  case case8 fuel av rest t loc hav a e hout created r hd =>
    simp only [r] at hd
    refine ⟨2, ?_, ?_⟩ <;> simp [iterFiber, Fiber.step, hav, hout, hd, a]

private theorem runSched_single {σ : Type} (P : PolicyFn σ) (idem : Bool) (o : Nat → Nat → Outcome) (n : Nat)
    (f : Fiber σ) (sp : SharedPlan) :
    runSched P idem o (List.replicate n 0) ([f], sp)
      = ([(iterFiber P idem (o 0) n (f, sp)).1], (iterFiber P idem (o 0) n (f, sp)).2) := by
  induction n generalizing f sp with
  | zero => rfl
  | succ m ih => simp only [List.replicate_succ, runSched, stepAt, iterFiber]; exact ih _ _

/-- The same for the schedule semantics and a built-in policy: with ONE fiber, some schedule `[0, 0, …, 0]` makes
`runSched` produce exactly the attempts of `run` (the function compared with the implementation on every `run`
case). -/
theorem runSched_one_fiber_is_run (pol : Policy) (idem : Bool) (cl0 : Consistency) (plan : List Target)
    (outcomes : Nat → Outcome) :
    ∃ n, ((runSched (builtin pol) idem (fun _ => outcomes) (List.replicate n 0)
        ([Fiber.fresh cl0], ⟨plan, 0⟩)).1.map (fun f => f.log.reverse))
      = [(run pol idem cl0 plan outcomes).attempts] := by
  obtain ⟨n, _, h2⟩ := fiber_steps_refine_exec (builtin pol) idem outcomes
    (plan.length + sameTargetBound pol + 1) plan 0 (Loc.init cl0) [] (loop_terminates pol idem cl0 plan outcomes)
  refine ⟨n, ?_⟩
  rw [runSched_single]
  simp only [Fiber.fresh, List.map_cons, List.map_nil]
  rw [h2]; simp [run, runWith]

-- the target keeps yielding a connection for exactly two calls (`Target.upTo 2`): the first RetrySameTarget
-- stays on it, the second one moves to the next target
example :
    (run .default true .quorum [Target.upTo 2, .always]
      (script [.fail (.dbError (.readTimeout 2 2 false)), .fail (.dbError (.writeTimeout 0 .batchLog)),
        .fail .brokenConnection])).attempts = [⟨0, .quorum⟩, ⟨0, .quorum⟩, ⟨1, .quorum⟩] := by decide

end ScyllaVerif.Props.C06

/-
C08 — the layer above the frame parser that consumes header fields and SUPPORTED options as numbers:

* `Connection::reader`'s dispatch on the header's `stream` field (`Model/C08Reader.lean`): an arbitrary `i16` from the
  network indexes the stream-id bitmap in `ResponseHandlerMap::lookup -> StreamIdSet::free`.  The model keeps the slice
  index as a panic site; the theorems show it unreachable for EVERY byte string a peer can send, because the reader
  only passes non-negative ids and the bitmap has `(i16::MAX + 1) / 64` words — and show both ingredients necessary.
* `ShardInfo::try_from(SUPPORTED options)` followed by `Sharder::shard_of` (`Model/C08Shard.lean`).
-/
import ScyllaVerif.Model.C08Reader
import ScyllaVerif.Model.C08Shard
import ScyllaVerif.Proofs.C08HeaderNP
import ScyllaVerif.Proofs.C08TabletNP

namespace ScyllaVerif.Props.C08Reader
open ScyllaVerif ScyllaVerif.C08 ScyllaVerif.C08R

/-! ### the bitmap index -/

/-- `StreamIdSet::new` covers exactly the non-negative `i16`s. -/
theorem bitmap_covers_i16 : BITMAP_WORDS * 64 = 32767 + 1 := by decide

/-- `free` panics exactly when the word index is outside the bitmap. -/
theorem free_panics_iff (m : HMap) (s : Int) :
    (∃ site, free m s = .panic site) ↔ m.words ≤ asUsize s / 64 := by
  unfold free
  by_cases h : asUsize s / 64 ≥ m.words
  · simp [h]
  · simp [h]

/-- Every non-negative `i16` is inside a bitmap of at least 512 words. -/
theorem free_no_panic (m : HMap) (s : Int) (h0 : 0 ≤ s) (h1 : s ≤ 32767) (hw : BITMAP_WORDS ≤ m.words)
    (site : String) : free m s ≠ .panic site := by
  intro h
  have := (free_panics_iff m s).mp ⟨site, h⟩
  have hb : BITMAP_WORDS = 512 := by decide
  unfold asUsize at this
  simp only [h0, if_true] at this
  omega

/-- The reader's `stream.cmp(&-1)` test is load-bearing: `stream_id as usize` sign-extends, so `free` on ANY negative
`i16` panics (whatever realistic size the bitmap has). -/
theorem free_negative_panics (m : HMap) (s : Int) (h0 : s < 0) (h1 : -32768 ≤ s) (hw : m.words ≤ 2 ^ 32) :
    ∃ site, free m s = .panic site := by
  apply (free_panics_iff m s).mpr
  unfold asUsize
  have : ¬ (0 ≤ s) := by omega
  simp only [this, if_false]
  omega

/-- The size is load-bearing too: one word fewer (the seeded change C08-9) and the ids of the last word panic. -/
theorem free_short_bitmap_panics (m : HMap) (s : Int) (h0 : 32704 ≤ s) (h1 : s ≤ 32767) (hw : m.words ≤ 511) :
    ∃ site, free m s = .panic site := by
  apply (free_panics_iff m s).mpr
  unfold asUsize
  have : 0 ≤ s := by omega
  simp only [this, if_true]
  omega

/-! ### invariants of the handler map -/

private theorem free_words (m m1 : HMap) (s : Int) (h : free m s = .ok m1) :
    m1.words = m.words ∧ m1.waiting = m.waiting := by
  unfold free at h
  simp only at h
  split at h
  · cases h
  · cases h; exact ⟨rfl, rfl⟩

private theorem free_not_err (m : HMap) (s : Int) (k : String) : free m s ≠ .err k := by
  unfold free; simp only; split <;> simp

theorem lookup_words (m m1 : HMap) (s : Int) (l : Look) (h : lookup m s = .ok (l, m1)) : m1.words = m.words := by
  unfold lookup at h
  split at h
  · cases h
  · cases h
  · rename_i m0 hf
    have := (free_words m m0 s hf).1
    split at h <;> (cases h; simpa using this)

private theorem lookup_not_err (m : HMap) (s : Int) (k : String) : lookup m s ≠ .err k := by
  unfold lookup
  split
  · simp
  · rename_i k' hf; exact absurd hf (free_not_err m s k')
  · split <;> simp

private theorem allocate_words (m : HMap) (r : Nat) : (allocate m r).2.words = m.words := by
  unfold allocate; split <;> rfl

private theorem allocateN_words (k : Nat) : ∀ (m : HMap) (r : Nat), (allocateN m k r).words = m.words := by
  induction k with
  | zero => intro m r; rfl
  | succ k ih => intro m r; simp only [allocateN]; rw [ih, allocate_words]

/-! ### the header's stream field is an `i16` -/

private theorem toSigned16_range (n : Nat) (h : n < 65536) : -32768 ≤ toSigned 16 n ∧ toSigned 16 n ≤ 32767 := by
  unfold toSigned
  have e1 : (2 : Nat) ^ (16 - 1) = 32768 := by decide
  have e2 : (2 : Int) ^ 16 = 65536 := by decide
  rw [e1, e2]
  split <;> omega

private theorem beNat_two (bs : Bytes) (h : bs.length ≤ 2) : beNat bs < 65536 := by
  have := ScyllaVerif.C08T.beNat_lt_aux bs 0
  unfold beNat
  have hp : 256 ^ bs.length ≤ 256 ^ 2 := Nat.pow_le_pow_right (by decide) h
  omega

theorem parseFrame_stream_i16 (bs : Bytes) (h : Header) (hp : parseFrame bs = .ok h) :
    -32768 ≤ h.stream ∧ h.stream ≤ 32767 ∧ HEADER_SIZE ≤ bs.length := by
  unfold parseFrame at hp
  split at hp
  · cases hp
  · rename_i hl
    simp only at hp
    split at hp
    · cases hp
    · split at hp
      · cases hp
      · split at hp
        · cases hp
        · split at hp
          · cases hp
          · cases hp
            have hb := beNat_two ((bs.drop 2).take 2) (by simp; omega)
            have := toSigned16_range _ hb
            exact ⟨this.1, this.2, by omega⟩

/-! ### the dispatch and the reader loop -/

/-- For EVERY header the parser can return (any `i16` in the stream field, any flags / opcode / body) and every
handler map whose bitmap has the size `StreamIdSet::new` gives it, the dispatch does not panic and is not an error
of the model; the bitmap keeps its size. -/
theorem no_panic_reader_dispatch (m : HMap) (h : Header) (hs : -32768 ≤ h.stream ∧ h.stream ≤ 32767)
    (hw : BITMAP_WORDS ≤ m.words) :
    ∃ label dl m1, dispatch m h = .ok (label, dl, m1) ∧ m1.words = m.words := by
  unfold dispatch
  by_cases h1 : h.stream < -1
  · refine ⟨none, none, m, ?_, rfl⟩; simp [h1]
  · by_cases h2 : h.stream = -1
    · refine ⟨none, none, m, ?_, rfl⟩; simp [h2]
    · simp only [h1, h2, if_false]
      have h0 : 0 ≤ h.stream := by omega
      cases hl : lookup m h.stream with
      | panic k =>
        exfalso
        unfold lookup at hl
        split at hl
        · rename_i k' hf; exact free_no_panic m h.stream h0 hs.2 hw k' hf
        · cases hl
        · split at hl <;> cases hl
      | err k => exact absurd hl (lookup_not_err m h.stream k)
      | ok p =>
        obtain ⟨l, m1⟩ := p
        have hw1 := lookup_words m m1 h.stream l hl
        cases l with
        | handler r => exact ⟨none, some _, m1, rfl, hw1⟩
        | missing => exact ⟨some "UnexpectedStreamId", none, m1, rfl, hw1⟩

/-- `Connection::reader` over ANY bytes a peer sends before closing, with any requests in flight: it ends with a
result (never a panic — neither in the nine header reads nor at the bitmap index —, never out of fuel when given one
unit per input byte), and the result is one of the two ways a reader breaks the connection. -/
theorem reader_total : ∀ (fuel : Nat) (bs : Bytes) (m : HMap) (d : List Deliv),
    BITMAP_WORDS ≤ m.words → bs.length < fuel →
    ∃ r, reader fuel bs m d = .ok r ∧ (r.broken = "FrameHeaderParseError" ∨ r.broken = "UnexpectedStreamId") := by
  intro fuel
  induction fuel with
  | zero => intro bs m d _ hf; omega
  | succ fuel ih =>
    intro bs m d hw hf
    unfold reader
    rw [parseFrameP_eq]
    cases hp : parseFrame bs with
    | error k => exact ⟨_, rfl, Or.inl rfl⟩
    | ok h =>
      simp only [liftHdr]
      have hr := parseFrame_stream_i16 bs h hp
      obtain ⟨label, dl, m1, hd, hw1⟩ := no_panic_reader_dispatch m h ⟨hr.1, hr.2.1⟩ hw
      rw [hd]
      cases label with
      | some l =>
        unfold dispatch at hd
        refine ⟨_, rfl, Or.inr ?_⟩
        split at hd
        · cases hd
        · split at hd
          · cases hd
          · split at hd <;> cases hd
            rfl
      | none =>
        simp only
        apply ih
        · omega
        · have h9 : HEADER_SIZE = 9 := rfl
          have := hr.2.2
          simp only [List.length_drop]
          omega

/-- The statement at the level of a connection: `n` requests in flight, any bytes, then EOF. -/
theorem no_panic_reader (n : Nat) (bs : Bytes) (site : String) : runReader n bs ≠ .panic site := by
  intro h
  obtain ⟨r, hr, _⟩ := reader_total (bs.length + 1) bs (allocateN HMap.new n 0) []
    (by rw [allocateN_words]; exact Nat.le_refl _) (by omega)
  unfold runReader at h
  rw [hr] at h
  cases h

theorem reader_fuel_suffices (n : Nat) (bs : Bytes) : runReader n bs ≠ .err "fuel" := by
  intro h
  obtain ⟨r, hr, _⟩ := reader_total (bs.length + 1) bs (allocateN HMap.new n 0) []
    (by rw [allocateN_words]; exact Nat.le_refl _) (by omega)
  unfold runReader at h
  rw [hr] at h
  cases h

/-- A response on a non-negative stream nobody waits on breaks the connection with `UnexpectedStreamId` and leaves
every waiting handler in the map (the router then answers each of them with that error): it is an error, not a crash,
for EVERY such id up to `i16::MAX`. -/
theorem unsolicited_breaks_cleanly (m : HMap) (h : Header) (h0 : 0 ≤ h.stream) (h1 : h.stream ≤ 32767)
    (hw : BITMAP_WORDS ≤ m.words) (hn : m.waiting.find? (fun p => p.1 = h.stream) = none) :
    ∃ m1, dispatch m h = .ok (some "UnexpectedStreamId", none, m1) ∧ m1.waiting = m.waiting := by
  unfold dispatch
  have a1 : ¬ h.stream < -1 := by omega
  have a2 : ¬ h.stream = -1 := by omega
  simp only [a1, a2, if_false]
  unfold lookup
  cases hf : free m h.stream with
  | panic k => exact absurd hf (free_no_panic m h.stream h0 h1 hw k)
  | err k => exact absurd hf (free_not_err m h.stream k)
  | ok m0 =>
    have hk := (free_words m m0 h.stream hf).2
    simp only [hk, hn]
    exact ⟨m0, rfl, hk⟩

/-! non-vacuity: the seed's frame (`84 00 7F FF 02 00 00 00 00`: READY on stream 32767) with three requests waiting -/

private def seedFrame : Bytes := [0x84, 0x00, 0x7F, 0xFF, 0x02, 0x00, 0x00, 0x00, 0x00]

example : (match runReader 3 seedFrame with
    | .ok r => r.broken == "UnexpectedStreamId" && r.left.waiting.length == 3 && r.delivered.isEmpty
    | _ => false) = true := by decide +kernel
/-- the same frame against a bitmap one word short: the model's reader panics -/
example : (match reader 10 seedFrame (allocateN ⟨511, [], []⟩ 3 0) [] with | .panic _ => true | _ => false) = true := by
  decide +kernel
/-- a response for a waiting request is delivered, then EOF -/
example : (match runReader 3 [0x84, 0x00, 0x00, 0x01, 0x08, 0x00, 0x00, 0x00, 0x01, 0x2A] with
    | .ok r => r.broken == "FrameHeaderParseError" && r.left.waiting.length == 2
        && (r.delivered.map (fun x => (x.req, x.stream, x.body))) == [(1, 1, [0x2A])]
    | _ => false) = true := by decide +kernel

/-! ### SUPPORTED -> ShardInfo -> shard_of -/

open ScyllaVerif.C08Sh in
/-- Whatever the server announces (any `nr_shards` ≥ 1, ANY `msb_ignore` — 64 and more included, the values that
overflowed the shift before fix 949cc99 —, any token), `shard_of` returns a shard below `nr_shards`. -/
theorem shard_of_lt (nr msb : Nat) (tok : Int) (h : 0 < nr) : shardOf nr msb tok < nr := by
  unfold shardOf checkedShl
  apply Nat.div_lt_of_lt_mul
  split
  · simp only [Option.getD_some]
    have : (((tok + 2 ^ 63) % 2 ^ 64).toNat * 2 ^ msb) % 2 ^ 64 < 2 ^ 64 := Nat.mod_lt _ (by decide)
    exact Nat.mul_lt_mul_of_lt_of_le this (Nat.le_refl _) h
  · simp only [Option.getD_none, Nat.zero_mul]
    exact Nat.mul_pos (by decide) h

open ScyllaVerif.C08Sh in
/-- `ShardInfo::try_from` is total on every option map (it has no partial operation: a function into `Except`), and
what it accepts is in range: `shard < nr_shards`, `1 ≤ nr_shards ≤ u16::MAX`, `msb_ignore ≤ u8::MAX` — and EVERY
`msb_ignore` up to 255 is accepted, so `shard_of` has to cope with all of them. -/
theorem shard_info_in_range (opts : List (Bytes × List Bytes)) (si : ShardInfo)
    (h : shardInfoOfSupported opts = .ok si) : si.shard < si.nr ∧ 0 < si.nr ∧ si.nr < 65536 ∧ si.msb < 256 := by
  unfold shardInfoOfSupported at h
  have pb : ∀ b bs v, parseUBelow b bs = some v → v < b := by
    intro b bs v hv
    unfold parseUBelow at hv
    simp only at hv
    repeat' split at hv
    all_goals first | (cases hv; done) | (cases hv; omega)
  split at h
  · split at h
    · split at h
      · cases h
      · rename_i shard hs
        split at h
        · cases h
        · rename_i nr hn
          split at h
          · cases h
          · split at h
            · cases h
            · rename_i msb hm
              split at h
              · cases h
              · cases h
                have := pb _ _ _ hn
                have := pb _ _ _ hm
                simp only
                omega
    · cases h
  · cases h
  · cases h

open ScyllaVerif.C08Sh in
/-- The two together: every option map either is refused or yields a sharder whose `shard_of` stays below the
announced shard count for every token. -/
theorem no_panic_shard_after_supported (opts : List (Bytes × List Bytes)) (tok : Int) :
    (∃ e, shardInfoOfSupported opts = .error e) ∨
    (∃ si, shardInfoOfSupported opts = .ok si ∧ shardOf si.nr si.msb tok < si.nr) := by
  cases h : shardInfoOfSupported opts with
  | error e => exact Or.inl ⟨e, rfl⟩
  | ok si => exact Or.inr ⟨si, rfl, shard_of_lt _ _ _ (shard_info_in_range opts si h).2.1⟩

open ScyllaVerif.C08Sh ScyllaVerif.C08F in
example : (match shardInfoOfSupported [(K_SHARD, [asciiBytes "3"]), (K_NR, [asciiBytes "4"]), (K_MSB, [asciiBytes "64"])] with
    | .ok si => si.shard == 3 && si.nr == 4 && si.msb == 64 && shardOf si.nr si.msb (-1) == 0
    | _ => false) = true := by decide +kernel
open ScyllaVerif.C08Sh in
example : shardOf 4 12 81985529216486895 < 4 ∧ shardOf 4 0 (-1) = 1 ∧ shardOf 4 63 (-1) = 2 := by decide +kernel

end ScyllaVerif.Props.C08Reader

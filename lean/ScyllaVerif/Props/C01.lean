/-
C01 — CQL value encoding conforms to the protocol and round-trips.
Property theorems only; helper lemmas live in `Proofs/Vint.lean`, `Proofs/CodecEnc.lean`, `Proofs/CodecDec.lean`.
Models: `Model/Vint.lean`, `Model/Cql.lean`, `Model/Codec.lean`.
-/
import ScyllaVerif.Model.Codec
import ScyllaVerif.Proofs.Vint
import ScyllaVerif.Proofs.CodecEnc
import ScyllaVerif.Proofs.CodecDec

namespace ScyllaVerif.Props.C01
open ScyllaVerif.Vint ScyllaVerif.Cql ScyllaVerif.Codec
open ScyllaVerif.Proofs

/-! ### vint / zig-zag (duration cells, length prefix of variable-width vector elements) -/

/-- Decoding an unsigned vint written by `unsigned_vint_encode` returns the value and leaves exactly the
bytes that followed it — for every `u64` (all nine length classes) and every continuation. -/
theorem uvint_roundtrip (v : BitVec 64) (r : Bytes) : uvintDec (uvintEnc v ++ r) = .ok (v, r) :=
  Vint.uvint_roundtrip v r

/-- Zig-zag is a bijection on 64-bit words (both directions). -/
theorem zigzag_roundtrip (v : BitVec 64) : zigzagDec (zigzagEnc v) = v := Vint.zigzag_roundtrip v
theorem zigzag_roundtrip_enc_dec (u : BitVec 64) : zigzagEnc (zigzagDec u) = u := Vint.zigzag_roundtrip_enc_dec u

/-- Signed vint round trip (`vint_encode` / `vint_decode`), for every `i64`. -/
theorem vint_roundtrip (v : BitVec 64) (r : Bytes) : vintDec (vintEnc v ++ r) = .ok (v, r) :=
  Vint.vint_roundtrip v r

/-- A vint takes 1 to 9 bytes. -/
theorem uvintEnc_length (v : BitVec 64) : 1 ≤ (uvintEnc v).length ∧ (uvintEnc v).length ≤ 9 :=
  Vint.uvintEnc_length v

/-- The comparison-chain model of `u8::leading_ones` is the bitwise count of leading one bits. -/
theorem leadingOnes8_spec : ∀ b : UInt8, leadingOnes8 b = Vint.leadingOnesBits b 8 := Vint.leadingOnes8_spec

/-- Fixed-width big-endian integers round-trip (`to_be_bytes` / `from_be_bytes`). -/
theorem be_roundtrip (n v : Nat) : beNat (beBytes n v) = v % 256 ^ n ∧ (beBytes n v).length = n :=
  ⟨Vint.beNat_beBytes n v, Vint.beBytes_length n v⟩

example : uvintEnc 0x4000 = [0xc0, 0x40, 0x00] ∧ vintEnc (BitVec.ofInt 64 (-3)) = [5] ∧
    uvintEnc (BitVec.ofNat 64 (2 ^ 64 - 1)) = [0xff, 0xff, 0xff, 0xff, 0xff, 0xff, 0xff, 0xff, 0xff] := by decide

/-! ### null, unset and empty cells -/

/-- `Option::None` is the 4 bytes `ff ff ff ff` and `Unset` is `ff ff ff fe`, at every type — also when the
writer does not write sizes (vector elements: finding F2, see `vector_null_counterexample`). -/
theorem null_unset_cells (t : CqlTy) (ws : Bool) (buf : Bytes) :
    encImpl t .null ws buf = .ok (buf ++ [0xff, 0xff, 0xff, 0xff]) ∧
    encImpl t .unset ws buf = .ok (buf ++ [0xff, 0xff, 0xff, 0xfe]) := by
  constructor <;> rw [encImpl] <;> rfl

/-- The legacy *empty* value is the zero-length cell `00 00 00 00`, accepted exactly for the types
`supports_special_empty_value` lists, i.e. all but counter, duration, list, set, map and UDT. -/
theorem empty_cell (t : CqlTy) (buf : Bytes) :
    encImpl t .empty true buf = (if t.supportsEmpty then .ok (buf ++ [0, 0, 0, 0]) else .error .notEmptyable) := by
  rw [encImpl]
  simp only [viewOf]
  split
  · simp [setValue, i32Max, be32, beBytes]
  · rfl

theorem supportsEmpty_iff (t : CqlTy) :
    t.supportsEmpty = false ↔ (t = .native .counter ∨ t = .native .duration ∨ (∃ e, t = .list e) ∨
      (∃ e, t = .set e) ∨ (∃ k v, t = .map k v) ∨ ∃ ks n fs, t = .udt ks n fs) := by
  cases t with
  | native n => cases n <;> simp [CqlTy.supportsEmpty]
  | _ => simp [CqlTy.supportsEmpty]

/-- A null cell decodes to null, at every type. -/
theorem null_cell_decodes (u : Bytes → Bool) (t : CqlTy) (rest : Bytes) :
    decBytes u t ([0xff, 0xff, 0xff, 0xff] ++ rest) = .ok .null := by
  have h : ¬ (rest.length + 1 + 1 + 1 + 1 < 4) := by omega
  simp [decBytes, readCqlBytes, decCell, beNat, i32Max, h]

/-! ### the back-patching encoder writes exactly the protocol bytes -/

/-- **Implementation = specification.**  For every type, every value, both writer modes and every buffer
the serializer is appended to: unless the specification has no encoding at all for the value (a bare
null / unset vector element — `bareNullInVector`; a `CqlValue` cannot contain one),
the placeholder / back-patch / shared-buffer implementation appends exactly the bytes of the CQL v4
definition `length ++ content` — and fails with the same error kind when that fails. -/
theorem encImpl_eq_encSpec (t : CqlTy) (v : CqlVal) (ws : Bool) (buf : Bytes)
    (h : encSpec t v ws ≠ .error .bareNullInVector) :
    encImpl t v ws buf =
      (match encSpec t v ws with
       | .ok s => .ok (buf ++ s)
       | .error e => .error e) := by
  have := CodecEnc.agree t v ws buf h
  rw [this]
  cases encSpec t v ws <;> rfl

-- non-vacuity: `map<text, tuple<int, list<vector<text,2>>>>` with a null tuple field
example :
    let t : CqlTy := .map (.native .text) (.tuple [.native .int, .list (.vector (.native .text) 2)])
    let v : CqlVal := .map [(.text [0x61, 0x62], .tuple [.null, .list [.vector [.text [0x61], .text [0x62, 0x63]]]])]
    encSpec t v true = .ok [0, 0, 0, 0x23, 0, 0, 0, 1, 0, 0, 0, 2, 0x61, 0x62, 0, 0, 0, 0x15, 0xff, 0xff, 0xff, 0xff,
      0, 0, 0, 0x0d, 0, 0, 0, 1, 0, 0, 0, 5, 1, 0x61, 2, 0x62, 0x63] ∧
    encImpl t v true [0xaa] = (encSpec t v true).map ([0xaa] ++ ·) := by
  constructor <;> rfl

/-- Corollary: whenever the protocol defines the bytes of `v`, the serializer appends exactly them. -/
theorem encImpl_of_encSpec_ok (t : CqlTy) (v : CqlVal) (ws : Bool) (buf s : Bytes)
    (h : encSpec t v ws = .ok s) : encImpl t v ws buf = .ok (buf ++ s) := by
  have := encImpl_eq_encSpec t v ws buf (by rw [h]; intro e; cases e)
  rw [this, h]

/-! ### round trip -/

/-- **Round trip (content level).**  (`_partial`: the full statement — every value that has the shape of
the type — is false of the current tree, see the counterexamples at the end of the file; the domain here,
`wfVal`, excludes exactly the shapes F1, F2, F8, F9 and types that are not CQL types.)  For every type, every value well-formed for it (`wfVal`: decidable —
shape of the type, UTF-8 / ASCII text, `time` within a day, non-empty varint, and none of the shapes F1, F2,
F8, F9 below), the content bytes the protocol defines decode to the value's normal form `pad t v`
(short tuples / UDTs padded with nulls, UDT fields in type order) — at every nesting depth; moreover the
content is zero bytes long only for `empty` and the empty string / blob. -/
theorem roundtrip_partial (u : Bytes → Bool) (t : CqlTy) (v : CqlVal) (body : Bytes)
    (hw : wfVal u t v = true) (he : encSpec t v false = .ok body) (hlen : body.length < 2 ^ 64) :
    decVal u t body = .ok (pad t v) ∧ (body = [] → zeroLenBody v = true) :=
  CodecDec.rt u t v body hw he hlen

/-- **Round trip (cell level, through the real serializer).**  A null or well-formed value whose cell the
protocol defines: the back-patching serializer appends exactly that cell to any buffer, and reading the cell
back (with anything following it) gives `pad t v`.  Cells above `i32::MAX` bytes are `SizeOverflow`
(`size_overflow_*`), so `encSpec … = .ok cell` is exactly "the value fits". -/
theorem roundtrip_cell_partial (u : Bytes → Bool) (t : CqlTy) (v : CqlVal) (cell rest buf : Bytes)
    (hw : wfCell u t v = true) (hs : encSpec t v true = .ok cell) :
    encImpl t v true buf = .ok (buf ++ cell) ∧ decBytes u t (cell ++ rest) = .ok (pad t v) := by
  refine ⟨encImpl_of_encSpec_ok t v true buf cell hs, ?_⟩
  unfold wfCell at hw
  simp only [Bool.or_eq_true] at hw
  rcases hw with hn | hwf
  · cases v <;> simp [isNullVal] at hn
    rw [encSpec] at hs
    simp only [viewOf, if_true] at hs
    cases hs
    simp only [decBytes, CodecDec.readCqlBytes_null, decCell, CodecDec.pad_null]
  · obtain ⟨body, hb, hlen, rfl⟩ := CodecDec.wf_cell u t v cell hwf hs
    have hl : body.length < 2 ^ 64 := by
      have := CodecDec.i32Max_lt
      omega
    simp only [decBytes, CodecDec.readCqlBytes_cell body rest hlen, decCell]
    exact (CodecDec.rt u t v body hwf hb hl).1

-- non-vacuity: `map<text, tuple<int, list<vector<text,2>>>>` with a null tuple field and a short tuple
set_option maxRecDepth 100000 in
example :
    let t : CqlTy := .map (.native .text) (.tuple [.native .int, .list (.vector (.native .text) 2), .native .uuid])
    let v : CqlVal := .map [(.text [0x61, 0x62], .tuple [.null, .list [.vector [.text [0x61], .text [0x62, 0x63]]]])]
    wfCell (fun _ => true) t v = true ∧
    pad t v = .map [(.text [0x61, 0x62], .tuple [.null, .list [.vector [.text [0x61], .text [0x62, 0x63]]], .null])] ∧
    (∃ cell, encSpec t v true = .ok cell ∧ decBytes (fun _ => true) t cell = .ok (pad t v)) := by
  refine ⟨by rfl, by rfl, _, rfl, by rfl⟩

/-! ### size overflow (error branch) -/

/-- A value whose content exceeds `i32::MAX` bytes is rejected with `SizeOverflow` by `set_value`,
whether or not the size is written … -/
theorem size_overflow_set_value (ws : Bool) (body buf : Bytes) (h : body.length > i32Max) :
    setValue ws body buf = .error .sizeOverflow := by
  simp [setValue, h]

/-- … and by the builder's `finish` when it back-patches; content of at most `i32::MAX` bytes is accepted. -/
theorem size_overflow_finish (buf body : Bytes) :
    builderFinish true buf.length (builderNew true buf ++ body) =
      (if body.length > i32Max then .error .sizeOverflow else .ok (buf ++ be32 body.length ++ body)) := by
  rw [CodecEnc.builder_frame]
  simp only [frame, if_true]
  split <;> simp [CodecEnc.app, List.append_assoc]

/-- Blob / text / varint cells: `SizeOverflow` exactly above `i32::MAX` content bytes. -/
theorem size_overflow_blob (b buf : Bytes) :
    encImpl (.native .blob) (.blob b) true buf =
      (if b.length > i32Max then .error .sizeOverflow else .ok (buf ++ be32 b.length ++ b)) := by
  rw [encImpl]
  simp [viewOf, encScalarImpl, setValue]

example : setValue true [1, 2, 3] [9] = .ok [9, 0, 0, 0, 3, 1, 2, 3] := by rfl

/-! ### the four shapes on which the current tree does NOT round-trip (known findings)

Full statement of the property (false of the current code, kept here on purpose):

  theorem roundtrip_full (u) (t v cell) :
      "v has the shape of t (short tuples / UDTs allowed, nulls in fields, any element)" →
      encImpl t v true [] = .ok cell → decBytes u t cell = .ok (pad t v)
  theorem carrier_factor_full : every typed carrier value x, embedded as v, satisfies
      encImpl t v true [] = (encSpec t v true)          -- including `Vec<Option<T>>` bound to a vector

The proved statements are `roundtrip_partial` / `roundtrip_cell_partial` above, on the domain `wfVal`, which excludes exactly the shapes F1, F2,
F8, F9 (plus degenerate types that are not CQL types).  Their witnesses, replayed on the real code by
`corpus/C01/known_findings.case`: -/

def allUtf8 : Bytes → Bool := fun _ => true

set_option maxRecDepth 100000

/-- **F1.** `CqlValue::Tuple(vec![])` bound to `tuple<int,int>` is written as the zero-length cell
`00 00 00 00`, which decodes to `Empty`, not to the padded `Tuple([None, None])`. -/
theorem roundtrip_counterexample :
    encImpl (.tuple [.native .int, .native .int]) (.tuple []) true [] = .ok [0, 0, 0, 0] ∧
    decBytes allUtf8 (.tuple [.native .int, .native .int]) [0, 0, 0, 0] = .ok .empty ∧
    pad (.tuple [.native .int, .native .int]) (.tuple []) = .tuple [.null, .null] := by
  refine ⟨by rfl, by rfl, by rfl⟩

/-- **F2.** `vec![None, Some(5)] : Vec<Option<i32>>` bound to `vector<int,2>`: the null is written as the
raw bytes `ff ff ff ff` (`set_null` ignores `write_size`); the protocol has no encoding for it
(`encSpec` = `bareNullInVector`), and the bytes read back as `[-1, 5]`. -/
theorem carrier_counterexample :
    encImpl (.vector (.native .int) 2) (.vector [.null, .int 5]) true [] =
      .ok [0, 0, 0, 8, 0xff, 0xff, 0xff, 0xff, 0, 0, 0, 5] ∧
    encSpec (.vector (.native .int) 2) (.vector [.null, .int 5]) true = .error .bareNullInVector ∧
    decBytes allUtf8 (.vector (.native .int) 2) [0, 0, 0, 8, 0xff, 0xff, 0xff, 0xff, 0, 0, 0, 5] =
      .ok (.vector [.int 0xffffffff, .int 5]) := by
  refine ⟨by rfl, by rfl, by rfl⟩

/-- **F8.** `CqlValue::Vector([Text("a"), Text("")])` bound to `vector<text,2>` is written correctly as
`01 61 00`, but the decoder reads the trailing zero-length element as null (`read_n_bytes` answers `None` on
an empty slice) and fails with `ExpectedNonNull`. -/
theorem vector_trailing_empty_counterexample :
    encImpl (.vector (.native .text) 2) (.vector [.text [0x61], .text []]) true [] = .ok [0, 0, 0, 3, 1, 0x61, 0] ∧
    decBytes allUtf8 (.vector (.native .text) 2) [0, 0, 0, 3, 1, 0x61, 0] = .error .expectedNonNull := by
  refine ⟨by rfl, by rfl⟩

/-- **F9.** `CqlValue::Vector([Empty, Int(5)])` bound to `vector<int,2>` is accepted and the `Empty` element
is written as nothing: a 4-byte `vector<int,2>` that does not decode. -/
theorem vector_empty_element_counterexample :
    encImpl (.vector (.native .int) 2) (.vector [.empty, .int 5]) true [] = .ok [0, 0, 0, 4, 0, 0, 0, 5] ∧
    decBytes allUtf8 (.vector (.native .int) 2) [0, 0, 0, 4, 0, 0, 0, 5] = .error .expectedNonNull := by
  refine ⟨by rfl, by rfl⟩

end ScyllaVerif.Props.C01

/-
C01 — CQL value encoding conforms to the protocol and round-trips.
Property theorems only; helper lemmas live in `Proofs/Vint.lean`, `Proofs/CodecEnc.lean`, `Proofs/CodecDec.lean`.
Models: `Model/Vint.lean`, `Model/Cql.lean`, `Model/Codec.lean`.
-/
import ScyllaVerif.Model.Codec
import ScyllaVerif.Proofs.Vint
import ScyllaVerif.Proofs.CodecEnc
import ScyllaVerif.Proofs.CodecDec
import ScyllaVerif.Proofs.CodecTotal
import ScyllaVerif.Proofs.CarrierFactor
import ScyllaVerif.Proofs.CodecDyn
import ScyllaVerif.Proofs.CodecSpec
import ScyllaVerif.Proofs.C01TypedRT
import ScyllaVerif.Model.C01ExternalConv
import ScyllaVerif.Proofs.C01VarintNorm

namespace ScyllaVerif.Props.C01
open ScyllaVerif.Vint ScyllaVerif.Cql ScyllaVerif.Codec
open ScyllaVerif.Proofs
open ScyllaVerif.TypedCarrier ScyllaVerif.TypedDecode

/-! ### vint / zig-zag (duration cells, length prefix of variable-width vector elements) -/

/-- Decoding an unsigned vint written by `unsigned_vint_encode` returns the value and leaves exactly the
bytes that followed it — for every `u64` (all nine length classes) and every continuation. -/
theorem uvint_roundtrip (v : BitVec 64) (r : Bytes) : uvintDec (uvintEnc v ++ r) = .ok (v, r) :=
  Vint.uvint_roundtrip v r

/-- Zig-zag is a bijection on 64-bit words (both directions). -/
theorem zigzag_roundtrip (v : BitVec 64) : zigzagDec (zigzagEnc v) = v := Vint.zigzag_roundtrip v
theorem zigzag_roundtrip_enc_dec (u : BitVec 64) : zigzagEnc (zigzagDec u) = u := Vint.zigzag_roundtrip_enc_dec u

/-- Signed vint round trip (`vint_encode` / `vint_decode`), for every `i64`. -/
theorem vint_roundtrip (v : BitVec 64) (r : Bytes) : vintDec (vintEnc v ++ r) = .ok (v, r) :=
  Vint.vint_roundtrip v r

/-- A vint takes 1 to 9 bytes. -/
theorem uvintEnc_length (v : BitVec 64) : 1 ≤ (uvintEnc v).length ∧ (uvintEnc v).length ≤ 9 :=
  Vint.uvintEnc_length v

/-- The comparison-chain model of `u8::leading_ones` is the bitwise count of leading one bits. -/
theorem leadingOnes8_spec : ∀ b : UInt8, leadingOnes8 b = Vint.leadingOnesBits b 8 := Vint.leadingOnes8_spec

/-- Fixed-width big-endian integers round-trip (`to_be_bytes` / `from_be_bytes`). -/
theorem be_roundtrip (n v : Nat) : beNat (beBytes n v) = v % 256 ^ n ∧ (beBytes n v).length = n :=
  ⟨Vint.beNat_beBytes n v, Vint.beBytes_length n v⟩

example : uvintEnc 0x4000 = [0xc0, 0x40, 0x00] ∧ vintEnc (BitVec.ofInt 64 (-3)) = [5] ∧
    uvintEnc (BitVec.ofNat 64 (2 ^ 64 - 1)) = [0xff, 0xff, 0xff, 0xff, 0xff, 0xff, 0xff, 0xff, 0xff] := by decide

/-! ### null, unset and empty cells -/

/-- `Option::None` is the 4 bytes `ff ff ff ff` and `Unset` is `ff ff ff fe`, at every type — also when the
writer does not write sizes (vector elements: finding C01-F2, see `carrier_counterexample`). -/
theorem null_unset_cells (t : CqlTy) (ws : Bool) (buf : Bytes) :
    encImpl t .null ws buf = .ok (buf ++ [0xff, 0xff, 0xff, 0xff]) ∧
    encImpl t .unset ws buf = .ok (buf ++ [0xff, 0xff, 0xff, 0xfe]) := by
  constructor <;> rw [encImpl] <;> rfl

/-- The legacy *empty* value is the zero-length cell `00 00 00 00`, accepted exactly for the types
`supports_special_empty_value` lists, i.e. all but counter, duration, list, set, map and UDT. -/
theorem empty_cell (t : CqlTy) (buf : Bytes) :
    encImpl t .empty true buf = (if t.supportsEmpty then .ok (buf ++ [0, 0, 0, 0]) else .error .notEmptyable) := by
  rw [encImpl]
  simp only [viewOf]
  split
  · simp [setValue, i32Max, be32, beBytes]
  · rfl

theorem supportsEmpty_iff (t : CqlTy) :
    t.supportsEmpty = false ↔ (t = .native .counter ∨ t = .native .duration ∨ (∃ e, t = .list e) ∨
      (∃ e, t = .set e) ∨ (∃ k v, t = .map k v) ∨ ∃ ks n fs, t = .udt ks n fs) := by
  cases t with
  | native n => cases n <;> simp [CqlTy.supportsEmpty]
  | _ => simp [CqlTy.supportsEmpty]

/-- A null cell decodes to null, at every type. -/
theorem null_cell_decodes (u : Bytes → Bool) (t : CqlTy) (rest : Bytes) :
    decBytes u t ([0xff, 0xff, 0xff, 0xff] ++ rest) = .ok .null := by
  have h : ¬ (rest.length + 1 + 1 + 1 + 1 < 4) := by omega
  simp [decBytes, readCqlBytes, decCell, beNat, i32Max, h]

/-! ### the back-patching encoder writes exactly the protocol bytes -/

/-- **Implementation = specification.**  For every type, every value, both writer modes and every buffer
the serializer is appended to: unless the specification has no encoding at all for the value (a bare
null / unset vector element — `bareNullInVector`; a `CqlValue` cannot contain one),
the placeholder / back-patch / shared-buffer implementation appends exactly the bytes of the CQL v4
definition `length ++ content` — and fails with the same error kind when that fails. -/
theorem encImpl_eq_encSpec (t : CqlTy) (v : CqlVal) (ws : Bool) (buf : Bytes)
    (h : encSpec t v ws ≠ .error .bareNullInVector) :
    encImpl t v ws buf =
      (match encSpec t v ws with
       | .ok s => .ok (buf ++ s)
       | .error e => .error e) := by
  have := CodecEnc.agree t v ws buf h
  rw [this]
  cases encSpec t v ws <;> rfl

-- non-vacuity: `map<text, tuple<int, list<vector<text,2>>>>` with a null tuple field
example :
    let t : CqlTy := .map (.native .text) (.tuple [.native .int, .list (.vector (.native .text) 2)])
    let v : CqlVal := .map [(.text [0x61, 0x62], .tuple [.null, .list [.vector [.text [0x61], .text [0x62, 0x63]]]])]
    encSpec t v true = .ok [0, 0, 0, 0x23, 0, 0, 0, 1, 0, 0, 0, 2, 0x61, 0x62, 0, 0, 0, 0x15, 0xff, 0xff, 0xff, 0xff,
      0, 0, 0, 0x0d, 0, 0, 0, 1, 0, 0, 0, 5, 1, 0x61, 2, 0x62, 0x63] ∧
    encImpl t v true [0xaa] = (encSpec t v true).map ([0xaa] ++ ·) := by
  constructor <;> rfl

/-- Corollary: whenever the protocol defines the bytes of `v`, the serializer appends exactly them. -/
theorem encImpl_of_encSpec_ok (t : CqlTy) (v : CqlVal) (ws : Bool) (buf s : Bytes)
    (h : encSpec t v ws = .ok s) : encImpl t v ws buf = .ok (buf ++ s) := by
  have := encImpl_eq_encSpec t v ws buf (by rw [h]; intro e; cases e)
  rw [this, h]

/-- A dynamic value (the image of an `Option<CqlValue>`) never contains the one thing the protocol cannot
encode, a bare null / unset vector element … -/
theorem encSpec_dyn_defined (t : CqlTy) (v : CqlVal) (h : v.isDyn = true) :
    encSpec t v true ≠ .error .bareNullInVector := by
  cases v with
  | null => rw [encSpec]; simp [viewOf]
  | _ => exact CodecDyn.nbt t _ true h

/-- … so for the dynamic value type **implementation = specification holds unconditionally**. -/
theorem encImpl_eq_encSpec_dyn (t : CqlTy) (v : CqlVal) (buf : Bytes) (h : v.isDyn = true) :
    encImpl t v true buf =
      (match encSpec t v true with
       | .ok s => .ok (buf ++ s)
       | .error e => .error e) :=
  encImpl_eq_encSpec t v true buf (encSpec_dyn_defined t v h)

/-! ### the bytes are the CQL v4 wire encoding (independent protocol definition `Model/CqlSpec.lean`) -/

/-- The unsigned vint bit trick (`(639 - 9·lz) >> 6`, sign-extended length bits) produces the arithmetic
definition of the format: `e` leading ones, the value's high bits, `e` big-endian bytes. -/
theorem uvintEnc_is_wire (v : BitVec 64) : uvintEnc v = CqlSpec.uvintSpec v.toNat := CodecSpec.uvintEnc_eq_spec v

/-- The zig-zag bit trick is `x ↦ 2x` for `x ≥ 0`, `x ↦ -2x - 1` for `x < 0`. -/
theorem zigzagEnc_is_wire (v : BitVec 64) : (zigzagEnc v).toNat = CqlSpec.zigzagSpec v.toInt :=
  CodecSpec.zigzag_eq_spec v

/-- **Conformance of the content.**  `CqlSpec.specCell t v` is the protocol's `[bytes]` of `v` at `t`, defined
exactly for null, not-set and the *values of the type* (`CqlSpec.cellOk`: 7-bit ascii, `time` within a day,
varint of at least one byte, *empty* only for natives other than counter / duration, fixed-width vector
elements of exactly their width and never null, a tuple value with at least one field, UDT fields of the type
only) — written from the protocol text with none of the model's helpers.  For every type whose UDTs have
distinct field names and every such value, whatever `encSpec` (which shares `viewOf` / `lookupLast` with
`encImpl`) produces is that encoding: big-endian widths per native, `decimal` = scale ++ unscaled,
`duration` = three arithmetic zig-zag vints, `inet` 4 / 16 bytes, collections `[int n]` + `[bytes]` elements,
tuple prefix, UDT fields in *type* order with null for absent ones (last duplicate wins), vectors by the
spec's own fixed-width table. -/
theorem encSpec_is_wire (t : CqlTy) (v : CqlVal) (cell : Bytes) (hty : CqlSpec.wfTy t = true)
    (hok : CqlSpec.cellOk t v = true) (h : encSpec t v true = .ok cell) : CqlSpec.specCell t v = some cell := by
  unfold CqlSpec.specCell
  rw [if_pos hok]
  exact CodecSpec.cell_of_body t (CodecSpec.sound t hty) v cell h

/-- **The serializer writes the CQL v4 wire encoding**: for every dynamic value *of the type*, every type and
every buffer, if `serialize` succeeds it has appended exactly `CqlSpec.specCell t v`.  (Where it succeeds on
something that is not a value of the type — C01-F1, C01-F9 — the output is NOT an encoding: see
`roundtrip_counterexample`, `vector_empty_element_counterexample`.) -/
theorem encImpl_wire (t : CqlTy) (v : CqlVal) (buf out : Bytes) (hty : CqlSpec.wfTy t = true)
    (hok : CqlSpec.cellOk t v = true) (hd : v.isDyn = true) (h : encImpl t v true buf = .ok out) :
    ∃ s, out = buf ++ s ∧ CqlSpec.specCell t v = some s := by
  rw [encImpl_eq_encSpec_dyn t v buf hd] at h
  cases hs : encSpec t v true with
  | error e => rw [hs] at h; cases h
  | ok s =>
    rw [hs] at h
    cases h
    exact ⟨s, rfl, encSpec_is_wire t v s hty hok hs⟩

/-- **Typed carriers write the wire encoding of their embedding**: for every carrier `c`, Rust value `x` of
that type (`wtVal`), CQL type `t` the carrier is compatible with (`compat`: everything but `MaybeEmpty` at a
non-emptiable type and a set carrier at a vector type) with distinct UDT field names, if the embedding is a
value of the type (`cellOk`; `hnb` — no bare null / unset vector element, C01-F2 — is implied by it but kept
as a separate hypothesis) and the typed `serialize` succeeds, it has appended exactly
`specCell t (embed c x)` — `Vec<Option<T>>` at a list, `MaybeUnset<T>` (not `isDyn`) included. -/
theorem carrier_wire (c : Carrier) (t : CqlTy) (x : RustVal) (buf out : Bytes)
    (hwt : wtVal c x = true) (hc : compat c t = true) (hty : CqlSpec.wfTy t = true)
    (hok : CqlSpec.cellOk t (embed c x) = true)
    (hnb : encSpec t (embed c x) true ≠ .error .bareNullInVector)
    (h : serCarrier c t x true buf = .ok out) :
    ∃ s, out = buf ++ s ∧ CqlSpec.specCell t (embed c x) = some s := by
  rw [CarrierFactor.factor c t x true buf hwt hc, encImpl_eq_encSpec t _ true buf hnb] at h
  cases hs : encSpec t (embed c x) true with
  | error e => rw [hs] at h; cases h
  | ok s => rw [hs] at h; cases h; exact ⟨s, rfl, encSpec_is_wire t _ s hty hok hs⟩

-- non-vacuity: a UDT value with reordered, duplicated (last wins) and missing fields
set_option maxRecDepth 100000 in
example :
    let t : CqlTy := .udt "ks" "t" [("a", .native .int), ("b", .native .text), ("c", .list (.native .bigint))]
    let v : CqlVal := .udt "ks" "t" [("b", .text [0x78]), ("a", .int 1), ("b", .text [0x79, 0x7a])]
    CqlSpec.wfTy t = true ∧ v.isDyn = true ∧ wfCell (fun _ => true) t v = true ∧
    CqlSpec.specCell t v = some [0, 0, 0, 0x12, 0, 0, 0, 4, 0, 0, 0, 1, 0, 0, 0, 2, 0x79, 0x7a, 0xff, 0xff, 0xff, 0xff] ∧
    encImpl t v true [] = .ok [0, 0, 0, 0x12, 0, 0, 0, 4, 0, 0, 0, 1, 0, 0, 0, 2, 0x79, 0x7a, 0xff, 0xff, 0xff, 0xff] ∧
    pad t v = .udt "ks" "t" [("a", .int 1), ("b", .text [0x79, 0x7a]), ("c", .null)] ∧
    decBytes (fun _ => true) t [0, 0, 0, 0x12, 0, 0, 0, 4, 0, 0, 0, 1, 0, 0, 0, 2, 0x79, 0x7a, 0xff, 0xff, 0xff, 0xff] =
      .ok (pad t v) := by
  refine ⟨by rfl, by rfl, by rfl, encSpec_is_wire _ _ _ (by rfl) (by decide) (by rfl), by rfl, by rfl, by rfl⟩

/-! ### round trip -/

/-- **Round trip (content level).**  (`_partial`: the full statement — every value that has the shape of
the type — is false of the current tree, see the counterexamples at the end of the file; the domain here,
`wfVal` = "a CQL value of the type, under the constructor the type dictates", leaves out the shapes C01-F1,
C01-F2, C01-F9 (defects), values outside the type's value space (`time_out_of_range_example`,
`empty_varint_example`, `null_list_element_example`, non-ASCII `ascii`), the cross-constructor bindings
(`cross_constructor_same_bytes`: same bytes, hence same decoded value, as the dictated constructor) and
types that are not CQL types (zero-field tuple / UDT, vector dimension 0, duplicate UDT field names).)  For every type, every value well-formed for it (`wfVal`: decidable —
shape of the type, UTF-8 / ASCII text, `time` within a day, non-empty varint, and none of the shapes C01-F1, C01-F2,
C01-F9 below), the content bytes the protocol defines decode to the value's normal form `pad t v`
(short tuples / UDTs padded with nulls, UDT fields in type order) — at every nesting depth; moreover the
content is zero bytes long only for `empty` and the empty string / blob. -/
theorem roundtrip_partial (u : Bytes → Bool) (t : CqlTy) (v : CqlVal) (body : Bytes)
    (hw : wfVal u t v = true) (he : encSpec t v false = .ok body) (hlen : body.length < 2 ^ 64) :
    decVal u t body = .ok (pad t v) ∧ (body = [] → zeroLenBody v = true) :=
  CodecDec.rt u t v body hw he hlen

/-- **Round trip (cell level, through the real serializer).**  A null or well-formed value whose cell the
protocol defines: the back-patching serializer appends exactly that cell to any buffer, and reading the cell
back (with anything following it) gives `pad t v`.  Cells above `i32::MAX` bytes are `SizeOverflow`
(`size_overflow_*`), so `encSpec … = .ok cell` is exactly "the value fits". -/
theorem roundtrip_cell_partial (u : Bytes → Bool) (t : CqlTy) (v : CqlVal) (cell rest buf : Bytes)
    (hw : wfCell u t v = true) (hs : encSpec t v true = .ok cell) :
    encImpl t v true buf = .ok (buf ++ cell) ∧ decBytes u t (cell ++ rest) = .ok (pad t v) := by
  refine ⟨encImpl_of_encSpec_ok t v true buf cell hs, ?_⟩
  unfold wfCell at hw
  simp only [Bool.or_eq_true] at hw
  rcases hw with hn | hwf
  · cases v <;> simp [isNullVal] at hn
    rw [encSpec] at hs
    simp only [viewOf, if_true] at hs
    cases hs
    simp only [decBytes, CodecDec.readCqlBytes_null, decCell, CodecDec.pad_null]
  · obtain ⟨body, hb, hlen, rfl⟩ := CodecDec.wf_cell u t v cell hwf hs
    have hl : body.length < 2 ^ 64 := by
      have := CodecDec.i32Max_lt
      omega
    simp only [decBytes, CodecDec.readCqlBytes_cell body rest hlen, decCell]
    exact (CodecDec.rt u t v body hwf hb hl).1

/-- **Encode totality.**  A well-formed value is never rejected for its shape: the specification (hence, by
`encImpl_eq_encSpec`, the serializer) either produces bytes or fails for size only — a cell above `i32::MAX`
bytes (`SizeOverflow`) or a collection above `i32::MAX` elements (`TooManyElements`). -/
theorem encode_total (u : Bytes → Bool) (t : CqlTy) (v : CqlVal) (ws : Bool) (hw : wfVal u t v = true) :
    (∃ s, encSpec t v ws = .ok s) ∨ encSpec t v ws = .error .sizeOverflow ∨
      encSpec t v ws = .error .tooManyElements := by
  have h := CodecTotal.tot u t v ws hw
  cases hr : encSpec t v ws with
  | ok s => exact .inl ⟨s, rfl⟩
  | error e =>
    rcases h e hr with rfl | rfl
    · exact .inr (.inl rfl)
    · exact .inr (.inr rfl)

/-- Same through the real serializer, for any buffer. -/
theorem encode_total_impl (u : Bytes → Bool) (t : CqlTy) (v : CqlVal) (buf : Bytes) (hw : wfVal u t v = true) :
    (∃ s, encImpl t v true buf = .ok (buf ++ s)) ∨ encImpl t v true buf = .error .sizeOverflow ∨
      encImpl t v true buf = .error .tooManyElements := by
  have h := encode_total u t v true hw
  have ha := encImpl_eq_encSpec t v true buf (by
    rcases h with ⟨s, hs⟩ | hs | hs <;> rw [hs] <;> intro e <;> cases e)
  rcases h with ⟨s, hs⟩ | hs | hs <;> rw [hs] at ha
  · exact .inl ⟨s, ha⟩
  · exact .inr (.inl ha)
  · exact .inr (.inr ha)

-- non-vacuity: `map<text, tuple<int, list<vector<text,2>>>>` with a null tuple field and a short tuple
set_option maxRecDepth 100000 in
example :
    let t : CqlTy := .map (.native .text) (.tuple [.native .int, .list (.vector (.native .text) 2), .native .uuid])
    let v : CqlVal := .map [(.text [0x61, 0x62], .tuple [.null, .list [.vector [.text [0x61], .text [0x62, 0x63]]]])]
    wfCell (fun _ => true) t v = true ∧
    pad t v = .map [(.text [0x61, 0x62], .tuple [.null, .list [.vector [.text [0x61], .text [0x62, 0x63]]], .null])] ∧
    (∃ cell, encSpec t v true = .ok cell ∧ decBytes (fun _ => true) t cell = .ok (pad t v)) := by
  refine ⟨by rfl, by rfl, _, rfl, by rfl⟩

/-! ### typed Rust carriers -/

/-- **Carrier factorisation (serialization).**  For every typed carrier `c` (scalars, `Option`, `MaybeUnset`,
`MaybeEmpty`, `Vec`, set and map types, tuples, `CqlValue`, arbitrarily nested), every Rust value `x` of that
type and every CQL type `t` compatible with it, the carrier's own `SerializeValue` impl writes exactly what the
dynamic serializer writes for the embedding `embed c x` — so every typed representation inherits
`encImpl_eq_encSpec`, `encode_total` and the round trip of its embedding.  `compat` excludes only the two
places where the typed impls answer differently *by design* (examples below): `MaybeEmpty` bound to a type
without an empty value, and a set carrier bound to a vector type. -/
theorem carrier_factor (c : Carrier) (t : CqlTy) (x : RustVal) (ws : Bool) (buf : Bytes)
    (hwt : wtVal c x = true) (hc : compat c t = true) :
    serCarrier c t x ws buf = encImpl t (embed c x) ws buf :=
  CarrierFactor.factor c t x ws buf hwt hc

/-- … hence the typed impl appends exactly the protocol bytes of the embedding, whenever those are defined. -/
theorem carrier_factor_spec (c : Carrier) (t : CqlTy) (x : RustVal) (ws : Bool) (buf s : Bytes)
    (hwt : wtVal c x = true) (hc : compat c t = true) (hs : encSpec t (embed c x) ws = .ok s) :
    serCarrier c t x ws buf = .ok (buf ++ s) := by
  rw [carrier_factor c t x ws buf hwt hc, encImpl_of_encSpec_ok t _ ws buf s hs]

/-- **Typed round trip.**  For every typed carrier `c` that has a `DeserializeValue` impl (scalars, `Option`,
`MaybeEmpty`, `Vec`, set and map types, tuples, arbitrarily nested), every CQL type `t` it type-checks against
for deserialization (`tcheck`) and is compatible with for serialization (`compat`), and every Rust value `x`
of that type in the round-trip domain `rtOk` (UTF-8 / ASCII strings, `time` within a day, non-empty varint; set
and map carriers whose key type's order is modelled (`keyModelled`: integers, `bool`, `String`, `Vec<u8>`, `Uuid`,
`CqlTimeuuid` with its custom order, `IpAddr`, `Counter`, `CqlTimestamp`, `Option` / `Vec` / tuples of those) on
canonical content — strictly ascending keys, which is what a `BTreeSet` / `BTreeMap` value is; no `Some(None)`, no null / *empty* vector element — C01-F2 / C01-F9): the carrier's own serializer appends exactly
the cell the protocol defines for its embedding, and the carrier's own typed deserializer, reading that cell
(followed by anything), returns `x` itself — `Vec<Option<T>>` with nulls in lists and maps included. -/
theorem typed_roundtrip (u : Bytes → Bool) (fl : Flavour) (c : Carrier) (t : CqlTy) (x : RustVal) (cell rest buf : Bytes)
    (hwt : wtVal c x = true) (hc : compat c t = true) (htc : tcheck c t = true) (hrt : rtOk u c t x = true)
    (hs : encSpec t (embed c x) true = .ok cell) :
    serCarrier c t x true buf = .ok (buf ++ cell) ∧
    ∃ o, readCqlBytes (cell ++ rest) = .ok (o, rest) ∧ deserCarrier u fl c t o = .ok x :=
  ⟨carrier_factor_spec c t x true buf cell hwt hc hs,
   TypedRT.item_of_trt u fl c t x (TypedRT.trt u fl c t x hwt htc hrt) cell hs rest⟩

/-- The same as one call: `type_check`, split the cell, `deserialize`. -/
theorem typed_read_roundtrip (u : Bytes → Bool) (fl : Flavour) (c : Carrier) (t : CqlTy) (x : RustVal) (cell : Bytes)
    (hwt : wtVal c x = true) (htc : tcheck c t = true) (hrt : rtOk u c t x = true)
    (hs : encSpec t (embed c x) true = .ok cell) : typedRead u fl c t cell = some (.ok x) := by
  obtain ⟨o, hr, hd⟩ := TypedRT.item_of_trt u fl c t x (TypedRT.trt u fl c t x hwt htc hrt) cell hs []
  rw [List.append_nil] at hr
  simp only [typedRead, htc, if_true, hr, hd]

-- non-vacuity: `(Option<i32>, Vec<BTreeMap<String, Option<f64>>>)` with a `None` field and a `None` map value
set_option maxRecDepth 100000 in
example :
    let c : Carrier := .tuple [.opt .i32, .vec (.map .string (.opt .f64))]
    let t : CqlTy := .tuple [.native .int, .list (.map (.native .text) (.native .double))]
    let x : RustVal := .tuple [.none, .seq [.pairs [(.string [], .none), (.string [0x61], .some (.f64 0x3ff0000000000000))]]]
    wtVal c x = true ∧ compat c t = true ∧ tcheck c t = true ∧ rtOk (fun _ => true) c t x = true ∧
    (∃ cell, encSpec t (embed c x) true = .ok cell ∧ typedRead (fun _ => true) .btree c t cell = some (.ok x)) := by
  refine ⟨by rfl, by rfl, by rfl, by rfl, _, rfl, by rfl⟩

/-- **Which of two `Ord`-equal keys a collection keeps.**  `BTreeSet::from_iter` / `BTreeMap::from_iter` (stable
sort + `DedupSortedIter`) keep the LAST of equal keys — key and value; `HashSet` keeps the FIRST key, `HashMap`
the first key with the last value.  (Equal keys that are not identical exist: `CqlTimeuuid`'s order ignores the
version nibble.) -/
theorem collect_equal_keys (x y v w : RustVal) (h : rvCmp x y = .eq) :
    collectSet .btree [x, y] = [y] ∧ collectSet .hash [x, y] = [x] ∧
    collectMap .btree [(x, v), (y, w)] = [(y, w)] ∧ collectMap .hash [(x, v), (y, w)] = [(x, w)] := by
  simp [collectSet, collectMap, insertSet, insertMap, h]

set_option maxRecDepth 100000 in
example : rvCmp (.timeuuid 0x00000000000010008000000000000000) (.timeuuid 0x00000000000040008000000000000000) = .eq ∧
    collectSet .btree [.timeuuid 0x00000000000010008000000000000000, .timeuuid 0x00000000000040008000000000000000] =
      [.timeuuid 0x00000000000040008000000000000000] := by
  refine ⟨by rfl, by rfl⟩

set_option maxRecDepth 100000 in
/-- The set / map carriers `collect()`: a non-canonical body (unsorted, duplicates) reads as the sorted,
duplicate-free set, and a duplicated map key keeps its *last* value. -/
example :
    deserCarrier (fun _ => true) .btree (.set .i32) (.set (.native .int))
      (some [0, 0, 0, 3, 0, 0, 0, 4, 0, 0, 0, 5, 0, 0, 0, 4, 0, 0, 0, 1, 0, 0, 0, 4, 0, 0, 0, 5]) =
      .ok (.seq [.i32 1, .i32 5]) ∧
    deserCarrier (fun _ => true) .btree (.map .i32 .i32) (.map (.native .int) (.native .int))
      (some [0, 0, 0, 2, 0, 0, 0, 4, 0, 0, 0, 1, 0, 0, 0, 4, 0, 0, 0, 7, 0, 0, 0, 4, 0, 0, 0, 1, 0, 0, 0, 4, 0, 0, 0, 9]) =
      .ok (.pairs [(.i32 1, .i32 9)]) ∧
    rtOk (fun _ => true) (.set .i32) (.set (.native .int)) (.seq [.i32 5, .i32 1, .i32 5]) = false := by
  refine ⟨by rfl, by rfl, by rfl⟩

/-- Typed decoders have no "zero bytes ⇒ empty" rule: `i32` on the zero-length cell is `ByteLengthMismatch`,
`MaybeEmpty<i32>` reads `Empty`, `Option<i32>` on a null cell reads `None`, a short tuple does not type-check. -/
example :
    deserCarrier (fun _ => true) .btree .i32 (.native .int) (some []) = .error .byteLengthMismatch ∧
    deserCarrier (fun _ => true) .btree (.maybeEmpty .i32) (.native .int) (some []) = .ok .empty ∧
    deserCarrier (fun _ => true) .btree (.opt .i32) (.native .int) none = .ok .none ∧
    tcheck (.tuple [.i32]) (.tuple [.native .int, .native .int]) = false := by
  refine ⟨by rfl, by rfl, by rfl, by rfl⟩

-- non-vacuity and the two designed differences
set_option maxRecDepth 100000 in
example :
    let c : Carrier := .tuple [.opt .i32, .vec (.map .string (.opt .f64))]
    let t : CqlTy := .tuple [.native .int, .list (.map (.native .text) (.native .double)), .native .uuid]
    let x : RustVal := .tuple [.none, .seq [.pairs [(.string [0x61], .some (.f64 0x3ff0000000000000))]]]
    wtVal c x = true ∧ compat c t = true ∧
    serCarrier c t x true [] = .ok [0, 0, 0, 0x25, 0xff, 0xff, 0xff, 0xff, 0, 0, 0, 0x1d, 0, 0, 0, 1, 0, 0, 0, 0x15,
      0, 0, 0, 1, 0, 0, 0, 1, 0x61, 0, 0, 0, 8, 0x3f, 0xf0, 0, 0, 0, 0, 0, 0] := by
  refine ⟨by rfl, by rfl, by rfl⟩

example : serCarrier (.maybeEmpty .i32) (.native .counter) (.value (.i32 5)) true [] = .error .notEmptyable ∧
    encImpl (.native .counter) (embed (.maybeEmpty .i32) (.value (.i32 5))) true [] = .error .mismatchedType ∧
    serCarrier (.set .i32) (.vector (.native .int) 1) (.seq [.i32 5]) true [] = .error .notSetOrList ∧
    encImpl (.vector (.native .int) 1) (embed (.set .i32) (.seq [.i32 5])) true [] = .ok [0, 0, 0, 4, 0, 0, 0, 5] := by
  refine ⟨by rfl, by rfl, by rfl, by rfl⟩

/-! ### external carriers: the arithmetic of their conversions (`Model/C01ExternalConv.lean`)

For *serialization* an external carrier is converted (`From` / `TryFrom`) and then is its core carrier
(`chrono::NaiveDate`, `time::Date` ↦ `CqlDate`, …); for *deserialization* four of them have their own code
(`external_decode_roundtrip`), the two time-of-day types go through `TryInto` after the column's range check.
What is proved is that each encode / decode pair is a bijection on the external type's range (the `time`
crate built without `large-dates`), and where it is not (`chrono_leap_second`). -/

open ScyllaVerif.ExternalConv in
/-- `time::Date` ↔ `CqlDate`: every date of the crate's range goes to a `u32` and comes back. -/
theorem time_date_roundtrip (jd : Int) (h0 : timeDateMinJd ≤ jd) (h1 : jd ≤ timeDateMaxJd) :
    0 ≤ timeDateToCql jd ∧ timeDateToCql jd < 2 ^ 32 ∧ cqlToTimeDate (timeDateToCql jd) = some jd := by
  unfold timeDateToCql cqlToTimeDate julianDayOffset unixEpochJulianDay timeDateMinJd timeDateMaxJd at *
  refine ⟨by omega, by omega, ?_⟩
  have : jd + (2 ^ 31 - 2440588) - (2 ^ 31 - 2440588) = jd := by omega
  simp only [this]
  simp [h0, h1]

open ScyllaVerif.ExternalConv in
/-- `time::Time` ↔ `CqlTime`: every time of day goes to nanoseconds within the day and comes back. -/
theorem time_time_roundtrip (h m s n : Int) (h0 : 0 ≤ h) (h1 : h < 24) (m0 : 0 ≤ m) (m1 : m < 60) (s0 : 0 ≤ s)
    (s1 : s < 60) (n0 : 0 ≤ n) (n1 : n < 1000000000) :
    cqlToTimeTime (timeTimeToCql h m s n) = some (h, m, s, n) := by
  unfold cqlToTimeTime timeTimeToCql
  have hx : 0 ≤ (h * 3600 + m * 60 + s) * 1000000000 + n := by omega
  simp only [Int.tdiv_eq_ediv_of_nonneg hx, Int.tmod_eq_emod_of_nonneg hx]
  have e1 : ((h * 3600 + m * 60 + s) * 1000000000 + n) / 3600000000000 = h := by omega
  have e2 : ((h * 3600 + m * 60 + s) * 1000000000 + n) / 60000000000 = h * 60 + m := by omega
  have e3 : ((h * 3600 + m * 60 + s) * 1000000000 + n) / 1000000000 = h * 3600 + m * 60 + s := by omega
  have e4 : ((h * 3600 + m * 60 + s) * 1000000000 + n) % 1000000000 = n := by omega
  rw [e1, e2, e3, e4]
  have p2 : 0 ≤ h * 60 + m := by omega
  have p3 : 0 ≤ h * 3600 + m * 60 + s := by omega
  rw [Int.tmod_eq_emod_of_nonneg p2, Int.tmod_eq_emod_of_nonneg p3]
  have f2 : (h * 60 + m) % 60 = m := by omega
  have f3 : (h * 3600 + m * 60 + s) % 60 = s := by omega
  rw [f2, f3]
  have g1 : m % 256 = m := by omega
  have g2 : s % 256 = s := by omega
  have g3 : n % 4294967296 = n := by omega
  simp [g1, g2, g3, h0, h1, m1, s1, n1]

open ScyllaVerif.ExternalConv in
theorem time_time_in_day (h m s n : Int) (h0 : 0 ≤ h) (h1 : h < 24) (m0 : 0 ≤ m) (m1 : m < 60) (s0 : 0 ≤ s)
    (s1 : s < 60) (n0 : 0 ≤ n) (n1 : n < 1000000000) :
    0 ≤ timeTimeToCql h m s n ∧ timeTimeToCql h m s n ≤ 86399999999999 := by
  unfold timeTimeToCql; omega

open ScyllaVerif.ExternalConv in
/-- `time::OffsetDateTime` ↔ `CqlTimestamp`: milliseconds since the epoch; the way back restores the instant
truncated to the millisecond (exactly, when the nanoseconds are a whole number of milliseconds). -/
theorem time_odt_roundtrip (secs nanos : Int)
    (hr0 : (timeDateMinJd - unixEpochJulianDay) * 86400 ≤ secs)
    (hr1 : secs < (timeDateMaxJd - unixEpochJulianDay + 1) * 86400) (n0 : 0 ≤ nanos) (n1 : nanos < 1000000000) :
    cqlToTimeOdt (timeOdtToCql secs nanos) = some (secs, nanos / 1000000 * 1000000) := by
  unfold cqlToTimeOdt timeOdtToCql
  have e1 : (secs * 1000 + nanos / 1000000) / 1000 = secs := by omega
  have e2 : (secs * 1000 + nanos / 1000000) % 1000 = nanos / 1000000 := by omega
  simp only [e1, e2]
  simp [hr0, hr1]

open ScyllaVerif.ExternalConv in
/-- `chrono::NaiveTime` ↔ `CqlTime`: outside a leap second the pair is a bijection; a leap-second fraction in
the last second of the day is `ValueOverflow`. -/
theorem chrono_time_roundtrip (secs frac : Int) (s0 : 0 ≤ secs) (s1 : secs < 86400) (f0 : 0 ≤ frac)
    (f1 : frac < 1000000000) :
    chronoTimeToCql secs frac = some (secs * 1000000000 + frac) ∧
    cqlToChronoTime (secs * 1000000000 + frac) = some (secs, frac) ∧
    (∀ frac' : Int, 1000000000 ≤ frac' → chronoTimeToCql 86399 frac' = none) := by
  refine ⟨?_, ?_, ?_⟩
  · unfold chronoTimeToCql
    have : secs * 1000000000 + frac ≤ 86399999999999 := by omega
    simp [this]
  · unfold cqlToChronoTime
    have hx : 0 ≤ secs * 1000000000 + frac := by omega
    simp only [Int.tdiv_eq_ediv_of_nonneg hx, Int.tmod_eq_emod_of_nonneg hx]
    have e1 : (secs * 1000000000 + frac) / 1000000000 = secs := by omega
    have e2 : (secs * 1000000000 + frac) % 1000000000 = frac := by omega
    rw [e1, e2]
    simp [s0, s1, f0]
  · intro frac' hl
    unfold chronoTimeToCql
    simp only [ite_eq_right_iff]
    intro h; omega

open ScyllaVerif.ExternalConv in
/-- `chrono::DateTime<Utc>` ↔ `CqlTimestamp` (millisecond precision, `TryInto` path): inverse on chrono's whole
range, `ValueOverflow` outside it. -/
theorem chrono_dt_roundtrip (secs millis : Int) (m0 : 0 ≤ millis) (m1 : millis < 1000)
    (h0 : chronoDtMinMs ≤ secs * 1000 + millis) (h1 : secs * 1000 + millis ≤ chronoDtMaxMs) :
    cqlToChronoDt (chronoDtToCql secs millis) = some (secs, millis) ∧
    (∀ ms : Int, ms < chronoDtMinMs ∨ chronoDtMaxMs < ms → cqlToChronoDt ms = none) := by
  refine ⟨?_, ?_⟩
  · unfold cqlToChronoDt chronoDtToCql
    have e1 : (secs * 1000 + millis) / 1000 = secs := by omega
    have e2 : (secs * 1000 + millis) % 1000 = millis := by omega
    simp only [e1, e2]
    simp [h0, h1]
  · intro ms h
    unfold cqlToChronoDt
    have : ¬ (chronoDtMinMs ≤ ms ∧ ms ≤ chronoDtMaxMs) := by omega
    simp [this]

open ScyllaVerif.ExternalConv in
/-- `BigDecimal`'s `i64` exponent is accepted exactly when it fits the protocol's `i32` scale. -/
theorem bigdecimal_scale (s : Int) : (bigDecimalScale s).isSome ↔ (-(2 ^ 31) ≤ s ∧ s < 2 ^ 31) := by
  unfold bigDecimalScale
  split <;> simp_all

open ScyllaVerif.ExternalConv in
/-- The external carriers' OWN decoders (`deserialize/value.rs:606-756`) invert the encoders on the external
type's whole range: `chrono::NaiveDate` (every date of chrono's range becomes a `u32` day count and is decoded
back), `chrono::DateTime<Utc>`, `time::Date`, `time::OffsetDateTime`, and the two time-of-day types (whose
decoders apply the column's range check first). -/
theorem external_decode_roundtrip :
    (∀ d : Int, chronoDateMinDays ≤ d → d ≤ chronoDateMaxDays →
      0 ≤ chronoDateToCql d ∧ chronoDateToCql d < 2 ^ 32 ∧ deChronoDate (chronoDateToCql d) = some d) ∧
    (∀ secs millis : Int, 0 ≤ millis → millis < 1000 → chronoDtMinMs ≤ secs * 1000 + millis →
      secs * 1000 + millis ≤ chronoDtMaxMs → deChronoDt (chronoDtToCql secs millis) = some (secs, millis)) ∧
    (∀ jd : Int, timeDateMinJd ≤ jd → jd ≤ timeDateMaxJd → deTimeDate (timeDateToCql jd) = some jd) ∧
    (∀ secs nanos : Int, (timeDateMinJd - unixEpochJulianDay) * 86400 ≤ secs →
      secs < (timeDateMaxJd - unixEpochJulianDay + 1) * 86400 → 0 ≤ nanos → nanos < 1000000000 →
      deTimeOdt (timeOdtToCql secs nanos) = some (secs, nanos / 1000000 * 1000000)) ∧
    (∀ h m s n : Int, 0 ≤ h → h < 24 → 0 ≤ m → m < 60 → 0 ≤ s → s < 60 → 0 ≤ n → n < 1000000000 →
      deTimeTime (timeTimeToCql h m s n) = some (h, m, s, n)) ∧
    (∀ secs frac : Int, 0 ≤ secs → secs < 86400 → 0 ≤ frac → frac < 1000000000 →
      deChronoTime (secs * 1000000000 + frac) = some (secs, frac)) := by
  refine ⟨?_, ?_, ?_, ?_, ?_, ?_⟩
  · intro d h0 h1
    unfold chronoDateToCql deChronoDate chronoDateMinDays chronoDateMaxDays at *
    refine ⟨by omega, by omega, ?_⟩
    have : (2 : Int) ^ 31 + d - 2 ^ 31 = d := by omega
    simp only [this]
    simp [h0, h1]
  · intro secs millis m0 m1 h0 h1
    exact (chrono_dt_roundtrip secs millis m0 m1 h0 h1).1
  · intro jd h0 h1
    exact (time_date_roundtrip jd h0 h1).2.2
  · intro secs nanos h0 h1 n0 n1
    exact time_odt_roundtrip secs nanos h0 h1 n0 n1
  · intro h m s n h0 h1 m0 m1 s0 s1 n0 n1
    unfold deTimeTime
    have := time_time_in_day h m s n h0 h1 m0 m1 s0 s1 n0 n1
    simp only [this.1, this.2, and_self, if_true]
    exact time_time_roundtrip h m s n h0 h1 m0 m1 s0 s1 n0 n1
  · intro secs frac s0 s1 f0 f1
    unfold deChronoTime
    have hr : 0 ≤ secs * 1000000000 + frac ∧ secs * 1000000000 + frac ≤ 86399999999999 := by omega
    simp only [hr.1, hr.2, and_self, if_true]
    exact (chrono_time_roundtrip secs frac s0 s1 f0 f1).2.1

open ScyllaVerif.ExternalConv in
/-- **Leap seconds are not injective.**  chrono represents a leap second as a nanosecond fraction ≥ 10⁹ in the
60th second of a minute; `TryFrom<NaiveTime> for CqlTime` adds it up, so (unless it is the last second of the
day, which is `ValueOverflow`) the value written is the ordinary time one second later, and reads back as that. -/
theorem chrono_leap_second (secs frac : Int) (s0 : 0 ≤ secs) (s1 : secs < 86399) (f0 : 1000000000 ≤ frac)
    (f1 : frac < 2000000000) :
    chronoTimeToCql secs frac = some ((secs + 1) * 1000000000 + (frac - 1000000000)) ∧
    deChronoTime ((secs + 1) * 1000000000 + (frac - 1000000000)) = some (secs + 1, frac - 1000000000) := by
  refine ⟨?_, ?_⟩
  · unfold chronoTimeToCql
    have h : secs * 1000000000 + frac ≤ 86399999999999 := by omega
    have e : secs * 1000000000 + frac = (secs + 1) * 1000000000 + (frac - 1000000000) := by omega
    rw [e] at h ⊢
    rw [if_pos h]
  · exact external_decode_roundtrip.2.2.2.2.2 (secs + 1) (frac - 1000000000) (by omega) (by omega) (by omega) (by omega)

example : ExternalConv.chronoTimeToCql 59 1500000000 = some 60500000000 ∧
    ExternalConv.deChronoDate 0 = none ∧ ExternalConv.deChronoDate (2 ^ 31) = some 0 ∧
    ExternalConv.deChronoDt 8210266876800000 = none := by decide

example : ExternalConv.timeTimeToCql 23 59 59 999999999 = 86399999999999 ∧
    ExternalConv.timeDateToCql 2440588 = 2 ^ 31 ∧ ExternalConv.timeOdtToCql (-1) 999000000 = -1 := by decide

/-! ### size overflow (error branch) -/

/-- A value whose content exceeds `i32::MAX` bytes is rejected with `SizeOverflow` by `set_value`,
whether or not the size is written … -/
theorem size_overflow_set_value (ws : Bool) (body buf : Bytes) (h : body.length > i32Max) :
    setValue ws body buf = .error .sizeOverflow := by
  simp [setValue, h]

/-- … and by the builder's `finish` when it back-patches; content of at most `i32::MAX` bytes is accepted. -/
theorem size_overflow_finish (buf body : Bytes) :
    builderFinish true buf.length (builderNew true buf ++ body) =
      (if body.length > i32Max then .error .sizeOverflow else .ok (buf ++ be32 body.length ++ body)) := by
  rw [CodecEnc.builder_frame]
  simp only [frame, if_true]
  split <;> simp [CodecEnc.app, List.append_assoc]

/-- Blob / text / varint cells: `SizeOverflow` exactly above `i32::MAX` content bytes. -/
theorem size_overflow_blob (b buf : Bytes) :
    encImpl (.native .blob) (.blob b) true buf =
      (if b.length > i32Max then .error .sizeOverflow else .ok (buf ++ be32 b.length ++ b)) := by
  rw [encImpl]
  simp [viewOf, encScalarImpl, setValue]

/-- A collection of more than `i32::MAX` elements is rejected with `TooManyElements` before anything is
written — lists, sets and maps, whatever the element type, writer mode and buffer. -/
theorem too_many_elements (elt kt vt : CqlTy) (vs : List CqlVal) (kvs : List (CqlVal × CqlVal)) (ws : Bool)
    (buf : Bytes) :
    (vs.length > i32Max → encImpl (.list elt) (.list vs) ws buf = .error .tooManyElements ∧
      encImpl (.set elt) (.set vs) ws buf = .error .tooManyElements) ∧
    (kvs.length > i32Max → encImpl (.map kt vt) (.map kvs) ws buf = .error .tooManyElements) := by
  refine ⟨fun h => ⟨?_, ?_⟩, fun h => ?_⟩ <;> (rw [encImpl]; simp [viewOf, h])

example : encImpl (.list (.native .int)) (.list [.unset, .unset]) true [] =
    .ok [0, 0, 0, 0xc, 0, 0, 0, 2, 0xff, 0xff, 0xff, 0xfe, 0xff, 0xff, 0xff, 0xfe] := by rfl

example : setValue true [1, 2, 3] [9] = .ok [9, 0, 0, 0, 3, 1, 2, 3] := by rfl

/-! ### the three shapes on which the current tree does NOT round-trip (known findings)

Full statement of the property (false of the current code, kept here on purpose):

  theorem roundtrip_full (u) (t v cell) :
      "v has the shape of t (short tuples / UDTs allowed, nulls in fields, any element)" →
      encImpl t v true [] = .ok cell → decBytes u t cell = .ok (pad t v)
  theorem carrier_factor_full : every typed carrier value x, embedded as v, satisfies
      serCarrier c t x true [] = (encSpec t v true)      -- including `Vec<Option<T>>` bound to a vector
  (`carrier_factor` holds for it — the typed impl IS the dynamic one — but `encSpec` is undefined there: C01-F2)

The proved statements are `roundtrip_partial` / `roundtrip_cell_partial` above, on the domain `wfVal` ("a CQL
value of the type under the constructor the type dictates"), which leaves out these three defect shapes, values
that are not values of the type (section "what `wfVal` excludes" at the end), cross-constructor bindings and
degenerate non-CQL types.  The defect witnesses, replayed on the real code by
`corpus/C01/known_findings.case`: -/

def allUtf8 : Bytes → Bool := fun _ => true

set_option maxRecDepth 100000

/-- **C01-F1.** `CqlValue::Tuple(vec![])` bound to `tuple<int,int>` is written as the zero-length cell
`00 00 00 00`, which decodes to `Empty`, not to the padded `Tuple([None, None])`; the serializer succeeds on
something the protocol has no encoding for (`specCell = none`: NON-conformance). -/
theorem roundtrip_counterexample :
    encImpl (.tuple [.native .int, .native .int]) (.tuple []) true [] = .ok [0, 0, 0, 0] ∧
    decBytes allUtf8 (.tuple [.native .int, .native .int]) [0, 0, 0, 0] = .ok .empty ∧
    pad (.tuple [.native .int, .native .int]) (.tuple []) = .tuple [.null, .null] ∧
    CqlSpec.specCell (.tuple [.native .int, .native .int]) (.tuple []) = none := by
  refine ⟨by rfl, by rfl, by rfl, by rfl⟩

/-- **C01-F2.** `vec![None, Some(5)] : Vec<Option<i32>>` bound to `vector<int,2>`: the null is written as the
raw bytes `ff ff ff ff` (`set_null` ignores `write_size`); the protocol has no encoding for it
(`encSpec` = `bareNullInVector`), and the bytes read back as `[-1, 5]`. -/
theorem carrier_counterexample :
    encImpl (.vector (.native .int) 2) (.vector [.null, .int 5]) true [] =
      .ok [0, 0, 0, 8, 0xff, 0xff, 0xff, 0xff, 0, 0, 0, 5] ∧
    encSpec (.vector (.native .int) 2) (.vector [.null, .int 5]) true = .error .bareNullInVector ∧
    decBytes allUtf8 (.vector (.native .int) 2) [0, 0, 0, 8, 0xff, 0xff, 0xff, 0xff, 0, 0, 0, 5] =
      .ok (.vector [.int 0xffffffff, .int 5]) ∧
    CqlSpec.specCell (.vector (.native .int) 2) (.vector [.null, .int 5]) = none := by
  refine ⟨by rfl, by rfl, by rfl, by rfl⟩

/-- **C01-F8, repaired** (/repo 808d80c): `CqlValue::Vector([Text("a"), Text("")])` bound to `vector<text,2>`
(`01 61 00`) now reads back; kept as a regression example (it used to fail with `ExpectedNonNull`). -/
example :
    encImpl (.vector (.native .text) 2) (.vector [.text [0x61], .text []]) true [] = .ok [0, 0, 0, 3, 1, 0x61, 0] ∧
    decBytes allUtf8 (.vector (.native .text) 2) [0, 0, 0, 3, 1, 0x61, 0] = .ok (.vector [.text [0x61], .text []]) ∧
    wfVal allUtf8 (.vector (.native .text) 2) (.vector [.text [0x61], .text []]) = true := by
  refine ⟨by rfl, by rfl, by rfl⟩

/-- **C01-F9.** `CqlValue::Vector([Empty, Int(5)])` bound to `vector<int,2>` is accepted and the `Empty` element
is written as nothing: a 4-byte `vector<int,2>` that does not decode. -/
theorem vector_empty_element_counterexample :
    encImpl (.vector (.native .int) 2) (.vector [.empty, .int 5]) true [] = .ok [0, 0, 0, 4, 0, 0, 0, 5] ∧
    decBytes allUtf8 (.vector (.native .int) 2) [0, 0, 0, 4, 0, 0, 0, 5] = .error .expectedNonNull ∧
    CqlSpec.specCell (.vector (.native .int) 2) (.vector [.empty, .int 5]) = none := by
  refine ⟨by rfl, by rfl, ?_⟩
  simp [CqlSpec.specCell, CqlSpec.cellOk, CqlSpec.isNullish, CqlSpec.valOk, CqlSpec.elemsOf, CqlSpec.fixedWidth,
    CqlSpec.canBeEmpty, CqlSpec.nativeOk, CqlSpec.specNative, CqlSpec.layoutBody]

/-! ### what `wfVal` excludes besides the known findings — each stated exactly

`wfVal u t v` = "`v` is a CQL value of type `t`, under the constructor `t` dictates".  Outside it, and *not*
defects (these are not values of the type): a `time` outside one day, a zero-byte varint, non-ASCII text
bound to `ascii`, a null collection element for the dynamic type; plus the cross-constructor bindings the
serializer accepts (`Set`/`Vector` for a list column, `Ascii` for a text column, …), which have the same
bytes as the dictated constructor and therefore decode to it. -/

/-- `CqlTime` is an unchecked `i64`: a value outside `0..=86399999999999` is written, and rejected when read. -/
theorem time_out_of_range_example :
    wfVal allUtf8 (.native .time) (.time 86400000000000) = false ∧
    encImpl (.native .time) (.time 86400000000000) true [] = .ok [0, 0, 0, 8, 0, 0, 0x4e, 0x94, 0x91, 0x4f, 0, 0] ∧
    decBytes allUtf8 (.native .time) [0, 0, 0, 8, 0, 0, 0x4e, 0x94, 0x91, 0x4f, 0, 0] = .error .valueOverflow := by
  refine ⟨by rfl, by rfl, by rfl⟩

/-- A `CqlVarint` of zero bytes is not a varint (§6.19: at least one byte): its cell is the *empty* value. -/
theorem empty_varint_example :
    wfVal allUtf8 (.native .varint) (.varint []) = false ∧
    encImpl (.native .varint) (.varint []) true [] = .ok [0, 0, 0, 0] ∧
    decBytes allUtf8 (.native .varint) [0, 0, 0, 0] = .ok .empty := by
  refine ⟨by rfl, by rfl, by rfl⟩

/-- A null list element (`Vec<Option<T>>`) has a well-defined encoding but is not a `CqlValue`: the dynamic
decoder answers `ExpectedNonNull` (typed `Vec<Option<T>>` reads it back — harness oracle). -/
theorem null_list_element_example :
    wfVal allUtf8 (.list (.native .int)) (.list [.null]) = false ∧
    encImpl (.list (.native .int)) (.list [.null]) true [] = .ok [0, 0, 0, 8, 0, 0, 0, 1, 0xff, 0xff, 0xff, 0xff] ∧
    decBytes allUtf8 (.list (.native .int)) [0, 0, 0, 8, 0, 0, 0, 1, 0xff, 0xff, 0xff, 0xff] = .error .expectedNonNull := by
  refine ⟨by rfl, by rfl, by rfl⟩

/-- ∀ version: *every* `CqlTime` outside one day is written by the serializer (no range check), and its
bytes are rejected by the deserializer with `ValueOverflow`; it is not a value of the type for the protocol. -/
theorem time_out_of_range (u : Bytes → Bool) (x : BitVec 64) (buf : Bytes) (h : 86399999999999 < x.toNat) :
    encImpl (.native .time) (.time x) true buf = .ok (buf ++ be32 8 ++ beBytes 8 x.toNat) ∧
    decVal u (.native .time) (beBytes 8 x.toNat) = .error .valueOverflow ∧
    CqlSpec.specCell (.native .time) (.time x) = none := by
  refine ⟨?_, ?_, ?_⟩
  · rw [encImpl]
    simp [viewOf, encScalarImpl, setValue, Vint.beBytes_length, i32Max]
  · rw [decVal]
    have hn : ¬ (x.toNat ≤ 86399999999999) := by omega
    simp [CodecDec.beBytes_ne_nil, decNative, Vint.beBytes_length, CodecDec.beNat_bv' 8 x (by decide), hn]
  · have hn : ¬ (x.toNat ≤ 86399999999999) := by omega
    simp [CqlSpec.specCell, CqlSpec.cellOk, CqlSpec.isNullish, CqlSpec.valOk, CqlSpec.nativeOk, hn]

/-- ∀ version: *every* string with a byte ≥ 128 is written to an `ascii` column (the serializer does not look)
and rejected on the way back with `ExpectedAscii`; it is not an ascii value for the protocol. -/
theorem non_ascii (u : Bytes → Bool) (s buf : Bytes) (h : s.all (fun b => b < 128) = false)
    (hl : s.length ≤ i32Max) :
    encImpl (.native .ascii) (.ascii s) true buf = .ok (buf ++ be32 s.length ++ s) ∧
    decVal u (.native .ascii) s = .error .expectedAscii ∧
    CqlSpec.specCell (.native .ascii) (.ascii s) = none := by
  refine ⟨?_, ?_, ?_⟩
  · rw [encImpl]
    have : ¬ (s.length > i32Max) := by omega
    simp [viewOf, encScalarImpl, setValue, this]
  · rw [decVal]
    simp only [CqlTy.isStringLike, Bool.not_true, Bool.and_false, Bool.false_eq_true, if_false, decNative, h,
      Bool.not_false, if_true]
  · simp [CqlSpec.specCell, CqlSpec.cellOk, CqlSpec.isNullish, CqlSpec.valOk, CqlSpec.nativeOk, h]

/-- ∀ version: a list / set cell whose *first* element is null is rejected by the dynamic decoder with
`ExpectedNonNull`, whatever the element type, count and remaining bytes. -/
theorem null_first_element (u : Bytes → Bool) (elt : CqlTy) (n : Nat) (rest : Bytes) (hn : n < i32Max) :
    decVal u (.list elt) (be32 (n + 1) ++ nullBytes ++ rest) = .error .expectedNonNull := by
  rw [decVal]
  have he : (be32 (n + 1) ++ nullBytes ++ rest).isEmpty = false := by simp [be32, Vint.beBytes]
  rw [List.append_assoc]
  simp only [List.append_assoc] at he
  simp only [he, Bool.false_and, Bool.false_eq_true, if_false, CodecDec.readCount_be32 (n + 1) _ (by omega),
    decSeq, CodecDec.readCqlBytes_null]

/-- **Cross-constructor bindings.**  The serializer looks at a value only through its *view*: `List`, `Set`
and `Vector` are the same `Vec<CqlValue>`, `Ascii` and `Text` the same `String` — at every type, writer mode
and buffer they produce the same result as the constructor the column type dictates, so they decode to the
round-trip normal form of that one ("equal up to the constructor the column type dictates"). -/
theorem cross_constructor_same_bytes (t : CqlTy) (vs : List CqlVal) (s : Bytes) (ws : Bool) (buf : Bytes) :
    encImpl t (.set vs) ws buf = encImpl t (.list vs) ws buf ∧
    encImpl t (.vector vs) ws buf = encImpl t (.list vs) ws buf ∧
    encImpl t (.ascii s) ws buf = encImpl t (.text s) ws buf := by
  refine ⟨?_, ?_, ?_⟩ <;> (rw [encImpl, encImpl]; rfl)

example :
    encImpl (.list (.native .int)) (.set [.int 1]) true [] = .ok [0, 0, 0, 0xc, 0, 0, 0, 1, 0, 0, 0, 4, 0, 0, 0, 1] ∧
    decBytes allUtf8 (.list (.native .int)) [0, 0, 0, 0xc, 0, 0, 0, 1, 0, 0, 0, 4, 0, 0, 0, 1] = .ok (.list [.int 1]) ∧
    decBytes allUtf8 (.native .text) [0, 0, 0, 1, 0x61] = .ok (.text [0x61]) ∧
    encImpl (.native .text) (.ascii [0x61]) true [] = .ok [0, 0, 0, 1, 0x61] := by
  refine ⟨by rfl, by rfl, by rfl, by rfl⟩

/-! ### "an equal value" for the varint carriers: the normalised `PartialEq` / `Hash` (`Model/C01VarintNorm.lean`)

`CqlVarint` / `CqlVarintBorrowed` (and through them `CqlDecimal`, `CqlDecimalBorrowed`, `CqlValue::Varint|Decimal`)
compare and hash the output of `as_normalized_slice` (`value.rs:439-473`).  `toInt` is the integer a byte string
stands for (two's complement, big-endian — the specification side, independent of the normalisation). -/

section VarintNorm
open ScyllaVerif.VarintNorm

/-- Normalisation never changes the integer: for every byte string. -/
theorem varint_normalize_value (d : List UInt8) : toInt (normalize d) = toInt d :=
  VarintNorm.toInt_normalize d

/-- **`==` is sound**: two `CqlVarint`s that compare equal are the same integer — for all byte strings (so 128 =
`[00, 80]` never equals -128 = `[80]`: the zero that carries the sign is kept). -/
theorem varint_eq_sound (a b : List UInt8) (h : varintEq a b = true) : toInt a = toInt b :=
  VarintNorm.varintEq_sound a b h

/-- `CqlDecimal` equality is sound: same unscaled integer and same scale. -/
theorem decimal_eq_sound (a b : List UInt8) (sa sb : Int) (h : decimalEq a sa b sb = true) :
    toInt a = toInt b ∧ sa = sb := by
  simp only [decimalEq, Bool.and_eq_true, beq_iff_eq] at h
  exact ⟨VarintNorm.varintEq_sound a b h.1, h.2⟩

/-- `==` is an equivalence and `Hash` is consistent with it (equal values feed the hasher the same bytes). -/
theorem varint_eq_equiv (a b c : List UInt8) :
    varintEq a a = true ∧ (varintEq a b = varintEq b a) ∧
    (varintEq a b = true → varintEq b c = true → varintEq a c = true) ∧
    (varintEq a b = true → hashInput a = hashInput b) := by
  refine ⟨by simp [varintEq], ?_, ?_, ?_⟩
  · simp only [varintEq]; exact Bool.beq_comm
  · simp only [varintEq, beq_iff_eq]; intro h1 h2; rw [h1, h2]
  · simp only [varintEq, beq_iff_eq, hashInput]; exact id

/-- A decoded value equals the value bound: `==` is reflexive on every byte string, normalised or not
(the decoder hands back the bytes as written: `Codec` round trip). -/
theorem varint_roundtrip_equal (d : List UInt8) : varintEq d d = true := by simp [varintEq]

/-- Zero padding of a non-negative number is invisible to `==` (the documented normalisation). -/
theorem varint_eq_zero_pad (d : List UInt8) (h : d = [] ∨ ∃ c r, d = c :: r ∧ c.toNat < 128) :
    varintEq (0 :: d) d = true := by
  rcases h with h | ⟨c, r, h, hc⟩
  · subst h; simp [varintEq, normalize, dropZeros]
  · subst h
    by_cases hc0 : c.toNat = 0
    · have h0 : (0 : UInt8).toNat = 0 := rfl
      have hl := VarintNorm.dropZeros_length_le r
      simp only [varintEq, normalize, dropZeros, h0, hc0, if_true, List.isEmpty_cons, Bool.false_eq_true, if_false,
        beq_iff_eq]
      cases hz : dropZeros r with
      | nil => rfl
      | cons b rest =>
        rw [hz] at hl
        simp only [List.length_cons] at hl ⊢
        have h1 : r.length + 1 + 1 - (rest.length + 1) > 0 := by omega
        have h2 : r.length + 1 - (rest.length + 1) > 0 := by omega
        simp only [h1, h2, if_true]
    · have h0 : (0 : UInt8).toNat = 0 := rfl
      have hn : ¬ c.toNat > 0x7f := by omega
      simp [varintEq, normalize, dropZeros, h0, hc0, hn]

/-- What the normalisation does NOT identify (the code as it is): redundant leading 0xff bytes of a negative
number.  `[ff, ff]` and `[ff]` are both -1 and are unequal `CqlVarint`s — so `==` is complete (same integer ⇒
equal) only on byte strings without such padding; the harness oracle checks that half on every `vnorm` case. -/
theorem varint_eq_ff_padding_counterexample :
    toInt [0xff, 0xff] = toInt [0xff] ∧ varintEq [0xff, 0xff] [0xff] = false := by decide

/-- **`HashSet<CqlVarint>` loses no integer**: whatever the elements (padded, aliased, repeated), every element
bound is represented in the collected set by an element that is the same integer. -/
theorem varint_set_no_integer_lost (xs : List (List UInt8)) (x : List UInt8) (hx : x ∈ xs) :
    ∃ y ∈ collectSet xs, toInt y = toInt x := by
  obtain ⟨y, hy, he⟩ := VarintNorm.foldl_insertSet_cover xs [] x hx
  exact ⟨y, hy, by rw [← VarintNorm.toInt_normalize y, he, VarintNorm.toInt_normalize]⟩

/-- **decode(encode v) == v for a hash set / map keyed by varints**: elements that are pairwise different
integers (e.g. 128 and -128, 255 and -1, 40000 and -25536) all survive `collect()`, in order. -/
theorem varint_set_distinct_kept (xs : List (List UInt8)) (h : xs.Pairwise (fun a b => toInt a ≠ toInt b)) :
    collectSet xs = xs := by
  have := VarintNorm.foldl_insertSet_distinct xs [] (by
    simp only [List.nil_append]
    refine h.imp ?_
    intro a b hab
    cases he : varintEq a b with
    | false => rfl
    | true => exact absurd (VarintNorm.varintEq_sound a b he) hab)
  simpa [ScyllaVerif.VarintNorm.collectSet] using this

theorem varint_map_distinct_kept {α : Type} (kvs : List (List UInt8 × α))
    (h : kvs.Pairwise (fun a b => toInt a.1 ≠ toInt b.1)) : collectMap kvs = kvs := by
  have := VarintNorm.foldl_insertMap_distinct kvs [] (by
    simp only [List.nil_append]
    refine h.imp ?_
    intro a b hab
    cases he : varintEq a.1 b.1 with
    | false => rfl
    | true => exact absurd (VarintNorm.varintEq_sound a.1 b.1 he) hab)
  simpa [ScyllaVerif.VarintNorm.collectMap] using this

/-- Non-vacuity: the sign-alias pair 128 = `[00, 80]` / -128 = `[80]`, a padded 128, and the collections. -/
example :
    toInt [0x00, 0x80] = 128 ∧ toInt [0x80] = -128 ∧ varintEq [0x00, 0x80] [0x80] = false ∧
    varintEq [0x00, 0x00, 0x80] [0x00, 0x80] = true ∧ normalize [0x00, 0x00, 0x80] = [0x00, 0x80] ∧
    collectSet [[0x00, 0x80], [0x80], [0x00, 0x00, 0x80]] = [[0x00, 0x80], [0x80]] ∧
    collectMap [([0x00, 0x80], 1), ([0x80], 2), ([0x00, 0x00, 0x80], 3)] = [([0x00, 0x80], 3), ([0x80], 2)] ∧
    decimalEq [0x00, 0x80] 1 [0x80] 1 = false := by decide

/-- **`==` is complete on minimal encodings** (`minimalVarint`: at least one byte, no redundant leading 00 / ff —
what `BigInt::to_signed_bytes_be` writes; the empty string, which the code reads as 0, is not minimal): two minimal
encodings of the same integer are the same bytes, hence `==`. -/
theorem varint_eq_complete_on_minimal (a b : List UInt8)
    (ha : VarintNorm.minimalVarint a = true) (hb : VarintNorm.minimalVarint b = true)
    (h : toInt a = toInt b) : varintEq a b = true := by
  rw [VarintNorm.toInt_inj_minimal a b ha hb h]; simp [varintEq]

/-- On everything written in minimal form, `==` of `CqlVarint` IS integer equality. -/
theorem varint_eq_iff_on_minimal (a b : List UInt8)
    (ha : VarintNorm.minimalVarint a = true) (hb : VarintNorm.minimalVarint b = true) :
    varintEq a b = true ↔ toInt a = toInt b :=
  ⟨VarintNorm.varintEq_sound a b, varint_eq_complete_on_minimal a b ha hb⟩

/-- The integer determines the minimal encoding (so a minimal encoding is a canonical form). -/
theorem varint_minimal_unique (a b : List UInt8)
    (ha : VarintNorm.minimalVarint a = true) (hb : VarintNorm.minimalVarint b = true)
    (h : toInt a = toInt b) : a = b := VarintNorm.toInt_inj_minimal a b ha hb h

/-- **Hash / Eq contract** (needed by `HashSet<CqlVarint>` / `HashMap<CqlVarint, _>`): values that compare equal
feed the hasher the same slice — for all byte strings. -/
theorem varint_hash_respects_eq (a b : List UInt8) (h : varintEq a b = true) : hashInput a = hashInput b := by
  simpa [varintEq, hashInput] using h

/-- Non-vacuity: minimal encodings of 128, -128, 0, -1, 255; non-minimal ones; the iff on a sign-alias pair and the
hash slices of a padded pair. -/
example :
    VarintNorm.minimalVarint [0x00, 0x80] = true ∧ VarintNorm.minimalVarint [0x80] = true ∧
    VarintNorm.minimalVarint [0x00] = true ∧ VarintNorm.minimalVarint [0xff] = true ∧
    VarintNorm.minimalVarint [0x00, 0xff] = true ∧
    VarintNorm.minimalVarint [0x00, 0x7f] = false ∧ VarintNorm.minimalVarint [0xff, 0x80] = false ∧
    VarintNorm.minimalVarint [] = false ∧
    varintEq [0x00, 0x80] [0x80] = false ∧ toInt [0x00, 0x80] ≠ toInt [0x80] ∧
    varintEq [0x00, 0x00, 0x80] [0x00, 0x80] = true ∧ hashInput [0x00, 0x00, 0x80] = hashInput [0x00, 0x80] := by decide

end VarintNorm

end ScyllaVerif.Props.C01

import ScyllaVerif.Generated.Tables
import ScyllaVerif.Model.Murmur3
/-!
# Translator tie for the partitioner (C03)

`Generated/Tables.lean` is re-extracted from `scylla/src/routing/partitioner.rs` on every run.  The theorems
below state that the extracted constants are those of the reference MurmurHash3_x64_128 (Cassandra's
`MurmurHash.hash3_x64_128`), and that the implementation model (`Model/Murmur3.lean`) computes with exactly the
extracted values: the block mix `hash16`, the key mixes and `fmix` are re-stated with every constant taken from the
generated file.  A changed constant, rotation or shift in the Rust source breaks a proof obligation here.
-/
namespace ScyllaVerif.Props.TablesRouting
open ScyllaVerif.Generated ScyllaVerif.Murmur3

/-! ### the extracted constants are the reference algorithm's -/

theorem murmur_constants_are_spec :
    murmur_C1 = 0x87c37b91114253d5 ∧ murmur_C2 = 0x4cf5ad432745937f ∧
    murmur_h1_addend = 0x52dce729 ∧ murmur_h2_addend = 0x38495ab5 ∧
    murmur_block_rotations = [31, 27, 33, 31] ∧
    murmur_fmix_multipliers = [0xff51afd7ed558ccd, 0xc4ceb9fe1a85ec53] ∧
    murmur_fmix_shifts = [33, 33, 33] ∧ murmur_BUF_CAPACITY = 16 := ⟨rfl, rfl, rfl, rfl, rfl, rfl, rfl, rfl⟩

/-! ### the model computes with the extracted constants -/

private def K (n : Nat) : UInt64 := UInt64.ofNat n
private def rot (i : Nat) : UInt64 := UInt64.ofNat (murmur_block_rotations.getD i 0)

theorem model_c1_c2_are_source : c1 = K murmur_C1 ∧ c2 = K murmur_C2 ∧ Java.c1 = K murmur_C1 ∧ Java.c2 = K murmur_C2 :=
  ⟨by decide, by decide, by decide, by decide⟩

/-- `k1 *= C1; k1 = rotl64(k1, r0); k1 *= C2` with the source's constants. -/
theorem mixK1_uses_source (k1 : UInt64) : mixK1 k1 = rotl64 (k1 * K murmur_C1) (rot 0) * K murmur_C2 := by
  unfold mixK1; rfl

/-- `k2 *= C2; k2 = rotl64(k2, r2); k2 *= C1` with the source's constants. -/
theorem mixK2_uses_source (k2 : UInt64) : mixK2 k2 = rotl64 (k2 * K murmur_C2) (rot 2) * K murmur_C1 := by
  unfold mixK2; rfl

/-- One 16-byte block (`hash_16_bytes`) with every constant taken from the source. -/
theorem hash16_uses_source (h : St) (k : UInt64 × UInt64) :
    hash16 h k =
      (let h1 := h.1 ^^^ mixK1 k.1
       let h1 := rotl64 h1 (rot 1)
       let h1 := h1 + h.2
       let h1 := h1 * 5 + K murmur_h1_addend
       let h2 := h.2 ^^^ mixK2 k.2
       let h2 := rotl64 h2 (rot 3)
       let h2 := h2 + h1
       let h2 := h2 * 5 + K murmur_h2_addend
       (h1, h2)) := by
  unfold hash16; rfl

/-- `fmix` with the source's multipliers and shifts. -/
theorem fmix_uses_source (k : UInt64) :
    fmix k =
      (let k := k ^^^ (k >>> UInt64.ofNat (murmur_fmix_shifts.getD 0 0))
       let k := k * K (murmur_fmix_multipliers.getD 0 0)
       let k := k ^^^ (k >>> UInt64.ofNat (murmur_fmix_shifts.getD 1 0))
       let k := k * K (murmur_fmix_multipliers.getD 1 0)
       k ^^^ (k >>> UInt64.ofNat (murmur_fmix_shifts.getD 2 0))) := by
  unfold fmix; rfl

/-- The hasher's buffer is one 16-byte block. -/
theorem buffer_is_one_block : (Murmur3.init).buf.length = murmur_BUF_CAPACITY := by decide

end ScyllaVerif.Props.TablesRouting

/-
C06: which execution parameters a request - and every PAGE request of the transparent pager - is executed with.
Model: `Model/RetryPager.lean` (on top of `Model/RetryFrames.lean`, `Model/Exec.lean`).
-/
import ScyllaVerif.Model.RetryPager
import ScyllaVerif.Props.C06Ext

namespace ScyllaVerif.Props.C06Pager
open ScyllaVerif.Retry ScyllaVerif.Exec ScyllaVerif.RetryFrames ScyllaVerif.RetryPager ScyllaVerif.Props.C06
  ScyllaVerif.Props.C06Ext

/-! ### parameter selection (`new_for_session_apis`, `PagingExecutor::new`) -/

/-- The idempotence flag the execution core sees is the statement's - no profile, no policy can change it. -/
theorem session_params_idempotence (stmt : StmtCfg) (d : Profile) : (sessionParams stmt d).idem = stmt.idem := rfl

/-- A value set on the statement wins; otherwise the CHOSEN profile's applies (the statement's profile handle if it
has one, else the session's default) - for the retry policy, the consistency and the request timeout alike. -/
theorem session_params_selection (stmt : StmtCfg) (d : Profile) :
    (sessionParams stmt d).policy = (match stmt.policy with | some p => p | none => (chosenProfile stmt d).policy) ∧
    (sessionParams stmt d).cl = (match stmt.cl with | some c => c | none => (chosenProfile stmt d).cl) ∧
    (sessionParams stmt d).timeout = (match stmt.timeout with | some t => some t | none => (chosenProfile stmt d).timeout) ∧
    chosenProfile stmt d = (match stmt.profile with | some p => p | none => d) := by
  refine ⟨?_, ?_, rfl, ?_⟩
  · cases h : stmt.policy <;> simp [sessionParams, newForSessionApis, h]
  · cases h : stmt.cl <;> simp [sessionParams, newForSessionApis, h]
  · cases h : stmt.profile <;> simp [chosenProfile, h]

/-- The pager's own copy of the selection (`PagingExecutor::new`) selects exactly what the unpaged APIs select. -/
theorem pager_params_eq_session_params (stmt : StmtCfg) (d : Profile) :
    pagingExecutorNew stmt d = sessionParams stmt d := by
  simp [pagingExecutorNew, sessionParams, newForSessionApis, chosenProfile]

/-- **Every page request carries the statement's own idempotence flag** (and the same policy, consistency and
timeout as the first page) - whatever the page number, whoever served the previous page. -/
theorem every_page_carries_statement_params (stmt : StmtCfg) (d : Profile) (page : Nat) (coord : Option Nat) :
    (pageParams (pagingExecutorNew stmt d) page coord).idem = stmt.idem ∧
    pageParams (pagingExecutorNew stmt d) page coord = sessionParams stmt d := by
  refine ⟨rfl, ?_⟩
  rw [← pager_params_eq_session_params]; rfl

-- the statement's value wins over both profiles; the statement's handle wins over the session default
example :
    let d : Profile := ⟨.three, .fallthrough, some 5⟩
    let h : Profile := ⟨.two, .downgrading, none⟩
    sessionParams ⟨false, some .all, some .default, none, some h⟩ d = ⟨false, .all, .default, none⟩ ∧
    sessionParams ⟨true, none, none, none, some h⟩ d = ⟨true, .two, .downgrading, none⟩ ∧
    sessionParams ⟨false, none, none, some 9, none⟩ d = ⟨false, .three, .fallthrough, some 9⟩ := by decide

/-! ### the paged iteration -/

private theorem pagedRun_mem (ex : ExecParams) (plans : Nat → List Target) (kind : StmtKind)
    (answers : Nat → Nat → Answers) (rounds pages j : Nat) (coord : Option Nat) (w : WireTrace)
    (hw : w ∈ pagedRun ex plans kind answers rounds pages j coord) :
    ∃ i, w = runWire ex.policy ex.idem ex.cl (plans i) kind (answers i) rounds := by
  induction pages generalizing j coord with
  | zero => simp [pagedRun] at hw
  | succ p ih =>
    simp only [pagedRun, List.mem_cons] at hw
    rcases hw with h | h
    · exact ⟨j, by rw [h]; rfl⟩
    · split at h
      · exact ih _ _ h
      · simp at h

/-- **C06 for the transparent pagers, at frame level.**  For a statement that is not marked idempotent, run through
`query_iter` / `execute_iter` with ANY configuration (statement values, profile handle, session default), any number
of pages, any plans and any answers: in every page fetch a statement frame is put on the wire again only after an
answer proving that the previous one was not applied (the four errors or UNPREPARED) - on the first page and on
every later one alike. -/
theorem paged_nonidempotent_frames_resent_only_after_proof (stmt : StmtCfg) (d : Profile) (hs : stmt.idem = false)
    (plans : Nat → List Target) (kind : StmtKind) (answers : Nat → Nat → Answers) (rounds pages : Nat)
    (w : WireTrace) (hw : w ∈ pagedRun (pagingExecutorNew stmt d) plans kind answers rounds pages 0 none) :
    allButLastProof w.stmtAnswers := by
  obtain ⟨i, rfl⟩ := pagedRun_mem _ plans kind answers rounds pages 0 none w hw
  have : (pagingExecutorNew stmt d).idem = false := hs
  rw [this]
  exact nonidempotent_frames_resent_only_after_proof _ _ _ kind (answers i) rounds

/-- … and every page fetch obeys the attempt bound of its policy (a fresh retry session per page). -/
theorem paged_attempts_bounded (stmt : StmtCfg) (d : Profile)
    (plans : Nat → List Target) (kind : StmtKind) (answers : Nat → Nat → Answers) (rounds pages : Nat)
    (w : WireTrace) (hw : w ∈ pagedRun (pagingExecutorNew stmt d) plans kind answers rounds pages 0 none) :
    ∃ i, w.trace.attempts.length ≤ (plans i).length + sameTargetBound (sessionParams stmt d).policy := by
  obtain ⟨i, rfl⟩ := pagedRun_mem _ plans kind answers rounds pages 0 none w hw
  refine ⟨i, ?_⟩
  rw [← pager_params_eq_session_params]
  exact attempts_bounded _ _ _ _ _

/-- The iteration asks for the next page only after the fetch of the previous one completed. -/
theorem paged_stops_at_first_failure (ex : ExecParams) (plans : Nat → List Target) (kind : StmtKind)
    (answers : Nat → Nat → Answers) (rounds pages j : Nat) (coord : Option Nat) :
    (pagedRun ex plans kind answers rounds pages j coord).length ≤ pages ∧
    ∀ i, i + 1 < (pagedRun ex plans kind answers rounds pages j coord).length →
      ∃ w t, (pagedRun ex plans kind answers rounds pages j coord)[i]? = some w ∧ w.trace.final = .completed t := by
  induction pages generalizing j coord with
  | zero => simp [pagedRun]
  | succ p ih =>
    simp only [pagedRun]
    split
    · rename_i t hfin
      obtain ⟨h1, h2⟩ := ih (j + 1) (some t)
      refine ⟨by simp only [List.length_cons]; omega, ?_⟩
      intro i hi
      cases i with
      | zero => exact ⟨_, t, by simp, hfin⟩
      | succ k =>
        obtain ⟨w, t', q1, q2⟩ := h2 k (by simpa using hi)
        exact ⟨w, t', by simpa using q1, q2⟩
    · refine ⟨by simp, ?_⟩
      intro i hi; simp at hi

/-- **The single-connection pager never retries**: whatever the prepared statement's flag, the consistency and the
answers, every page fetch makes at most one attempt (one statement frame, or two when the first one is answered
UNPREPARED and re-prepared inside that attempt). -/
theorem single_connection_pager_one_attempt_per_page (preparedIdem : Bool) (cl : Consistency) (timeout : Option Nat)
    (plans : Nat → List Target) (kind : StmtKind) (answers : Nat → Nat → Answers) (rounds pages : Nat)
    (w : WireTrace)
    (hw : w ∈ pagedRun (singleConnectionPagerParams preparedIdem cl timeout) plans kind answers rounds pages 0 none) :
    w.trace.attempts.length ≤ 1 := by
  obtain ⟨i, rfl⟩ := pagedRun_mem _ plans kind answers rounds pages 0 none w hw
  exact fallthrough_single_attempt _ _ _ _

example :
    (pagedRun (singleConnectionPagerParams true .localQuorum none) (fun _ => [.always]) .execute
      (fun j _ => ⟨fun _ => if j = 1 then .fail (.dbError (.unavailable 1)) else .ok, fun _ => .ok, fun _ => true⟩)
      3 3 0 none).map (fun w => (w.trace.attempts.length, w.trace.final))
    = [(1, .completed 0), (1, .stopped (.dbError (.unavailable 1)))] := by decide

-- a non-idempotent SELECT over three pages, default policy: page 1 is answered Overloaded - NOT re-sent, the
-- iteration fails there (2 fetches); with IsBootstrapping instead it is re-sent on the next node and all pages come
example :
    let ex := pagingExecutorNew ⟨false, none, none, none, none⟩ ⟨.localQuorum, .default, none⟩
    let plans : Nat → List Target := fun _ => [.always, .always]
    let run := fun (e : Err) => pagedRun ex plans .execute
      (fun j k => ⟨fun _ => if j = 1 ∧ k = 0 then .fail e else .ok, fun _ => .ok, fun _ => true⟩) 3 3 0 none
    (run (.dbError .overloaded)).map (fun w => w.stmtAnswers.length) = [1, 1] ∧
    (run (.dbError .isBootstrapping)).map (fun w => w.stmtAnswers.length) = [1, 2, 1] := by decide

end ScyllaVerif.Props.C06Pager

/-
C06: which execution parameters a request - and every PAGE request of the transparent pager - is executed with.
Model: `Model/RetryPager.lean` (on top of `Model/RetryFrames.lean`, `Model/Exec.lean`).
-/
import ScyllaVerif.Model.RetryPager
import ScyllaVerif.Model.RetryProfile
import ScyllaVerif.Props.C06Ext

namespace ScyllaVerif.Props.C06Pager
open ScyllaVerif.Retry ScyllaVerif.Exec ScyllaVerif.RetryFrames ScyllaVerif.RetryPager ScyllaVerif.Props.C06
  ScyllaVerif.Props.C06Ext ScyllaVerif.RetryProfile

/-! ### parameter selection (`new_for_session_apis`, `PagingExecutor::new`) -/

/-- The idempotence flag the execution core sees is the statement's - no profile, no policy can change it. -/
theorem session_params_idempotence (stmt : StmtCfg) (d : Profile) : (sessionParams stmt d).idem = stmt.idem := rfl

/-- A value set on the statement wins; otherwise the CHOSEN profile's applies (the statement's profile handle if it
has one, else the session's default) - for the retry policy, the consistency and the request timeout alike. -/
theorem session_params_selection (stmt : StmtCfg) (d : Profile) :
    (sessionParams stmt d).policy = (match stmt.policy with | some p => p | none => (chosenProfile stmt d).policy) ∧
    (sessionParams stmt d).cl = (match stmt.cl with | some c => c | none => (chosenProfile stmt d).cl) ∧
    (sessionParams stmt d).timeout = (match stmt.timeout with | some t => some t | none => (chosenProfile stmt d).timeout) ∧
    chosenProfile stmt d = (match stmt.profile with | some p => p | none => d) := by
  refine ⟨?_, ?_, rfl, ?_⟩
  · cases h : stmt.policy <;> simp [sessionParams, newForSessionApis, h]
  · cases h : stmt.cl <;> simp [sessionParams, newForSessionApis, h]
  · cases h : stmt.profile <;> simp [chosenProfile, h]

/-- The pager's own copy of the selection (`PagingExecutor::new`) selects exactly what the unpaged APIs select. -/
theorem pager_params_eq_session_params (stmt : StmtCfg) (d : Profile) :
    pagingExecutorNew stmt d = sessionParams stmt d := by
  simp [pagingExecutorNew, sessionParams, newForSessionApis, chosenProfile]

/-- **Every page request carries the statement's own idempotence flag** (and the same policy, consistency and
timeout as the first page) - whatever the page number, whoever served the previous page. -/
theorem every_page_carries_statement_params (stmt : StmtCfg) (d : Profile) (page : Nat) (coord : Option Nat) :
    (pageParams (pagingExecutorNew stmt d) page coord).idem = stmt.idem ∧
    pageParams (pagingExecutorNew stmt d) page coord = sessionParams stmt d := by
  refine ⟨rfl, ?_⟩
  rw [← pager_params_eq_session_params]; rfl

-- the statement's value wins over both profiles; the statement's handle wins over the session default
example :
    let d : Profile := ⟨.three, .fallthrough, some 5⟩
    let h : Profile := ⟨.two, .downgrading, none⟩
    sessionParams ⟨false, some .all, some .default, none, some h⟩ d = ⟨false, .all, .default, none⟩ ∧
    sessionParams ⟨true, none, none, none, some h⟩ d = ⟨true, .two, .downgrading, none⟩ ∧
    sessionParams ⟨false, none, none, some 9, none⟩ d = ⟨false, .three, .fallthrough, some 9⟩ := by decide

/-! ### profiles: built-in defaults and derivation (`Model/RetryProfile.lean`: `builder()`, the setters, `build()`,
`to_builder()`; `StatementConfig::default()`) -/

/-- **A derived profile is the profile it was derived from**: `p.to_builder().build() = p`, for EVERY profile and
every field (request timeout, consistency, serial consistency, load-balancing policy, RETRY POLICY, speculative
execution policy). -/
theorem toBuilder_build_id (p : FullProfile) : p.toBuilder.build = p := by
  cases p; rfl

/-- … field by field on the builder: `to_builder` leaves no field to `build()`'s defaults. -/
theorem toBuilder_sets_every_field (p : FullProfile) :
    p.toBuilder.timeout = some p.timeout ∧ p.toBuilder.cl = some p.cl ∧ p.toBuilder.serial = some p.serial ∧
    p.toBuilder.lbp = some p.lbp ∧ p.toBuilder.policy = some p.policy ∧ p.toBuilder.spec = some p.spec :=
  ⟨rfl, rfl, rfl, rfl, rfl, rfl⟩

private theorem foldl_set_policy (b : Builder) (ops : List Setter) :
    (ops.foldl Builder.set b).policy = (match lastPolicy ops with | some p => some p | none => b.policy) := by
  induction ops generalizing b with
  | nil => rfl
  | cons s rest ih =>
    rw [List.foldl_cons, ih]
    cases s <;> cases h : lastPolicy rest <;> simp [lastPolicy, Builder.set, h]

private theorem foldl_set_cl (b : Builder) (ops : List Setter) :
    (ops.foldl Builder.set b).cl = (match lastCl ops with | some p => some p | none => b.cl) := by
  induction ops generalizing b with
  | nil => rfl
  | cons s rest ih =>
    rw [List.foldl_cons, ih]
    cases s <;> cases h : lastCl rest <;> simp [lastCl, Builder.set, h]

private theorem foldl_set_timeout (b : Builder) (ops : List Setter) :
    (ops.foldl Builder.set b).timeout = (match lastTimeout ops with | some p => some p | none => b.timeout) := by
  induction ops generalizing b with
  | nil => rfl
  | cons s rest ih =>
    rw [List.foldl_cons, ih]
    cases s <;> cases h : lastTimeout rest <;> simp [lastTimeout, Builder.set, h]

/-- **Every field of a derived profile the retry machinery reads is the last value a setter gave it, else the BASE
profile's** - never a built-in default: for every base profile and every chain of setter calls. -/
theorem derived_profile_fields (p : FullProfile) (ops : List Setter) :
    (derive p ops).policy = (lastPolicy ops).getD p.policy ∧
    (derive p ops).cl = (lastCl ops).getD p.cl ∧
    (derive p ops).timeout = (lastTimeout ops).getD p.timeout := by
  refine ⟨?_, ?_, ?_⟩
  · show ((ops.foldl Builder.set p.toBuilder).policy).getD _ = _
    rw [foldl_set_policy]; cases lastPolicy ops <;> rfl
  · show ((ops.foldl Builder.set p.toBuilder).cl).getD _ = _
    rw [foldl_set_cl]; cases lastCl ops <;> rfl
  · show ((ops.foldl Builder.set p.toBuilder).timeout).getD _ = _
    rw [foldl_set_timeout]; cases lastTimeout ops <;> rfl

/-- … and of a profile built from scratch: the last value set, else the documented default (`DefaultRetryPolicy`,
LOCAL_QUORUM, 30 s). -/
theorem built_profile_fields (ops : List Setter) :
    (built ops).policy = (lastPolicy ops).getD .default ∧
    (built ops).cl = (lastCl ops).getD .localQuorum ∧
    (built ops).timeout = (lastTimeout ops).getD (some 30000) := by
  refine ⟨?_, ?_, ?_⟩
  · show ((ops.foldl Builder.set blank).policy).getD _ = _
    rw [foldl_set_policy]; cases lastPolicy ops <;> rfl
  · show ((ops.foldl Builder.set blank).cl).getD _ = _
    rw [foldl_set_cl]; cases lastCl ops <;> rfl
  · show ((ops.foldl Builder.set blank).timeout).getD _ = _
    rw [foldl_set_timeout]; cases lastTimeout ops <;> rfl

private theorem lastPolicy_none (ops : List Setter) (h : ∀ s ∈ ops, ∀ q, s ≠ .policy q) : lastPolicy ops = none := by
  induction ops with
  | nil => rfl
  | cons s rest ih =>
    have hr := ih (fun t ht => h t (List.mem_cons_of_mem _ ht))
    cases s with
    | policy q => exact absurd rfl (h _ List.mem_cons_self q)
    | _ => simp [lastPolicy, hr]

/-- **A profile derived without touching the retry policy keeps the base profile's policy** (whatever else is set,
in whatever order, however often). -/
theorem derived_profile_keeps_retry_policy (p : FullProfile) (ops : List Setter)
    (h : ∀ s ∈ ops, ∀ q, s ≠ .policy q) : (derive p ops).policy = p.policy := by
  rw [(derived_profile_fields p ops).1, lastPolicy_none ops h]; rfl

/-- DEFINITIONAL (the model's transcription of `mod defaults` and of the derived `StatementConfig::default()`): an
untouched profile carries the default retry policy, LOCAL_QUORUM and a 30 s timeout; an untouched statement is NOT
idempotent and configures nothing, so on an untouched session it runs with exactly these. -/
theorem default_profile_policy :
    (built []).policy = .default ∧ untouchedStmt.idem = false ∧
    sessionParams untouchedStmt (built []).toProfile = ⟨false, .localQuorum, .default, some 30000⟩ :=
  ⟨rfl, rfl, rfl⟩

/-- **Lift to the wire.**  A statement that configures no retry policy of its own and no profile handle, on a session
whose default profile was DERIVED (any setters but `retry_policy`) from a base profile with the fall-through policy:
every request makes at most one attempt, whatever the answers. -/
theorem derived_from_fallthrough_single_attempt (p : FullProfile) (ops : List Setter)
    (hp : p.policy = .fallthrough) (h : ∀ s ∈ ops, ∀ q, s ≠ .policy q)
    (stmt : StmtCfg) (h1 : stmt.policy = none) (h2 : stmt.profile = none)
    (plan : List Target) (kind : StmtKind) (answers : Nat → Answers) (rounds : Nat) :
    let ex := sessionParams stmt (derive p ops).toProfile
    (runWire ex.policy ex.idem ex.cl plan kind answers rounds).trace.attempts.length ≤ 1 := by
  intro ex
  have : ex.policy = .fallthrough := by
    show (stmt.policy.getD (chosenProfile stmt (derive p ops).toProfile).policy) = _
    rw [h1, chosenProfile, h2]
    show (derive p ops).policy = _
    rw [derived_profile_keeps_retry_policy p ops h, hp]
  rw [this]
  exact fallthrough_single_attempt _ _ _ _

/-- … and the frame-level clause under the base's policy, whichever it is: a non-idempotent statement under a derived
profile is re-sent only after a proof answer (this holds for every built-in policy - what the derivation must not do
is change WHICH one decides: `derived_profile_keeps_retry_policy`). -/
theorem derived_profile_params (p : FullProfile) (ops : List Setter) (h : ∀ s ∈ ops, ∀ q, s ≠ .policy q)
    (stmt : StmtCfg) (h2 : stmt.profile = none) :
    (sessionParams stmt (derive p ops).toProfile).policy = stmt.policy.getD p.policy ∧
    (sessionParams stmt (derive p ops).toProfile).idem = stmt.idem ∧
    pagingExecutorNew stmt (derive p ops).toProfile = sessionParams stmt (derive p ops).toProfile := by
  refine ⟨?_, rfl, pager_params_eq_session_params _ _⟩
  show (stmt.policy.getD (chosenProfile stmt (derive p ops).toProfile).policy) = _
  rw [chosenProfile, h2]
  show stmt.policy.getD (derive p ops).policy = _
  rw [derived_profile_keeps_retry_policy p ops h]

-- non-vacuity: a fall-through base, derived with another consistency, timeout and load-balancing policy: still
-- fall-through (and the new consistency / timeout); a blank builder: the defaults; a policy set later wins
example :
    let base : FullProfile := built [.policy .fallthrough, .cl .all]
    derive base [.cl .two, .timeout (some 150), .lbp 7] = ⟨some 150, .two, some 1, 7, .fallthrough, none⟩ ∧
    (∀ s ∈ [Setter.cl .two, .timeout (some 150), .lbp 7], ∀ q, s ≠ .policy q) ∧
    built [] = defaults ∧
    (derive base [.policy .downgrading, .policy .default]).policy = .default := by
  refine ⟨by decide, ?_, by decide, by decide⟩
  intro s hs q
  simp only [List.mem_cons, List.mem_nil_iff, or_false] at hs
  rcases hs with rfl | rfl | rfl <;> simp

/-! ### configuration carried through preparation (`into_prepared_statement`, `prepare_batch`) - THEOREM-ONLY layer:
the harness prepares a bare string and configures afterwards, so this transcription is not yet driven -/

/-- **A prepared statement inherits the retry-relevant configuration of the statement it was prepared from** - the
whole `StatementConfig`, in particular the idempotence flag, the retry policy, the consistency, the serial
consistency, the request timeout and the execution-profile handle -, for every statement and every PREPARE response. -/
theorem prepared_inherits_retry_config (st : Stmt) (id : Nat) (isLwt : Bool) (tracingId : Option Nat) :
    (intoPrepared st id isLwt tracingId).config = st.config ∧
    (intoPrepared st id isLwt tracingId).config.idem = st.config.idem ∧
    (intoPrepared st id isLwt tracingId).config.policy = st.config.policy ∧
    (intoPrepared st id isLwt tracingId).config.cl = st.config.cl ∧
    (intoPrepared st id isLwt tracingId).config.serial = st.config.serial ∧
    (intoPrepared st id isLwt tracingId).config.timeout = st.config.timeout ∧
    (intoPrepared st id isLwt tracingId).config.profile = st.config.profile :=
  ⟨rfl, rfl, rfl, rfl, rfl, rfl, rfl⟩

/-- **Hence the same attempts**: on any session (default profile `d`), any plan, any outcomes, any frame-level
answers, the execution of the prepared statement makes exactly the attempts (targets, consistencies, decisions,
result) - and puts exactly the frames per attempt on the wire, for the same statement kind - that the execution of
the unprepared statement with the same configuration makes; the pager's copy included. -/
theorem prepared_attempts_eq_statement_attempts (st : Stmt) (id : Nat) (isLwt : Bool) (tracingId : Option Nat)
    (d : Profile) (plan : List Target) :
    let ps := sessionParams (intoPrepared st id isLwt tracingId).config.toStmtCfg d
    let us := sessionParams st.config.toStmtCfg d
    ps = us ∧
    (∀ outcomes, Exec.run ps.policy ps.idem ps.cl plan outcomes = Exec.run us.policy us.idem us.cl plan outcomes) ∧
    (∀ kind answers rounds, runWire ps.policy ps.idem ps.cl plan kind answers rounds
      = runWire us.policy us.idem us.cl plan kind answers rounds) ∧
    pagingExecutorNew (intoPrepared st id isLwt tracingId).config.toStmtCfg d = us :=
  ⟨rfl, fun _ => rfl, fun _ _ _ => rfl, pager_params_eq_session_params _ _⟩

private theorem prepareStmts_spec (prep : Nat → Option (Nat × Bool)) (l : List BatchStmt) (i : Nat)
    (l' : List BatchStmt) (h : prepareStmts prep i l = some l') :
    l'.map BatchStmt.config = l.map BatchStmt.config ∧ (∀ s ∈ l', s.isPrepared = true) := by
  induction l generalizing i l' with
  | nil => simp [prepareStmts] at h; subst h; simp
  | cons s rest ih =>
    cases s with
    | prepared p =>
      simp only [prepareStmts, Option.map_eq_some_iff] at h
      obtain ⟨r, hr, rfl⟩ := h
      obtain ⟨h1, h2⟩ := ih (i + 1) r hr
      refine ⟨by simp [h1], ?_⟩
      intro s hs
      rcases List.mem_cons.mp hs with rfl | hs
      · rfl
      · exact h2 s hs
    | query q =>
      simp only [prepareStmts] at h
      split at h
      · simp at h
      · rename_i idv lwt hp
        simp only [Option.map_eq_some_iff] at h
        obtain ⟨r, hr, rfl⟩ := h
        obtain ⟨h1, h2⟩ := ih (i + 1) r hr
        refine ⟨by simp [h1, BatchStmt.config, intoPrepared], ?_⟩
        intro s hs
        rcases List.mem_cons.mp hs with rfl | hs
        · rfl
        · exact h2 s hs

/-- **`prepare_batch` keeps every configuration**: the batch's own (which is what governs the retries of a BATCH
request), its type, and - position by position - the configuration of every statement; afterwards every statement
is prepared. -/
theorem prepare_batch_keeps_configs (b b' : Batch) (prep : Nat → Option (Nat × Bool))
    (h : prepareBatch b prep = some b') :
    b'.config = b.config ∧ b'.batchType = b.batchType ∧
    b'.statements.map BatchStmt.config = b.statements.map BatchStmt.config ∧
    (∀ s ∈ b'.statements, s.isPrepared = true) ∧
    (∀ d, sessionParams b'.config.toStmtCfg d = sessionParams b.config.toStmtCfg d) := by
  simp only [RetryProfile.prepareBatch, Option.map_eq_some_iff] at h
  obtain ⟨l, hl, rfl⟩ := h
  obtain ⟨h1, h2⟩ := prepareStmts_spec prep b.statements 0 l hl
  exact ⟨rfl, rfl, h1, h2, fun _ => rfl⟩

/-- the error branch: `prepare_batch` fails as soon as the PREPARE of an unprepared statement fails -/
theorem prepare_batch_fails_on_first_failed_prepare (b : Batch) (s : Stmt) (rest : List BatchStmt)
    (prep : Nat → Option (Nat × Bool)) (hb : b.statements = .query s :: rest) (hp : prep 0 = none) :
    prepareBatch b prep = none := by
  simp [RetryProfile.prepareBatch, hb, prepareStmts, hp]

-- non-vacuity: a non-idempotent statement with the fall-through policy, ALL, a timeout and a profile handle, prepared:
-- the prepared statement carries all of it and runs with (fallthrough, not idempotent, ALL, 150 ms); a batch of it
-- and an already prepared statement keeps its own (downgrading) configuration through prepare_batch
example :
    let cfg : FullStmtCfg := ⟨some .all, some (some 0), false, false, true, some 7, some 150, some 3,
      some ⟨.two, .downgrading, none⟩, some 1, some .fallthrough⟩
    let st : Stmt := ⟨"INSERT", 5000, cfg⟩
    let p := intoPrepared st 42 false (some 9)
    let d : Profile := ⟨.three, .default, some 30000⟩
    p.config = cfg ∧ p.tracingIds = [9] ∧
    sessionParams p.config.toStmtCfg d = ⟨false, .all, .fallthrough, some 150⟩ ∧
    (let bc : FullStmtCfg := { cfg with policy := some .downgrading, idem := true }
     let b : Batch := ⟨bc, [.query st, .prepared p], 0⟩
     (prepareBatch b (fun _ => some (42, false))).map (fun b' => (b'.config == bc, b'.statements.map BatchStmt.isPrepared))
       = some (true, [true, true]) ∧
     prepareBatch b (fun _ => none) = none) := by decide

/-! ### the paged iteration -/

private theorem pagedRun_mem (ex : ExecParams) (plans : Nat → List Target) (kind : StmtKind)
    (answers : Nat → Nat → Answers) (rounds pages j : Nat) (coord : Option Nat) (w : WireTrace)
    (hw : w ∈ pagedRun ex plans kind answers rounds pages j coord) :
    ∃ i, w = runWire ex.policy ex.idem ex.cl (plans i) kind (answers i) rounds := by
  induction pages generalizing j coord with
  | zero => simp [pagedRun] at hw
  | succ p ih =>
    simp only [pagedRun, List.mem_cons] at hw
    rcases hw with h | h
    · exact ⟨j, by rw [h]; rfl⟩
    · split at h
      · exact ih _ _ h
      · simp at h

/-- **C06 for the transparent pagers, at frame level.**  For a statement that is not marked idempotent, run through
`query_iter` / `execute_iter` with ANY configuration (statement values, profile handle, session default), any number
of pages, any plans and any answers: in every page fetch a statement frame is put on the wire again only after an
answer proving that the previous one was not applied (the four errors or UNPREPARED) - on the first page and on
every later one alike. -/
theorem paged_nonidempotent_frames_resent_only_after_proof (stmt : StmtCfg) (d : Profile) (hs : stmt.idem = false)
    (plans : Nat → List Target) (kind : StmtKind) (answers : Nat → Nat → Answers) (rounds pages : Nat)
    (w : WireTrace) (hw : w ∈ pagedRun (pagingExecutorNew stmt d) plans kind answers rounds pages 0 none) :
    allButLastProof w.stmtAnswers := by
  obtain ⟨i, rfl⟩ := pagedRun_mem _ plans kind answers rounds pages 0 none w hw
  have : (pagingExecutorNew stmt d).idem = false := hs
  rw [this]
  exact nonidempotent_frames_resent_only_after_proof _ _ _ kind (answers i) rounds

/-- … and every page fetch obeys the attempt bound of its policy (a fresh retry session per page). -/
theorem paged_attempts_bounded (stmt : StmtCfg) (d : Profile)
    (plans : Nat → List Target) (kind : StmtKind) (answers : Nat → Nat → Answers) (rounds pages : Nat)
    (w : WireTrace) (hw : w ∈ pagedRun (pagingExecutorNew stmt d) plans kind answers rounds pages 0 none) :
    ∃ i, w.trace.attempts.length ≤ (plans i).length + sameTargetBound (sessionParams stmt d).policy := by
  obtain ⟨i, rfl⟩ := pagedRun_mem _ plans kind answers rounds pages 0 none w hw
  refine ⟨i, ?_⟩
  rw [← pager_params_eq_session_params]
  exact attempts_bounded _ _ _ _ _

/-- The iteration asks for the next page only after the fetch of the previous one completed. -/
theorem paged_stops_at_first_failure (ex : ExecParams) (plans : Nat → List Target) (kind : StmtKind)
    (answers : Nat → Nat → Answers) (rounds pages j : Nat) (coord : Option Nat) :
    (pagedRun ex plans kind answers rounds pages j coord).length ≤ pages ∧
    ∀ i, i + 1 < (pagedRun ex plans kind answers rounds pages j coord).length →
      ∃ w t, (pagedRun ex plans kind answers rounds pages j coord)[i]? = some w ∧ w.trace.final = .completed t := by
  induction pages generalizing j coord with
  | zero => simp [pagedRun]
  | succ p ih =>
    simp only [pagedRun]
    split
    · rename_i t hfin
      obtain ⟨h1, h2⟩ := ih (j + 1) (some t)
      refine ⟨by simp only [List.length_cons]; omega, ?_⟩
      intro i hi
      cases i with
      | zero => exact ⟨_, t, by simp, hfin⟩
      | succ k =>
        obtain ⟨w, t', q1, q2⟩ := h2 k (by simpa using hi)
        exact ⟨w, t', by simpa using q1, q2⟩
    · refine ⟨by simp, ?_⟩
      intro i hi; simp at hi

/-- **The single-connection pager never retries**: whatever the prepared statement's flag, the consistency and the
answers, every page fetch makes at most one attempt (one statement frame, or two when the first one is answered
UNPREPARED and re-prepared inside that attempt). -/
theorem single_connection_pager_one_attempt_per_page (preparedIdem : Bool) (cl : Consistency) (timeout : Option Nat)
    (plans : Nat → List Target) (kind : StmtKind) (answers : Nat → Nat → Answers) (rounds pages : Nat)
    (w : WireTrace)
    (hw : w ∈ pagedRun (singleConnectionPagerParams preparedIdem cl timeout) plans kind answers rounds pages 0 none) :
    w.trace.attempts.length ≤ 1 := by
  obtain ⟨i, rfl⟩ := pagedRun_mem _ plans kind answers rounds pages 0 none w hw
  exact fallthrough_single_attempt _ _ _ _

example :
    (pagedRun (singleConnectionPagerParams true .localQuorum none) (fun _ => [.always]) .execute
      (fun j _ => ⟨fun _ => if j = 1 then .fail (.dbError (.unavailable 1)) else .ok, fun _ => .ok, fun _ => true⟩)
      3 3 0 none).map (fun w => (w.trace.attempts.length, w.trace.final))
    = [(1, .completed 0), (1, .stopped (.dbError (.unavailable 1)))] := by decide

-- a non-idempotent SELECT over three pages, default policy: page 1 is answered Overloaded - NOT re-sent, the
-- iteration fails there (2 fetches); with IsBootstrapping instead it is re-sent on the next node and all pages come
example :
    let ex := pagingExecutorNew ⟨false, none, none, none, none⟩ ⟨.localQuorum, .default, none⟩
    let plans : Nat → List Target := fun _ => [.always, .always]
    let run := fun (e : Err) => pagedRun ex plans .execute
      (fun j k => ⟨fun _ => if j = 1 ∧ k = 0 then .fail e else .ok, fun _ => .ok, fun _ => true⟩) 3 3 0 none
    (run (.dbError .overloaded)).map (fun w => w.stmtAnswers.length) = [1, 1] ∧
    (run (.dbError .isBootstrapping)).map (fun w => w.stmtAnswers.length) = [1, 2, 1] := by decide

end ScyllaVerif.Props.C06Pager

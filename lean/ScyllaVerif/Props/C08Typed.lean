/-
C08 — typed column values (collections): what the value decoders materialise is bounded by the bytes they consume.

The collection decoders of `scylla-cql-core/src/deserialize/value.rs` do NOT pre-allocate from a count read from
the network: `ListlikeIterator`, `MapIterator`, `VectorIterator` are lazy and every `Vec` / `HashMap` / `BTreeMap`
/ `CqlValue` target is built by `collect::<Result<_, _>>()`, whose size hint has lower bound 0 (the only
`with_capacity` of typed decoding is `Row`'s `Vec::with_capacity(column count)`, row.rs:209, bounded by the parsed
metadata).  So memory is proportional to the number of elements actually produced, and the theorems below — about
C01's total model `Model/Codec.lean` of these iterators (reused, not duplicated) — say that producing `n` elements
consumes at least `n` bytes (4 per list/set element, 8 per map entry, the element size per fixed-size vector
element, 1 per variable-size vector element): a cell of `len` bytes can never materialise more than `len` elements.
(Before fix 2a278cb a vector with a zero-sized element type violated exactly this: hypothesis `1 ≤ size` below.)
The model functions are total (structural recursion on the element count) and have no panic outcome: C01's model
does not represent the `unreachable!` / `expect` sites of typed decoding — listed under `partial`.
-/
import ScyllaVerif.Model.Codec
import ScyllaVerif.Proofs.C08ValueNP
import ScyllaVerif.Proofs.C08TabletNP

namespace ScyllaVerif.Props.C08Typed
open ScyllaVerif.Codec ScyllaVerif.Vint ScyllaVerif.Cql

theorem readCqlBytes_consumes (bs : Bytes) (o : Option Bytes) (rest : Bytes)
    (h : readCqlBytes bs = .ok (o, rest)) : rest.length + 4 ≤ bs.length := by
  unfold readCqlBytes at h
  split at h
  · cases h
  · simp only [] at h
    split at h
    · injection h with h; injection h with _ h2; subst h2; simp only [List.length_drop]; omega
    · split at h
      · cases h
      · injection h with h; injection h with _ h2; subst h2; simp only [List.length_drop]; omega

/-- Lists and sets: `n` elements need at least `4·n` bytes (one `[bytes]` length each). -/
theorem decSeq_bound (f : Bytes → Except DeErr CqlVal) : ∀ (n : Nat) (bs : Bytes) (vs : List CqlVal),
    decSeq f n bs = .ok vs → vs.length = n ∧ 4 * n ≤ bs.length
  | 0, _, vs, h => by simp [decSeq] at h; subst h; simp
  | n + 1, bs, vs, h => by
    unfold decSeq at h
    cases hr : readCqlBytes bs with
    | error e => rw [hr] at h; cases h
    | ok p =>
      obtain ⟨o, rest⟩ := p
      rw [hr] at h
      have hc := readCqlBytes_consumes bs o rest hr
      cases o with
      | none => cases h
      | some b =>
        simp only at h
        cases hf : f b with
        | error e => rw [hf] at h; cases h
        | ok v =>
          rw [hf] at h
          simp only at h
          cases hs : decSeq f n rest with
          | error e => rw [hs] at h; cases h
          | ok r =>
            rw [hs] at h
            injection h with h; subst h
            have ih := decSeq_bound f n rest r hs
            simp only [List.length_cons]
            omega

/-- Maps: `n` entries need at least `8·n` bytes. -/
theorem decMap_bound (fk fv : Bytes → Except DeErr CqlVal) : ∀ (n : Nat) (bs : Bytes) (r : List (CqlVal × CqlVal)),
    decMap fk fv n bs = .ok r → r.length = n ∧ 8 * n ≤ bs.length
  | 0, _, r, h => by simp [decMap] at h; subst h; simp
  | n + 1, bs, r, h => by
    unfold decMap at h
    cases h1 : readCqlBytes bs with
    | error e => rw [h1] at h; cases h
    | ok p1 =>
      obtain ⟨rk, rest1⟩ := p1
      rw [h1] at h
      simp only at h
      have c1 := readCqlBytes_consumes bs rk rest1 h1
      cases h2 : readCqlBytes rest1 with
      | error e => rw [h2] at h; cases h
      | ok p2 =>
        obtain ⟨rv, rest2⟩ := p2
        rw [h2] at h
        simp only at h
        have c2 := readCqlBytes_consumes rest1 rv rest2 h2
        cases rk with
        | none => cases h
        | some kb =>
          simp only at h
          cases hk : fk kb with
          | error e => rw [hk] at h; cases h
          | ok k =>
            rw [hk] at h; simp only at h
            cases rv with
            | none => cases h
            | some vb =>
              simp only at h
              cases hv : fv vb with
              | error e => rw [hv] at h; cases h
              | ok v =>
                rw [hv] at h; simp only at h
                cases hm : decMap fk fv n rest2 with
                | error e => rw [hm] at h; cases h
                | ok r' =>
                  rw [hm] at h
                  injection h with h; subst h
                  have ih := decMap_bound fk fv n rest2 r' hm
                  simp only [List.length_cons]
                  omega

/-- Vectors of fixed-size elements: `n` elements need `size·n` bytes — provided the element size is positive
(zero-sized element types are rejected at type-parse time since fix 2a278cb). -/
theorem decVecFixed_bound (f : Bytes → Except DeErr CqlVal) (size : Nat) (hsize : 1 ≤ size) :
    ∀ (n : Nat) (bs : Bytes) (vs : List CqlVal),
    decVecFixed f size n bs = .ok vs → vs.length = n ∧ n ≤ bs.length
  | 0, _, vs, h => by simp [decVecFixed] at h; subst h; simp
  | n + 1, bs, vs, h => by
    unfold decVecFixed at h
    cases hr : readN size bs with
    | error e => rw [hr] at h; cases h
    | ok p =>
      obtain ⟨o, rest⟩ := p
      rw [hr] at h
      cases o with
      | none => cases h
      | some b =>
        simp only at h
        have hc : rest.length + 1 ≤ bs.length := by
          unfold readN at hr
          split at hr
          · cases hr
          · split at hr
            · cases hr
            · injection hr with hr; injection hr with _ h2; subst h2; simp only [List.length_drop]; omega
        cases hf : f b with
        | error e => rw [hf] at h; cases h
        | ok v =>
          rw [hf] at h; simp only at h
          cases hs : decVecFixed f size n rest with
          | error e => rw [hs] at h; cases h
          | ok r =>
            rw [hs] at h
            injection h with h; subst h
            have ih := decVecFixed_bound f size hsize n rest r hs
            simp only [List.length_cons]
            omega

theorem uvintDec_consumes (bs : Bytes) (v : BitVec 64) (r0 : Bytes) (h : uvintDec bs = .ok (v, r0)) :
    r0.length + 1 ≤ bs.length := by
  unfold uvintDec at h
  cases bs with
  | nil => cases h
  | cons first rest =>
    simp only [] at h
    split at h
    · injection h with h; injection h with _ h2; subst h2; simp
    · split at h
      · cases h
      · injection h with h; injection h with _ h2; subst h2; simp only [List.length_drop, List.length_cons]; omega

/-- Vectors of variable-size elements: every element costs at least its one-byte length prefix. -/
theorem decVecVar_bound (f : Bytes → Except DeErr CqlVal) : ∀ (n : Nat) (bs : Bytes) (vs : List CqlVal),
    decVecVar f n bs = .ok vs → vs.length = n ∧ n ≤ bs.length
  | 0, _, vs, h => by simp [decVecVar] at h; subst h; simp
  | n + 1, bs, vs, h => by
    unfold decVecVar at h
    cases hu : uvintDec bs with
    | error e => rw [hu] at h; cases h
    | ok p0 =>
      obtain ⟨size, r0⟩ := p0
      rw [hu] at h
      simp only at h
      have c0 := uvintDec_consumes bs size r0 hu
      cases hr : readN size.toNat r0 with
      | error e => rw [hr] at h; cases h
      | ok p =>
        obtain ⟨o, rest⟩ := p
        rw [hr] at h
        cases o with
        | none => cases h
        | some b =>
          simp only at h
          have hc : rest.length ≤ r0.length := by
            unfold readN at hr
            split at hr
            · cases hr
            · split at hr
              · cases hr
              · injection hr with hr; injection hr with _ h2; subst h2; simp only [List.length_drop]; omega
          cases hf : f b with
          | error e => rw [hf] at h; cases h
          | ok v =>
            rw [hf] at h; simp only at h
            cases hs : decVecVar f n rest with
            | error e => rw [hs] at h; cases h
            | ok r =>
              rw [hs] at h
              injection h with h; subst h
              have ih := decVecVar_bound f n rest r hs
              simp only [List.length_cons]
              omega

/-- Non-vacuity: a list of two 4-byte elements decodes with the identity element decoder, from 16 bytes. -/
example : (match decSeq (fun b => .ok (.blob b)) 2 [0, 0, 0, 4, 1, 2, 3, 4, 0, 0, 0, 4, 5, 6, 7, 8] with
    | .ok vs => vs.length == 2
    | .error _ => false) = true := by
  decide +kernel

/-! ### typed values never panic

`Model/C08Value.lean` transcribes `CqlValue::deserialize`, the collection / vector / UDT iterators and
`Row::deserialize` with a `panic` outcome at every partial operation of that code (the four `unreachable!`s, `split_at`,
the shift / `read_uint` / `+=` of the vint decoder, `2 * count`, the column counter's `expect`).  `CqlValue`'s
`type_check` accepts every column type, so "all column types that pass type_check for the target" is: all column types.
The model is compared with the real `rows_iter::<Row>()` on every Rows case of the run (token `typed=`). -/

open ScyllaVerif.C08V in
/-- `CqlValue::deserialize` never panics: for EVERY column type and ALL bytes of the cell. -/
theorem no_panic_typed (u : Bytes → Bool) (t : CqlTy) (bs : Bytes) (site : String) :
    decValP u t bs ≠ .panic site :=
  decValP_np u t bs site

open ScyllaVerif.C08V in
/-- A whole result: `rows_iter::<Row>()` over any number of announced rows, any column types, any bytes, never
panics (the column list must fit in memory: at most `usize::MAX` columns). -/
theorem no_panic_typed_rows (u : Bytes → Bool) (ts : List CqlTy) (hts : ts.length ≤ USIZE_MAX) (n : Nat) (bs : Bytes)
    (site : String) : rowsP u ts n bs ≠ .panic site :=
  rowsP_np u ts hts n bs site

open ScyllaVerif.C08V in
/-- The variable-length integer decoder (vector element sizes, `duration` cells) never reaches its shift /
`read_uint` assertion / `u64` overflow. -/
theorem no_panic_vint (bs : Bytes) (site : String) : uvintDecP bs ≠ .panic site :=
  uvintDecP_np bs site

open ScyllaVerif.C08V in
/-- Termination and "value or error": the typed decoders are total functions defined by structural recursion on the
column type and on the element count, and their outcome is `ok` or `err`. -/
theorem typed_value_or_error (u : Bytes → Bool) (t : CqlTy) (bs : Bytes) :
    (∃ v, decValP u t bs = .ok v) ∨ (∃ e, decValP u t bs = .err e) := by
  have := decValP_np u t bs
  cases h : decValP u t bs with
  | ok v => exact .inl ⟨v, rfl⟩
  | err e => exact .inr ⟨e, rfl⟩
  | panic s => exact (this s h).elim

open ScyllaVerif.C08V in
/-- Non-vacuity: the panic sites are genuine — a reader handed a count beyond the slice without the guard's
protection would panic (`split_at`), and the guarded reader returns an error on the same input. -/
example : readRawP 5 [1, 2, 3] = .err .rawCqlBytesReadError := by rfl
open ScyllaVerif.C08V in
example : expectShape (α := Nat) .map (.list (.native .int)) (.ok 0) =
    .panic "unreachable!(Typecheck should have prevented this scenario!)" := by rfl

/-! ### materialisation bounds for the panic-instrumented iterators, and no zero-sized vector elements -/

open ScyllaVerif.C08V in
theorem typed_list_bound (f : Bytes → Out CqlVal) (n : Nat) (bs : Bytes) (vs : List CqlVal)
    (h : seqP f n bs = .ok vs) : vs.length = n ∧ 4 * n ≤ bs.length := seqP_bound f n bs vs h

open ScyllaVerif.C08V in
theorem typed_map_bound (fk fv : Bytes → Out CqlVal) (n : Nat) (bs : Bytes) (r : List (CqlVal × CqlVal))
    (h : mapP fk fv n bs = .ok r) : r.length = n ∧ 8 * n ≤ bs.length := mapP_bound fk fv n bs r h

open ScyllaVerif.C08V in
/-- A vector whose dimensions are all positive (guaranteed by the type parsers since fix 2a278cb) has a positive
fixed element size, hence `n` elements need at least `n` bytes: the "zero-sized element" amplification is gone. -/
theorem typed_vector_bound (f : Bytes → Out CqlVal) (elt : CqlTy) (hd : DimsPos elt) (size : Nat)
    (hs : sizeForVectorSat elt = some size) (n : Nat) (bs : Bytes) (vs : List CqlVal)
    (h : vecFixedP f size n bs = .ok vs) : vs.length = n ∧ n ≤ bs.length :=
  vecFixedP_bound f size (sizeForVectorSat_pos elt hd size hs) n bs vs h

/-! ### the overridden iterator methods

`VectorIterator` overrides `nth` (a fast path that skips `n · element_length` bytes) and every modelled iterator
overrides `size_hint`.  Before fix 73c0abc the product overflowed for huge declared element sizes. -/

open ScyllaVerif.C08V in
/-- `VectorIterator::nth(n)` never panics, for every `n`, element size, remaining count (`≤ usize::MAX`) and all
bytes: the product saturates, and `n < remaining` guards `n + 1` and both subtractions. -/
theorem no_panic_vector_nth (f : Bytes → Out CqlVal) (hf : ∀ b s, f b ≠ .panic s) (size remaining n : Nat)
    (bs : Bytes) (hr : remaining ≤ USIZE_MAX) (site : String) : vecNthFixedP f size remaining n bs ≠ .panic site :=
  vecNthFixedP_np f hf size remaining n bs hr site

open ScyllaVerif.C08V in
/-- The three overflow / underflow tests in front of `nth`'s arithmetic (`n + 1`, `remaining - (n + 1)`, `remaining -
n`) are all dead behind the single early return `n >= remaining`: nothing but that comparison is needed. -/
theorem vector_nth_guards_dead (remaining n : Nat) (hr : remaining ≤ USIZE_MAX) (hn : ¬ n ≥ remaining) :
    ¬ (n + 1 > USIZE_MAX) ∧ ¬ (remaining < n + 1) ∧ ¬ (remaining < n) :=
  vecNth_guards_dead remaining n hr hn

open ScyllaVerif.C08V in
/-- `nth` / `next` on a vector of VARIABLE-length elements (value.rs `VectorIterator`, the default `nth` = `n` times
`next` then `next`; each `next` reads an unsigned vint length then that many bytes): never a panic, every `n`. -/
theorem no_panic_vector_nth_var (f : Bytes → Out CqlVal) (hf : ∀ b s, f b ≠ .panic s) (n remaining : Nat)
    (bs : Bytes) (site : String) :
    vecNthVarP f n remaining bs ≠ .panic site ∧ vecNextVarP f remaining bs ≠ .panic site :=
  ⟨vecNthVarP_np f hf n remaining bs site, vecNextVarP_np f hf remaining bs site⟩

open ScyllaVerif.C08V in
theorem no_panic_size_hints (r : Nat) (site : String) :
    vecSizeHintP r ≠ .panic site ∧ mapSizeHintP r ≠ .panic site :=
  ⟨vecSizeHintP_np r site, mapSizeHintP_np r site⟩

open ScyllaVerif.C08V in
/-- Non-vacuity: the shape of the repaired defect — element size 8·65535³, `nth(9000)`: the product exceeds
`usize::MAX`, saturates, and the skip fails with an ordinary error. -/
example : (match vecNthFixedP (fun _ => .ok .empty) (8 * 65535 ^ 3) 65535 9000 [0] with
    | .ok (some (.error _), _, _) => true
    | _ => false) = true := by decide +kernel

/-! ### the tablets routing payload -/

open ScyllaVerif.C08T in
/-- `RawTablet::from_custom_payload` never panics, for all payload bytes: the `expect` / `unreachable!` test the
static column type, and `first_token + 1` is guarded by `last_token > first_token`. -/
theorem no_panic_tablet (bs : List UInt8) (site : String) : parsePayloadP bs ≠ .panic site :=
  parsePayloadP_np bs site

open ScyllaVerif.C08T in
/-- Apart from its (unreachable) panic sites the function IS C15's model `Tablets.parsePayload`, which C15 compares
with the real code on arbitrary payload bytes and for which `Props/C15` proves the range invariant. -/
theorem tablet_is_C15_model (bs : List UInt8) : parsePayloadP bs = lift (ScyllaVerif.Tablets.parsePayload bs) :=
  parsePayloadP_eq bs

open ScyllaVerif.C08T in
/-- Non-vacuity of the guard: without `last_token > first_token`, `first_token = i64::MAX` would reach the overflow. -/
example : (if (I64_MAX + 1 > I64_MAX) then true else false) = true := by decide

end ScyllaVerif.Props.C08Typed

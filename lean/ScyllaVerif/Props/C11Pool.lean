/-
C11, the seam towards the pool: WHICH shard and sharder `PoolRefiller::start_filling` / `start_opening_connection`
(`connection_pool.rs:815-833, 1058-1070`) hand to `open_connection_to_shard_aware_port`.  The refiller is C12's model
(`Model/Routing.lean`: `Refiller`, `maybeReshard`, `handleReady`, `removeConn`, `step`, `run`); here only the arithmetic
that C11 needs is proved, independently of `Props/C12.lean`: for EVERY pool state reachable by any sequence of
ready / broken connection events, every shard-aware attempt carries the CURRENT sharder and a shard below its shard
count - so `assert!(shard < nr_shards)` (`sharding.rs:176, 210`) cannot fire inside the refiller task, and the loop
theorems of `Props/C11Connect.lean` (which assume `s < n`) apply to every attempt the pool makes.
Not modelled here: the destination port (`endpoint.set_port(self.shard_aware_port)`) - see `partial`.
-/
import ScyllaVerif.Model.Routing
import ScyllaVerif.Props.C11Connect

namespace ScyllaVerif.Props.C11Pool
open ScyllaVerif.Routing ScyllaVerif.Sharding ScyllaVerif.C11Connect ScyllaVerif.Props.C11Connect

/-- One bucket per shard of the current sharder (one bucket without a sharder): what `maybe_reshard` establishes. -/
def LenInv (rf : Refiller) : Prop :=
  rf.conns.length = (match rf.sharder with | some s => s.nr | none => 1)

/-- The shard-aware arm of `start_filling` (`for (shard_id, shard_conns) in self.conns.iter().enumerate()`, `target -
len` attempts each) followed by `start_opening_connection(Some(shard_id))`, which pairs the shard with
`self.sharder.clone()`: the `(shard, sharder)` arguments of `open_connection_to_shard_aware_port`. Without a sharder no
shard-aware attempt is made (`can_use_shard_aware_port`). -/
def shardAwareAttempts (rf : Refiller) (target : Nat) : List (Nat × SharderM) :=
  match rf.sharder with
  | none => []
  | some s =>
    ((List.range rf.conns.length).zip rf.conns).flatMap (fun ib => List.replicate (target - ib.2.length) (ib.1, s))

private theorem lenInv_maybeReshard {rf : Refiller} (h : LenInv rf) (new : Option SharderM) :
    LenInv (rf.maybeReshard new) := by
  unfold Refiller.maybeReshard
  split
  · exact h
  · unfold LenInv; simp only [List.length_replicate]; rfl

private theorem lenInv_publish {rf : Refiller} (h : LenInv rf) : LenInv rf.publish := by
  unfold Refiller.publish
  split
  · exact h
  · split <;> exact h

private theorem lenInv_handleReady {rf rf' : Refiller} (h : LenInv rf) (c : Conn) (requested : Bool)
    (he : rf.handleReady c requested = some rf') : LenInv rf' := by
  unfold Refiller.handleReady at he
  simp only [] at he
  have h1 := lenInv_maybeReshard h (sharderOf c)
  split at he
  · cases he
  · split at he
    · cases he
      apply lenInv_publish
      unfold LenInv at h1 ⊢
      simp only [List.length_set]
      exact h1
    · split at he
      · cases he; exact h1
      · cases he; exact h1

private theorem lenInv_removeConn {rf : Refiller} (h : LenInv rf) (c : Conn) : LenInv (rf.removeConn c) := by
  unfold Refiller.removeConn
  simp only []
  split
  · apply lenInv_publish
    unfold LenInv at h ⊢
    simp only [List.length_set]
    exact h
  · split
    · exact h
    · exact h

private theorem lenInv_step {rf rf' : Refiller} (h : LenInv rf) (e : PoolEvt) (he : rf.step e = some rf') :
    LenInv rf' := by
  cases e with
  | ready c requested =>
    simp only [Refiller.step, Option.map_eq_some_iff] at he
    obtain ⟨r1, hr1, rfl⟩ := he
    have := lenInv_handleReady h c requested hr1
    split
    · exact this
    · exact this
  | broken c =>
    simp only [Refiller.step, Option.some.injEq] at he
    subst he
    exact lenInv_removeConn h c

/-- After ANY sequence of ready / broken connection events the refiller has one bucket per shard of its current
sharder. -/
theorem lenInv_run (size : PoolSize) (evts : List PoolEvt) (rf : Refiller)
    (h : (Refiller.init size).run evts = some rf) : LenInv rf := by
  have key : ∀ (evts : List PoolEvt) (r0 : Refiller), LenInv r0 → r0.run evts = some rf → LenInv rf := by
    intro evts
    induction evts with
    | nil => intro r0 h0 he; simp only [Refiller.run, Option.some.injEq] at he; subst he; exact h0
    | cons e es ih =>
      intro r0 h0 he
      simp only [Refiller.run] at he
      cases hs : r0.step e with
      | none => rw [hs] at he; cases he
      | some r1 => rw [hs] at he; exact ih r1 (lenInv_step h0 e hs) he
  exact key evts _ (show LenInv (Refiller.init size) from rfl) h

/-- **Every shard-aware attempt of every reachable pool state carries the current sharder and a shard below its shard
count**: the assertion `shard < nr_shards` of the port iterator cannot fire inside the refiller task. -/
theorem attempts_shard_lt (size : PoolSize) (evts : List PoolEvt) (rf : Refiller)
    (h : (Refiller.init size).run evts = some rf) (target shard : Nat) (s : SharderM)
    (hm : (shard, s) ∈ shardAwareAttempts rf target) : rf.sharder = some s ∧ shard < s.nr := by
  have hlen := lenInv_run size evts rf h
  unfold shardAwareAttempts at hm
  unfold LenInv at hlen
  cases hsh : rf.sharder with
  | none => rw [hsh] at hm; cases hm
  | some s' =>
    rw [hsh] at hm hlen
    simp only [List.mem_flatMap] at hm
    obtain ⟨⟨i, b⟩, hib, hrep⟩ := hm
    have hi : i < rf.conns.length := by
      have := (List.of_mem_zip hib).1
      exact List.mem_range.mp this
    obtain ⟨_, heq⟩ := List.mem_replicate.mp hrep
    cases heq
    simp only [] at hlen
    exact ⟨rfl, by omega⟩

/-- Hence the loop theorems apply to every attempt the pool makes: whatever the OS answers per source port, a
connection the attempt opens comes from a port of the configured range that the CURRENT sharder maps to the requested
shard. -/
theorem attempt_connected_spec (size : PoolSize) (evts : List PoolEvt) (rf : Refiller)
    (h : (Refiller.init size).run evts = some rf) (target shard : Nat) (s : SharderM)
    (hm : (shard, s) ∈ shardAwareAttempts rf target) (hpos : 0 < s.nr)
    (lo hi pivot p : Nat) (hhi : hi ≤ 65535) (f : Nat → Except ConnErr Unit)
    (hc : openShardAware s.nr shard lo hi pivot f = .connected p) :
    lo ≤ p ∧ p ≤ hi ∧ shardOfPort s.nr p = shard ∧ f p = .ok () := by
  obtain ⟨_, hlt⟩ := attempts_shard_lt size evts rf h target shard s hm
  exact open_connected_spec s.nr shard lo hi pivot p f hpos hlt hhi hc

-- non-vacuity: a pool that learnt a 3-shard sharder from its first connection (shard 1) asks for shards 0 and 2
example :
    let c : Conn := ⟨7, some ⟨1, 3, 12⟩⟩
    ((Refiller.init (.perShard 1)).run [.ready c false]).map (fun rf => shardAwareAttempts rf 1) =
      some [(0, ⟨3, 12⟩), (2, ⟨3, 12⟩)] := by decide

end ScyllaVerif.Props.C11Pool

/-
C11, the seam towards the pool: WHICH shard and sharder `PoolRefiller::start_filling` / `start_opening_connection`
(`connection_pool.rs:815-833, 1058-1070`) hand to `open_connection_to_shard_aware_port`.  The refiller is C12's model
(`Model/Routing.lean`: `Refiller`, `maybeReshard`, `handleReady`, `removeConn`, `step`, `run`); here only the arithmetic
that C11 needs is proved, independently of `Props/C12.lean`: for EVERY pool state reachable by any sequence of
ready / broken connection events, every shard-aware attempt carries the CURRENT sharder and a shard below its shard
count - so `assert!(shard < nr_shards)` (`sharding.rs:176, 210`) cannot fire inside the refiller task, and the loop
theorems of `Props/C11Connect.lean` (which assume `s < n`) apply to every attempt the pool makes.
Not modelled here: the destination port (`endpoint.set_port(self.shard_aware_port)`) - see `partial`.

Second half (`Model/C11PoolAttempt.lean`): WHICH RANGE the attempt walks and what becomes of `NoSourcePortForShard`.
The attempt is one call of the loop over the range the user configured; its result is final; a failed shard-aware
attempt is followed by a plain attempt, in which the driver chooses no source port. Hence, for every configured range,
every shard, every pivot and every behaviour of the operating system: every source port the driver binds on behalf of
the pool lies in the configured range and is congruent to the shard, and none is produced when the range has no usable
port of the shard - whatever ports exist OUTSIDE the range.
-/
import ScyllaVerif.Model.Routing
import ScyllaVerif.Model.C11PoolAttempt
import ScyllaVerif.Props.C11Connect

namespace ScyllaVerif.Props.C11Pool
open ScyllaVerif.Routing ScyllaVerif.Sharding ScyllaVerif.C11Connect ScyllaVerif.Props.C11Connect

/-- One bucket per shard of the current sharder (one bucket without a sharder): what `maybe_reshard` establishes. -/
def LenInv (rf : Refiller) : Prop :=
  rf.conns.length = (match rf.sharder with | some s => s.nr | none => 1)

/-- The shard-aware arm of `start_filling` (`for (shard_id, shard_conns) in self.conns.iter().enumerate()`, `target -
len` attempts each) followed by `start_opening_connection(Some(shard_id))`, which pairs the shard with
`self.sharder.clone()`: the `(shard, sharder)` arguments of `open_connection_to_shard_aware_port`. Without a sharder no
shard-aware attempt is made (`can_use_shard_aware_port`). -/
def shardAwareAttempts (rf : Refiller) (target : Nat) : List (Nat × SharderM) :=
  match rf.sharder with
  | none => []
  | some s =>
    ((List.range rf.conns.length).zip rf.conns).flatMap (fun ib => List.replicate (target - ib.2.length) (ib.1, s))

private theorem lenInv_maybeReshard {rf : Refiller} (h : LenInv rf) (new : Option SharderM) :
    LenInv (rf.maybeReshard new) := by
  unfold Refiller.maybeReshard
  split
  · exact h
  · unfold LenInv; simp only [List.length_replicate]; rfl

private theorem lenInv_publish {rf : Refiller} (h : LenInv rf) : LenInv rf.publish := by
  unfold Refiller.publish
  split
  · exact h
  · split <;> exact h

private theorem lenInv_handleReady {rf rf' : Refiller} (h : LenInv rf) (c : Conn) (requested : Bool)
    (he : rf.handleReady c requested = some rf') : LenInv rf' := by
  unfold Refiller.handleReady at he
  simp only [] at he
  have h1 := lenInv_maybeReshard h (sharderOf c)
  split at he
  · cases he
  · split at he
    · cases he
      apply lenInv_publish
      unfold LenInv at h1 ⊢
      simp only [List.length_set]
      exact h1
    · split at he
      · cases he; exact h1
      · cases he; exact h1

private theorem lenInv_removeConn {rf : Refiller} (h : LenInv rf) (c : Conn) : LenInv (rf.removeConn c) := by
  unfold Refiller.removeConn
  simp only []
  split
  · apply lenInv_publish
    unfold LenInv at h ⊢
    simp only [List.length_set]
    exact h
  · split
    · exact h
    · exact h

private theorem lenInv_step {rf rf' : Refiller} (h : LenInv rf) (e : PoolEvt) (he : rf.step e = some rf') :
    LenInv rf' := by
  cases e with
  | ready c requested =>
    simp only [Refiller.step, Option.map_eq_some_iff] at he
    obtain ⟨r1, hr1, rfl⟩ := he
    have := lenInv_handleReady h c requested hr1
    split
    · exact this
    · exact this
  | broken c =>
    simp only [Refiller.step, Option.some.injEq] at he
    subst he
    exact lenInv_removeConn h c

/-- After ANY sequence of ready / broken connection events the refiller has one bucket per shard of its current
sharder. -/
theorem lenInv_run (size : PoolSize) (evts : List PoolEvt) (rf : Refiller)
    (h : (Refiller.init size).run evts = some rf) : LenInv rf := by
  have key : ∀ (evts : List PoolEvt) (r0 : Refiller), LenInv r0 → r0.run evts = some rf → LenInv rf := by
    intro evts
    induction evts with
    | nil => intro r0 h0 he; simp only [Refiller.run, Option.some.injEq] at he; subst he; exact h0
    | cons e es ih =>
      intro r0 h0 he
      simp only [Refiller.run] at he
      cases hs : r0.step e with
      | none => rw [hs] at he; cases he
      | some r1 => rw [hs] at he; exact ih r1 (lenInv_step h0 e hs) he
  exact key evts _ (show LenInv (Refiller.init size) from rfl) h

/-- **Every shard-aware attempt of every reachable pool state carries the current sharder and a shard below its shard
count**: the assertion `shard < nr_shards` of the port iterator cannot fire inside the refiller task. -/
theorem attempts_shard_lt (size : PoolSize) (evts : List PoolEvt) (rf : Refiller)
    (h : (Refiller.init size).run evts = some rf) (target shard : Nat) (s : SharderM)
    (hm : (shard, s) ∈ shardAwareAttempts rf target) : rf.sharder = some s ∧ shard < s.nr := by
  have hlen := lenInv_run size evts rf h
  unfold shardAwareAttempts at hm
  unfold LenInv at hlen
  cases hsh : rf.sharder with
  | none => rw [hsh] at hm; cases hm
  | some s' =>
    rw [hsh] at hm hlen
    simp only [List.mem_flatMap] at hm
    obtain ⟨⟨i, b⟩, hib, hrep⟩ := hm
    have hi : i < rf.conns.length := by
      have := (List.of_mem_zip hib).1
      exact List.mem_range.mp this
    obtain ⟨_, heq⟩ := List.mem_replicate.mp hrep
    cases heq
    simp only [] at hlen
    exact ⟨rfl, by omega⟩

/-- Hence the loop theorems apply to every attempt the pool makes: whatever the OS answers per source port, a
connection the attempt opens comes from a port of the configured range that the CURRENT sharder maps to the requested
shard. -/
theorem attempt_connected_spec (size : PoolSize) (evts : List PoolEvt) (rf : Refiller)
    (h : (Refiller.init size).run evts = some rf) (target shard : Nat) (s : SharderM)
    (hm : (shard, s) ∈ shardAwareAttempts rf target) (hpos : 0 < s.nr)
    (lo hi pivot p : Nat) (hhi : hi ≤ 65535) (f : Nat → Except ConnErr Unit)
    (hc : openShardAware s.nr shard lo hi pivot f = .connected p) :
    lo ≤ p ∧ p ≤ hi ∧ shardOfPort s.nr p = shard ∧ f p = .ok () := by
  obtain ⟨_, hlt⟩ := attempts_shard_lt size evts rf h target shard s hm
  exact open_connected_spec s.nr shard lo hi pivot p f hpos hlt hhi hc

-- non-vacuity: a pool that learnt a 3-shard sharder from its first connection (shard 1) asks for shards 0 and 2
example :
    let c : Conn := ⟨7, some ⟨1, 3, 12⟩⟩
    ((Refiller.init (.perShard 1)).run [.ready c false]).map (fun rf => shardAwareAttempts rf 1) =
      some [(0, ⟨3, 12⟩), (2, ⟨3, 12⟩)] := by decide

/-! ### one attempt of the pool: the range walked is the configured range, `NoSourcePortForShard` is final -/

section attempt
open ScyllaVerif.C11PoolAttempt

/-- The refiller's shard-aware attempts are exactly `start_opening_connection(Some(shard))` in a refiller that has a
sharder and a shard-aware port: for every reachable pool state the attempt is `shardAware shard nr` with `shard < nr`. -/
theorem startOpening_of_attempt (size : PoolSize) (evts : List PoolEvt) (rf : Refiller)
    (h : (Refiller.init size).run evts = some rf) (target shard : Nat) (s : SharderM)
    (hm : (shard, s) ∈ shardAwareAttempts rf target) (port : Nat) :
    startOpening (rf.sharder.map (·.nr)) (some port) (some shard) = .shardAware shard s.nr ∧ shard < s.nr := by
  obtain ⟨hs, hlt⟩ := attempts_shard_lt size evts rf h target shard s hm
  rw [hs]
  exact ⟨rfl, hlt⟩

/-- Without a sharder, without a shard-aware port or without a requested shard the attempt is plain: the driver chooses
no source port at all. -/
theorem startOpening_plain_iff (sharder port shard : Option Nat) :
    startOpening sharder port shard = .plain ↔ sharder = none ∨ port = none ∨ shard = none := by
  cases sharder <;> cases port <;> cases shard <;> simp [startOpening]

/-- **A connection opened by a pool attempt with a driver-chosen source port comes from the CONFIGURED range**, from a
port congruent to the requested shard on which `open_connection` succeeded. -/
theorem attempt_connected_in_cfg_range (cfg : PortCfg) (s nr pivot p : Nat) (f : Nat → Except ConnErr Unit)
    (hn : 0 < nr) (hs : s < nr) (hhi : cfg.hi ≤ 65535)
    (h : runAttempt cfg (.shardAware s nr) pivot f = some (.connected p)) :
    cfg.lo ≤ p ∧ p ≤ cfg.hi ∧ p % nr = s ∧ f p = .ok () := by
  simp only [runAttempt, Option.some.injEq] at h
  exact open_connected_spec nr s cfg.lo cfg.hi pivot p f hn hs hhi h

/-- **Nothing is produced when the configured range has no usable port of the shard** - a range shorter than the shard
count, or every port of the shard busy - WHATEVER is free outside the range: the attempt ends with
`NoSourcePortForShard`, and what follows is a plain attempt. -/
theorem attempt_noSource_final (cfg : PortCfg) (s nr pivot : Nat) (f : Nat → Except ConnErr Unit)
    (hn : 0 < nr) (hs : s < nr) (hhi : cfg.hi ≤ 65535)
    (hbusy : ∀ p, cfg.lo ≤ p → p ≤ cfg.hi → p % nr = s → Unavailable f p) :
    runAttempt cfg (.shardAware s nr) pivot f = some .noSourcePort ∧
    followUp (.shardAware s nr) (runAttempt cfg (.shardAware s nr) pivot f) = some .plain := by
  have h1 : runAttempt cfg (.shardAware s nr) pivot f = some .noSourcePort := by
    simp only [runAttempt, Option.some.injEq]
    exact (open_noSourcePort_iff nr s cfg.lo cfg.hi pivot f hn hs hhi).mpr hbusy
  exact ⟨h1, by rw [h1]; rfl⟩

/-- … and conversely `NoSourcePortForShard` is the attempt's result ONLY then. -/
theorem attempt_noSource_iff (cfg : PortCfg) (s nr pivot : Nat) (f : Nat → Except ConnErr Unit)
    (hn : 0 < nr) (hs : s < nr) (hhi : cfg.hi ≤ 65535) :
    runAttempt cfg (.shardAware s nr) pivot f = some .noSourcePort ↔
      ∀ p, cfg.lo ≤ p → p ≤ cfg.hi → p % nr = s → Unavailable f p := by
  simp only [runAttempt, Option.some.injEq]
  exact open_noSourcePort_iff nr s cfg.lo cfg.hi pivot f hn hs hhi

/-- The follow-up of an attempt is never shard-aware: no failure makes the refiller walk source ports a second time. -/
theorem followUp_plain (a : PoolAttempt) (r : Option OpenResult) (b : PoolAttempt) (h : followUp a r = some b) : b = .plain := by
  unfold followUp at h
  split at h <;> simp_all

/-- **Every source port the driver binds for an attempt AND for everything its failure starts lies in the configured
range and is congruent to the shard** - for every range, pivot and behaviour of the operating system. -/
theorem chainTried_in_cfg_range (cfg : PortCfg) (s nr pivot p : Nat) (f : Nat → Except ConnErr Unit)
    (hn : 0 < nr) (hs : s < nr) (hhi : cfg.hi ≤ 65535)
    (h : p ∈ chainTried cfg (.shardAware s nr) pivot f) :
    cfg.lo ≤ p ∧ p ≤ cfg.hi ∧ p % nr = s := by
  unfold chainTried at h
  rcases List.mem_append.mp h with h | h
  · exact tried_mem nr s cfg.lo cfg.hi pivot p f hn hs hhi h
  · split at h
    · next b hb =>
      have := followUp_plain _ _ b hb
      subst this
      simp [attemptTried] at h
    · simp at h

/-- A plain attempt binds no source port of the driver's choosing. -/
theorem chainTried_plain (cfg : PortCfg) (pivot : Nat) (f : Nat → Except ConnErr Unit) :
    chainTried cfg .plain pivot f = [] := by
  simp [chainTried, attemptTried, followUp]

/-- The attempt's result does not depend on anything outside the configured range: two worlds that agree on the ports
of the range give the same result (so a free port outside the range can never turn `NoSourcePortForShard` into a
connection). -/
theorem attempt_ignores_outside (cfg : PortCfg) (s nr pivot : Nat) (f g : Nat → Except ConnErr Unit)
    (hn : 0 < nr) (hs : s < nr) (hhi : cfg.hi ≤ 65535)
    (hfg : ∀ p, cfg.lo ≤ p → p ≤ cfg.hi → f p = g p) :
    runAttempt cfg (.shardAware s nr) pivot f = runAttempt cfg (.shardAware s nr) pivot g := by
  simp only [runAttempt, Option.some.injEq]
  unfold openShardAware
  have key : ∀ ps : List Nat, (∀ p ∈ ps, f p = g p) → openLoop f ps = openLoop g ps := by
    intro ps
    induction ps with
    | nil => intro _; rfl
    | cons q qs ih =>
      intro hq
      have h1 := hq q (List.mem_cons_self ..)
      have h2 := ih (fun p hp => hq p (List.mem_cons_of_mem _ hp))
      simp only [openLoop, h1, h2]
  apply key
  intro p hp
  obtain ⟨a, b, _⟩ := (ScyllaVerif.Props.C11.iterPorts_mem nr s cfg.lo cfg.hi pivot p hn hs hhi).mp hp
  exact hfg p a b

-- non-vacuity: 4 shards, the configured range [2000, 2001] has no port of shard 3 (2003 would be one, and is free):
-- the attempt answers NoSourcePortForShard, is followed by a plain attempt, and binds nothing; shard 1 connects from 2001
example :
    let cfg : PortCfg := ⟨2000, 2001⟩
    let f : Nat → Except ConnErr Unit := fun _ => .ok ()
    runAttempt cfg (.shardAware 3 4) 0 f = some .noSourcePort ∧
    followUp (.shardAware 3 4) (runAttempt cfg (.shardAware 3 4) 0 f) = some .plain ∧
    chainTried cfg (.shardAware 3 4) 0 f = [] ∧
    runAttempt cfg (.shardAware 1 4) 0 f = some (.connected 2001) ∧
    startOpening (some 4) (some 19042) (some 3) = .shardAware 3 4 ∧ startOpening (some 4) none (some 3) = .plain := by
  decide

end attempt

/-! ### the advanced-shard-awareness block: armed by a requested miss only, for 300 s, never re-armed -/

section block
open ScyllaVerif.C11PoolAttempt

/-- "A requested attempt whose sharder equals the reported one landed on another shard." -/
def Miss (a : Arrival) : Prop :=
  ∃ shard sharder, a.requested = some (shard, sharder) ∧ a.reportedSharder = some sharder ∧ shard ≠ a.reportedShard

theorem isMiss_iff (a : Arrival) : isMiss a = true ↔ Miss a := by
  unfold isMiss Miss
  cases h : a.requested with
  | none => simp
  | some r =>
    obtain ⟨s, sh⟩ := r
    simp only [Bool.and_eq_true, decide_eq_true_eq, Option.some.injEq, Prod.mk.injEq]
    constructor
    · rintro ⟨h1, h2⟩; exact ⟨s, sh, ⟨rfl, rfl⟩, h1, h2⟩
    · rintro ⟨_, _, ⟨rfl, rfl⟩, h1, h2⟩; exact ⟨h1, h2⟩

/-- **The block is armed exactly by a requested miss** (step form): an arrival changes `blocked_until` iff it is a miss
and no block is in effect, and then to `now + 300`. -/
theorem block_iff_requested_miss_step (b : Option Nat) (a : Arrival) :
    (onArrival b a ≠ b ↔ Miss a ∧ isBlocked b a.now = false) ∧
    (Miss a → isBlocked b a.now = false → onArrival b a = some (a.now + 300)) := by
  rw [← isMiss_iff]
  unfold onArrival armBlock
  cases hm : isMiss a <;> cases hb : isBlocked b a.now <;> simp [blockSeconds]
  intro h; subst h
  simp [isBlocked] at hb

/-- Every value `blocked_until` ever takes was armed by a miss of the history, 300 s after that miss's clock. -/
theorem armed_by_a_miss (hist : List Arrival) (b : Option Nat) (u : Nat) (h : runArrivals b hist = some u) :
    b = some u ∨ ∃ a ∈ hist, Miss a ∧ u = a.now + 300 := by
  induction hist generalizing b with
  | nil => left; simpa [runArrivals] using h
  | cons a as ih =>
    simp only [runArrivals] at h
    rcases ih _ h with h1 | ⟨a', ha', hm, hu⟩
    · by_cases hc : onArrival b a = b
      · left; rw [← hc]; exact h1
      · right
        obtain ⟨hm, hb⟩ := (block_iff_requested_miss_step b a).1.mp hc
        have := (block_iff_requested_miss_step b a).2 hm hb
        rw [this] at h1
        exact ⟨a, List.mem_cons_self .., hm, by cases h1; rfl⟩
    · exact Or.inr ⟨a', List.mem_cons_of_mem _ ha', hm, hu⟩

private theorem runArrivals_isSome_of_some (hist : List Arrival) (b : Option Nat) (hb : b.isSome) :
    (runArrivals b hist).isSome := by
  induction hist generalizing b with
  | nil => simpa [runArrivals] using hb
  | cons a as ih =>
    simp only [runArrivals]
    apply ih
    unfold onArrival armBlock
    split
    · split
      · exact hb
      · rfl
    · exact hb

/-- **`block_iff_requested_miss`, over all arrival histories** of a fresh refiller: a block has been armed iff the
history contains a requested attempt whose sharder equals the reported one and which landed on another shard. -/
theorem block_iff_requested_miss (hist : List Arrival) :
    (runArrivals none hist).isSome ↔ ∃ a ∈ hist, Miss a := by
  constructor
  · intro h
    obtain ⟨u, hu⟩ := Option.isSome_iff_exists.mp h
    rcases armed_by_a_miss hist none u hu with h1 | ⟨a, ha, hm, _⟩
    · cases h1
    · exact ⟨a, ha, hm⟩
  · rintro ⟨a, ha, hm⟩
    have key : ∀ (hist : List Arrival) (b : Option Nat), a ∈ hist → (runArrivals b hist).isSome := by
      intro hist
      induction hist with
      | nil => intro _ h; cases h
      | cons x xs ih =>
        intro b hx
        simp only [runArrivals]
        rcases List.mem_cons.mp hx with rfl | hx
        · apply runArrivals_isSome_of_some
          have hm' := (isMiss_iff a).mpr hm
          unfold onArrival armBlock
          rw [hm']
          simp only [if_true]
          split
          · next hb => cases b with
            | none => simp [isBlocked] at hb
            | some _ => rfl
          · rfl
        · exact ih _ hx
    exact key hist none ha

/-- **`block_lasts_300s`**: a miss at a moment when no block is in effect refuses shard-aware attempts at exactly the
times `t < now + 300` (for a pool that could otherwise use the shard-aware port) … -/
theorem block_lasts_300s (b : Option Nat) (a : Arrival) (hm : Miss a) (hb : isBlocked b a.now = false)
    (n port t : Nat) :
    canUseShardAwarePort (some n) (some port) true (onArrival b a) t = false ↔ t < a.now + 300 := by
  rw [(block_iff_requested_miss_step b a).2 hm hb]
  simp [canUseShardAwarePort, isBlocked]

/-- … while a block is in effect nothing re-arms or prolongs it … -/
theorem block_not_rearmed (b : Option Nat) (a : Arrival) (hb : isBlocked b a.now = true) : onArrival b a = b := by
  unfold onArrival armBlock
  simp [hb]

/-- … and, over all histories of a fresh refiller: shard-aware attempts are refused at time `t` iff `blocked_until` is
`now + 300` of some miss of the history and `t` is before it. -/
theorem refused_iff_within_300s_of_a_miss (hist : List Arrival) (n port t : Nat) :
    canUseShardAwarePort (some n) (some port) true (runArrivals none hist) t = false ↔
      ∃ a ∈ hist, Miss a ∧ runArrivals none hist = some (a.now + 300) ∧ t < a.now + 300 := by
  constructor
  · intro h
    cases hr : runArrivals none hist with
    | none => rw [hr] at h; simp [canUseShardAwarePort, isBlocked] at h
    | some u =>
      rw [hr] at h
      simp [canUseShardAwarePort, isBlocked] at h
      rcases armed_by_a_miss hist none u hr with h1 | ⟨a, ha, hm, hu⟩
      · cases h1
      · exact ⟨a, ha, hm, by rw [hu], by omega⟩
  · rintro ⟨a, _, _, hr, ht⟩
    rw [hr]
    simp [canUseShardAwarePort, isBlocked, ht]

/-- **`no_block_on_sharder_change`**: an arrival whose reported sharder differs from the one it was requested with (the
node resharded while the attempt was in flight, or sent no shard info) never arms the block, wherever it landed. -/
theorem no_block_on_sharder_change (b : Option Nat) (a : Arrival) (shard : Nat) (sharder : SharderK)
    (hr : a.requested = some (shard, sharder)) (hne : a.reportedSharder ≠ some sharder) : onArrival b a = b := by
  unfold onArrival isMiss
  rw [hr]
  simp [hne]

/-- **`hit_never_blocks`**: a requested attempt that landed on the shard it asked for never arms the block. -/
theorem hit_never_blocks (b : Option Nat) (a : Arrival) (sharder : SharderK)
    (hr : a.requested = some (a.reportedShard, sharder)) : onArrival b a = b := by
  unfold onArrival isMiss
  rw [hr]
  simp

/-- A plain attempt (nothing requested) never arms the block. -/
theorem plain_never_blocks (b : Option Nat) (a : Arrival) (hr : a.requested = none) : onArrival b a = b := by
  unfold onArrival isMiss
  rw [hr]
  simp

/-- History form of the last three: a history made of hits, sharder changes and plain arrivals only leaves a fresh
refiller unblocked for ever. -/
theorem no_miss_no_block (hist : List Arrival) (h : ∀ a ∈ hist, ¬ Miss a) (n port t : Nat) :
    runArrivals none hist = none ∧ canUseShardAwarePort (some n) (some port) true (runArrivals none hist) t = true := by
  have h0 : runArrivals none hist = none := by
    cases hr : runArrivals none hist with
    | none => rfl
    | some u =>
      have : (runArrivals none hist).isSome := by rw [hr]; rfl
      obtain ⟨a, ha, hm⟩ := (block_iff_requested_miss hist).mp this
      exact absurd hm (h a ha)
  rw [h0]
  exact ⟨rfl, by simp [canUseShardAwarePort, isBlocked]⟩

-- non-vacuity: 4 shards. A hit (asked 2, got 2), a reshard in flight (asked 1 of the old sharder, got 3), a plain
-- arrival: no block. A miss at t = 1000 (asked 1, got 3, same sharder): blocked until 1300; a second miss at 1100 does
-- not prolong it; a miss at 1300 arms it anew.
example :
    let sh : SharderK := ⟨4, 12⟩
    let hit : Arrival := ⟨some (2, sh), 2, some sh, 900⟩
    let resh : Arrival := ⟨some (1, ⟨8, 12⟩), 3, some sh, 950⟩
    let plain : Arrival := ⟨none, 3, some sh, 960⟩
    let miss (t : Nat) : Arrival := ⟨some (1, sh), 3, some sh, t⟩
    runArrivals none [hit, resh, plain] = none ∧
    runArrivals none [hit, miss 1000] = some 1300 ∧
    runArrivals none [miss 1000, miss 1100] = some 1300 ∧
    runArrivals none [miss 1000, miss 1300] = some 1600 ∧
    canUseShardAwarePort (some 4) (some 19042) true (some 1300) 1299 = false ∧
    canUseShardAwarePort (some 4) (some 19042) true (some 1300) 1300 = true := by
  decide

end block

end ScyllaVerif.Props.C11Pool

/-
C07 — paged iteration yields every row exactly once, in order, then ends.
Property theorems only. Model: `ScyllaVerif/Model/Pager.lean`; invariants: `ScyllaVerif/Proofs/Pager.lean`.

Every theorem is about `run (init pages faults) ops`: an ARBITRARY server script `pages`, an ARBITRARY
sequence `faults` of attempt outcomes (retried failure / final failure / ignored error / success) and
an ARBITRARY schedule `ops` of producer steps, consumer polls and the drop of the pager.
-/
import ScyllaVerif.Proofs.Pager
import ScyllaVerif.Proofs.PagerExec
import ScyllaVerif.Proofs.PagerWake

namespace ScyllaVerif.Props.C07
open ScyllaVerif.Pager

/-! ### rows: no loss, no duplication, no reordering -/

/-- At every moment of every execution the rows handed out so far are a prefix of the rows of the pages
in server order (so: no duplicate, no reordering, nothing invented, no gap). -/
theorem rows_exact_prefix (pages : List Page) (faults : List Attempt) (ops : List Op) :
    (run (init pages faults) ops).delivered <+: servedRows pages :=
  (inv_reachable pages faults ops).c.pre

/-- If the stream ended with `None` (as seen by the live pager), without having yielded an error, and no
attempt was answered by the retry policy with `IgnoreWriteError`, then it has yielded ALL rows of all
pages up to the one without paging state - whatever the page sizes (empty pages, empty last page), the
retried failures and the interleaving. -/
theorem rows_exact (pages : List Page) (faults : List Attempt) (ops : List Op)
    (hig : Attempt.ignore ∉ faults)
    (hrx : (run (init pages faults) ops).rx = .alive)
    (hend : (run (init pages faults) ops).ended = true)
    (herr : (run (init pages faults) ops).errs = []) :
    (run (init pages faults) ops).delivered = servedRows pages := by
  have inv := inv_reachable pages faults ops
  generalize run (init pages faults) ops = s at *
  obtain ⟨hpc, hch, hcur⟩ := inv.c.ended_q hend
  have hctor : s.ctorErr.isSome = false := by
    cases h : s.ctorErr.isSome with
    | false => rfl
    | true => have := (inv.c.ctor h).1; simp [hrx] at this
  have hign : s.ignored = false := by
    cases h : s.ignored with
    | false => rfl
    | true =>
      obtain ⟨pre, hpre, hin⟩ := inv.f.consumed
      exact absurd (hpre ▸ List.mem_append_left _ (hin h)) hig
  have hrows := inv.c.rows (by simp [hrx])
  have htot := inv.b.total
  have hlost : s.lost = [] := by
    cases hl : s.lost with
    | nil => rfl
    | cons a b =>
      have := inv.c.lost_why (by simp [hl])
      simp [hign, hctor, herr, hch, hpc, hrx, chanErr, pcErr] at this
  simp only [hcur, hch, hpc, chanRows, pcRows, List.append_nil] at hrows
  simp only [future, hpc, continuing, hlost, List.append_nil] at htot
  rw [hrows, ← htot]; simp

example :
    let s := run (init [([0, 1], some [1]), ([], some []), ([2], none)] [.retry, .ok, .retry])
      (List.replicate 12 [Op.prod, Op.poll]).flatten
    Attempt.ignore ∉ [Attempt.retry, .ok, .retry] ∧ s.rx = .alive ∧ s.ended = true ∧ s.errs = [] ∧
      s.delivered = [0, 1, 2] := by decide

/-! ### paging-state chain -/

/-- Every request the producer ever sends for page `k` (first attempt or retry, before or after the
consumer dropped the pager) carries the paging state the server returned with page `k-1`, and none for
`k = 0`. -/
theorem paging_state_chain (pages : List Page) (faults : List Attempt) (ops : List Op) :
    ∀ e ∈ (run (init pages faults) ops).log, e.2 = stateBefore pages e.1 :=
  fun e he => ((inv_reachable pages faults ops).a.log_ok e he).1

/-- Requests are sent in page order (page `k+1` is asked for only after page `k` was served), and a
retried attempt re-sends the same state. -/
theorem paging_requests_in_order (pages : List Page) (faults : List Attempt) (ops : List Op) :
    (run (init pages faults) ops).log.Pairwise (fun a b => a.1 ≤ b.1) ∧
    (∀ a ∈ (run (init pages faults) ops).log, ∀ b ∈ (run (init pages faults) ops).log, a.1 = b.1 → a.2 = b.2) ∧
    (∀ e ∈ (run (init pages faults) ops).log, e.1 ≤ (run (init pages faults) ops).served) := by
  have inv := inv_reachable pages faults ops
  refine ⟨inv.f.log_sorted, ?_, fun e he => (inv.a.log_ok e he).2⟩
  intro a ha b hb hab
  rw [(inv.a.log_ok a ha).1, (inv.a.log_ok b hb).1, hab]

/-- Only pages the server announced are ever asked for: a request for page `k` is sent only if every
earlier page came with a paging state. -/
theorem requested_pages_exist (pages : List Page) (faults : List Attempt) (ops : List Op) :
    ∀ e ∈ (run (init pages faults) ops).log, ∀ j, j < e.1 → (pageAt pages j).2 ≠ none :=
  fun e he => (inv_reachable pages faults ops).rc.log_reach e he

/-- A server that answers as a FUNCTION OF THE PRESENTED PAGING STATE (as real servers do), and that
answers the states of the script's chain with the script's pages - as far as the chain goes, i.e. for
every `k` all of whose predecessors returned a paging state - answers every request the pager ever sends
for page `k` with page `k`: the positional script of the model loses nothing. (Such an `f` exists as soon
as the states of the chain are distinct; see the example.) -/
theorem state_keyed_server_sees_script (pages : List Page) (faults : List Attempt) (ops : List Op)
    (f : Option PState → Page)
    (hf : ∀ k, (∀ j, j < k → (pageAt pages j).2 ≠ none) → f (stateBefore pages k) = pageAt pages k) :
    ∀ e ∈ (run (init pages faults) ops).log, f e.2 = pageAt pages e.1 := by
  intro e he
  rw [paging_state_chain pages faults ops e he]
  exact hf e.1 (requested_pages_exist pages faults ops e he)

/-- Non-vacuity: a three-page script with distinct states and a non-empty first page, and the server
keyed by state that it induces, satisfy the hypothesis. -/
example :
    let pages : List Page := [([0, 1], some [1]), ([2], some [2]), ([3], none)]
    let f : Option PState → Page := fun st =>
      if st = none then ([0, 1], some [1]) else if st = some [1] then ([2], some [2])
      else if st = some [2] then ([3], none) else ([], none)
    ∀ k, (∀ j, j < k → (pageAt pages j).2 ≠ none) → f (stateBefore pages k) = pageAt pages k := by
  intro pages f k h
  match k with
  | 0 => decide
  | 1 => decide
  | 2 => decide
  | k + 3 => exact absurd (h 2 (by omega)) (by decide)

example : (run (init [([0], some [7]), ([1], some [8, 9]), ([], none)] [.ok, .retry, .retry, .ok])
    [.prod, .prod, .prod, .prod, .prod, .poll, .poll, .prod, .prod]).log
    = [(0, none), (1, some [7]), (1, some [7]), (1, some [7]), (2, some [8, 9])] := by decide

/-! ### failures -/

/-- When the stream yields an error (a failure the retry policy did not retry, on the request for page
number `served`), it has yielded every row of every earlier page and nothing else; the producer has
stopped and the channel is empty, so the next poll ends the stream. -/
theorem error_after_earlier_rows (pages : List Page) (faults : List Attempt) (ops : List Op)
    (hrx : (run (init pages faults) ops).rx = .alive)
    (herr : (run (init pages faults) ops).errs ≠ []) :
    (run (init pages faults) ops).delivered = rowsBefore pages (run (init pages faults) ops).served ∧
    (run (init pages faults) ops).pc = .done ∧ (run (init pages faults) ops).chan = none ∧
    (run (init pages faults) ops).cur = [] := by
  have inv := inv_reachable pages faults ops
  generalize run (init pages faults) ops = s at *
  obtain ⟨hpc, hch, hcur⟩ := inv.c.errs_q herr
  have hrows := inv.c.rows (by simp [hrx])
  simp only [hcur, hch, hpc, chanRows, pcRows, List.append_nil] at hrows
  exact ⟨hrows, hpc, hch, hcur⟩

/-- A failure of the FIRST page is the constructor's error: no pager, no rows. -/
theorem first_page_error (pages : List Page) (faults : List Attempt) (ops : List Op)
    (h : (run (init pages faults) ops).ctorErr.isSome = true) :
    (run (init pages faults) ops).delivered = [] ∧ (run (init pages faults) ops).served = 0 ∧
    (run (init pages faults) ops).rx = .unbuilt := by
  have inv := inv_reachable pages faults ops
  have hu := (inv.c.ctor h).1
  have := inv.c.unbuilt hu
  exact ⟨this.2.1, this.2.2.2.2.2.2.2, hu⟩

example :
    let s := run (init [([0, 1], some [1]), ([2], some [2]), ([3], none)] [.ok, .ok, .fail "x"])
      (List.replicate 9 [Op.prod, Op.poll]).flatten
    s.rx = .alive ∧ s.errs = ["x"] ∧ s.delivered = [0, 1, 2] ∧ s.served = 2 := by decide

example :
    let s := run (init [([0, 1], some [1]), ([2], none)] [.retry, .fail "x"]) [Op.prod, .poll, .prod, .poll]
    s.ctorErr = some "x" ∧ s.delivered = [] := by decide

private theorem prod_errs (s : St) : (stepProd s).errs = s.errs ∧ (stepProd s).delivered = s.delivered := by
  unfold stepProd
  repeat' split
  all_goals exact ⟨rfl, rfl⟩

private theorem errs_le_one_run {pages : List Page} {faults0 : List Attempt} :
    ∀ (ops : List Op) (s : St), Inv pages faults0 s → s.errs.length ≤ 1 → (run s ops).errs.length ≤ 1 := by
  intro ops
  induction ops with
  | nil => intro s _ h; exact h
  | cons op ops ih =>
    intro s hi h
    refine ih (step s op) (inv_step hi op) ?_
    cases op
    · simp only [step]; rw [(prod_errs s).1]; exact h
    · simp only [step]
      unfold stepPoll
      repeat' split
      all_goals first | exact h | skip
      next e hch =>
        have : s.errs = [] := by
          cases he : s.errs with
          | nil => rfl
          | cons a b => have := (hi.c.errs_q (by simp [he])).2.1; simp [hch] at this
        simp [this]
    · simp only [step]
      unfold stepDrop
      split <;> exact h

/-- A failed fetch is reported once: the stream yields at most one error. -/
theorem error_at_most_once (pages : List Page) (faults : List Attempt) (ops : List Op) :
    (run (init pages faults) ops).errs.length ≤ 1 :=
  errs_le_one_run ops _ (inv_init pages faults) (by simp [init])

/-- After the stream has yielded an error or `None`, it never yields a row or an error again, and the
producer sends nothing any more: rows, then at most one error, then the end. -/
theorem nothing_after_end_or_error (pages : List Page) (faults : List Attempt) (ops more : List Op)
    (h : (run (init pages faults) ops).ended = true ∨ (run (init pages faults) ops).errs ≠ []) :
    (run (run (init pages faults) ops) more).delivered = (run (init pages faults) ops).delivered ∧
    (run (run (init pages faults) ops) more).errs = (run (init pages faults) ops).errs ∧
    (run (run (init pages faults) ops) more).log = (run (init pages faults) ops).log := by
  have inv := inv_reachable pages faults ops
  generalize run (init pages faults) ops = s at *
  have hq : s.pc = .done ∧ s.chan = none ∧ s.cur = [] := by
    rcases h with h | h
    · exact inv.c.ended_q h
    · exact inv.c.errs_q h
  have := quiet_run (s0 := s) ⟨hq.1, hq.2.1, hq.2.2, rfl, rfl, rfl⟩ more
  exact ⟨this.delivered, this.errs, this.log⟩

/-! ### termination -/

/-- No pending page and the producer done: the next poll yields `None` (whatever came before: empty
pages, an empty last page, an error). -/
theorem terminates_poll (s : St) (hrx : s.rx = .alive) (hpc : s.pc = .done) (hch : s.chan = none)
    (hcur : s.cur = []) : (stepPoll s).ended = true ∧ (stepPoll s).delivered = s.delivered := by
  unfold stepPoll
  simp [hrx, hpc, hch, hcur]

/-- Every step either leaves the state unchanged (a `Pending` poll, a blocked `send`, a finished task) or
decreases `measure`: no execution has more than `measure (init ..)` effective steps. -/
theorem bounded_work (s : St) (op : Op) : measure (step s op) < measure s ∨ step s op = s :=
  step_decreases s op

theorem measure_init (pages : List Page) (faults : List Attempt) :
    measure (init pages faults) = faults.length + 5 * pages.length + todoRows pages + 7 := by
  simp [Pager.measure, init, pcRank, pcItemRows]

/-- No deadlock: in every reachable state in which the pager is not dropped, the constructor has not
failed and the stream has not ended, the producer or a poll changes the state. -/
theorem no_deadlock_reachable (pages : List Page) (faults : List Attempt) (ops : List Op)
    (hrx : (run (init pages faults) ops).rx ≠ .dropped)
    (hend : (run (init pages faults) ops).ended = false)
    (hctor : (run (init pages faults) ops).ctorErr.isSome = false) :
    stepProd (run (init pages faults) ops) ≠ run (init pages faults) ops ∨
    stepPoll (run (init pages faults) ops) ≠ run (init pages faults) ops :=
  no_deadlock (inv_reachable pages faults ops).c (uinv_run (uinv_init pages faults) ops).unbuilt hrx hend hctor

/-- Termination: if producer and consumer are scheduled in turn, then after at most
`measure (init pages faults)` rounds the stream has ended with `None` (or the constructor returned its
error) - for every script, including empty pages and an empty last page, and every fault sequence. -/
theorem terminates (pages : List Page) (faults : List Attempt) (n : Nat)
    (hn : faults.length + 5 * pages.length + todoRows pages + 7 ≤ n) :
    (runEager n (init pages faults)).ended = true ∨ (runEager n (init pages faults)).ctorErr.isSome = true :=
  runEager_ends n _ (inv_init pages faults) (uinv_init pages faults) (by simp [init])
    (by rw [measure_init]; exact hn)

/-- ... and then it has yielded everything (no ignored error, no failure). -/
theorem eager_consumer_gets_everything (pages : List Page) (faults : List Attempt) (n : Nat)
    (hn : faults.length + 5 * pages.length + todoRows pages + 7 ≤ n)
    (hig : Attempt.ignore ∉ faults)
    (herr : (runEager n (init pages faults)).errs = [])
    (hctor : (runEager n (init pages faults)).ctorErr = none) :
    (runEager n (init pages faults)).delivered = servedRows pages := by
  obtain ⟨ops, hops, hnd⟩ := runEager_is_run n (init pages faults)
  have hend := terminates pages faults n hn
  rw [hops] at herr hctor hend ⊢
  have hend' : (run (init pages faults) ops).ended = true := by
    rcases hend with h | h
    · exact h
    · simp [hctor] at h
  have inv := inv_reachable pages faults ops
  have halive : (run (init pages faults) ops).rx = .alive := by
    cases hr : (run (init pages faults) ops).rx with
    | alive => rfl
    | unbuilt => have := (inv.c.unbuilt hr).2.2.2.2.2.1; simp [hend'] at this
    | dropped =>
      exact absurd hr (run_no_drop_rx ops _ hnd (by simp [init]))
  exact rows_exact pages faults ops hig halive hend' herr

example : (runEager 40 (init [([0, 1], some [1]), ([], some []), ([], some [5]), ([2], some [3]), ([], none)]
    [.retry, .ok, .retry, .retry])).delivered = [0, 1, 2] := by decide

/-- Termination from ANY reachable live state: whatever producer steps and polls happened before (any
drop-free schedule `ops`), scheduling producer and consumer in turn from there ends the stream within
`measure (init ..)` rounds. -/
theorem terminates_after_any_prefix (pages : List Page) (faults : List Attempt) (ops : List Op) (n : Nat)
    (hnd : Op.drop ∉ ops)
    (hn : faults.length + 5 * pages.length + todoRows pages + 7 ≤ n) :
    (runEager n (run (init pages faults) ops)).ended = true ∨
    (runEager n (run (init pages faults) ops)).ctorErr.isSome = true := by
  refine runEager_ends n _ (inv_reachable pages faults ops) (uinv_run (uinv_init pages faults) ops)
    (run_no_drop_rx ops _ hnd (by simp [init])) ?_
  have := measure_run_le ops (init pages faults)
  rw [measure_init] at this
  omega

/-! ### a non-retried failure surfaces as THAT error -/

/-- In every reachable state, for every final failure `.fail e` among the attempt outcomes consumed so
far: the consumer has been given exactly `e` (as the stream's only error, or as the constructor's error),
or `e` sits in the channel, or the producer is handing it over, or the consumer is gone. A failure is
never swallowed or replaced. -/
theorem fail_pending_or_surfaced (pages : List Page) (faults : List Attempt) (ops : List Op)
    (pre : List Attempt) (e : String)
    (hpre : faults = pre ++ (run (init pages faults) ops).faults) (he : Attempt.fail e ∈ pre) :
    (run (init pages faults) ops).errs = [e] ∨ (run (init pages faults) ops).ctorErr = some e ∨
    (run (init pages faults) ops).chan = some (.err e) ∨
    (run (init pages faults) ops).pc = .send (.err e) none ∨ (run (init pages faults) ops).rx = .dropped := by
  obtain ⟨pre', hpre', hf⟩ := (inv_reachable pages faults ops).sv.failed
  have : pre = pre' := List.append_cancel_right (hpre.symm.trans hpre')
  exact hf e (this ▸ he)

/-- ... and once producer and consumer have been scheduled in turn for `measure (init ..)` rounds (after
any drop-free prefix), the consumer HAS it: the stream yielded exactly `[e]`, or the constructor
returned `e`. -/
theorem fail_surfaces (pages : List Page) (faults : List Attempt) (ops : List Op) (n : Nat)
    (hnd : Op.drop ∉ ops)
    (hn : faults.length + 5 * pages.length + todoRows pages + 7 ≤ n)
    (pre : List Attempt) (e : String)
    (hpre : faults = pre ++ (runEager n (run (init pages faults) ops)).faults)
    (he : Attempt.fail e ∈ pre) :
    (runEager n (run (init pages faults) ops)).errs = [e] ∨
    (runEager n (run (init pages faults) ops)).ctorErr = some e := by
  have hend := terminates_after_any_prefix pages faults ops n hnd hn
  obtain ⟨ops', hops, hnd'⟩ := runEager_is_run n (run (init pages faults) ops)
  have hrun : runEager n (run (init pages faults) ops) = run (init pages faults) (ops ++ ops') := by
    rw [hops, run_append]
  rw [hrun] at hpre hend ⊢
  have inv := inv_reachable pages faults (ops ++ ops')
  have hrx : (run (init pages faults) (ops ++ ops')).rx ≠ .dropped :=
    run_no_drop_rx _ _ (by simp [hnd, hnd']) (by simp [init])
  have hq : (run (init pages faults) (ops ++ ops')).pc = .done ∧ (run (init pages faults) (ops ++ ops')).chan = none := by
    rcases hend with h | h
    · exact ⟨(inv.c.ended_q h).1, (inv.c.ended_q h).2.1⟩
    · have hc := inv.c.ctor h
      exact ⟨hc.2, (inv.c.unbuilt hc.1).2.2.2.1⟩
  rcases fail_pending_or_surfaced pages faults (ops ++ ops') pre e hpre he with h | h | h | h | h
  · exact Or.inl h
  · exact Or.inr h
  · simp [hq.2] at h
  · simp [hq.1] at h
  · exact absurd h hrx

example :
    let s := runEager 40 (run (init [([0, 1], some [1]), ([2], some [2]), ([3], none)] [.ok, .retry, .fail "x", .ok])
      [Op.prod, .poll])
    [Attempt.ok, .retry, .fail "x", .ok] = [.ok, .retry, .fail "x"] ++ s.faults ∧ s.errs = ["x"] ∧
      s.delivered = [0, 1] := by decide

/-! ### no error without a final failure; retried failures lose nothing, unconditionally -/

/-- Converse of `fail_surfaces`: if no attempt outcome is a final failure, then under EVERY schedule the
stream never yields an error and the constructor never fails - a retried failure (or an ignored one) is
never turned into an error. -/
theorem no_spurious_error (pages : List Page) (faults : List Attempt) (ops : List Op)
    (hnf : ∀ e, Attempt.fail e ∉ faults) :
    (run (init pages faults) ops).errs = [] ∧ (run (init pages faults) ops).ctorErr = none := by
  have h := noerr_run (s := init pages faults) ⟨rfl, rfl, by simp [init], by simp [init], hnf⟩ ops
  exact ⟨h.1, h.2.1⟩

/-- "Transient failures that the retry policy retries do not lose, duplicate or reorder rows", with no
side condition: if every attempt either succeeds or is retried, then - for every script and every number
and placement of retries - scheduling producer and consumer in turn yields exactly all rows, no error,
and the end. -/
theorem retries_lose_nothing (pages : List Page) (faults : List Attempt) (n : Nat)
    (hf : ∀ a ∈ faults, a = Attempt.ok ∨ a = Attempt.retry)
    (hn : faults.length + 5 * pages.length + todoRows pages + 7 ≤ n) :
    (runEager n (init pages faults)).delivered = servedRows pages ∧
    (runEager n (init pages faults)).ended = true ∧
    (runEager n (init pages faults)).errs = [] ∧ (runEager n (init pages faults)).ctorErr = none := by
  have hnf : ∀ e, Attempt.fail e ∉ faults := by
    intro e he; rcases hf _ he with h | h <;> simp at h
  have hig : Attempt.ignore ∉ faults := by
    intro he; rcases hf _ he with h | h <;> simp at h
  obtain ⟨ops, hops, _⟩ := runEager_is_run n (init pages faults)
  have hne := no_spurious_error pages faults ops hnf
  rw [← hops] at hne
  have hend := terminates pages faults n hn
  refine ⟨eager_consumer_gets_everything pages faults n hn hig hne.1 hne.2, ?_, hne.1, hne.2⟩
  rcases hend with h | h
  · exact h
  · simp [hne.2] at h

example : (∀ a ∈ [Attempt.retry, .ok, .retry, .retry, .ok], a = Attempt.ok ∨ a = Attempt.retry) ∧
    (runEager 60 (init [([0, 1], some [1]), ([], some [2]), ([2], none)] [.retry, .ok, .retry, .retry, .ok])).delivered
      = [0, 1, 2] := by decide

/-! ### what a stream that ended has yielded, whatever ended it -/

/-- Whenever the live pager has seen `None` - because the last page came, or after an error, or because
an `IgnoreWriteError` decision / a non-Rows first response made the producer stop - it has yielded
exactly the rows of the `served` pages the server sent, all of them and nothing else. For the ignore
outcomes this is the universal statement (`ignore_truncates_silently` only shows that the result CAN be
short of `servedRows pages`): the rows of the pages before the ignored request, then the end. -/
theorem ended_rows (pages : List Page) (faults : List Attempt) (ops : List Op)
    (hrx : (run (init pages faults) ops).rx = .alive) (hend : (run (init pages faults) ops).ended = true) :
    (run (init pages faults) ops).delivered = rowsBefore pages (run (init pages faults) ops).served := by
  have inv := inv_reachable pages faults ops
  obtain ⟨hpc, hch, hcur⟩ := inv.c.ended_q hend
  have := inv.c.rows (by simp [hrx])
  simpa [hpc, hch, hcur, chanRows, pcRows] using this

example :
    let s := run (init [([0], some [1]), ([1], some [2]), ([2], none)] [.ok, .ok, .ignore])
      (List.replicate 8 [Op.prod, Op.poll]).flatten
    s.rx = .alive ∧ s.ended = true ∧ s.errs = [] ∧ s.served = 2 ∧ s.delivered = [0, 1] := by decide

/-- The `served` of `error_after_earlier_rows` / `ended_rows` IS the index of the failed request: once a
final failure has been consumed (it is being sent, sits in the channel, was yielded, or failed the
constructor), the LAST request in the log is the one for page `served`, carrying the state of page
`served - 1`; pages `0 .. served-1` are exactly those served before it. -/
theorem failed_request_is_for_page_served (pages : List Page) (faults : List Attempt) (ops : List Op)
    (h : (run (init pages faults) ops).errs ≠ [] ∨ (run (init pages faults) ops).ctorErr.isSome = true ∨
      chanErr (run (init pages faults) ops).chan = true ∨ pcErr (run (init pages faults) ops).pc = true) :
    (run (init pages faults) ops).log.getLast? =
      some ((run (init pages faults) ops).served, stateBefore pages (run (init pages faults) ops).served) := by
  have inv := inv_reachable pages faults ops
  have hf : Failing (run (init pages faults) ops) := by
    rcases h with h | h | h | h
    · exact Or.inr (Or.inr (Or.inl h))
    · exact Or.inr (Or.inr (Or.inr h))
    · exact Or.inr (Or.inl h)
    · exact Or.inl h
  obtain ⟨st, hst⟩ := inv.ei.last hf
  have hmem := List.mem_of_getLast? hst
  have := (inv.a.log_ok _ hmem).1
  simp only at this
  rw [hst, this]

/-! ### result-metadata changes between pages do not touch rows or the paging-state chain

True by construction of the model (the transition system runs on the erased script), stated so that the
claim is explicit; what ties it to the code is the differential run, where pages carry
METADATA_CHANGED + a new id + new column specs at every position. -/

/-- Two scripts that differ only in where the result metadata changes produce the same execution under
every fault sequence and schedule: same rows, same errors, same request log. -/
theorem metadata_changes_do_not_affect_paging (a b : List PageM) (faults : List Attempt) (ops : List Op)
    (h : erase a = erase b) : run (initM a faults) ops = run (initM b faults) ops := by
  simp [initM, h]

/-- The row and chain theorems for a script with metadata changes: rows are a prefix of the pages' rows
and every request for page `k` carries the state returned with page `k-1`, wherever the changes are. -/
theorem chain_and_rows_with_metadata_changes (ps : List PageM) (faults : List Attempt) (ops : List Op) :
    (run (initM ps faults) ops).delivered <+: servedRows (erase ps) ∧
    (∀ e ∈ (run (initM ps faults) ops).log, e.2 = stateBefore (erase ps) e.1) :=
  ⟨rows_exact_prefix (erase ps) faults ops, paging_state_chain (erase ps) faults ops⟩

/-- `rowVersions` assigns a metadata version to exactly the rows a complete iteration yields, so "the
m-th delivered row is decoded with the m-th entry" is well defined for every prefix. -/
theorem rowVersions_length (v : Nat) (ps : List PageM) :
    (rowVersions v ps).length = (servedRows (erase ps)).length := by
  induction ps generalizing v with
  | nil => simp [rowVersions, erase, servedRows]
  | cons p t ih =>
    obtain ⟨⟨r, st⟩, c⟩ := p
    cases st with
    | none => simp [rowVersions, erase, servedRows]
    | some st =>
      have := ih (v + c.toNat)
      simp only [erase] at this
      simp [rowVersions, erase, servedRows, this]

/-- Versions never decrease along the rows and change only at a page that announces a change. -/
theorem rowVersions_sorted (v : Nat) (ps : List PageM) :
    (rowVersions v ps).Pairwise (· ≤ ·) ∧ ∀ x ∈ rowVersions v ps, v ≤ x := by
  induction ps generalizing v with
  | nil => simp [rowVersions]
  | cons p t ih =>
    obtain ⟨⟨r, st⟩, c⟩ := p
    cases st with
    | none =>
      simp only [rowVersions]
      refine ⟨?_, ?_⟩
      · rw [List.pairwise_replicate]; simp
      · intro x hx; rw [List.mem_replicate] at hx; omega
    | some st =>
      obtain ⟨h1, h2⟩ := ih (v + c.toNat)
      simp only [rowVersions]
      refine ⟨?_, ?_⟩
      · rw [List.pairwise_append]
        refine ⟨by rw [List.pairwise_replicate]; simp, h1, ?_⟩
        intro a ha b hb
        rw [List.mem_replicate] at ha
        have := h2 b hb
        omega
      · intro x hx
        rcases List.mem_append.mp hx with hx | hx
        · rw [List.mem_replicate] at hx; omega
        · have := h2 x hx; omega

example : rowVersions 0 [(([0, 1], some [1]), false), (([2], some [2]), true), (([], some [3]), true), (([3], none), false)]
    = [0, 0, 1, 2] := by decide

/-! ### the driver's schedules are schedules of the theorems -/

/-- The drop schedules the line-protocol driver runs (laziest / most eager producer, then the drop, then
the producer to quiescence) are `run`s of the same step functions, so every theorem above applies to
what the driver prints. (`runEager_is_run` is the same fact for the eager consumer.) -/
theorem driver_drop_schedules_are_runs (eagerProd : Bool) (k n : Nat) (s : St) :
    (∃ ops, runDrop eagerProd k n s = run s ops) ∧
    (∃ ops, prodToQuiescence n s = run s ops ∧ ∀ op ∈ ops, op = Op.prod) :=
  ⟨runDrop_is_run eagerProd k n s, prodToQuiescence_is_run n s⟩

/-! ### early drop -/

/-- The producer is never more than two pages ahead of the consumer (one page in the channel, one held
by the blocked `send`). -/
theorem prefetch_bound (pages : List Page) (faults : List Attempt) (ops : List Op)
    (hrx : (run (init pages faults) ops).rx ≠ .dropped) :
    (run (init pages faults) ops).served ≤ (run (init pages faults) ops).taken + 2 := by
  have inv := inv_reachable pages faults ops
  have h := inv.c.taken_eq hrx
  have h1 : chanPages (run (init pages faults) ops).chan ≤ 1 := by unfold chanPages; repeat' split <;> simp
  have h2 : pcPages (run (init pages faults) ops).pc ≤ 1 := by unfold pcPages; repeat' split <;> simp
  omega

/-- Dropping the pager stops the producer: whatever is scheduled after the drop, nothing is delivered or
put into the channel any more; the producer finishes at most the page request it is busy with (all its
attempts are for that one page, `a.served`), so at most one more page is served and no later page is
ever asked for. -/
theorem early_drop_stops_producer (pages : List Page) (faults : List Attempt) (ops more : List Op)
    (a b : St) (ha : a = run (init pages faults) ops) (hb : b = run a (Op.drop :: more))
    (hrx : a.rx = .alive) :
    b.rx = .dropped ∧ b.delivered = a.delivered ∧ b.chan = none ∧
    b.served ≤ a.served + 1 ∧ b.served ≤ a.taken + 3 ∧
    (∀ e ∈ b.log, e ∈ a.log ∨ e.1 = a.served) := by
  have inv := inv_reachable pages faults ops
  have hpre := prefetch_bound pages faults ops (by rw [← ha]; simp [hrx])
  rw [← ha] at inv hpre
  have hd : Dropped a b := by
    rw [hb]; exact dropped_run (dropped_of_drop inv.c hrx) more
  have hserved : b.served ≤ a.served + 1 := by
    rcases hd.served with h | h
    · rw [h.2.2]; omega
    · have := h.2; split at this <;> omega
  exact ⟨hd.rx, hd.delivered, hd.chan, hserved, by omega, hd.log⟩

example :
    let a := run (init [([0], some [1]), ([1], some [2]), ([2], some [3]), ([3], some [4]), ([4], none)] [])
      [Op.prod, .prod, .prod, .prod, .prod, .prod, .poll]
    let b := run a (Op.drop :: (List.replicate 10 Op.prod))
    a.rx = .alive ∧ a.served = 3 ∧ b.served = 3 ∧ b.delivered = [0] ∧ b.pc = .done := by decide

/-- ... and the producer FINISHES: after the drop, `measure a` (at most `measure (init ..)`) of its own
steps bring it to `done` (polls and further drops are no-ops on a dropped pager), i.e. the task returns
and releases the connection - whatever it was doing (fetching with retries ahead, blocked in `send`). -/
theorem producer_finishes_after_drop (pages : List Page) (faults : List Attempt) (ops : List Op) (n : Nat)
    (hrx : (run (init pages faults) ops).rx = .alive)
    (hn : faults.length + 5 * pages.length + todoRows pages + 7 ≤ n) :
    (run (run (init pages faults) ops) (Op.drop :: List.replicate n Op.prod)).pc = .done := by
  have inv := inv_reachable pages faults ops
  have hd := dropped_of_drop inv.c hrx
  have hm : Pager.measure (stepDrop (run (init pages faults) ops)) ≤ n := by
    have h1 := measure_run_le (ops ++ [Op.drop]) (init pages faults)
    rw [run_append, measure_init] at h1
    exact Nat.le_trans h1 hn
  exact drop_prod_finishes n _ hd.rx hd.not_first hm

/-! ### the single-connection pager (`Connection::execute_iter`) never ignores an error -/

theorem connAttempts_no_ignore (b : Bool) (cs : List Char) : Attempt.ignore ∉ connAttempts b cs := by
  fun_induction connAttempts b cs <;> simp_all

/-- For the single-connection pager (fallthrough retry policy; the only re-sent request is the EXECUTE
after a transparent re-prepare) the completeness statement needs no side condition: a stream that ended
without an error has yielded every row, for every page script and per-page server fault list. -/
theorem conn_rows_exact (pages : List Page) (pageFaults : List (List Char)) (ops : List Op)
    (hrx : (run (init pages (pageFaults.map (connAttempts false)).flatten) ops).rx = .alive)
    (hend : (run (init pages (pageFaults.map (connAttempts false)).flatten) ops).ended = true)
    (herr : (run (init pages (pageFaults.map (connAttempts false)).flatten) ops).errs = []) :
    (run (init pages (pageFaults.map (connAttempts false)).flatten) ops).delivered = servedRows pages := by
  refine rows_exact pages _ ops ?_ hrx hend herr
  simp only [List.mem_flatten, List.mem_map, not_exists, not_and]
  intro l hl hmem
  obtain ⟨x, _, hx⟩ := hl
  subst hx
  exact connAttempts_no_ignore false x hmem

/-! ### what `IgnoreWriteError` does to a paged read (session-level pagers)

`query_remaining_pages` (pager.rs 220-226) returns silently when the retry policy answers
`IgnoreWriteError`: the sender is dropped without an error item, so the stream ends with `None` as if it
were complete. The full statement "a non-retried failure surfaces as an error" is therefore FALSE of the
session-level pagers for that decision; `rows_exact` excludes it by hypothesis and this theorem exhibits
the truncation. (Reachable only if the retry policy returns `IgnoreWriteError` for a page request, e.g.
`DowngradingConsistencyRetryPolicy` on a `WriteTimeout`/`UnloggedBatch` error sent in answer to a read -
not by a well-behaved server, and never by the single-connection pager.) -/
theorem ignore_truncates_silently :
    ∃ pages faults ops, (run (init pages faults) ops).ended = true ∧ (run (init pages faults) ops).errs = [] ∧
      (run (init pages faults) ops).rx = .alive ∧ (run (init pages faults) ops).delivered ≠ servedRows pages :=
  ⟨[([0], some [1]), ([1], none)], [.ok, .ignore], [.prod, .prod, .poll, .poll], by decide⟩

/-! ### constructor paths: failure before the first fetch, failure / cancellation of the first fetch -/

/-- `PartitionKeyError` (the constructor fails before the first fetch): under every schedule nothing is
ever sent, delivered or built. -/
theorem partition_key_error_sends_nothing (pages : List Page) (faults : List Attempt) (e : String)
    (ops : List Op) : run (initFailed pages faults e) ops = initFailed pages faults e := by
  induction ops with
  | nil => rfl
  | cons op ops ih =>
    have : step (initFailed pages faults e) op = initFailed pages faults e := by
      cases op <;> simp [step, stepProd, stepPoll, stepDrop, initFailed]
    rw [run_cons, this]; exact ih

/-- Once the constructor has failed - the first fetch failed for good, the session's `USE` after a
SetKeyspace first response failed, or the caller dropped the constructor future while the first response
was outstanding (all three are a final failure of the first attempt for the page loop) - no request is
ever sent again and nothing is ever delivered: no pager, no background task. -/
theorem constructor_failure_sends_nothing_more (pages : List Page) (faults : List Attempt) (ops more : List Op)
    (h : (run (init pages faults) ops).ctorErr.isSome = true) :
    (run (run (init pages faults) ops) more).log = (run (init pages faults) ops).log ∧
    (run (run (init pages faults) ops) more).delivered = [] ∧
    (run (run (init pages faults) ops) more).errs = (run (init pages faults) ops).errs := by
  have inv := inv_reachable pages faults ops
  generalize run (init pages faults) ops = s at *
  have hc := inv.c.ctor h
  have hu := inv.c.unbuilt hc.1
  have hq := quiet_run (s0 := s) ⟨hc.2, hu.2.2.2.1, hu.2.2.1, rfl, rfl, rfl⟩ more
  exact ⟨hq.log, by rw [hq.delivered]; exact hu.2.1, hq.errs⟩

example :
    let s := run (init [([0, 1], some [1]), ([2], none)] (connAttempts false ['u', 'X']))
      (List.replicate 6 [Op.prod, Op.poll]).flatten
    s.ctorErr = some "Cancelled" ∧ s.log = [(0, none), (0, none)] ∧ s.delivered = [] := by decide

/-! ### C07 × C06: page fetches through the execution core; which node every request goes to

One page fetch is one run of the request-execution core - `Exec.run`, C06's model of
`run_request_no_side_effects` - over the plan "previous coordinator, then the load-balancing plan without
it" (`PagerExec.pagePlan`, pager.rs 337-365). `PagerExec.fetches` is the sequence of these runs for one
iteration: the load-balancing plans `lbs` (one per page, arbitrary duplicate-free node lists), for every
page which pools yield a connection at which `get_connection()` call (C06's call-indexed targets: a node
whose pool is empty is skipped without a request) and the outcomes of the attempts are the inputs; the
coordinator of each completed fetch heads the next plan. The
theorems below are about THESE traces (not about arbitrary `Trace` records): `tableNodes` / `tablePages`
list, for every request of the iteration in order, the node it goes to and the page it asks for. -/

section failover
open ScyllaVerif.PagerExec
variable (pol : ScyllaVerif.Retry.Policy) (idem : Bool) (cl : ScyllaVerif.Retry.Consistency)
variable (lbs : List (List Nat × (Nat → ScyllaVerif.Exec.Target) × (Nat → ScyllaVerif.Exec.Outcome)))

/-- The request log of the pager IS the request table of the execution-core runs: the `i`-th request on
the wire - which the execution core sends to node `(tableNodes fs)[i]` - asks for page
`(tablePages 0 fs)[i]` and carries the paging state returned with the page before it, under every
schedule. In particular a request that fails over to another node carries the same state as the attempt
before it (same page index) - also when the previous coordinator's pool yields no connection and the
fetch starts on another node: only some node of every plan has to yield a connection. -/
theorem request_log_matches_table (pages : List Page) (ops : List Op)
    (hne : ∀ p ∈ lbs, ∃ n ∈ p.1, p.2.1 n 0 = true) :
    let fs := fetches pol idem cl none lbs
    let s := run (init pages (pageFaults (fs.map Fetch.trace))) ops
    ∀ i (h1 : i < s.log.length) (h2 : i < (tablePages 0 fs).length),
      (s.log[i]).1 = (tablePages 0 fs)[i] ∧ (s.log[i]).2 = stateBefore pages (tablePages 0 fs)[i] := by
  intro fs s i h1 h2
  have hwf : WF fs := fetches_wf pol idem cl lbs none hne
  have hn := ninv_run (ninv_init pages (pageFaults (fs.map Fetch.trace))) ops
  have hidx := hn.idx i h1
  have hlen : i ≤ (pageFaults (fs.map Fetch.trace)).length := by
    rw [pageFaults_length fs hwf, ← tablePages_length 0 fs]; omega
  have hpage : (s.log[i]).1 = (tablePages 0 fs)[i] := by
    rw [hidx, okBefore_eq_count _ i hlen, table_page_is_ok_count fs hwf 0 i h2]; simp
  refine ⟨hpage, ?_⟩
  rw [← hpage]
  exact paging_state_chain pages _ ops _ (List.getElem_mem h1)

/-- Coordinator stability (pager.rs `stable_coordinator`, 337-365, 392, 482): along the fetches of an
iteration every fetch but the last completed, and the FIRST request of the next page's fetch goes to the
node that completed the previous page - whatever the load-balancing policy returned for that page (all
pools yielding connections; for a coordinator whose pool is empty see `dead_coordinator_is_skipped`). -/
theorem first_request_goes_to_previous_coordinator (hall : ∀ p ∈ lbs, ∀ n j, p.2.1 n j = true) :
    Stable (fetches pol idem cl none lbs) :=
  fetches_stable pol idem cl lbs none hall

/-- Within one page fetch (all pools yielding connections): the first request goes to the head of the
plan; after a `RetrySameTarget` decision the next request goes to the SAME node, after `RetryNextTarget`
to a DIFFERENT node. -/
theorem retry_goes_to_the_right_node (hall : ∀ p ∈ lbs, ∀ n j, p.2.1 n j = true) (hne : ∀ p ∈ lbs, p.1 ≠ [])
    (hnd : ∀ p ∈ lbs, p.1.Nodup) :
    ∀ f ∈ fetches pol idem cl none lbs,
      f.nodes.head? = some (f.plan.getD 0 0) ∧ NodesChained f.nodes f.trace.decisions := by
  intro f hf
  obtain ⟨c, lb, av, outs, hm, rfl⟩ := fetches_mem pol idem cl lbs none f hf
  have hplan : pagePlan c lb ≠ [] := by
    have := hne _ hm
    cases c <;> simp [pagePlan, this]
  exact fetch_nodes pol idem cl (pagePlan c lb) av (hall _ hm) outs (pagePlan_nodup c lb (hnd _ hm)) hplan

/-- ... and more than "different from the previous one": whatever pools refuse a connection, once a
next-target decision has left a node, NO later request of that fetch goes to it - the nodes reached by
next-target hops of one fetch are pairwise different. -/
theorem next_target_hops_never_return (hnd : ∀ p ∈ lbs, p.1.Nodup) :
    ∀ f ∈ fetches pol idem cl none lbs, NodesNoReturn f.nodes f.trace.decisions := by
  intro f hf
  obtain ⟨c, lb, av, outs, hm, rfl⟩ := fetches_mem pol idem cl lbs none f hf
  exact fetch_no_return pol idem cl (pagePlan c lb) av outs (pagePlan_nodup c lb (hnd _ hm))

/-- The previous coordinator died between two pages (its pool yields no connection): the fetch of the next
page skips it without a request and its first request goes to the next node of the plan - carrying, by
`request_log_matches_table`, the paging state of the page before, NOT the start state. -/
theorem dead_coordinator_is_skipped (c n1 : Nat) (lb : List Nat) (av : Nat → ScyllaVerif.Exec.Target)
    (outs : Nat → ScyllaVerif.Exec.Outcome) (hdead : av c 0 = false) (hlive : av n1 0 = true)
    (hplan : pagePlan (some c) lb = c :: n1 :: (pagePlan (some c) lb).drop 2) :
    (⟨pagePlan (some c) lb, ScyllaVerif.Exec.run pol idem cl ((pagePlan (some c) lb).map av) outs⟩ : Fetch).nodes.head?
      = some n1 := by
  rw [hplan]
  exact PagerExec.dead_coordinator_is_skipped pol idem cl c n1 _ av outs hdead hlive

/-- Every fetch whose plan contains a node whose pool yields a connection sends at least one request
(refusing nodes before it are skipped without a request), and the number of
attempt outcomes the page loop sees is the number of requests. -/
theorem every_fetch_sends_a_request (hne : ∀ p ∈ lbs, ∃ n ∈ p.1, p.2.1 n 0 = true) :
    (∀ f ∈ fetches pol idem cl none lbs, f.trace.attempts ≠ []) ∧
    (pageFaults ((fetches pol idem cl none lbs).map Fetch.trace)).length
      = (tableNodes (fetches pol idem cl none lbs)).length :=
  ⟨fetches_send pol idem cl lbs none hne, pageFaults_length _ (fetches_wf pol idem cl lbs none hne)⟩

/-- Node switches lose nothing: if every fetch of the iteration completed on some node - after however
many failovers - the stream yields exactly all rows, in order, once, and ends. -/
theorem failover_loses_nothing (pages : List Page) (n : Nat)
    (hc : ∀ f ∈ fetches pol idem cl none lbs, ∃ t, f.trace.final = .completed t)
    (hn : (pageFaults ((fetches pol idem cl none lbs).map Fetch.trace)).length + 5 * pages.length
      + todoRows pages + 7 ≤ n) :
    (runEager n (init pages (pageFaults ((fetches pol idem cl none lbs).map Fetch.trace)))).delivered
      = servedRows pages ∧
    (runEager n (init pages (pageFaults ((fetches pol idem cl none lbs).map Fetch.trace)))).ended = true ∧
    (runEager n (init pages (pageFaults ((fetches pol idem cl none lbs).map Fetch.trace)))).errs = [] := by
  have hf : ∀ a ∈ pageFaults ((fetches pol idem cl none lbs).map Fetch.trace), a = Attempt.ok ∨ a = Attempt.retry := by
    intro a ha
    simp only [pageFaults, List.mem_flatten, List.mem_map] at ha
    obtain ⟨l, ⟨tr, ⟨f, hfm, rfl⟩, rfl⟩, hal⟩ := ha
    obtain ⟨t, ht⟩ := hc f hfm
    simp only [attemptsOfTrace, ht, lastOf] at hal
    rcases List.mem_append.mp hal with h | h
    · right; exact (List.mem_replicate.mp h).2
    · left; simpa using h
  have := retries_lose_nothing pages _ n hf hn
  exact ⟨this.1, this.2.1, this.2.2.1⟩

end failover

/-- Non-vacuity, on a 3-node cluster with the default retry policy, idempotent statement: page 0 is
answered `Overloaded` by node 0 and served by node 1; page 1 is first asked of node 1 (coordinator
stability), answered `IsBootstrapping`, then a digest-only read timeout on node 0 is retried on node 0;
page 2 goes to node 0 first. -/
example :
    let fs := ScyllaVerif.PagerExec.clusterFetches 3 true [['o'], ['b', 'R'], []]
    ScyllaVerif.PagerExec.tableNodes fs = [0, 1, 1, 0, 0, 0] ∧
    ScyllaVerif.PagerExec.tablePages 0 fs = [0, 0, 1, 1, 1, 2] ∧
    fs.map ScyllaVerif.PagerExec.Fetch.coordinator = [some 1, some 0, some 0] := by decide

/-- Non-vacuity for a dead coordinator: node 0 serves page 0 and then loses its connections; the fetch of
page 1 has the plan `[0, 1, 2]`, skips node 0 without a request and is served by node 1, which is the
coordinator for page 2. -/
example :
    let fs := ScyllaVerif.PagerExec.fetches .default true .localQuorum none
      [([0, 1, 2], (fun _ => ScyllaVerif.Exec.Target.always), fun _ => .ok),
       ([0, 1, 2], (fun n => if n = 0 then ScyllaVerif.Exec.Target.never else ScyllaVerif.Exec.Target.always), fun _ => .ok),
       ([2, 0, 1], (fun n => if n = 0 then ScyllaVerif.Exec.Target.never else ScyllaVerif.Exec.Target.always), fun _ => .ok)]
    ScyllaVerif.PagerExec.tableNodes fs = [0, 1, 1] ∧ ScyllaVerif.PagerExec.tablePages 0 fs = [0, 1, 2] ∧
    ScyllaVerif.PagerExec.pageFaults (fs.map (·.trace)) = [.ok, .ok, .ok] := by decide

example :
    ScyllaVerif.PagerExec.attemptsOfTrace (ScyllaVerif.PagerExec.clusterFetch 2 true ['o']) = [.retry, .ok] ∧
    ScyllaVerif.PagerExec.attemptsOfTrace (ScyllaVerif.PagerExec.clusterFetch 2 false ['o']) = [.fail "DbError:4097"] ∧
    ScyllaVerif.PagerExec.attemptsOfTrace (ScyllaVerif.PagerExec.clusterFetch 2 true ['o', 'o']) = [.retry, .fail "DbError:4097"] := by
  decide

example :
    (runEager 60 (init [([0], some [1]), ([1], some [2]), ([2], none)]
      (ScyllaVerif.PagerExec.clusterAttempts 3 true [['o'], ['b', 'R'], ['U']]))).delivered = [0, 1, 2] := by
  decide

/-! ### wake-ups: a consumer that returned `Pending` is woken again

`Model/PagerWake.lean` adds to the transition system who wakes the consumer task: a poll happens only when
the task is runnable; `poll_recv` registers the receiver's waker exactly when it returns `Pending`; a
`send` / the drop of the `Sender` wakes a registered receiver; `poll_fill_page` wakes its own task before it
returns `Pending` after an EMPTY page (pager.rs 761). -/

section wake
open ScyllaVerif.PagerWake

/-- Every wake-aware execution is an execution of the plain transition system (for a sub-schedule), so all
theorems above hold for it. -/
theorem wake_aware_executions_are_executions (sw : Bool) (pages : List Page) (faults : List Attempt)
    (ops : List Op) : ∃ ops', (runW sw (initW pages faults) ops).s = run (init pages faults) ops' :=
  runW_is_run sw ops (initW pages faults)

/-- NO LOST WAKE-UP: in every reachable state, a consumer task that is not runnable (its last poll returned
`Pending`) - the pager alive, the stream not ended - has its waker REGISTERED in the channel, has nothing
to consume (current page used up, channel empty) and the producer has not finished: so the producer's next
`send`, or its return, wakes it. A `Pending` without a registered wake-up is not reachable. -/
theorem no_lost_wakeup (pages : List Page) (faults : List Attempt) (ops : List Op)
    (hrx : (runW true (initW pages faults) ops).s.rx = .alive)
    (hend : (runW true (initW pages faults) ops).s.ended = false)
    (hw : (runW true (initW pages faults) ops).woken = false) :
    (runW true (initW pages faults) ops).registered = true ∧
    (runW true (initW pages faults) ops).s.cur = [] ∧ (runW true (initW pages faults) ops).s.chan = none ∧
    (runW true (initW pages faults) ops).s.pc ≠ .done :=
  (reachableW pages faults ops).2.asleep hrx hend hw

/-- Wake-aware termination: when the consumer is polled ONLY when woken (a bare `next().await` loop, no
other wake source), scheduling producer and consumer task in turn still ends the stream within
`measure (init ..)` rounds - after empty pages too - and an error-free run has then yielded everything. -/
theorem bare_consumer_terminates (pages : List Page) (faults : List Attempt) (n : Nat)
    (hn : faults.length + 5 * pages.length + todoRows pages + 7 ≤ n) :
    (runEagerW true n (initW pages faults)).s.ended = true ∨
    (runEagerW true n (initW pages faults)).s.ctorErr.isSome = true :=
  runEagerW_ends n (initW pages faults) (inv_init pages faults) (uinv_init pages faults)
    (winv_init pages faults) (by simp [initW, init]) (by
      have : (initW pages faults).s = init pages faults := rfl
      rw [this, measure_init]; exact hn)

theorem bare_consumer_gets_everything (pages : List Page) (faults : List Attempt) (n : Nat)
    (hn : faults.length + 5 * pages.length + todoRows pages + 7 ≤ n)
    (hf : ∀ a ∈ faults, a = Attempt.ok ∨ a = Attempt.retry) :
    (runEagerW true n (initW pages faults)).s.delivered = servedRows pages := by
  obtain ⟨ops, hops, hnd⟩ := runEagerW_is_run true n (initW pages faults)
  have hinit : (initW pages faults).s = init pages faults := rfl
  rw [hinit] at hops
  have hnf : ∀ e, Attempt.fail e ∉ faults := by
    intro e he; rcases hf _ he with h | h <;> simp at h
  have hig : Attempt.ignore ∉ faults := by
    intro he; rcases hf _ he with h | h <;> simp at h
  have hne := no_spurious_error pages faults ops hnf
  have hend := bare_consumer_terminates pages faults n hn
  rw [hops] at hend ⊢
  have hend' : (run (init pages faults) ops).ended = true := by
    rcases hend with h | h
    · exact h
    · simp [hne.2] at h
  have inv := inv_reachable pages faults ops
  have halive : (run (init pages faults) ops).rx = .alive := by
    cases hr : (run (init pages faults) ops).rx with
    | alive => rfl
    | unbuilt => have := (inv.c.unbuilt hr).2.2.2.2.2.1; simp [hend'] at this
    | dropped => exact absurd hr (run_no_drop_rx ops _ hnd (by simp [init]))
  exact rows_exact pages faults ops hig halive hend' hne.1

/-- WITHOUT the self-wake after an empty page (the model's `selfWake = false`, i.e. pager.rs 761 removed):
there is a script - a non-first empty page followed by rows - on which the consumer task ends up neither
runnable nor registered with rows still to come; and from such a state NOTHING is ever delivered again
and the stream never ends, whatever the producer does (`stuck_forever`). -/
theorem missing_self_wake_loses_the_wakeup :
    ∃ pages faults ops,
      let x := runW false (initW pages faults) ops
      x.s.rx = .alive ∧ x.s.ended = false ∧ x.woken = false ∧ x.registered = false ∧
      x.s.delivered ≠ servedRows pages ∧
      ∀ more, (runW false x more).s.delivered = x.s.delivered ∧ (runW false x more).s.ended = false := by
  refine ⟨[([0], some [1]), ([], some [2]), ([1], none)], [],
    [.prod, .poll, .prod, .prod, .poll], ?_⟩
  have h : (runW false (initW [([0], some [1]), ([], some [2]), ([1], none)] [])
      [Op.prod, .poll, .prod, .prod, .poll]).woken = false ∧
      (runW false (initW [([0], some [1]), ([], some [2]), ([1], none)] [])
      [Op.prod, .poll, .prod, .prod, .poll]).registered = false := by decide
  refine ⟨by decide, by decide, h.1, h.2, by decide, ?_⟩
  intro more
  have := stuck_forever false more _ h.1 h.2
  exact ⟨this.2.2.1, by rw [this.2.2.2.1]; decide⟩

/-- The same script with the self-wake: the bare consumer gets every row. -/
example : (runEagerW true 40 (initW [([0], some [1]), ([], some [2]), ([1], none)] [])).s.delivered = [0, 1] ∧
    (runEagerW false 40 (initW [([0], some [1]), ([], some [2]), ([1], none)] [])).s.delivered = [0] := by
  decide

end wake

end ScyllaVerif.Props.C07

/-
C05 — default load-balancing plans are complete, duplicate-free and correctly ordered.
Property theorems only (helpers are `private` or live in `Proofs/Plan.lean`).
Model: `Model/Plan.lean` (on top of the C04 models `Model/Ring.lean`, `Model/Replicas.lean`).

Every theorem quantifies over all clusters (ring, placement, keyspace strategies, per-node enabled / connected),
all policy configurations (token awareness, location preference of the policy or inherited from the request,
failover), all requests (token or none, table / keyspace known or not, LWT flag, consistency, request-level
preference) and ALL random choices `ρp : RhoPick` (of `pick`), `ρf : RhoFb` (of `fallback`).
Latency awareness is off (not modelled).  Hypothesis `WF cl` (where stated): the locator is what
`ReplicaLocator::new` builds (ring sorted by token), keyspace NTS maps have distinct keys (they are `HashMap`s) and
ring nodes with the same host id are the same node (`known_nodes` is keyed by host id).
-/
import ScyllaVerif.Model.Plan
import ScyllaVerif.Proofs.Ring
import ScyllaVerif.Proofs.Replicas
import ScyllaVerif.Proofs.Plan
import ScyllaVerif.Props.C04
import ScyllaVerif.Drive.C05

namespace ScyllaVerif.Props.C05
open ScyllaVerif.Ring ScyllaVerif.Replicas ScyllaVerif.Plan
open ScyllaVerif.Proofs.Ring ScyllaVerif.Proofs.Replicas ScyllaVerif.Proofs.Plan

/-! ### well-formed clusters, the order classes stated outright -/

/-- What `ClusterState::new` guarantees about the data the policy reads. -/
structure WF (cl : Cluster) : Prop where
  locator : ∃ r S, Sorted r ∧ cl.loc = C04.locOf r S
  ntsKeys : ∀ repf, Strategy.nts repf ∈ cl.keyspaces → (repf.map (·.1)).Nodup
  distinctIds : ∀ a ∈ allNodes cl, ∀ b ∈ allNodes cl, a.id = b.id → a = b

/-- `(node, Some(shard))` or `(node, None)`. -/
def mk (cl : Cluster) (sharded? : Bool) (n : Node) : Target := if sharded? then sharded cl n else shardless n

/-- The eight chained groups of `fallback`, described without the random choices: does the group supply a shard,
and which nodes are in it. -/
def groupPreds (cl : Cluster) (cfg : Config) (rq : Request) : List (Bool × (Node → Bool)) :=
  let pref := preference cfg rq
  let lwt := rq.routeAsLwt
  let fp := failoverPossible cfg rq
  let ts := tokenWithStrategy cl cfg rq
  let locals := localNodes cl pref
  let all := allNodes cl
  [ (true, fun n => match ts, pref with
      | some ts, .dcRack d r => decide (n ∈ filteredReplicas cl ts (.dcRack d r) lwt)
      | _, _ => false),
    (true, fun n => match ts, pref.datacenter with
      | some ts, some d => decide (n ∈ filteredReplicas cl ts (.dc d) lwt)
      | _, _ => false),
    (true, fun n => match ts with
      | some ts => (pref.datacenter.isNone || fp) && decide (n ∈ filteredReplicas cl ts .any lwt)
      | none => false),
    (false, fun n => match pref with
      | .dcRack _ r => decide (n ∈ locals) && (cl.alive n && n.rack == some r)
      | _ => false),
    (false, fun n => decide (n ∈ locals) && cl.alive n),
    (false, fun n => fp && (decide (n ∈ all) && cl.alive n)),
    (false, fun n => decide (n ∈ locals) && cl.enabled n),
    (false, fun n => fp && (decide (n ∈ all) && cl.enabled n)) ]

/-- Index of the first predicate that holds (the number of predicates if none does). -/
def classIdx : List (Bool × (Node → Bool)) → Node → Nat
  | [], _ => 0
  | (_, p) :: ps, n => if p n then 0 else classIdx ps n + 1

/-- **Order class of a node** for a cluster, configuration and request:
0 live local-rack replica, 1 live local-datacenter replica, 2 live replica (any datacenter; only when no datacenter
is preferred or failover is permitted), 3 live local-rack node, 4 live local node (every node when no datacenter is
preferred), 5 live node of any datacenter (failover), 6 enabled local node believed down, 7 enabled node of any
datacenter believed down (failover), 8 not in the plan. -/
def classOf (cl : Cluster) (cfg : Config) (rq : Request) (n : Node) : Nat := classIdx (groupPreds cl cfg rq) n

/-- A list of groups is described by a list of (shard?, membership) pairs. -/
def Describes (cl : Cluster) : List (List Target) → List (Bool × (Node → Bool)) → Prop
  | [], [] => True
  | g :: gs, (b, p) :: ps => (∀ t, t ∈ g ↔ (t = mk cl b t.1 ∧ p t.1 = true)) ∧ Describes cl gs ps
  | _, _ => False

/-! ### helpers: the groups of `fallback` are described by `groupPreds`, whatever the random choices -/

private theorem mem_map_mk (cl : Cluster) (b : Bool) (L : List Node) (t : Target) :
    t ∈ L.map (mk cl b) ↔ (t = mk cl b t.1 ∧ t.1 ∈ L) := by
  have hfst : ∀ n, (mk cl b n).1 = n := by intro n; unfold mk sharded shardless; split <;> rfl
  constructor
  · intro h
    obtain ⟨n, hn, rfl⟩ := List.mem_map.mp h
    rw [hfst]; exact ⟨rfl, hn⟩
  · rintro ⟨h1, h2⟩
    exact List.mem_map.mpr ⟨t.1, h2, h1.symm⟩

private theorem mem_replicaTargets (cl : Cluster) (ts : Strategy × Int) (crit : Pref) (lwt : Bool) (shuf : List Nat)
    (t : Target) :
    t ∈ replicaTargets cl ts crit lwt shuf ↔ (t = mk cl true t.1 ∧ t.1 ∈ filteredReplicas cl ts crit lwt) := by
  have : replicaTargets cl ts crit lwt shuf =
      (if lwt then filteredReplicas cl ts crit lwt else shuffleWith shuf (filteredReplicas cl ts crit lwt)).map (mk cl true) := rfl
  rw [this, mem_map_mk]
  split
  · rfl
  · rw [(shuffleWith_perm shuf _).mem_iff]

private theorem mem_roundRobin_map (cl : Cluster) (nodes : List Node) (p : Node → Bool) (rot : Nat) (t : Target) :
    t ∈ (roundRobin nodes p rot).map shardless ↔ (t = mk cl false t.1 ∧ (t.1 ∈ nodes ∧ p t.1 = true)) := by
  have : (roundRobin nodes p rot).map shardless = (roundRobin nodes p rot).map (mk cl false) := rfl
  rw [this, mem_map_mk, (roundRobin_perm nodes p rot).mem_iff, List.mem_filter]

private theorem mem_filter_map (cl : Cluster) (nodes : List Node) (p : Node → Bool) (t : Target) :
    t ∈ (nodes.filter p).map shardless ↔ (t = mk cl false t.1 ∧ (t.1 ∈ nodes ∧ p t.1 = true)) := by
  have : (nodes.filter p).map shardless = (nodes.filter p).map (mk cl false) := rfl
  rw [this, mem_map_mk, List.mem_filter]

/-- Whatever the random choices, the groups of `fallback` are the groups `groupPreds` describes. -/
theorem groups_described (cl : Cluster) (cfg : Config) (rq : Request) (ρ : RhoFb) :
    Describes cl (fallbackGroups cl cfg rq ρ) (groupPreds cl cfg rq) := by
  unfold fallbackGroups groupPreds
  simp only [Describes, and_true]
  refine ⟨?_, ?_, ?_, ?_, ?_, ?_, ?_, ?_⟩
  · intro t
    cases tokenWithStrategy cl cfg rq with
    | none => simp
    | some ts => cases preference cfg rq <;> simp [mem_replicaTargets]
  · intro t
    cases tokenWithStrategy cl cfg rq with
    | none => simp
    | some ts => cases (preference cfg rq).datacenter <;> simp [mem_replicaTargets]
  · intro t
    cases tokenWithStrategy cl cfg rq with
    | none => simp
    | some ts =>
      simp only []
      split
      · rename_i h; simp [mem_replicaTargets, h]
      · rename_i h; simp [h]
  · intro t
    cases preference cfg rq <;> simp [mem_roundRobin_map cl]
  · intro t
    simp [mem_roundRobin_map cl]
  · intro t
    split
    · rename_i h; simp [mem_roundRobin_map cl, h]
    · rename_i h; simp [h]
  · intro t
    simp [mem_filter_map cl]
  · intro t
    split
    · rename_i h; simp [mem_filter_map cl, h]
    · rename_i h; simp [h]

/-! ### generic consequences of a description -/

private theorem mk_fst (cl : Cluster) (b : Bool) (n : Node) : (mk cl b n).1 = n := by
  unfold mk sharded shardless; split <;> rfl

private theorem mk_shardOK (cl : Cluster) (b : Bool) (n : Node) : ShardOK cl.sh (mk cl b n) := by
  unfold mk sharded shardless ShardOK; split <;> simp

private theorem describes_shardOK {cl : Cluster} {gs : List (List Target)} {ps : List (Bool × (Node → Bool))}
    (h : Describes cl gs ps) : ∀ t ∈ gs.flatten, ShardOK cl.sh t := by
  induction gs generalizing ps with
  | nil => simp
  | cons g gs ih =>
    cases ps with
    | nil => exact absurd h (by simp [Describes])
    | cons bp ps =>
      obtain ⟨b, p⟩ := bp
      obtain ⟨h1, h2⟩ := h
      intro t ht
      simp only [List.flatten_cons, List.mem_append] at ht
      rcases ht with ht | ht
      · rw [((h1 t).mp ht).1]; exact mk_shardOK cl b _
      · exact ih h2 t ht

private theorem describes_firstGroup {cl : Cluster} {gs : List (List Target)} {ps : List (Bool × (Node → Bool))}
    (h : Describes cl gs ps) (n : Node) : firstGroup gs n = classIdx ps n := by
  induction gs generalizing ps with
  | nil =>
    cases ps with
    | nil => rfl
    | cons bp ps => exact absurd h (by simp [Describes])
  | cons g gs ih =>
    cases ps with
    | nil => exact absurd h (by simp [Describes])
    | cons bp ps =>
      obtain ⟨b, p⟩ := bp
      obtain ⟨h1, h2⟩ := h
      simp only [firstGroup, classIdx]
      have : n ∈ g.map (·.1) ↔ p n = true := by
        constructor
        · intro hn
          obtain ⟨t, ht, rfl⟩ := List.mem_map.mp hn
          exact ((h1 t).mp ht).2
        · intro hp
          exact List.mem_map.mpr ⟨mk cl b n, (h1 _).mpr ⟨by rw [mk_fst], by rw [mk_fst]; exact hp⟩, mk_fst cl b n⟩
      by_cases hp : p n = true
      · rw [if_pos (this.mpr hp), if_pos hp]
      · rw [if_neg (fun hc => hp (this.mp hc)), if_neg hp, ih h2]

/-- Membership in the chain, without the random choices. -/
private theorem describes_mem {cl : Cluster} {gs : List (List Target)} {ps : List (Bool × (Node → Bool))}
    (h : Describes cl gs ps) (t : Target) :
    t ∈ gs.flatten ↔ ∃ bp ∈ ps, t = mk cl bp.1 t.1 ∧ bp.2 t.1 = true := by
  induction gs generalizing ps with
  | nil =>
    cases ps with
    | nil => simp
    | cons bp ps => exact absurd h (by simp [Describes])
  | cons g gs ih =>
    cases ps with
    | nil => exact absurd h (by simp [Describes])
    | cons bp ps =>
      obtain ⟨b, p⟩ := bp
      obtain ⟨h1, h2⟩ := h
      simp only [List.flatten_cons, List.mem_append, List.mem_cons, exists_eq_or_imp, h1 t, ih h2]

/-- `fallback` is the first-occurrence-per-host-id de-duplication of the chain. -/
theorem fallback_eq_dedup (cl : Cluster) (cfg : Config) (rq : Request) (ρ : RhoFb) :
    fallback cl cfg rq ρ = dedupFrom [] (fallbackGroups cl cfg rq ρ).flatten := by
  unfold fallback uniqueBy
  rw [uniqueByFrom_eq_dedupFrom (sh := cl.sh) [] _ (by simp) (describes_shardOK (groups_described cl cfg rq ρ))]
  rfl

/-- Members of `fallback`, without the random choices: a node of one of the eight groups, with the shard marking
of that group. -/
private theorem mem_fallback_groups {cl : Cluster} {cfg : Config} {rq : Request} {ρ : RhoFb} {t : Target}
    (h : t ∈ fallback cl cfg rq ρ) : ∃ bp ∈ groupPreds cl cfg rq, t = mk cl bp.1 t.1 ∧ bp.2 t.1 = true := by
  rw [fallback_eq_dedup] at h
  exact (describes_mem (groups_described cl cfg rq ρ) t).mp (mem_dedupFrom h).1

/-- Shape of a target of `fallback`: shard-less, or carrying `with_computed_shard` of its node. -/
theorem fallback_target_shape {cl : Cluster} {cfg : Config} {rq : Request} {ρ : RhoFb} {t : Target}
    (h : t ∈ fallback cl cfg rq ρ) : t.2 = none ∨ t.2 = some (cl.sh t.1.id) := by
  obtain ⟨bp, _, h1, _⟩ := mem_fallback_groups h
  rw [h1]; exact mk_shardOK cl bp.1 _

/-! ### properties of `fallback` -/

/-- No host id twice in what `fallback` yields. -/
theorem fallback_nodup (cl : Cluster) (cfg : Config) (rq : Request) (ρ : RhoFb) :
    ((fallback cl cfg rq ρ).map (·.1.id)).Nodup := by
  rw [fallback_eq_dedup]; exact dedupFrom_nodup _ _

/-- The class sequence of `fallback` is non-decreasing. -/
theorem fallback_order (cl : Cluster) (cfg : Config) (rq : Request) (ρ : RhoFb) :
    (fallback cl cfg rq ρ).Pairwise (fun a b => classOf cl cfg rq a.1 ≤ classOf cl cfg rq b.1) := by
  rw [fallback_eq_dedup]
  have := (dedup_flatten_sorted [] (fallbackGroups cl cfg rq ρ) [] (by simp)).1
  simp only [List.nil_append, describes_firstGroup (groups_described cl cfg rq ρ)] at this
  exact this

/-! ### what the members of the groups are -/

private theorem alive_enabled {cl : Cluster} {n : Node} (h : cl.alive n = true) : cl.enabled n = true := by
  unfold Cluster.alive at h
  exact (Bool.and_eq_true _ _ ▸ h).1

private theorem mem_filteredReplicas {cl : Cluster} {ts : Strategy × Int} {crit : Pref} {det : Bool} {n : Node}
    (h : n ∈ filteredReplicas cl ts crit det) :
    n ∈ (if det then (replicaSet cl ts crit).ordered cl.loc else (replicaSet cl ts crit).iter cl.loc) ∧
      cl.alive n = true ∧ rackOk crit n = true := by
  unfold filteredReplicas at h
  obtain ⟨h1, h2⟩ := List.mem_filter.mp h
  simp only [Bool.and_eq_true] at h2
  exact ⟨h1, h2.1, h2.2⟩

/-- A replica set restricted to a datacenter names only nodes of that datacenter (both views). -/
private theorem restricted_dc {cl : Cluster} (hwf : WF cl) (tok : Int) (strat : Strategy) (d : Nat) (det : Bool) {n : Node}
    (h : n ∈ (if det then (replicasForToken cl.loc tok strat (some d)).ordered cl.loc
              else (replicasForToken cl.loc tok strat (some d)).iter cl.loc)) : n.dc = some d := by
  obtain ⟨r, S, hs, hloc⟩ := hwf.locator
  have hfs : ∀ l : List Node, n ∈ (if det then (ReplicaSet.filteredSimple l d).ordered cl.loc
      else (ReplicaSet.filteredSimple l d).iter cl.loc) → n.dc = some d := by
    intro l hl
    have : n ∈ (ReplicaSet.filteredSimple l d).iter cl.loc := by
      cases det
      · simpa using hl
      · simpa [ReplicaSet.ordered] using hl
    simp only [ReplicaSet.iter, List.mem_filter, decide_eq_true_eq] at this
    exact this.2
  cases strat with
  | simple rf => exact hfs _ h
  | localStrategy => exact hfs _ h
  | other => exact hfs _ h
  | nts repf =>
    simp only [replicasForToken] at h
    cases hl : repf.lookup d with
    | none =>
      rw [hl] at h
      cases det <;> simp [ReplicaSet.ordered, ReplicaSet.iter] at h
    | some rf =>
      rw [hl] at h
      have : n ∈ getNts cl.loc tok d rf := by
        cases det
        · simpa [ReplicaSet.iter] using h
        · simpa [ReplicaSet.ordered, ReplicaSet.iter] using h
      rw [hloc, getNts_precompute hs] at this
      exact (mem_ntsReplicas this).1

private theorem mem_dcNodes_dc {r : Ring Node} {d : Nat} {n : Node} (h : n ∈ uniqueNodes (dcRing r d)) :
    n.dc = some d ∧ n ∈ uniqueNodes r := by
  unfold uniqueNodes at *
  rw [mem_uniq] at *
  obtain ⟨e, he, rfl⟩ := List.mem_map.mp h
  unfold dcRing at he
  obtain ⟨h1, h2⟩ := List.mem_filter.mp he
  exact ⟨by simpa using h2, List.mem_map.mpr ⟨e, h1, rfl⟩⟩

private theorem mem_dcNodes_of {r : Ring Node} {d : Nat} {n : Node} (h : n ∈ uniqueNodes r) (hd : n.dc = some d) :
    n ∈ uniqueNodes (dcRing r d) := by
  unfold uniqueNodes at *
  rw [mem_uniq] at *
  obtain ⟨e, he, rfl⟩ := List.mem_map.mp h
  exact List.mem_map.mpr ⟨e, by unfold dcRing; exact List.mem_filter.mpr ⟨he, by simpa using hd⟩, rfl⟩

/-- Every node of every group is enabled. -/
private theorem groupPreds_enabled {cl : Cluster} {cfg : Config} {rq : Request} {bp : Bool × (Node → Bool)} {n : Node}
    (hbp : bp ∈ groupPreds cl cfg rq) (h : bp.2 n = true) : cl.enabled n = true := by
  simp only [groupPreds, List.mem_cons, List.not_mem_nil, or_false] at hbp
  rcases hbp with rfl | rfl | rfl | rfl | rfl | rfl | rfl | rfl <;> simp only [] at h
  · split at h
    · exact alive_enabled (mem_filteredReplicas (of_decide_eq_true h)).2.1
    · cases h
  · split at h
    · exact alive_enabled (mem_filteredReplicas (of_decide_eq_true h)).2.1
    · cases h
  · split at h
    · simp only [Bool.and_eq_true] at h
      exact alive_enabled (mem_filteredReplicas (of_decide_eq_true h.2)).2.1
    · cases h
  · split at h
    · simp only [Bool.and_eq_true] at h
      exact alive_enabled h.2.1
    · cases h
  · simp only [Bool.and_eq_true] at h; exact alive_enabled h.2
  · simp only [Bool.and_eq_true] at h; exact alive_enabled h.2.2
  · simp only [Bool.and_eq_true] at h; exact h.2
  · simp only [Bool.and_eq_true] at h; exact h.2.2

/-- Without failover, every node of every group is in the preferred datacenter. -/
private theorem groupPreds_dc {cl : Cluster} (hwf : WF cl) {cfg : Config} {rq : Request} {d : Nat}
    (hfo : cfg.failover = false) (hd : (preference cfg rq).datacenter = some d)
    {bp : Bool × (Node → Bool)} {n : Node} (hbp : bp ∈ groupPreds cl cfg rq) (h : bp.2 n = true) : n.dc = some d := by
  have hfp : failoverPossible cfg rq = false := by unfold failoverPossible; rw [hfo]; simp
  have hloc : ∀ n, n ∈ localNodes cl (preference cfg rq) → n.dc = some d := by
    intro n hn
    unfold localNodes at hn
    rw [hd] at hn
    exact (mem_dcNodes_dc hn).1
  simp only [groupPreds, List.mem_cons, List.not_mem_nil, or_false, hfp] at hbp
  rcases hbp with rfl | rfl | rfl | rfl | rfl | rfl | rfl | rfl <;> simp only [] at h
  · split at h
    · rename_i ts d' r' _ hp
      have h1 := (mem_filteredReplicas (of_decide_eq_true h)).1
      have : d' = d := by rw [hp] at hd; simpa [Pref.datacenter] using hd
      subst this
      exact restricted_dc hwf ts.2 ts.1 d' _ h1
    · cases h
  · split at h
    · rename_i ts d' _ hp
      have h1 := (mem_filteredReplicas (of_decide_eq_true h)).1
      have : d' = d := by rw [hp] at hd; simpa using hd
      subst this
      exact restricted_dc hwf ts.2 ts.1 d' _ h1
    · cases h
  · split at h
    · simp [hd] at h
    · cases h
  · split at h
    · simp only [Bool.and_eq_true, decide_eq_true_eq] at h
      exact hloc n h.1
    · cases h
  · simp only [Bool.and_eq_true, decide_eq_true_eq] at h; exact hloc n h.1
  · simp at h
  · simp only [Bool.and_eq_true, decide_eq_true_eq] at h; exact hloc n h.1
  · simp at h

/-! ### `pick` answers a member of the first non-empty group -/

private theorem ts_mem_keyspaces {cl : Cluster} {cfg : Config} {rq : Request} {ts : Strategy × Int}
    (hts : tokenWithStrategy cl cfg rq = some ts) : ts.1 ∈ cl.keyspaces := by
  unfold tokenWithStrategy at hts
  split at hts
  · cases hts
  · split at hts
    · rename_i tok ks _ _
      cases hk : cl.keyspaces[ks]? with
      | none => rw [hk] at hts; cases hts
      | some s =>
        rw [hk] at hts
        simp only [Option.map_some, Option.some.injEq] at hts
        rw [← hts]
        exact List.mem_of_getElem? hk
    · cases hts

/-- The C04 facts about the views of the replica sets the policy consults. -/
private theorem views {cl : Cluster} (hwf : WF cl) {cfg : Config} {rq : Request} {ts : Strategy × Int}
    (hts : tokenWithStrategy cl cfg rq = some ts) (crit : Pref) :
    ((replicaSet cl ts crit).iter cl.loc).length = (replicaSet cl ts crit).len cl.loc ∧
      (∀ i, (replicaSet cl ts crit).choose cl.loc i = ((replicaSet cl ts crit).iter cl.loc)[i]?) ∧
      ((replicaSet cl ts crit).ordered cl.loc).Perm ((replicaSet cl ts crit).iter cl.loc) ∧
      (∀ n ∈ (replicaSet cl ts crit).ordered cl.loc, n ∈ allNodes cl) ∧
      ((replicaSet cl ts crit).ordered cl.loc).Sublist (uniq (ringRange cl.loc.ring ts.2)) := by
  obtain ⟨r, S, hs, hloc⟩ := hwf.locator
  have hk : ∀ repf, ts.1 = .nts repf → (repf.map (·.1)).Nodup :=
    fun repf h => hwf.ntsKeys repf (h ▸ ts_mem_keyspaces hts)
  have hv := C04.views_agree hs S ts.2 ts.1 hk crit.datacenter
  simp only [] at hv
  unfold replicaSet allNodes uniqueNodes
  rw [hloc]
  refine ⟨hv.1, hv.2.1, hv.2.2.1, ?_, hv.2.2.2⟩
  intro n hn
  have := hv.2.2.2.subset hn
  rw [mem_uniq, mem_ringRange] at this
  rw [mem_uniq]; exact this

private theorem shuffleWith_nil {α : Type} (ks : List Nat) : shuffleWith ks ([] : List α) = [] := by
  cases ks <;> rfl

private theorem getElem?_mod_none {α : Type} {l : List α} {j : Nat} (h : l[j % l.length]? = none) : l = [] := by
  cases l with
  | nil => rfl
  | cons a l =>
    have hlt : j % (a :: l).length < (a :: l).length := Nat.mod_lt _ (by simp)
    rw [List.getElem?_eq_none_iff] at h
    omega

private theorem pickReplica_computed {cl : Cluster} (hwf : WF cl) {cfg : Config} {rq : Request} {ts : Strategy × Int}
    (hts : tokenWithStrategy cl cfg rq = some ts) (crit : Pref) (lwt : Bool) (i j : Nat) {n : Node}
    (h : pickReplica cl ts crit lwt i j = some (.computed n)) : n ∈ filteredReplicas cl ts crit lwt := by
  unfold pickReplica at h
  cases lwt with
  | false =>
    simp only [Bool.false_eq_true, if_false, Option.map_eq_some_iff, Picked.computed.injEq, exists_eq_right] at h
    unfold pickRandomReplica chooseFiltered at h
    unfold filteredReplicas
    simp only [Bool.false_eq_true, if_false]
    split at h
    · cases h
    · rename_i happy hh
      split at h
      · rename_i hp
        simp only [Option.some.injEq] at h
        subst h
        rw [(views hwf hts crit).2.1] at hh
        exact List.mem_filter.mpr ⟨List.mem_of_getElem? hh, hp⟩
      · exact List.mem_of_getElem? h
  | true =>
    simp only [if_true] at h
    unfold pickFirstReplica at h
    cases crit with
    | any =>
      simp only [Option.map_eq_some_iff] at h
      obtain ⟨p, hp, hf⟩ := h
      split at hf
      · rename_i ha
        simp only [Picked.computed.injEq] at hf
        subst hf
        unfold filteredReplicas
        simp only [if_true]
        exact List.mem_filter.mpr ⟨List.mem_of_head? hp, by simp [ha, rackOk]⟩
      · cases hf
    | dc d =>
      simp only [Option.map_eq_some_iff, Picked.computed.injEq, exists_eq_right] at h
      exact List.mem_of_head? h
    | dcRack d r =>
      simp only [Option.map_eq_some_iff, Picked.computed.injEq, exists_eq_right] at h
      exact List.mem_of_head? h

private theorem pickReplica_none {cl : Cluster} (hwf : WF cl) {cfg : Config} {rq : Request} {ts : Strategy × Int}
    (hts : tokenWithStrategy cl cfg rq = some ts) (crit : Pref) (lwt : Bool) (i j : Nat)
    (h : pickReplica cl ts crit lwt i j = none) : filteredReplicas cl ts crit lwt = [] := by
  unfold pickReplica at h
  cases lwt with
  | false =>
    simp only [Bool.false_eq_true, if_false, Option.map_eq_none_iff] at h
    unfold pickRandomReplica chooseFiltered at h
    unfold filteredReplicas
    simp only [Bool.false_eq_true, if_false]
    split at h
    · rename_i hh
      rw [(views hwf hts crit).2.1, ← (views hwf hts crit).1] at hh
      rw [getElem?_mod_none hh]; rfl
    · split at h
      · cases h
      · exact getElem?_mod_none h
  | true =>
    simp only [if_true] at h
    unfold pickFirstReplica at h
    cases crit with
    | any =>
      simp only [Option.map_eq_none_iff, List.head?_eq_none_iff] at h
      unfold filteredReplicas
      simp only [if_true, h]; rfl
    | dc d =>
      simpa only [Option.map_eq_none_iff, List.head?_eq_none_iff] using h
    | dcRack d r =>
      simpa only [Option.map_eq_none_iff, List.head?_eq_none_iff] using h

private theorem replica_step {cl : Cluster} (hwf : WF cl) {cfg : Config} {rq : Request} {ts : Strategy × Int}
    (hts : tokenWithStrategy cl cfg rq = some ts) (crit : Pref) (lwt : Bool) (i j : Nat) (shuf : List Nat) :
    Fit ((pickReplica cl ts crit lwt i j).map (retPicked cl)) (replicaTargets cl ts crit lwt shuf) := by
  constructor
  · intro t h
    obtain ⟨pk, hpk, hr⟩ := Option.map_eq_some_iff.mp h
    cases pk with
    | toBeComputedInFallback => cases hr
    | computed n =>
      simp only [retPicked, Option.some.injEq] at hr
      subst hr
      rw [mem_replicaTargets]
      exact ⟨rfl, pickReplica_computed hwf hts crit lwt i j hpk⟩
  · intro h
    have := pickReplica_none hwf hts crit lwt i j (Option.map_eq_none_iff.mp h)
    unfold replicaTargets
    simp only [this, shuffleWith_nil, ite_self, List.map_nil]

private theorem node_step (cl : Cluster) (nodes : List Node) (p : Node → Bool) (rot : Nat) (g : List Target)
    (hg : ∀ t, t ∈ g ↔ (t = mk cl false t.1 ∧ (t.1 ∈ nodes ∧ p t.1 = true))) :
    Fit ((pickNode nodes p rot).map (fun n => some (shardless n))) g := by
  unfold pickNode
  constructor
  · intro t h
    obtain ⟨n, hn, ht⟩ := Option.map_eq_some_iff.mp h
    simp only [Option.some.injEq] at ht
    subst ht
    rw [hg]
    exact ⟨rfl, mem_rotated.mp (List.mem_of_find?_eq_some hn), List.find?_some hn⟩
  · intro h
    have hnone := List.find?_eq_none.mp (Option.map_eq_none_iff.mp h)
    apply List.eq_nil_iff_forall_not_mem.mpr
    intro t ht
    obtain ⟨_, h1, h2⟩ := (hg t).mp ht
    exact hnone t.1 (mem_rotated.mpr h1) h2

/-- Each step of `pick` fits the like-numbered group of `fallback`, whatever the random choices of the two. -/
private theorem pick_compat {cl : Cluster} (hwf : WF cl) (cfg : Config) (rq : Request) (ρp : RhoPick) (ρf : RhoFb) :
    Compat (pickSteps cl cfg rq ρp) (fallbackGroups cl cfg rq ρf) := by
  unfold pickSteps fallbackGroups
  simp only [Compat, and_true]
  refine ⟨?_, ?_, ?_, ?_, ?_, ?_, ?_, ?_⟩
  · cases hts : tokenWithStrategy cl cfg rq with
    | none => exact fit_none
    | some ts =>
      cases preference cfg rq with
      | any => exact fit_none
      | dc d => exact fit_none
      | dcRack d r => exact replica_step hwf hts _ _ _ _ _
  · cases hts : tokenWithStrategy cl cfg rq with
    | none => exact fit_none
    | some ts =>
      cases (preference cfg rq).datacenter with
      | none => exact fit_none
      | some d => exact replica_step hwf hts _ _ _ _ _
  · cases hts : tokenWithStrategy cl cfg rq with
    | none => exact fit_none
    | some ts =>
      simp only []
      split
      · exact replica_step hwf hts _ _ _ _ _
      · exact fit_none
  · cases preference cfg rq with
    | any => exact fit_none
    | dc d => exact fit_none
    | dcRack d r => exact node_step cl _ _ _ _ (mem_roundRobin_map cl _ _ _)
  · exact node_step cl _ _ _ _ (mem_roundRobin_map cl _ _ _)
  · split
    · exact node_step cl _ _ _ _ (mem_roundRobin_map cl _ _ _)
    · exact fit_none
  · exact node_step cl _ _ _ _ (mem_filter_map cl _ _)
  · split
    · exact node_step cl _ _ _ _ (mem_filter_map cl _ _)
    · exact fit_none

/-- Every node of every group is a node of the ring. -/
private theorem groupPreds_ring {cl : Cluster} (hwf : WF cl) {cfg : Config} {rq : Request}
    {bp : Bool × (Node → Bool)} {n : Node} (hbp : bp ∈ groupPreds cl cfg rq) (h : bp.2 n = true) : n ∈ allNodes cl := by
  have hrep : ∀ ts, tokenWithStrategy cl cfg rq = some ts → ∀ crit det, n ∈ filteredReplicas cl ts crit det →
      n ∈ allNodes cl := by
    intro ts hts crit det hn
    have hv := views hwf hts crit
    have h1 := (mem_filteredReplicas hn).1
    cases det
    · exact hv.2.2.2.1 n (hv.2.2.1.mem_iff.mpr (by simpa using h1))
    · exact hv.2.2.2.1 n (by simpa using h1)
  have hloc : n ∈ localNodes cl (preference cfg rq) → n ∈ allNodes cl := by
    intro hn
    unfold localNodes at hn
    split at hn
    · exact (mem_dcNodes_dc hn).2
    · exact hn
  simp only [groupPreds, List.mem_cons, List.not_mem_nil, or_false] at hbp
  rcases hbp with rfl | rfl | rfl | rfl | rfl | rfl | rfl | rfl <;> simp only [] at h
  · split at h
    · rename_i ts d r hts _
      exact hrep ts hts _ _ (of_decide_eq_true h)
    · cases h
  · split at h
    · rename_i ts d hts _
      exact hrep ts hts _ _ (of_decide_eq_true h)
    · cases h
  · split at h
    · rename_i ts hts
      simp only [Bool.and_eq_true] at h
      exact hrep ts hts _ _ (of_decide_eq_true h.2)
    · cases h
  · split at h
    · simp only [Bool.and_eq_true, decide_eq_true_eq] at h; exact hloc h.1
    · cases h
  · simp only [Bool.and_eq_true, decide_eq_true_eq] at h; exact hloc h.1
  · simp only [Bool.and_eq_true, decide_eq_true_eq] at h; exact h.2.1
  · simp only [Bool.and_eq_true, decide_eq_true_eq] at h; exact hloc h.1
  · simp only [Bool.and_eq_true, decide_eq_true_eq] at h; exact h.2.1

private theorem describes_group {cl : Cluster} {gs : List (List Target)} {ps : List (Bool × (Node → Bool))}
    (h : Describes cl gs ps) {g : List Target} (hg : g ∈ gs) :
    ∃ bp ∈ ps, ∀ t, t ∈ g ↔ (t = mk cl bp.1 t.1 ∧ bp.2 t.1 = true) := by
  induction gs generalizing ps with
  | nil => simp at hg
  | cons g' gs ih =>
    cases ps with
    | nil => exact absurd h (by simp [Describes])
    | cons bp ps =>
      obtain ⟨b, p⟩ := bp
      obtain ⟨h1, h2⟩ := h
      rcases List.mem_cons.mp hg with rfl | hg
      · exact ⟨(b, p), List.mem_cons_self .., h1⟩
      · obtain ⟨bp, hbp, hd⟩ := ih h2 hg
        exact ⟨bp, List.mem_cons_of_mem _ hbp, hd⟩

private theorem flatten_nil_of_all_nil {pre : List (List Target)} (h : ∀ g ∈ pre, g = []) : pre.flatten = [] := by
  induction pre with
  | nil => rfl
  | cons g pre ih =>
    rw [List.flatten_cons, h g (List.mem_cons_self ..), ih (fun g' hg' => h g' (List.mem_cons_of_mem _ hg'))]
    rfl

/-- **What `pick` answers**: a member of `fallback` (for any random choices of the latter) whose class is minimal. -/
theorem pick_spec {cl : Cluster} (hwf : WF cl) (cfg : Config) (rq : Request) (ρp : RhoPick) (ρf : RhoFb) {t : Target}
    (h : pick cl cfg rq ρp = some t) :
    t ∈ fallback cl cfg rq ρf ∧ ∀ n : Node, classOf cl cfg rq t.1 ≤ classOf cl cfg rq n := by
  have hfr : firstReturn (pickSteps cl cfg rq ρp) = some (some t) := by
    unfold pick at h
    cases hf : firstReturn (pickSteps cl cfg rq ρp) with
    | none => rw [hf] at h; cases h
    | some r => rw [hf] at h; simp only [Option.getD_some] at h; rw [h]
  obtain ⟨pre, g, post, e, hpre, htg⟩ := firstReturn_groups (pick_compat hwf cfg rq ρp ρf) hfr
  have hdesc := groups_described cl cfg rq ρf
  have hnot : ∀ n : Node, ∀ g' ∈ pre, n ∉ g'.map (·.1) := by
    intro n g' hg'; rw [hpre g' hg']; simp
  constructor
  · -- t survives the de-duplication: it is in the first non-empty group and the only one there with its host id
    rw [fallback_eq_dedup, e, List.flatten_append, flatten_nil_of_all_nil hpre, List.nil_append, List.flatten_cons]
    obtain ⟨seen', _, happ⟩ := dedupFrom_append [] g post.flatten
    rw [happ]
    apply List.mem_append_left
    obtain ⟨bp, hbp, hd⟩ := describes_group hdesc (g := g) (by rw [e]; simp)
    apply mem_dedupFrom_of_unique htg _ (by simp)
    intro u hu hid
    obtain ⟨hu1, hu2⟩ := (hd u).mp hu
    obtain ⟨ht1, ht2⟩ := (hd t).mp htg
    have : u.1 = t.1 := hwf.distinctIds _ (groupPreds_ring hwf hbp hu2) _ (groupPreds_ring hwf hbp ht2) hid
    rw [hu1, ht1, this]
  · intro n
    unfold classOf
    rw [← describes_firstGroup hdesc, ← describes_firstGroup hdesc, e,
      firstGroup_append_of_not_mem (hnot t.1), firstGroup_append_of_not_mem (hnot n)]
    simp only [firstGroup]
    rw [if_pos (List.mem_map.mpr ⟨t, htg, rfl⟩)]
    omega

/-! ### the property theorems -/

/-- **No node twice**: the host ids of a plan are pairwise distinct (so no target twice, and no node both with and
without a shard). -/
theorem plan_nodup {cl : Cluster} (hwf : WF cl) (cfg : Config) (rq : Request) (ρp : RhoPick) (ρf : RhoFb) :
    ((plan cl cfg rq ρp ρf).map (·.1.id)).Nodup :=
  planOf_nodup (fallback_nodup cl cfg rq ρf) (fun _ h => (pick_spec hwf cfg rq ρp ρf h).1)

/-- The plan and the fallback it is built from name the same targets. -/
theorem plan_mem_iff {cl : Cluster} (hwf : WF cl) (cfg : Config) (rq : Request) (ρp : RhoPick) (ρf : RhoFb) (t : Target) :
    t ∈ plan cl cfg rq ρp ρf ↔ t ∈ fallback cl cfg rq ρf :=
  planOf_mem (fallback_nodup cl cfg rq ρf) (fun _ h => (pick_spec hwf cfg rq ρp ρf h).1) t

/-- **No disabled node**: every node of a plan passed the host filter. -/
theorem plan_excludes_disabled {cl : Cluster} (hwf : WF cl) (cfg : Config) (rq : Request) (ρp : RhoPick) (ρf : RhoFb) :
    ∀ t ∈ plan cl cfg rq ρp ρf, t.1.id ∉ cl.disabled := by
  intro t ht
  obtain ⟨bp, hbp, _, h2⟩ := mem_fallback_groups ((plan_mem_iff hwf cfg rq ρp ρf t).mp ht)
  have := groupPreds_enabled hbp h2
  unfold Cluster.enabled at this
  exact of_decide_eq_true this

/-- **Datacenter confinement**: when failover is not permitted and a datacenter is preferred (by the policy, or by
the request when the policy inherits), every node of the plan is in that datacenter. -/
theorem plan_stays_in_dc {cl : Cluster} (hwf : WF cl) (cfg : Config) (rq : Request) (ρp : RhoPick) (ρf : RhoFb) {d : Nat}
    (hfo : cfg.failover = false) (hd : (preference cfg rq).datacenter = some d) :
    ∀ t ∈ plan cl cfg rq ρp ρf, t.1.dc = some d := by
  intro t ht
  obtain ⟨bp, hbp, _, h2⟩ := mem_fallback_groups ((plan_mem_iff hwf cfg rq ρp ρf t).mp ht)
  exact groupPreds_dc hwf hfo hd hbp h2

/-- **Completeness**: every enabled token-owning node that the datacenter rule permits (no datacenter preferred, or
failover permitted, or the node is in the preferred datacenter) occurs in the plan. -/
theorem plan_complete {cl : Cluster} (hwf : WF cl) (cfg : Config) (rq : Request) (ρp : RhoPick) (ρf : RhoFb) {n : Node}
    (hn : n ∈ allNodes cl) (he : n.id ∉ cl.disabled)
    (hperm : (preference cfg rq).datacenter = none ∨ cfg.failover = true ∨ n.dc = (preference cfg rq).datacenter) :
    ∃ t ∈ plan cl cfg rq ρp ρf, t.1 = n := by
  have hen : cl.enabled n = true := by unfold Cluster.enabled; exact decide_eq_true he
  -- n is in one of the two "enabled" groups
  have hin : mk cl false n ∈ (fallbackGroups cl cfg rq ρf).flatten := by
    rw [describes_mem (groups_described cl cfg rq ρf)]
    have hloc : (preference cfg rq).datacenter = none ∨ n.dc = (preference cfg rq).datacenter →
        n ∈ localNodes cl (preference cfg rq) := by
      intro h
      unfold localNodes
      cases hd : (preference cfg rq).datacenter with
      | none => exact hn
      | some d =>
        rw [hd] at h
        rcases h with h | h
        · cases h
        · exact mem_dcNodes_of hn h
    by_cases hl : (preference cfg rq).datacenter = none ∨ n.dc = (preference cfg rq).datacenter
    · refine ⟨(false, fun n => decide (n ∈ localNodes cl (preference cfg rq)) && cl.enabled n), ?_, ?_, ?_⟩
      · simp [groupPreds]
      · rw [mk_fst]
      · simp only [mk_fst, Bool.and_eq_true, decide_eq_true_eq]; exact ⟨hloc hl, hen⟩
    · have hfo : cfg.failover = true := by
        rcases hperm with h | h | h
        · exact absurd (Or.inl h) hl
        · exact h
        · exact absurd (Or.inr h) hl
      have hsome : (preference cfg rq).datacenter.isSome = true := by
        cases hd : (preference cfg rq).datacenter with
        | none => exact absurd (Or.inl hd) hl
        | some d => rfl
      have hfp : failoverPossible cfg rq = true := by unfold failoverPossible; rw [hsome, hfo]; rfl
      refine ⟨(false, fun n => failoverPossible cfg rq && (decide (n ∈ allNodes cl) && cl.enabled n)), ?_, ?_, ?_⟩
      · simp [groupPreds]
      · rw [mk_fst]
      · simp only [mk_fst, hfp, Bool.true_and, Bool.and_eq_true, decide_eq_true_eq]; exact ⟨hn, hen⟩
  have hc := dedupFrom_complete (seen := []) hin
  simp only [List.not_mem_nil, false_or, mk_fst] at hc
  obtain ⟨u, hu, hid⟩ := List.mem_map.mp hc
  rw [← fallback_eq_dedup] at hu
  obtain ⟨bp, hbp, _, h2⟩ := mem_fallback_groups hu
  exact ⟨u, (plan_mem_iff hwf cfg rq ρp ρf u).mpr hu, hwf.distinctIds _ (groupPreds_ring hwf hbp h2) _ hn hid⟩

/-- **Order**: along the plan the class of the nodes (`classOf`: live local-rack replica < live local-datacenter
replica < live replica elsewhere < live local-rack node < live local node < live remote node < down local node <
down remote node) never decreases. -/
theorem plan_order {cl : Cluster} (hwf : WF cl) (cfg : Config) (rq : Request) (ρp : RhoPick) (ρf : RhoFb) :
    (plan cl cfg rq ρp ρf).Pairwise (fun a b => classOf cl cfg rq a.1 ≤ classOf cl cfg rq b.1) :=
  planOf_pairwise (fallback_nodup cl cfg rq ρf) (fallback_order cl cfg rq ρf)
    (fun _ h u _ => (pick_spec hwf cfg rq ρp ρf h).2 u.1)

/-- **The set of nodes of the plan does not depend on the random choices.** -/
theorem targets_rho_independent {cl : Cluster} (hwf : WF cl) (cfg : Config) (rq : Request)
    (ρp ρp' : RhoPick) (ρf ρf' : RhoFb) (n : Node) :
    (∃ t ∈ plan cl cfg rq ρp ρf, t.1 = n) ↔ (∃ t ∈ plan cl cfg rq ρp' ρf', t.1 = n) := by
  have key : ∀ (ρp ρp' : RhoPick) (ρf ρf' : RhoFb),
      (∃ t ∈ plan cl cfg rq ρp ρf, t.1 = n) → (∃ t ∈ plan cl cfg rq ρp' ρf', t.1 = n) := by
    intro ρp ρp' ρf ρf' ⟨t, ht, htn⟩
    have htf := (plan_mem_iff hwf cfg rq ρp ρf t).mp ht
    obtain ⟨bp, hbp, h1, h2⟩ := mem_fallback_groups htf
    have hin : t ∈ (fallbackGroups cl cfg rq ρf').flatten :=
      (describes_mem (groups_described cl cfg rq ρf') t).mpr ⟨bp, hbp, h1, h2⟩
    have hc := dedupFrom_complete (seen := []) hin
    simp only [List.not_mem_nil, false_or] at hc
    obtain ⟨u, hu, hid⟩ := List.mem_map.mp hc
    rw [← fallback_eq_dedup] at hu
    obtain ⟨bp', hbp', _, h2'⟩ := mem_fallback_groups hu
    refine ⟨u, (plan_mem_iff hwf cfg rq ρp' ρf' u).mpr hu, ?_⟩
    rw [← htn]
    exact hwf.distinctIds _ (groupPreds_ring hwf hbp' h2') _ (groupPreds_ring hwf hbp h2) hid
  exact ⟨key ρp ρp' ρf ρf', key ρp' ρp ρf' ρf⟩

/-- `Plan::next`, iterated until it answers `None`, yields exactly the list the theorems above talk about. -/
theorem plan_state_machine (cl : Cluster) (cfg : Config) (rq : Request) (ρp : RhoPick) (ρf : RhoFb) :
    planRun (pick cl cfg rq ρp) (fallback cl cfg rq ρf) ((fallback cl cfg rq ρf).length + 3) .created =
      plan cl cfg rq ρp ρf := planRun_eq_planOf _ _

/-! ### lightweight transactions: the replicas come in one deterministic order -/

/-- The replica part of the chain for a request routed as LWT: live local-rack replicas, live local replicas, live
replicas of any datacenter - each in the ring-ordered view (`into_replicas_ordered`), no random choice involved. -/
def lwtReplicas (cl : Cluster) (cfg : Config) (rq : Request) : List Target :=
  let pref := preference cfg rq
  let fp := failoverPossible cfg rq
  let ts := tokenWithStrategy cl cfg rq
  (match ts, pref with
    | some ts, .dcRack d r => (filteredReplicas cl ts (.dcRack d r) true).map (sharded cl)
    | _, _ => []) ++
  ((match ts, pref.datacenter with
    | some ts, some d => (filteredReplicas cl ts (.dc d) true).map (sharded cl)
    | _, _ => []) ++
  (match ts with
    | some ts => if pref.datacenter.isNone || fp then (filteredReplicas cl ts .any true).map (sharded cl) else []
    | none => []))

private theorem lwt_take3 {cl : Cluster} {cfg : Config} {rq : Request} (hlwt : rq.routeAsLwt = true) (ρ : RhoFb) :
    ((fallbackGroups cl cfg rq ρ).take 3).flatten = lwtReplicas cl cfg rq := by
  unfold fallbackGroups lwtReplicas replicaTargets
  simp only [hlwt, if_true, List.take_succ_cons, List.take_zero, List.flatten_cons, List.flatten_nil, List.append_nil]
  rfl

private theorem drop3_shardless (cl : Cluster) (cfg : Config) (rq : Request) (ρ : RhoFb) :
    ∀ t ∈ ((fallbackGroups cl cfg rq ρ).drop 3).flatten, t.2 = none := by
  intro t ht
  unfold fallbackGroups at ht
  simp only [List.drop_succ_cons, List.drop_zero, List.flatten_cons, List.flatten_nil, List.append_nil,
    List.mem_append] at ht
  have hmap : ∀ L : List Node, t ∈ L.map shardless → t.2 = none := by
    intro L hL
    obtain ⟨n, _, rfl⟩ := List.mem_map.mp hL
    rfl
  rcases ht with ht | ht | ht | ht | ht
  · split at ht
    · exact hmap _ ht
    · simp at ht
  · exact hmap _ ht
  · split at ht
    · exact hmap _ ht
    · simp at ht
  · exact hmap _ ht
  · split at ht
    · exact hmap _ ht
    · simp at ht

private theorem lwtReplicas_sharded (cl : Cluster) (cfg : Config) (rq : Request) :
    ∀ t ∈ lwtReplicas cl cfg rq, t.2.isSome = true ∧ ShardOK cl.sh t := by
  intro t ht
  have hmap : ∀ L : List Node, t ∈ L.map (sharded cl) → t.2.isSome = true ∧ ShardOK cl.sh t := by
    intro L hL
    obtain ⟨n, _, rfl⟩ := List.mem_map.mp hL
    exact ⟨rfl, Or.inr rfl⟩
  unfold lwtReplicas at ht
  simp only [List.mem_append] at ht
  rcases ht with ht | ht | ht
  · split at ht
    · exact hmap _ ht
    · simp at ht
  · split at ht
    · exact hmap _ ht
    · simp at ht
  · split at ht
    · split at ht
      · exact hmap _ ht
      · simp at ht
    · simp at ht

/-- **LWT, fallback**: the targets with a shard (the replicas) that `fallback` yields are, whatever the random
choices, the de-duplicated ring-ordered replica lists. -/
theorem lwt_fallback_deterministic (cl : Cluster) (cfg : Config) (rq : Request) (hlwt : rq.routeAsLwt = true) (ρ : RhoFb) :
    (fallback cl cfg rq ρ).filter (·.2.isSome) = uniqueBy (lwtReplicas cl cfg rq) := by
  have hR : uniqueBy (lwtReplicas cl cfg rq) = dedupFrom [] (lwtReplicas cl cfg rq) := by
    unfold uniqueBy
    rw [uniqueByFrom_eq_dedupFrom (sh := cl.sh) [] _ (by simp) (fun t ht => (lwtReplicas_sharded cl cfg rq t ht).2)]
    rfl
  rw [fallback_eq_dedup, hR, ← List.take_append_drop 3 (fallbackGroups cl cfg rq ρ), List.flatten_append, lwt_take3 hlwt]
  obtain ⟨seen', _, happ⟩ := dedupFrom_append [] (lwtReplicas cl cfg rq) ((fallbackGroups cl cfg rq ρ).drop 3).flatten
  rw [happ, List.filter_append]
  have h1 : (dedupFrom [] (lwtReplicas cl cfg rq)).filter (·.2.isSome) = dedupFrom [] (lwtReplicas cl cfg rq) :=
    List.filter_eq_self.mpr (fun t ht => (lwtReplicas_sharded cl cfg rq t (mem_dedupFrom ht).1).1)
  have h2 : (dedupFrom seen' ((fallbackGroups cl cfg rq ρ).drop 3).flatten).filter (·.2.isSome) = [] :=
    List.filter_eq_nil_iff.mpr (fun t ht => by rw [drop3_shardless cl cfg rq ρ t (mem_dedupFrom ht).1]; simp)
  rw [h1, h2, List.append_nil]

/-- **LWT, ring order**: each of the replica lists of an LWT request is in ring order - a subsequence of the distinct
nodes met clockwise from the token (`uniq (ringRange ring token)`). -/
theorem lwt_ring_order {cl : Cluster} (hwf : WF cl) {cfg : Config} {rq : Request} {ts : Strategy × Int}
    (hts : tokenWithStrategy cl cfg rq = some ts) (crit : Pref) :
    (filteredReplicas cl ts crit true).Sublist (uniq (ringRange cl.loc.ring ts.2)) := by
  unfold filteredReplicas
  simp only [if_true]
  exact List.filter_sublist.trans (views hwf hts crit).2.2.2.2

private theorem lwt_step_head {cl : Cluster} (ts : Strategy × Int) (crit : Pref) (i j : Nat) (shuf : List Nat) :
    FitH ((pickReplica cl ts crit true i j).map (retPicked cl)) (replicaTargets cl ts crit true shuf) := by
  have hrt : replicaTargets cl ts crit true shuf = (filteredReplicas cl ts crit true).map (sharded cl) := by
    unfold replicaTargets; simp
  rw [hrt]
  unfold pickReplica
  simp only [if_true]
  constructor
  · intro t h
    obtain ⟨pk, hpk, hr⟩ := Option.map_eq_some_iff.mp h
    cases pk with
    | toBeComputedInFallback => cases hr
    | computed n =>
      simp only [retPicked, Option.some.injEq] at hr
      subst hr
      rw [List.head?_map]
      unfold pickFirstReplica at hpk
      cases crit with
      | any =>
        simp only [Option.map_eq_some_iff] at hpk
        obtain ⟨p, hp, hf⟩ := hpk
        split at hf
        · rename_i ha
          simp only [Picked.computed.injEq] at hf
          subst hf
          unfold filteredReplicas
          simp only [if_true]
          cases hord : (replicaSet cl ts Pref.any).ordered cl.loc with
          | nil => rw [hord] at hp; simp at hp
          | cons a l =>
            rw [hord] at hp
            simp only [List.head?_cons, Option.some.injEq] at hp
            subst hp
            simp [ha, rackOk]
        · cases hf
      | dc d =>
        simp only [Option.map_eq_some_iff, Picked.computed.injEq, exists_eq_right] at hpk
        rw [hpk]; rfl
      | dcRack d r =>
        simp only [Option.map_eq_some_iff, Picked.computed.injEq, exists_eq_right] at hpk
        rw [hpk]; rfl
  · intro h
    have h := Option.map_eq_none_iff.mp h
    unfold pickFirstReplica at h
    cases crit with
    | any =>
      simp only [Option.map_eq_none_iff, List.head?_eq_none_iff] at h
      unfold filteredReplicas
      simp only [if_true, h]; rfl
    | dc d =>
      simp only [Option.map_eq_none_iff, List.head?_eq_none_iff] at h
      rw [h]; rfl
    | dcRack d r =>
      simp only [Option.map_eq_none_iff, List.head?_eq_none_iff] at h
      rw [h]; rfl

private theorem lwt_compatH {cl : Cluster} {cfg : Config} {rq : Request} (hlwt : rq.routeAsLwt = true)
    (ρp : RhoPick) (ρf : RhoFb) :
    CompatH ((pickSteps cl cfg rq ρp).take 3) ((fallbackGroups cl cfg rq ρf).take 3) := by
  unfold pickSteps fallbackGroups
  simp only [List.take_succ_cons, List.take_zero, CompatH, and_true, hlwt]
  refine ⟨?_, ?_, ?_⟩
  · cases tokenWithStrategy cl cfg rq with
    | none => exact fitH_none
    | some ts =>
      cases preference cfg rq with
      | any => exact fitH_none
      | dc d => exact fitH_none
      | dcRack d r => exact lwt_step_head _ _ _ _ _
  · cases tokenWithStrategy cl cfg rq with
    | none => exact fitH_none
    | some ts =>
      cases (preference cfg rq).datacenter with
      | none => exact fitH_none
      | some d => exact lwt_step_head _ _ _ _ _
  · cases tokenWithStrategy cl cfg rq with
    | none => exact fitH_none
    | some ts =>
      simp only []
      split
      · exact lwt_step_head _ _ _ _ _
      · exact fitH_none

private theorem pick_drop3_shardless (cl : Cluster) (cfg : Config) (rq : Request) (ρp : RhoPick) :
    ∀ s ∈ (pickSteps cl cfg rq ρp).drop 3, ∀ t, s = some (some t) → t.2 = none := by
  have hmap : ∀ (o : Option Node) (t : Target), o.map (fun n => some (shardless n)) = some (some t) → t.2 = none := by
    intro o t h
    obtain ⟨n, _, hn⟩ := Option.map_eq_some_iff.mp h
    simp only [Option.some.injEq] at hn
    subst hn; rfl
  intro s hs t hst
  unfold pickSteps at hs
  simp only [List.drop_succ_cons, List.drop_zero, List.mem_cons, List.not_mem_nil, or_false] at hs
  subst hst
  rcases hs with hs | hs | hs | hs | hs
  · split at hs
    · exact hmap _ _ hs.symm
    · cases hs
  · exact hmap _ _ hs.symm
  · split at hs
    · exact hmap _ _ hs.symm
    · cases hs
  · exact hmap _ _ hs.symm
  · split at hs
    · exact hmap _ _ hs.symm
    · cases hs

/-- For an LWT request, a replica answered by `pick` is the first of the deterministic replica order. -/
private theorem lwt_pick_head {cl : Cluster} {cfg : Config} {rq : Request} (hlwt : rq.routeAsLwt = true)
    (ρp : RhoPick) {t : Target} (h : pick cl cfg rq ρp = some t) (hs : t.2.isSome = true) :
    (lwtReplicas cl cfg rq).head? = some t := by
  have hfr : firstReturn (pickSteps cl cfg rq ρp) = some (some t) := by
    unfold pick at h
    cases hf : firstReturn (pickSteps cl cfg rq ρp) with
    | none => rw [hf] at h; cases h
    | some r => rw [hf] at h; simp only [Option.getD_some] at h; rw [h]
  rw [← List.take_append_drop 3 (pickSteps cl cfg rq ρp), firstReturn_append] at hfr
  rw [← lwt_take3 hlwt ⟨[], [], [], 0, 0, 0⟩]
  cases hA : firstReturn ((pickSteps cl cfg rq ρp).take 3) with
  | none =>
    rw [hA] at hfr
    have := pick_drop3_shardless cl cfg rq ρp _ (firstReturn_mem hfr) t rfl
    rw [this] at hs; cases hs
  | some r =>
    rw [hA] at hfr
    simp only [Option.some.injEq] at hfr
    subst hfr
    exact firstReturn_head (lwt_compatH hlwt ρp _) hA

/-- **LWT, plan**: for a request routed as LWT (confirmed LWT, or consistency SERIAL / LOCAL_SERIAL) the replicas
(targets with a shard) occur in the plan in one order that does not depend on any random choice: the de-duplicated
ring-ordered replica lists. -/
theorem lwt_deterministic {cl : Cluster} (hwf : WF cl) (cfg : Config) (rq : Request) (hlwt : rq.routeAsLwt = true)
    (ρp : RhoPick) (ρf : RhoFb) :
    (plan cl cfg rq ρp ρf).filter (·.2.isSome) = uniqueBy (lwtReplicas cl cfg rq) := by
  have hfb := lwt_fallback_deterministic cl cfg rq hlwt ρf
  have hn := fallback_nodup cl cfg rq ρf
  unfold plan
  cases hpk : pick cl cfg rq ρp with
  | none => rw [planOf_none hn]; exact hfb
  | some t =>
    have htf := (pick_spec hwf cfg rq ρp ρf hpk).1
    simp only [planOf]
    cases hs : t.2.isSome with
    | false =>
      -- a shard-less first target: filtering it out does not touch the replicas
      rw [List.filter_cons, hs]
      simp only [Bool.false_eq_true, if_false]
      rw [List.filter_filter, ← hfb]
      apply List.filter_congr
      intro u _
      cases hu : u.2.isSome with
      | false => simp
      | true =>
        have : litEq u t = false := by
          unfold litEq
          cases h2 : u.2 with
          | none => rw [h2] at hu; cases hu
          | some x =>
            cases h3 : t.2 with
            | none => simp
            | some y => rw [h3] at hs; cases hs
        simp [this]
    | true =>
      -- a replica: it is the head of the deterministic order
      have hhead := lwt_pick_head hlwt ρp hpk hs
      have hR : uniqueBy (lwtReplicas cl cfg rq) = dedupFrom [] (lwtReplicas cl cfg rq) := by
        unfold uniqueBy
        rw [uniqueByFrom_eq_dedupFrom (sh := cl.sh) [] _ (by simp) (fun t ht => (lwtReplicas_sharded cl cfg rq t ht).2)]
        rfl
      have hh2 := dedupFrom_nil_head hhead
      rw [← hR, ← hfb] at hh2
      rw [List.filter_cons, hs]
      simp only [if_true]
      rw [List.filter_filter]
      have hcomm : (fallback cl cfg rq ρf).filter (fun u => u.2.isSome && !litEq u t) =
          ((fallback cl cfg rq ρf).filter (·.2.isSome)).filter (fun u => !litEq u t) := by
        rw [List.filter_filter]; apply List.filter_congr; intro u _; exact Bool.and_comm _ _
      rw [hcomm, ← hfb]
      cases hL : (fallback cl cfg rq ρf).filter (·.2.isSome) with
      | nil => rw [hL] at hh2; simp at hh2
      | cons a L =>
        rw [hL] at hh2
        simp only [List.head?_cons, Option.some.injEq] at hh2
        subst hh2
        rw [List.filter_cons]
        simp only [litEq_self, Bool.not_true, Bool.false_eq_true, if_false]
        congr 1
        apply List.filter_eq_self.mpr
        intro u hu
        have hsub : ((a :: L).map (·.1.id)).Nodup := by
          rw [← hL]; exact hn.sublist (List.filter_sublist.map _)
        simp only [List.map_cons, List.nodup_cons] at hsub
        cases hl : litEq u a with
        | false => rfl
        | true => exact absurd (List.mem_map.mpr ⟨u, hu, litEq_id hl⟩) hsub.1

/-! ### the class function written out, adequacy of the random-choice arguments, non-vacuity -/

private theorem classIdx8 (b1 b2 b3 b4 b5 b6 b7 b8 : Bool) (p1 p2 p3 p4 p5 p6 p7 p8 : Node → Bool) (n : Node) :
    classIdx [(b1, p1), (b2, p2), (b3, p3), (b4, p4), (b5, p5), (b6, p6), (b7, p7), (b8, p8)] n =
      if p1 n then 0 else if p2 n then 1 else if p3 n then 2 else if p4 n then 3 else if p5 n then 4
      else if p6 n then 5 else if p7 n then 6 else if p8 n then 7 else 8 := by
  simp only [classIdx]
  cases p1 n <;> cases p2 n <;> cases p3 n <;> cases p4 n <;> cases p5 n <;> cases p6 n <;> cases p7 n <;>
    cases p8 n <;> rfl

/-- `classOf` written out as the decision list it is. -/
theorem classOf_eq (cl : Cluster) (cfg : Config) (rq : Request) (n : Node) :
    classOf cl cfg rq n =
      (let pref := preference cfg rq
       let lwt := rq.routeAsLwt
       let fp := failoverPossible cfg rq
       let ts := tokenWithStrategy cl cfg rq
       let locals := localNodes cl pref
       if (match ts, pref with
            | some ts, .dcRack d r => decide (n ∈ filteredReplicas cl ts (.dcRack d r) lwt)
            | _, _ => false) then 0
       else if (match ts, pref.datacenter with
            | some ts, some d => decide (n ∈ filteredReplicas cl ts (.dc d) lwt)
            | _, _ => false) then 1
       else if (match ts with
            | some ts => (pref.datacenter.isNone || fp) && decide (n ∈ filteredReplicas cl ts .any lwt)
            | none => false) then 2
       else if (match pref with
            | .dcRack _ r => decide (n ∈ locals) && (cl.alive n && n.rack == some r)
            | _ => false) then 3
       else if decide (n ∈ locals) && cl.alive n then 4
       else if fp && (decide (n ∈ allNodes cl) && cl.alive n) then 5
       else if decide (n ∈ locals) && cl.enabled n then 6
       else if fp && (decide (n ∈ allNodes cl) && cl.enabled n) then 7
       else 8) := by
  unfold classOf groupPreds
  exact classIdx8 _ _ _ _ _ _ _ _ _ _ _ _ _ _ _ _ n

/-- Every node of a plan has a class below 8 (class 8 = "in none of the eight groups" never occurs in a plan). -/
theorem plan_members_classified {cl : Cluster} (hwf : WF cl) (cfg : Config) (rq : Request) (ρp : RhoPick) (ρf : RhoFb) :
    ∀ t ∈ plan cl cfg rq ρp ρf, classOf cl cfg rq t.1 < 8 := by
  intro t ht
  obtain ⟨bp, hbp, _, h2⟩ := mem_fallback_groups ((plan_mem_iff hwf cfg rq ρp ρf t).mp ht)
  have hin : mk cl bp.1 t.1 ∈ (fallbackGroups cl cfg rq ρf).flatten :=
    (describes_mem (groups_described cl cfg rq ρf) _).mpr ⟨bp, hbp, by rw [mk_fst], by rw [mk_fst]; exact h2⟩
  obtain ⟨g, hg, htg⟩ := List.mem_flatten.mp hin
  unfold classOf
  rw [← describes_firstGroup (groups_described cl cfg rq ρf)]
  -- the node is in some group, so its first group has an index below the number of groups
  have hlen : (fallbackGroups cl cfg rq ρf).length = 8 := rfl
  have : ∀ (gs : List (List Target)), g ∈ gs → firstGroup gs t.1 < gs.length := by
    intro gs hgs
    induction gs with
    | nil => simp at hgs
    | cons g' gs ih =>
      simp only [firstGroup, List.length_cons]
      split
      · omega
      · rename_i hnot
        rcases List.mem_cons.mp hgs with rfl | hgs
        · exact absurd (List.mem_map.mpr ⟨_, htg, mk_fst cl bp.1 t.1⟩) hnot
        · have := ih hgs; omega
  have := this _ hg
  omega

private theorem insertAt_length_append {α : Type} (a : α) (p1 p2 : List α) :
    insertAt a p1.length (p1 ++ p2) = p1 ++ a :: p2 := by
  induction p1 with
  | nil => cases p2 <;> rfl
  | cons b p1 ih => simp only [List.length_cons, List.cons_append, insertAt, ih]

/-- The shuffle argument is adequate: every permutation of the replicas is produced by some draws. -/
theorem shuffleWith_surjective {α : Type} (l p : List α) (h : p.Perm l) : ∃ ks, shuffleWith ks l = p := by
  induction l generalizing p with
  | nil => exact ⟨[], by rw [List.Perm.eq_nil h]; rfl⟩
  | cons a l ih =>
    have ha : a ∈ p := h.symm.subset (List.mem_cons_self ..)
    obtain ⟨s, t, rfl⟩ := List.append_of_mem ha
    have hp : (s ++ t).Perm l := (List.perm_middle.symm.trans h).cons_inv
    obtain ⟨ks, hks⟩ := ih (s ++ t) hp
    exact ⟨s.length :: ks, by simp only [shuffleWith, hks, insertAt_length_append]⟩

/-- ... and whatever the draws, the shuffle is a permutation. -/
theorem shuffleWith_is_perm {α : Type} (ks : List Nat) (l : List α) : (shuffleWith ks l).Perm l := shuffleWith_perm ks l

/-! ### the order classes in model-independent terms: replicas by the placement rule of C04, liveness, location -/

/-- The replicas of a token under a strategy **by the placement rule of the C04 property statement**
(`C04.specSimple` / `C04.specNtsDc`: first RF distinct nodes clockwise; per datacenter the rack rule). -/
def specReplicas (r : Ring Node) (s : Strategy) (tok : Int) : List Node :=
  match s with
  | .simple rf => C04.specSimple r rf tok
  | .nts repf => repf.flatMap (fun e => C04.specNtsDc r tok e.1 e.2)
  | _ => C04.specSimple r 1 tok

/-- `n` is a live replica of the request's token: the request is token-aware routable (token, known keyspace, token-aware
policy), `n` has a usable connection and `n` is a replica by the placement rule. -/
def LiveReplica (cl : Cluster) (cfg : Config) (rq : Request) (n : Node) : Prop :=
  ∃ ts, tokenWithStrategy cl cfg rq = some ts ∧ cl.alive n = true ∧ n ∈ specReplicas cl.loc.ring ts.1 ts.2

/-- The datacenter rule: no datacenter preferred, or failover permitted, or the node is in the preferred datacenter. -/
def Permitted (cfg : Config) (rq : Request) (n : Node) : Prop :=
  (preference cfg rq).datacenter = none ∨ cfg.failover = true ∨ n.dc = (preference cfg rq).datacenter

/-- The node is in the preferred datacenter. -/
def LocalDc (cfg : Config) (rq : Request) (n : Node) : Prop :=
  ∃ d, (preference cfg rq).datacenter = some d ∧ n.dc = some d

/-- The node is in the preferred rack of the preferred datacenter. -/
def LocalRack (cfg : Config) (rq : Request) (n : Node) : Prop :=
  ∃ d r, preference cfg rq = .dcRack d r ∧ n.dc = some d ∧ n.rack = some r

/-- The unrestricted replica set the locator answers is the placement rule's (C04: `simple_eq_spec`,
`nts_unrestricted_eq_spec`, precomputed = on the fly). -/
theorem replicas_eq_spec {cl : Cluster} (hwf : WF cl) {cfg : Config} {rq : Request} {ts : Strategy × Int}
    (hts : tokenWithStrategy cl cfg rq = some ts) (n : Node) :
    n ∈ (replicasForToken cl.loc ts.2 ts.1 none).iter cl.loc ↔ n ∈ specReplicas cl.loc.ring ts.1 ts.2 := by
  obtain ⟨r, S, hs, hloc⟩ := hwf.locator
  have hk : ∀ repf, ts.1 = .nts repf → (repf.map (·.1)).Nodup :=
    fun repf h => hwf.ntsKeys repf (h ▸ ts_mem_keyspaces hts)
  rw [hloc]
  have hsimple : ∀ rf, n ∈ (replicasForToken (C04.locOf r S) ts.2 (.simple rf) none).iter (C04.locOf r S) ↔
      n ∈ C04.specSimple r rf ts.2 := by
    intro rf
    simp only [replicasForToken, ReplicaSet.iter, getSimple_precompute hs, C04.simple_eq_spec hs]
  cases hst : ts.1 with
  | simple rf => simpa [specReplicas] using hsimple rf
  | localStrategy =>
    rw [(C04.fallback_eq_simple1 _ ts.2 none).1]; simpa [specReplicas] using hsimple 1
  | other =>
    rw [(C04.fallback_eq_simple1 _ ts.2 none).2.1]; simpa [specReplicas] using hsimple 1
  | nts repf =>
    rw [C04.nts_unrestricted_eq_spec hs S ts.2 repf (hk repf hst) n]
    simp only [specReplicas, List.mem_flatMap]

/-- Members of the (possibly datacenter-restricted, possibly ring-ordered) filtered replica list, in terms of the
placement rule. -/
private theorem mem_filteredReplicas_iff {cl : Cluster} (hwf : WF cl) {cfg : Config} {rq : Request} {ts : Strategy × Int}
    (hts : tokenWithStrategy cl cfg rq = some ts) (crit : Pref) (det : Bool) (n : Node) :
    n ∈ filteredReplicas cl ts crit det ↔
      (n ∈ specReplicas cl.loc.ring ts.1 ts.2 ∧ (∀ d, crit.datacenter = some d → n.dc = some d) ∧
        cl.alive n = true ∧ rackOk crit n = true) := by
  have hv := views hwf hts crit
  have hview : n ∈ (if det then (replicaSet cl ts crit).ordered cl.loc else (replicaSet cl ts crit).iter cl.loc) ↔
      n ∈ (replicaSet cl ts crit).iter cl.loc := by
    cases det
    · simp
    · simpa using hv.2.2.1.mem_iff
  have hiter : n ∈ (replicaSet cl ts crit).iter cl.loc ↔
      (n ∈ specReplicas cl.loc.ring ts.1 ts.2 ∧ (∀ d, crit.datacenter = some d → n.dc = some d)) := by
    unfold replicaSet
    cases hd : crit.datacenter with
    | none => rw [replicas_eq_spec hwf hts]; simp
    | some d =>
      have hfil : (replicasForToken cl.loc ts.2 ts.1 (some d)).iter cl.loc =
          ((replicasForToken cl.loc ts.2 ts.1 none).iter cl.loc).filter (fun n => decide (n.dc = some d)) := by
        obtain ⟨r, S, hs, hloc⟩ := hwf.locator
        cases hst : ts.1 with
        | nts repf => rw [hloc]; exact C04.dc_restrict_eq_filter_nts hs S ts.2 repf d
        | simple rf => exact C04.dc_restrict_eq_filter_simple _ _ _ _ (by intro repf h; cases h)
        | localStrategy => exact C04.dc_restrict_eq_filter_simple _ _ _ _ (by intro repf h; cases h)
        | other => exact C04.dc_restrict_eq_filter_simple _ _ _ _ (by intro repf h; cases h)
      rw [hfil, List.mem_filter, replicas_eq_spec hwf hts]
      simp
  unfold filteredReplicas
  rw [List.mem_filter, hview, hiter]
  simp only [Bool.and_eq_true, and_assoc]

private theorem classIdx8_facts (b1 b2 b3 b4 b5 b6 b7 b8 : Bool) (p1 p2 p3 p4 p5 p6 p7 p8 : Node → Bool) (n : Node) :
    let c := classIdx [(b1, p1), (b2, p2), (b3, p3), (b4, p4), (b5, p5), (b6, p6), (b7, p7), (b8, p8)] n
    (c = 0 ↔ p1 n = true) ∧ (c ≤ 1 ↔ (p1 n = true ∨ p2 n = true)) ∧
    (c ≤ 2 ↔ (p1 n = true ∨ p2 n = true ∨ p3 n = true)) ∧
    (c ≤ 5 ↔ (p1 n = true ∨ p2 n = true ∨ p3 n = true ∨ p4 n = true ∨ p5 n = true ∨ p6 n = true)) ∧
    (c < 8 ↔ (p1 n = true ∨ p2 n = true ∨ p3 n = true ∨ p4 n = true ∨ p5 n = true ∨ p6 n = true ∨ p7 n = true ∨
      p8 n = true)) ∧
    (c = 3 → p4 n = true) ∧ (c = 4 → (p5 n = true ∧ p4 n = false)) ∧ (c = 5 → (p6 n = true ∧ p5 n = false)) := by
  simp only [classIdx8]
  cases p1 n <;> cases p2 n <;> cases p3 n <;> cases p4 n <;> cases p5 n <;> cases p6 n <;> cases p7 n <;>
    cases p8 n <;> decide

private theorem mem_localNodes_iff (cl : Cluster) (cfg : Config) (rq : Request) (n : Node) :
    n ∈ localNodes cl (preference cfg rq) ↔
      (n ∈ allNodes cl ∧ ((preference cfg rq).datacenter = none ∨ n.dc = (preference cfg rq).datacenter)) := by
  unfold localNodes
  cases hd : (preference cfg rq).datacenter with
  | none => simp
  | some d =>
    simp only [reduceCtorEq, false_or]
    exact ⟨fun h => ⟨(mem_dcNodes_dc h).2, (mem_dcNodes_dc h).1⟩, fun h => mem_dcNodes_of h.1 h.2⟩

private theorem failoverPossible_iff (cfg : Config) (rq : Request) :
    failoverPossible cfg rq = true ↔ ((preference cfg rq).datacenter ≠ none ∧ cfg.failover = true) := by
  unfold failoverPossible
  cases (preference cfg rq).datacenter <;> simp

private theorem any_datacenter : Pref.any.datacenter = none := rfl
private theorem dc_datacenter (d : Nat) : (Pref.dc d).datacenter = some d := rfl
private theorem dcRack_datacenter (d r : Nat) : (Pref.dcRack d r).datacenter = some d := rfl

/-- The three replica predicates of `groupPreds`, in model-independent terms. -/
private theorem replica_preds {cl : Cluster} (hwf : WF cl) (cfg : Config) (rq : Request) (n : Node) :
    ((match tokenWithStrategy cl cfg rq, preference cfg rq with
        | some ts, .dcRack d r => decide (n ∈ filteredReplicas cl ts (.dcRack d r) rq.routeAsLwt)
        | _, _ => false) = true ↔ (LiveReplica cl cfg rq n ∧ LocalRack cfg rq n)) ∧
    ((match tokenWithStrategy cl cfg rq, (preference cfg rq).datacenter with
        | some ts, some d => decide (n ∈ filteredReplicas cl ts (.dc d) rq.routeAsLwt)
        | _, _ => false) = true ↔ (LiveReplica cl cfg rq n ∧ LocalDc cfg rq n)) ∧
    ((match tokenWithStrategy cl cfg rq with
        | some ts => ((preference cfg rq).datacenter.isNone || failoverPossible cfg rq) &&
            decide (n ∈ filteredReplicas cl ts .any rq.routeAsLwt)
        | none => false) = true ↔
      (LiveReplica cl cfg rq n ∧ ((preference cfg rq).datacenter = none ∨ failoverPossible cfg rq = true))) := by
  cases hts : tokenWithStrategy cl cfg rq with
  | none =>
    have hno : ¬ LiveReplica cl cfg rq n := by rintro ⟨ts, h, _⟩; rw [hts] at h; cases h
    refine ⟨?_, ?_, ?_⟩ <;> simp [hno]
  | some ts =>
    have hlive : LiveReplica cl cfg rq n ↔ (cl.alive n = true ∧ n ∈ specReplicas cl.loc.ring ts.1 ts.2) := by
      constructor
      · rintro ⟨ts', h, h1, h2⟩
        rw [hts] at h; cases h; exact ⟨h1, h2⟩
      · rintro ⟨h1, h2⟩; exact ⟨ts, hts, h1, h2⟩
    refine ⟨?_, ?_, ?_⟩
    · cases hp : preference cfg rq with
      | any => simp [LocalRack, hp]
      | dc d => simp [LocalRack, hp]
      | dcRack d r =>
        simp only [decide_eq_true_eq, mem_filteredReplicas_iff hwf hts, hlive, LocalRack, hp, dcRack_datacenter,
          Option.some.injEq, rackOk, beq_iff_eq, Pref.dcRack.injEq]
        constructor
        · rintro ⟨h1, h2, h3, h4⟩; exact ⟨⟨h3, h1⟩, d, r, ⟨rfl, rfl⟩, h2 d rfl, h4⟩
        · rintro ⟨⟨h3, h1⟩, d', r', ⟨rfl, rfl⟩, h2, h4⟩; exact ⟨h1, fun _ h => h ▸ h2, h3, h4⟩
    · cases hd : (preference cfg rq).datacenter with
      | none => simp [LocalDc, hd]
      | some d =>
        simp only [decide_eq_true_eq, mem_filteredReplicas_iff hwf hts, hlive, LocalDc, hd, dc_datacenter,
          Option.some.injEq, rackOk]
        constructor
        · rintro ⟨h1, h2, h3, _⟩; exact ⟨⟨h3, h1⟩, d, rfl, h2 d rfl⟩
        · rintro ⟨⟨h3, h1⟩, d', rfl, h2⟩; exact ⟨h1, fun _ h => h ▸ h2, h3, trivial⟩
    · simp only [Bool.and_eq_true, Bool.or_eq_true, Option.isNone_iff_eq_none, decide_eq_true_eq,
        mem_filteredReplicas_iff hwf hts, hlive, any_datacenter, rackOk]
      constructor
      · rintro ⟨h0, h1, _, h3, _⟩; exact ⟨⟨h3, h1⟩, h0⟩
      · rintro ⟨⟨h3, h1⟩, h0⟩; exact ⟨h0, h1, (fun d h => by cases h), h3, trivial⟩

/-- **Classes 0-2 are exactly the live replicas of the token that the datacenter rule permits** - replicas by the
placement rule of C04, not by the model's own lookup. -/
theorem class_le2_iff {cl : Cluster} (hwf : WF cl) (cfg : Config) (rq : Request) (n : Node) :
    classOf cl cfg rq n ≤ 2 ↔ (LiveReplica cl cfg rq n ∧ Permitted cfg rq n) := by
  obtain ⟨h1, h2, h3⟩ := replica_preds hwf cfg rq n
  unfold classOf groupPreds
  rw [(classIdx8_facts _ _ _ _ _ _ _ _ _ _ _ _ _ _ _ _ n).2.2.1, h1, h2, h3, failoverPossible_iff]
  unfold Permitted LocalRack LocalDc
  constructor
  · rintro (⟨hl, d, r, hp, hd, _⟩ | ⟨hl, d, hp, hd⟩ | ⟨hl, h | h⟩)
    · exact ⟨hl, Or.inr (Or.inr (by rw [hp, hd]; rfl))⟩
    · exact ⟨hl, Or.inr (Or.inr (by rw [hp, hd]))⟩
    · exact ⟨hl, Or.inl h⟩
    · exact ⟨hl, Or.inr (Or.inl h.2)⟩
  · rintro ⟨hl, h | h | h⟩
    · exact Or.inr (Or.inr ⟨hl, Or.inl h⟩)
    · cases hd : (preference cfg rq).datacenter with
      | none => exact Or.inr (Or.inr ⟨hl, Or.inl rfl⟩)
      | some d => exact Or.inr (Or.inr ⟨hl, Or.inr ⟨by simp, h⟩⟩)
    · cases hd : (preference cfg rq).datacenter with
      | none => exact Or.inr (Or.inr ⟨hl, Or.inl rfl⟩)
      | some d => exact Or.inr (Or.inl ⟨hl, d, rfl, by rw [h, hd]⟩)

/-- **Class 0 = live replica in the preferred rack of the preferred datacenter.** -/
theorem class_eq0_iff {cl : Cluster} (hwf : WF cl) (cfg : Config) (rq : Request) (n : Node) :
    classOf cl cfg rq n = 0 ↔ (LiveReplica cl cfg rq n ∧ LocalRack cfg rq n) := by
  unfold classOf groupPreds
  rw [(classIdx8_facts _ _ _ _ _ _ _ _ _ _ _ _ _ _ _ _ n).1, (replica_preds hwf cfg rq n).1]

/-- **Classes 0-1 = live replica in the preferred datacenter.** -/
theorem class_le1_iff {cl : Cluster} (hwf : WF cl) (cfg : Config) (rq : Request) (n : Node) :
    classOf cl cfg rq n ≤ 1 ↔ (LiveReplica cl cfg rq n ∧ LocalDc cfg rq n) := by
  obtain ⟨h1, h2, _⟩ := replica_preds hwf cfg rq n
  unfold classOf groupPreds
  rw [(classIdx8_facts _ _ _ _ _ _ _ _ _ _ _ _ _ _ _ _ n).2.1, h1, h2]
  constructor
  · rintro (⟨hl, d, r, hp, hd, _⟩ | h)
    · exact ⟨hl, d, by rw [hp]; rfl, hd⟩
    · exact h
  · exact fun h => Or.inr h

/-- **Classes 0-5 = live token-owning nodes the datacenter rule permits.** -/
theorem class_le5_iff {cl : Cluster} (hwf : WF cl) (cfg : Config) (rq : Request) (n : Node) :
    classOf cl cfg rq n ≤ 5 ↔ (cl.alive n = true ∧ n ∈ allNodes cl ∧ Permitted cfg rq n) := by
  constructor
  · intro h
    by_cases h2 : classOf cl cfg rq n ≤ 2
    · obtain ⟨⟨ts, hts, ha, hspec⟩, hperm⟩ := (class_le2_iff hwf cfg rq n).mp h2
      have : n ∈ (replicaSet cl ts .any).ordered cl.loc :=
        (views hwf hts .any).2.2.1.mem_iff.mpr ((replicas_eq_spec hwf hts n).mpr hspec)
      exact ⟨ha, (views hwf hts .any).2.2.2.1 n this, hperm⟩
    · have hf := classIdx8_facts true true true false false false false false
      unfold classOf groupPreds at h h2
      rw [(hf _ _ _ _ _ _ _ _ n).2.2.2.1] at h
      rw [(hf _ _ _ _ _ _ _ _ n).2.2.1] at h2
      unfold Permitted
      rcases h with h | h | h | h | h | h
      · exact absurd (Or.inl h) h2
      · exact absurd (Or.inr (Or.inl h)) h2
      · exact absurd (Or.inr (Or.inr h)) h2
      · split at h
        · simp only [Bool.and_eq_true, decide_eq_true_eq, mem_localNodes_iff] at h
          exact ⟨h.2.1, h.1.1, h.1.2.elim Or.inl (fun x => Or.inr (Or.inr x))⟩
        · cases h
      · simp only [Bool.and_eq_true, decide_eq_true_eq, mem_localNodes_iff] at h
        exact ⟨h.2, h.1.1, h.1.2.elim Or.inl (fun x => Or.inr (Or.inr x))⟩
      · simp only [Bool.and_eq_true, decide_eq_true_eq, failoverPossible_iff] at h
        exact ⟨h.2.2, h.2.1, Or.inr (Or.inl h.1.2)⟩
  · rintro ⟨ha, hn, hperm⟩
    have hf := classIdx8_facts true true true false false false false false
    unfold classOf groupPreds
    rw [(hf _ _ _ _ _ _ _ _ n).2.2.2.1]
    by_cases hl : (preference cfg rq).datacenter = none ∨ n.dc = (preference cfg rq).datacenter
    · refine Or.inr (Or.inr (Or.inr (Or.inr (Or.inl ?_))))
      simp only [Bool.and_eq_true, decide_eq_true_eq, mem_localNodes_iff]
      exact ⟨⟨hn, hl⟩, ha⟩
    · refine Or.inr (Or.inr (Or.inr (Or.inr (Or.inr ?_))))
      simp only [Bool.and_eq_true, decide_eq_true_eq, failoverPossible_iff]
      rcases hperm with h | h | h
      · exact absurd (Or.inl h) hl
      · exact ⟨⟨fun hc => hl (Or.inl hc), h⟩, hn, ha⟩
      · exact absurd (Or.inr h) hl

/-- **Classes 0-7 = enabled token-owning nodes the datacenter rule permits** (what a plan consists of). -/
theorem class_lt8_iff {cl : Cluster} (hwf : WF cl) (cfg : Config) (rq : Request) (n : Node) :
    classOf cl cfg rq n < 8 ↔ (cl.enabled n = true ∧ n ∈ allNodes cl ∧ Permitted cfg rq n) := by
  constructor
  · intro h
    by_cases h5 : classOf cl cfg rq n ≤ 5
    · obtain ⟨ha, hn, hp⟩ := (class_le5_iff hwf cfg rq n).mp h5
      exact ⟨alive_enabled ha, hn, hp⟩
    · have hf := classIdx8_facts true true true false false false false false
      unfold classOf groupPreds at h h5
      rw [(hf _ _ _ _ _ _ _ _ n).2.2.2.2.1] at h
      rw [(hf _ _ _ _ _ _ _ _ n).2.2.2.1] at h5
      unfold Permitted
      rcases h with h | h | h | h | h | h | h | h
      · exact absurd (Or.inl h) h5
      · exact absurd (Or.inr (Or.inl h)) h5
      · exact absurd (Or.inr (Or.inr (Or.inl h))) h5
      · exact absurd (Or.inr (Or.inr (Or.inr (Or.inl h)))) h5
      · exact absurd (Or.inr (Or.inr (Or.inr (Or.inr (Or.inl h))))) h5
      · exact absurd (Or.inr (Or.inr (Or.inr (Or.inr (Or.inr h))))) h5
      · simp only [Bool.and_eq_true, decide_eq_true_eq, mem_localNodes_iff] at h
        exact ⟨h.2, h.1.1, h.1.2.elim Or.inl (fun x => Or.inr (Or.inr x))⟩
      · simp only [Bool.and_eq_true, decide_eq_true_eq, failoverPossible_iff] at h
        exact ⟨h.2.2, h.2.1, Or.inr (Or.inl h.1.2)⟩
  · rintro ⟨he, hn, hperm⟩
    have hf := classIdx8_facts true true true false false false false false
    unfold classOf groupPreds
    rw [(hf _ _ _ _ _ _ _ _ n).2.2.2.2.1]
    by_cases hl : (preference cfg rq).datacenter = none ∨ n.dc = (preference cfg rq).datacenter
    · refine Or.inr (Or.inr (Or.inr (Or.inr (Or.inr (Or.inr (Or.inl ?_))))))
      simp only [Bool.and_eq_true, decide_eq_true_eq, mem_localNodes_iff]
      exact ⟨⟨hn, hl⟩, he⟩
    · refine Or.inr (Or.inr (Or.inr (Or.inr (Or.inr (Or.inr (Or.inr ?_))))))
      simp only [Bool.and_eq_true, decide_eq_true_eq, failoverPossible_iff]
      rcases hperm with h | h | h
      · exact absurd (Or.inl h) hl
      · exact ⟨⟨fun hc => hl (Or.inl hc), h⟩, hn, he⟩
      · exact absurd (Or.inr h) hl

/-- **Classes 6-7 = enabled nodes believed down.** -/
theorem class_6_7 {cl : Cluster} (hwf : WF cl) (cfg : Config) (rq : Request) (n : Node)
    (h : 6 ≤ classOf cl cfg rq n ∧ classOf cl cfg rq n ≤ 7) : cl.enabled n = true ∧ cl.alive n = false := by
  obtain ⟨he, hn, hp⟩ := (class_lt8_iff hwf cfg rq n).mp (by omega)
  refine ⟨he, ?_⟩
  cases ha : cl.alive n with
  | false => rfl
  | true => have := (class_le5_iff hwf cfg rq n).mpr ⟨ha, hn, hp⟩; omega

/-- **Classes 3-5 = live nodes that are not (permitted) replicas, local rack / local datacenter / remote in the order
the code tries them.** -/
theorem class_3_4_5 {cl : Cluster} (hwf : WF cl) (cfg : Config) (rq : Request) (n : Node) :
    (classOf cl cfg rq n = 3 → (cl.alive n = true ∧ ¬ LiveReplica cl cfg rq n ∧ LocalRack cfg rq n)) ∧
    (classOf cl cfg rq n = 4 → (cl.alive n = true ∧ ¬ LiveReplica cl cfg rq n ∧
        ((preference cfg rq).datacenter = none ∨ n.dc = (preference cfg rq).datacenter))) ∧
    (classOf cl cfg rq n = 5 → (cl.alive n = true ∧ ¬ LiveReplica cl cfg rq n ∧ cfg.failover = true ∧
        (preference cfg rq).datacenter ≠ none ∧ n.dc ≠ (preference cfg rq).datacenter)) := by
  have hnot : 3 ≤ classOf cl cfg rq n → classOf cl cfg rq n ≤ 5 → Permitted cfg rq n ∧ ¬ LiveReplica cl cfg rq n := by
    intro h3 h5
    have hp := ((class_le5_iff hwf cfg rq n).mp h5).2.2
    exact ⟨hp, fun hl => by have := (class_le2_iff hwf cfg rq n).mpr ⟨hl, hp⟩; omega⟩
  have hf := classIdx8_facts true true true false false false false false
  refine ⟨?_, ?_, ?_⟩
  · intro h
    have ha := ((class_le5_iff hwf cfg rq n).mp (by omega)).1
    refine ⟨ha, (hnot (by omega) (by omega)).2, ?_⟩
    unfold classOf groupPreds at h
    have h4 := (hf _ _ _ _ _ _ _ _ n).2.2.2.2.2.1 h
    split at h4
    · rename_i d r hp
      simp only [Bool.and_eq_true, decide_eq_true_eq, mem_localNodes_iff, beq_iff_eq] at h4
      refine ⟨d, r, hp, ?_, h4.2.2⟩
      rcases h4.1.2 with hd | hd
      · rw [hp] at hd; cases hd
      · rw [hd, hp]; rfl
    · cases h4
  · intro h
    have ha := ((class_le5_iff hwf cfg rq n).mp (by omega)).1
    refine ⟨ha, (hnot (by omega) (by omega)).2, ?_⟩
    unfold classOf groupPreds at h
    have h5 := ((hf _ _ _ _ _ _ _ _ n).2.2.2.2.2.2.1 h).1
    simp only [Bool.and_eq_true, decide_eq_true_eq, mem_localNodes_iff] at h5
    exact h5.1.2
  · intro h
    obtain ⟨ha, hn, _⟩ := (class_le5_iff hwf cfg rq n).mp (by omega)
    refine ⟨ha, (hnot (by omega) (by omega)).2, ?_⟩
    unfold classOf groupPreds at h
    obtain ⟨h6, h5⟩ := (hf _ _ _ _ _ _ _ _ n).2.2.2.2.2.2.2 h
    simp only [Bool.and_eq_true, decide_eq_true_eq, failoverPossible_iff] at h6
    refine ⟨h6.1.2, h6.1.1, ?_⟩
    intro hd
    have : (decide (n ∈ localNodes cl (preference cfg rq)) && cl.alive n) = true := by
      simp only [Bool.and_eq_true, decide_eq_true_eq, mem_localNodes_iff]
      exact ⟨⟨hn, Or.inr hd⟩, ha⟩
    rw [this] at h5; cases h5

/-! ### the ordering clauses of the property, positionally on the plan -/

private theorem plan_pairwise_of_class {cl : Cluster} (hwf : WF cl) (cfg : Config) (rq : Request) (ρp : RhoPick) (ρf : RhoFb)
    (R : Node → Node → Prop)
    (h : ∀ a b, classOf cl cfg rq a ≤ classOf cl cfg rq b → classOf cl cfg rq b < 8 → R a b) :
    (plan cl cfg rq ρp ρf).Pairwise (fun a b => R a.1 b.1) :=
  List.Pairwise.imp_of_mem (fun {a b} _ hb hab => h a.1 b.1 hab (plan_members_classified hwf cfg rq ρp ρf b hb))
    (plan_order hwf cfg rq ρp ρf)

/-- **Every live replica of the token precedes every other node**: whenever `b` comes after `a` in a plan and `b` is a
live replica (by the placement rule), so is `a`. -/
theorem plan_replicas_first {cl : Cluster} (hwf : WF cl) (cfg : Config) (rq : Request) (ρp : RhoPick) (ρf : RhoFb) :
    (plan cl cfg rq ρp ρf).Pairwise (fun a b => LiveReplica cl cfg rq b.1 → LiveReplica cl cfg rq a.1) := by
  apply plan_pairwise_of_class hwf cfg rq ρp ρf (fun a b => LiveReplica cl cfg rq b → LiveReplica cl cfg rq a)
  intro a b hab hb hl
  have hpb := ((class_lt8_iff hwf cfg rq b).mp hb).2.2
  have := (class_le2_iff hwf cfg rq b).mpr ⟨hl, hpb⟩
  exact ((class_le2_iff hwf cfg rq a).mp (by omega)).1

/-- **Local-rack replicas precede all other nodes** (in particular the other replicas). -/
theorem plan_rack_replicas_first {cl : Cluster} (hwf : WF cl) (cfg : Config) (rq : Request) (ρp : RhoPick) (ρf : RhoFb) :
    (plan cl cfg rq ρp ρf).Pairwise (fun a b => (LiveReplica cl cfg rq b.1 ∧ LocalRack cfg rq b.1) →
      (LiveReplica cl cfg rq a.1 ∧ LocalRack cfg rq a.1)) := by
  apply plan_pairwise_of_class hwf cfg rq ρp ρf
    (fun a b => (LiveReplica cl cfg rq b ∧ LocalRack cfg rq b) → (LiveReplica cl cfg rq a ∧ LocalRack cfg rq a))
  intro a b hab _ hl
  have := (class_eq0_iff hwf cfg rq b).mpr hl
  exact (class_eq0_iff hwf cfg rq a).mp (by omega)

/-- **Replicas of the preferred datacenter precede all remaining nodes** (in particular the remote replicas). -/
theorem plan_dc_replicas_first {cl : Cluster} (hwf : WF cl) (cfg : Config) (rq : Request) (ρp : RhoPick) (ρf : RhoFb) :
    (plan cl cfg rq ρp ρf).Pairwise (fun a b => (LiveReplica cl cfg rq b.1 ∧ LocalDc cfg rq b.1) →
      (LiveReplica cl cfg rq a.1 ∧ LocalDc cfg rq a.1)) := by
  apply plan_pairwise_of_class hwf cfg rq ρp ρf
    (fun a b => (LiveReplica cl cfg rq b ∧ LocalDc cfg rq b) → (LiveReplica cl cfg rq a ∧ LocalDc cfg rq a))
  intro a b hab _ hl
  have := (class_le1_iff hwf cfg rq b).mpr hl
  exact (class_le1_iff hwf cfg rq a).mp (by omega)

/-- **Every live node precedes every node believed down.** -/
theorem plan_live_before_down {cl : Cluster} (hwf : WF cl) (cfg : Config) (rq : Request) (ρp : RhoPick) (ρf : RhoFb) :
    (plan cl cfg rq ρp ρf).Pairwise (fun a b => cl.alive b.1 = true → cl.alive a.1 = true) := by
  apply plan_pairwise_of_class hwf cfg rq ρp ρf (fun a b => cl.alive b = true → cl.alive a = true)
  intro a b hab hb hl
  obtain ⟨_, hn, hp⟩ := (class_lt8_iff hwf cfg rq b).mp hb
  have := (class_le5_iff hwf cfg rq b).mpr ⟨hl, hn, hp⟩
  exact ((class_le5_iff hwf cfg rq a).mp (by omega)).1

/-! ### which targets carry a shard; the LWT order against C04's ring -/

private theorem take3_sharded (cl : Cluster) (cfg : Config) (rq : Request) (ρ : RhoFb) :
    ∀ t ∈ ((fallbackGroups cl cfg rq ρ).take 3).flatten, t.2.isSome = true := by
  intro t ht
  have hrt : ∀ ts crit lwt shuf, t ∈ replicaTargets cl ts crit lwt shuf → t.2.isSome = true := by
    intro ts crit lwt shuf h
    rw [((mem_replicaTargets cl ts crit lwt shuf t).mp h).1]; rfl
  unfold fallbackGroups at ht
  simp only [List.take_succ_cons, List.take_zero, List.flatten_cons, List.flatten_nil, List.append_nil,
    List.mem_append] at ht
  rcases ht with ht | ht | ht
  · split at ht
    · exact hrt _ _ _ _ ht
    · simp at ht
  · split at ht
    · exact hrt _ _ _ _ ht
    · simp at ht
  · split at ht
    · split at ht
      · exact hrt _ _ _ _ ht
      · simp at ht
    · simp at ht

/-- **A target of `fallback` carries a shard exactly when its node is a live replica of the token (by the placement
rule of C04) that the datacenter rule permits.** -/
theorem fallback_shard_iff {cl : Cluster} (hwf : WF cl) (cfg : Config) (rq : Request) (ρ : RhoFb) {t : Target}
    (ht : t ∈ fallback cl cfg rq ρ) :
    t.2.isSome = true ↔ (LiveReplica cl cfg rq t.1 ∧ Permitted cfg rq t.1) := by
  rw [← class_le2_iff hwf]
  constructor
  · intro hs
    obtain ⟨bp, hbp, h1, h2⟩ := mem_fallback_groups ht
    unfold classOf groupPreds
    rw [(classIdx8_facts _ _ _ _ _ _ _ _ _ _ _ _ _ _ _ _ t.1).2.2.1]
    have hb : bp.1 = true := by
      cases hb : bp.1 with
      | true => rfl
      | false => rw [h1, hb] at hs; simp [mk, shardless] at hs
    simp only [groupPreds, List.mem_cons, List.not_mem_nil, or_false] at hbp
    rcases hbp with rfl | rfl | rfl | rfl | rfl | rfl | rfl | rfl
    · exact Or.inl h2
    · exact Or.inr (Or.inl h2)
    · exact Or.inr (Or.inr h2)
    all_goals cases hb
  · intro hc
    -- the sharded copy of the node is in one of the three replica groups, hence earlier in the chain
    unfold classOf groupPreds at hc
    rw [(classIdx8_facts _ _ _ _ _ _ _ _ _ _ _ _ _ _ _ _ t.1).2.2.1] at hc
    have hin : mk cl true t.1 ∈ (fallbackGroups cl cfg rq ρ).flatten := by
      rw [describes_mem (groups_described cl cfg rq ρ)]
      rcases hc with hc | hc | hc
      · exact ⟨_, by simp only [groupPreds, List.mem_cons]; exact Or.inl rfl, by rw [mk_fst], by rw [mk_fst]; exact hc⟩
      · exact ⟨_, by simp only [groupPreds, List.mem_cons]; exact Or.inr (Or.inl rfl), by rw [mk_fst],
          by rw [mk_fst]; exact hc⟩
      · exact ⟨_, by simp only [groupPreds, List.mem_cons]; exact Or.inr (Or.inr (Or.inl rfl)), by rw [mk_fst],
          by rw [mk_fst]; exact hc⟩
    rw [← List.take_append_drop 3 (fallbackGroups cl cfg rq ρ), List.flatten_append, List.mem_append] at hin
    have hinR : mk cl true t.1 ∈ ((fallbackGroups cl cfg rq ρ).take 3).flatten := by
      rcases hin with h | h
      · exact h
      · have := drop3_shardless cl cfg rq ρ _ h
        simp [mk, sharded] at this
    rw [fallback_eq_dedup, ← List.take_append_drop 3 (fallbackGroups cl cfg rq ρ), List.flatten_append] at ht
    obtain ⟨seen', hs', happ⟩ := dedupFrom_append []
      ((fallbackGroups cl cfg rq ρ).take 3).flatten ((fallbackGroups cl cfg rq ρ).drop 3).flatten
    rw [happ, List.mem_append] at ht
    rcases ht with ht | ht
    · exact take3_sharded cl cfg rq ρ t (mem_dedupFrom ht).1
    · exfalso
      apply (mem_dedupFrom ht).2
      rw [hs']
      exact Or.inr (List.mem_map.mpr ⟨_, hinR, by rw [mk_fst]⟩)

/-- **A target of a plan carries a shard (is there "as a replica") exactly when its node is a live replica of the
token by the placement rule of C04 that the datacenter rule permits** - so the shard-bearing subsequence that
`lwt_deterministic` talks about is the subsequence of the live permitted replicas. -/
theorem plan_shard_iff {cl : Cluster} (hwf : WF cl) (cfg : Config) (rq : Request) (ρp : RhoPick) (ρf : RhoFb) {t : Target}
    (ht : t ∈ plan cl cfg rq ρp ρf) :
    t.2.isSome = true ↔ (LiveReplica cl cfg rq t.1 ∧ Permitted cfg rq t.1) :=
  fallback_shard_iff hwf cfg rq ρf ((plan_mem_iff hwf cfg rq ρp ρf t).mp ht)

private theorem distinct_eq_uniq {α : Type} [DecidableEq α] (l : List α) : C04.distinct l = uniq l := by
  induction l with
  | nil => rfl
  | cons a l ih =>
    unfold C04.distinct uniq
    rw [uniqFrom, if_neg (by simp), ih, uniqFrom_cons_seen]
    rfl

/-- **LWT, ring order, against C04's ring**: each replica list of an LWT request is a subsequence of
`C04.nodesClockwise ring token` - the distinct nodes met walking the ring clockwise from the token (owners of tokens
`≥ token` in ascending order, then the rest), the very list the placement rule of C04 is stated on. -/
theorem lwt_ring_order_clockwise {cl : Cluster} (hwf : WF cl) {cfg : Config} {rq : Request} {ts : Strategy × Int}
    (hts : tokenWithStrategy cl cfg rq = some ts) (crit : Pref) :
    (filteredReplicas cl ts crit true).Sublist (C04.nodesClockwise cl.loc.ring ts.2) := by
  obtain ⟨r, S, hs, hloc⟩ := hwf.locator
  have h := lwt_ring_order hwf hts crit
  rw [hloc] at h ⊢
  unfold C04.nodesClockwise
  rw [distinct_eq_uniq, ← C04.ringRange_eq_clockwise hs]
  exact h

/-- **LWT, the whole clause**: for a request routed as LWT and every random choice, the replicas of the plan - its
targets whose node is a live permitted replica by the placement rule - are the first-occurrence de-duplication of
three lists (preferred rack, preferred datacenter, everywhere), each a clockwise subsequence of C04's ring walk. -/
theorem lwt_plan_replicas {cl : Cluster} (hwf : WF cl) (cfg : Config) (rq : Request) (hlwt : rq.routeAsLwt = true)
    (ρp : RhoPick) (ρf : RhoFb) :
    (plan cl cfg rq ρp ρf).filter (fun t => decide (classOf cl cfg rq t.1 ≤ 2)) = uniqueBy (lwtReplicas cl cfg rq) := by
  rw [← lwt_deterministic hwf cfg rq hlwt ρp ρf]
  apply List.filter_congr
  intro t ht
  rw [Bool.eq_iff_iff, decide_eq_true_eq, class_le2_iff hwf, plan_shard_iff hwf cfg rq ρp ρf ht]

/-! ### the clusters of the differential run are well-formed -/

private theorem eraseDups_length_le (l : List Nat) : l.eraseDups.length ≤ l.length := by
  match l with
  | [] => simp
  | a :: as =>
    rw [List.eraseDups_cons]
    have h1 := eraseDups_length_le (as.filter (fun b => !b == a))
    have h2 := List.length_filter_le (fun b => !b == a) as
    simp only [List.length_cons]; omega
termination_by l.length
decreasing_by
  have := List.length_filter_le (fun b => !b == a) as
  simp only [List.length_cons]; omega

private theorem nodup_of_eraseDups_length (l : List Nat) (h : l.eraseDups.length = l.length) : l.Nodup := by
  induction l with
  | nil => exact List.nodup_nil
  | cons a as ih =>
    rw [List.eraseDups_cons] at h
    simp only [List.length_cons, Nat.add_right_cancel_iff] at h
    have h1 := eraseDups_length_le (as.filter (fun b => !b == a))
    have h2 := List.length_filter_le (fun b => !b == a) as
    have hall := List.length_filter_eq_length_iff.mp (show (as.filter (fun b => !b == a)).length = as.length by omega)
    rw [List.filter_eq_self.mpr hall] at h
    refine List.nodup_cons.mpr ⟨?_, ih h⟩
    intro hmem
    have := hall a hmem
    simp at this

private theorem mapM_option_mem {α β : Type} (f : α → Option β) (l : List α) (l' : List β) (h : l.mapM f = some l') :
    ∀ y ∈ l', ∃ x ∈ l, f x = some y := by
  induction l generalizing l' with
  | nil =>
    simp only [List.mapM_nil] at h
    cases h; simp
  | cons a l ih =>
    rw [List.mapM_cons] at h
    cases hfa : f a with
    | none => rw [hfa] at h; cases h
    | some b =>
      rw [hfa] at h
      cases hl : l.mapM f with
      | none => rw [hl] at h; cases h
      | some bs =>
        rw [hl] at h
        cases h
        intro y hy
        rcases List.mem_cons.mp hy with rfl | hy
        · exact ⟨a, List.mem_cons_self .., hfa⟩
        · obtain ⟨x, hx, hfx⟩ := ih bs hl y hy
          exact ⟨x, List.mem_cons_of_mem _ hx, hfx⟩

private theorem inj_of_nodup_map {α β : Type} (f : α → β) {l : List α} (hn : (l.map f).Nodup) {a b : α}
    (ha : a ∈ l) (hb : b ∈ l) (h : f a = f b) : a = b := by
  induction l with
  | nil => simp at ha
  | cons c l ih =>
    simp only [List.map_cons, List.nodup_cons] at hn
    rcases List.mem_cons.mp ha with ha' | ha'
    · rcases List.mem_cons.mp hb with hb' | hb'
      · rw [ha', hb']
      · exact absurd (List.mem_map.mpr ⟨b, hb', by rw [← h, ha']⟩) hn.1
    · rcases List.mem_cons.mp hb with hb' | hb'
      · exact absurd (List.mem_map.mpr ⟨a, ha', by rw [h, hb']⟩) hn.1
      · exact ih hn.2 ha' hb'

open ScyllaVerif.Drive.Topology in
private theorem parseStrategy_nts_keys {w : String} {repf : List (Nat × Nat)} (h : parseStrategy w = some (.nts repf)) :
    (repf.map (·.1)).Nodup := by
  unfold parseStrategy at h
  split at h
  · cases h
  · split at h
    · cases h
    · split at h
      · cases hm : (w.drop 1).toString.toNat? with
        | none => rw [hm] at h; cases h
        | some n => rw [hm] at h; cases h
      · split at h
        · cases h; exact List.nodup_nil
        · split at h
          · split at h
            · rename_i repf' _
              split at h
              · rename_i hlen
                cases h
                exact nodup_of_eraseDups_length _ (by simpa using hlen)
              · cases h
            · cases h
          · cases h

open ScyllaVerif.Drive.Topology ScyllaVerif.Drive.C05 in
/-- **Every cluster the differential run builds satisfies `WF`**: whatever topology and keyspace list the case-line
parsers accept (`parseTopologyEx` rejects repeated host ids, `parseStrategy` repeated NTS datacenter keys), the model
cluster `mkCluster` has a locator built from a sorted ring (`C04.ring_sorted`), NTS maps with distinct keys and
pairwise distinct host ids in the ring - so the theorems apply to each of them. -/
theorem mkCluster_WF {topo kss : String} {ps : List (Peer × String)} {ks : List Strategy} (tok : Option Int)
    (h1 : parseTopologyEx topo = some ps) (h2 : parseStrategies kss = some ks) : WF (mkCluster ps ks tok) := by
  -- host ids of the accepted peers are pairwise distinct
  have hids : (ps.map (·.1.node.id)).Nodup := by
    unfold parseTopologyEx at h1
    split at h1
    · cases h1; exact List.nodup_nil
    · split at h1
      · cases h1
      · simp only [] at h1
        split at h1
        · rename_i hc
          cases h1
          simp only [Bool.and_eq_true, beq_iff_eq] at hc
          exact nodup_of_eraseDups_length _ hc.1
        · cases h1
  refine ⟨⟨mkRing (Topology.entries (ps.map (·.1))), ks, C04.ring_sorted _, rfl⟩, ?_, ?_⟩
  · intro repf hmem
    unfold parseStrategies at h2
    split at h2
    · cases h2; cases hmem
    · obtain ⟨w, _, hw⟩ := mapM_option_mem _ _ _ h2 _ hmem
      exact parseStrategy_nts_keys hw
  · -- ring nodes are nodes of peers; peers have distinct ids
    have hnode : ∀ a ∈ allNodes (mkCluster ps ks tok), ∃ p ∈ ps, p.1.node = a := by
      intro a ha
      unfold allNodes uniqueNodes at ha
      rw [mem_uniq] at ha
      obtain ⟨e, he, rfl⟩ := List.mem_map.mp ha
      have he' : e ∈ Topology.entries (ps.map (·.1)) := (mkRing_perm _).mem_iff.mp he
      unfold Topology.entries at he'
      obtain ⟨p, hp, hpe⟩ := List.mem_flatMap.mp he'
      obtain ⟨tk, _, rfl⟩ := List.mem_map.mp hpe
      obtain ⟨q, hq, rfl⟩ := List.mem_map.mp hp
      exact ⟨q, hq, rfl⟩
    intro a ha b hb hab
    obtain ⟨p, hp, rfl⟩ := hnode a ha
    obtain ⟨q, hq, rfl⟩ := hnode b hb
    have : p = q := inj_of_nodup_map (fun x : Peer × String => x.1.node.id) hids hp hq hab
    rw [this]

/-! ### non-vacuity: the suite's 7-node, 2-datacenter ring with vnodes; node 2 down, node 7 disabled -/

/-- Nodes 1,2,3,7 in datacenter 0 (racks 1,1,3,2), nodes 4,5,6 in datacenter 1 (no rack, racks 1,2). -/
def exRing : Ring Node :=
  [(50, ⟨1, some 0, some 1⟩), (100, ⟨2, some 0, some 1⟩), (150, ⟨1, some 0, some 1⟩), (200, ⟨5, some 1, some 1⟩),
   (250, ⟨2, some 0, some 1⟩), (300, ⟨3, some 0, some 3⟩), (400, ⟨4, some 1, none⟩), (500, ⟨1, some 0, some 1⟩),
   (600, ⟨6, some 1, some 2⟩), (700, ⟨7, some 0, some 2⟩), (800, ⟨4, some 1, none⟩), (900, ⟨6, some 1, some 2⟩)]

def exCluster : Cluster :=
  { loc := C04.locOf exRing [], keyspaces := [.nts [(0, 2), (1, 2)], .simple 3]
    disabled := [7], down := [2], sh := fun _ => 0 }

/-- prefer datacenter 0 rack 1, token aware, failover permitted -/
def exCfg : Config := ⟨some (.dcRack 0 1), true, true⟩
/-- token 160 in keyspace k0 (NTS {0: 2, 1: 2}); not an LWT -/
def exRq : Request := ⟨.quorum, some 160, some 0, false, .any⟩
/-- the same request as a confirmed LWT -/
def exRqLwt : Request := ⟨.quorum, some 160, some 0, true, .any⟩
def ρp0 : RhoPick := ⟨0, 0, 0, 0, 0, 0, 0, 0, 0, 0, 0⟩
def ρf0 : RhoFb := ⟨[], [], [], 0, 0, 0⟩
def ρp1 : RhoPick := ⟨1, 1, 1, 1, 1, 1, 3, 2, 4, 1, 1⟩
def ρf1 : RhoFb := ⟨[], [1], [1, 1, 1], 2, 1, 3⟩

/-- the hypotheses of the theorems are satisfiable -/
example : WF exCluster :=
  ⟨⟨exRing, [], by decide, rfl⟩, by
    intro repf h
    simp only [exCluster, List.mem_cons, Strategy.nts.injEq, List.not_mem_nil, or_false, reduceCtorEq] at h
    subst h; decide, by decide⟩

example : (allNodes exCluster).map (·.id) = [1, 2, 5, 3, 4, 6, 7] := by decide
-- the classes: 3 is the live local replica (its rack is not the preferred one), 5 and 4 live remote replicas, 1 the live
-- local-rack node, 6 a live remote node, 2 is down, 7 is disabled (not in the plan)
example : (allNodes exCluster).map (classOf exCluster exCfg exRq) = [3, 6, 2, 1, 2, 5, 8] := by decide
-- two plans of the same request under different random choices: same nodes, replicas shuffled, classes non-decreasing
example : (plan exCluster exCfg exRq ρp0 ρf0).map (fun t => (t.1.id, t.2.isSome)) =
    [(3, true), (5, true), (4, true), (1, false), (6, false), (2, false)] := by decide
example : (plan exCluster exCfg exRq ρp1 ρf1).map (fun t => (t.1.id, t.2.isSome)) =
    [(3, true), (4, true), (5, true), (1, false), (6, false), (2, false)] := by decide
-- without failover the plan stays in datacenter 0
example : (plan exCluster ⟨some (.dcRack 0 1), true, false⟩ exRq ρp1 ρf1).map (·.1.id) = [3, 1, 2] := by decide
-- LWT: the replicas in ring order from token 160 (5 owns 200, 3 owns 300, 4 owns 400; 2 owns 250 but is down), local first
example : (lwtReplicas exCluster exCfg exRqLwt).map (·.1.id) = [3, 5, 3, 4] ∧
    (uniqueBy (lwtReplicas exCluster exCfg exRqLwt)).map (·.1.id) = [3, 5, 4] ∧
    (plan exCluster exCfg exRqLwt ρp1 ρf1).map (·.1.id) = [3, 5, 4, 1, 6, 2] ∧ exRqLwt.routeAsLwt = true := by decide
-- the classes in model-independent terms: by the placement rule of C04 the replicas of token 160 under NTS {0: 2, 1: 2}
-- are 2, 3 (datacenter 0) and 5, 4 (datacenter 1); node 3 is a live replica in the preferred datacenter but not rack
example : (specReplicas exRing (.nts [(0, 2), (1, 2)]) 160).map (·.id) = [2, 3, 5, 4] := by decide
example : LiveReplica exCluster exCfg exRq ⟨3, some 0, some 3⟩ ∧ LocalDc exCfg exRq ⟨3, some 0, some 3⟩ ∧
    ¬ LocalRack exCfg exRq ⟨3, some 0, some 3⟩ ∧ Permitted exCfg exRq ⟨5, some 1, some 1⟩ :=
  ⟨⟨(.nts [(0, 2), (1, 2)], 160), by decide, by decide, by decide⟩, ⟨0, by decide, by decide⟩,
    by
      rintro ⟨d, r, h1, _, h3⟩
      have : preference exCfg exRq = .dcRack 0 1 := by decide
      rw [this] at h1
      cases h1
      revert h3; decide, Or.inr (Or.inl rfl)⟩
example : shuffleWith [1, 0, 5] [10, 20, 30] = [20, 10, 30] := by decide

/-! ### the `Hash` / `Eq` contract of the target comparator -/

/-- **The hash map of `unique_by` is invisible**: `impl Hash` reads the host id only, so equal keys (under the
non-transitive `impl Eq`) always share a bucket, and looking a probe up among the stored keys of its own hash finds an
equal key iff one was kept at all. -/
theorem uniqueByHashed_targetHash (l : List Target) : uniqueByHashed targetHash l = uniqueBy l :=
  uniqueByHashedFrom_eq targetHash_contract [] l

/-- ... for `fallback` as defined: the literal hash-map formulation gives the same list. -/
theorem fallback_hashed (cl : Cluster) (cfg : Config) (rq : Request) (ρ : RhoFb) :
    fallback cl cfg rq ρ = uniqueByHashed targetHash (fallbackGroups cl cfg rq ρ).flatten :=
  (uniqueByHashed_targetHash _).symm

/-- **The hash must not read the shard**: with ANY hash that separates a sharded target from the shard-less target of
the same node (as a derived `Hash` over `(host_id, shard)` does), the two are both kept - the node is named twice. -/
theorem comparator_hash_must_ignore_shard (hash : Target → Nat) (n : Node) (s : Nat)
    (h : hash (n, some s) ≠ hash (n, none)) :
    uniqueByHashed hash [(n, some s), (n, none)] = [(n, some s), (n, none)] ∧
      uniqueBy [(n, some s), (n, none)] = [(n, some s)] := by
  constructor
  · simp [uniqueByHashed, uniqueByHashedFrom, h]
  · simp [uniqueBy, uniqueByFrom, targetEq]

/-- What `unique_by` guarantees for ARBITRARY shards (no "one shard per node" assumption; tablet replicas may name a node
with two shards): no two kept targets are equal under the comparator, every dropped one equals a kept one. -/
theorem uniqueBy_spec (l : List Target) :
    (uniqueBy l).Sublist l ∧ (uniqueBy l).Pairwise (fun a b => targetEq a b = false) ∧
      ∀ t ∈ l, ∃ u ∈ uniqueBy l, targetEq u t = true := by
  refine ⟨uniqueByFrom_sublist [] l, (uniqueByFrom_pairwise [] l).1, ?_⟩
  intro t ht
  rcases uniqueByFrom_cover (seen := []) ht with ⟨s, hs, _⟩ | h
  · simp at hs
  · exact h

-- the two-shards arm of the comparator: the same node with two different shards is two targets, the shard-less one is
-- equal to both (the comparator is not transitive)
example : uniqueBy [(⟨1, none, none⟩, some 3), (⟨1, none, none⟩, some 5), (⟨1, none, none⟩, none), (⟨1, none, none⟩, some 3)] =
    [(⟨1, none, none⟩, some 3), (⟨1, none, none⟩, some 5)] := by decide

/-! ### tablet tables: the plan of the default policy when the replicas come from the tablet map

`Routing.planT cl cfg rq V` (C12's model, `Model/Routing.lean`) is `DefaultPolicy::{pick, fallback}` + `Plan` on a
`ReplicaSetInner::PlainSharded` set: `V none` = the covering tablet's replicas `(node, shard)`, `V (some d)` = its
replicas in datacenter `d`.  The theorems hold for ANY `V` - any shards, a node listed with several shards - under
`TabletOK`. -/

open ScyllaVerif.Routing in
/-- What `update_tablets` guarantees about a tablet's replica lists: the per-datacenter list of `d` consists of exactly
the members of the full list that are in `d` (C15: order-preserving filter), and known nodes with equal host id are the
same node. -/
structure TabletOK (cl : Cluster) (V : Option Nat → List SRep) : Prop where
  dcSub : ∀ d, ∀ r ∈ V (some d), r ∈ V none ∧ r.1.dc = some d
  dcAll : ∀ d, ∀ r ∈ V none, r.1.dc = some d → r ∈ V (some d)
  distinctIds : ∀ a b : Node, (a ∈ allNodes cl ∨ a ∈ (V none).map (·.1)) → (b ∈ allNodes cl ∨ b ∈ (V none).map (·.1)) →
    a.id = b.id → a = b

section tablets
open ScyllaVerif.Routing

/-- The chain of `fallbackT`. -/
private def chainT (cl : Cluster) (cfg : Config) (rq : Request) (V : Option Nat → List SRep) (ρ : RhoFb) : List (List Target) :=
  (if tokenAware cl cfg rq then replicaGroupsT cl cfg rq V ρ else []) ++ (fallbackGroups cl cfg (rqNoToken rq) ρ).drop 3

private theorem mem_replicaTargetsT (cl : Cluster) (V : Option Nat → List SRep) (crit : Pref) (lwt : Bool) (shuf : List Nat)
    (t : Target) : t ∈ replicaTargetsT cl V crit lwt shuf ↔ ∃ r ∈ filteredT cl V crit, t = targetT r := by
  unfold replicaTargetsT
  rw [List.mem_map]
  have : ∀ r, r ∈ (if lwt = true then filteredT cl V crit else shuffleWith shuf (filteredT cl V crit)) ↔
      r ∈ filteredT cl V crit := by
    intro r; split
    · rfl
    · exact (shuffleWith_perm shuf _).mem_iff
  constructor
  · rintro ⟨r, hr, rfl⟩; exact ⟨r, (this r).mp hr, rfl⟩
  · rintro ⟨r, hr, rfl⟩; exact ⟨r, (this r).mpr hr, rfl⟩

/-- Members of the replica groups: a live replica of the tablet (of the datacenter / rack the group asks for) with the
tablet's shard. -/
private theorem mem_replicaGroupsT {cl : Cluster} {cfg : Config} {rq : Request} {V : Option Nat → List SRep} {ρ : RhoFb}
    {t : Target} (h : t ∈ (replicaGroupsT cl cfg rq V ρ).flatten) :
    ∃ crit, ∃ r ∈ filteredT cl V crit, t = targetT r ∧
      (crit.datacenter = none ∨ crit.datacenter = (preference cfg rq).datacenter) ∧
      (crit.datacenter = none → ((preference cfg rq).datacenter = none ∨ failoverPossible cfg rq = true)) := by
  unfold replicaGroupsT at h
  simp only [List.flatten_cons, List.flatten_nil, List.append_nil, List.mem_append] at h
  rcases h with h | h | h
  · split at h
    · rename_i d r hp
      obtain ⟨x, hx, rfl⟩ := (mem_replicaTargetsT _ _ _ _ _ _).mp h
      exact ⟨.dcRack d r, x, hx, rfl, Or.inr (by rw [hp]), by intro hc; cases hc⟩
    · simp at h
  · split at h
    · rename_i d hp
      obtain ⟨x, hx, rfl⟩ := (mem_replicaTargetsT _ _ _ _ _ _).mp h
      exact ⟨.dc d, x, hx, rfl, Or.inr (by rw [hp]; rfl), by intro hc; cases hc⟩
    · simp at h
  · split at h
    · rename_i hc
      obtain ⟨x, hx, rfl⟩ := (mem_replicaTargetsT _ _ _ _ _ _).mp h
      refine ⟨.any, x, hx, rfl, Or.inl rfl, fun _ => ?_⟩
      simpa [Option.isNone_iff_eq_none] using hc
    · simp at h

private theorem mem_filteredT {cl : Cluster} {V : Option Nat → List SRep} {crit : Pref} {r : SRep}
    (h : r ∈ filteredT cl V crit) : r ∈ V crit.datacenter ∧ cl.alive r.1 = true ∧ rackOk crit r.1 = true := by
  unfold filteredT predT at h
  obtain ⟨h1, h2⟩ := List.mem_filter.mp h
  simp only [Bool.and_eq_true] at h2
  exact ⟨h1, h2.1, h2.2⟩

/-- Members of the node groups (the token-unaware part): shard-less ring nodes of one of the last five predicates. -/
private theorem mem_nodeGroupsT {cl : Cluster} {cfg : Config} {rq : Request} {ρ : RhoFb} {t : Target}
    (h : t ∈ ((fallbackGroups cl cfg (rqNoToken rq) ρ).drop 3).flatten) :
    t.2 = none ∧ ∃ bp ∈ groupPreds cl cfg (rqNoToken rq), t = mk cl bp.1 t.1 ∧ bp.2 t.1 = true := by
  refine ⟨drop3_shardless cl cfg (rqNoToken rq) ρ t h, ?_⟩
  have : t ∈ (fallbackGroups cl cfg (rqNoToken rq) ρ).flatten := by
    rw [← List.take_append_drop 3 (fallbackGroups cl cfg (rqNoToken rq) ρ), List.flatten_append]
    exact List.mem_append_right _ h
  exact (describes_mem (groups_described cl cfg (rqNoToken rq) ρ) t).mp this

private theorem pref_noToken (cfg : Config) (rq : Request) : preference cfg (rqNoToken rq) = preference cfg rq := rfl

private theorem fp_noToken (cfg : Config) (rq : Request) : failoverPossible cfg (rqNoToken rq) = failoverPossible cfg rq := rfl

/-- Every target of the chain: enabled; and classified as replica (sharded) or node (shard-less ring node). -/
private theorem chainT_mem {cl : Cluster} (hwf : WF cl) {cfg : Config} {rq : Request} {V : Option Nat → List SRep}
    (hV : TabletOK cl V) {ρ : RhoFb} {t : Target} (h : t ∈ (chainT cl cfg rq V ρ).flatten) :
    cl.enabled t.1 = true ∧ (t.1 ∈ allNodes cl ∨ t.1 ∈ (V none).map (·.1)) ∧
      (cfg.failover = false → ∀ d, (preference cfg rq).datacenter = some d → t.1.dc = some d) := by
  unfold chainT at h
  rw [List.flatten_append, List.mem_append] at h
  rcases h with h | h
  · split at h
    · obtain ⟨crit, r, hr, rfl, hc1, hc2⟩ := mem_replicaGroupsT h
      obtain ⟨h1, h2, _⟩ := mem_filteredT hr
      have hin : r ∈ V none := by
        cases hd : crit.datacenter with
        | none => rw [hd] at h1; exact h1
        | some d => rw [hd] at h1; exact (hV.dcSub d r h1).1
      refine ⟨alive_enabled h2, Or.inr (List.mem_map.mpr ⟨r, hin, rfl⟩), ?_⟩
      intro hfo d hd
      cases hcd : crit.datacenter with
      | none =>
        rcases hc2 hcd with h' | h'
        · rw [hd] at h'; cases h'
        · rw [(failoverPossible_iff cfg rq)] at h'; rw [hfo] at h'; cases h'.2
      | some d' =>
        rw [hcd] at h1
        rcases hc1 with h' | h'
        · rw [hcd] at h'; cases h'
        · rw [hcd, hd] at h'
          simp only [Option.some.injEq] at h'
          subst h'
          exact (hV.dcSub _ r h1).2
    · simp at h
  · obtain ⟨_, bp, hbp, _, h2⟩ := mem_nodeGroupsT h
    refine ⟨groupPreds_enabled hbp h2, Or.inl (groupPreds_ring hwf hbp h2), ?_⟩
    intro hfo d hd
    exact groupPreds_dc hwf hfo (by rw [pref_noToken]; exact hd) hbp h2

private theorem fit_replicaT (cl : Cluster) (V : Option Nat → List SRep) (crit : Pref) (lwt : Bool) (i j : Nat) (shuf : List Nat) :
    Fit ((pickReplicaT cl V crit lwt i j).map retPickedT) (replicaTargetsT cl V crit lwt shuf) := by
  have hnil : filteredT cl V crit = [] → replicaTargetsT cl V crit lwt shuf = [] := by
    intro h; unfold replicaTargetsT; rw [h]; cases lwt <;> simp [shuffleWith_nil]
  constructor
  · intro t h
    obtain ⟨pk, hpk, hr⟩ := Option.map_eq_some_iff.mp h
    cases pk with
    | toBeComputedInFallback => cases hr
    | computed r =>
      simp only [retPickedT, Option.some.injEq] at hr
      subst hr
      rw [mem_replicaTargetsT]
      refine ⟨r, ?_, rfl⟩
      unfold pickReplicaT at hpk
      cases lwt with
      | true =>
        simp only [if_true] at hpk
        unfold pickFirstT at hpk
        cases crit with
        | any =>
          simp only [Option.map_eq_some_iff] at hpk
          obtain ⟨p, hp, hf⟩ := hpk
          split at hf
          · rename_i ha
            simp only [PickedT.computed.injEq] at hf
            subst hf
            unfold filteredT predT
            exact List.mem_filter.mpr ⟨List.mem_of_head? hp, by simp [ha, rackOk]⟩
          · cases hf
        | dc d =>
          simp only [Option.map_eq_some_iff, PickedT.computed.injEq, exists_eq_right] at hpk
          exact List.mem_of_head? hpk
        | dcRack d r' =>
          simp only [Option.map_eq_some_iff, PickedT.computed.injEq, exists_eq_right] at hpk
          exact List.mem_of_head? hpk
      | false =>
        simp only [Bool.false_eq_true, if_false, Option.map_eq_some_iff, PickedT.computed.injEq, exists_eq_right] at hpk
        unfold chooseFilteredT at hpk
        unfold filteredT
        split at hpk
        · cases hpk
        · split at hpk
          · cases hpk
          · rename_i happy hh
            split at hpk
            · rename_i hp
              simp only [Option.some.injEq] at hpk
              subst hpk
              exact List.mem_filter.mpr ⟨List.mem_of_getElem? hh, hp⟩
            · exact List.mem_of_getElem? hpk
  · intro h
    apply hnil
    have h := Option.map_eq_none_iff.mp h
    unfold pickReplicaT at h
    cases lwt with
    | true =>
      simp only [if_true] at h
      unfold pickFirstT at h
      cases crit with
      | any =>
        simp only [Option.map_eq_none_iff, List.head?_eq_none_iff] at h
        unfold filteredT
        have : Pref.any.datacenter = none := rfl
        rw [this, h]; rfl
      | dc d => simpa only [Option.map_eq_none_iff, List.head?_eq_none_iff] using h
      | dcRack d r => simpa only [Option.map_eq_none_iff, List.head?_eq_none_iff] using h
    | false =>
      simp only [Bool.false_eq_true, if_false, Option.map_eq_none_iff] at h
      unfold chooseFilteredT at h
      unfold filteredT
      split at h
      · rename_i h0
        rw [List.length_eq_zero_iff.mp h0]; rfl
      · split at h
        · rename_i hh
          rw [getElem?_mod_none hh]; rfl
        · split at h
          · cases h
          · exact getElem?_mod_none h

private theorem compatT_replica (cl : Cluster) (cfg : Config) (rq : Request) (V : Option Nat → List SRep)
    (ρp : RhoPick) (ρf : RhoFb) :
    Compat (if tokenAware cl cfg rq then replicaStepsT cl cfg rq V ρp else [])
      (if tokenAware cl cfg rq then replicaGroupsT cl cfg rq V ρf else []) := by
  split
  · unfold replicaStepsT replicaGroupsT
    simp only [Compat, and_true]
    refine ⟨?_, ?_, ?_⟩
    · cases preference cfg rq with
      | any => exact fit_none
      | dc d => exact fit_none
      | dcRack d r => exact fit_replicaT _ _ _ _ _ _ _
    · cases (preference cfg rq).datacenter with
      | none => exact fit_none
      | some d => exact fit_replicaT _ _ _ _ _ _ _
    · split
      · exact fit_replicaT _ _ _ _ _ _ _
      · exact fit_none
  · trivial

private theorem compatT {cl : Cluster} (hwf : WF cl) (cfg : Config) (rq : Request) (V : Option Nat → List SRep)
    (ρp : RhoPick) (ρf : RhoFb) :
    Compat ((if tokenAware cl cfg rq then replicaStepsT cl cfg rq V ρp else []) ++ (pickSteps cl cfg (rqNoToken rq) ρp).drop 3)
      (chainT cl cfg rq V ρf) :=
  compat_append (compatT_replica cl cfg rq V ρp ρf) (compat_drop (pick_compat hwf cfg (rqNoToken rq) ρp ρf) 3)

private theorem fallbackT_eq (cl : Cluster) (cfg : Config) (rq : Request) (V : Option Nat → List SRep) (ρ : RhoFb) :
    fallbackT cl cfg rq V ρ = uniqueBy (chainT cl cfg rq V ρ).flatten := rfl

/-- In the chain, the replica targets come first and carry a shard; the node targets carry none. -/
private theorem chainT_split (cl : Cluster) (cfg : Config) (rq : Request) (V : Option Nat → List SRep) (ρ : RhoFb) :
    ∃ R N, (chainT cl cfg rq V ρ).flatten = R ++ N ∧ (∀ t ∈ R, t.2.isSome = true) ∧ (∀ t ∈ N, t.2 = none) := by
  refine ⟨((if tokenAware cl cfg rq then replicaGroupsT cl cfg rq V ρ else [])).flatten,
    ((fallbackGroups cl cfg (rqNoToken rq) ρ).drop 3).flatten, by unfold chainT; rw [List.flatten_append], ?_,
    drop3_shardless cl cfg (rqNoToken rq) ρ⟩
  intro t ht
  split at ht
  · obtain ⟨_, r, _, rfl, _⟩ := mem_replicaGroupsT ht
    rfl
  · simp at ht

/-- A group of the chain is all replicas or all nodes, and (comparator-)equal members of one group are the same target. -/
private theorem chainT_group_unique {cl : Cluster} (hwf : WF cl) {cfg : Config} {rq : Request} {V : Option Nat → List SRep}
    (hV : TabletOK cl V) {ρ : RhoFb} {g : List Target} (hg : g ∈ chainT cl cfg rq V ρ) {t u : Target}
    (ht : t ∈ g) (hu : u ∈ g) (he : targetEq u t = true) : u = t := by
  have hflat : ∀ x ∈ g, x ∈ (chainT cl cfg rq V ρ).flatten := fun x hx => List.mem_flatten.mpr ⟨g, hg, hx⟩
  have hnode : u.1 = t.1 := by
    have hid : u.1.id = t.1.id := by
      unfold targetEq at he; simp only [Bool.and_eq_true, beq_iff_eq] at he; exact he.1
    exact hV.distinctIds _ _ (chainT_mem hwf hV (hflat u hu)).2.1 (chainT_mem hwf hV (hflat t ht)).2.1 hid
  -- same kind of shard marking inside one group
  have hkind : u.2.isSome = t.2.isSome := by
    unfold chainT at hg
    rcases List.mem_append.mp hg with hg | hg
    · have hs : ∀ x ∈ g, x.2.isSome = true := by
        intro x hx
        split at hg
        · obtain ⟨_, r, _, rfl, _⟩ := mem_replicaGroupsT (List.mem_flatten.mpr ⟨g, hg, hx⟩)
          rfl
        · simp at hg
      rw [hs u hu, hs t ht]
    · have hs : ∀ x ∈ g, x.2 = none := fun x hx =>
        drop3_shardless cl cfg (rqNoToken rq) ρ x (List.mem_flatten.mpr ⟨g, hg, hx⟩)
      rw [hs u hu, hs t ht]
  unfold targetEq at he
  simp only [Bool.and_eq_true, beq_iff_eq] at he
  cases hu2 : u.2 with
  | none =>
    cases ht2 : t.2 with
    | none => exact Prod.ext hnode (by rw [hu2, ht2])
    | some y => rw [hu2, ht2] at hkind; cases hkind
  | some x =>
    cases ht2 : t.2 with
    | none => rw [hu2, ht2] at hkind; cases hkind
    | some y =>
      rw [hu2, ht2] at he
      have hxy : x = y := by simpa using he.2
      exact Prod.ext hnode (by rw [hu2, ht2, hxy])

/-- What `pick` answers on a tablet table: a literal member of `fallback` (whatever the random choices of the latter);
a shard-less answer only when no replica group has a member. -/
theorem pickT_spec {cl : Cluster} (hwf : WF cl) (cfg : Config) (rq : Request) {V : Option Nat → List SRep}
    (hV : TabletOK cl V) (ρp : RhoPick) (ρf : RhoFb) {t : Target} (h : pickT cl cfg rq V ρp = some t) :
    t ∈ fallbackT cl cfg rq V ρf ∧ (t.2 = none → ∀ u ∈ fallbackT cl cfg rq V ρf, u.2 = none) := by
  have hfr : firstReturn ((if tokenAware cl cfg rq then replicaStepsT cl cfg rq V ρp else []) ++
      (pickSteps cl cfg (rqNoToken rq) ρp).drop 3) = some (some t) := by
    unfold pickT at h
    cases hf : firstReturn ((if tokenAware cl cfg rq then replicaStepsT cl cfg rq V ρp else []) ++
        (pickSteps cl cfg (rqNoToken rq) ρp).drop 3) with
    | none => rw [hf] at h; cases h
    | some r => rw [hf] at h; simp only [Option.getD_some] at h; rw [h]
  obtain ⟨pre, g, post, e, hpre, htg⟩ := firstReturn_groups (compatT hwf cfg rq V ρp ρf) hfr
  have hmem : t ∈ fallbackT cl cfg rq V ρf := by
    rw [fallbackT_eq, e, List.flatten_append, flatten_nil_of_all_nil hpre, List.nil_append, List.flatten_cons]
    apply mem_uniqueByFrom_append_left
    apply mem_uniqueByFrom_of_unique htg _ (by simp)
    intro u hu he
    exact chainT_group_unique hwf hV (by rw [e]; simp) htg hu he
  refine ⟨hmem, ?_⟩
  intro hnone u hu
  -- a shard-less answer: the replica steps all fell through, so the replica groups are empty
  rw [firstReturn_append] at hfr
  have hA : firstReturn (if tokenAware cl cfg rq then replicaStepsT cl cfg rq V ρp else []) = none := by
    cases hA : firstReturn (if tokenAware cl cfg rq then replicaStepsT cl cfg rq V ρp else []) with
    | none => rfl
    | some r =>
      rw [hA] at hfr
      simp only [Option.some.injEq] at hfr
      subst hfr
      obtain ⟨_, g', _, e', _, htg'⟩ := firstReturn_groups (compatT_replica cl cfg rq V ρp ρf) hA
      have : t ∈ (if tokenAware cl cfg rq then replicaGroupsT cl cfg rq V ρf else []).flatten :=
        List.mem_flatten.mpr ⟨g', by rw [e']; simp, htg'⟩
      split at this
      · obtain ⟨_, r, _, rfl, _⟩ := mem_replicaGroupsT this
        cases hnone
      · simp at this
  have hempty := compat_all_none (compatT_replica cl cfg rq V ρp ρf) (firstReturn_none_all hA)
  have huc : u ∈ (chainT cl cfg rq V ρf).flatten := (uniqueByFrom_sublist [] _).subset hu
  unfold chainT at huc
  rw [List.flatten_append, flatten_nil_of_all_nil hempty, List.nil_append] at huc
  exact drop3_shardless cl cfg (rqNoToken rq) ρf u huc

private theorem fallbackT_pairwise (cl : Cluster) (cfg : Config) (rq : Request) (V : Option Nat → List SRep) (ρ : RhoFb) :
    (fallbackT cl cfg rq V ρ).Pairwise (fun a b => targetEq a b = false) := (uniqueBy_spec _).2.1

private theorem fallbackT_sub {cl : Cluster} {cfg : Config} {rq : Request} {V : Option Nat → List SRep} {ρ : RhoFb}
    {t : Target} (h : t ∈ fallbackT cl cfg rq V ρ) : t ∈ (chainT cl cfg rq V ρ).flatten :=
  (uniqueByFrom_sublist [] _).subset h

/-- **Tablet tables, no target twice**: no two targets of the plan are equal under the policy's comparator - never the
same `(node, shard)` twice, never a node both with and without a shard; a node the tablet lists with two different
shards is two different targets (the `(Some x, Some y)` arm of the comparator). -/
theorem tplan_no_equal_targets {cl : Cluster} (hwf : WF cl) (cfg : Config) (rq : Request) {V : Option Nat → List SRep}
    (hV : TabletOK cl V) (ρp : RhoPick) (ρf : RhoFb) :
    (planT cl cfg rq V ρp ρf).Pairwise (fun a b => targetEq a b = false) :=
  planOf_pairwise_ne (fallbackT_pairwise cl cfg rq V ρf) (fun _ h => (pickT_spec hwf cfg rq hV ρp ρf h).1)

theorem tplan_mem_iff {cl : Cluster} (hwf : WF cl) (cfg : Config) (rq : Request) {V : Option Nat → List SRep}
    (hV : TabletOK cl V) (ρp : RhoPick) (ρf : RhoFb) (t : Target) :
    t ∈ planT cl cfg rq V ρp ρf ↔ t ∈ fallbackT cl cfg rq V ρf :=
  planOf_mem_of_pairwise (fallbackT_pairwise cl cfg rq V ρf) (fun _ h => (pickT_spec hwf cfg rq hV ρp ρf h).1) t

/-- **Tablet tables**: no disabled node; only the preferred datacenter when failover is not permitted. -/
theorem tplan_excludes_disabled_stays_in_dc {cl : Cluster} (hwf : WF cl) (cfg : Config) (rq : Request)
    {V : Option Nat → List SRep} (hV : TabletOK cl V) (ρp : RhoPick) (ρf : RhoFb) :
    ∀ t ∈ planT cl cfg rq V ρp ρf, t.1.id ∉ cl.disabled ∧
      (cfg.failover = false → ∀ d, (preference cfg rq).datacenter = some d → t.1.dc = some d) := by
  intro t ht
  obtain ⟨he, _, hdc⟩ := chainT_mem hwf hV (fallbackT_sub ((tplan_mem_iff hwf cfg rq hV ρp ρf t).mp ht))
  refine ⟨?_, hdc⟩
  unfold Cluster.enabled at he
  exact of_decide_eq_true he

/-- **Tablet tables, completeness**: every enabled token-owning node the datacenter rule permits occurs. -/
theorem tplan_complete {cl : Cluster} (hwf : WF cl) (cfg : Config) (rq : Request) {V : Option Nat → List SRep}
    (hV : TabletOK cl V) (ρp : RhoPick) (ρf : RhoFb) {n : Node} (hn : n ∈ allNodes cl) (he : n.id ∉ cl.disabled)
    (hperm : Permitted cfg rq n) : ∃ t ∈ planT cl cfg rq V ρp ρf, t.1 = n := by
  -- the ring plan of the token-less request contains n (plan_complete); its shard-less target is in the node groups
  obtain ⟨t0, ht0, ht0n⟩ := plan_complete hwf cfg (rqNoToken rq) ρp ρf hn he hperm
  have ht0f := (plan_mem_iff hwf cfg (rqNoToken rq) ρp ρf t0).mp ht0
  rw [fallback_eq_dedup] at ht0f
  have hin := (mem_dedupFrom ht0f).1
  -- a token-less request has no replica groups: the first three groups are empty
  have hno : tokenWithStrategy cl cfg (rqNoToken rq) = none := by
    unfold tokenWithStrategy rqNoToken; split <;> rfl
  have hin3 : t0 ∈ ((fallbackGroups cl cfg (rqNoToken rq) ρf).drop 3).flatten := by
    rw [← List.take_append_drop 3 (fallbackGroups cl cfg (rqNoToken rq) ρf), List.flatten_append, List.mem_append] at hin
    rcases hin with h | h
    · exfalso
      unfold fallbackGroups at h
      simp [hno] at h
    · exact h
  have hc : t0 ∈ (chainT cl cfg rq V ρf).flatten := by
    unfold chainT; rw [List.flatten_append]; exact List.mem_append_right _ hin3
  obtain ⟨u, hu, hut⟩ := (uniqueBy_spec (chainT cl cfg rq V ρf).flatten).2.2 t0 hc
  refine ⟨u, (tplan_mem_iff hwf cfg rq hV ρp ρf u).mpr hu, ?_⟩
  have hid : u.1.id = t0.1.id := by
    unfold targetEq at hut; simp only [Bool.and_eq_true, beq_iff_eq] at hut; exact hut.1
  rw [← ht0n]
  exact hV.distinctIds _ _ (chainT_mem hwf hV (fallbackT_sub hu)).2.1 (Or.inl (ht0n ▸ hn)) hid

/-- **Tablet tables, order**: the targets carrying a shard - the live replicas of the tablet - precede all others. -/
theorem tplan_replicas_first {cl : Cluster} (hwf : WF cl) (cfg : Config) (rq : Request) {V : Option Nat → List SRep}
    (hV : TabletOK cl V) (ρp : RhoPick) (ρf : RhoFb) :
    (planT cl cfg rq V ρp ρf).Pairwise (fun a b => b.2.isSome = true → a.2.isSome = true) := by
  apply planOf_pairwise_of (fallbackT_pairwise cl cfg rq V ρf)
  · obtain ⟨R, N, hRN, hR, hN⟩ := chainT_split cl cfg rq V ρf
    apply List.Pairwise.sublist (uniqueByFrom_sublist [] _)
    show List.Pairwise _ (chainT cl cfg rq V ρf).flatten
    rw [hRN, List.pairwise_append]
    refine ⟨List.Pairwise.imp_of_mem (R := fun _ _ => True) (fun {a b} ha _ _ _ => hR a ha)
        (List.pairwise_of_forall (fun _ _ => trivial)),
      List.Pairwise.imp_of_mem (R := fun _ _ => True) (fun {a b} _ hb _ h => by rw [hN b hb] at h; cases h)
        (List.pairwise_of_forall (fun _ _ => trivial)), fun a ha _ _ _ => hR a ha⟩
  · intro t hpk u hu hus
    cases ht : t.2 with
    | some x => rfl
    | none =>
      have := (pickT_spec hwf cfg rq hV ρp ρf hpk).2 ht u hu
      rw [this] at hus; cases hus

/-- **Tablet tables, who carries a shard**: exactly the live replicas of the tablet (of the preferred datacenter unless
failover is permitted or none is preferred), with the tablet's shard. -/
theorem tplan_sharded_are_live_replicas {cl : Cluster} (hwf : WF cl) (cfg : Config) (rq : Request)
    {V : Option Nat → List SRep} (hV : TabletOK cl V) (ρp : RhoPick) (ρf : RhoFb) {t : Target}
    (ht : t ∈ planT cl cfg rq V ρp ρf) (hs : t.2.isSome = true) :
    ∃ r ∈ V none, t = (r.1, some r.2) ∧ cl.alive r.1 = true := by
  have hc := fallbackT_sub ((tplan_mem_iff hwf cfg rq hV ρp ρf t).mp ht)
  unfold chainT at hc
  rw [List.flatten_append, List.mem_append] at hc
  rcases hc with hc | hc
  · split at hc
    · obtain ⟨crit, r, hr, rfl, _⟩ := mem_replicaGroupsT hc
      obtain ⟨h1, h2, _⟩ := mem_filteredT hr
      refine ⟨r, ?_, rfl, h2⟩
      cases hd : crit.datacenter with
      | none => rw [hd] at h1; exact h1
      | some d => rw [hd] at h1; exact (hV.dcSub d r h1).1
    · simp at hc
  · rw [drop3_shardless cl cfg (rqNoToken rq) ρf t hc] at hs; cases hs

/-- **Tablet tables, LWT**: for a request routed as LWT the replica part of `fallback` does not depend on the random
choices: it is the de-duplication of the filtered tablet lists (tablet definition order). -/
theorem tplan_lwt_deterministic (cl : Cluster) (cfg : Config) (rq : Request) (V : Option Nat → List SRep)
    (hlwt : rq.routeAsLwt = true) (ρ ρ' : RhoFb) :
    (fallbackT cl cfg rq V ρ).filter (·.2.isSome) = (fallbackT cl cfg rq V ρ').filter (·.2.isSome) := by
  have key : ∀ ρ : RhoFb, (fallbackT cl cfg rq V ρ).filter (·.2.isSome) =
      uniqueBy (if tokenAware cl cfg rq then replicaGroupsT cl cfg rq V ⟨[], [], [], 0, 0, 0⟩ else []).flatten := by
    intro ρ
    have hind : (if tokenAware cl cfg rq then replicaGroupsT cl cfg rq V ρ else []) =
        (if tokenAware cl cfg rq then replicaGroupsT cl cfg rq V ⟨[], [], [], 0, 0, 0⟩ else []) := by
      split
      · unfold replicaGroupsT replicaTargetsT; simp only [hlwt, if_true]
      · rfl
    rw [fallbackT_eq]
    unfold chainT
    rw [List.flatten_append, hind]
    unfold uniqueBy
    obtain ⟨seen', happ⟩ := uniqueByFrom_append []
      (if tokenAware cl cfg rq then replicaGroupsT cl cfg rq V ⟨[], [], [], 0, 0, 0⟩ else []).flatten
      ((fallbackGroups cl cfg (rqNoToken rq) ρ).drop 3).flatten
    rw [happ, List.filter_append]
    have h1 : (uniqueByFrom [] (if tokenAware cl cfg rq then replicaGroupsT cl cfg rq V ⟨[], [], [], 0, 0, 0⟩
        else []).flatten).filter (·.2.isSome) = uniqueByFrom [] (if tokenAware cl cfg rq then
          replicaGroupsT cl cfg rq V ⟨[], [], [], 0, 0, 0⟩ else []).flatten := by
      apply List.filter_eq_self.mpr
      intro t ht
      have := (uniqueByFrom_sublist [] _).subset ht
      split at this
      · obtain ⟨_, r, _, rfl, _⟩ := mem_replicaGroupsT this; rfl
      · simp at this
    have h2 : (uniqueByFrom seen' ((fallbackGroups cl cfg (rqNoToken rq) ρ).drop 3).flatten).filter (·.2.isSome) = [] :=
      List.filter_eq_nil_iff.mpr (fun t ht => by
        rw [drop3_shardless cl cfg (rqNoToken rq) ρ t ((uniqueByFrom_sublist _ _).subset ht)]; simp)
    rw [h1, h2, List.append_nil]
  rw [key ρ, key ρ']

/-- **Tablet tables, who carries a shard - both directions**: `(n, Some(s))` is a target of the plan exactly when the
request is token-aware routable, `(n, s)` is a replica entry of the covering tablet, `n` is alive and the datacenter
rule permits `n`.  (With `tplan_sharded_are_live_replicas`: the shard-bearing targets are EXACTLY the live permitted
tablet replicas, each with the tablet's shard; the ring-table analogue is `plan_shard_iff`.) -/
theorem tplan_shard_iff {cl : Cluster} (hwf : WF cl) (cfg : Config) (rq : Request) {V : Option Nat → List SRep}
    (hV : TabletOK cl V) (ρp : RhoPick) (ρf : RhoFb) (n : Node) (s : Nat) :
    (n, some s) ∈ planT cl cfg rq V ρp ρf ↔
      (tokenAware cl cfg rq = true ∧ (n, s) ∈ V none ∧ cl.alive n = true ∧ Permitted cfg rq n) := by
  rw [tplan_mem_iff hwf cfg rq hV ρp ρf]
  constructor
  · intro h
    have hc := fallbackT_sub h
    unfold chainT at hc
    rw [List.flatten_append, List.mem_append] at hc
    rcases hc with hc | hc
    · split at hc
      · rename_i hta
        obtain ⟨crit, r, hr, ht, hc1, hc2⟩ := mem_replicaGroupsT hc
        obtain ⟨h1, h2, _⟩ := mem_filteredT hr
        have hrn : r = (n, s) := by
          unfold targetT at ht
          simp only [Prod.mk.injEq, Option.some.injEq] at ht
          exact Prod.ext ht.1.symm ht.2.symm
        subst hrn
        refine ⟨hta, ?_, h2, ?_⟩
        · cases hd : crit.datacenter with
          | none => rw [hd] at h1; exact h1
          | some d => rw [hd] at h1; exact (hV.dcSub d _ h1).1
        · unfold Permitted
          cases hd : crit.datacenter with
          | none =>
            rcases hc2 hd with h' | h'
            · exact Or.inl h'
            · exact Or.inr (Or.inl ((failoverPossible_iff cfg rq).mp h').2)
          | some d =>
            rw [hd] at h1
            rcases hc1 with h' | h'
            · rw [hd] at h'; cases h'
            · rw [hd] at h'
              exact Or.inr (Or.inr (by rw [← h']; exact (hV.dcSub d _ h1).2))
      · simp at hc
    · have := drop3_shardless cl cfg (rqNoToken rq) ρf _ hc
      cases this
  · rintro ⟨hta, hr, ha, hperm⟩
    -- the entry is in one of the replica groups
    have hin : (n, some s) ∈ (if tokenAware cl cfg rq then replicaGroupsT cl cfg rq V ρf else []).flatten := by
      rw [if_pos hta]
      have hany : (n, some s) ∈ replicaTargetsT cl V .any rq.routeAsLwt ρf.shufAny := by
        rw [mem_replicaTargetsT]
        refine ⟨(n, s), ?_, rfl⟩
        unfold filteredT predT
        exact List.mem_filter.mpr ⟨hr, by simp [ha, rackOk]⟩
      unfold replicaGroupsT
      simp only [List.flatten_cons, List.flatten_nil, List.append_nil, List.mem_append]
      cases hd : (preference cfg rq).datacenter with
      | none => exact Or.inr (Or.inr (by simpa [hd] using hany))
      | some d =>
        unfold Permitted at hperm
        rw [hd] at hperm
        rcases hperm with h' | h' | h'
        · cases h'
        · have hfp : failoverPossible cfg rq = true := (failoverPossible_iff cfg rq).mpr ⟨by rw [hd]; simp, h'⟩
          exact Or.inr (Or.inr (by simpa [hd, hfp] using hany))
        · refine Or.inr (Or.inl ?_)
          simp only []
          rw [mem_replicaTargetsT]
          refine ⟨(n, s), ?_, rfl⟩
          unfold filteredT predT
          exact List.mem_filter.mpr ⟨hV.dcAll d _ hr h', by simp [ha, rackOk]⟩
    -- it survives the de-duplication: among replica targets, comparator-equal means identical
    rw [fallbackT_eq]
    unfold chainT
    rw [List.flatten_append]
    apply mem_uniqueByFrom_append_left
    obtain ⟨u, hu, hut⟩ := (uniqueBy_spec _).2.2 _ hin
    have huR := (uniqueByFrom_sublist [] _).subset hu
    have : u = (n, some s) := by
      rw [if_pos hta] at huR
      obtain ⟨crit, r', hr', rfl, _⟩ := mem_replicaGroupsT huR
      obtain ⟨h1', _, _⟩ := mem_filteredT hr'
      have hr'n : r' ∈ V none := by
        cases hd : crit.datacenter with
        | none => rw [hd] at h1'; exact h1'
        | some d => rw [hd] at h1'; exact (hV.dcSub d _ h1').1
      unfold targetEq targetT at hut
      simp only [Bool.and_eq_true, beq_iff_eq] at hut
      have hnode : r'.1 = n := hV.distinctIds _ _ (Or.inr (List.mem_map.mpr ⟨r', hr'n, rfl⟩))
        (Or.inr (List.mem_map.mpr ⟨(n, s), hr, rfl⟩)) hut.1
      unfold targetT
      rw [hnode, hut.2]
    rw [← this]; exact hu

end tablets

open ScyllaVerif.Drive.Topology ScyllaVerif.Drive.C05 ScyllaVerif.Routing in
private theorem parseReps_nodes {ps : List (Peer × String)} {w : String} {reps : List SRep}
    (h : parseReps ps w = some reps) : ∀ r ∈ reps, ∃ p ∈ ps, p.1.node = r.1 := by
  unfold parseReps at h
  split at h
  · cases h
  · rename_i l _
    intro r hr
    obtain ⟨o, _, ho⟩ := mapM_option_mem _ _ _ h r hr
    split at ho
    · rename_i sh p _ hp
      simp only [Option.some.injEq] at ho
      subst ho
      exact ⟨p, List.mem_of_find?_eq_some hp, rfl⟩
    · cases ho

open ScyllaVerif.Drive.Topology ScyllaVerif.Drive.C05 ScyllaVerif.Routing in
/-- **The tablet replica lists of the differential run satisfy `TabletOK`**: whatever topology and tablets the case-line
parsers accept and whichever tablet covers the token, the driver's `V = tabletV (coveringReps tabs tok)` (the list, or
its members of one datacenter) fits the cluster `mkCluster` - so the tablet theorems apply to every `tplan` case. -/
theorem driver_TabletOK {topo kss tabS : String} {ps : List (Peer × String)} {ks : List Strategy}
    {tabs : List (Int × Int × List SRep)} (tok rtok : Option Int)
    (h1 : parseTopologyEx topo = some ps) (h2 : parseStrategies kss = some ks) (h3 : parseTablets ps tabS = some tabs) :
    TabletOK (mkCluster ps ks tok) (tabletV (coveringReps tabs rtok)) := by
  have hwf := mkCluster_WF tok h1 h2
  -- every replica node of every accepted tablet is the node of a peer
  have htab : ∀ x ∈ tabs, ∀ r ∈ x.2.2, ∃ p ∈ ps, p.1.node = r.1 := by
    unfold parseTablets at h3
    split at h3
    · cases h3; simp
    · split at h3
      · rename_i ts hts
        split at h3
        · cases h3
          intro x hx r hr
          obtain ⟨w, _, hw⟩ := mapM_option_mem _ _ _ hts x hx
          unfold parseTabletOne at hw
          split at hw
          · rename_i rs _
            cases hp : parseReps ps rs with
            | none => rw [hp] at hw; cases hw
            | some reps =>
              rw [hp] at hw
              simp only [Option.map_some, Option.some.injEq] at hw
              subst hw
              exact parseReps_nodes hp r hr
          · split at hw
            · rename_i f l reps _ _ hp
              split at hw
              · simp only [Option.some.injEq] at hw
                subst hw
                exact parseReps_nodes hp r hr
              · cases hw
            · cases hw
          · cases hw
        · cases h3
      · cases h3
  have hcov : ∀ r ∈ coveringReps tabs rtok, ∃ p ∈ ps, p.1.node = r.1 := by
    intro r hr
    unfold coveringReps at hr
    split at hr
    · simp at hr
    · split at hr
      · rename_i x hx
        exact htab x (List.mem_of_find?_eq_some hx) r hr
      · simp at hr
  -- host ids of the accepted peers are pairwise distinct (as in mkCluster_WF)
  have hids : (ps.map (·.1.node.id)).Nodup := by
    unfold parseTopologyEx at h1
    split at h1
    · cases h1; exact List.nodup_nil
    · split at h1
      · cases h1
      · simp only [] at h1
        split at h1
        · rename_i hc
          cases h1
          simp only [Bool.and_eq_true, beq_iff_eq] at hc
          exact nodup_of_eraseDups_length _ hc.1
        · cases h1
  have hring : ∀ a ∈ allNodes (mkCluster ps ks tok), ∃ p ∈ ps, p.1.node = a := by
    intro a ha
    unfold allNodes uniqueNodes at ha
    rw [mem_uniq] at ha
    obtain ⟨e, he, rfl⟩ := List.mem_map.mp ha
    have he' : e ∈ Topology.entries (ps.map (·.1)) := (mkRing_perm _).mem_iff.mp he
    unfold Topology.entries at he'
    obtain ⟨p, hp, hpe⟩ := List.mem_flatMap.mp he'
    obtain ⟨tk, _, rfl⟩ := List.mem_map.mp hpe
    obtain ⟨q, hq, rfl⟩ := List.mem_map.mp hp
    exact ⟨q, hq, rfl⟩
  refine ⟨?_, ?_, ?_⟩
  · intro d r hr
    simp only [tabletV, List.mem_filter, beq_iff_eq] at hr
    exact ⟨hr.1, hr.2⟩
  · intro d r hr hd
    simp only [tabletV, List.mem_filter, beq_iff_eq]
    exact ⟨hr, hd⟩
  · have hpeer : ∀ a, (a ∈ allNodes (mkCluster ps ks tok) ∨ a ∈ (tabletV (coveringReps tabs rtok) none).map (·.1)) →
        ∃ p ∈ ps, p.1.node = a := by
      intro a ha
      rcases ha with ha | ha
      · exact hring a ha
      · obtain ⟨r, hr, rfl⟩ := List.mem_map.mp ha
        exact hcov r hr
    intro a b ha hb hab
    obtain ⟨p, hp, rfl⟩ := hpeer a ha
    obtain ⟨q, hq, rfl⟩ := hpeer b hb
    have : p = q := inj_of_nodup_map (fun x : Peer × String => x.1.node.id) hids hp hq hab
    rw [this]

/-! ### non-vacuity for the tablet theorems: a tablet that lists node 3 with two shards (and the down node 2) -/

open ScyllaVerif.Routing in
def exRepsT : List SRep :=
  [(⟨2, some 0, some 1⟩, 1), (⟨3, some 0, some 3⟩, 0), (⟨5, some 1, some 1⟩, 2), (⟨3, some 0, some 3⟩, 4)]

open ScyllaVerif.Routing in
/-- `replicas_for_token` / `dc_replicas_for_token` of that tablet. -/
def exVT : Option Nat → List SRep := fun dc =>
  match dc with
  | none => exRepsT
  | some d => exRepsT.filter (fun r => r.1.dc == some d)

example : TabletOK exCluster exVT := by
  have hsub : ∀ a ∈ (exVT none).map (·.1), a ∈ allNodes exCluster := by decide
  have hd : ∀ a ∈ allNodes exCluster, ∀ b ∈ allNodes exCluster, a.id = b.id → a = b := by decide
  refine ⟨?_, ?_, ?_⟩
  · intro d r hr
    simp only [exVT, List.mem_filter, beq_iff_eq] at hr
    exact ⟨hr.1, hr.2⟩
  · intro d r hr hd
    simp only [exVT, List.mem_filter, beq_iff_eq]
    exact ⟨hr, hd⟩
  · intro a b ha hb hab
    exact hd a (ha.elim id (hsub a)) b (hb.elim id (hsub b)) hab

-- node 3 is planned twice, once per tablet shard (the two-shards arm of the comparator), never shard-less; the down
-- replica 2 comes last, without shard
open ScyllaVerif.Routing in
example : (planT exCluster exCfg exRq exVT ρp0 ρf0).map (fun t => (t.1.id, t.2)) =
    [(3, some 0), (3, some 4), (5, some 2), (1, none), (4, none), (6, none), (2, none)] := by decide

end ScyllaVerif.Props.C05

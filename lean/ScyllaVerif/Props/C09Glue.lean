/-
C09, connection-level glue — what the caller configured on a statement is what the frame says.

Model: `Model/RequestGlue.lean` (statement configuration → request record, transcribing `network/connection.rs`), composed
with the encoder theorems of `Props/C09.lean`.  Property theorems only.
-/
import ScyllaVerif.Props.C09
import ScyllaVerif.Model.RequestGlue

namespace ScyllaVerif.Props.C09Glue
open ScyllaVerif.Request ScyllaVerif.Wire ScyllaVerif.ReqParse ScyllaVerif.Proofs.Request ScyllaVerif.RequestGlue
open ScyllaVerif ScyllaVerif.Props.C09

private theorem serial_join (x : Option (Option SerialConsistency)) :
    x.join = (match x with | some (some s) => some s | _ => none) := by
  cases x with
  | none => rfl
  | some y => cases y <;> rfl

private theorem cons_getD (x : Option Consistency) (d : Consistency) :
    x.getD d = (match x with | some c => c | none => d) := by
  cases x <;> rfl

/-! ### QUERY (`Connection::query_raw_with_consistency`) -/

/-- **query_glue.** (connection level; consistency and serial consistency are the method's ARGUMENTS — see
`session_query_glue` for who decides them.)  The QUERY frame reads back (independent parser) to: the statement text; the
consistency and serial consistency passed in; the statement's timestamp if set, else the generator's value if a
generator is configured, else none; the page size and paging state passed in; no values; `skip_metadata` off.  The
tracing flag is an input of `encodeReq` here (`send_request(.., statement.config.tracing, ..)`); that it is the
statement's setting is tied by the run. -/
theorem query_glue (k : Codec) (text : List UInt8) (cons : Consistency) (serial : Option SerialConsistency)
    (cfg : StmtConfig) (conn : ConnCtx) (ps : Option Int32) (pg : Option (List UInt8)) (f : List UInt8)
    (h : encodeReq k (queryRequest text cons serial cfg conn ps pg) none cfg.tracing = .ok f)
    (hlen : f.length - 9 < 2 ^ 32) :
    parseReq false f = some ⟨false, cfg.tracing, 0, .query text
      { consistency := cons
        skipMetadata := false
        values := []
        pageSize := ps.map Int32.toInt
        pagingState := pg
        serialConsistency := serial
        timestamp := (match cfg.timestamp with | some t => some t | none => conn.genTimestamp).map Int64.toInt }⟩ := by
  have hp := (parse_encode k _ cfg.tracing f h hlen).1
  have hm : hasMetadataId (queryRequest text cons serial cfg conn ps pg) = false := rfl
  rw [hm] at hp
  rw [hp]
  simp only [queryRequest, view, viewParams, requestTimestamp]
  rcases cfg with ⟨c, sc, ts, tr⟩
  cases ts <;> rfl

/-- A QUERY is always sent unless the text or the paging state is 2 GiB or more. -/
theorem query_sent (k : Codec) (text : List UInt8) (cons : Consistency) (serial : Option SerialConsistency)
    (cfg : StmtConfig) (conn : ConnCtx) (ps : Option Int32)
    (pg : Option (List UInt8)) (ht : text.length < 2 ^ 31) (hpg : ∀ b, pg = some b → b.length < 2 ^ 31) :
    ∃ f, encodeReq k (queryRequest text cons serial cfg conn ps pg) none cfg.tracing = .ok f := by
  have hr : Representable (queryRequest text cons serial cfg conn ps pg) :=
    ⟨ht, ⟨by simp [queryRequest], by simp [queryRequest]⟩, by simpa [queryRequest] using hpg⟩
  obtain ⟨b, hb⟩ := representable_accepted _ hr
  simp [encodeReq, hb]

example : ∃ f, encodeReq ⟨id, fun _ _ => none, some, fun _ => none, fun _ => none⟩
    (queryRequest [0x78] .localQuorum (some .serial) ⟨none, none, none, true⟩ ⟨.localQuorum, some 7, false⟩ (some 10) none) none true
      = .ok f ∧ f.drop 9 = [0, 0, 0, 1, 0x78, 0, 6, 0x34, 0, 0, 0, 10, 0, 8, 0, 0, 0, 0, 0, 0, 0, 7] :=
  ⟨_, rfl, by decide⟩

/-! ### EXECUTE (`Connection::execute_raw_with_consistency`, `calculate_cached_metadata_params`) -/

/-- **cached_metadata_decision.** `skip_metadata` is requested exactly when the driver holds result columns for the
statement and either the caller allowed cached metadata or the metadata-id extension is on; a result metadata id is
sent iff the extension is on — the cached id when metadata is skipped (empty if the statement has none), else empty. -/
theorem cached_metadata_decision (p : PreparedInfo) (ext : Bool) :
    ((cachedMetadataParams p ext).1 = true ↔ p.resultColCount ≠ 0 ∧ (p.useCachedResultMetadata = true ∨ ext = true)) ∧
    ((cachedMetadataParams p ext).2.isSome = ext) ∧
    (ext = true → (cachedMetadataParams p ext).2 =
      some (if (cachedMetadataParams p ext).1 then (match p.resultMetadataId with | some i => i | none => []) else [])) := by
  cases ext <;> by_cases hc : p.resultColCount = 0 <;> cases hu : p.useCachedResultMetadata <;>
    cases hm : p.resultMetadataId <;> simp [cachedMetadataParams, hc, hu, hm]

/-- **execute_glue.** (connection level; consistency / serial consistency are arguments.)  The EXECUTE frame reads
back to: the prepared statement's id; the result-metadata id and `skip_metadata` of `cached_metadata_decision`; the
consistency and serial consistency passed in; timestamp as for QUERY; the bound values in order; page size and paging
state.  The parser is in the connection's negotiated mode (`conn.metadataIdExt`). -/
theorem execute_glue (k : Codec) (p : PreparedInfo) (vals : List RawVal) (cons : Consistency)
    (serial : Option SerialConsistency) (cfg : StmtConfig) (conn : ConnCtx)
    (ps : Option Int32) (pg : Option (List UInt8)) (f : List UInt8)
    (h : encodeReq k (executeRequest p vals cons serial cfg conn ps pg) none cfg.tracing = .ok f)
    (hlen : f.length - 9 < 2 ^ 32) :
    parseReq conn.metadataIdExt f = some ⟨false, cfg.tracing, 0, .execute p.id (cachedMetadataParams p conn.metadataIdExt).2
      { consistency := cons
        skipMetadata := (cachedMetadataParams p conn.metadataIdExt).1
        values := vals
        pageSize := ps.map Int32.toInt
        pagingState := pg
        serialConsistency := serial
        timestamp := (match cfg.timestamp with | some t => some t | none => conn.genTimestamp).map Int64.toInt }⟩ := by
  have hp := (parse_encode k _ cfg.tracing f h hlen).1
  have hm : hasMetadataId (executeRequest p vals cons serial cfg conn ps pg) = conn.metadataIdExt := by
    have := (cached_metadata_decision p conn.metadataIdExt).2.1
    simp only [executeRequest, hasMetadataId]
    cases hx : (cachedMetadataParams p conn.metadataIdExt).2 <;> simp_all
  rw [hm] at hp
  rw [hp]
  simp only [executeRequest, view, viewParams, requestTimestamp]
  rcases cfg with ⟨c, sc, ts, tr⟩
  cases ts <;> rfl

-- non-vacuity: extension on, cached columns -> skip_metadata with the cached id; no columns -> full metadata, empty id
example : cachedMetadataParams ⟨[1], 2, some [7, 7], false⟩ true = (true, some [7, 7]) ∧
    cachedMetadataParams ⟨[1], 0, some [7, 7], true⟩ true = (false, some []) ∧
    cachedMetadataParams ⟨[1], 2, none, true⟩ false = (true, none) ∧
    cachedMetadataParams ⟨[1], 2, none, false⟩ false = (false, none) := by decide

/-! ### paged iteration (`Connection::execute_iter`) -/

/-- **pager_glue.** The single-connection pager (`Connection::execute_iter`) sends one EXECUTE per page: the first
without a paging state, the `i+1`-th with exactly the paging state the server returned for page `i`; all with the
statement's page size, the same statement / values, and — decided here by the connection itself — the statement's
consistency (else the connection default) and its flattened serial consistency. -/
theorem pager_glue (p : PreparedInfo) (vals : List RawVal) (cfg : StmtConfig) (conn : ConnCtx) (ps : Int32)
    (states : List (List UInt8)) :
    pagerRequests p vals cfg conn ps states =
      executeRequest p vals (match cfg.consistency with | some c => c | none => conn.defaultConsistency)
          (match cfg.serialConsistency with | some (some s) => some s | _ => none) cfg conn (some ps) none ::
        states.map (fun s => executeRequest p vals (match cfg.consistency with | some c => c | none => conn.defaultConsistency)
          (match cfg.serialConsistency with | some (some s) => some s | _ => none) cfg conn (some ps) (some s)) ∧
    (pagerRequests p vals cfg conn ps states).length = states.length + 1 := by
  simp [pagerRequests, List.map_map, Function.comp_def, determineConsistency, requestSerial, serial_join, cons_getD]

/-! ### BATCH (`Connection::batch_with_consistency`, `prepare_batch`) -/

/-- Which texts `prepare_batch` prepares: those of unprepared statements that have a non-empty value row. -/
theorem mem_textsToPrepare (t : List UInt8) : ∀ (stmts : List GlueStmt) (rows : List (List RawVal)),
    t ∈ textsToPrepare stmts rows ↔
      ∃ (i : Nat) (row : List RawVal), stmts[i]? = some (GlueStmt.unprepared t) ∧ rows[i]? = some row ∧ row ≠ [] := by
  intro stmts
  induction stmts with
  | nil => intro rows; simp [textsToPrepare]
  | cons s ss ih =>
    intro rows
    cases rows with
    | nil => simp [textsToPrepare]
    | cons r rs =>
      cases s with
      | prepared i c =>
        simp only [textsToPrepare, ih rs]
        constructor
        · rintro ⟨i, row, h1, h2, h3⟩; exact ⟨i + 1, row, by simpa using h1, by simpa using h2, h3⟩
        · rintro ⟨i, row, h1, h2, h3⟩
          cases i with
          | zero => simp at h1
          | succ j => exact ⟨j, row, by simpa using h1, by simpa using h2, h3⟩
      | unprepared u =>
        simp only [textsToPrepare]
        cases hre : r.isEmpty with
        | true =>
          have hr' : r = [] := by simpa using hre
          simp only [if_true, ih rs]
          constructor
          · rintro ⟨i, row, h1, h2, h3⟩; exact ⟨i + 1, row, by simpa using h1, by simpa using h2, h3⟩
          · rintro ⟨i, row, h1, h2, h3⟩
            cases i with
            | zero => simp at h2; subst h2; exact absurd hr' h3
            | succ j => exact ⟨j, row, by simpa using h1, by simpa using h2, h3⟩
        | false =>
          have hr' : r ≠ [] := by intro he; subst he; simp at hre
          simp only [Bool.false_eq_true, if_false, List.mem_cons, ih rs]
          constructor
          · rintro (rfl | ⟨i, row, h1, h2, h3⟩)
            · exact ⟨0, r, by simp, by simp, hr'⟩
            · exact ⟨i + 1, row, by simpa using h1, by simpa using h2, h3⟩
          · rintro ⟨i, row, h1, h2, h3⟩
            cases i with
            | zero => left; simp at h1; exact h1.symm
            | succ j => right; exact ⟨j, row, by simpa using h1, by simpa using h2, h3⟩

/-- `prepare_batch` keeps the statements in place: prepared ones untouched; an unprepared one is replaced by the
statement the server prepared for its text iff that text carries values somewhere in the batch. -/
theorem prepareBatch_spec (server : List UInt8 → List UInt8 × Nat) (stmts : List GlueStmt) (rows : List (List RawVal)) :
    (prepareBatch server stmts rows).length = stmts.length ∧
    ∀ i : Nat, (prepareBatch server stmts rows)[i]? = (stmts[i]?).map (fun s =>
      match s with
      | GlueStmt.prepared id c => GlueStmt.prepared id c
      | GlueStmt.unprepared t =>
        if (textsToPrepare stmts rows).contains t then GlueStmt.prepared (server t).1 (server t).2
        else GlueStmt.unprepared t) := by
  refine ⟨by simp [prepareBatch], ?_⟩
  intro i
  simp only [prepareBatch, List.getElem?_map]
  cases stmts[i]? with
  | none => rfl
  | some s => cases s <;> rfl

/-- **batch_glue.** (connection level; consistency / serial consistency are arguments.)  The BATCH frame built through
the connection reads back to: the batch type; the statements of `prepareBatch` in order (text for unprepared, id for
prepared), each with its own value row in order; the consistency / serial consistency passed in; the batch's timestamp
(else the generator's).  And a frame exists only if there is exactly one row per statement and every row has as many
values as its statement has bind markers (0 for an unprepared statement). -/
theorem batch_glue (k : Codec) (server : List UInt8 → List UInt8 × Nat) (ty : BatchType) (stmts : List GlueStmt)
    (rows : List (List RawVal)) (cons : Consistency) (serial : Option SerialConsistency) (cfg : StmtConfig)
    (conn : ConnCtx) (f : List UInt8)
    (h : encodeFrameOf k (batchRequestBody server ty stmts rows cons serial cfg conn) Generated.requestOpcode_Batch none
      cfg.tracing = .ok f) (hlen : f.length - 9 < 2 ^ 32) :
    parseReq false f = some ⟨false, cfg.tracing, 0, .batch ty
      ((((prepareBatch server stmts rows).map stmtWithCtx).map Prod.fst).map viewStmt |>.zip rows)
      cons serial
      ((match cfg.timestamp with | some t => some t | none => conn.genTimestamp).map Int64.toInt)⟩ ∧
    stmts.length = rows.length ∧
    ((prepareBatch server stmts rows).map stmtWithCtx).map Prod.snd = rows.map List.length := by
  have hp := adapter_batch_parse k ty ((prepareBatch server stmts rows).map stmtWithCtx) rows
    cons serial (requestTimestamp cfg conn) cfg.tracing f h hlen
  cases hb : batchRequestBody server ty stmts rows cons serial cfg conn with
  | error e => rw [hb] at h; simp [encodeFrameOf] at h
  | ok b =>
    obtain ⟨hbody, hctx⟩ := adapter_batch_refines _ _ _ _ _ _ _ hb
    have hrep := (rdBody_encodeBody hbody).1
    have hl : stmts.length = rows.length := by
      have := hrep.2.1
      simpa [prepareBatch] using this
    refine ⟨?_, hl, hctx⟩
    rw [hp]
    simp only [requestTimestamp]
    rcases cfg with ⟨c, sc, ts, tr⟩
    cases ts <;> rfl

example : (match batchRequestBody (fun _ => ([9], 1)) .logged [.unprepared [0x78], .prepared [1] 1] [[.null], [.unset]]
      .one none ⟨none, none, none, false⟩ ⟨.one, some 5, false⟩,
    batchRequestBody (fun _ => ([9], 1)) .logged [.unprepared [0x78]] [[.null], []] .one none ⟨none, none, none, false⟩
      ⟨.one, none, false⟩ with
    | .ok _, .error (.batchMismatch 2 1) => true | _, _ => false) = true := by decide +kernel

/-! ### the `Session` layer decides consistency, serial consistency and page size
(`RequestExecutionParams::new_for_session_apis`, `PagerWorker`, `Session::{query,execute}_{unpaged,single_page,iter}`, `batch`) -/

/-- **session_defaulting.** What `Session` passes down: the statement's consistency if it has one, else the execution
profile's — the statement's own profile if it has one, else the session's default; the statement's serial consistency
if set (an explicit `None` means none), else that profile's; no page size for `*_unpaged`, the statement's page size for
`*_single_page` / `*_iter`. -/
theorem session_defaulting (cfg : StmtConfig) (sp : Option ExecProfile) (sd : ExecProfile) (m : Paging) (sps : Int32) :
    sessionConsistency cfg (chosenProfile sp sd) =
      (match cfg.consistency with
       | some c => c
       | none => match sp with | some p => p.consistency | none => sd.consistency) ∧
    sessionSerial cfg (chosenProfile sp sd) =
      (match cfg.serialConsistency with
       | some s => s
       | none => match sp with | some p => p.serialConsistency | none => sd.serialConsistency) ∧
    sessionPageSize m sps = (match m with | .unpaged => none | .paged => some sps) := by
  rcases cfg with ⟨c, sc, ts, tr⟩
  refine ⟨?_, ?_, ?_⟩
  · cases c <;> cases sp <;> rfl
  · cases sc <;> cases sp <;> rfl
  · cases m <;> rfl

/-- **session_query_glue.** A QUERY sent through `Session` says: the statement's consistency if set, else the chosen
profile's; the statement's serial consistency if set (explicit `None` = none), else the chosen profile's; page size per
`session_defaulting`; timestamp: the statement's, else the generator's. -/
theorem session_query_glue (k : Codec) (text : List UInt8) (cfg : StmtConfig) (sp : Option ExecProfile)
    (sd : ExecProfile) (conn : ConnCtx) (m : Paging) (sps : Int32) (pg : Option (List UInt8)) (f : List UInt8)
    (h : encodeReq k (sessionQuery text cfg sp sd conn m sps pg) none cfg.tracing = .ok f)
    (hlen : f.length - 9 < 2 ^ 32) :
    parseReq false f = some ⟨false, cfg.tracing, 0, .query text
      { consistency := sessionConsistency cfg (chosenProfile sp sd)
        skipMetadata := false
        values := []
        pageSize := (sessionPageSize m sps).map Int32.toInt
        pagingState := pg
        serialConsistency := sessionSerial cfg (chosenProfile sp sd)
        timestamp := (match cfg.timestamp with | some t => some t | none => conn.genTimestamp).map Int64.toInt }⟩ :=
  query_glue k text _ _ cfg conn _ pg f h hlen

/-- **session_execute_glue.** The same for EXECUTE (every page of `execute_iter` too: `sessionIterExecutes`). -/
theorem session_execute_glue (k : Codec) (p : PreparedInfo) (vals : List RawVal) (cfg : StmtConfig)
    (sp : Option ExecProfile) (sd : ExecProfile) (conn : ConnCtx) (m : Paging) (sps : Int32) (pg : Option (List UInt8))
    (f : List UInt8)
    (h : encodeReq k (sessionExecute p vals cfg sp sd conn m sps pg) none cfg.tracing = .ok f)
    (hlen : f.length - 9 < 2 ^ 32) :
    parseReq conn.metadataIdExt f = some ⟨false, cfg.tracing, 0, .execute p.id (cachedMetadataParams p conn.metadataIdExt).2
      { consistency := sessionConsistency cfg (chosenProfile sp sd)
        skipMetadata := (cachedMetadataParams p conn.metadataIdExt).1
        values := vals
        pageSize := (sessionPageSize m sps).map Int32.toInt
        pagingState := pg
        serialConsistency := sessionSerial cfg (chosenProfile sp sd)
        timestamp := (match cfg.timestamp with | some t => some t | none => conn.genTimestamp).map Int64.toInt }⟩ :=
  execute_glue k p vals _ _ cfg conn _ pg f h hlen

theorem session_iter_glue (p : PreparedInfo) (vals : List RawVal) (cfg : StmtConfig) (sp : Option ExecProfile)
    (sd : ExecProfile) (conn : ConnCtx) (sps : Int32) (states : List (List UInt8)) :
    sessionIterExecutes p vals cfg sp sd conn sps states =
      sessionExecute p vals cfg sp sd conn .paged sps none ::
        states.map (fun s => sessionExecute p vals cfg sp sd conn .paged sps (some s)) := by
  simp [sessionIterExecutes, List.map_map, Function.comp_def]

/-- **session_batch_glue.** The same for BATCH. -/
theorem session_batch_glue (k : Codec) (server : List UInt8 → List UInt8 × Nat) (ty : BatchType) (stmts : List GlueStmt)
    (rows : List (List RawVal)) (cfg : StmtConfig) (sp : Option ExecProfile) (sd : ExecProfile) (conn : ConnCtx)
    (f : List UInt8)
    (h : encodeFrameOf k (sessionBatchBody server ty stmts rows cfg sp sd conn) Generated.requestOpcode_Batch none
      cfg.tracing = .ok f) (hlen : f.length - 9 < 2 ^ 32) :
    parseReq false f = some ⟨false, cfg.tracing, 0, .batch ty
      ((((prepareBatch server stmts rows).map stmtWithCtx).map Prod.fst).map viewStmt |>.zip rows)
      (sessionConsistency cfg (chosenProfile sp sd)) (sessionSerial cfg (chosenProfile sp sd))
      ((match cfg.timestamp with | some t => some t | none => conn.genTimestamp).map Int64.toInt)⟩ :=
  (batch_glue k server ty stmts rows _ _ cfg conn f h hlen).1

/-! ### `Session::batch`: the session's own guard on the number of statements (`session.rs:1039-1045`) -/

/-- **session_batch_guard.** `Session::batch` answers `TooManyQueriesInBatchStatement(n)` — with the true count — exactly
when the batch has more than 65535 statements, whatever the statements, rows and configuration are; and on every batch of
at most 65535 statements (65535 included) the guard is transparent: the outcome is the one of the layers behind it. -/
theorem session_batch_guard (server : List UInt8 → List UInt8 × Nat) (ty : BatchType) (stmts : List GlueStmt)
    (rows : List (List RawVal)) (cfg : StmtConfig) (sp : Option ExecProfile) (sd : ExecProfile) (conn : ConnCtx) :
    (65535 < stmts.length →
      sessionBatch server ty stmts rows cfg sp sd conn = .error (.tooManyQueries stmts.length)) ∧
    (stmts.length ≤ 65535 →
      sessionBatch server ty stmts rows cfg sp sd conn =
        (match sessionBatchBody server ty stmts rows cfg sp sd conn with
         | .ok b => .ok b
         | .error e => .error (.frame e))) ∧
    (∀ n, sessionBatch server ty stmts rows cfg sp sd conn = .error (.tooManyQueries n) →
      n = stmts.length ∧ 65535 < stmts.length) := by
  refine ⟨fun h => by simp [sessionBatch, h], fun h => ?_, fun n h => ?_⟩
  · have : ¬ stmts.length > 65535 := by omega
    unfold sessionBatch
    rw [if_neg this]
    cases sessionBatchBody server ty stmts rows cfg sp sd conn <;> rfl
  · unfold sessionBatch at h
    split at h
    · rename_i hg
      simp only [Except.error.injEq, SessionBatchErr.tooManyQueries.injEq] at h
      exact ⟨h.symm, hg⟩
    · split at h <;> simp at h

/-- **session_batch_guard_sound.** The guard refuses nothing a v4 BATCH could carry: whenever it fires, the serializer
behind it (`Batch::do_serialize`'s `try_into::<u16>`) refuses the same batch too.  So with `session_batch_guard`:
`Session::batch` sends a frame exactly when `Connection::batch_with_consistency` alone would, and then the same one. -/
theorem session_batch_guard_sound (server : List UInt8 → List UInt8 × Nat) (ty : BatchType) (stmts : List GlueStmt)
    (rows : List (List RawVal)) (cfg : StmtConfig) (sp : Option ExecProfile) (sd : ExecProfile) (conn : ConnCtx)
    (h : 65535 < stmts.length) :
    sessionBatchBody server ty stmts rows cfg sp sd conn = .error .batchTooManyStatements := by
  simp [sessionBatchBody, batchRequestBody, encodeBatchA, prepareBatch, h]

theorem session_batch_sends_iff (server : List UInt8 → List UInt8 × Nat) (ty : BatchType) (stmts : List GlueStmt)
    (rows : List (List RawVal)) (cfg : StmtConfig) (sp : Option ExecProfile) (sd : ExecProfile) (conn : ConnCtx)
    (b : List UInt8) :
    sessionBatch server ty stmts rows cfg sp sd conn = .ok b ↔
      sessionBatchBody server ty stmts rows cfg sp sd conn = .ok b := by
  by_cases hg : 65535 < stmts.length
  · rw [(session_batch_guard server ty stmts rows cfg sp sd conn).1 hg,
      session_batch_guard_sound server ty stmts rows cfg sp sd conn hg]
    simp
  · rw [(session_batch_guard server ty stmts rows cfg sp sd conn).2.1 (by omega)]
    cases sessionBatchBody server ty stmts rows cfg sp sd conn <;> simp

/-- **session_batch_whole.** What `Session::batch` puts on the wire is the caller's whole batch: if it sends at all, the
batch has at most 65535 statements, one row per statement, and the frame reads back to all of them in order (nothing
dropped, nothing truncated) with the session-level consistency / serial consistency / timestamp. -/
theorem session_batch_whole (k : Codec) (server : List UInt8 → List UInt8 × Nat) (ty : BatchType) (stmts : List GlueStmt)
    (rows : List (List RawVal)) (cfg : StmtConfig) (sp : Option ExecProfile) (sd : ExecProfile) (conn : ConnCtx)
    (b f : List UInt8) (hb : sessionBatch server ty stmts rows cfg sp sd conn = .ok b)
    (h : encodeFrameOf k (.ok b) Generated.requestOpcode_Batch none cfg.tracing = .ok f) (hlen : f.length - 9 < 2 ^ 32) :
    stmts.length ≤ 65535 ∧ stmts.length = rows.length ∧
    parseReq false f = some ⟨false, cfg.tracing, 0, .batch ty
      ((((prepareBatch server stmts rows).map stmtWithCtx).map Prod.fst).map viewStmt |>.zip rows)
      (sessionConsistency cfg (chosenProfile sp sd)) (sessionSerial cfg (chosenProfile sp sd))
      ((match cfg.timestamp with | some t => some t | none => conn.genTimestamp).map Int64.toInt)⟩ := by
  have hb' := (session_batch_sends_iff server ty stmts rows cfg sp sd conn b).1 hb
  have hle : stmts.length ≤ 65535 := by
    by_cases hg : 65535 < stmts.length
    · rw [session_batch_guard_sound server ty stmts rows cfg sp sd conn hg] at hb'
      simp at hb'
    · omega
  rw [← hb'] at h
  have hg := batch_glue k server ty stmts rows _ _ cfg conn f h hlen
  exact ⟨hle, hg.2.1, hg.1⟩

-- non-vacuity: 65536 statements are refused with the true count, and a small batch passes the guard and is sent
example (n : Nat) (hn : 65535 < n) :
    sessionBatch (fun _ => ([], 0)) .unlogged (List.replicate n (.unprepared [0x78])) [] ⟨none, none, none, false⟩
      none ⟨.one, none⟩ ⟨.one, none, false⟩ = .error (.tooManyQueries n) := by
  have := (session_batch_guard (fun _ => ([], 0)) .unlogged (List.replicate n (.unprepared [0x78])) []
    ⟨none, none, none, false⟩ none ⟨.one, none⟩ ⟨.one, none, false⟩).1 (by rw [List.length_replicate]; exact hn)
  rwa [List.length_replicate] at this
example : (match sessionBatch (fun _ => ([], 0)) .unlogged [.unprepared [0x78], .prepared [1] 1] [[], [.null]]
      ⟨none, none, none, false⟩ none ⟨.one, none⟩ ⟨.one, none, false⟩ with
    | .ok _ => true | _ => false) = true := by decide +kernel

-- non-vacuity: statement unset -> the profile's LOCAL_SERIAL; explicit None -> none; statement's own profile wins over the session's
example : sessionSerial ⟨none, none, none, false⟩ (chosenProfile none ⟨.localQuorum, some .localSerial⟩) = some .localSerial ∧
    sessionSerial ⟨none, some none, none, false⟩ (chosenProfile none ⟨.localQuorum, some .localSerial⟩) = none ∧
    sessionConsistency ⟨none, none, none, false⟩ (chosenProfile (some ⟨.two, none⟩) ⟨.localQuorum, some .localSerial⟩) = .two ∧
    sessionConsistency ⟨some .all, none, none, false⟩ (chosenProfile (some ⟨.two, none⟩) ⟨.localQuorum, none⟩) = .all := by
  decide

/-- **manual_paging_glue.** `*_single_page` sends the paging state the CALLER passed, whatever it is (absent, empty but
present, long): the frame reads back to it; and a caller looping over the server's answers sends request `i+1` with
exactly answer `i`. -/
theorem manual_paging_glue (k : Codec) (p : PreparedInfo) (vals : List RawVal) (cfg : StmtConfig)
    (sp : Option ExecProfile) (sd : ExecProfile) (conn : ConnCtx) (sps : Int32) (callerState : Option (List UInt8))
    (states : List (List UInt8)) (f : List UInt8)
    (h : encodeReq k (sessionSinglePageExecute p vals cfg sp sd conn sps callerState) none cfg.tracing = .ok f)
    (hlen : f.length - 9 < 2 ^ 32) :
    (∃ id mid pv, parseReq conn.metadataIdExt f = some ⟨false, cfg.tracing, 0, .execute id mid pv⟩ ∧
      pv.pagingState = callerState ∧ pv.pageSize = some sps.toInt) ∧
    sessionManualExecutePages p vals cfg sp sd conn sps states =
      sessionSinglePageExecute p vals cfg sp sd conn sps none ::
        states.map (fun s => sessionSinglePageExecute p vals cfg sp sd conn sps (some s)) ∧
    (∀ text, sessionManualQueryPages text cfg sp sd conn sps states =
      sessionSinglePageQuery text cfg sp sd conn sps none ::
        states.map (fun s => sessionSinglePageQuery text cfg sp sd conn sps (some s))) := by
  refine ⟨?_, ?_, ?_⟩
  · have := session_execute_glue k p vals cfg sp sd conn .paged sps callerState f h hlen
    exact ⟨_, _, _, this, rfl, rfl⟩
  · simp [sessionManualExecutePages, List.map_map, Function.comp_def]
  · intro text; simp [sessionManualQueryPages, List.map_map, Function.comp_def]

example : (sessionManualExecutePages ⟨[9], 2, none, false⟩ [] ⟨none, none, none, false⟩ none ⟨.one, none⟩
    ⟨.localQuorum, none, false⟩ 10 [[], [2, 0xAB]]).map (fun r => match r with | .execute _ _ p => p.pagingState | _ => none)
    = [none, some [], some [2, 0xAB]] := by decide

/-! ### Statement → PreparedStatement inheritance; `query_*` with values; `CachingSession` -/

/-- **statement_config_inherited.** A request that goes PREPARE → EXECUTE from a configured *statement*
(`Session::query_*` with values, `Session::prepare(stmt)` + `execute_*`, `CachingSession::execute_*`, cache miss or hit)
sends: a PREPARE of the statement's text whose tracing flag is the statement's; then one EXECUTE per page, each exactly
the EXECUTE a handle configured with the *statement's* consistency, serial consistency, timestamp, execution profile and
page size would send (so `session_execute_glue` applies to it), with the statement's tracing flag. Nothing of the
statement's configuration is lost on the way into the prepared handle. -/
theorem statement_config_inherited (text : List UInt8) (server : PreparedInfo) (uc : Bool) (vals : List RawVal)
    (cfg : StmtConfig) (sp : Option ExecProfile) (sd : ExecProfile) (conn : ConnCtx) (m : Paging) (sps : Int32)
    (states : List (List UInt8)) :
    sessionPreparedFromStatement text server uc vals cfg sp sd conn m sps states =
      (.prepare text, cfg.tracing) ::
      (sessionExecute { server with useCachedResultMetadata := uc } vals cfg sp sd conn m sps none, cfg.tracing) ::
        states.map (fun s =>
          (sessionExecute { server with useCachedResultMetadata := uc } vals cfg sp sd conn m sps (some s), cfg.tracing)) := by
  simp [sessionPreparedFromStatement, intoPrepared, List.map_map, Function.comp_def]

/-- **session_query_values_glue.** The EXECUTE frame of `query_*(statement, values)` reads back to the server's id for
the statement text, the caller's values in order, and the *statement's* consistency / serial consistency (else the
profile's), timestamp (else the generator's), page size per paging mode. -/
theorem session_query_values_glue (k : Codec) (text : List UInt8) (server : PreparedInfo) (vals : List RawVal)
    (cfg : StmtConfig) (sp : Option ExecProfile) (sd : ExecProfile) (conn : ConnCtx) (m : Paging) (sps : Int32)
    (r : Req) (tr : Bool) (f : List UInt8)
    (hr : (sessionPreparedFromStatement text server false vals cfg sp sd conn m sps [])[1]? = some (r, tr))
    (h : encodeReq k r none tr = .ok f) (hlen : f.length - 9 < 2 ^ 32) :
    tr = cfg.tracing ∧
    parseReq conn.metadataIdExt f = some ⟨false, cfg.tracing, 0, .execute server.id
      (cachedMetadataParams { server with useCachedResultMetadata := false } conn.metadataIdExt).2
      { consistency := sessionConsistency cfg (chosenProfile sp sd)
        skipMetadata := (cachedMetadataParams { server with useCachedResultMetadata := false } conn.metadataIdExt).1
        values := vals
        pageSize := (sessionPageSize m sps).map Int32.toInt
        pagingState := none
        serialConsistency := sessionSerial cfg (chosenProfile sp sd)
        timestamp := (match cfg.timestamp with | some t => some t | none => conn.genTimestamp).map Int64.toInt }⟩ := by
  rw [statement_config_inherited] at hr
  simp only [List.getElem?_cons_succ, List.getElem?_cons_zero, Option.some.injEq, Prod.mk.injEq] at hr
  obtain ⟨rfl, rfl⟩ := hr
  refine ⟨rfl, ?_⟩
  exact session_execute_glue k _ vals cfg sp sd conn m sps none f h hlen

example : (sessionPreparedFromStatement [0x78] ⟨[9], 2, none, false⟩ true [.null] ⟨some .two, some none, some 5, true⟩ none
    ⟨.localQuorum, some .localSerial⟩ ⟨.localQuorum, none, false⟩ .paged 100 [[1]]).map (fun x => x.2) = [true, true, true] := by
  decide

/-! ### STARTUP (`open_connection`) -/

/-- The keys and fixed values the driver advertises are the protocol's (checked against the constants extracted from
`request/options.rs` and `protocol_features.rs`). -/
theorem startup_constants_are_spec :
    Generated.startup_key_CQL_VERSION = ascii "CQL_VERSION" ∧ Generated.startup_CQL_VERSION_value = ascii "4.0.0" ∧
    Generated.startup_key_COMPRESSION = ascii "COMPRESSION" ∧ Generated.startup_key_DRIVER_NAME = ascii "DRIVER_NAME" ∧
    Generated.startup_key_DRIVER_VERSION = ascii "DRIVER_VERSION" ∧
    Generated.startup_key_USE_METADATA_ID = ascii "SCYLLA_USE_METADATA_ID" ∧
    Generated.startup_key_TABLETS_ROUTING_V1 = ascii "TABLETS_ROUTING_V1" ∧
    Generated.startup_key_RATE_LIMIT_ERROR = ascii "SCYLLA_RATE_LIMIT_ERROR" ∧
    Generated.startup_key_LWT_MARK = ascii "SCYLLA_LWT_ADD_METADATA_MARK" ∧
    Generated.startup_LWT_MASK_field = ascii "LWT_OPTIMIZATION_META_BIT_MASK" := by
  decide +kernel

/-- **startup_glue.** What STARTUP advertises: always CQL_VERSION / DRIVER_NAME / DRIVER_VERSION; COMPRESSION iff a
compression is configured *and* SUPPORTED lists it (with that algorithm's name), and then that is the compression in
force afterwards; each protocol extension iff it was negotiated from SUPPORTED. -/
theorem startup_glue (n : Negotiated) (c : Option Compression) :
    (Generated.startup_key_CQL_VERSION, Generated.startup_CQL_VERSION_value) ∈ startupOptions n c ∧
    (∀ v, (Generated.startup_key_COMPRESSION, v) ∈ startupOptions n c ↔
      ∃ comp, c = some comp ∧ n.compressionSupported = true ∧ v = compressionName comp) ∧
    (effectiveCompression n c = (if n.compressionSupported then c else none)) ∧
    (∀ v, (Generated.startup_key_USE_METADATA_ID, v) ∈ startupOptions n c ↔ n.metadataId = true ∧ v = []) ∧
    (∀ v, (Generated.startup_key_TABLETS_ROUTING_V1, v) ∈ startupOptions n c ↔ n.tabletsV1 = true ∧ v = []) ∧
    (∀ v, (Generated.startup_key_RATE_LIMIT_ERROR, v) ∈ startupOptions n c ↔ n.rateLimitError = true ∧ v = []) := by
  rcases n with ⟨rl, lwt, tab, mid, cs⟩
  refine ⟨by simp [startupOptions, startupOptionsId], ?_, ?_, ?_, ?_, ?_⟩
  · intro v
    cases c <;> cases cs <;> cases rl <;> cases lwt <;> cases tab <;> cases mid <;>
      simp [startupOptions, startupOptionsId, featureOptions, identityOptions, optEntry, compressionOption, Generated.startup_key_COMPRESSION, Generated.startup_key_RATE_LIMIT_ERROR,
        Generated.startup_key_LWT_MARK, Generated.startup_key_TABLETS_ROUTING_V1, Generated.startup_key_USE_METADATA_ID,
        Generated.startup_key_CQL_VERSION, Generated.startup_key_DRIVER_NAME, Generated.startup_key_DRIVER_VERSION]
  · cases c <;> cases cs <;> simp [effectiveCompression]
  · intro v
    cases c <;> cases cs <;> cases rl <;> cases lwt <;> cases tab <;> cases mid <;>
      simp [startupOptions, startupOptionsId, featureOptions, identityOptions, optEntry, compressionOption, Generated.startup_key_COMPRESSION, Generated.startup_key_RATE_LIMIT_ERROR,
        Generated.startup_key_LWT_MARK, Generated.startup_key_TABLETS_ROUTING_V1, Generated.startup_key_USE_METADATA_ID,
        Generated.startup_key_CQL_VERSION, Generated.startup_key_DRIVER_NAME, Generated.startup_key_DRIVER_VERSION]
  · intro v
    cases c <;> cases cs <;> cases rl <;> cases lwt <;> cases tab <;> cases mid <;>
      simp [startupOptions, startupOptionsId, featureOptions, identityOptions, optEntry, compressionOption, Generated.startup_key_COMPRESSION, Generated.startup_key_RATE_LIMIT_ERROR,
        Generated.startup_key_LWT_MARK, Generated.startup_key_TABLETS_ROUTING_V1, Generated.startup_key_USE_METADATA_ID,
        Generated.startup_key_CQL_VERSION, Generated.startup_key_DRIVER_NAME, Generated.startup_key_DRIVER_VERSION]
  · intro v
    cases c <;> cases cs <;> cases rl <;> cases lwt <;> cases tab <;> cases mid <;>
      simp [startupOptions, startupOptionsId, featureOptions, identityOptions, optEntry, compressionOption, Generated.startup_key_COMPRESSION, Generated.startup_key_RATE_LIMIT_ERROR,
        Generated.startup_key_LWT_MARK, Generated.startup_key_TABLETS_ROUTING_V1, Generated.startup_key_USE_METADATA_ID,
        Generated.startup_key_CQL_VERSION, Generated.startup_key_DRIVER_NAME, Generated.startup_key_DRIVER_VERSION]

/-- **identity_glue.** What a (custom) `SelfIdentity` contributes to STARTUP: DRIVER_NAME / DRIVER_VERSION always — the
custom value if set, else the crate's defaults; APPLICATION_NAME, APPLICATION_VERSION, CLIENT_ID exactly when set, with
the caller's value; and the whole map is features ++ CQL_VERSION ++ identity ++ compression, under pairwise distinct keys. -/
theorem identity_glue (id : Identity) (n : Negotiated) (c : Option Compression) :
    startupOptionsId id n c = featureOptions n ++ [(Generated.startup_key_CQL_VERSION, Generated.startup_CQL_VERSION_value)]
      ++ identityOptions id ++ compressionOption n c ∧
    (Generated.startup_key_DRIVER_NAME,
      match id.driverName with | some v => v | none => Generated.startup_DRIVER_NAME_value) ∈ identityOptions id ∧
    (Generated.startup_key_DRIVER_VERSION,
      match id.driverVersion with | some v => v | none => Generated.startup_DRIVER_VERSION_value) ∈ identityOptions id ∧
    (∀ v, id.applicationName = some v → (Generated.startup_key_APPLICATION_NAME, v) ∈ identityOptions id) ∧
    (∀ v, id.applicationVersion = some v → (Generated.startup_key_APPLICATION_VERSION, v) ∈ identityOptions id) ∧
    (∀ v, id.clientId = some v → (Generated.startup_key_CLIENT_ID, v) ∈ identityOptions id) ∧
    (identityOptions id).length = 2 + id.applicationName.toList.length + id.applicationVersion.toList.length
      + id.clientId.toList.length ∧
    [Generated.startup_key_CQL_VERSION, Generated.startup_key_DRIVER_NAME, Generated.startup_key_DRIVER_VERSION,
     Generated.startup_key_APPLICATION_NAME, Generated.startup_key_APPLICATION_VERSION, Generated.startup_key_CLIENT_ID,
     Generated.startup_key_COMPRESSION, Generated.startup_key_RATE_LIMIT_ERROR, Generated.startup_key_LWT_MARK,
     Generated.startup_key_TABLETS_ROUTING_V1, Generated.startup_key_USE_METADATA_ID].Nodup := by
  rcases id with ⟨dn, dv, an, av, ci⟩
  refine ⟨rfl, ?_, ?_, ?_, ?_, ?_, ?_, by decide +kernel⟩
  · cases dn <;> simp [identityOptions]
  · cases dv <;> simp [identityOptions]
  · intro v h; simp only [] at h; subst h; simp [identityOptions, optEntry]
  · intro v h; simp only [] at h; subst h; simp [identityOptions, optEntry]
  · intro v h; simp only [] at h; subst h; simp [identityOptions, optEntry]
  · cases an <;> cases av <;> cases ci <;> simp [identityOptions, optEntry]

example : startupOptions ⟨false, some 2147483648, false, true, true⟩ (some .lz4) =
    [(ascii "SCYLLA_LWT_ADD_METADATA_MARK", ascii "LWT_OPTIMIZATION_META_BIT_MASK=2147483648"),
     (ascii "SCYLLA_USE_METADATA_ID", []), (ascii "CQL_VERSION", ascii "4.0.0"),
     (ascii "DRIVER_NAME", ascii "ScyllaDB Rust Driver"), (ascii "DRIVER_VERSION", Generated.startup_DRIVER_VERSION_value),
     (ascii "COMPRESSION", ascii "lz4")] := by decide +kernel

end ScyllaVerif.Props.C09Glue

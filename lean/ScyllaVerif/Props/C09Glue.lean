/-
C09, connection-level glue — what the caller configured on a statement is what the frame says.

Model: `Model/RequestGlue.lean` (statement configuration → request record, transcribing `network/connection.rs`), composed
with the encoder theorems of `Props/C09.lean`.  Property theorems only.
-/
import ScyllaVerif.Props.C09
import ScyllaVerif.Model.RequestGlue

namespace ScyllaVerif.Props.C09Glue
open ScyllaVerif.Request ScyllaVerif.Wire ScyllaVerif.ReqParse ScyllaVerif.Proofs.Request ScyllaVerif.RequestGlue
open ScyllaVerif ScyllaVerif.Props.C09

private theorem serial_join (x : Option (Option SerialConsistency)) :
    x.join = (match x with | some (some s) => some s | _ => none) := by
  cases x with
  | none => rfl
  | some y => cases y <;> rfl

private theorem cons_getD (x : Option Consistency) (d : Consistency) :
    x.getD d = (match x with | some c => c | none => d) := by
  cases x <;> rfl

/-! ### QUERY (`Connection::query_raw_with_consistency`) -/

/-- **query_glue.** The QUERY frame of an unprepared statement reads back (independent parser) to: the statement text;
the statement's consistency if it has one, else the connection's default; the statement's serial consistency
(`Some(Some x)` → `x`, unset or `Some(None)` → none); the statement's timestamp if set, else the generator's value if a
generator is configured, else none; the page size and paging state handed in; no values; `skip_metadata` off; and the
header's tracing flag is the statement's tracing setting. -/
theorem query_glue (k : Codec) (text : List UInt8) (cfg : StmtConfig) (conn : ConnCtx) (ps : Option Int32)
    (pg : Option (List UInt8)) (f : List UInt8)
    (h : encodeReq k (queryRequest text cfg conn ps pg) none cfg.tracing = .ok f) (hlen : f.length - 9 < 2 ^ 32) :
    parseReq false f = some ⟨false, cfg.tracing, 0, .query text
      { consistency := match cfg.consistency with | some c => c | none => conn.defaultConsistency
        skipMetadata := false
        values := []
        pageSize := ps.map Int32.toInt
        pagingState := pg
        serialConsistency := match cfg.serialConsistency with | some (some s) => some s | _ => none
        timestamp := (match cfg.timestamp with | some t => some t | none => conn.genTimestamp).map Int64.toInt }⟩ := by
  have hp := (parse_encode k _ cfg.tracing f h hlen).1
  have hm : hasMetadataId (queryRequest text cfg conn ps pg) = false := rfl
  rw [hm] at hp
  rw [hp]
  simp only [queryRequest, view, viewParams, determineConsistency, requestSerial, requestTimestamp, serial_join,
    cons_getD]
  rcases cfg with ⟨c, sc, ts, tr⟩
  cases c <;> cases ts <;> rcases sc with _ | _ | _ <;> rfl

/-- A QUERY is always sent unless the text or the paging state is 2 GiB or more. -/
theorem query_sent (k : Codec) (text : List UInt8) (cfg : StmtConfig) (conn : ConnCtx) (ps : Option Int32)
    (pg : Option (List UInt8)) (ht : text.length < 2 ^ 31) (hpg : ∀ b, pg = some b → b.length < 2 ^ 31) :
    ∃ f, encodeReq k (queryRequest text cfg conn ps pg) none cfg.tracing = .ok f := by
  have hr : Representable (queryRequest text cfg conn ps pg) :=
    ⟨ht, ⟨by simp [queryRequest], by simp [queryRequest]⟩, by simpa [queryRequest] using hpg⟩
  obtain ⟨b, hb⟩ := representable_accepted _ hr
  simp [encodeReq, hb]

example : ∃ f, encodeReq ⟨id, fun _ _ => none, some, fun _ => none, fun _ => none⟩
    (queryRequest [0x78] ⟨none, some (some .serial), none, true⟩ ⟨.localQuorum, some 7, false⟩ (some 10) none) none true
      = .ok f ∧ f.drop 9 = [0, 0, 0, 1, 0x78, 0, 6, 0x34, 0, 0, 0, 10, 0, 8, 0, 0, 0, 0, 0, 0, 0, 7] :=
  ⟨_, rfl, by decide⟩

/-! ### EXECUTE (`Connection::execute_raw_with_consistency`, `calculate_cached_metadata_params`) -/

/-- **cached_metadata_decision.** `skip_metadata` is requested exactly when the driver holds result columns for the
statement and either the caller allowed cached metadata or the metadata-id extension is on; a result metadata id is
sent iff the extension is on — the cached id when metadata is skipped (empty if the statement has none), else empty. -/
theorem cached_metadata_decision (p : PreparedInfo) (ext : Bool) :
    ((cachedMetadataParams p ext).1 = true ↔ p.resultColCount ≠ 0 ∧ (p.useCachedResultMetadata = true ∨ ext = true)) ∧
    ((cachedMetadataParams p ext).2.isSome = ext) ∧
    (ext = true → (cachedMetadataParams p ext).2 =
      some (if (cachedMetadataParams p ext).1 then (match p.resultMetadataId with | some i => i | none => []) else [])) := by
  cases ext <;> by_cases hc : p.resultColCount = 0 <;> cases hu : p.useCachedResultMetadata <;>
    cases hm : p.resultMetadataId <;> simp [cachedMetadataParams, hc, hu, hm]

/-- **execute_glue.** The EXECUTE frame reads back to: the prepared statement's id; the result-metadata id and
`skip_metadata` of `cached_metadata_decision`; consistency / serial consistency / timestamp as for QUERY; the bound
values in order; page size and paging state; tracing flag = the statement's. The parser is in the connection's
negotiated mode (`conn.metadataIdExt`). -/
theorem execute_glue (k : Codec) (p : PreparedInfo) (vals : List RawVal) (cfg : StmtConfig) (conn : ConnCtx)
    (ps : Option Int32) (pg : Option (List UInt8)) (f : List UInt8)
    (h : encodeReq k (executeRequest p vals cfg conn ps pg) none cfg.tracing = .ok f) (hlen : f.length - 9 < 2 ^ 32) :
    parseReq conn.metadataIdExt f = some ⟨false, cfg.tracing, 0, .execute p.id (cachedMetadataParams p conn.metadataIdExt).2
      { consistency := match cfg.consistency with | some c => c | none => conn.defaultConsistency
        skipMetadata := (cachedMetadataParams p conn.metadataIdExt).1
        values := vals
        pageSize := ps.map Int32.toInt
        pagingState := pg
        serialConsistency := match cfg.serialConsistency with | some (some s) => some s | _ => none
        timestamp := (match cfg.timestamp with | some t => some t | none => conn.genTimestamp).map Int64.toInt }⟩ := by
  have hp := (parse_encode k _ cfg.tracing f h hlen).1
  have hm : hasMetadataId (executeRequest p vals cfg conn ps pg) = conn.metadataIdExt := by
    have := (cached_metadata_decision p conn.metadataIdExt).2.1
    simp only [executeRequest, hasMetadataId]
    cases hx : (cachedMetadataParams p conn.metadataIdExt).2 <;> simp_all
  rw [hm] at hp
  rw [hp]
  simp only [executeRequest, view, viewParams, determineConsistency, requestSerial, requestTimestamp, serial_join,
    cons_getD]
  rcases cfg with ⟨c, sc, ts, tr⟩
  cases c <;> cases ts <;> rcases sc with _ | _ | _ <;> rfl

-- non-vacuity: extension on, cached columns -> skip_metadata with the cached id; no columns -> full metadata, empty id
example : cachedMetadataParams ⟨[1], 2, some [7, 7], false⟩ true = (true, some [7, 7]) ∧
    cachedMetadataParams ⟨[1], 0, some [7, 7], true⟩ true = (false, some []) ∧
    cachedMetadataParams ⟨[1], 2, none, true⟩ false = (true, none) ∧
    cachedMetadataParams ⟨[1], 2, none, false⟩ false = (false, none) := by decide

/-! ### paged iteration (`Connection::execute_iter`) -/

/-- **pager_glue.** A paged iteration sends one EXECUTE per page: the first without a paging state, the `i+1`-th with
exactly the paging state the server returned for page `i`; all with the statement's page size and the same statement,
values and configuration. -/
theorem pager_glue (p : PreparedInfo) (vals : List RawVal) (cfg : StmtConfig) (conn : ConnCtx) (ps : Int32)
    (states : List (List UInt8)) :
    pagerRequests p vals cfg conn ps states =
      executeRequest p vals cfg conn (some ps) none ::
        states.map (fun s => executeRequest p vals cfg conn (some ps) (some s)) ∧
    (pagerRequests p vals cfg conn ps states).length = states.length + 1 := by
  simp [pagerRequests, List.map_map, Function.comp_def]

/-! ### BATCH (`Connection::batch_with_consistency`, `prepare_batch`) -/

/-- Which texts `prepare_batch` prepares: those of unprepared statements that have a non-empty value row. -/
theorem mem_textsToPrepare (t : List UInt8) : ∀ (stmts : List GlueStmt) (rows : List (List RawVal)),
    t ∈ textsToPrepare stmts rows ↔
      ∃ (i : Nat) (row : List RawVal), stmts[i]? = some (GlueStmt.unprepared t) ∧ rows[i]? = some row ∧ row ≠ [] := by
  intro stmts
  induction stmts with
  | nil => intro rows; simp [textsToPrepare]
  | cons s ss ih =>
    intro rows
    cases rows with
    | nil => simp [textsToPrepare]
    | cons r rs =>
      cases s with
      | prepared i c =>
        simp only [textsToPrepare, ih rs]
        constructor
        · rintro ⟨i, row, h1, h2, h3⟩; exact ⟨i + 1, row, by simpa using h1, by simpa using h2, h3⟩
        · rintro ⟨i, row, h1, h2, h3⟩
          cases i with
          | zero => simp at h1
          | succ j => exact ⟨j, row, by simpa using h1, by simpa using h2, h3⟩
      | unprepared u =>
        simp only [textsToPrepare]
        cases hre : r.isEmpty with
        | true =>
          have hr' : r = [] := by simpa using hre
          simp only [if_true, ih rs]
          constructor
          · rintro ⟨i, row, h1, h2, h3⟩; exact ⟨i + 1, row, by simpa using h1, by simpa using h2, h3⟩
          · rintro ⟨i, row, h1, h2, h3⟩
            cases i with
            | zero => simp at h2; subst h2; exact absurd hr' h3
            | succ j => exact ⟨j, row, by simpa using h1, by simpa using h2, h3⟩
        | false =>
          have hr' : r ≠ [] := by intro he; subst he; simp at hre
          simp only [Bool.false_eq_true, if_false, List.mem_cons, ih rs]
          constructor
          · rintro (rfl | ⟨i, row, h1, h2, h3⟩)
            · exact ⟨0, r, by simp, by simp, hr'⟩
            · exact ⟨i + 1, row, by simpa using h1, by simpa using h2, h3⟩
          · rintro ⟨i, row, h1, h2, h3⟩
            cases i with
            | zero => left; simp at h1; exact h1.symm
            | succ j => right; exact ⟨j, row, by simpa using h1, by simpa using h2, h3⟩

/-- `prepare_batch` keeps the statements in place: prepared ones untouched; an unprepared one is replaced by the
statement the server prepared for its text iff that text carries values somewhere in the batch. -/
theorem prepareBatch_spec (server : List UInt8 → List UInt8 × Nat) (stmts : List GlueStmt) (rows : List (List RawVal)) :
    (prepareBatch server stmts rows).length = stmts.length ∧
    ∀ i : Nat, (prepareBatch server stmts rows)[i]? = (stmts[i]?).map (fun s =>
      match s with
      | GlueStmt.prepared id c => GlueStmt.prepared id c
      | GlueStmt.unprepared t =>
        if (textsToPrepare stmts rows).contains t then GlueStmt.prepared (server t).1 (server t).2
        else GlueStmt.unprepared t) := by
  refine ⟨by simp [prepareBatch], ?_⟩
  intro i
  simp only [prepareBatch, List.getElem?_map]
  cases stmts[i]? with
  | none => rfl
  | some s => cases s <;> rfl

/-- **batch_glue.** The BATCH frame built through the connection reads back to: the batch type; the statements of
`prepareBatch` in order (text for unprepared, id for prepared), each with its own value row in order; the batch's
consistency / serial consistency / timestamp with the same defaulting as QUERY; tracing flag = the batch's.  And a
frame exists only if there is exactly one row per statement and every row has as many values as its statement has bind
markers (0 for an unprepared statement). -/
theorem batch_glue (k : Codec) (server : List UInt8 → List UInt8 × Nat) (ty : BatchType) (stmts : List GlueStmt)
    (rows : List (List RawVal)) (cfg : StmtConfig) (conn : ConnCtx) (f : List UInt8)
    (h : encodeFrameOf k (batchRequestBody server ty stmts rows cfg conn) Generated.requestOpcode_Batch none cfg.tracing
      = .ok f) (hlen : f.length - 9 < 2 ^ 32) :
    parseReq false f = some ⟨false, cfg.tracing, 0, .batch ty
      ((((prepareBatch server stmts rows).map stmtWithCtx).map Prod.fst).map viewStmt |>.zip rows)
      (match cfg.consistency with | some c => c | none => conn.defaultConsistency)
      (match cfg.serialConsistency with | some (some s) => some s | _ => none)
      ((match cfg.timestamp with | some t => some t | none => conn.genTimestamp).map Int64.toInt)⟩ ∧
    stmts.length = rows.length ∧
    ((prepareBatch server stmts rows).map stmtWithCtx).map Prod.snd = rows.map List.length := by
  have hp := adapter_batch_parse k ty ((prepareBatch server stmts rows).map stmtWithCtx) rows
    (determineConsistency cfg conn) (requestSerial cfg) (requestTimestamp cfg conn) cfg.tracing f h hlen
  cases hb : batchRequestBody server ty stmts rows cfg conn with
  | error e => rw [hb] at h; simp [encodeFrameOf] at h
  | ok b =>
    obtain ⟨hbody, hctx⟩ := adapter_batch_refines _ _ _ _ _ _ _ hb
    have hrep := (rdBody_encodeBody hbody).1
    have hl : stmts.length = rows.length := by
      have := hrep.2.1
      simpa [prepareBatch] using this
    refine ⟨?_, hl, hctx⟩
    rw [hp]
    simp only [determineConsistency, requestSerial, requestTimestamp, serial_join, cons_getD]
    rcases cfg with ⟨c, sc, ts, tr⟩
    cases c <;> cases ts <;> rcases sc with _ | _ | _ <;> rfl

example : (match batchRequestBody (fun _ => ([9], 1)) .logged [.unprepared [0x78], .prepared [1] 1] [[.null], [.unset]]
      ⟨none, none, none, false⟩ ⟨.one, some 5, false⟩,
    batchRequestBody (fun _ => ([9], 1)) .logged [.unprepared [0x78]] [[.null], []] ⟨none, none, none, false⟩ ⟨.one, none, false⟩ with
    | .ok _, .error (.batchMismatch 2 1) => true | _, _ => false) = true := by decide +kernel

/-! ### STARTUP (`open_connection`) -/

/-- The keys and fixed values the driver advertises are the protocol's (checked against the constants extracted from
`request/options.rs` and `protocol_features.rs`). -/
theorem startup_constants_are_spec :
    Generated.startup_key_CQL_VERSION = ascii "CQL_VERSION" ∧ Generated.startup_CQL_VERSION_value = ascii "4.0.0" ∧
    Generated.startup_key_COMPRESSION = ascii "COMPRESSION" ∧ Generated.startup_key_DRIVER_NAME = ascii "DRIVER_NAME" ∧
    Generated.startup_key_DRIVER_VERSION = ascii "DRIVER_VERSION" ∧
    Generated.startup_key_USE_METADATA_ID = ascii "SCYLLA_USE_METADATA_ID" ∧
    Generated.startup_key_TABLETS_ROUTING_V1 = ascii "TABLETS_ROUTING_V1" ∧
    Generated.startup_key_RATE_LIMIT_ERROR = ascii "SCYLLA_RATE_LIMIT_ERROR" ∧
    Generated.startup_key_LWT_MARK = ascii "SCYLLA_LWT_ADD_METADATA_MARK" ∧
    Generated.startup_LWT_MASK_field = ascii "LWT_OPTIMIZATION_META_BIT_MASK" := by
  decide +kernel

/-- **startup_glue.** What STARTUP advertises: always CQL_VERSION / DRIVER_NAME / DRIVER_VERSION; COMPRESSION iff a
compression is configured *and* SUPPORTED lists it (with that algorithm's name), and then that is the compression in
force afterwards; each protocol extension iff it was negotiated from SUPPORTED. -/
theorem startup_glue (n : Negotiated) (c : Option Compression) :
    (Generated.startup_key_CQL_VERSION, Generated.startup_CQL_VERSION_value) ∈ startupOptions n c ∧
    (∀ v, (Generated.startup_key_COMPRESSION, v) ∈ startupOptions n c ↔
      ∃ comp, c = some comp ∧ n.compressionSupported = true ∧ v = compressionName comp) ∧
    (effectiveCompression n c = (if n.compressionSupported then c else none)) ∧
    (∀ v, (Generated.startup_key_USE_METADATA_ID, v) ∈ startupOptions n c ↔ n.metadataId = true ∧ v = []) ∧
    (∀ v, (Generated.startup_key_TABLETS_ROUTING_V1, v) ∈ startupOptions n c ↔ n.tabletsV1 = true ∧ v = []) ∧
    (∀ v, (Generated.startup_key_RATE_LIMIT_ERROR, v) ∈ startupOptions n c ↔ n.rateLimitError = true ∧ v = []) := by
  rcases n with ⟨rl, lwt, tab, mid, cs⟩
  refine ⟨by simp [startupOptions], ?_, ?_, ?_, ?_, ?_⟩
  · intro v
    cases c <;> cases cs <;> cases rl <;> cases lwt <;> cases tab <;> cases mid <;>
      simp [startupOptions, Generated.startup_key_COMPRESSION, Generated.startup_key_RATE_LIMIT_ERROR,
        Generated.startup_key_LWT_MARK, Generated.startup_key_TABLETS_ROUTING_V1, Generated.startup_key_USE_METADATA_ID,
        Generated.startup_key_CQL_VERSION, Generated.startup_key_DRIVER_NAME, Generated.startup_key_DRIVER_VERSION]
  · cases c <;> cases cs <;> simp [effectiveCompression]
  · intro v
    cases c <;> cases cs <;> cases rl <;> cases lwt <;> cases tab <;> cases mid <;>
      simp [startupOptions, Generated.startup_key_COMPRESSION, Generated.startup_key_RATE_LIMIT_ERROR,
        Generated.startup_key_LWT_MARK, Generated.startup_key_TABLETS_ROUTING_V1, Generated.startup_key_USE_METADATA_ID,
        Generated.startup_key_CQL_VERSION, Generated.startup_key_DRIVER_NAME, Generated.startup_key_DRIVER_VERSION]
  · intro v
    cases c <;> cases cs <;> cases rl <;> cases lwt <;> cases tab <;> cases mid <;>
      simp [startupOptions, Generated.startup_key_COMPRESSION, Generated.startup_key_RATE_LIMIT_ERROR,
        Generated.startup_key_LWT_MARK, Generated.startup_key_TABLETS_ROUTING_V1, Generated.startup_key_USE_METADATA_ID,
        Generated.startup_key_CQL_VERSION, Generated.startup_key_DRIVER_NAME, Generated.startup_key_DRIVER_VERSION]
  · intro v
    cases c <;> cases cs <;> cases rl <;> cases lwt <;> cases tab <;> cases mid <;>
      simp [startupOptions, Generated.startup_key_COMPRESSION, Generated.startup_key_RATE_LIMIT_ERROR,
        Generated.startup_key_LWT_MARK, Generated.startup_key_TABLETS_ROUTING_V1, Generated.startup_key_USE_METADATA_ID,
        Generated.startup_key_CQL_VERSION, Generated.startup_key_DRIVER_NAME, Generated.startup_key_DRIVER_VERSION]

example : startupOptions ⟨false, some 2147483648, false, true, true⟩ (some .lz4) =
    [(ascii "SCYLLA_LWT_ADD_METADATA_MARK", ascii "LWT_OPTIMIZATION_META_BIT_MASK=2147483648"),
     (ascii "SCYLLA_USE_METADATA_ID", []), (ascii "CQL_VERSION", ascii "4.0.0"),
     (ascii "DRIVER_NAME", ascii "ScyllaDB Rust Driver"), (ascii "DRIVER_VERSION", Generated.startup_DRIVER_VERSION_value),
     (ascii "COMPRESSION", ascii "lz4")] := by decide +kernel

end ScyllaVerif.Props.C09Glue

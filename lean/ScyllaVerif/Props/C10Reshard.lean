import ScyllaVerif.Model.C10Reshard
/-!
# C10 - a dead connection leaves the refiller's lists, across reshards (Model/C10Reshard.lean)

THEOREM-ONLY layer: no `pool` script restarts the node with another shard count yet.
-/
namespace ScyllaVerif.Props.C10Reshard
open ScyllaVerif.C10Reshard

theorem getB_modifyAt (f : List Nat → List Nat) (l : List (List Nat)) (i j : Nat) :
    getB (modifyAt f l i) j = if i = j ∧ i < l.length then f (getB l j) else getB l j := by
  induction l generalizing i j with
  | nil => simp [modifyAt]
  | cons b bs ih =>
    cases i with
    | zero => cases j <;> simp [modifyAt, getB]
    | succ i =>
      cases j with
      | zero => simp [modifyAt, getB]
      | succ j =>
        have := ih i j
        simp only [getB, List.getElem?_cons_succ, modifyAt] at this ⊢
        rw [this]; simp

theorem length_modifyAt (f : List Nat → List Nat) (l : List (List Nat)) (i : Nat) :
    (modifyAt f l i).length = l.length := by
  induction l generalizing i with
  | nil => rfl
  | cons b bs ih => cases i <;> simp [modifyAt, ih]

theorem getB_of_le (l : List (List Nat)) (j : Nat) (h : l.length ≤ j) : getB l j = [] := by
  simp [getB, List.getElem?_eq_none h]

theorem getB_replicate (n j : Nat) : getB (List.replicate n []) j = [] := by
  unfold getB
  cases h : (List.replicate n ([] : List Nat))[j]? with
  | none => rfl
  | some v =>
    have := List.mem_of_getElem? h
    simp [List.mem_replicate] at this
    simp [this.2]

theorem presentB_iff (p : RPool) (c : Nat) : presentB p c = true ↔ present p c := by
  unfold presentB present
  simp only [Bool.or_eq_true, List.any_eq_true, List.elem_eq_mem, decide_eq_true_eq]
  constructor
  · rintro (⟨b, hb, hc⟩ | h)
    · obtain ⟨j, hj, rfl⟩ := List.getElem_of_mem hb
      exact Or.inl ⟨j, by simpa [getB, List.getElem?_eq_getElem hj] using hc⟩
    · exact Or.inr h
  · rintro (⟨j, hj⟩ | h)
    · left
      unfold getB at hj
      cases hg : p.buckets[j]? with
      | none => simp [hg] at hj
      | some b => exact ⟨b, List.mem_of_getElem? hg, by simpa [hg] using hj⟩
    · exact Or.inr h

/-- The invariant of the refiller's lists: no pointer twice, a connection sits only in the bucket of its own shard. -/
structure WF (sh : Nat → Nat) (p : RPool) : Prop where
  nodupB : ∀ j, (getB p.buckets j).Nodup
  shard : ∀ j c, c ∈ getB p.buckets j → sh c = j
  nodupE : p.excess.Nodup
  disj : ∀ j c, c ∈ getB p.buckets j → c ∉ p.excess

theorem wf_init (sh : Nat → Nat) : WF sh init :=
  ⟨fun j => by cases j <;> simp [init, getB], fun j c h => by cases j <;> simp [init, getB] at h,
   by simp [init], fun j c h => by cases j <;> simp [init, getB] at h⟩

theorem wf_reshard (sh : Nat → Nat) (p : RPool) (h : WF sh p) (n : Option Nat) : WF sh (reshard p n) := by
  unfold reshard
  split
  · exact h
  · exact ⟨fun j => by simp [getB_replicate], fun j c hc => by simp [getB_replicate] at hc, by simp,
      fun j c hc => by simp [getB_replicate] at hc⟩

theorem wf_remove (sh : Nat → Nat) (p : RPool) (h : WF sh p) (c : Nat) : WF sh (removeConn sh p c) := by
  unfold removeConn
  split
  · refine ⟨fun j => ?_, fun j d hd => ?_, h.nodupE, fun j d hd => ?_⟩
    · simp only [getB_modifyAt]; split
      · exact (h.nodupB j).erase c
      · exact h.nodupB j
    · simp only [getB_modifyAt] at hd; split at hd
      · exact h.shard j d (List.mem_of_mem_erase hd)
      · exact h.shard j d hd
    · simp only [getB_modifyAt] at hd; split at hd
      · exact h.disj j d (List.mem_of_mem_erase hd)
      · exact h.disj j d hd
  · split
    · exact ⟨h.nodupB, h.shard, h.nodupE.erase c, fun j d hd he => h.disj j d hd (List.mem_of_mem_erase he)⟩
    · exact h

theorem wf_add (sh : Nat → Nat) (p : RPool) (h : WF sh p) (c : Nat) (e : Bool) : WF sh (addConn sh p c e) := by
  unfold addConn
  split
  · exact h
  · rename_i hp
    have hnp : ¬ present p c := fun hh => hp ((presentB_iff p c).2 hh)
    have hnb : ∀ j, c ∉ getB p.buckets j := fun j hj => hnp (Or.inl ⟨j, hj⟩)
    have hne : c ∉ p.excess := fun he => hnp (Or.inr he)
    split
    · rename_i hc
      refine ⟨fun j => ?_, fun j d hd => ?_, h.nodupE, fun j d hd => ?_⟩
      · simp only [getB_modifyAt]; split
        · exact List.nodup_cons.2 ⟨hnb j, h.nodupB j⟩
        · exact h.nodupB j
      · simp only [getB_modifyAt] at hd; split at hd
        · rename_i hj
          rcases List.mem_cons.1 hd with rfl | hd
          · exact hj.1
          · exact h.shard j d hd
        · exact h.shard j d hd
      · simp only [getB_modifyAt] at hd; split at hd
        · rcases List.mem_cons.1 hd with rfl | hd
          · exact hne
          · exact h.disj j d hd
        · exact h.disj j d hd
    · exact ⟨h.nodupB, h.shard, List.nodup_cons.2 ⟨hne, h.nodupE⟩,
        fun j d hd he => by
          rcases List.mem_cons.1 he with rfl | he
          · exact hnb j hd
          · exact h.disj j d hd he⟩

/-- Every state reachable by fills, deaths and reshards satisfies the invariant. -/
theorem wf_run (sh : Nat → Nat) (p : RPool) (h : WF sh p) (evs : List Ev) : WF sh (run sh p evs) := by
  induction evs generalizing p with
  | nil => exact h
  | cons e rest ih =>
    apply ih
    cases e with
    | add c e => exact wf_add sh p h c e
    | die c => exact wf_remove sh p h c
    | reshard n => exact wf_reshard sh p h n

/-- `remove_connection` on a well-formed state: the dead connection is in NO list afterwards, wherever it was. -/
theorem dead_unpublished_wf (sh : Nat → Nat) (p : RPool) (h : WF sh p) (c : Nat) :
    ¬ present (removeConn sh p c) c := by
  unfold removeConn
  split
  · rename_i hc
    rintro (⟨j, hj⟩ | he)
    · simp only [getB_modifyAt] at hj
      split at hj
      · rename_i hjj
        exact absurd hj (by rw [(h.nodupB j).mem_erase_iff]; simp)
      · rename_i hjj
        exact hjj ⟨h.shard j c hj, hc.1⟩
    · exact h.disj _ c hc.2 he
  · rename_i hc
    have hnb : ∀ j, c ∉ getB p.buckets j := by
      intro j hj
      have hs := h.shard j c hj
      subst hs
      refine hc ⟨?_, hj⟩
      by_cases hl : sh c < p.buckets.length
      · exact hl
      · rw [getB_of_le _ _ (Nat.le_of_not_lt hl)] at hj; cases hj
    split
    · rintro (⟨j, hj⟩ | he)
      · exact hnb j hj
      · exact absurd he (by rw [h.nodupE.mem_erase_iff]; simp)
    · rename_i hne
      rintro (⟨j, hj⟩ | he)
      · exact hnb j hj
      · exact hne he

/-- DEAD CONNECTION IS UNPUBLISHED: for every history of fills / deaths / reshards from the initial pool, after
`remove_connection c` neither a bucket nor `excess_connections` contains `c`. -/
theorem dead_connection_is_unpublished (sh : Nat → Nat) (evs : List Ev) (c : Nat) :
    ¬ present (removeConn sh (run sh init evs) c) c :=
  dead_unpublished_wf sh _ (wf_run sh init (wf_init sh) evs) c

/-- REMOVE TOUCHES ONLY THE DEAD (any state): every other connection stays in the bucket / in the excess list it was
in, no bucket appears or disappears, the sharder is unchanged. -/
theorem remove_touches_only_the_dead (sh : Nat → Nat) (p : RPool) (c d : Nat) (hd : d ≠ c) :
    (∀ j, d ∈ getB (removeConn sh p c).buckets j ↔ d ∈ getB p.buckets j) ∧
    (d ∈ (removeConn sh p c).excess ↔ d ∈ p.excess) ∧
    (removeConn sh p c).buckets.length = p.buckets.length ∧ (removeConn sh p c).sharder = p.sharder := by
  unfold removeConn
  split
  · refine ⟨fun j => ?_, Iff.rfl, length_modifyAt _ _ _, rfl⟩
    simp only [getB_modifyAt]; split
    · exact List.mem_erase_of_ne hd
    · exact Iff.rfl
  · split
    · exact ⟨fun _ => Iff.rfl, List.mem_erase_of_ne hd, rfl, rfl⟩
    · exact ⟨fun _ => Iff.rfl, Iff.rfl, rfl, rfl⟩

/-- RESHARD, exactly: with the same sharder nothing changes; with another one EVERY old connection is dropped (none is
kept in the new buckets or in the excess list), and there are `nr_shards` (1 if unsharded) empty buckets. -/
theorem reshard_keeps_or_drops_consistently (p : RPool) (new : Option Nat) :
    (p.sharder = new → reshard p new = p) ∧
    (p.sharder ≠ new → (∀ c, ¬ present (reshard p new) c) ∧ (reshard p new).buckets.length = new.getD 1 ∧
      (reshard p new).sharder = new) := by
  refine ⟨fun h => by simp [reshard, h], fun h => ?_⟩
  simp only [reshard, h, if_false]
  refine ⟨fun c => ?_, by simp, trivial⟩
  rintro (⟨j, hj⟩ | he)
  · simp [getB_replicate] at hj
  · cases he

/-- The "was already removed" arm: a connection that is in no list leaves the state untouched. -/
theorem remove_absent_is_noop (sh : Nat → Nat) (p : RPool) (c : Nat) (h : ¬ present p c) : removeConn sh p c = p := by
  unfold removeConn
  have h1 : ¬ (sh c < p.buckets.length ∧ c ∈ getB p.buckets (sh c)) := fun hc => h (Or.inl ⟨_, hc.2⟩)
  have h2 : c ∉ p.excess := fun he => h (Or.inr he)
  simp [h1, h2]

/-- REMOVE AFTER RESHARD: a connection opened before a reshard that changes the sharder is NOT in the new lists (it
was dropped, i.e. unpublished, at the reshard - consistent, no stale entry); when it dies later - after any further
fills of OTHER connections, deaths and reshards - its death report finds nothing, removes nothing (in particular not a
new connection that now lives in the bucket with the old connection's shard number), and it is still in no list. -/
theorem remove_after_reshard (sh : Nat → Nat) (p : RPool) (new : Option Nat) (hne : p.sharder ≠ new) (c : Nat)
    (evs : List Ev) (hfresh : ∀ e, .add c e ∉ evs) :
    let q := run sh (reshard p new) evs
    ¬ present q c ∧ removeConn sh q c = q := by
  have h0 : ¬ present (reshard p new) c := ((reshard_keeps_or_drops_consistently p new).2 hne).1 c
  have key : ∀ (evs : List Ev) (q : RPool), ¬ present q c → (∀ e, .add c e ∉ evs) → ¬ present (run sh q evs) c := by
    intro evs
    induction evs with
    | nil => intro q hq _; exact hq
    | cons e rest ih =>
      intro q hq hf
      refine ih (step sh q e) ?_ (fun e' h' => hf e' (List.mem_cons_of_mem _ h'))
      cases e with
      | add d ex =>
        have hdc : d ≠ c := fun hh => hf ex (by rw [hh]; exact List.mem_cons_self)
        show ¬ present (addConn sh q d ex) c
        unfold addConn
        split
        · exact hq
        · split
          · rintro (⟨j, hj⟩ | he)
            · simp only [getB_modifyAt] at hj; split at hj
              · rcases List.mem_cons.1 hj with hh | hj
                · exact hdc hh.symm
                · exact hq (Or.inl ⟨j, hj⟩)
              · exact hq (Or.inl ⟨j, hj⟩)
            · exact hq (Or.inr he)
          · rintro (⟨j, hj⟩ | he)
            · exact hq (Or.inl ⟨j, hj⟩)
            · rcases List.mem_cons.1 he with hh | he
              · exact hdc hh.symm
              · exact hq (Or.inr he)
      | die d =>
        show ¬ present (removeConn sh q d) c
        by_cases hdc : d = c
        · subst hdc; rw [remove_absent_is_noop sh q d hq]; exact hq
        · have t := remove_touches_only_the_dead sh q d c (fun hh => hdc hh.symm)
          rintro (⟨j, hj⟩ | he)
          · exact hq (Or.inl ⟨j, (t.1 j).1 hj⟩)
          · exact hq (Or.inr (t.2.1.1 he))
      | reshard n =>
        show ¬ present (reshard q n) c
        by_cases hs : q.sharder = n
        · rw [(reshard_keeps_or_drops_consistently q n).1 hs]; exact hq
        · exact ((reshard_keeps_or_drops_consistently q n).2 hs).1 c
  have hq := key evs _ h0 hfresh
  exact ⟨hq, remove_absent_is_noop sh _ c hq⟩

/-- Non-vacuity (`sh c = c % 2`): two connections in the buckets of a 2-shard node and one in excess; 4 dies → gone,
the others stay; the node comes back with 3 shards → everything dropped, 3 empty buckets; new connection 7 (shard 1)
is taken in; the OLD connection 5 (shard 1 as well) dies → nothing found, 7 stays; then 7 dies → removed. -/
example :
    let sh := fun c => c % 2
    let p := run sh ⟨[[], []], [], some 2⟩ [.add 4 false, .add 5 false, .add 6 true]
    p = ⟨[[4], [5]], [6], some 2⟩ ∧
    removeConn sh p 4 = ⟨[[], [5]], [6], some 2⟩ ∧ removeConn sh p 6 = ⟨[[4], [5]], [], some 2⟩ ∧
    run sh p [.reshard (some 3)] = ⟨[[], [], []], [], some 3⟩ ∧
    run sh p [.reshard (some 3), .add 7 false, .die 5] = ⟨[[], [7], []], [], some 3⟩ ∧
    run sh p [.reshard (some 3), .add 7 false, .die 5, .die 7] = ⟨[[], [], []], [], some 3⟩ ∧
    run sh p [.reshard (some 2), .die 5] = ⟨[[4], []], [6], some 2⟩ := by decide

end ScyllaVerif.Props.C10Reshard

import ScyllaVerif.Generated.Tables
import ScyllaVerif.Model.TypeParser
import ScyllaVerif.Model.Response
/-!
# Translator tie for the response side (C08, and the type ids C01/C14/C17 rely on)

`Generated/Tables.lean` is re-extracted from the Rust sources on every run (`tools/extract_tables.py`).
This file states, as theorems checked by the kernel,

* that every extracted table is the literal table of the CQL binary protocol v4 (§9 error codes, §4.2.5 result
  kinds, §4.2.5.2 flags and type ids) — so a changed constant in the source breaks a proof obligation here;
* that the hand-written response model (`Model/Response.lean`, `Model/TypeParser.lean`) uses exactly those values
  where that is expressible as a statement about a model function (`errorSpec`, `nativeOfId`, the nesting limit);
* that the driver's own parser and serializer tables of column type ids agree with each other.

No `decide` over strings is used: the tables are compared by `rfl` (syntactic equality after unfolding), the
per-row statements by case analysis + `rfl`.
-/
namespace ScyllaVerif.Props.TablesResp
open ScyllaVerif.Generated ScyllaVerif.C08

/-! ### the extracted tables are the protocol's -/

/-- CQL v4 §9: the error codes the driver distinguishes, in source order. -/
theorem dbErrorCodes_are_spec : dbErrorCodes =
    [(0x0000, "ServerError"), (0x000A, "ProtocolError"), (0x0100, "AuthenticationError"),
     (0x1000, "Unavailable"), (0x1001, "Overloaded"), (0x1002, "IsBootstrapping"), (0x1003, "TruncateError"),
     (0x1100, "WriteTimeout"), (0x1200, "ReadTimeout"), (0x1300, "ReadFailure"), (0x1400, "FunctionFailure"),
     (0x1500, "WriteFailure"), (0x2000, "SyntaxError"), (0x2100, "Unauthorized"), (0x2200, "Invalid"),
     (0x2300, "ConfigError"), (0x2400, "AlreadyExists"), (0x2500, "Unprepared")] := rfl

/-- CQL v4 §4.2.5.2 `[option]` ids of the native types (0x000A, the removed `text` alias, is unassigned). -/
theorem nativeTypeIds_are_spec : nativeTypeIds =
    [(0x01, "Ascii"), (0x02, "BigInt"), (0x03, "Blob"), (0x04, "Boolean"), (0x05, "Counter"), (0x06, "Decimal"),
     (0x07, "Double"), (0x08, "Float"), (0x09, "Int"), (0x0B, "Timestamp"), (0x0C, "Uuid"), (0x0D, "Text"),
     (0x0E, "Varint"), (0x0F, "Timeuuid"), (0x10, "Inet"), (0x11, "Date"), (0x12, "Time"), (0x13, "SmallInt"),
     (0x14, "TinyInt"), (0x15, "Duration")] := rfl

theorem structTypeIds_are_spec : structTypeIds =
    [(0x00, "Custom"), (0x20, "List"), (0x21, "Map"), (0x22, "Set"), (0x30, "UserDefinedType"), (0x31, "Tuple")] := rfl

/-- The serializer of column types (`column_type_id`, used for PREPARED/Rows metadata the driver writes itself, e.g.
in the proxy and in tests) uses the same ids as the parser. -/
theorem ser_ids_eq_parser_ids :
    nativeTypeIdsSer = nativeTypeIds ∧ structTypeIdsSer = structTypeIds.tail := ⟨rfl, rfl⟩

/-- CQL v4 §4.2.5: result kinds. -/
theorem resultKinds_are_spec : resultKinds =
    [(1, "Void"), (2, "Rows"), (3, "SetKeyspace"), (4, "Prepared"), (5, "SchemaChange")] := rfl

/-- CQL v4 §4.2.5.2 flags of the result metadata (`0x0008` = Scylla's METADATA_CHANGED extension). -/
theorem resultFlags_are_spec :
    resultFlag_global_tables_spec = 1 ∧ resultFlag_has_more_pages = 2 ∧ resultFlag_no_metadata = 4 ∧
    resultFlag_metadata_changed = 8 := ⟨rfl, rfl, rfl, rfl⟩

theorem maxTypeNestingDepth_is_128 : maxTypeNestingDepth = 128 := rfl

/-! ### the model uses the extracted values -/

/-- Every ERROR code of the source maps, in the model's `errorSpec`, to the variant the source maps it to. -/
theorem errorSpec_uses_source_codes (rl : Option Int) :
    ∀ p ∈ dbErrorCodes, (errorSpec rl (Int.ofNat p.1)).1 = p.2 := by
  intro p hp
  simp only [dbErrorCodes, List.mem_cons, List.not_mem_nil, or_false] at hp
  rcases hp with rfl | rfl | rfl | rfl | rfl | rfl | rfl | rfl | rfl | rfl | rfl | rfl | rfl | rfl | rfl | rfl | rfl | rfl <;> rfl

/-- … and no other code is given a fixed variant: outside the source's table the model answers with the
negotiated rate-limit code or `Other`. -/
theorem errorSpec_only_source_codes (rl : Option Int) (code : Int)
    (h : ∀ p ∈ dbErrorCodes, code ≠ Int.ofNat p.1) :
    errorSpec rl code = (if some code = rl then ("RateLimitReached", [.byte, .bool]) else ("Other", [])) := by
  simp only [dbErrorCodes, List.mem_cons, List.not_mem_nil, or_false, forall_eq_or_imp, forall_eq] at h
  obtain ⟨h0, h1, h2, h3, h4, h5, h6, h7, h8, h9, h10, h11, h12, h13, h14, h15, h16, h17⟩ := h
  simp only [Int.ofNat_eq_natCast] at *
  unfold errorSpec
  rw [if_neg (show ¬ code = 0 by omega),
    if_neg (show ¬ code = 10 by omega),
    if_neg (show ¬ code = 256 by omega),
    if_neg (show ¬ code = 4096 by omega),
    if_neg (show ¬ code = 4097 by omega),
    if_neg (show ¬ code = 4098 by omega),
    if_neg (show ¬ code = 4099 by omega),
    if_neg (show ¬ code = 4352 by omega),
    if_neg (show ¬ code = 4608 by omega),
    if_neg (show ¬ code = 4864 by omega),
    if_neg (show ¬ code = 5120 by omega),
    if_neg (show ¬ code = 5376 by omega),
    if_neg (show ¬ code = 8192 by omega),
    if_neg (show ¬ code = 8448 by omega),
    if_neg (show ¬ code = 8704 by omega),
    if_neg (show ¬ code = 8960 by omega),
    if_neg (show ¬ code = 9216 by omega),
    if_neg (show ¬ code = 9472 by omega)]

/-- name of a model native type as the Rust enum spells it -/
def nativeName : Native → String
  | .ascii => "Ascii" | .bigint => "BigInt" | .blob => "Blob" | .boolean => "Boolean" | .counter => "Counter"
  | .decimal => "Decimal" | .double => "Double" | .float => "Float" | .int => "Int" | .timestamp => "Timestamp"
  | .uuid => "Uuid" | .text => "Text" | .varint => "Varint" | .timeuuid => "Timeuuid" | .inet => "Inet"
  | .date => "Date" | .time => "Time" | .smallint => "SmallInt" | .tinyint => "TinyInt" | .duration => "Duration"

/-- Every native type id of the source parser is the model's `nativeOfId`, with the same type. -/
theorem nativeOfId_uses_source_ids :
    ∀ p ∈ nativeTypeIds, (nativeOfId p.1).map nativeName = some p.2 := by
  intro p hp
  simp only [nativeTypeIds, List.mem_cons, List.not_mem_nil, or_false] at hp
  rcases hp with rfl | rfl | rfl | rfl | rfl | rfl | rfl | rfl | rfl | rfl | rfl | rfl | rfl | rfl | rfl | rfl | rfl | rfl | rfl | rfl <;> rfl

/-- … and the model knows no native id the source does not. -/
theorem nativeOfId_only_source_ids (id : Nat) (h : ∀ p ∈ nativeTypeIds, id ≠ p.1) : nativeOfId id = none := by
  simp only [nativeTypeIds, List.mem_cons, List.not_mem_nil, or_false, forall_eq_or_imp, forall_eq] at h
  unfold nativeOfId
  split <;> first | rfl | omega

/-- The model's nesting limit is the source's `MAX_TYPE_NESTING_DEPTH`. -/
theorem model_depth_limit_is_source : MAX_TYPE_NESTING_DEPTH = maxTypeNestingDepth := rfl

end ScyllaVerif.Props.TablesResp

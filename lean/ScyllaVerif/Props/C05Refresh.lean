/-
C05 on refreshed cluster states: the plan of the default policy on the `ClusterState` that ANY history of metadata
refreshes produced is the plan on the state built from scratch from the LAST metadata (peers with their datacenter /
rack / tokens, resolved keyspaces, host-filter verdicts) - node objects reused or inherited across refreshes leak
nothing stale into load balancing.  Composition of C04's refresh model with the C05 plan model (`Model/PlanRefresh.lean`).
-/
import ScyllaVerif.Model.PlanRefresh
import ScyllaVerif.Props.C04
import ScyllaVerif.Props.C05

namespace ScyllaVerif.Props.C05Refresh
open ScyllaVerif.Ring ScyllaVerif.Replicas ScyllaVerif.Plan ScyllaVerif.Refresh ScyllaVerif.PlanRefresh
open ScyllaVerif.Proofs.Ring ScyllaVerif.Props.C04 ScyllaVerif.Props.C05

/-- **`is_enabled` after a refresh is the host filter's verdict** - for every arm of `calculate_new_topology`'s reuse
match (reused, inherited, new, new disabled), whatever the previous state held. -/
theorem pickNode_enabled (known : List KNode) (p : MPeer) :
    (Refresh.pickNode known p).enabled = p.accepted ∧ (Refresh.pickNode known p).node.id = p.node.id := by
  refine ⟨?_, by rw [pickNode_node]⟩
  unfold Refresh.pickNode
  cases ha : p.accepted <;> cases hk : lookupKnown known p.node.id <;> simp only []
  · split
    · rename_i h; simp only [Bool.and_eq_true, Bool.not_eq_true'] at h; exact h.1.1.1
    · rfl
  · split
    · split
      · rename_i h _; simp only [Bool.and_eq_true] at h; exact h.1.1
      · rfl
    · rfl

theorem disabledOf_newTopology (known : List KNode) (peers : List MPeer) :
    disabledOf (newTopology known peers).1 = ((peers.map (fun p => (p.node.id, p.accepted))).filter (fun x => !x.2)).map (·.1) := by
  unfold disabledOf newTopology
  simp only []
  induction peers with
  | nil => rfl
  | cons p ps ih =>
    simp only [List.map_cons, List.filter_cons, (pickNode_enabled known p).1]
    cases p.accepted
    · simp only [Bool.not_false, if_true, List.map_cons, (pickNode_enabled known p).2, ih]
    · simp only [Bool.not_true, Bool.false_eq_true, if_false, ih]

private theorem flags_newTopology (known : List KNode) (peers : List MPeer) :
    (newTopology known peers).1.map (fun k => (k.node.id, k.enabled)) = peers.map (fun p => (p.node.id, p.accepted)) := by
  unfold newTopology
  simp only [List.map_map]
  apply List.map_congr_left
  intro p _
  simp only [Function.comp, (pickNode_enabled known p).1, (pickNode_enabled known p).2]

private theorem disabledOf_flags (known : List KNode) :
    disabledOf known = ((known.map (fun k => (k.node.id, k.enabled))).filter (fun x => !x.2)).map (·.1) := by
  unfold disabledOf
  induction known with
  | nil => rfl
  | cons k ks ih =>
    simp only [List.map_cons, List.filter_cons]
    cases k.enabled
    · simp only [Bool.not_false, if_true, List.map_cons, ih]
    · simp only [Bool.not_true, Bool.false_eq_true, if_false, ih]

/-- The invariant of a history: locator and keyspaces are those of the last metadata (C04), the enabled flags are
`flagsAfter`. -/
private theorem run_invariant (st : CState) (m : List MPeer × Keyspaces) (e : List (Nat × Bool))
    (h : st.loc = Topology.locator (toTopology m.1) (strategiesOf m.2) ∧ st.keyspaces = m.2 ∧
      st.known.map (fun k => (k.node.id, k.enabled)) = e) (steps : List Step) :
    (st.run steps).loc = Topology.locator (toTopology (metaAfter m steps).1) (strategiesOf (metaAfter m steps).2) ∧
      (st.run steps).keyspaces = (metaAfter m steps).2 ∧
      (st.run steps).known.map (fun k => (k.node.id, k.enabled)) = flagsAfter e steps := by
  induction steps generalizing st m e with
  | nil => exact h
  | cons s rest ih =>
    unfold CState.run at ih ⊢
    rw [List.foldl_cons]
    cases s with
    | full peers fetched =>
      apply ih
      simp only [CState.step, CState.refresh, newTopology_entries, h.2.1, flags_newTopology]
      exact ⟨rfl, trivial, trivial⟩
    | topo peers =>
      apply ih
      simp only [CState.step, CState.refreshTopology, newTopology_entries, h.2.1, flags_newTopology]
      exact ⟨rfl, trivial, trivial⟩
    | enable ids =>
      apply ih
      refine ⟨h.1, h.2.1, ?_⟩
      simp only [CState.step, CState.setEnabled, List.map_map, ← h.2.2]
      rfl

/-- **The cluster after any refresh history is the cluster built from scratch from the last metadata.**  For every
initial metadata and every history of full refreshes, topology-only refreshes (nodes changing rack, datacenter, address,
tokens, leaving, joining; the host filter accepting or rejecting each peer; keyspaces changing or failing to be
fetched) and enabled-ness changes in between: what the default policy reads - replica locator, keyspace strategies,
`is_enabled` - is what a `ClusterState::new` on the last peer list, the resolved keyspaces and the last verdicts /
enabled-ness gives.  `is_connected` (`down`) is the live pool state and an input on both sides. -/
theorem cluster_after_history (peers₀ : List MPeer) (ks₀ : Keyspaces) (steps : List Step) (down : List Nat) (sh : Nat → Nat) :
    clusterOf ((CState.fresh peers₀ (fetchedOk ks₀)).run steps) down sh =
      freshCluster (metaAfter (peers₀, ks₀) steps).1 (metaAfter (peers₀, ks₀) steps).2
        (flagsAfter (peers₀.map (fun p => (p.node.id, p.accepted))) steps) down sh := by
  have h0 : (CState.fresh peers₀ (fetchedOk ks₀)).loc = Topology.locator (toTopology peers₀) (strategiesOf ks₀) ∧
      (CState.fresh peers₀ (fetchedOk ks₀)).keyspaces = ks₀ ∧
      (CState.fresh peers₀ (fetchedOk ks₀)).known.map (fun k => (k.node.id, k.enabled)) =
        peers₀.map (fun p => (p.node.id, p.accepted)) := by
    simp only [CState.fresh, newTopology_entries, resolve_fetchedOk, flags_newTopology]; exact ⟨rfl, trivial, trivial⟩
  obtain ⟨h1, h2, h3⟩ := run_invariant _ (peers₀, ks₀) _ h0 steps
  unfold clusterOf freshCluster
  rw [h1, h2, disabledOf_flags, h3]

/-- **The plan after any refresh history is the plan on the fresh state of the last metadata** - `pick`, `fallback`
and `Plan`, for every configuration, request and all random choices. -/
theorem plan_after_history (peers₀ : List MPeer) (ks₀ : Keyspaces) (steps : List Step) (down : List Nat) (sh : Nat → Nat)
    (cfg : Config) (rq : Request) (ρp : RhoPick) (ρf : RhoFb) :
    let after := clusterOf ((CState.fresh peers₀ (fetchedOk ks₀)).run steps) down sh
    let fresh := freshCluster (metaAfter (peers₀, ks₀) steps).1 (metaAfter (peers₀, ks₀) steps).2
      (flagsAfter (peers₀.map (fun p => (p.node.id, p.accepted))) steps) down sh
    pick after cfg rq ρp = pick fresh cfg rq ρp ∧ fallback after cfg rq ρf = fallback fresh cfg rq ρf ∧
      plan after cfg rq ρp ρf = plan fresh cfg rq ρp ρf := by
  simp only [cluster_after_history, and_self]

/-- After a refresh (as the last step) the host-filter clause is about the REAL verdicts: the disabled nodes of the
cluster are exactly the peers the host filter rejected in that refresh. -/
theorem disabled_after_refresh (st : CState) (peers : List MPeer) (fetched : Fetched) (down : List Nat) (sh : Nat → Nat) :
    (clusterOf (st.refresh peers fetched) down sh).disabled = (peers.filter (fun p => !p.accepted)).map (·.node.id) ∧
      (clusterOf (st.refreshTopology peers) down sh).disabled = (peers.filter (fun p => !p.accepted)).map (·.node.id) := by
  have : ∀ l : List MPeer, ((l.map (fun p => (p.node.id, p.accepted))).filter (fun x => !x.2)).map (·.1) =
      (l.filter (fun p => !p.accepted)).map (·.node.id) := by
    intro l
    induction l with
    | nil => rfl
    | cons p ps ih =>
      simp only [List.map_cons, List.filter_cons]
      cases p.accepted
      · simp only [Bool.not_false, if_true, List.map_cons, ih]
      · simp only [Bool.not_true, Bool.false_eq_true, if_false, ih]
  unfold clusterOf CState.refresh CState.refreshTopology
  simp only [disabledOf_newTopology, this]
  exact ⟨trivial, trivial⟩

/-- The fresh cluster of a metadata with pairwise distinct host ids and NTS maps with distinct keys is well-formed, so
every C05 theorem (`plan_nodup`, `plan_rack_replicas_first`, …) applies to the state after a history - with the racks and
datacenters of the LAST metadata, since the ring nodes of the fresh cluster are the peers' nodes. -/
theorem freshCluster_WF (peers : List MPeer) (ks : Keyspaces) (flags : List (Nat × Bool)) (down : List Nat) (sh : Nat → Nat)
    (hids : (peers.map (·.node.id)).Nodup)
    (hk : ∀ repf, Strategy.nts repf ∈ strategiesOf ks → (repf.map (·.1)).Nodup) :
    WF (freshCluster peers ks flags down sh) ∧
      ∀ n ∈ allNodes (freshCluster peers ks flags down sh), ∃ p ∈ peers, p.node = n := by
  have hnode : ∀ n ∈ allNodes (freshCluster peers ks flags down sh), ∃ p ∈ peers, p.node = n := by
    intro n hn
    unfold allNodes uniqueNodes at hn
    rw [mem_uniq] at hn
    obtain ⟨e, he, rfl⟩ := List.mem_map.mp hn
    have he' : e ∈ Topology.entries (toTopology peers) := (mkRing_perm _).mem_iff.mp he
    unfold Topology.entries toTopology at he'
    obtain ⟨q, hq, hqe⟩ := List.mem_flatMap.mp he'
    obtain ⟨tk, _, rfl⟩ := List.mem_map.mp hqe
    obtain ⟨p, hp, rfl⟩ := List.mem_map.mp hq
    exact ⟨p, hp, rfl⟩
  refine ⟨⟨⟨mkRing (Topology.entries (toTopology peers)), strategiesOf ks, ring_sorted _, rfl⟩, hk, ?_⟩, hnode⟩
  intro a ha b hb hab
  obtain ⟨p, hp, rfl⟩ := hnode a ha
  obtain ⟨q, hq, rfl⟩ := hnode b hb
  have : p = q := by
    clear hnode ha hb
    induction peers with
    | nil => simp at hp
    | cons c l ih =>
      simp only [List.map_cons, List.nodup_cons] at hids
      rcases List.mem_cons.mp hp with hp' | hp' <;> rcases List.mem_cons.mp hq with hq' | hq'
      · rw [hp', hq']
      · exact absurd (List.mem_map.mpr ⟨q, hq', by rw [← hab, hp']⟩) hids.1
      · exact absurd (List.mem_map.mpr ⟨p, hp', by rw [hab, hq']⟩) hids.1
      · exact ih hids.2 hp' hq'
  rw [this]

/-- **The ordering clause after a history, against the latest metadata**: on the state any refresh history produced,
live replicas in the preferred rack precede all other nodes - rack and datacenter being those of the LAST peer list (a
node whose rack changed in a refresh is judged by its new rack). -/
theorem plan_after_history_rack_replicas_first (peers₀ : List MPeer) (ks₀ : Keyspaces) (steps : List Step)
    (down : List Nat) (sh : Nat → Nat) (cfg : Config) (rq : Request) (ρp : RhoPick) (ρf : RhoFb)
    (hids : ((metaAfter (peers₀, ks₀) steps).1.map (·.node.id)).Nodup)
    (hk : ∀ repf, Strategy.nts repf ∈ strategiesOf (metaAfter (peers₀, ks₀) steps).2 → (repf.map (·.1)).Nodup) :
    let fresh := freshCluster (metaAfter (peers₀, ks₀) steps).1 (metaAfter (peers₀, ks₀) steps).2
      (flagsAfter (peers₀.map (fun p => (p.node.id, p.accepted))) steps) down sh
    (plan (clusterOf ((CState.fresh peers₀ (fetchedOk ks₀)).run steps) down sh) cfg rq ρp ρf).Pairwise
      (fun a b => (LiveReplica fresh cfg rq b.1 ∧ LocalRack cfg rq b.1) → (LiveReplica fresh cfg rq a.1 ∧ LocalRack cfg rq a.1)) := by
  simp only [cluster_after_history]
  exact plan_rack_replicas_first (freshCluster_WF _ _ _ down sh hids hk).1 cfg rq ρp ρf

-- non-vacuity: node 2 moves from rack 1 to rack 2 in an accepting refresh (it was known and enabled: the reuse arms);
-- the state after the history carries rack 2 for it
example :
    let p₀ : List MPeer := [⟨⟨1, some 0, some 1⟩, 0, [10], true⟩, ⟨⟨2, some 0, some 1⟩, 1, [20], true⟩]
    let p₁ : List MPeer := [⟨⟨1, some 0, some 1⟩, 0, [10], true⟩, ⟨⟨2, some 0, some 2⟩, 1, [20], false⟩]
    ((CState.fresh p₀ []).run [.topo p₁]).known.map (fun k => (k.node.rack, k.enabled)) =
      [(some 1, true), (some 2, false)] := by decide

/-! ### two liveness snapshots: what holds when connections come and go between `pick()` and `fallback()`

All C05 theorems about `plan` are over ONE frozen liveness assignment (the property's quantifier is over static
{enabled, connected} assignments).  `Plan::next` however calls `fallback()` lazily, after the first target was handed
out, and `is_connected` reads the live pool: `plan2` is the plan when the liveness is `cl.down` at `pick()` and `down₂` at
`fallback()`. -/

open ScyllaVerif.Proofs.Plan in
private theorem WF_withDown {cl : Cluster} (hwf : WF cl) (d : List Nat) : WF (withDown cl d) :=
  ⟨hwf.locator, hwf.ntsKeys, hwf.distinctIds⟩

/-- When `pick()` answers nothing, `fallback()` runs inside the same first `next()`: the plan is the one-snapshot plan. -/
theorem plan2_of_pick_none (cl : Cluster) (down₂ : List Nat) (cfg : Config) (rq : Request) (ρp : RhoPick) (ρf : RhoFb)
    (h : pick cl cfg rq ρp = none) : plan2 cl down₂ cfg rq ρp ρf = plan cl cfg rq ρp ρf := by
  unfold plan2 plan; rw [h]

/-- Every target of the two-snapshot plan is the picked one or a target of the second-snapshot fallback (of the
first-snapshot fallback when `pick()` answered nothing); no node is named more than once among the targets after the
first. -/
theorem plan2_structure (cl : Cluster) (down₂ : List Nat) (cfg : Config) (rq : Request) (ρp : RhoPick) (ρf : RhoFb) :
    (∀ u ∈ plan2 cl down₂ cfg rq ρp ρf, pick cl cfg rq ρp = some u ∨ u ∈ fallback (withDown cl down₂) cfg rq ρf ∨
        (pick cl cfg rq ρp = none ∧ u ∈ fallback cl cfg rq ρf)) ∧
      (((plan2 cl down₂ cfg rq ρp ρf).drop 1).map (·.1.id)).Nodup := by
  have hn := fallback_nodup (withDown cl down₂) cfg rq ρf
  have hn1 := fallback_nodup cl cfg rq ρf
  unfold plan2
  cases hpk : pick cl cfg rq ρp with
  | none =>
    simp only []
    rw [ScyllaVerif.Proofs.Plan.planOf_none hn1]
    exact ⟨fun u hu => Or.inr (Or.inr ⟨trivial, hu⟩), hn1.sublist ((List.drop_sublist 1 _).map _)⟩
  | some t =>
    simp only [planOf, List.mem_cons, List.drop_succ_cons, List.drop_zero]
    refine ⟨?_, hn.sublist (List.filter_sublist.map _)⟩
    rintro u (rfl | hu)
    · exact Or.inl rfl
    · exact Or.inr (Or.inl (List.mem_filter.mp hu).1)

/-- **Still true under changing liveness**: no disabled node, datacenter confinement, and every enabled token-owning
permitted node occurs. -/
theorem plan2_exclusion_completeness {cl : Cluster} (hwf : WF cl) (down₂ : List Nat) (cfg : Config) (rq : Request)
    (ρp : RhoPick) (ρf : RhoFb) :
    (∀ u ∈ plan2 cl down₂ cfg rq ρp ρf, u.1.id ∉ cl.disabled ∧
        (cfg.failover = false → ∀ d, (preference cfg rq).datacenter = some d → u.1.dc = some d)) ∧
      (∀ n ∈ allNodes cl, n.id ∉ cl.disabled → Permitted cfg rq n → ∃ u ∈ plan2 cl down₂ cfg rq ρp ρf, u.1 = n) := by
  have hwf2 := WF_withDown hwf down₂
  cases hpk : pick cl cfg rq ρp with
  | none =>
    rw [plan2_of_pick_none cl down₂ cfg rq ρp ρf hpk]
    exact ⟨fun u hu => ⟨plan_excludes_disabled hwf cfg rq ρp ρf u hu,
        fun hfo d hd => plan_stays_in_dc hwf cfg rq ρp ρf hfo hd u hu⟩,
      fun n hn he hperm => plan_complete hwf cfg rq ρp ρf hn he hperm⟩
  | some t =>
    have hplan : plan2 cl down₂ cfg rq ρp ρf = planOf (some t) (fallback (withDown cl down₂) cfg rq ρf) := by
      unfold plan2; rw [hpk]
    constructor
    · intro u hu
      rw [hplan] at hu
      simp only [planOf, List.mem_cons] at hu
      rcases hu with rfl | hf
      · have hm := (plan_mem_iff hwf cfg rq ρp ρf u).mpr ((pick_spec hwf cfg rq ρp ρf hpk).1)
        exact ⟨plan_excludes_disabled hwf cfg rq ρp ρf u hm,
          fun hfo d hd => plan_stays_in_dc hwf cfg rq ρp ρf hfo hd u hm⟩
      · have hm := (plan_mem_iff hwf2 cfg rq ρp ρf u).mpr (List.mem_filter.mp hf).1
        exact ⟨plan_excludes_disabled hwf2 cfg rq ρp ρf u hm,
          fun hfo d hd => plan_stays_in_dc hwf2 cfg rq ρp ρf hfo hd u hm⟩
    · intro n hn he hperm
      obtain ⟨u, hu, hun⟩ := plan_complete hwf2 cfg rq ρp ρf (n := n) hn he hperm
      have huf := (plan_mem_iff hwf2 cfg rq ρp ρf u).mp hu
      rw [hplan]
      simp only [planOf, List.mem_cons, List.mem_filter]
      cases hl : litEq u t with
      | false => exact ⟨u, Or.inr ⟨huf, by simp [hl]⟩, hun⟩
      | true =>
        -- the fallback entry is filtered out because it IS the picked target: the picked target names the node
        refine ⟨t, Or.inl rfl, ?_⟩
        have hid := ScyllaVerif.Proofs.Plan.litEq_id hl
        have ht := (plan_mem_iff hwf cfg rq ρp ρf t).mpr (pick_spec hwf cfg rq ρp ρf hpk).1
        have htn := ((class_lt8_iff hwf cfg rq t.1).mp (plan_members_classified hwf cfg rq ρp ρf t ht)).2.1
        rw [← hun]
        exact hwf.distinctIds _ htn _ (hun ▸ hn) hid.symm

private theorem liveReplica_withDown {cl : Cluster} {d : List Nat} {cfg : Config} {rq : Request} {n : Node}
    (h : cl.alive n = (withDown cl d).alive n) : LiveReplica (withDown cl d) cfg rq n ↔ LiveReplica cl cfg rq n := by
  constructor
  · rintro ⟨ts, h1, h2, h3⟩; exact ⟨ts, h1, by rw [h]; exact h2, h3⟩
  · rintro ⟨ts, h1, h2, h3⟩; exact ⟨ts, h1, by rw [← h]; exact h2, h3⟩

/-- **No node twice unless the picked node's liveness flipped**: if the node `pick()` answered is alive at `fallback()`
time exactly when it was at `pick()` time (whatever happened to every other node), the two-snapshot plan names no host id
twice.  (By `plan2_structure` a repeated host id can only be the picked node's.) -/
theorem plan2_nodup_of_stable_pick {cl : Cluster} (hwf : WF cl) (down₂ : List Nat) (cfg : Config) (rq : Request)
    (ρp : RhoPick) (ρf : RhoFb)
    (hstable : ∀ t, pick cl cfg rq ρp = some t → cl.alive t.1 = (withDown cl down₂).alive t.1) :
    ((plan2 cl down₂ cfg rq ρp ρf).map (·.1.id)).Nodup := by
  have hwf2 := WF_withDown hwf down₂
  have hn := fallback_nodup (withDown cl down₂) cfg rq ρf
  cases hpk : pick cl cfg rq ρp with
  | none => rw [plan2_of_pick_none cl down₂ cfg rq ρp ρf hpk]; exact plan_nodup hwf cfg rq ρp ρf
  | some t =>
    unfold plan2
    simp only [hpk, planOf, List.map_cons, List.nodup_cons]
    refine ⟨?_, hn.sublist (List.filter_sublist.map _)⟩
    intro hc
    obtain ⟨v, hv, hid⟩ := List.mem_map.mp hc
    obtain ⟨hv1, hv2⟩ := List.mem_filter.mp hv
    -- v is the fallback's entry for the picked node: same node, same shard marking, same shard - it IS the picked target
    have ht1 := (pick_spec hwf cfg rq ρp ρf hpk).1
    have htn := ((class_lt8_iff hwf cfg rq t.1).mp (plan_members_classified hwf cfg rq ρp ρf t
      ((plan_mem_iff hwf cfg rq ρp ρf t).mpr ht1))).2.1
    have hvn := ((class_lt8_iff hwf2 cfg rq v.1).mp (plan_members_classified hwf2 cfg rq ρp ρf v
      ((plan_mem_iff hwf2 cfg rq ρp ρf v).mpr hv1))).2.1
    have hnode : v.1 = t.1 := hwf.distinctIds _ hvn _ htn hid
    have hsome : v.2.isSome = t.2.isSome := by
      have h1 := fallback_shard_iff hwf2 cfg rq ρf hv1
      have h2 := fallback_shard_iff hwf cfg rq ρf ht1
      rw [hnode, liveReplica_withDown (hstable t hpk)] at h1
      have : (v.2.isSome = true) ↔ (t.2.isSome = true) := h1.trans h2.symm
      cases hv' : v.2.isSome <;> cases ht' : t.2.isSome <;> simp_all
    have hshard : v.2 = t.2 := by
      rcases fallback_target_shape hv1 with h1 | h1 <;> rcases fallback_target_shape ht1 with h2 | h2
      · rw [h1, h2]
      · rw [h1, h2] at hsome; cases hsome
      · rw [h1, h2] at hsome; cases hsome
      · rw [h1, h2, hid]; rfl
    have : litEq v t = true := by
      unfold litEq; rw [hid, hshard]; simp
    rw [this] at hv2; cases hv2

-- the duplicate: node 3 (a live replica, picked with its shard) loses its connection before `fallback()` runs; the
-- fallback lists it among the nodes believed down, shard-less, which the literal filter of `Plan::next` does not remove
example : (plan2 exCluster [2, 3] exCfg exRq ρp0 ρf0).map (fun t => (t.1.id, t.2.isSome)) =
    [(3, true), (5, true), (4, true), (1, false), (6, false), (2, false), (3, false)] := by decide

/-! ### latency awareness (outside the property's quantifier; recorded because the same mechanism bites)

With latency awareness ON, `pick` skips penalised nodes in its "alive" steps but its last two steps only ask
`is_enabled`; `fallback` decides replica-ness by `is_alive` alone.  When every alive candidate is penalised (e.g. the
fastest node went down), `pick` answers an alive, penalised replica SHARD-LESS from the "down but enabled" step while
`fallback` lists it with its shard: `Plan`'s literal filter keeps both and the node is planned twice.  Reproduced on the
real code through the public API on a paused tokio clock (3 nodes, SimpleStrategy RF 2, node 1 fast then down, nodes 2
and 3 penalised: plan `[(2,0),(1,0),(3,0),(2,0)]`).  Also `wrap` moves un-penalised DOWN nodes before penalised live ones. -/

theorem wrapLA_perm (pen : List Nat) (fb : List Target) : (wrapLA pen fb).Perm fb := by
  unfold wrapLA
  have := List.filter_append_perm (fun t : Target => !pen.contains t.1.id) fb
  simpa using this

/-- What survives latency awareness: the wrapped fallback names the same targets, no host id twice; every target of the
plan is the picked one or a fallback target; only the picked node can be named twice. -/
theorem planLA_structure (cl : Cluster) (pen : List Nat) (cfg : Config) (rq : Request) (ρp : RhoPick) (ρf : RhoFb) :
    (∀ u, u ∈ wrapLA pen (fallback cl cfg rq ρf) ↔ u ∈ fallback cl cfg rq ρf) ∧
      ((wrapLA pen (fallback cl cfg rq ρf)).map (·.1.id)).Nodup ∧
      (∀ u ∈ planLA cl pen cfg rq ρp ρf,
        pick (withDown cl (cl.down ++ pen)) cfg rq ρp = some u ∨ u ∈ fallback cl cfg rq ρf) ∧
      (((planLA cl pen cfg rq ρp ρf).drop 1).map (·.1.id)).Nodup := by
  have hperm := wrapLA_perm pen (fallback cl cfg rq ρf)
  have hn : ((wrapLA pen (fallback cl cfg rq ρf)).map (·.1.id)).Nodup :=
    (hperm.map _).nodup_iff.mpr (fallback_nodup cl cfg rq ρf)
  refine ⟨fun u => hperm.mem_iff, hn, ?_, ?_⟩
  · intro u hu
    unfold planLA at hu
    cases hpk : pick (withDown cl (cl.down ++ pen)) cfg rq ρp with
    | none =>
      rw [hpk, ScyllaVerif.Proofs.Plan.planOf_none hn] at hu
      exact Or.inr (hperm.mem_iff.mp hu)
    | some t =>
      rw [hpk] at hu
      simp only [planOf, List.mem_cons] at hu
      rcases hu with rfl | hu
      · exact Or.inl rfl
      · exact Or.inr (hperm.mem_iff.mp (List.mem_filter.mp hu).1)
  · unfold planLA
    cases hpk : pick (withDown cl (cl.down ++ pen)) cfg rq ρp with
    | none =>
      rw [ScyllaVerif.Proofs.Plan.planOf_none hn]
      exact hn.sublist ((List.drop_sublist 1 _).map _)
    | some t =>
      simp only [planOf, List.drop_succ_cons, List.drop_zero]
      exact hn.sublist (List.filter_sublist.map _)

-- the duplicate, on the model: ring 1,2,3 (SimpleStrategy RF 2, token 15: replicas 2 and 3), node 1 down, nodes 2 and 3
-- penalised - the pick is the shard-less (2, None) or (3, None) from the "down but enabled" step, the fallback lists
-- (2, Some), (3, Some): node 2 is planned twice (the observed real plan `[(2,0),(1,0),(3,0),(2,0)]`)
example :
    let ring : Ring Node := [(10, ⟨1, some 0, some 1⟩), (20, ⟨2, some 0, some 1⟩), (30, ⟨3, some 0, some 1⟩)]
    let cl : Cluster := ⟨C04.locOf ring [], [.simple 2], [], [1], fun _ => 0⟩
    (planLA cl [2, 3] ⟨none, true, false⟩ ⟨.quorum, some 15, some 0, false, .any⟩
        ⟨0, 0, 0, 0, 0, 0, 0, 0, 0, 1, 0⟩ ⟨[], [], [], 0, 0, 0⟩).map (fun t => (t.1.id, t.2.isSome)) =
      [(2, false), (1, false), (2, true), (3, true)] := by decide

end ScyllaVerif.Props.C05Refresh

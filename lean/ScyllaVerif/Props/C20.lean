import ScyllaVerif.Model.Keyspace
import ScyllaVerif.Proofs.Keyspace
import ScyllaVerif.Proofs.KeyspaceCluster
/-!
# C20 — after USE keyspace succeeds, all requests run on connections in that keyspace

Theorems about `Model/Keyspace.lean`.

§A names: which strings `VerifiedKeyspaceName::new` accepts, what is rejected with which error, what the
   `USE` statement is made of, what the response-name check accepts.
§B `use_keyspace_result`.
§C the pool refiller: invariants over `step` lifted to every event sequence (`run`).
§D the cluster worker.
-/
set_option linter.unusedSectionVars false
namespace ScyllaVerif.Props.C20
open ScyllaVerif.Keyspace

/-! ## A. Names -/

/-- The specification side: `[A-Za-z0-9_]`, written with character literals. -/
def IdentChar (c : Char) : Prop :=
  ('a' ≤ c ∧ c ≤ 'z') ∨ ('A' ≤ c ∧ c ≤ 'Z') ∨ ('0' ≤ c ∧ c ≤ '9') ∨ c = '_'

private theorem char_le_iff (a b : Char) : a ≤ b ↔ a.toNat ≤ b.toNat := by
  rw [Char.le_def, UInt32.le_iff_toNat_le]; rfl

theorem okChar_iff (c : Char) : okChar c = true ↔ IdentChar c := by
  unfold okChar IdentChar
  have h95 : c = '_' ↔ c.toNat = 95 := by
    constructor
    · intro h; subst h; rfl
    · intro h; apply Char.ext; apply UInt32.toNat_inj.mp; exact h
  simp only [char_le_iff, h95, Bool.or_eq_true, Bool.and_eq_true, decide_eq_true_eq, beq_iff_eq]
  have e1 : 'a'.toNat = 97 := rfl
  have e2 : 'z'.toNat = 122 := rfl
  have e3 : 'A'.toNat = 65 := rfl
  have e4 : 'Z'.toNat = 90 := rfl
  have e5 : '0'.toNat = 48 := rfl
  have e6 : '9'.toNat = 57 := rfl
  rw [e1, e2, e3, e4, e5, e6]
  omega

/-- Only ASCII is accepted: a character with a code point above 127 (e.g. `é`, `ß`, `Ａ`) is never an
identifier character — the code matches character ranges, it does not call `char::is_alphanumeric`. -/
theorem identChar_ascii (c : Char) (h : IdentChar c) : c.toNat < 128 := by
  have := (okChar_iff c).mpr h
  unfold okChar at this
  simp only [Bool.or_eq_true, Bool.and_eq_true, decide_eq_true_eq, beq_iff_eq] at this
  omega

/-- **name_valid_iff**: `VerifiedKeyspaceName::new s cs` succeeds exactly on the strings of 1 to 48
characters (counted with `chars().count()`), all in `[A-Za-z0-9_]`; the flag plays no role. -/
theorem name_valid_iff (s : String) (cs : Bool) :
    (∃ v, VerifiedName.new s cs = .ok v) ↔
      1 ≤ s.length ∧ s.length ≤ 48 ∧ ∀ ch ∈ s.toList, IdentChar ch := by
  rw [← String.length_toList]
  unfold VerifiedName.new verifyChars
  generalize s.toList = l
  cases l with
  | nil => simp
  | cons a l =>
    simp only [List.isEmpty_cons, Bool.false_eq_true, ↓reduceIte, List.length_cons]
    by_cases hlen : l.length + 1 > 48
    · simp [hlen]; omega
    · by_cases hall : (a :: l).all okChar = true
      · simp only [hlen, ↓reduceIte, hall]
        have : ∀ ch ∈ a :: l, IdentChar ch := fun ch hch => (okChar_iff ch).mp (List.all_eq_true.mp hall ch hch)
        simp only [Except.ok.injEq, exists_eq', true_iff]
        exact ⟨by omega, by omega, this⟩
      · simp only [hlen, ↓reduceIte, hall]
        constructor
        · rintro ⟨v, hv⟩; cases hv
        · rintro ⟨_, _, h⟩
          exact absurd (List.all_eq_true.mpr fun ch hch => (okChar_iff ch).mpr (h ch hch)) hall

/-- An accepted name is kept verbatim, with the caller's flag. -/
theorem name_kept (s : String) (cs : Bool) (v : VerifiedName) (h : VerifiedName.new s cs = .ok v) :
    v = ⟨s, cs⟩ := by
  unfold VerifiedName.new at h
  split at h
  · cases h; rfl
  · cases h

/-- The error branches, in the code's order: empty, then too long (whatever the characters), then the
first illegal character. -/
theorem name_empty (cs : Bool) : VerifiedName.new "" cs = .error .empty := by rfl

theorem name_too_long (s : String) (cs : Bool) (h : 48 < s.length) :
    VerifiedName.new s cs = .error .tooLong := by
  rw [← String.length_toList] at h
  unfold VerifiedName.new verifyChars
  have : s.toList.isEmpty = false := by cases hl : s.toList <;> simp_all
  simp [this, h]

theorem name_illegal (s : String) (cs : Bool) (h1 : 1 ≤ s.length) (h2 : s.length ≤ 48)
    (ch : Char) (hin : ch ∈ s.toList) (hbad : ¬ IdentChar ch) :
    VerifiedName.new s cs = .error .illegalCharacter := by
  rw [← String.length_toList] at h1 h2
  unfold VerifiedName.new verifyChars
  have h0 : s.toList.isEmpty = false := by cases hl : s.toList <;> simp_all
  have hall : s.toList.all okChar = false := by
    apply Bool.eq_false_iff.mpr
    intro hall
    exact hbad ((okChar_iff ch).mp (List.all_eq_true.mp hall ch hin))
  have : ¬ (s.toList.length > 48) := by omega
  simp [h0, this, hall]

/-- **statement_shape**: the statement sent is `USE ` followed by the name, in double quotes iff the
caller asked for case sensitivity; every character after the keyword (and between the quotes) is an
identifier character — no space, quote, semicolon or non-ASCII character can be interpolated. -/
theorem statement_shape (s : String) (cs : Bool) (v : VerifiedName) (h : VerifiedName.new s cs = .ok v) :
    useStatement v = (if cs then "USE \"" ++ s ++ "\"" else "USE " ++ s) ∧ ∀ ch ∈ s.toList, IdentChar ch := by
  have hv := name_kept s cs v h
  subst hv
  exact ⟨rfl, ((name_valid_iff s cs).mp ⟨_, h⟩).2.2⟩

/-- non-vacuity: a 48-character name is accepted, the 49-character one is not; `é` is rejected. -/
example : VerifiedName.new "a23456789_123456789_123456789_123456789_12345678" true
    = .ok ⟨"a23456789_123456789_123456789_123456789_12345678", true⟩ := by rfl
example : VerifiedName.new "a23456789_123456789_123456789_123456789_123456789" true = .error .tooLong := by rfl
example : VerifiedName.new "café" false = .error .illegalCharacter := by rfl
example : useStatement ⟨"Ks_1", true⟩ = "USE \"Ks_1\"" ∧ useStatement ⟨"Ks_1", false⟩ = "USE Ks_1" := by decide

/-- The response-name check accepts exactly the names equal up to ASCII case (for quoted, case-sensitive
names too: that is what `verify_use_keyspace_result` does). -/
theorem response_check_iff (v : VerifiedName) (n : String) :
    verifyUseResult v (.setKeyspace n) = .ok () ↔ n.toList.map asciiLower = v.name.toList.map asciiLower := by
  unfold verifyUseResult eqIgnoreAsciiCase
  by_cases h : n.toList.map asciiLower = v.name.toList.map asciiLower <;> simp [h]

/-- Anything but a `SetKeyspace` result with a matching name is an error (nothing is swallowed). -/
theorem response_not_setKeyspace (v : VerifiedName) (r : WireReply) (h : verifyUseResult v r = .ok ()) :
    ∃ n, r = .setKeyspace n := by
  cases r <;> simp [verifyUseResult] at h ⊢

example : verifyUseResult ⟨"Ks1", false⟩ (.setKeyspace "ks1") = .ok () := by rfl
example : verifyUseResult ⟨"Ks1", false⟩ (.setKeyspace "ks2") = .error .mismatch := by rfl

/-! ## B. `use_keyspace_result` -/

/-- Ok iff at least one Ok and nothing but broken-connection errors besides. -/
theorem use_keyspace_result_ok (rs : List UseRes) :
    useKeyspaceResult rs = .ok ↔ (∀ r ∈ rs, r = .ok () ∨ r = .error .broken) ∧ .ok () ∈ rs :=
  useKeyspaceResult_ok_iff rs

/-- A broken-connection error iff all results are broken-connection errors. -/
theorem use_keyspace_result_broken (rs : List UseRes) :
    useKeyspaceResult rs = .err .broken ↔ (∀ r ∈ rs, r = .error .broken) ∧ rs ≠ [] :=
  useKeyspaceResult_broken_iff rs

/-- Any other error among the results is returned (the first one): never swallowed. -/
theorem use_keyspace_result_error (rs : List UseRes) (e : UseErr) (he : e ≠ .broken) (hm : .error e ∈ rs) :
    ∃ e', e' ≠ .broken ∧ useKeyspaceResult rs = .err e' := by
  cases h : useKeyspaceResult rs with
  | ok =>
    have := ((useKeyspaceResult_ok_iff rs).mp h).1 _ hm
    rcases this with h1 | h1
    · cases h1
    · simp only [Except.error.injEq] at h1; exact absurd h1 he
  | panic =>
    unfold useKeyspaceResult at h
    cases hl : ukrLoop rs false none with
    | error e' => simp [hl] at h
    | ok x =>
      have := (ukrLoop_ok hl).1 _ hm
      rcases this with h1 | h1
      · cases h1
      · simp only [Except.error.injEq] at h1; exact absurd h1 he
  | err e' =>
    refine ⟨e', ?_, rfl⟩
    intro hb; subst hb
    have := ((useKeyspaceResult_broken_iff rs).mp h).1 _ hm
    simp only [Except.error.injEq] at this; exact absurd this he

example : useKeyspaceResult [.ok (), .error .broken] = .ok := by decide
example : useKeyspaceResult [.error .broken, .error .broken] = .err .broken := by decide
example : useKeyspaceResult [.ok (), .error .dbError, .error .mismatch] = .err .dbError := by decide
example : useKeyspaceResult [] = .panic := by decide

/-! ## C. The pool refiller: every interleaving of use-keyspace requests, connection establishment,
keyspace setup of new connections, loss, refill -/

variable {K : Type} [DecidableEq K]

/-- Every state reachable from an initial pool (with or without an initial keyspace) by ANY event sequence
satisfies the invariant of `Proofs/Keyspace.lean`. -/
theorem reachable_inv (perShard : Bool) (target : Nat) (ks0 : Option K) (evs : List (Ev K)) :
    Inv (run (Pool.init perShard target ks0) evs) :=
  inv_run (inv_init perShard target ks0) evs

private theorem results_of_resp {p : Pool K} (h : Inv p) (t : Keyspace.Task K) (ht : t ∈ p.tasks)
    (hr : t.resp = some .ok ∨ t.resp = some (.err .broken)) (i : Nat) (hi : i ∈ t.snapshot)
    (hb : (p.net i).broken = false) : t.results.lookup i = some (.ok ()) := by
  have hresp : ∃ o, t.resp = some o ∧ (o = .ok ∨ o = .err .broken) := by
    rcases hr with h1 | h1
    · exact ⟨_, h1, Or.inl rfl⟩
    · exact ⟨_, h1, Or.inr rfl⟩
  obtain ⟨o, ho, hoo⟩ := hresp
  rcases h.resp t ht o ho with ⟨hnil, _⟩ | h2 | ⟨hdone, hres⟩
  · rw [hnil] at hi; cases hi
  · subst h2; rcases hoo with h3 | h3 <;> cases h3
  · unfold Task.allDone at hdone
    have hsome := List.all_eq_true.mp hdone i hi
    obtain ⟨r, hr'⟩ := Option.isSome_iff_exists.mp hsome
    have hmem : r ∈ t.resultList := by
      unfold Task.resultList
      exact List.mem_filterMap.mpr ⟨i, hi, hr'⟩
    have hcase : r = .ok () ∨ r = .error .broken := by
      rcases hoo with h3 | h3
      · subst h3; exact ((useKeyspaceResult_ok_iff _).mp hres.symm).1 r hmem
      · subst h3; exact Or.inr (((useKeyspaceResult_broken_iff _).mp hres.symm).1 r hmem)
    rcases hcase with h4 | h4
    · rw [hr', h4]
    · rw [h4] at hr'
      have := h.res_broken t ht i hr'
      rw [hb] at this; cases this

/-- **published_has_keyspace**.  In every reachable state in which no two use-keyspace requests overlapped
(the documented usage: "call only one `use_keyspace` at a time"), once the newest request `L` has been
answered Ok — or with a broken-connection error, which the node-level fan-out tolerates — every published
connection that is not broken has keyspace `L.ks` set at the server, and that is the pool's current keyspace.
Since this holds in every later state too (until the next request arrives), it covers every later request,
connections opened afterwards or concurrently included: they are not published before. -/
theorem published_has_keyspace (perShard : Bool) (target : Nat) (ks0 : Option K) (evs : List (Ev K)) :
    let p := run (Pool.init perShard target ks0) evs
    p.overlap = false → ∀ L, p.latest = some L → (L.resp = some .ok ∨ L.resp = some (.err .broken)) →
      p.currentKs = some L.ks ∧
      ∀ i ∈ p.conns, (p.net i).broken = false → (p.net i).serverKs = some L.ks := by
  intro p hov L hL hresp
  have h : Inv p := reachable_inv perShard target ks0 evs
  have hs := h.strong hov
  unfold Strong at hs
  unfold Pool.latest at hL
  cases htasks : p.tasks with
  | nil => rw [htasks] at hL; cases hL
  | cons L' rest =>
    rw [htasks] at hL hs
    simp only [List.head?_cons, Option.some.injEq] at hL
    subst hL
    refine ⟨hs.1, fun i hi hb => ?_⟩
    have := hs.2.2 i hi hb
    by_cases hsn : i ∈ L'.snapshot
    · exact this.1 hsn (results_of_resp h L' (by rw [htasks]; exact List.mem_cons_self) hresp i hsn hb)
    · exact this.2 hsn

/-- Before any use-keyspace request (a pool created with the session's keyspace, e.g. for a newly
discovered node): every published live connection has the pool's initial keyspace. -/
theorem published_has_initial_keyspace (perShard : Bool) (target : Nat) (ks0 : Option K) (evs : List (Ev K)) :
    let p := run (Pool.init perShard target ks0) evs
    p.overlap = false → p.tasks = [] →
      ∀ i ∈ p.conns, (p.net i).broken = false → (p.net i).serverKs = p.currentKs := by
  intro p hov ht
  have hs := (reachable_inv perShard target ks0 evs).strong hov
  unfold Strong at hs
  rw [ht] at hs
  exact hs

/-- **success_means_all_acked** (no discipline assumed, overlapping requests included): when ANY
use-keyspace request has been answered Ok, every connection that was published when the request arrived
and is not broken has acknowledged `USE` of that keyspace. -/
theorem success_means_all_acked (perShard : Bool) (target : Nat) (ks0 : Option K) (evs : List (Ev K)) :
    let p := run (Pool.init perShard target ks0) evs
    ∀ t ∈ p.tasks, t.resp = some .ok → ∀ i ∈ t.snapshot, (p.net i).broken = false →
      t.ks ∈ (p.net i).acked := by
  intro p t ht hr i hi hb
  have h : Inv p := reachable_inv perShard target ks0 evs
  exact h.res_ok t ht i (results_of_resp h t ht (Or.inl hr) i hi hb)

/-- An Ok answer is never given while a result is missing or is an error other than a broken connection;
a broken-connection result is only recorded for a connection that IS broken (it is leaving the pool). -/
theorem ok_answer_sound (perShard : Bool) (target : Nat) (ks0 : Option K) (evs : List (Ev K)) :
    let p := run (Pool.init perShard target ks0) evs
    ∀ t ∈ p.tasks, t.resp = some .ok → ∀ i ∈ t.snapshot,
      t.results.lookup i = some (.ok ()) ∨
      (t.results.lookup i = some (.error .broken) ∧ (p.net i).broken = true) := by
  intro p t ht hr i hi
  have h : Inv p := reachable_inv perShard target ks0 evs
  cases hb : (p.net i).broken with
  | false => exact Or.inl (results_of_resp h t ht (Or.inl hr) i hi hb)
  | true =>
    rcases h.resp t ht _ hr with ⟨hnil, _⟩ | h2 | ⟨hdone, hres⟩
    · rw [hnil] at hi; cases hi
    · cases h2
    · unfold Task.allDone at hdone
      obtain ⟨r, hr'⟩ := Option.isSome_iff_exists.mp (List.all_eq_true.mp hdone i hi)
      have hmem : r ∈ t.resultList := List.mem_filterMap.mpr ⟨i, hi, hr'⟩
      rcases ((useKeyspaceResult_ok_iff _).mp hres.symm).1 r hmem with h4 | h4
      · exact Or.inl (by rw [hr', h4])
      · exact Or.inr ⟨by rw [hr', h4], rfl⟩

/-- **new_connection_private**: a setting-keyspace future and the published list
are disjoint, and a connection in `setting` is in no task's snapshot: a new connection is private until the
server has acknowledged the current keyspace on it. -/
theorem new_connection_private (perShard : Bool) (target : Nat) (ks0 : Option K) (evs : List (Ev K)) :
    let p := run (Pool.init perShard target ks0) evs
    ∀ e ∈ p.setting, e.1 ∉ p.conns ∧ (∀ t ∈ p.tasks, e.1 ∉ t.snapshot) ∧ p.currentKs ≠ none := by
  intro p e he
  have h : Inv p := reachable_inv perShard target ks0 evs
  exact ⟨(h.priv e he).1, (h.priv e he).2, h.setting_cur e he⟩

/-- **publish_only_with_current_keyspace** — whatever the event and whatever happened before: a connection
that enters the published list in a step has, at that moment, exactly the pool's current keyspace set at the
server (`none` = no keyspace was ever requested). Opened connections without it go through `setting`. -/
theorem publish_only_with_current_keyspace (perShard : Bool) (target : Nat) (ks0 : Option K)
    (evs : List (Ev K)) (e : Ev K) :
    let p := run (Pool.init perShard target ks0) evs
    ∀ j ∈ (step p e).conns, j ∉ p.conns → ((step p e).net j).serverKs = (step p e).currentKs := by
  intro p j hj hn
  exact publish_step (reachable_inv perShard target ks0 evs) e j hj hn

/-! non-vacuity: a use-keyspace request races with a refill. The connection opened meanwhile (id 1) is held in
`setting` until the server acknowledged the keyspace, and only then published. -/
private def evsA : List (Ev Nat) :=
  [.refill, .opened 0 none false, .refill, .useKs 7, .opened 0 none false, .taskUse 0 0 .ack, .taskFinish 0,
   .ksSet 1 .ack]

example : let p := run (Pool.init false 2 (none : Option Nat)) evsA
    p.overlap = false ∧ (p.latest.map (·.resp)) = some (some .ok) ∧ p.conns = [0, 1] ∧
    (p.net 0).serverKs = some 7 ∧ (p.net 1).serverKs = some 7 ∧ (p.net 1).acked = [7] := by decide

example : let p := run (Pool.init false 2 (none : Option Nat)) evsA.dropLast
    (p.latest.map (·.resp)) = some (some .ok) ∧ p.conns = [0] ∧ p.setting = [(1, 7, false)] ∧
    (p.net 1).serverKs = none := by decide

/-- connection 0 breaks while the `USE` is on it, the other acknowledges: Ok, and the broken one leaves -/
private def evsBreak : List (Ev Nat) :=
  [.refill, .opened 0 none false, .refill, .opened 0 none false, .useKs 3, .breakConn 0, .taskUse 0 0 .ack,
   .taskUse 0 1 .ack, .taskFinish 0, .connError 0]
example : let p := run (Pool.init false 2 (none : Option Nat)) evsBreak
    (p.latest.map (·.resp)) = some (some .ok) ∧ p.conns = [1] ∧ (p.net 1).serverKs = some 3 := by decide

/-- The hypothesis `overlap = false` is needed (and is what the documentation of `Session::use_keyspace` asks
for): two overlapping requests, both answered Ok, can leave a live published connection in the OTHER keyspace. -/
private def evsOverlap : List (Ev Nat) :=
  [.refill, .opened 0 none false, .useKs 1, .useKs 2, .taskUse 1 0 .ack, .taskUse 0 0 .ack, .taskFinish 0,
   .taskFinish 1]
example : let p := run (Pool.init false 1 (none : Option Nat)) evsOverlap
    p.overlap = true ∧ p.tasks.map (·.resp) = [some .ok, some .ok] ∧ p.currentKs = some 2 ∧ p.conns = [0] ∧
    (p.net 0).broken = false ∧ (p.net 0).serverKs = some 1 := by decide

/-- A request whose `USE` the server rejects on one connection is answered with the error, and that
connection stays published in its old keyspace (a failed call may leave the pool mixed - as documented). -/
private def evsReject : List (Ev Nat) :=
  [.refill, .opened 0 none false, .ksSet 0 .ack, .refill, .opened 0 none false, .ksSet 1 .ack,
   .useKs 2, .taskUse 0 0 .ack, .taskUse 0 1 .dbError, .taskFinish 0]
example : let p := run (Pool.init false 2 (some 1 : Option Nat)) evsReject
    (p.latest.map (·.resp)) = some (some (.err .dbError)) ∧ p.conns = [0, 1] ∧
    (p.net 0).serverKs = some 2 ∧ (p.net 1).serverKs = some 1 := by decide

/-! ## D. The cluster worker: use-keyspace requests, their fan-out over the known nodes, deliveries to the
nodes' refillers in any order, every pool event of every node, node addition and removal -/

theorem cluster_reachable_inv (perShard : Bool) (target : Nat) (evs : List (CEv K)) :
    CInv (crun (Cluster.init perShard target : Cluster K) evs) :=
  cinv_run (cinv_init perShard target) evs

/-- Every node's pool, in every reachable cluster state, satisfies the pool invariant: the theorems of §C
hold for each node (a pool only ever moves by `step`). -/
theorem cluster_pools_inv (perShard : Bool) (target : Nat) (evs : List (CEv K)) (n : Nat) :
    Inv ((crun (Cluster.init perShard target : Cluster K) evs).pools n) :=
  (cluster_reachable_inv perShard target evs).pools n

/-- **new_nodes_inherit**: `node_config.used_keyspace` is the keyspace of the newest request the worker has
handled, and a node created by a metadata application gets a pool whose current keyspace is that one, with no
request pending: by `publish_only_with_current_keyspace` / `published_has_initial_keyspace` it never publishes
a connection without it. -/
theorem new_nodes_inherit (perShard : Bool) (target : Nat) (evs : List (CEv K)) (ps : Bool) (tg : Nat) :
    let c := crun (Cluster.init perShard target : Cluster K) evs
    let c' := cstep c (.addNode ps tg)
    c.usedKs = c.fanouts.head?.map (·.ks) ∧ c'.known = c.known ++ [c.nNodes] ∧
    c'.pools c.nNodes = Pool.init ps tg c.usedKs ∧ (c'.pools c.nNodes).currentKs = c.usedKs ∧
    (c'.pools c.nNodes).tasks = [] := by
  intro c c'
  refine ⟨(cluster_reachable_inv perShard target evs).used, rfl, ?_, ?_, ?_⟩ <;>
    simp [c', cstep, setPool, Pool.init]

/-- **cluster_success_means_all_acked** (no discipline assumed): when a `Session::use_keyspace(k)` fan-out has
been answered Ok, every node that was known when the worker handled the request has a pool task for `k` that
answered Ok (or with a broken-connection error: then every connection of that pool was broken), and every
connection that was published in that pool when the request reached it and is not broken has acknowledged
`USE k`. -/
theorem cluster_success_means_all_acked (perShard : Bool) (target : Nat) (evs : List (CEv K)) :
    let c := crun (Cluster.init perShard target : Cluster K) evs
    ∀ f ∈ c.fanouts, f.resp = some .ok → ∀ n ∈ f.nodes,
      ∃ t ∈ (c.pools n).tasks, t.ks = f.ks ∧ (t.resp = some .ok ∨ t.resp = some (.err .broken)) ∧
        ∀ i ∈ t.snapshot, ((c.pools n).net i).broken = false → f.ks ∈ ((c.pools n).net i).acked := by
  intro c f hf hr n hn
  have hc := cluster_reachable_inv perShard target evs
  obtain ⟨t, ht, hks, hresp⟩ := hc.fan f hf hr n hn
  refine ⟨t, ht, hks, hresp, fun i hi hb => ?_⟩
  rw [← hks]
  exact (hc.pools n).res_ok t ht i (results_of_resp (hc.pools n) t ht hresp i hi hb)

/-- **cluster_published_has_keyspace** — the property at session level. For every interleaving of
`Session::use_keyspace` requests, their deliveries to the nodes' refillers (in any order), every pool / task /
network event of every node, node addition and removal: if no two fan-outs overlapped (the documented usage)
and the newest one, for keyspace `k`, has been answered Ok, then every published connection of every known node
that is not broken has `k` set at the server — nodes added after the request included (`new_nodes_inherit`).
It holds in every later state until the next request, hence for every later session request.
The link (Proofs/KeyspaceCluster.lean, `CStrong`): a fan-out issues at most one pool request per node and is
answered only after all of them, so non-overlapping fan-outs give non-overlapping requests in every pool, and
the newest task of every pool known to the fan-out is the fan-out's. -/
theorem cluster_published_has_keyspace (perShard : Bool) (target : Nat) (evs : List (CEv K)) :
    let c := crun (Cluster.init perShard target : Cluster K) evs
    c.overlap = false → ∀ F, c.fanouts.head? = some F → F.resp = some .ok →
      ∀ n ∈ c.known, ∀ i ∈ (c.pools n).conns, ((c.pools n).net i).broken = false →
        ((c.pools n).net i).serverKs = some F.ks := by
  intro c hov F hF hr
  obtain ⟨h1, h2, h3⟩ := cluster_run_invs perShard target evs
  exact cluster_published h1 h2 (h3 hov) F hF hr

/-- Under the same hypothesis no pool has seen two overlapping requests (so `published_has_keyspace` applies
to each pool), whatever the answer of the newest fan-out. -/
theorem cluster_no_pool_overlap (perShard : Bool) (target : Nat) (evs : List (CEv K)) :
    let c := crun (Cluster.init perShard target : Cluster K) evs
    c.overlap = false → ∀ n, (c.pools n).overlap = false := by
  intro c hov
  exact ((cluster_run_invs perShard target evs).2.2 hov).1


private def cevs : List (CEv Nat) :=
  [.addNode false 1, .pool 0 .refill, .pool 0 (.opened 0 none false), .useKs 5, .addNode false 1,
   .deliver 0 0, .pool 0 (.taskUse 0 0 .ack), .pool 0 (.taskFinish 0), .fanoutFinish 0,
   .pool 1 .refill, .pool 1 (.opened 0 none false), .pool 1 (.ksSet 0 .ack)]

example : let c := crun (Cluster.init false 1 : Cluster Nat) cevs
    c.overlap = false ∧ c.fanouts.map (·.resp) = [some .ok] ∧ c.known = [0, 1] ∧ (c.pools 1).currentKs = some 5 ∧
    (c.pools 0).conns = [0] ∧ ((c.pools 0).net 0).serverKs = some 5 ∧
    (c.pools 1).conns = [0] ∧ ((c.pools 1).net 0).serverKs = some 5 := by decide

end ScyllaVerif.Props.C20

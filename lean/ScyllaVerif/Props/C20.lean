import ScyllaVerif.Model.Keyspace
/-!
# C20 — after USE keyspace succeeds, all requests run on connections in that keyspace

Theorems about `Model/Keyspace.lean`.

§A names: which strings `VerifiedKeyspaceName::new` accepts, what is rejected with which error, what the
   `USE` statement is made of, what the response-name check accepts.
§B `use_keyspace_result`.
§C the pool refiller: invariants over `step` lifted to every event sequence (`run`).
§D the cluster worker.
-/
namespace ScyllaVerif.Props.C20
open ScyllaVerif.Keyspace

/-! ## A. Names -/

/-- The specification side: `[A-Za-z0-9_]`, written with character literals. -/
def IdentChar (c : Char) : Prop :=
  ('a' ≤ c ∧ c ≤ 'z') ∨ ('A' ≤ c ∧ c ≤ 'Z') ∨ ('0' ≤ c ∧ c ≤ '9') ∨ c = '_'

private theorem char_le_iff (a b : Char) : a ≤ b ↔ a.toNat ≤ b.toNat := by
  rw [Char.le_def, UInt32.le_iff_toNat_le]; rfl

theorem okChar_iff (c : Char) : okChar c = true ↔ IdentChar c := by
  unfold okChar IdentChar
  have h95 : c = '_' ↔ c.toNat = 95 := by
    constructor
    · intro h; subst h; rfl
    · intro h; apply Char.ext; apply UInt32.toNat_inj.mp; exact h
  simp only [char_le_iff, h95, Bool.or_eq_true, Bool.and_eq_true, decide_eq_true_eq, beq_iff_eq]
  have e1 : 'a'.toNat = 97 := rfl
  have e2 : 'z'.toNat = 122 := rfl
  have e3 : 'A'.toNat = 65 := rfl
  have e4 : 'Z'.toNat = 90 := rfl
  have e5 : '0'.toNat = 48 := rfl
  have e6 : '9'.toNat = 57 := rfl
  rw [e1, e2, e3, e4, e5, e6]
  omega

/-- Only ASCII is accepted: a character with a code point above 127 (e.g. `é`, `ß`, `Ａ`) is never an
identifier character — the code matches character ranges, it does not call `char::is_alphanumeric`. -/
theorem identChar_ascii (c : Char) (h : IdentChar c) : c.toNat < 128 := by
  have := (okChar_iff c).mpr h
  unfold okChar at this
  simp only [Bool.or_eq_true, Bool.and_eq_true, decide_eq_true_eq, beq_iff_eq] at this
  omega

/-- **name_valid_iff**: `VerifiedKeyspaceName::new s cs` succeeds exactly on the strings of 1 to 48
characters (counted with `chars().count()`), all in `[A-Za-z0-9_]`; the flag plays no role. -/
theorem name_valid_iff (s : String) (cs : Bool) :
    (∃ v, VerifiedName.new s cs = .ok v) ↔
      1 ≤ s.length ∧ s.length ≤ 48 ∧ ∀ ch ∈ s.toList, IdentChar ch := by
  rw [← String.length_toList]
  unfold VerifiedName.new verifyChars
  generalize s.toList = l
  cases l with
  | nil => simp
  | cons a l =>
    simp only [List.isEmpty_cons, Bool.false_eq_true, ↓reduceIte, List.length_cons]
    by_cases hlen : l.length + 1 > 48
    · simp [hlen]; omega
    · by_cases hall : (a :: l).all okChar = true
      · simp only [hlen, ↓reduceIte, hall]
        have : ∀ ch ∈ a :: l, IdentChar ch := fun ch hch => (okChar_iff ch).mp (List.all_eq_true.mp hall ch hch)
        simp only [Except.ok.injEq, exists_eq', true_iff]
        exact ⟨by omega, by omega, this⟩
      · simp only [hlen, ↓reduceIte, hall]
        constructor
        · rintro ⟨v, hv⟩; cases hv
        · rintro ⟨_, _, h⟩
          exact absurd (List.all_eq_true.mpr fun ch hch => (okChar_iff ch).mpr (h ch hch)) hall

/-- An accepted name is kept verbatim, with the caller's flag. -/
theorem name_kept (s : String) (cs : Bool) (v : VerifiedName) (h : VerifiedName.new s cs = .ok v) :
    v = ⟨s, cs⟩ := by
  unfold VerifiedName.new at h
  split at h
  · cases h; rfl
  · cases h

/-- The error branches, in the code's order: empty, then too long (whatever the characters), then the
first illegal character. -/
theorem name_empty (cs : Bool) : VerifiedName.new "" cs = .error .empty := by rfl

theorem name_too_long (s : String) (cs : Bool) (h : 48 < s.length) :
    VerifiedName.new s cs = .error .tooLong := by
  rw [← String.length_toList] at h
  unfold VerifiedName.new verifyChars
  have : s.toList.isEmpty = false := by cases hl : s.toList <;> simp_all
  simp [this, h]

theorem name_illegal (s : String) (cs : Bool) (h1 : 1 ≤ s.length) (h2 : s.length ≤ 48)
    (ch : Char) (hin : ch ∈ s.toList) (hbad : ¬ IdentChar ch) :
    VerifiedName.new s cs = .error .illegalCharacter := by
  rw [← String.length_toList] at h1 h2
  unfold VerifiedName.new verifyChars
  have h0 : s.toList.isEmpty = false := by cases hl : s.toList <;> simp_all
  have hall : s.toList.all okChar = false := by
    apply Bool.eq_false_iff.mpr
    intro hall
    exact hbad ((okChar_iff ch).mp (List.all_eq_true.mp hall ch hin))
  have : ¬ (s.toList.length > 48) := by omega
  simp [h0, this, hall]

/-- **statement_shape**: the statement sent is `USE ` followed by the name, in double quotes iff the
caller asked for case sensitivity; every character after the keyword (and between the quotes) is an
identifier character — no space, quote, semicolon or non-ASCII character can be interpolated. -/
theorem statement_shape (s : String) (cs : Bool) (v : VerifiedName) (h : VerifiedName.new s cs = .ok v) :
    useStatement v = (if cs then "USE \"" ++ s ++ "\"" else "USE " ++ s) ∧ ∀ ch ∈ s.toList, IdentChar ch := by
  have hv := name_kept s cs v h
  subst hv
  exact ⟨rfl, ((name_valid_iff s cs).mp ⟨_, h⟩).2.2⟩

/-- non-vacuity: a 48-character name is accepted, the 49-character one is not; `é` is rejected. -/
example : VerifiedName.new "a23456789_123456789_123456789_123456789_12345678" true
    = .ok ⟨"a23456789_123456789_123456789_123456789_12345678", true⟩ := by rfl
example : VerifiedName.new "a23456789_123456789_123456789_123456789_123456789" true = .error .tooLong := by rfl
example : VerifiedName.new "café" false = .error .illegalCharacter := by rfl
example : useStatement ⟨"Ks_1", true⟩ = "USE \"Ks_1\"" ∧ useStatement ⟨"Ks_1", false⟩ = "USE Ks_1" := by decide

/-- The response-name check accepts exactly the names equal up to ASCII case (for quoted, case-sensitive
names too: that is what `verify_use_keyspace_result` does). -/
theorem response_check_iff (v : VerifiedName) (n : String) :
    verifyUseResult v (.setKeyspace n) = .ok () ↔ n.toList.map asciiLower = v.name.toList.map asciiLower := by
  unfold verifyUseResult eqIgnoreAsciiCase
  by_cases h : n.toList.map asciiLower = v.name.toList.map asciiLower <;> simp [h]

/-- Anything but a `SetKeyspace` result with a matching name is an error (nothing is swallowed). -/
theorem response_not_setKeyspace (v : VerifiedName) (r : WireReply) (h : verifyUseResult v r = .ok ()) :
    ∃ n, r = .setKeyspace n := by
  cases r <;> simp [verifyUseResult] at h ⊢

example : verifyUseResult ⟨"Ks1", false⟩ (.setKeyspace "ks1") = .ok () := by rfl
example : verifyUseResult ⟨"Ks1", false⟩ (.setKeyspace "ks2") = .error .mismatch := by rfl

end ScyllaVerif.Props.C20

import ScyllaVerif.Model.Keyspace
import ScyllaVerif.Proofs.Keyspace
import ScyllaVerif.Proofs.KeyspaceCluster
/-!
# C20 — after USE keyspace succeeds, all requests run on connections in that keyspace

Theorems about `Model/Keyspace.lean`.

§A names: which strings `VerifiedKeyspaceName::new` accepts, what is rejected with which error, what the
   `USE` statement is made of, what the response-name check accepts.
§B `use_keyspace_result`.
§C the pool refiller: invariants over `step` lifted to every event sequence (`run`).
§D the cluster worker.
-/
set_option linter.unusedSectionVars false
namespace ScyllaVerif.Props.C20
open ScyllaVerif.Keyspace

/-! ## A. Names -/

/-- The specification side: `[A-Za-z0-9_]`, written with character literals. -/
def IdentChar (c : Char) : Prop :=
  ('a' ≤ c ∧ c ≤ 'z') ∨ ('A' ≤ c ∧ c ≤ 'Z') ∨ ('0' ≤ c ∧ c ≤ '9') ∨ c = '_'

private theorem char_le_iff (a b : Char) : a ≤ b ↔ a.toNat ≤ b.toNat := by
  rw [Char.le_def, UInt32.le_iff_toNat_le]; rfl

theorem okChar_iff (c : Char) : okChar c = true ↔ IdentChar c := by
  unfold okChar IdentChar
  have h95 : c = '_' ↔ c.toNat = 95 := by
    constructor
    · intro h; subst h; rfl
    · intro h; apply Char.ext; apply UInt32.toNat_inj.mp; exact h
  simp only [char_le_iff, h95, Bool.or_eq_true, Bool.and_eq_true, decide_eq_true_eq, beq_iff_eq]
  have e1 : 'a'.toNat = 97 := rfl
  have e2 : 'z'.toNat = 122 := rfl
  have e3 : 'A'.toNat = 65 := rfl
  have e4 : 'Z'.toNat = 90 := rfl
  have e5 : '0'.toNat = 48 := rfl
  have e6 : '9'.toNat = 57 := rfl
  rw [e1, e2, e3, e4, e5, e6]
  omega

/-- Only ASCII is accepted: a character with a code point above 127 (e.g. `é`, `ß`, `Ａ`) is never an
identifier character — the code matches character ranges, it does not call `char::is_alphanumeric`. -/
theorem identChar_ascii (c : Char) (h : IdentChar c) : c.toNat < 128 := by
  have := (okChar_iff c).mpr h
  unfold okChar at this
  simp only [Bool.or_eq_true, Bool.and_eq_true, decide_eq_true_eq, beq_iff_eq] at this
  omega

/-- **name_valid_iff**: `VerifiedKeyspaceName::new s cs` succeeds exactly on the strings of 1 to 48
characters (counted with `chars().count()`), all in `[A-Za-z0-9_]`; the flag plays no role. -/
theorem name_valid_iff (s : String) (cs : Bool) :
    (∃ v, VerifiedName.new s cs = .ok v) ↔
      1 ≤ s.length ∧ s.length ≤ 48 ∧ ∀ ch ∈ s.toList, IdentChar ch := by
  rw [← String.length_toList]
  unfold VerifiedName.new verifyChars
  generalize s.toList = l
  cases l with
  | nil => simp
  | cons a l =>
    simp only [List.isEmpty_cons, Bool.false_eq_true, ↓reduceIte, List.length_cons]
    by_cases hlen : l.length + 1 > 48
    · simp [hlen]; omega
    · by_cases hall : (a :: l).all okChar = true
      · simp only [hlen, ↓reduceIte, hall]
        have : ∀ ch ∈ a :: l, IdentChar ch := fun ch hch => (okChar_iff ch).mp (List.all_eq_true.mp hall ch hch)
        simp only [Except.ok.injEq, exists_eq', true_iff]
        exact ⟨by omega, by omega, this⟩
      · simp only [hlen, ↓reduceIte, hall]
        constructor
        · rintro ⟨v, hv⟩; cases hv
        · rintro ⟨_, _, h⟩
          exact absurd (List.all_eq_true.mpr fun ch hch => (okChar_iff ch).mpr (h ch hch)) hall

/-- An accepted name is kept verbatim, with the caller's flag. -/
theorem name_kept (s : String) (cs : Bool) (v : VerifiedName) (h : VerifiedName.new s cs = .ok v) :
    v = ⟨s, cs⟩ := by
  unfold VerifiedName.new at h
  split at h
  · cases h; rfl
  · cases h

/-- The error branches, in the code's order: empty, then too long (whatever the characters), then the
first illegal character. -/
theorem name_empty (cs : Bool) : VerifiedName.new "" cs = .error .empty := by rfl

theorem name_too_long (s : String) (cs : Bool) (h : 48 < s.length) :
    VerifiedName.new s cs = .error .tooLong := by
  rw [← String.length_toList] at h
  unfold VerifiedName.new verifyChars
  have : s.toList.isEmpty = false := by cases hl : s.toList <;> simp_all
  simp [this, h]

theorem name_illegal (s : String) (cs : Bool) (h1 : 1 ≤ s.length) (h2 : s.length ≤ 48)
    (ch : Char) (hin : ch ∈ s.toList) (hbad : ¬ IdentChar ch) :
    VerifiedName.new s cs = .error .illegalCharacter := by
  rw [← String.length_toList] at h1 h2
  unfold VerifiedName.new verifyChars
  have h0 : s.toList.isEmpty = false := by cases hl : s.toList <;> simp_all
  have hall : s.toList.all okChar = false := by
    apply Bool.eq_false_iff.mpr
    intro hall
    exact hbad ((okChar_iff ch).mp (List.all_eq_true.mp hall ch hin))
  have : ¬ (s.toList.length > 48) := by omega
  simp [h0, this, hall]

/-- **statement_shape**: the statement sent is `USE ` followed by the name, in double quotes iff the
caller asked for case sensitivity; every character after the keyword (and between the quotes) is an
identifier character — no space, quote, semicolon or non-ASCII character can be interpolated. -/
theorem statement_shape (s : String) (cs : Bool) (v : VerifiedName) (h : VerifiedName.new s cs = .ok v) :
    useStatement v = (if cs then "USE \"" ++ s ++ "\"" else "USE " ++ s) ∧ ∀ ch ∈ s.toList, IdentChar ch := by
  have hv := name_kept s cs v h
  subst hv
  exact ⟨rfl, ((name_valid_iff s cs).mp ⟨_, h⟩).2.2⟩

/-- non-vacuity: a 48-character name is accepted, the 49-character one is not; `é` is rejected. -/
example : VerifiedName.new "a23456789_123456789_123456789_123456789_12345678" true
    = .ok ⟨"a23456789_123456789_123456789_123456789_12345678", true⟩ := by rfl
example : VerifiedName.new "a23456789_123456789_123456789_123456789_123456789" true = .error .tooLong := by rfl
example : VerifiedName.new "café" false = .error .illegalCharacter := by rfl
example : useStatement ⟨"Ks_1", true⟩ = "USE \"Ks_1\"" ∧ useStatement ⟨"Ks_1", false⟩ = "USE Ks_1" := by decide

/-- The response-name check accepts exactly the names equal up to ASCII case (for quoted, case-sensitive
names too: that is what `verify_use_keyspace_result` does). -/
theorem response_check_iff (v : VerifiedName) (n : String) :
    verifyUseResult v (.setKeyspace n) = .ok () ↔ n.toList.map asciiLower = v.name.toList.map asciiLower := by
  unfold verifyUseResult eqIgnoreAsciiCase
  by_cases h : n.toList.map asciiLower = v.name.toList.map asciiLower <;> simp [h]

/-- Anything but a `SetKeyspace` result with a matching name is an error (nothing is swallowed). -/
theorem response_not_setKeyspace (v : VerifiedName) (r : WireReply) (h : verifyUseResult v r = .ok ()) :
    ∃ n, r = .setKeyspace n := by
  cases r <;> simp [verifyUseResult] at h ⊢

example : verifyUseResult ⟨"Ks1", false⟩ (.setKeyspace "ks1") = .ok () := by rfl
example : verifyUseResult ⟨"Ks1", false⟩ (.setKeyspace "ks2") = .error .mismatch := by rfl

/-! ### what a server makes of the statement: the flag decides WHICH keyspace is named -/

/-- A server that has the named keyspace acknowledges the statement with the resolved name, and the driver's
response check accepts that answer; a server that does not have it answers an error, which is reported. -/
theorem server_answer_accepted_iff (existing : List String) (v : VerifiedName) :
    verifyUseResult v (serverUse existing v) = .ok () ↔ existing.contains (resolveName v) = true := by
  unfold serverUse
  by_cases h : existing.contains (resolveName v) = true
  · simp only [h, ↓reduceIte, iff_true]
    rw [response_check_iff]
    unfold resolveName
    split
    · rfl
    · simp only [String.toList_ofList, List.map_map]
      apply List.map_congr_left
      intro c _
      simp only [Function.comp]
      unfold asciiLower
      split
      · rename_i hc
        have : (Char.ofNat (c.toNat + 32)).toNat = c.toNat + 32 := by
          have hv : (c.toNat + 32).isValidChar := by unfold Nat.isValidChar; omega
          unfold Char.ofNat
          rw [dif_pos hv]
          unfold Char.ofNatAux Char.toNat
          simp only [UInt32.toNat, BitVec.toNat_ofNatLT]
        rw [this]
        simp only [ite_eq_right_iff]
        intro h2; omega
      · rfl
  · simp only [h, Bool.false_eq_true, ↓reduceIte, iff_false]
    simp [verifyUseResult]

/-- Quoting the name a server returned names exactly that keyspace again: this is why the session's follow-up
after a user-issued `USE` (`handle_set_keyspace_response`, and the pager's copy of it) must pass
`case_sensitive = true`. -/
theorem followup_quoted_names_the_same_keyspace (v : VerifiedName) :
    resolveName ⟨resolveName v, true⟩ = resolveName v := rfl

/-- ... whereas the unquoted follow-up names the lower-cased twin whenever the resolved name has an upper-case
letter: a different keyspace (example: `Ka` / `ka`). -/
theorem followup_unquoted_names_the_lowercase_twin (v : VerifiedName) :
    resolveName ⟨resolveName v, false⟩ = String.ofList ((resolveName v).toList.map asciiLower) := rfl

example : resolveName ⟨"Ka", true⟩ = "Ka" ∧ resolveName ⟨"Ka", false⟩ = "ka" ∧
    resolveName ⟨resolveName ⟨"Ka", true⟩, false⟩ = "ka" ∧ resolveName ⟨resolveName ⟨"Ka", true⟩, true⟩ = "Ka" := by
  decide
example : verifyUseResult ⟨"Ka", false⟩ (serverUse ["ka", "Ka"] ⟨"Ka", false⟩) = .ok () ∧
    serverUse ["ka", "Ka"] ⟨"Ka", false⟩ = .setKeyspace "ka" ∧ serverUse ["Ka"] ⟨"Ka", false⟩ = .error :=
  ⟨rfl, rfl, rfl⟩

/-! ## B. `use_keyspace_result` -/

/-- Ok iff at least one Ok and nothing but broken-connection errors besides. -/
theorem use_keyspace_result_ok (rs : List UseRes) :
    useKeyspaceResult rs = .ok ↔ (∀ r ∈ rs, r = .ok () ∨ r = .error .broken) ∧ .ok () ∈ rs :=
  useKeyspaceResult_ok_iff rs

/-- A broken-connection error iff all results are broken-connection errors. -/
theorem use_keyspace_result_broken (rs : List UseRes) :
    useKeyspaceResult rs = .err .broken ↔ (∀ r ∈ rs, r = .error .broken) ∧ rs ≠ [] :=
  useKeyspaceResult_broken_iff rs

/-- Any other error among the results is returned (the first one): never swallowed. -/
theorem use_keyspace_result_error (rs : List UseRes) (e : UseErr) (he : e ≠ .broken) (hm : .error e ∈ rs) :
    ∃ e', e' ≠ .broken ∧ useKeyspaceResult rs = .err e' := by
  cases h : useKeyspaceResult rs with
  | ok =>
    have := ((useKeyspaceResult_ok_iff rs).mp h).1 _ hm
    rcases this with h1 | h1
    · cases h1
    · simp only [Except.error.injEq] at h1; exact absurd h1 he
  | panic =>
    unfold useKeyspaceResult at h
    cases hl : ukrLoop rs false none with
    | error e' => simp [hl] at h
    | ok x =>
      have := (ukrLoop_ok hl).1 _ hm
      rcases this with h1 | h1
      · cases h1
      · simp only [Except.error.injEq] at h1; exact absurd h1 he
  | err e' =>
    refine ⟨e', ?_, rfl⟩
    intro hb; subst hb
    have := ((useKeyspaceResult_broken_iff rs).mp h).1 _ hm
    simp only [Except.error.injEq] at this; exact absurd this he

example : useKeyspaceResult [.ok (), .error .broken] = .ok := by decide
example : useKeyspaceResult [.error .broken, .error .broken] = .err .broken := by decide
example : useKeyspaceResult [.ok (), .error .dbError, .error .mismatch] = .err .dbError := by decide
example : useKeyspaceResult [] = .panic := by decide

/-! ## C. The pool refiller: every interleaving of use-keyspace requests, connection establishment,
keyspace setup of new connections, loss, refill -/

variable {K : Type} [DecidableEq K]

/-- Every state reachable from an initial pool (with or without an initial keyspace) by ANY event sequence
satisfies the invariant of `Proofs/Keyspace.lean`. -/
theorem reachable_inv (perShard : Bool) (target : Nat) (ks0 : Option K) (evs : List (Ev K)) :
    Inv (run (Pool.init perShard target ks0) evs) :=
  inv_run (inv_init perShard target ks0) evs

/-- **published_has_keyspace**.  The model lets the node answer the statements of one connection in ANY order
(`serveOoo`: CQL allows it); no in-order-server assumption is built in. In every reachable state — whatever
happened before, overlapping requests included — in which the NEWEST use-keyspace request `L` arrived when no
older one was unanswered (`overlap = false`: the documented usage "call only one `use_keyspace` at a time",
re-evaluated at every request, so one past overlap does not spoil the future) and `L` has been answered Ok — or
with a broken-connection error, which the node-level fan-out tolerates —: every published connection that is not
broken and is not marked `unclaimed` has keyspace `L.ks` set at the server and NO `USE` in flight that could
still change it; `L.ks` is the pool's current keyspace.
`unclaimed` is set by exactly two events (`unclaimed_only_by_user_use_or_out_of_order`): a user-issued `USE`
written on the connection, and the node answering something out of order on it; it is cleared when the newest
task writes its own `USE`. So the hypothesis reads: since `L`'s own `USE` was written on this connection, no user
`USE` was written behind it and the node has answered this connection's statements in order. Under the ASSUMPTION
that the node executes the statements of one connection in order (and without user-issued `USE`) it always holds
(`in_order_server_claims_every_connection`); without that assumption it holds in particular whenever at most one
statement is in flight when `L`'s `USE` is answered (`out_of_order_impossible_when_prefix_drained`: the prefix
ahead of the newest `USE` has drained) — and it can genuinely fail otherwise (example `evsLate`: a `USE` left in
flight by a timed-out request, executed by the node AFTER the newest one, puts the connection back into the
older keyspace).
Since this holds in every later state too (until the next request arrives), it covers every later request,
connections opened afterwards or concurrently included: they are not published before. -/
theorem published_has_keyspace (perShard : Bool) (target : Nat) (ks0 : Option K) (evs : List (Ev K)) :
    let p := run (Pool.init perShard target ks0) evs
    p.overlap = false → ∀ L, p.latest = some L → (L.resp = some .ok ∨ L.resp = some (.err .broken)) →
      p.currentKs = some L.ks ∧
      ∀ i ∈ p.conns, (p.net i).broken = false → (p.net i).unclaimed = false →
        (p.net i).serverKs = some L.ks ∧ (p.net i).queue = [] := by
  intro p hov L hL hresp
  exact published_of_inv (reachable_inv perShard target ks0 evs) hov L hL hresp

/-- **published_in_exactly_named_keyspace**. With a server that resolves statements as servers do
(`resolveName`: quoted = exact, unquoted = folded to lower case), the conclusion of `published_has_keyspace` reads:
every such connection is in EXACTLY the keyspace the newest call named - `resolveName` of its (name, flag) - not
in a case twin of it. -/
theorem published_in_exactly_named_keyspace (perShard : Bool) (target : Nat) (ks0 : Option VerifiedName)
    (evs : List (Ev VerifiedName)) :
    let p := run (Pool.init perShard target ks0) evs
    p.overlap = false → ∀ L, p.latest = some L → (L.resp = some .ok ∨ L.resp = some (.err .broken)) →
      ∀ i ∈ p.conns, (p.net i).broken = false → (p.net i).unclaimed = false →
        (p.net i).serverKs.map resolveName = some (resolveName L.ks) := by
  intro p hov L hL hresp i hi hb hm
  rw [((published_has_keyspace perShard target ks0 evs hov L hL hresp).2 i hi hb hm).1]
  rfl

/-- **use_keyspace_walks_buckets**: the request's snapshot is the published connections bucket by bucket (shard
0 first), each bucket in its own order - the order in which `PoolRefiller::use_keyspace` collects the results, hence
the order that decides WHICH error a failing call reports when connections fail differently. -/
theorem use_keyspace_walks_buckets (p : Pool K) (k : K) :
    let q := step p (.useKs k)
    ∃ L, q.latest = some L ∧ L.snapshot = p.byShard ∧ (∀ i, i ∈ L.snapshot ↔ i ∈ p.conns) ∧
      L.snapshot.Pairwise (fun a b => (p.net a).shard ≤ (p.net b).shard) := by
  refine ⟨_, rfl, rfl, fun i => mem_byShard p i, ?_⟩
  simp only
  unfold Pool.byShard
  suffices h : ∀ (l acc : List Nat), acc.Pairwise (fun a b => (p.net a).shard ≤ (p.net b).shard) →
      (l.foldl (fun acc i => insertByShard (fun j => (p.net j).shard) i acc) acc).Pairwise
        (fun a b => (p.net a).shard ≤ (p.net b).shard) from h _ _ List.Pairwise.nil
  intro l
  induction l with
  | nil => intro acc h; exact h
  | cons x l ih =>
    intro acc hacc
    apply ih
    -- inserting keeps the list ordered by shard
    clear ih
    induction acc with
    | nil => simp [insertByShard]
    | cons j acc ih2 =>
      simp only [insertByShard]
      rw [List.pairwise_cons] at hacc
      split
      · rename_i hlt
        rw [List.pairwise_cons]
        refine ⟨fun b hb => ?_, by rw [List.pairwise_cons]; exact hacc⟩
        simp only [List.mem_cons] at hb
        rcases hb with rfl | hb
        · omega
        · have := hacc.1 b hb; omega
      · rename_i hge
        rw [List.pairwise_cons]
        refine ⟨fun b hb => ?_, ih2 hacc.2⟩
        rcases (mem_insertByShard _ _ _ _).mp hb with rfl | hb
        · omega
        · exact hacc.1 b hb

/-- the auditor's history: connection 0 lands on shard 1, connection 1 on shard 0; the `USE` fails differently on
the two: the call reports the error of the SHARD-0 connection (connection 1), as the code does. -/
private def evsOrder : List (Ev Nat) :=
  [.refill, .opened 1 (some 2) none, .refill, .opened 0 (some 2) (some 0), .useKs 4, .taskSubmit 0 0, .taskSubmit 0 1,
   .serve 0 .dbError, .serve 1 (.ackOther 9), .taskFinish 0]
example : let p := run (Pool.init true 1 (none : Option Nat)) evsOrder
    p.conns = [0, 1] ∧ (p.latest.map (·.snapshot)) = some [1, 0] ∧
    (p.latest.map (·.resp)) = some (some (.err .mismatch)) := by decide

/-- Before any use-keyspace request (a pool created with the session's keyspace, e.g. for a newly
discovered node): every published live connection (no user-issued `USE` on it) has the pool's initial keyspace. -/
theorem published_has_initial_keyspace (perShard : Bool) (target : Nat) (ks0 : Option K) (evs : List (Ev K)) :
    let p := run (Pool.init perShard target ks0) evs
    p.overlap = false → p.tasks = [] →
      ∀ i ∈ p.conns, (p.net i).broken = false → (p.net i).unclaimed = false →
        (p.net i).serverKs = p.currentKs ∧ (p.net i).queue = [] := by
  intro p hov ht
  have hs := (reachable_inv perShard target ks0 evs).strong hov
  unfold Strong at hs
  rw [ht] at hs
  exact hs

/-- While the newest request is still running (no overlap): on every published live connection on which its
`USE` has been written and not yet answered (and no user `USE` behind it), that `USE` is the LAST statement in
flight — whatever older, timed-out requests left in flight is ahead of it and will be served first. -/
theorem newest_use_is_last_in_flight (perShard : Bool) (target : Nat) (ks0 : Option K) (evs : List (Ev K)) :
    let p := run (Pool.init perShard target ks0) evs
    p.overlap = false → ∀ L, p.latest = some L → L.resp = none →
      ∀ i ∈ p.conns, (p.net i).broken = false → (p.net i).unclaimed = false → i ∈ L.submitted →
        L.results.lookup i = none →
        ∃ pre, (p.net i).queue = pre ++ [(.task L.id, L.ks)] ∧ ∀ e ∈ pre, e.1 ≠ .task L.id := by
  intro p hov L hL hal i hi hb hm hsub hlk
  have h : Inv p := reachable_inv perShard target ks0 evs
  have hs := h.strong hov
  unfold Strong at hs
  unfold Pool.latest at hL
  cases htasks : p.tasks with
  | nil => rw [htasks] at hL; cases hL
  | cons L' rest =>
    rw [htasks] at hL hs
    simp only [List.head?_cons, Option.some.injEq] at hL
    subst hL
    have hin : i ∈ L'.snapshot := h.sub_snap L' (by rw [htasks]; exact List.mem_cons_self) i hsub
    exact ((hs.2.2 i hi hb hm).2 hin).2 hal hsub hlk

/-- **success_means_all_acked** (no discipline assumed, overlapping requests included): when ANY
use-keyspace request has been answered Ok, every connection that was published when the request arrived
and is not broken has acknowledged `USE` of that keyspace. -/
theorem success_means_all_acked (perShard : Bool) (target : Nat) (ks0 : Option K) (evs : List (Ev K)) :
    let p := run (Pool.init perShard target ks0) evs
    ∀ t ∈ p.tasks, t.resp = some .ok → ∀ i ∈ t.snapshot, (p.net i).broken = false →
      t.ks ∈ (p.net i).acked := by
  intro p t ht hr i hi hb
  have h : Inv p := reachable_inv perShard target ks0 evs
  exact h.res_ok t ht i (results_ok_of_resp h t ht (Or.inl hr) i hi hb)

/-- An Ok answer is never given while a result is missing or is an error other than a broken connection;
a broken-connection result is only recorded for a connection that IS broken (it is leaving the pool). -/
theorem ok_answer_sound (perShard : Bool) (target : Nat) (ks0 : Option K) (evs : List (Ev K)) :
    let p := run (Pool.init perShard target ks0) evs
    ∀ t ∈ p.tasks, t.resp = some .ok → ∀ i ∈ t.snapshot,
      t.results.lookup i = some (.ok ()) ∨
      (t.results.lookup i = some (.error .broken) ∧ (p.net i).broken = true) := by
  intro p t ht hr i hi
  have h : Inv p := reachable_inv perShard target ks0 evs
  cases hb : (p.net i).broken with
  | false => exact Or.inl (results_ok_of_resp h t ht (Or.inl hr) i hi hb)
  | true =>
    rcases h.resp t ht _ hr with ⟨hnil, _⟩ | h2 | ⟨hdone, hres⟩
    · rw [hnil] at hi; cases hi
    · cases h2
    · unfold Task.allDone at hdone
      obtain ⟨r, hr'⟩ := Option.isSome_iff_exists.mp (List.all_eq_true.mp hdone i hi)
      have hmem : r ∈ t.resultList := List.mem_filterMap.mpr ⟨i, hi, hr'⟩
      rcases ((useKeyspaceResult_ok_iff _).mp hres.symm).1 r hmem with h4 | h4
      · exact Or.inl (by rw [hr', h4])
      · exact Or.inr ⟨by rw [hr', h4], rfl⟩

/-- **new_connection_private**: a setting-keyspace future and the published list
are disjoint, and a connection in `setting` is in no task's snapshot: a new connection is private until the
server has acknowledged the current keyspace on it. -/
theorem new_connection_private (perShard : Bool) (target : Nat) (ks0 : Option K) (evs : List (Ev K)) :
    let p := run (Pool.init perShard target ks0) evs
    ∀ e ∈ p.setting, e.1 ∉ p.conns ∧ (∀ t ∈ p.tasks, e.1 ∉ t.snapshot) ∧ p.currentKs ≠ none ∧
      (p.net e.1).queue = [] := by
  intro p e he
  have h : Inv p := reachable_inv perShard target ks0 evs
  exact ⟨(h.priv e he).1, (h.priv e he).2, h.setting_cur e he, (h.setting_clean e he).1⟩

/-- **publish_only_with_current_keyspace** — whatever the event and whatever happened before: a connection
that enters the published list in a step has, at that moment, exactly the pool's current keyspace set at the
server (`none` = no keyspace was ever requested). Opened connections without it go through `setting`. -/
theorem publish_only_with_current_keyspace (perShard : Bool) (target : Nat) (ks0 : Option K)
    (evs : List (Ev K)) (e : Ev K) :
    let p := run (Pool.init perShard target ks0) evs
    ∀ j ∈ (step p e).conns, j ∉ p.conns → ((step p e).net j).serverKs = (step p e).currentKs := by
  intro p j hj hn
  exact publish_step (reachable_inv perShard target ks0 evs) e j hj hn

/-! ### user-issued `USE x` (a statement sent through `Session::query*`, session.rs:1465-1478)

The statement is written on ONE published connection; when the node acknowledges it that connection's keyspace
is `x` while the pool's current keyspace is still the old one. The session then calls `use_keyspace(x)` itself.
What holds: -/

/-- One-step fact (a direct unfolding of `step`): the user statement touches nothing but the connection it is written on: no other connection, no task, not
the pool's current keyspace, not the published list. -/
theorem user_use_is_local (p : Pool K) (i : Nat) (x : K) :
    let q := step p (.userUse i x)
    (∀ j, j ≠ i → q.net j = p.net j) ∧ q.tasks = p.tasks ∧ q.currentKs = p.currentKs ∧ q.conns = p.conns ∧
    q.setting = p.setting ∧ (q.net i).serverKs = (p.net i).serverKs := by
  simp only [step]
  split
  · refine ⟨fun j hj => by simp [setConn, hj], rfl, rfl, rfl, rfl, by simp [setConn]⟩
  · exact ⟨fun _ _ => rfl, rfl, rfl, rfl, rfl, rfl⟩

/-- One-step fact (a direct unfolding of `step`). The user statement marks the connection (`published_has_keyspace` then claims nothing about it), and the mark is removed
exactly when the newest use-keyspace task writes its own `USE` behind it: from then on the connection is
covered again, and FIFO order guarantees the task's keyspace wins. So after the session's follow-up
`use_keyspace(x)` has been answered Ok, `published_has_keyspace` covers every published live connection on
which no further user `USE` was written. -/
theorem newest_submit_clears_mark (p : Pool K) (L : Keyspace.Task K) (rest : List (Keyspace.Task K)) (i : Nat)
    (ht : p.tasks = L :: rest) (hal : L.resp = none) (hin : i ∈ L.snapshot) (hns : i ∉ L.submitted)
    (hb : (p.net i).broken = false) :
    let q := step p (.taskSubmit L.id i)
    (q.net i).unclaimed = false ∧ (q.net i).queue = (p.net i).queue ++ [(.task L.id, L.ks)] := by
  simp only [step, findTask, ht, List.find?_cons, decide_true, List.head?_cons, Option.map_some, beq_self_eq_true,
    hal, Option.isSome_none, List.contains_eq_mem, hin, hns, decide_false, decide_true,
    Bool.not_true, Bool.or_self, Bool.false_eq_true, ↓reduceIte, hb, setConn]
  exact ⟨trivial, trivial⟩

/-! ### the in-order assumption, isolated -/

/-- One-step fact: with at most one statement in flight on a connection the node cannot answer out of order
there — once the prefix ahead of the newest `USE` has drained, the in-order assumption is vacuous for it. -/
theorem out_of_order_impossible_when_prefix_drained (p : Pool K) (i j : Nat) (r : SrvReply K)
    (h : (p.net i).queue.length ≤ 1) : step p (.serveOoo i j r) = p := by
  simp only [step]
  have : (p.net i).queue[j + 1]? = none := List.getElem?_eq_none (by omega)
  rw [this]

/-- One-step fact: an out-of-order answer marks the connection (nothing is claimed about it afterwards). -/
theorem out_of_order_answer_marks (p : Pool K) (i j : Nat) (r : SrvReply K) (e : Waiter × K)
    (h : (p.net i).queue[j + 1]? = some e) : ((step p (.serveOoo i j r)).net i).unclaimed = true := by
  obtain ⟨w, k⟩ := e
  simp only [step, h]
  cases w with
  | user => simp [setConn]
  | task tid =>
    simp only
    split
    · simp [setConn]
    · split <;> simp [setConn]

/-- Only a user-issued `USE` and an out-of-order answer set the mark. -/
theorem unclaimed_only_by_user_use_or_out_of_order (p : Pool K) (e : Ev K)
    (h : ∀ i, (p.net i).unclaimed = false) (he : ∀ i j r, e ≠ .serveOoo i j r) (hu : ∀ i x, e ≠ .userUse i x) :
    ∀ i, ((step p e).net i).unclaimed = false :=
  unclaimed_step h e he hu

/-- Under the assumption that the node answers the statements of every connection in order (no `serveOoo`
event) and without user-issued `USE` statements, no connection is ever marked: `published_has_keyspace` then
covers every published live connection. -/
theorem in_order_server_claims_every_connection (perShard : Bool) (target : Nat) (ks0 : Option K)
    (evs : List (Ev K)) (hfifo : ∀ e ∈ evs, (∀ i j r, e ≠ .serveOoo i j r) ∧ (∀ i x, e ≠ .userUse i x)) :
    ∀ i, ((run (Pool.init perShard target ks0) evs).net i).unclaimed = false := by
  unfold run
  have base : ∀ i, ((Pool.init perShard target ks0 : Pool K).net i).unclaimed = false := fun _ => rfl
  generalize (Pool.init perShard target ks0 : Pool K) = p0 at base
  induction evs generalizing p0 with
  | nil => exact base
  | cons e es ih =>
    simp only [List.foldl_cons]
    apply ih (fun e' he' => hfifo e' (List.mem_cons_of_mem _ he'))
    exact unclaimed_step base e (hfifo e List.mem_cons_self).1 (hfifo e List.mem_cons_self).2

/-- Without the assumption the property can fail, and the model shows how: request 0 (keyspace 1) times out with
its `USE` in flight; request 1 (keyspace 2) writes its own behind it; the node answers the NEWER one first and
request 1 returns Ok; then it executes the stale one: the published connection is back in keyspace 1. The
connection is marked, so the theorem (rightly) claims nothing. -/
private def evsLate : List (Ev Nat) :=
  [.refill, .opened 0 none none, .useKs 1, .taskSubmit 0 0, .taskTimeout 0, .useKs 2, .taskSubmit 1 0,
   .serveOoo 0 0 .ack, .taskFinish 1, .serve 0 .ack]
example : let p := run (Pool.init false 1 (none : Option Nat)) evsLate
    p.overlap = false ∧ (p.latest.map (·.resp)) = some (some .ok) ∧ p.currentKs = some 2 ∧ p.conns = [0] ∧
    (p.net 0).broken = false ∧ (p.net 0).queue = [] ∧ (p.net 0).serverKs = some 1 ∧
    (p.net 0).unclaimed = true := by decide

/-! non-vacuity: a use-keyspace request races with a refill. The connection opened meanwhile (id 1) is held in
`setting` until the server acknowledged the keyspace, and only then published. -/
private def evsA : List (Ev Nat) :=
  [.refill, .opened 0 none none, .refill, .useKs 7, .opened 0 none none, .taskSubmit 0 0, .serve 0 .ack,
   .taskFinish 0, .ksSet 1 .ack]

example : let p := run (Pool.init false 2 (none : Option Nat)) evsA
    p.overlap = false ∧ (p.latest.map (·.resp)) = some (some .ok) ∧ p.conns = [0, 1] ∧
    (p.net 0).serverKs = some 7 ∧ (p.net 1).serverKs = some 7 ∧ (p.net 1).acked = [7] ∧
    (p.net 0).queue = [] ∧ (p.net 0).unclaimed = false := by decide

example : let p := run (Pool.init false 2 (none : Option Nat)) evsA.dropLast
    (p.latest.map (·.resp)) = some (some .ok) ∧ p.conns = [0] ∧ p.setting = [(1, 7, none)] ∧
    (p.net 1).serverKs = none := by decide

/-- connection 0 breaks while the `USE` is on it, the other acknowledges: Ok, and the broken one leaves -/
private def evsBreak : List (Ev Nat) :=
  [.refill, .opened 0 none none, .refill, .opened 0 none none, .useKs 3, .taskSubmit 0 0, .taskSubmit 0 1,
   .breakConn 0, .serve 0 .ack, .serve 1 .ack, .taskFinish 0, .connError 0]
example : let p := run (Pool.init false 2 (none : Option Nat)) evsBreak
    (p.latest.map (·.resp)) = some (some .ok) ∧ p.conns = [1] ∧ (p.net 1).serverKs = some 3 := by decide

/-- The hypothesis `overlap = false` is needed (and is what the documentation of `Session::use_keyspace` asks
for): two overlapping requests, both answered Ok, can leave a live published connection in the OTHER keyspace
(the second task writes its `USE` first). -/
private def evsOverlap : List (Ev Nat) :=
  [.refill, .opened 0 none none, .useKs 1, .useKs 2, .taskSubmit 1 0, .taskSubmit 0 0, .serve 0 .ack, .serve 0 .ack,
   .taskFinish 0, .taskFinish 1]
example : let p := run (Pool.init false 1 (none : Option Nat)) evsOverlap
    p.overlap = true ∧ p.tasks.map (·.resp) = [some .ok, some .ok] ∧ p.currentKs = some 2 ∧ p.conns = [0] ∧
    (p.net 0).broken = false ∧ (p.net 0).serverKs = some 1 ∧ (p.net 0).queue = [] := by decide

/-- ... and the ghost is NOT sticky: once the overlap has drained, the next request (arriving with nothing
unanswered) has `overlap = false` again and the theorem applies to it - the history went through an overlap
and recovered. -/
private def evsRecover : List (Ev Nat) := evsOverlap ++ [.useKs 3, .taskSubmit 2 0, .serve 0 .ack, .taskFinish 2]
example : let p := run (Pool.init false 1 (none : Option Nat)) evsRecover
    p.overlap = false ∧ (p.latest.map (·.resp)) = some (some .ok) ∧ p.currentKs = some 3 ∧ p.conns = [0] ∧
    (p.net 0).broken = false ∧ (p.net 0).unclaimed = false ∧ (p.net 0).serverKs = some 3 ∧
    (p.net 0).queue = [] := by decide

/-- A `USE` left in flight by a timed-out request is representable and is served BEFORE the next request's
(FIFO): request 0 (keyspace 1) times out with its `USE` unanswered, request 1 (keyspace 2, no overlap) writes its
own behind it; the node answers both in order; the connection ends in keyspace 2, both acknowledged. -/
private def evsStale : List (Ev Nat) :=
  [.refill, .opened 0 none none, .useKs 1, .taskSubmit 0 0, .taskTimeout 0, .useKs 2, .taskSubmit 1 0]
example : let p := run (Pool.init false 1 (none : Option Nat)) evsStale
    p.overlap = false ∧ p.tasks.map (·.resp) = [none, some (.err .timeout)] ∧
    (p.net 0).queue = [(.task 0, 1), (.task 1, 2)] ∧ (p.net 0).serverKs = none := by decide
private def evsStale2 : List (Ev Nat) := evsStale ++ [.serve 0 .ack, .serve 0 .ack, .taskFinish 1]
example : let p := run (Pool.init false 1 (none : Option Nat)) evsStale2
    p.overlap = false ∧ p.tasks.map (·.resp) = [some .ok, some (.err .timeout)] ∧
    (p.net 0).queue = [] ∧ (p.net 0).serverKs = some 2 ∧ (p.net 0).acked = [1, 2] := by decide

/-- A user `USE 9` on the published connection: until the follow-up request it is in keyspace 9 while the pool's
current keyspace is 5 (marked, so nothing is claimed); the session's `use_keyspace(9)` brings everything back. -/
private def evsUser : List (Ev Nat) :=
  [.refill, .opened 0 none none, .useKs 5, .taskSubmit 0 0, .serve 0 .ack, .taskFinish 0, .userUse 0 9, .serve 0 .ack]
example : let p := run (Pool.init false 1 (none : Option Nat)) evsUser
    p.overlap = false ∧ (p.latest.map (·.resp)) = some (some .ok) ∧ p.currentKs = some 5 ∧
    (p.net 0).serverKs = some 9 ∧ (p.net 0).unclaimed = true := by decide
private def evsUser2 : List (Ev Nat) := evsUser ++ [.useKs 9, .taskSubmit 1 0, .serve 0 .ack, .taskFinish 1]
example : let p := run (Pool.init false 1 (none : Option Nat)) evsUser2
    p.overlap = false ∧ (p.latest.map (·.resp)) = some (some .ok) ∧ p.currentKs = some 9 ∧
    (p.net 0).serverKs = some 9 ∧ (p.net 0).unclaimed = false ∧ (p.net 0).queue = [] := by decide

/-- A request whose `USE` the server rejects on one connection is answered with the error, and that
connection stays published in its old keyspace (a failed call may leave the pool mixed - as documented). -/
private def evsReject : List (Ev Nat) :=
  [.refill, .opened 0 none none, .ksSet 0 .ack, .refill, .opened 0 none none, .ksSet 1 .ack,
   .useKs 2, .taskSubmit 0 0, .taskSubmit 0 1, .serve 0 .ack, .serve 1 .dbError, .taskFinish 0]
example : let p := run (Pool.init false 2 (some 1 : Option Nat)) evsReject
    (p.latest.map (·.resp)) = some (some (.err .dbError)) ∧ p.conns = [0, 1] ∧
    (p.net 0).serverKs = some 2 ∧ (p.net 1).serverKs = some 1 := by decide

/-- The refiller's other paths: a requested-shard miss blocks advanced shard awareness and the connection is
dropped and retried; an unrequested connection to a full shard is kept as excess until the pool is full; a
sharder change throws the published connections away. In all of them nothing is published without the
current keyspace. -/
private def evsPaths : List (Ev Nat) :=
  [.useKs 4, .refill, .opened 0 (some 2) none, .ksSet 0 .ack, .refill, .opened 0 (some 2) (some 1), .ksSet 1 .ack,
   .opened 0 (some 2) none, .ksSet 2 .ack]
example : let p := run (Pool.init true 1 (none : Option Nat)) evsPaths
    p.conns = [0] ∧ p.blocked = true ∧ (p.net 1).broken = true ∧ p.excess = [2] ∧ p.opening = 0 ∧
    (p.net 2).serverKs = some 4 := by decide
private def evsPaths2 : List (Ev Nat) :=
  evsPaths ++ [.refill, .opened 1 (some 2) none, .ksSet 3 .ack, .breakConn 3, .connError 3, .refill,
    .opened 0 (some 3) none, .ksSet 4 .ack]
example : let p := run (Pool.init true 1 (none : Option Nat)) evsPaths2
    p.sharder = some 3 ∧ p.conns = [4] ∧ p.excess = [] ∧ (p.net 4).serverKs = some 4 := by decide

/-! ## D. The cluster worker: use-keyspace requests, their fan-out over the known nodes, deliveries to the
nodes' refillers in any order, every pool event of every node, node addition and removal -/

theorem cluster_reachable_inv (perShard : Bool) (target : Nat) (evs : List (CEv K)) :
    CInv (crun (Cluster.init perShard target : Cluster K) evs) :=
  cinv_run (cinv_init perShard target) evs

/-- Every node's pool, in every reachable cluster state, satisfies the pool invariant: the theorems of §C
hold for each node (a pool only ever moves by `step`). -/
theorem cluster_pools_inv (perShard : Bool) (target : Nat) (evs : List (CEv K)) (n : Nat) :
    Inv ((crun (Cluster.init perShard target : Cluster K) evs).pools n) :=
  (cluster_reachable_inv perShard target evs).pools n

/-- **new_nodes_inherit**: `node_config.used_keyspace` is the keyspace of the newest request the worker has
handled, and a node created by a metadata application gets a pool whose current keyspace is that one, with no
request pending: by `publish_only_with_current_keyspace` / `published_has_initial_keyspace` it never publishes
a connection without it. -/
theorem new_nodes_inherit (perShard : Bool) (target : Nat) (evs : List (CEv K)) (ps : Bool) (tg : Nat) :
    let c := crun (Cluster.init perShard target : Cluster K) evs
    let c' := cstep c (.addNode ps tg false)
    c.usedKs = c.fanouts.head?.map (·.ks) ∧ c'.known = c.known ++ [c.nNodes] ∧
    c'.pools c.nNodes = Pool.init ps tg c.usedKs ∧ (c'.pools c.nNodes).currentKs = c.usedKs ∧
    (c'.pools c.nNodes).tasks = [] := by
  intro c c'
  refine ⟨(cluster_reachable_inv perShard target evs).used, rfl, ?_, ?_, ?_⟩ <;>
    simp [c', cstep, setPool, Pool.init]

/-- **cluster_success_means_all_acked** (no discipline assumed): when a `Session::use_keyspace(k)` fan-out has
been answered Ok, every node that was known when the worker handled the request has a pool task for `k` that
answered Ok (or with a broken-connection error: then every connection of that pool was broken), and every
connection that was published in that pool when the request reached it and is not broken has acknowledged
`USE k`. -/
theorem cluster_success_means_all_acked (perShard : Bool) (target : Nat) (evs : List (CEv K)) :
    let c := crun (Cluster.init perShard target : Cluster K) evs
    ∀ f ∈ c.fanouts, f.resp = some .ok → ∀ n ∈ f.nodes,
      ∃ t ∈ (c.pools n).tasks, t.ks = f.ks ∧ (t.resp = some .ok ∨ t.resp = some (.err .broken)) ∧
        ∀ i ∈ t.snapshot, ((c.pools n).net i).broken = false → f.ks ∈ ((c.pools n).net i).acked := by
  intro c f hf hr n hn
  have hc := cluster_reachable_inv perShard target evs
  obtain ⟨t, ht, hks, hresp⟩ := hc.fan f hf hr n hn
  refine ⟨t, ht, hks, hresp, fun i hi hb => ?_⟩
  rw [← hks]
  exact (hc.pools n).res_ok t ht i (results_ok_of_resp (hc.pools n) t ht hresp i hi hb)

/-- **cluster_published_has_keyspace** — the property at session level. For every interleaving of
`Session::use_keyspace` requests, their deliveries to the nodes' refillers (in any order), every pool / task /
network event of every node, node addition and removal: if no two fan-outs overlapped (the documented usage)
and the newest one, for keyspace `k`, has been answered Ok, then every published connection of every known node
that is not broken has `k` set at the server — nodes added after the request included (`new_nodes_inherit`).
It holds in every later state until the next request, hence for every later session request.
The link (Proofs/KeyspaceCluster.lean, `CStrong`): a fan-out issues at most one pool request per node and is
answered only after all of them, so non-overlapping fan-outs give non-overlapping requests in every pool, and
the newest task of every pool known to the fan-out is the fan-out's. -/
theorem cluster_published_has_keyspace (perShard : Bool) (target : Nat) (evs : List (CEv K)) :
    let c := crun (Cluster.init perShard target : Cluster K) evs
    c.overlap = false → ∀ F, c.fanouts.head? = some F → F.resp = some .ok →
      ∀ n ∈ c.known, ∀ i ∈ (c.pools n).conns, ((c.pools n).net i).broken = false →
        ((c.pools n).net i).unclaimed = false →
        ((c.pools n).net i).serverKs = some F.ks ∧ ((c.pools n).net i).queue = [] := by
  intro c hov F hF hr
  obtain ⟨h1, h2, _, h4⟩ := cluster_run_invs perShard target evs
  exact cluster_published h1 h2 (h4 hov) F hF hr

/-- **fanout_targets_every_known_node**. The worker's use-keyspace arm addresses `known_nodes.values()`
(cluster/worker.rs:378-381): the target set of the fan-out is the list of ALL known nodes, taken when the request is
handled. The model has no notion of tokens, rings or replicas: whether a node owns tokens (a coordinator-only node owns
none and is absent from `locator.unique_nodes_in_global_ring()`) cannot restrict the set. Together with
`cluster_published_has_keyspace` (which ranges over `n ∈ c.known`): after Ok every known node with a pool has
acknowledged, token owner or not. -/
theorem fanout_targets_every_known_node (c : Cluster K) (k : K) :
    (cstep c (.useKs k)).fanouts.head?.map (·.nodes) = some c.known ∧
    (cstep c (.useKs k)).fanouts.head?.map (·.resp) = some none ∧ (cstep c (.useKs k)).known = c.known := ⟨rfl, rfl, rfl⟩

/-- The fan-out is answered only when EVERY node of its target set has answered: a request that reached only some
of the known nodes stays unanswered (`join_all`). -/
theorem fanout_waits_for_every_known_node (c : Cluster K) (fid : Nat) (F : Fanout K)
    (hF : c.fanouts.find? (·.id = fid) = some F) (n : Nat) (hn : n ∈ F.nodes) (hun : c.nodeAnswer F n = none) :
    cstep c (.fanoutFinish fid) = c := by
  simp only [cstep, hF]
  have : (F.nodes.all fun n => (c.nodeAnswer F n).isSome) = false := by
    rw [List.all_eq_false]
    exact ⟨n, hn, by simp [hun]⟩
  simp [this]

private def cevsTokenless : List (CEv Nat) :=
  [.addNode false 1 false, .addNode false 1 false, .pool 0 .refill, .pool 0 (.opened 0 none none),
   .pool 1 .refill, .pool 1 (.opened 0 none none), .useKs 5, .deliver 0 0, .pool 0 (.taskSubmit 0 0),
   .pool 0 (.serve 0 .ack), .pool 0 (.taskFinish 0), .fanoutFinish 0]
/-- Two known nodes (say node 1 owns no tokens): while node 1 has not answered, the call is not answered. -/
example : let c := crun (Cluster.init false 1 : Cluster Nat) cevsTokenless
    c.fanouts.map (·.resp) = [none] ∧ c.fanouts.map (·.nodes) = [[0, 1]] ∧ ((c.pools 1).net 0).serverKs = none := by decide
private def cevsTokenless2 : List (CEv Nat) :=
  cevsTokenless ++ [.deliver 0 1, .pool 1 (.taskSubmit 0 0), .pool 1 (.serve 0 .ack), .pool 1 (.taskFinish 0), .fanoutFinish 0]
example : let c := crun (Cluster.init false 1 : Cluster Nat) cevsTokenless2
    c.fanouts.map (·.resp) = [some .ok] ∧ ((c.pools 1).net 0).serverKs = some 5 := by decide

/-- **working_connection_is_published**: the third hand-out path, `get_working_connections`
(`Session::prepare`'s fallback, schema agreement, `iter_working_connections_per_node`), hands out exactly the
published connections - never an excess one, never one whose keyspace is still being set. -/
theorem working_connection_is_published (p : Pool K) (i : Nat) : i ∈ p.workingConnections ↔ i ∈ p.conns :=
  mem_byShard p i

/-- **working_connections_have_keyspace**: after an Ok fan-out (not overlapped), every connection
`get_working_connections` returns on any known node - where a PREPARE, a re-prepare's sibling or a schema-agreement read
is sent - is in the fan-out's keyspace (unless it is broken or the server still has an unanswered timed-out `USE` on it). -/
theorem working_connections_have_keyspace (perShard : Bool) (target : Nat) (evs : List (CEv K)) :
    let c := crun (Cluster.init perShard target : Cluster K) evs
    c.overlap = false → ∀ F, c.fanouts.head? = some F → F.resp = some .ok →
      ∀ n ∈ c.known, ∀ i ∈ (c.pools n).workingConnections, ((c.pools n).net i).broken = false →
        ((c.pools n).net i).unclaimed = false → ((c.pools n).net i).serverKs = some F.ks := by
  intro c hov F hF hr n hn i hi hb hu
  exact (cluster_published_has_keyspace perShard target evs hov F hF hr n hn i
    ((working_connection_is_published _ i).mp hi) hb hu).1

/-- Under the same hypothesis (the NEWEST fan-out did not overlap an older one - the ghost is re-evaluated at
every request, so past overlaps do not matter once drained) every pool that has received the fan-out's request
received it while none of its own requests was unanswered: `published_has_keyspace` applies to it. -/
theorem cluster_no_pool_overlap (perShard : Bool) (target : Nat) (evs : List (CEv K)) :
    let c := crun (Cluster.init perShard target : Cluster K) evs
    c.overlap = false → ∀ F, c.fanouts.head? = some F → ∀ n tid, F.sent.lookup n = some tid →
      (c.pools n).overlap = false ∧ ∃ L, (c.pools n).latest = some L ∧ L.id = tid := by
  intro c hov F hF n tid hl
  have hs := (cluster_run_invs perShard target evs).2.2.2 hov
  unfold CStrong at hs
  cases hfs : c.fanouts with
  | nil => rw [hfs] at hF; cases hF
  | cons F' rest =>
    rw [hfs] at hF hs
    simp only [List.head?_cons, Option.some.injEq] at hF
    subst hF
    exact hs.2.1 n tid hl

private def cevs : List (CEv Nat) :=
  [.addNode false 1 false, .pool 0 .refill, .pool 0 (.opened 0 none none), .useKs 5, .addNode false 1 false,
   .deliver 0 0, .pool 0 (.taskSubmit 0 0), .pool 0 (.serve 0 .ack), .pool 0 (.taskFinish 0), .fanoutFinish 0,
   .pool 1 .refill, .pool 1 (.opened 0 none none), .pool 1 (.ksSet 0 .ack)]

example : let c := crun (Cluster.init false 1 : Cluster Nat) cevs
    c.overlap = false ∧ c.fanouts.map (·.resp) = [some .ok] ∧ c.known = [0, 1] ∧ (c.pools 1).currentKs = some 5 ∧
    (c.pools 0).conns = [0] ∧ ((c.pools 0).net 0).serverKs = some 5 ∧
    (c.pools 1).conns = [0] ∧ ((c.pools 1).net 0).serverKs = some 5 := by decide

/-- The cluster-level ghost is not sticky either: two overlapping `Session::use_keyspace` calls (flag set, the
theorem silent), then, once both are answered, a third one: flag clear again, and the theorem applies. -/
private def cevsRecover : List (CEv Nat) :=
  [.addNode false 1 false, .pool 0 .refill, .pool 0 (.opened 0 none none), .useKs 1, .useKs 2, .deliver 1 0, .deliver 0 0,
   .pool 0 (.taskSubmit 0 0), .pool 0 (.taskSubmit 1 0), .pool 0 (.serve 0 .ack), .pool 0 (.serve 0 .ack),
   .pool 0 (.taskFinish 0), .pool 0 (.taskFinish 1), .fanoutFinish 0, .fanoutFinish 1]
example : let c := crun (Cluster.init false 1 : Cluster Nat) cevsRecover
    c.overlap = true ∧ (c.pools 0).overlap = true ∧ c.fanouts.map (·.resp) = [some .ok, some .ok] ∧
    c.usedKs = some 2 ∧ ((c.pools 0).net 0).serverKs = some 1 := by decide
private def cevsRecover2 : List (CEv Nat) :=
  cevsRecover ++ [.useKs 3, .deliver 2 0, .pool 0 (.taskSubmit 2 0), .pool 0 (.serve 0 .ack), .pool 0 (.taskFinish 2),
    .fanoutFinish 2]
example : let c := crun (Cluster.init false 1 : Cluster Nat) cevsRecover2
    c.overlap = false ∧ (c.pools 0).overlap = false ∧ (c.fanouts.head?.map (·.resp)) = some (some .ok) ∧
    c.known = [0] ∧ (c.pools 0).conns = [0] ∧ ((c.pools 0).net 0).unclaimed = false ∧
    ((c.pools 0).net 0).serverKs = some 3 ∧ ((c.pools 0).net 0).queue = [] := by decide

/-- **timeout_on_any_node_fails_the_call**: a pool that times out on `USE` is NOT torn down - its connections
stay published without the keyspace - so the fan-out must not tolerate it: if the pool task that a fan-out
delivered to ANY of its nodes was answered with anything but Ok or a broken-connection error (a timeout, a
server error, a name mismatch), the fan-out - hence `Session::use_keyspace` - is not answered Ok. -/
theorem timeout_on_any_node_fails_the_call (perShard : Bool) (target : Nat) (evs : List (CEv K)) :
    let c := crun (Cluster.init perShard target : Cluster K) evs
    ∀ f ∈ c.fanouts, ∀ n ∈ f.nodes, ∀ t ∈ (c.pools n).tasks, f.sent.lookup n = some t.id →
      ∀ e, t.resp = some (.err e) → e ≠ .broken → f.resp ≠ some .ok := by
  intro c f hf n hn t ht hl e hr hne hok
  obtain ⟨h1, h2, _, _⟩ := cluster_run_invs perShard target evs
  obtain ⟨t', ht', hl', hresp⟩ := h2.fan_id f hf hok n hn
  rw [hl] at hl'
  simp only [Option.some.injEq] at hl'
  have : t = t' := unique_id (h1.pools n).ids ht ht' hl'
  subst this
  rw [hr] at hresp
  rcases hresp with h3 | h3
  · cases h3
  · simp only [Option.some.injEq, Outcome.err.injEq] at h3; exact hne h3

/-- non-vacuity: two nodes; node 1 does not answer the `USE` (its pool task times out, its connection stays
published in no keyspace), node 0 acknowledges: the fan-out is answered with the timeout error, not Ok. -/
private def cevsTimeout : List (CEv Nat) :=
  [.addNode false 1 false, .addNode false 1 false, .pool 0 .refill, .pool 0 (.opened 0 none none), .pool 1 .refill,
   .pool 1 (.opened 0 none none), .useKs 5, .deliver 0 0, .deliver 0 1, .pool 0 (.taskSubmit 0 0),
   .pool 1 (.taskSubmit 0 0), .pool 0 (.serve 0 .ack), .pool 0 (.taskFinish 0), .pool 1 (.taskTimeout 0), .fanoutFinish 0]
example : let c := crun (Cluster.init false 1 : Cluster Nat) cevsTimeout
    c.fanouts.map (·.resp) = [some (.err .timeout)] ∧ (c.pools 1).conns = [0] ∧
    ((c.pools 1).net 0).serverKs = none ∧ ((c.pools 0).net 0).serverKs = some 5 := by decide

/-- **filtered_nodes_have_no_connections**: a node the host filter rejects has no pool (`Node::use_keyspace`
answers Ok for it at once, node.rs:305-313): nothing ever happens there, in particular no request can be handed a
connection to it. A fan-out may therefore be answered Ok although every REAL pool answered with a
broken-connection error - i.e. with no connection having acknowledged the keyspace; this does not contradict the
property: those connections are broken (they are leaving their pools), every pool has recorded the keyspace
(`new_nodes_inherit`, `publish_only_with_current_keyspace`), so whatever is published afterwards carries it. -/
theorem filtered_nodes_have_no_connections (perShard : Bool) (target : Nat) (evs : List (CEv K)) :
    let c := crun (Cluster.init perShard target : Cluster K) evs
    ∀ n ∈ c.filtered, (c.pools n).conns = [] ∧ (c.pools n).setting = [] ∧ (c.pools n).opening = 0 := by
  intro c
  suffices h : ∀ (c0 : Cluster K) (es : List (CEv K)),
      (∀ n ∈ c0.filtered, n < c0.nNodes ∧ (c0.pools n).conns = [] ∧ (c0.pools n).setting = [] ∧ (c0.pools n).opening = 0) →
      ∀ n ∈ (crun c0 es).filtered, n < (crun c0 es).nNodes ∧ ((crun c0 es).pools n).conns = [] ∧
        ((crun c0 es).pools n).setting = [] ∧ ((crun c0 es).pools n).opening = 0 from
    fun n hn => (h _ evs (by intro n hn; simp [Cluster.init] at hn) n hn).2
  intro c0 es
  unfold crun
  induction es generalizing c0 with
  | nil => intro h; exact h
  | cons e es ih =>
    intro h0
    apply ih
    cases e with
    | useKs k => exact h0
    | deliver fid m =>
      simp only [cstep]
      split
      · exact h0
      · split
        · exact h0
        · intro n hn
          have := h0 n hn
          simp only [setPool]
          split
          · rename_i hnm; subst hnm; simp only [step]; exact this
          · exact this
    | pool m e =>
      simp only [cstep]
      split
      · exact h0
      · rename_i hcond
        simp only [Bool.or_eq_true, decide_eq_true_eq, not_or, Bool.not_eq_true, List.contains_eq_mem,
          decide_eq_false_iff_not] at hcond
        intro n hn
        have := h0 n hn
        simp only [setPool]
        split
        · rename_i hnm; subst hnm; exact absurd hn hcond.2
        · exact this
    | addNode ps tg filt =>
      simp only [cstep]
      intro n hn
      have hold : ∀ m ∈ c0.filtered, m < c0.nNodes + 1 ∧ (setPool c0.pools c0.nNodes (Pool.init ps tg c0.usedKs) m).conns = [] ∧
          (setPool c0.pools c0.nNodes (Pool.init ps tg c0.usedKs) m).setting = [] ∧
          (setPool c0.pools c0.nNodes (Pool.init ps tg c0.usedKs) m).opening = 0 := by
        intro m hm
        have := h0 m hm
        simp only [setPool]
        rw [if_neg (by omega)]
        exact ⟨by omega, this.2⟩
      cases filt with
      | false => simp only [Bool.false_eq_true, ↓reduceIte] at hn; exact hold n hn
      | true =>
        simp only [↓reduceIte, List.mem_cons] at hn
        rcases hn with rfl | hn
        · simp [setPool, Pool.init]
        · exact hold n hn
    | removeNode m => exact h0
    | fanoutFinish fid =>
      simp only [cstep]
      split
      · exact h0
      · split <;> exact h0

/-- non-vacuity, and the history asked for: node 0 has a pool whose only connection breaks just before the `USE`
is written (the pool answers with a broken-connection error), node 1 is host-filtered (answers Ok at once): the
fan-out is answered Ok with NO connection having acknowledged keyspace 5. The refilled connection of node 0 is
published with keyspace 5. -/
private def cevsFiltered : List (CEv Nat) :=
  [.addNode false 1 false, .addNode false 1 true, .pool 0 .refill, .pool 0 (.opened 0 none none),
   .pool 1 .refill, .useKs 5, .deliver 0 0, .deliver 0 1, .pool 0 (.breakConn 0), .pool 0 (.taskSubmit 0 0),
   .pool 0 (.taskFinish 0), .fanoutFinish 0]
example : let c := crun (Cluster.init false 1 : Cluster Nat) cevsFiltered
    c.filtered = [1] ∧ (c.pools 1).opening = 0 ∧ c.fanouts.map (·.resp) = [some .ok] ∧
    (c.pools 0).tasks.map (·.resp) = [some (.err .broken)] ∧ (c.pools 1).tasks.map (·.resp) = [some .ok] ∧
    ((c.pools 0).net 0).acked = [] := by decide
private def cevsFiltered2 : List (CEv Nat) :=
  cevsFiltered ++ [.pool 0 (.connError 0), .pool 0 .refill, .pool 0 (.opened 0 none none), .pool 0 (.ksSet 1 .ack)]
example : let c := crun (Cluster.init false 1 : Cluster Nat) cevsFiltered2
    (c.pools 0).conns = [1] ∧ ((c.pools 0).net 1).serverKs = some 5 := by decide

/-! ## E. The session layer: `Session::use_keyspace` as the code has it (store the name, validate, fan out)

The name is stored in `Session.keyspace_name` BEFORE it is validated and before anything is acknowledged; the
stored name is never consulted. The theorems below say that no call is answered from what an earlier call left
behind: an invalid name is rejected every time, and an Ok answer is the answer of the call's OWN fan-out, whose
own `USE` statements were written and acknowledged. -/

/-- One-step fact (a direct unfolding of `sstep`). **An invalid name is rejected every time**, whatever the session has recorded (the very same name included):
the call returns the validation error at once and nothing happens in the cluster - no fan-out, no pool request,
no statement written on any connection. (The name IS stored: `get_keyspace` reports it - a wart, not a send.) -/
theorem session_invalid_name_rejected_every_time (s : Session) (name : String) (cs : Bool) (e : BadName)
    (h : VerifiedName.new name cs = .error e) :
    let s' := sstep s (.call name cs)
    s'.cluster = s.cluster ∧ s'.calls = ⟨name, cs, .rejected e⟩ :: s.calls ∧ s'.recorded = some name := by
  simp only [sstep, h]
  exact ⟨trivial, trivial, trivial⟩

/-- One-step fact (a direct unfolding of `sstep`). **Every call with a valid name starts its own fan-out**, whatever the session has recorded (the very same
name included, whether the earlier call succeeded, failed, timed out or is still running, and whatever the
flag): the worker handles a fresh request for exactly this (name, flag), with a fresh id. -/
theorem session_call_starts_its_own_fanout (s : Session) (name : String) (cs : Bool) (v : VerifiedName)
    (h : VerifiedName.new name cs = .ok v) :
    let s' := sstep s (.call name cs)
    v = ⟨name, cs⟩ ∧ s'.cluster = cstep s.cluster (.useKs ⟨name, cs⟩) ∧
    s'.calls = ⟨name, cs, .fanout s.cluster.fanouts.length⟩ :: s.calls ∧
    s'.cluster.fanouts.length = s.cluster.fanouts.length + 1 ∧
    (s'.cluster.fanouts.head?.map fun f => (f.id, f.ks, f.sent, f.resp)) =
      some (s.cluster.fanouts.length, ⟨name, cs⟩, [], none) := by
  have hv := verifiedName_new_ok h
  subst hv
  simp only [sstep, h, cstep, List.length_cons, List.head?_cons, Option.map_some]
  exact ⟨trivial, trivial, trivial, trivial, trivial⟩

/-- Different calls never share a fan-out, and different fan-outs never share a pool task. -/
theorem session_calls_have_distinct_fanouts (perShard : Bool) (target : Nat) (evs : List SEv) :
    let s := srun (Session.init perShard target) evs
    (s.calls.Pairwise fun a b => ∀ fid, a.outcome = .fanout fid → b.outcome ≠ .fanout fid) ∧
    ∀ f ∈ s.cluster.fanouts, ∀ f' ∈ s.cluster.fanouts, ∀ n tid,
      f.sent.lookup n = some tid → f'.sent.lookup n = some tid → f.id = f'.id := by
  intro s
  refine ⟨(sinv_run perShard target evs).distinct, ?_⟩
  obtain ⟨cevs, hc⟩ := srun_cluster perShard target evs
  show SentInj s.cluster
  rw [hc]; exact sentInj_run perShard target cevs

/-- **session_ok_means_own_use_acked**: for every history of calls (repeated names, any flags, invalid names,
overlapping calls) and cluster events: a call that has been answered Ok owns a fan-out for exactly its (name,
flag) that was answered Ok; on every node known when the worker handled the call there is a pool task created
by THIS fan-out's delivery (shared with no other fan-out) that was answered Ok or with a broken-connection
error; and every connection published in that pool when the request arrived, unless broken, had this task's
own `USE` written on it and acknowledged. No call is answered from a previous call's state. -/
theorem session_ok_means_own_use_acked (perShard : Bool) (target : Nat) (evs : List SEv) :
    let s := srun (Session.init perShard target) evs
    ∀ c ∈ s.calls, s.answer c = some .ok →
      ∃ f ∈ s.cluster.fanouts, c.outcome = .fanout f.id ∧ f.ks = ⟨c.name, c.caseSensitive⟩ ∧ f.resp = some .ok ∧
        ∀ n ∈ f.nodes, ∃ t ∈ (s.cluster.pools n).tasks,
          f.sent.lookup n = some t.id ∧ t.ks = f.ks ∧ (t.resp = some .ok ∨ t.resp = some (.err .broken)) ∧
          (∀ f' ∈ s.cluster.fanouts, f'.sent.lookup n = some t.id → f'.id = f.id) ∧
          ∀ i ∈ t.snapshot, ((s.cluster.pools n).net i).broken = false →
            i ∈ t.submitted ∧ t.results.lookup i = some (.ok ()) ∧ f.ks ∈ ((s.cluster.pools n).net i).acked := by
  intro s c hc hans
  have hsi := sinv_run perShard target evs
  obtain ⟨cevs, hcl⟩ := srun_cluster perShard target evs
  obtain ⟨h1, h2, _, _⟩ := cluster_run_invs perShard target cevs
  have hinj := sentInj_run (K := VerifiedName) perShard target cevs
  rw [← hcl] at h1 h2 hinj
  unfold Session.answer at hans
  cases hout : c.outcome with
  | rejected e => rw [hout] at hans; cases hans
  | fanout fid =>
    rw [hout] at hans
    simp only at hans
    cases hfind : s.cluster.fanouts.find? (·.id = fid) with
    | none => rw [hfind] at hans; cases hans
    | some f =>
      rw [hfind] at hans
      simp only [Option.bind_some] at hans
      have hfm := List.mem_of_find?_eq_some hfind
      have hfid : f.id = fid := by simpa using List.find?_some hfind
      obtain ⟨_, f2, hf2, hid2, hks2⟩ := hsi.owns c hc fid hout
      have : f2 = f := unique_fid h1.fids hf2 hfm (by rw [hid2, hfid])
      subst this
      refine ⟨f2, hfm, by rw [hfid], hks2, hans, fun n hn => ?_⟩
      obtain ⟨t, ht, hl, hresp⟩ := h2.fan_id f2 hfm hans n hn
      obtain ⟨t2, ht2, hid', hks'⟩ := h1.sent f2 hfm n t.id hl
      have : t2 = t := unique_id (h1.pools n).ids ht2 ht hid'
      subst this
      refine ⟨t2, ht, hl, hks', hresp, fun f' hf' hl' => hinj f' hf' f2 hfm n t2.id hl' hl, fun i hi hb => ?_⟩
      have hok := results_ok_of_resp (h1.pools n) t2 ht hresp i hi hb
      refine ⟨(h1.pools n).res_sub t2 ht i _ hok, hok, ?_⟩
      rw [← hks']
      exact (h1.pools n).res_ok t2 ht i hok

/-- The session's cluster is a cluster of §D: all its theorems apply - in particular, when the newest call's
fan-out did not overlap an older one and was answered Ok, every published live connection of every known node
has the keyspace (`cluster_published_has_keyspace`). -/
theorem session_published_has_keyspace (perShard : Bool) (target : Nat) (evs : List SEv) :
    let s := srun (Session.init perShard target) evs
    s.cluster.overlap = false → ∀ F, s.cluster.fanouts.head? = some F → F.resp = some .ok →
      ∀ n ∈ s.cluster.known, ∀ i ∈ (s.cluster.pools n).conns, ((s.cluster.pools n).net i).broken = false →
        ((s.cluster.pools n).net i).unclaimed = false →
        ((s.cluster.pools n).net i).serverKs = some F.ks ∧ ((s.cluster.pools n).net i).queue = [] := by
  intro s
  obtain ⟨cevs, hcl⟩ := srun_cluster perShard target evs
  show s.cluster.overlap = false → _
  rw [hcl]
  exact cluster_published_has_keyspace perShard target cevs

/-! non-vacuity: `use_keyspace("ks")` is rejected by the server (the keyspace does not exist yet), the retry
with the SAME name gets its own fan-out (id 1), its own pool task (id 1), its own `USE`, and succeeds; an invalid
name passed twice is rejected twice. -/
private def ksName : VerifiedName := ⟨"ks", false⟩
private def sevs : List SEv :=
  [.cluster (.addNode false 1 false), .cluster (.pool 0 .refill), .cluster (.pool 0 (.opened 0 none none)),
   .call "ks" false, .cluster (.deliver 0 0), .cluster (.pool 0 (.taskSubmit 0 0)), .cluster (.pool 0 (.serve 0 .dbError)),
   .cluster (.pool 0 (.taskFinish 0)), .cluster (.fanoutFinish 0),
   .call "bad name" false, .call "bad name" false,
   .call "ks" false, .cluster (.deliver 1 0), .cluster (.pool 0 (.taskSubmit 1 0)), .cluster (.pool 0 (.serve 0 .ack)),
   .cluster (.pool 0 (.taskFinish 1)), .cluster (.fanoutFinish 1)]
example : let s := srun (Session.init false 1) sevs
    s.calls.map (·.outcome) = [.fanout 1, .rejected .illegalCharacter, .rejected .illegalCharacter, .fanout 0] ∧
    s.calls.map s.answer = [some .ok, none, none, some (.err .dbError)] ∧
    s.cluster.fanouts.map (·.sent) = [[(0, 1)], [(0, 0)]] ∧ s.cluster.overlap = false ∧
    ((s.cluster.pools 0).net 0).serverKs = some ksName ∧ ((s.cluster.pools 0).net 0).acked = [ksName] ∧
    s.recorded = some "ks" := by decide
/-- after the failed first call the name is already recorded although no connection is in the keyspace -/
example : let s := srun (Session.init false 1) (sevs.take 9)
    s.recorded = some "ks" ∧ s.calls.map s.answer = [some (.err .dbError)] ∧
    ((s.cluster.pools 0).net 0).serverKs = none := by decide

/-! ## F. Which connection a request is handed (`connection_for_shard`, `random_connection`)

Requests never look at anything but the published list: whatever the random choices, the connection handed out
is a published one - the shard's own when it has one. With §C this is the property's headline in its own terms:
every connection a request can be handed has acknowledged the keyspace. -/

private theorem chooseFrom_mem {l : List Nat} {r c : Nat} (h : chooseFrom l r = some c) : c ∈ l := by
  unfold chooseFrom at h
  split at h
  · cases h
  · exact List.mem_of_getElem? h

private theorem chooseFrom_some {l : List Nat} (r : Nat) (h : l ≠ []) : ∃ c, chooseFrom l r = some c := by
  unfold chooseFrom
  have hne : l.isEmpty = false := by cases l <;> simp_all
  rw [hne]
  simp only [Bool.false_eq_true, ↓reduceIte]
  have hlen : 0 < l.length := by cases l <;> simp_all
  exact ⟨l[r % l.length]'(Nat.mod_lt _ hlen), List.getElem?_eq_getElem _⟩

private theorem bucket_sub (p : Pool K) (s : Nat) : ∀ c ∈ p.bucket s, c ∈ p.conns :=
  fun c hc => (List.mem_filter.mp hc).1

private theorem tryShards_mem (p : Pool K) (ρ : Nat → Nat × Nat) (fuel k : Nat) (toTry : List Nat) (c : Nat)
    (h : p.tryShards ρ fuel k toTry = some c) : c ∈ p.conns := by
  induction fuel generalizing k toTry with
  | zero => simp [Pool.tryShards] at h
  | succ fuel ih =>
    simp only [Pool.tryShards] at h
    split at h
    · cases h
    · split at h
      · rename_i c' hc'
        simp only [Option.some.injEq] at h
        subst h
        exact bucket_sub p _ _ (chooseFrom_mem hc')
      · exact ih _ _ h

/-- **handed_connection_is_published**: whatever the shard asked for and whatever the random choices,
`connection_for_shard` hands out a published connection, and one of the asked shard whenever that shard has a
published connection; a pool without published connections hands out nothing (`Err(Initializing | Broken)`). -/
theorem handed_connection_is_published (p : Pool K) (shard r : Nat) (ρ : Nat → Nat × Nat) (c : Nat)
    (h : p.connectionForShard shard r ρ = some c) : c ∈ p.handable shard ∧ c ∈ p.conns := by
  unfold Pool.connectionForShard at h
  unfold Pool.handable
  split at h
  · cases h
  · cases hs : p.sharder with
    | none =>
      rw [hs] at h
      simp only at h ⊢
      exact ⟨chooseFrom_mem h, chooseFrom_mem h⟩
    | some n =>
      rw [hs] at h
      simp only at h ⊢
      generalize shardAsU16 shard = shard at h ⊢
      by_cases hlt : shard < n
      · simp only [hlt, ↓reduceIte, decide_true, Bool.true_and] at h ⊢
        by_cases hb : (p.bucket shard) = []
        · have hnone : chooseFrom (p.bucket shard) r = none := by simp [chooseFrom, hb]
          rw [hnone] at h
          simp only at h
          have hc := tryShards_mem p ρ _ _ _ c h
          simp [hb, hc]
        · obtain ⟨c', hc'⟩ := chooseFrom_some r hb
          rw [hc'] at h
          simp only [Option.some.injEq] at h
          subst h
          have hm := chooseFrom_mem hc'
          have hne : (p.bucket shard).isEmpty = false := by cases hq : p.bucket shard <;> simp_all
          simp only [hne, Bool.not_false, ↓reduceIte]
          exact ⟨hm, bucket_sub p _ _ hm⟩
      · simp only [hlt, ↓reduceIte, decide_false, Bool.false_and, Bool.false_eq_true] at h ⊢
        have hc := tryShards_mem p ρ _ _ _ c h
        exact ⟨hc, hc⟩

theorem random_connection_is_published (p : Pool K) (rs r : Nat) (ρ : Nat → Nat × Nat) (c : Nat)
    (h : p.randomConnection rs r ρ = some c) : c ∈ p.conns := by
  unfold Pool.randomConnection at h
  split at h <;> exact (handed_connection_is_published p _ r ρ c h).2

theorem empty_pool_hands_out_nothing (p : Pool K) (shard r : Nat) (ρ : Nat → Nat × Nat) (h : p.conns = []) :
    p.connectionForShard shard r ρ = none := by
  simp [Pool.connectionForShard, h]

/-- **every_handed_connection_has_keyspace** — the headline in the property's own terms. In every reachable
state in which the newest use-keyspace request did not overlap an older one and was answered Ok (or with a
broken-connection error): whatever shard a request asks for and whatever the random choices, the connection it
is handed - unless broken (the request then fails) or marked `unclaimed` (a user-issued `USE` / an out-of-order
answer since) - has the keyspace set at the server, and no `USE` in flight that could still change it. -/
theorem every_handed_connection_has_keyspace (perShard : Bool) (target : Nat) (ks0 : Option K) (evs : List (Ev K)) :
    let p := run (Pool.init perShard target ks0) evs
    p.overlap = false → ∀ L, p.latest = some L → (L.resp = some .ok ∨ L.resp = some (.err .broken)) →
      ∀ shard r ρ c, p.connectionForShard shard r ρ = some c →
        (p.net c).broken = false → (p.net c).unclaimed = false →
        (p.net c).serverKs = some L.ks ∧ (p.net c).queue = [] := by
  intro p hov L hL hresp shard r ρ c hc hb hm
  exact (published_has_keyspace perShard target ks0 evs hov L hL hresp).2 c
    (handed_connection_is_published p shard r ρ c hc).2 hb hm

/-- non-vacuity: a sharded pool with connections 0 (shard 0) and 1 (shard 1): a request for shard 1 gets
connection 1; after connection 1 is lost a request for shard 1 falls back to connection 0. -/
private def evsPick : List (Ev Nat) :=
  [.useKs 4, .refill, .opened 0 (some 2) none, .ksSet 0 .ack, .refill, .opened 1 (some 2) (some 1), .ksSet 1 .ack]
example : let p := run (Pool.init true 1 (none : Option Nat)) evsPick
    p.conns = [0, 1] ∧ p.connectionForShard 1 5 (fun _ => (0, 0)) = some 1 ∧ p.handable 1 = [1] ∧
    p.connectionForShard 7 5 (fun _ => (1, 0)) = some 1 ∧ p.randomConnection 2 0 (fun _ => (0, 0)) = some 0 ∧
    -- a shard number that does not fit u16 is treated as shard 0
    p.connectionForShard 65537 5 (fun _ => (1, 0)) = some 0 := by decide
private def evsPick2 : List (Ev Nat) := evsPick ++ [.breakConn 1, .connError 1]
example : let p := run (Pool.init true 1 (none : Option Nat)) evsPick2
    p.conns = [0] ∧ p.connectionForShard 1 5 (fun _ => (1, 0)) = some 0 ∧ p.handable 1 = [0] := by decide

/-! ## G. Overlapping calls: what holds, and what does not, for the last call to return -/

/-- **new_connections_carry_newest_keyspace** (no discipline assumed - overlapping requests, any order of
answers): a published connection that is in no request's snapshot - it was published after the NEWEST request
arrived - carries the pool's current keyspace (= the newest request's), with nothing in flight, unless broken or
marked. Overlap can only leave the connections that existed when the requests arrived in different keyspaces. -/
theorem new_connections_carry_newest_keyspace (perShard : Bool) (target : Nat) (ks0 : Option K) (evs : List (Ev K)) :
    let p := run (Pool.init perShard target ks0) evs
    ∀ i ∈ p.conns, (∀ t ∈ p.tasks, i ∉ t.snapshot) → (p.net i).broken = false → (p.net i).unclaimed = false →
      (p.net i).serverKs = p.currentKs ∧ (p.net i).queue = [] :=
  (reachable_inv perShard target ks0 evs).fresh

/-- The pool's current keyspace is always the keyspace of the newest request (the last to ARRIVE, whichever
returns last). -/
theorem current_keyspace_is_newest_request (perShard : Bool) (target : Nat) (ks0 : Option K) (evs : List (Ev K)) :
    let p := run (Pool.init perShard target ks0) evs
    ∀ L, p.latest = some L → p.currentKs = some L.ks := by
  intro p
  suffices h : ∀ (q : Pool K) (es : List (Ev K)), Inv q → (∀ L, q.latest = some L → q.currentKs = some L.ks) →
      ∀ L, (run q es).latest = some L → (run q es).currentKs = some L.ks from
    h _ evs (inv_init _ _ _) (by intro L hL; simp [Pool.latest, Pool.init] at hL)
  intro q es
  unfold run
  induction es generalizing q with
  | nil => intro _ hq; exact hq
  | cons e es ih =>
    intro hinv hq
    apply ih _ (inv_step hinv e)
    intro L hL
    cases hu : e.isUseKs with
    | true =>
      cases e <;> simp [Ev.isUseKs] at hu
      simp only [step, Pool.latest, List.head?_cons, Option.some.injEq] at hL ⊢
      subst hL; rfl
    | false =>
      obtain ⟨g, hg, _, hk, hprop⟩ := step_nonUse hinv e hu
      unfold Pool.latest at hL hq
      rw [hg, List.head?_map] at hL
      rw [hk]
      cases hq0 : q.tasks.head? with
      | none => rw [hq0] at hL; cases hL
      | some L0 =>
        rw [hq0] at hL
        simp only [Option.map_some, Option.some.injEq] at hL
        subst hL
        rw [hq L0 hq0, (hprop L0 (List.mem_of_mem_head? hq0)).2.2.2]

/-- What holds for the LAST call to return when calls overlapped: its own `USE` was acknowledged on every
then-published live connection (`success_means_all_acked`), connections published after the newest request
carry the newest request's keyspace (`new_connections_carry_newest_keyspace`), and the next call that does not
overlap repairs everything (`published_has_keyspace`, the ghost is not sticky). What does NOT hold: that the
connections end in the keyspace of the last call to return, or of the newest request. Two connections, requests
0 (keyspace 1) and 1 (keyspace 2) overlap; connection 0 executes 2 then 1, connection 1 executes 1 then 2;
request 1 is the newest AND the last to return, both answered Ok - connection 0 is in keyspace 1. -/
private def evsLastReturn : List (Ev Nat) :=
  [.refill, .opened 0 none none, .refill, .opened 0 none none, .useKs 1, .useKs 2,
   .taskSubmit 1 0, .taskSubmit 0 0, .taskSubmit 0 1, .taskSubmit 1 1,
   .serve 0 .ack, .serve 0 .ack, .serve 1 .ack, .taskFinish 0, .serve 1 .ack, .taskFinish 1]
example : let p := run (Pool.init false 2 (none : Option Nat)) evsLastReturn
    p.overlap = true ∧ p.tasks.map (fun t => (t.ks, t.resp)) = [(2, some .ok), (1, some .ok)] ∧
    p.currentKs = some 2 ∧ p.conns = [0, 1] ∧ (p.net 0).serverKs = some 1 ∧ (p.net 1).serverKs = some 2 ∧
    (p.net 0).acked = [2, 1] ∧ (p.net 1).acked = [1, 2] ∧ (p.net 0).unclaimed = false := by decide

end ScyllaVerif.Props.C20

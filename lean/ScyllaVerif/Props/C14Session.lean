import ScyllaVerif.Model.PreparedSession
/-!
# C14, the layers above one connection (Model/PreparedSession.lean)

* `Connection::prepare_batch` (connection.rs:1248-1294): `connPrepareBatch_spec` - the batch handed on equals the
  caller's batch, statement by statement and in the same order, with exactly the unprepared statements that carry
  values replaced by statements prepared from EXACTLY their text; type and config are the caller's; the wire frame
  pairs every statement with the caller's value list of the same position; independent of the `HashSet` order;
  untouched when nothing needs preparing; a failed preparation is the error, nothing else is sent afterwards.
* `CachingSession` (caching_session.rs:102-245): hit / miss, the handle carries the query's own config and page size and
  the session's `use_cached_result_metadata`, the cache never exceeds its capacity and contains the statement just
  added; `prepare_batch` / `batch` hand on the caller's batch with every unprepared statement replaced, nothing else.
* `Session::prepare` (session.rs:1623-1715): a statement is returned iff some node prepared it and ALL nodes that did
  returned the same id; differing ids are `PreparedStatementIdsMismatch`, never a statement; second attempt per shard.
-/
namespace ScyllaVerif.Props.C14Session
open ScyllaVerif.PreparedSession

/-- `Pointwise R xs ys`: same length and related position by position -/
inductive Pointwise {α β : Type} (R : α → β → Prop) : List α → List β → Prop
  | nil : Pointwise R [] []
  | cons {a b xs ys} : R a b → Pointwise R xs ys → Pointwise R (a :: xs) (b :: ys)

theorem Pointwise.length_eq {α β : Type} {R : α → β → Prop} {xs : List α} {ys : List β} (h : Pointwise R xs ys) :
    xs.length = ys.length := by
  induction h with
  | nil => rfl
  | cons _ _ ih => simp [ih]

/-! ## `Connection::prepare_batch` -/

/-- all texts of `order` can be prepared -/
def AllOk (prep : String → Except Nat String) (order : List String) : Prop := ∀ t ∈ order, ∃ id, prep t = .ok id

theorem prepareAll_ok (prep : String → Except Nat String) (order : List String) (h : AllOk prep order) :
    ∃ m, prepareAll prep order = .ok m ∧ m.map (·.1) = order ∧ ∀ e ∈ m, prep e.1 = .ok e.2 := by
  induction order with
  | nil => exact ⟨[], rfl, rfl, by simp⟩
  | cons t rest ih =>
    obtain ⟨id, hid⟩ := h t (by simp)
    obtain ⟨m, hm, hmap, hall⟩ := ih (fun t' ht' => h t' (by simp [ht']))
    refine ⟨(t, id) :: m, by simp [prepareAll, hid, hm], by simp [hmap], ?_⟩
    intro e he
    rcases List.mem_cons.mp he with rfl | he
    · exact hid
    · exact hall e he

theorem lookup_of_mem (m : List (String × String)) (prep : String → Except Nat String)
    (hall : ∀ e ∈ m, prep e.1 = .ok e.2) (t : String) :
    (t ∈ m.map (·.1) → ∃ id, lookup t m = some id ∧ prep t = .ok id) ∧ (t ∉ m.map (·.1) → lookup t m = none) := by
  induction m with
  | nil => simp [lookup]
  | cons e rest ih =>
    obtain ⟨k, v⟩ := e
    have ih' := ih (fun e he => hall e (by simp [he]))
    by_cases hk : k = t
    · subst hk
      refine ⟨fun _ => ⟨v, by simp [lookup], hall (k, v) (by simp)⟩, fun hn => absurd (by simp) hn⟩
    · have hne : (k == t) = false := by simpa using hk
      refine ⟨fun hmem => ?_, fun hn => ?_⟩
      · have : t ∈ rest.map (·.1) := by
          simp only [List.map_cons, List.mem_cons] at hmem
          rcases hmem with h | h
          · exact absurd h.symm hk
          · exact h
        obtain ⟨id, h1, h2⟩ := ih'.1 this
        exact ⟨id, by simp [lookup, hne, h1], h2⟩
      · have : t ∉ rest.map (·.1) := fun h => hn (by simp [h])
        simp [lookup, hne, ih'.2 this]

/-- what `prepare_batch` does to ONE statement, given the set of texts it prepares -/
def StmtRel (prep : String → Except Nat String) (order : List String) : BStmt → BStmt → Prop
  | .prepared p, s' => s' = .prepared p
  | .query q, s' =>
    (q.text ∈ order → ∃ id, prep q.text = .ok id ∧ s' = .prepared (freshHandle q.text id)) ∧
    (q.text ∉ order → s' = .query q)

/-- `connPrepareBatch_spec`. When something needs preparing and every preparation succeeds: the PREPAREs sent are
exactly the texts of the set, each once, byte for byte; the batch handed on has the caller's type and config, as many
statements in the same order; a prepared statement stays itself; an unprepared one whose text is in the set becomes the
statement prepared from EXACTLY that text; an unprepared one without values stays unprepared. -/
theorem connPrepareBatch_spec (prep : String → Except Nat String) (order : List String) (b : Batch)
    (vals : List (List Nat)) (hne : (wantsPrepare b.stmts vals).isEmpty = false) (hok : AllOk prep order) :
    ∃ b', connPrepareBatch prep order b vals = .ok (b', order) ∧ b'.ty = b.ty ∧ b'.cfg = b.cfg ∧
      Pointwise (StmtRel prep order) b.stmts b'.stmts := by
  obtain ⟨m, hm, hmap, hall⟩ := prepareAll_ok prep order hok
  refine ⟨⟨b.ty, b.cfg, b.stmts.map (replaceStmt m)⟩, by simp [connPrepareBatch, hne, hm], rfl, rfl, ?_⟩
  have hl := lookup_of_mem m prep hall
  simp only
  induction b.stmts with
  | nil => exact .nil
  | cons s rest ih =>
    refine .cons ?_ ih
    cases s with
    | prepared p => simp [StmtRel, replaceStmt]
    | query q =>
      simp only [StmtRel, replaceStmt]
      constructor
      · intro hin
        obtain ⟨id, h1, h2⟩ := (hl q.text).1 (hmap ▸ hin)
        exact ⟨id, h2, by simp [h1]⟩
      · intro hnin
        have := (hl q.text).2 (hmap ▸ hnin)
        simp [this]

/-- the result does not depend on the order in which the `HashSet` is iterated -/
theorem connPrepareBatch_order_irrelevant (prep : String → Except Nat String) (o1 o2 : List String) (b : Batch)
    (vals : List (List Nat)) (hmem : ∀ t, t ∈ o1 ↔ t ∈ o2) (h1 : AllOk prep o1) (h2 : AllOk prep o2) :
    (connPrepareBatch prep o1 b vals).map (·.1) = (connPrepareBatch prep o2 b vals).map (·.1) := by
  cases hne : (wantsPrepare b.stmts vals).isEmpty with
  | true => simp [connPrepareBatch, hne, Except.map]
  | false =>
    obtain ⟨m1, hm1, hmap1, hall1⟩ := prepareAll_ok prep o1 h1
    obtain ⟨m2, hm2, hmap2, hall2⟩ := prepareAll_ok prep o2 h2
    simp only [connPrepareBatch, hne, Bool.false_eq_true, ↓reduceIte, hm1, hm2, Except.map]
    congr 2
    apply List.map_congr_left
    intro s _
    cases s with
    | prepared p => rfl
    | query q =>
      simp only [replaceStmt]
      by_cases hin : q.text ∈ o1
      · obtain ⟨i1, a1, b1⟩ := (lookup_of_mem m1 prep hall1 q.text).1 (hmap1 ▸ hin)
        obtain ⟨i2, a2, b2⟩ := (lookup_of_mem m2 prep hall2 q.text).1 (hmap2 ▸ (hmem _).1 hin)
        have : i1 = i2 := by rw [b1] at b2; cases b2; rfl
        simp [a1, a2, this]
      · have n1 := (lookup_of_mem m1 prep hall1 q.text).2 (hmap1 ▸ hin)
        have n2 := (lookup_of_mem m2 prep hall2 q.text).2 (hmap2 ▸ (fun h => hin ((hmem _).2 h)))
        simp [n1, n2]

/-- nothing to prepare (all statements prepared, or the unprepared ones have no values): the caller's batch is handed
on AS IS and no PREPARE is sent -/
theorem connPrepareBatch_nothing_to_prepare (prep : String → Except Nat String) (order : List String) (b : Batch)
    (vals : List (List Nat)) (h : (wantsPrepare b.stmts vals).isEmpty = true) :
    connPrepareBatch prep order b vals = .ok (b, []) := by
  simp [connPrepareBatch, h]

theorem prepareAll_error (prep : String → Except Nat String) (pre : List String) (t : String) (post : List String)
    (e : Nat) (hpre : AllOk prep pre) (ht : prep t = .error e) :
    prepareAll prep (pre ++ t :: post) = .error (e, pre ++ [t]) := by
  induction pre with
  | nil => simp [prepareAll, ht]
  | cons p rest ih =>
    obtain ⟨id, hid⟩ := hpre p (by simp)
    have := ih (fun t' ht' => hpre t' (by simp [ht']))
    simp [prepareAll, hid, this]

/-- a preparation fails: that error is the result; the PREPAREs sent are those up to and including the failing one -/
theorem connPrepareBatch_failure (prep : String → Except Nat String) (pre : List String) (t : String)
    (post : List String) (e : Nat) (b : Batch) (vals : List (List Nat))
    (hne : (wantsPrepare b.stmts vals).isEmpty = false) (hpre : AllOk prep pre) (ht : prep t = .error e) :
    connPrepareBatch prep (pre ++ t :: post) b vals = .error (e, pre ++ [t]) := by
  simp [connPrepareBatch, hne, prepareAll_error prep pre t post e hpre ht]

/-- on the wire every statement is paired with the caller's value list OF THE SAME POSITION, whether or not it was
replaced: the frame of the rebuilt batch is the frame of the caller's batch with `byText t v` turned into `byId id v`
for the prepared texts -/
def frameReplace (m : List (String × String)) : FStmt → FStmt
  | .byText t v => match lookup t m with | some id => .byId id v | none => .byText t v
  | .byId id v => .byId id v

theorem frame_after_prepare (m : List (String × String)) (stmts : List BStmt) (vals : List (List Nat)) :
    frameStmts (stmts.map (replaceStmt m)) vals = (frameStmts stmts vals).map (frameReplace m) := by
  induction stmts generalizing vals with
  | nil => rfl
  | cons s rest ih =>
    cases s with
    | prepared p => simp [frameStmts, replaceStmt, frameReplace, ih]
    | query q =>
      simp only [List.map_cons, frameStmts, replaceStmt, frameReplace, ih]
      cases lookup q.text m <;> simp [freshHandle]

/-- `rebuilt_batch_reprepares_exact_text`: when a node answers the BATCH (the REBUILT one) with UNPREPARED naming an id,
the statement re-prepared is one of the caller's: a prepared statement of the caller's batch with that id, or the
statement `prepare_batch` prepared from EXACTLY the text of one of the caller's unprepared statements - so the
re-preparation carries that text byte for byte (connection.rs:1225-1232, `p.get_statement()`). -/
theorem rebuilt_batch_reprepares_exact_text (prep : String → Except Nat String) (order : List String)
    (stmts stmts' : List BStmt) (h : Pointwise (StmtRel prep order) stmts stmts') (id : String) (p : PStmt)
    (hf : findPrepared id stmts' = some p) :
    p.id = id ∧ (.prepared p ∈ stmts ∨ ∃ q, .query q ∈ stmts ∧ prep q.text = .ok id ∧ p = freshHandle q.text id) := by
  induction h with
  | nil => simp [findPrepared] at hf
  | @cons a b xs ys hab _ ih =>
    cases a with
    | prepared p0 =>
      simp only [StmtRel] at hab
      subst hab
      simp only [findPrepared] at hf
      split at hf
      · rename_i heq
        simp only [Option.some.injEq] at hf
        subst hf
        exact ⟨by simpa using heq, Or.inl (by simp)⟩
      · obtain ⟨i1, i2⟩ := ih hf
        refine ⟨i1, ?_⟩
        rcases i2 with i2 | ⟨q, hq, hp, he⟩
        · exact Or.inl (by simp [i2])
        · exact Or.inr ⟨q, by simp [hq], hp, he⟩
    | query q0 =>
      simp only [StmtRel] at hab
      by_cases hin : q0.text ∈ order
      · obtain ⟨id0, hp0, hb⟩ := hab.1 hin
        subst hb
        simp only [findPrepared, freshHandle] at hf
        by_cases heq : id0 = id
        · subst heq
          simp only [beq_self_eq_true, ↓reduceIte, Option.some.injEq] at hf
          subst hf
          exact ⟨rfl, Or.inr ⟨q0, by simp, hp0, rfl⟩⟩
        · have hne : (id0 == id) = false := by simpa using heq
          simp only [hne, Bool.false_eq_true, ↓reduceIte] at hf
          obtain ⟨i1, i2⟩ := ih hf
          refine ⟨i1, ?_⟩
          rcases i2 with i2 | ⟨q, hq, hp, he⟩
          · exact Or.inl (by simp [i2])
          · exact Or.inr ⟨q, by simp [hq], hp, he⟩
      · have hb := hab.2 hin
        subst hb
        simp only [findPrepared] at hf
        obtain ⟨i1, i2⟩ := ih hf
        refine ⟨i1, ?_⟩
        rcases i2 with i2 | ⟨q, hq, hp, he⟩
        · exact Or.inl (by simp [i2])
        · exact Or.inr ⟨q, by simp [hq], hp, he⟩

/-- an UNPREPARED naming an id that no statement of the batch has ends the loop (`RepreparedIdMissingInBatch`) -/
theorem batchRounds_unknown_id (b : Batch) (id : String) (rest : List String) (h : findPrepared id b.stmts = none) :
    batchRounds b (id :: rest) = [none] := by simp [batchRounds, h]

-- non-vacuity: INSERT with values (prepared), a statement without values (stays), a prepared one (stays)
example :
    connPrepareBatch (fun t => .ok ("id:" ++ t)) ["a"]
      ⟨1, ⟨some 4, none, some 7, true⟩, [.query ⟨"a", Cfg.default, 10⟩, .query ⟨"b", Cfg.default, 10⟩,
        .prepared ⟨"x", "c", Cfg.default, 10, false⟩, .query ⟨"a", Cfg.default, 10⟩]⟩ [[1], [], [2], [3]]
    = .ok (⟨1, ⟨some 4, none, some 7, true⟩, [.prepared (freshHandle "a" "id:a"), .query ⟨"b", Cfg.default, 10⟩,
        .prepared ⟨"x", "c", Cfg.default, 10, false⟩, .prepared (freshHandle "a" "id:a")]⟩, ["a"]) := by rfl

/-! ## `CachingSession` -/

def Keys (c : Cache) : List String := c.map (·.1)

/-- the cache agrees with the cluster: an entry for `t` holds the statement prepared from exactly `t` -/
def CacheOK (prep : String → Except Nat String) (c : Cache) : Prop :=
  ∀ t raw, cacheGet t c = some raw → raw.text = t ∧ prep t = .ok raw.id

theorem cacheGet_some_mem (t : String) (c : Cache) (raw : PStmt) (h : cacheGet t c = some raw) : t ∈ Keys c := by
  induction c with
  | nil => simp [cacheGet] at h
  | cons e rest ih =>
    obtain ⟨k, v⟩ := e
    simp only [cacheGet] at h
    split at h
    · rename_i hk
      have : k = t := by simpa using hk
      subst this
      simp [Keys]
    · have := ih h
      simp only [Keys, List.map_cons, List.mem_cons] at this ⊢
      exact Or.inr this

theorem cacheGet_none_not_mem (t : String) (c : Cache) (h : cacheGet t c = none) : t ∉ Keys c := by
  induction c with
  | nil => simp [Keys]
  | cons e rest ih =>
    obtain ⟨k, v⟩ := e
    simp only [cacheGet] at h
    split at h
    · simp at h
    · rename_i hk
      simp only [Keys, List.map_cons, List.mem_cons, not_or]
      exact ⟨fun e => hk (by simp [e]), ih h⟩

theorem cacheRemove_not_mem (t : String) (c : Cache) (h : t ∉ Keys c) : cacheRemove t c = c := by
  simp only [cacheRemove]
  apply List.filter_eq_self.mpr
  intro e he
  have : e.1 ≠ t := fun hh => h (by rw [← hh]; exact List.mem_map_of_mem he)
  simpa using this

theorem cacheRemove_length (t : String) (c : Cache) (hd : (Keys c).Nodup) (hm : t ∈ Keys c) :
    (cacheRemove t c).length + 1 = c.length := by
  induction c with
  | nil => simp [Keys] at hm
  | cons e rest ih =>
    obtain ⟨k, v⟩ := e
    simp only [Keys, List.map_cons, List.nodup_cons] at hd
    by_cases hk : k = t
    · subst hk
      have hrest : cacheRemove k rest = rest := cacheRemove_not_mem k rest hd.1
      have : cacheRemove k ((k, v) :: rest) = cacheRemove k rest := by simp [cacheRemove]
      rw [this, hrest]; rfl
    · have hm' : t ∈ Keys rest := by
        simp only [Keys, List.map_cons, List.mem_cons] at hm
        rcases hm with h | h
        · exact absurd h.symm hk
        · exact h
      have := ih hd.2 hm'
      have hf : cacheRemove t ((k, v) :: rest) = (k, v) :: cacheRemove t rest := by simp [cacheRemove, hk]
      rw [hf]; simp only [List.length_cons]; omega

theorem cacheRemove_keys (t : String) (c : Cache) : ∀ k, k ∈ Keys (cacheRemove t c) → k ∈ Keys c ∧ k ≠ t := by
  intro k hk
  simp only [Keys, cacheRemove, List.mem_map, List.mem_filter] at hk ⊢
  obtain ⟨e, ⟨he, hne⟩, hek⟩ := hk
  exact ⟨⟨e, he, hek⟩, by subst hek; simpa using hne⟩

theorem cacheRemove_nodup (t : String) (c : Cache) (hd : (Keys c).Nodup) : (Keys (cacheRemove t c)).Nodup := by
  simp only [Keys, cacheRemove]
  exact (List.Nodup.sublist (List.Sublist.map _ (List.filter_sublist)) hd)

theorem cacheRemove_get (t k : String) (c : Cache) (raw : PStmt) (h : cacheGet k (cacheRemove t c) = some raw) :
    cacheGet k c = some raw := by
  induction c with
  | nil => simp [cacheRemove, cacheGet] at h
  | cons e rest ih =>
    obtain ⟨k', v⟩ := e
    by_cases ht : k' = t
    · subst ht
      have h' : cacheGet k (cacheRemove k' rest) = some raw := by simpa [cacheRemove] using h
      have hmem := (cacheRemove_keys k' rest k (cacheGet_some_mem _ _ _ h')).2
      have : (k' == k) = false := by simpa using fun e => hmem e.symm
      simp [cacheGet, this, ih h']
    · have hf : cacheRemove t ((k', v) :: rest) = (k', v) :: cacheRemove t rest := by simp [cacheRemove, ht]
      rw [hf] at h
      simp only [cacheGet] at h ⊢
      split
      · rename_i hk; simpa [hk] using h
      · rename_i hk; simp only [hk] at h; exact ih h

/-- the eviction loop: `pick` yields a key of the (non-empty) map -/
def PickOK (pick : Cache → String) : Prop := ∀ c : Cache, c ≠ [] → pick c ∈ Keys c

theorem evictLoop_spec (cap : Nat) (pick : Cache → String) (hp : PickOK pick) (hcap : 0 < cap) :
    ∀ (fuel : Nat) (c : Cache), (Keys c).Nodup → c.length ≤ fuel →
      (evictLoop cap pick fuel c).length < cap ∧ (Keys (evictLoop cap pick fuel c)).Nodup ∧
      (∀ k, k ∈ Keys (evictLoop cap pick fuel c) → k ∈ Keys c) ∧
      (∀ k raw, cacheGet k (evictLoop cap pick fuel c) = some raw → cacheGet k c = some raw) ∧
      (c.length < cap → evictLoop cap pick fuel c = c) := by
  intro fuel
  induction fuel with
  | zero =>
    intro c hd hl
    have : c = [] := List.eq_nil_of_length_eq_zero (by omega)
    subst this
    exact ⟨by simpa [evictLoop] using hcap, by simp [evictLoop, Keys], by simp [evictLoop], by simp [evictLoop], fun _ => rfl⟩
  | succ fuel ih =>
    intro c hd hl
    simp only [evictLoop]
    split
    · rename_i hfull
      have hne : c ≠ [] := by intro e; subst e; simp at hfull; omega
      have hpick := hp c hne
      have hlen := cacheRemove_length (pick c) c hd hpick
      obtain ⟨a1, a2, a3, a4, _⟩ := ih (cacheRemove (pick c) c) (cacheRemove_nodup _ _ hd) (by omega)
      exact ⟨a1, a2, fun k hk => (cacheRemove_keys _ _ k (a3 k hk)).1,
        fun k raw h => cacheRemove_get _ _ _ _ (a4 k raw h), fun h => absurd h (by omega)⟩
    · rename_i hnf
      exact ⟨by omega, hd, fun _ h => h, fun _ _ h => h, fun _ => rfl⟩

theorem cacheInsert_spec (t : String) (v : PStmt) (c : Cache) (hd : (Keys c).Nodup) :
    (Keys (cacheInsert t v c)).Nodup ∧ t ∈ Keys (cacheInsert t v c) ∧
    (cacheInsert t v c).length ≤ c.length + 1 ∧ (t ∈ Keys c → (cacheInsert t v c).length = c.length) ∧
    cacheGet t (cacheInsert t v c) = some v ∧
    (∀ k raw, k ≠ t → cacheGet k (cacheInsert t v c) = some raw → cacheGet k c = some raw) := by
  refine ⟨?_, by simp [cacheInsert, Keys], ?_, ?_, by simp [cacheInsert, cacheGet], ?_⟩
  · simp only [cacheInsert, Keys, List.map_cons, List.nodup_cons]
    exact ⟨fun h => (cacheRemove_keys t c t h).2 rfl, cacheRemove_nodup t c hd⟩
  · by_cases hm : t ∈ Keys c
    · have := cacheRemove_length t c hd hm; simp [cacheInsert]; omega
    · simp [cacheInsert, cacheRemove_not_mem t c hm]
  · intro hm
    have := cacheRemove_length t c hd hm; simp [cacheInsert]; omega
  · intro k raw hk h
    have hne : (t == k) = false := by simpa using fun e => hk e.symm
    simp only [cacheInsert, cacheGet, hne] at h
    exact cacheRemove_get _ _ _ _ h

/-- caching_session.rs:216-239: after a missed statement was added, the cache holds it, holds at most `cap` statements
with distinct texts, and still agrees with the cluster -/
theorem cacheAdd_spec (cap : Nat) (pick : Cache → String) (hp : PickOK pick) (hcap : 0 < cap)
    (prep : String → Except Nat String) (c : Cache) (s : PStmt) (hd : (Keys c).Nodup) (hok : CacheOK prep c)
    (hs : prep s.text = .ok s.id) :
    (Keys (cacheAdd cap pick c s)).Nodup ∧ s.text ∈ Keys (cacheAdd cap pick c s) ∧
    (cacheAdd cap pick c s).length ≤ cap ∧ CacheOK prep (cacheAdd cap pick c s) := by
  obtain ⟨a1, a2, _, a4, _⟩ := evictLoop_spec cap pick hp hcap c.length c hd (Nat.le_refl _)
  obtain ⟨b1, b2, b3, _, b5, b6⟩ := cacheInsert_spec s.text s (evictLoop cap pick c.length c) a2
  refine ⟨b1, b2, by simp only [cacheAdd]; omega, ?_⟩
  intro t raw hget
  by_cases ht : t = s.text
  · subst ht
    simp only [cacheAdd] at hget
    rw [b5] at hget
    cases hget
    exact ⟨rfl, hs⟩
  · exact hok t raw (a4 t raw (b6 t raw ht hget))

/-- a cache HIT: the cluster is not asked, the cache is unchanged, and the handle is the cached statement configured
with THIS query's config and page size and the session's `use_cached_result_metadata` -/
theorem addPrepared_hit (cap : Nat) (u : Bool) (prep : String → Except Nat String) (pick : Cache → String)
    (c : Cache) (q : Query) (raw : PStmt) (h : cacheGet q.text c = some raw) :
    addPrepared cap u prep pick c q = .ok (⟨raw.id, raw.text, q.cfg, q.page, u⟩, c, false) := by
  simp [addPrepared, h]

/-- a MISS: `Session::prepare` of exactly the query's text; a failure is the error and the cache is not touched -/
theorem addPrepared_miss_error (cap : Nat) (u : Bool) (prep : String → Except Nat String) (pick : Cache → String)
    (c : Cache) (q : Query) (e : Nat) (h : cacheGet q.text c = none) (hp : prep q.text = .error e) :
    addPrepared cap u prep pick c q = .error e := by
  simp [addPrepared, h, hp]

/-- `addPrepared_spec`: whenever it succeeds - hit or miss - the handle is the statement prepared from EXACTLY the
query's text, with the query's config and page size and the session's option; the cache afterwards holds that text,
holds at most `cap` statements with distinct texts, still agrees with the cluster, and the cluster was asked iff the
text was not cached. -/
theorem addPrepared_spec (cap : Nat) (u : Bool) (prep : String → Except Nat String) (pick : Cache → String)
    (hp : PickOK pick) (hcap : 0 < cap) (c : Cache) (q : Query) (hd : (Keys c).Nodup) (hok : CacheOK prep c)
    (hlen : c.length ≤ cap) (h : PStmt) (c' : Cache) (asked : Bool)
    (hres : addPrepared cap u prep pick c q = .ok (h, c', asked)) :
    (∃ id, prep q.text = .ok id ∧ h = ⟨id, q.text, q.cfg, q.page, u⟩) ∧
    q.text ∈ Keys c' ∧ (Keys c').Nodup ∧ c'.length ≤ cap ∧ CacheOK prep c' ∧
    (asked = true ↔ q.text ∉ Keys c) := by
  cases hg : cacheGet q.text c with
  | some raw =>
    rw [addPrepared_hit cap u prep pick c q raw hg] at hres
    simp only [Except.ok.injEq, Prod.mk.injEq] at hres
    obtain ⟨rfl, rfl, rfl⟩ := hres
    obtain ⟨ht, hpr⟩ := hok q.text raw hg
    exact ⟨⟨raw.id, hpr, by rw [ht]⟩, cacheGet_some_mem _ _ _ hg, hd, hlen, hok,
      by simp [cacheGet_some_mem _ _ _ hg]⟩
  | none =>
    cases hpr : prep q.text with
    | error e => simp [addPrepared, hg, hpr] at hres
    | ok id =>
      simp only [addPrepared, hg, hpr, Except.ok.injEq, Prod.mk.injEq] at hres
      obtain ⟨rfl, rfl, rfl⟩ := hres
      obtain ⟨a1, a2, a3, a4⟩ := cacheAdd_spec cap pick hp hcap prep c ⟨id, q.text, q.cfg, q.page, u⟩ hd hok hpr
      exact ⟨⟨id, rfl, rfl⟩, a2, a1, a3, a4, by simp [cacheGet_none_not_mem _ _ hg]⟩

/-- whatever the order in which the misses of one `prepare_batch` complete: the cache stays within its capacity, with
distinct texts, agreeing with the cluster -/
theorem cacheAddAll_spec (cap : Nat) (pick : Cache → String) (hp : PickOK pick) (hcap : 0 < cap)
    (prep : String → Except Nat String) :
    ∀ (done : List PStmt) (c : Cache), (Keys c).Nodup → CacheOK prep c → c.length ≤ cap →
      (∀ s ∈ done, prep s.text = .ok s.id) →
      (Keys (cacheAddAll cap pick c done)).Nodup ∧ CacheOK prep (cacheAddAll cap pick c done) ∧
      (cacheAddAll cap pick c done).length ≤ cap := by
  intro done
  induction done with
  | nil => intro c hd hok hl _; exact ⟨hd, hok, hl⟩
  | cons s rest ih =>
    intro c hd hok hl hall
    obtain ⟨a1, _, a3, a4⟩ := cacheAdd_spec cap pick hp hcap prep c s hd hok (hall s (by simp))
    exact ih _ a1 a4 a3 (fun s' hs' => hall s' (by simp [hs']))

/-- what `CachingSession::prepare_batch` does to one statement -/
def CStmtRel (prep : String → Except Nat String) (u : Bool) : BStmt → BStmt → Prop
  | .prepared p, s' => s' = .prepared p
  | .query q, s' => ∃ id, prep q.text = .ok id ∧ s' = .prepared ⟨id, q.text, q.cfg, q.page, u⟩

theorem resolveAll_spec (u : Bool) (prep : String → Except Nat String) (c : Cache) (hok : CacheOK prep c) :
    ∀ (stmts r : List BStmt), resolveAll u prep c stmts = .ok r → Pointwise (CStmtRel prep u) stmts r := by
  intro stmts
  induction stmts with
  | nil => intro r h; simp only [resolveAll, Except.ok.injEq] at h; subst h; exact .nil
  | cons s rest ih =>
    intro r h
    simp only [resolveAll] at h
    split at h
    · rename_i s' r' hs hr
      simp only [Except.ok.injEq] at h
      subst h
      refine .cons ?_ (ih r' hr)
      cases s with
      | prepared p => simp only [resolveStmt, Except.ok.injEq] at hs; exact hs.symm
      | query q =>
        simp only [resolveStmt] at hs
        split at hs
        · rename_i raw hg
          obtain ⟨ht, hpr⟩ := hok q.text raw hg
          simp only [Except.ok.injEq] at hs
          exact ⟨raw.id, hpr, by rw [← hs, ht]⟩
        · split at hs
          · simp at hs
          · rename_i id hpr
            simp only [Except.ok.injEq] at hs
            exact ⟨id, hpr, hs.symm⟩
    · simp at h
    · simp at h

theorem allPrepared_pointwise (prep : String → Except Nat String) (u : Bool) (stmts : List BStmt)
    (h : (stmts.all (fun s => match s with | .prepared _ => true | .query _ => false)) = true) :
    Pointwise (CStmtRel prep u) stmts stmts := by
  induction stmts with
  | nil => exact .nil
  | cons s rest ih =>
    simp only [List.all_cons, Bool.and_eq_true] at h
    cases s with
    | prepared p => exact .cons rfl (ih h.2)
    | query q => have := h.1; simp at this

/-- `cachingBatch_spec`: the batch `CachingSession::batch` hands to `Session::batch` has the caller's type and config
and, statement by statement in the same order, the caller's prepared statements themselves and, for every unprepared
statement, the statement prepared from EXACTLY its text carrying that statement's OWN config and page size. The cluster
is asked about exactly the unprepared statements whose text is not cached (each of them, in statement order). (The
value lists are passed on untouched: `self.session.batch(&prepared_batch, &values)`.) -/
theorem cachingBatch_spec (u : Bool) (prep : String → Except Nat String) (c : Cache) (b : Batch)
    (hok : CacheOK prep c) (b' : Batch) (asked : List String)
    (h : cachingBatch u prep c b = .ok (b', asked)) :
    b'.ty = b.ty ∧ b'.cfg = b.cfg ∧ Pointwise (CStmtRel prep u) b.stmts b'.stmts ∧
    (asked = if allPrepared b then [] else (missed c b.stmts).map (·.text)) := by
  simp only [cachingBatch] at h
  split at h
  · rename_i hall
    simp only [Except.ok.injEq, Prod.mk.injEq] at h
    obtain ⟨rfl, rfl⟩ := h
    exact ⟨rfl, rfl, allPrepared_pointwise prep u _ hall, by simp [hall]⟩
  · rename_i hall
    split at h
    · simp at h
    · rename_i r hres
      simp only [Except.ok.injEq, Prod.mk.injEq] at h
      obtain ⟨rfl, rfl⟩ := h
      exact ⟨rfl, rfl, resolveAll_spec u prep c hok b.stmts r hres, by simp [hall]⟩

/-- a statement is asked about iff it is unprepared and its text is not in the cache -/
theorem mem_missed (c : Cache) (stmts : List BStmt) (q : Query) :
    q ∈ missed c stmts ↔ (.query q ∈ stmts ∧ cacheGet q.text c = none) := by
  induction stmts with
  | nil => simp [missed]
  | cons s rest ih =>
    cases s with
    | prepared p => simp [missed, ih]
    | query q' =>
      simp only [missed, List.mem_append, ih, List.mem_cons, BStmt.query.injEq]
      cases hg : cacheGet q'.text c with
      | some raw =>
        simp only [Option.isSome_some, ↓reduceIte, List.not_mem_nil, false_or]
        constructor
        · intro ⟨h1, h2⟩; exact ⟨Or.inr h1, h2⟩
        · intro ⟨h1, h2⟩
          rcases h1 with e | e
          · subst e; rw [hg] at h2; cases h2
          · exact ⟨e, h2⟩
      | none =>
        simp only [Option.isSome_none, Bool.false_eq_true, ↓reduceIte, List.mem_singleton]
        constructor
        · intro h
          rcases h with e | ⟨h1, h2⟩
          · subst e; exact ⟨Or.inl rfl, hg⟩
          · exact ⟨Or.inr h1, h2⟩
        · intro ⟨h1, h2⟩
          rcases h1 with e | e
          · exact Or.inl e
          · exact Or.inr ⟨e, h2⟩

-- non-vacuity: "a" cached, batch [a, b(prepared), c, c]: a is a hit, both c are asked about
example :
    cachingBatch true (fun t => .ok ("id:" ++ t))
      [("a", ⟨"id:a", "a", Cfg.default, 5, false⟩)]
      ⟨0, ⟨some 1, some 8, some 3, true⟩, [.query ⟨"a", ⟨some 6, none, none, true⟩, 7⟩,
        .prepared ⟨"id:b", "b", Cfg.default, 5, false⟩, .query ⟨"c", Cfg.default, 9⟩, .query ⟨"c", Cfg.default, 4⟩]⟩
    = .ok (⟨0, ⟨some 1, some 8, some 3, true⟩, [.prepared ⟨"id:a", "a", ⟨some 6, none, none, true⟩, 7, true⟩,
        .prepared ⟨"id:b", "b", Cfg.default, 5, false⟩, .prepared ⟨"id:c", "c", Cfg.default, 9, true⟩,
        .prepared ⟨"id:c", "c", Cfg.default, 4, true⟩]⟩, ["c", "c"]) := by rfl

-- capacity 1: adding "c" evicts "a"
example : cacheAdd 1 (fun c => (c.headD ("", ⟨"", "", Cfg.default, 0, false⟩)).1)
      [("a", ⟨"id:a", "a", Cfg.default, 5, false⟩)] ⟨"id:c", "c", Cfg.default, 9, true⟩
    = [("c", ⟨"id:c", "c", Cfg.default, 9, true⟩)] := by rfl

/-! ## `Session::prepare` on all nodes -/

theorem afterFirstOk_none (rs : List (Except Nat String)) :
    afterFirstOk rs = none ↔ ∀ r ∈ rs, ∃ e, r = .error e := by
  induction rs with
  | nil => simp [afterFirstOk]
  | cons r rest ih =>
    cases r with
    | ok id => simp [afterFirstOk]
    | error e => simp [afterFirstOk, ih]

theorem allSame_iff (id : String) (rs : List (Except Nat String)) :
    allSame id rs = true ↔ ∀ id', .ok id' ∈ rs → id' = id := by
  induction rs with
  | nil => simp [allSame]
  | cons r rest ih =>
    cases r with
    | ok i => simp [allSame, ih]
    | error e => simp [allSame, ih]

theorem afterFirstOk_some (rs : List (Except Nat String)) (id : String) (rest : List (Except Nat String))
    (h : afterFirstOk rs = some (id, rest)) :
    .ok id ∈ rs ∧ (∀ id', .ok id' ∈ rs → id' = id ∨ .ok id' ∈ rest) ∧ (∀ r ∈ rest, r ∈ rs) := by
  induction rs with
  | nil => simp [afterFirstOk] at h
  | cons r tl ih =>
    cases r with
    | ok i =>
      simp only [afterFirstOk, Option.some.injEq, Prod.mk.injEq] at h
      obtain ⟨rfl, rfl⟩ := h
      exact ⟨by simp, fun id' h' => by simpa using h', fun r hr => by simp [hr]⟩
    | error e =>
      simp only [afterFirstOk] at h
      obtain ⟨a, b, c⟩ := ih h
      exact ⟨by simp [a], fun id' h' => b id' (by simpa using h'), fun r hr => by simp [c r hr]⟩

/-- `prepare_on_all_ok_iff`: a statement (id) is returned iff some connection prepared it and EVERY connection that did
returned that same id. -/
theorem prepareOnAll_ok_iff (rs : List (Except Nat String)) (id : String) :
    prepareOnAll rs = .ok id ↔ (.ok id ∈ rs ∧ ∀ id', .ok id' ∈ rs → id' = id) := by
  simp only [prepareOnAll]
  cases h : afterFirstOk rs with
  | none =>
    have := (afterFirstOk_none rs).1 h
    constructor
    · intro hh; cases rs with
      | nil => simp at hh
      | cons r tl => cases r <;> simp at hh
    · intro ⟨hm, _⟩
      obtain ⟨e, he⟩ := this _ hm
      cases he
  | some p =>
    obtain ⟨i, rest⟩ := p
    obtain ⟨a, b, c⟩ := afterFirstOk_some rs i rest h
    simp only
    constructor
    · intro hh
      split at hh
      · rename_i hs
        simp only [Except.ok.injEq] at hh
        subst hh
        refine ⟨a, fun id' h' => ?_⟩
        rcases b id' h' with e | e
        · exact e
        · exact (allSame_iff i rest).1 hs id' e
      · simp at hh
    · intro ⟨hm, hall⟩
      have hi : i = id := hall i a
      subst hi
      have : allSame i rest = true := (allSame_iff i rest).2 (fun id' h' => hall id' (c _ h'))
      simp [this]

/-- two nodes answer with different ids: never a statement - `PreparedStatementIdsMismatch` -/
theorem prepareOnAll_mismatch (rs : List (Except Nat String)) (i j : String) (hi : .ok i ∈ rs) (hj : .ok j ∈ rs)
    (hne : i ≠ j) : prepareOnAll rs = .error .idsMismatch := by
  simp only [prepareOnAll]
  cases h : afterFirstOk rs with
  | none =>
    obtain ⟨e, he⟩ := (afterFirstOk_none rs).1 h _ hi
    cases he
  | some p =>
    obtain ⟨f, rest⟩ := p
    obtain ⟨_, b, _⟩ := afterFirstOk_some rs f rest h
    simp only
    have : allSame f rest = false := by
      cases hs : allSame f rest with
      | false => rfl
      | true =>
        have hall := (allSame_iff f rest).1 hs
        have e1 : i = f := by rcases b i hi with e | e; exact e; exact hall i e
        have e2 : j = f := by rcases b j hj with e | e; exact e; exact hall j e
        exact absurd (e1.trans e2.symm) hne
    simp [this]

/-- every connection fails: `AllAttemptsFailed` with the FIRST connection's error -/
theorem prepareOnAll_all_failed (e : Nat) (rest : List (Except Nat String))
    (h : ∀ r ∈ rest, ∃ e', r = .error e') : prepareOnAll (.error e :: rest) = .error (.allAttemptsFailed e) := by
  have : afterFirstOk (.error e :: rest) = none :=
    (afterFirstOk_none _).2 (fun r hr => by
      rcases List.mem_cons.mp hr with rfl | hr
      · exact ⟨e, rfl⟩
      · exact h r hr)
  simp [prepareOnAll, this]

/-- `Session::prepare`: with working connections, the second attempt (a connection per shard) runs iff the first (a
connection per node) did not yield a statement - also after an id mismatch -, and its verdict is final; without a
working connection the pool error is returned at once and nothing is sent (session.rs:1630 `?`). -/
theorem prepareNongeneric_spec (perNode perShard : List (Except Nat String)) :
    (perNode = [] → prepareNongeneric perNode perShard = .error .noConnections) ∧
    (∀ id, perNode ≠ [] → prepareOnAll perNode = .ok id → prepareNongeneric perNode perShard = .ok id) ∧
    (∀ e, perNode ≠ [] → perShard ≠ [] → prepareOnAll perNode = .error e →
      prepareNongeneric perNode perShard = prepareOnAll perShard) ∧
    (∀ e, perNode ≠ [] → perShard = [] → prepareOnAll perNode = .error e →
      prepareNongeneric perNode perShard = .error .noConnections) := by
  refine ⟨fun h => by simp [prepareNongeneric, h], fun id hne h => ?_, fun e hne hs h => ?_, fun e hne hs h => ?_⟩
  · cases perNode with
    | nil => exact absurd rfl hne
    | cons a l => simp [prepareNongeneric, h]
  · cases perNode with
    | nil => exact absurd rfl hne
    | cons a l =>
      cases perShard with
      | nil => exact absurd rfl hs
      | cons b m => simp [prepareNongeneric, h]
  · cases perNode with
    | nil => exact absurd rfl hne
    | cons a l => simp [prepareNongeneric, h, hs]

/-- partial failure: nodes that refuse are skipped (`find_or_first(is_ok)`), the statement comes from the first node
that succeeds - as long as all succeeding nodes agree on the id -/
theorem prepareOnAll_skips_failures (pre : List (Except Nat String)) (id : String) (post : List (Except Nat String))
    (hpre : ∀ r ∈ pre, ∃ e, r = .error e) (hpost : ∀ id', .ok id' ∈ post → id' = id) :
    prepareOnAll (pre ++ .ok id :: post) = .ok id := by
  rw [prepareOnAll_ok_iff]
  refine ⟨by simp, fun id' h => ?_⟩
  simp only [List.mem_append, List.mem_cons] at h
  rcases h with h | h | h
  · obtain ⟨e, he⟩ := hpre _ h; cases he
  · cases h; rfl
  · exact hpost id' h

example : prepareOnAll [.error 1, .ok "x", .error 2, .ok "x"] = .ok "x" := by rfl
example : prepareOnAll [.ok "x", .ok "y"] = .error .idsMismatch := by rfl
example : prepareNongeneric [.error 7, .error 8] [.error 9, .ok "z", .ok "z"] = .ok "z" := by rfl
example : prepareNongeneric [] [.ok "z"] = .error .noConnections := by rfl
example : prepareOnAll [.error 8704, .ok "x", .error 8192] = .ok "x" := by rfl

/-! ## `Session::prepare_batch` (session.rs:1945-1963) -/

/-- what `Session::prepare_batch` makes of one statement: prepared ones as they are; an unprepared one becomes the
statement prepared from ITS text with ITS config and page size -/
def SStmtRel (prep : String → Except PErr String) : BStmt → BStmt → Prop
  | .prepared p, s' => s' = .prepared p
  | .query q, s' => ∃ id, prep q.text = .ok id ∧ s' = .prepared ⟨id, q.text, q.cfg, q.page, false⟩

private theorem sessionPrepareAll_ok (prep : String → Except PErr String) :
    ∀ (stmts : List BStmt), (sessionPrepareAll prep stmts).2 = [] →
      Pointwise (SStmtRel prep) stmts (sessionPrepareAll prep stmts).1 := by
  intro stmts
  induction stmts with
  | nil => intro _; exact .nil
  | cons s rest ih =>
    intro h
    simp only [sessionPrepareAll] at h ⊢
    split at h
    · rename_i s' hs
      refine .cons ?_ (ih h)
      cases s with
      | prepared p => simp only [sessionPrepareStmt, Except.ok.injEq] at hs; exact hs.symm
      | query q =>
        simp only [sessionPrepareStmt] at hs
        split at hs
        · simp at hs
        · rename_i id hp
          simp only [Except.ok.injEq] at hs
          exact ⟨id, hp, hs.symm⟩
    · simp at h

private theorem sessionPrepareAll_errs (prep : String → Except PErr String) :
    ∀ (stmts : List BStmt) (e : PErr), e ∈ (sessionPrepareAll prep stmts).2 ↔
      ∃ q, BStmt.query q ∈ stmts ∧ prep q.text = .error e := by
  intro stmts
  induction stmts with
  | nil => intro e; simp [sessionPrepareAll]
  | cons s rest ih =>
    intro e
    cases s with
    | prepared p =>
      simp only [sessionPrepareAll, sessionPrepareStmt, ih e, List.mem_cons]
      constructor
      · rintro ⟨q, hq, he⟩; exact ⟨q, Or.inr hq, he⟩
      · rintro ⟨q, hq | hq, he⟩
        · cases hq
        · exact ⟨q, hq, he⟩
    | query q0 =>
      simp only [sessionPrepareAll, sessionPrepareStmt]
      cases hp : prep q0.text with
      | error e0 =>
        simp only [List.mem_cons, ih e]
        constructor
        · rintro (h | ⟨q, hq, he⟩)
          · exact ⟨q0, Or.inl rfl, by rw [hp, h]⟩
          · exact ⟨q, Or.inr hq, he⟩
        · rintro ⟨q, hq | hq, he⟩
          · cases hq; rw [hp] at he; cases he; exact Or.inl rfl
          · exact Or.inr ⟨q, hq, he⟩
      | ok id =>
        simp only [ih e, List.mem_cons]
        constructor
        · rintro ⟨q, hq, he⟩; exact ⟨q, Or.inr hq, he⟩
        · rintro ⟨q, hq | hq, he⟩
          · cases hq; rw [hp] at he; cases he
          · exact ⟨q, hq, he⟩

/-- SUCCESS: batch type and config untouched; position by position (same length): prepared statements are the same
objects, every unprepared statement was replaced IN ITS OWN POSITION by the statement the cluster prepared for ITS OWN
text, with its own config and page size - whatever order the preparations complete in -/
theorem sessionPrepareBatch_spec (prep : String → Except PErr String) (b b' : Batch)
    (h : sessionPrepareBatch prep b = .ok b') :
    b'.ty = b.ty ∧ b'.cfg = b.cfg ∧ Pointwise (SStmtRel prep) b.stmts b'.stmts := by
  simp only [sessionPrepareBatch] at h
  split at h
  · rename_i r heq
    simp only [Except.ok.injEq] at h
    subst h
    have h2 : (sessionPrepareAll prep b.stmts).2 = [] := by rw [heq]
    have h1 : (sessionPrepareAll prep b.stmts).1 = r := by rw [heq]
    exact ⟨rfl, rfl, h1 ▸ sessionPrepareAll_ok prep b.stmts h2⟩
  · simp at h

/-- FAILURE: the call fails iff the cluster refuses (or disagrees on) the text of some unprepared statement, and the
error it fails with is the error of such a statement -/
theorem sessionPrepareBatch_error_iff (prep : String → Except PErr String) (b : Batch) :
    (∃ es, sessionPrepareBatch prep b = .error es) ↔ ∃ q e, BStmt.query q ∈ b.stmts ∧ prep q.text = .error e := by
  simp only [sessionPrepareBatch]
  constructor
  · rintro ⟨es, h⟩
    split at h
    · simp at h
    · rename_i r e rest heq
      have : e ∈ (sessionPrepareAll prep b.stmts).2 := by rw [heq]; simp
      obtain ⟨q, hq, he⟩ := (sessionPrepareAll_errs prep b.stmts e).1 this
      exact ⟨q, e, hq, he⟩
  · rintro ⟨q, e, hq, he⟩
    have hm := (sessionPrepareAll_errs prep b.stmts e).2 ⟨q, hq, he⟩
    split
    · rename_i r heq; rw [heq] at hm; simp at hm
    · exact ⟨_, rfl⟩

theorem sessionPrepareBatch_error_is_a_statements (prep : String → Except PErr String) (b : Batch) (es : List PErr)
    (h : sessionPrepareBatch prep b = .error es) :
    es ≠ [] ∧ ∀ e ∈ es, ∃ q, BStmt.query q ∈ b.stmts ∧ prep q.text = .error e := by
  simp only [sessionPrepareBatch] at h
  split at h
  · simp at h
  · rename_i r e rest heq
    simp only [Except.error.injEq] at h
    subst h
    refine ⟨by simp, fun e' he' => (sessionPrepareAll_errs prep b.stmts e').1 (by rw [heq]; exact he')⟩

/-- NO deduplication: the cluster is asked once per unprepared statement (the same text twice = two preparations) -/
theorem sessionPrepareAsked_spec (stmts : List BStmt) :
    (sessionPrepareAsked stmts).length = (stmts.filter (fun s => match s with | .query _ => true | .prepared _ => false)).length ∧
    ∀ t, t ∈ sessionPrepareAsked stmts ↔ ∃ q, BStmt.query q ∈ stmts ∧ q.text = t := by
  induction stmts with
  | nil => simp [sessionPrepareAsked]
  | cons s rest ih =>
    cases s with
    | prepared p =>
      refine ⟨by simpa [sessionPrepareAsked] using ih.1, fun t => ?_⟩
      simp only [sessionPrepareAsked, ih.2 t, List.mem_cons]
      constructor
      · rintro ⟨q, hq, ht⟩; exact ⟨q, Or.inr hq, ht⟩
      · rintro ⟨q, hq | hq, ht⟩
        · cases hq
        · exact ⟨q, hq, ht⟩
    | query q0 =>
      refine ⟨by simpa [sessionPrepareAsked] using ih.1, fun t => ?_⟩
      simp only [sessionPrepareAsked, List.mem_cons, ih.2 t]
      constructor
      · rintro (h | ⟨q, hq, ht⟩)
        · exact ⟨q0, Or.inl rfl, h.symm⟩
        · exact ⟨q, Or.inr hq, ht⟩
      · rintro ⟨q, hq | hq, ht⟩
        · cases hq; exact Or.inl ht.symm
        · exact Or.inr ⟨q, hq, ht⟩

example : sessionPrepareBatch (fun t => if t == "b" then .error .idsMismatch else .ok (t ++ "#0"))
    ⟨1, Cfg.default, [.query ⟨"a", Cfg.default, 7⟩, .prepared ⟨"p#0", "p", Cfg.default, 5000, true⟩, .query ⟨"a", Cfg.default, 9⟩]⟩ =
    .ok ⟨1, Cfg.default, [.prepared ⟨"a#0", "a", Cfg.default, 7, false⟩, .prepared ⟨"p#0", "p", Cfg.default, 5000, true⟩,
      .prepared ⟨"a#0", "a", Cfg.default, 9, false⟩]⟩ := by rfl

end ScyllaVerif.Props.C14Session

/-
C19, COMPOSITION of the part models (audit rounds 5 and 6: "the models are not composed").
Bridging definitions live here, not in Model/ files.

(1) `C19EventWait` ∘ `C19FetchPlan`: the events a `wait_for_event()` poll returns ARE the `serverEvent` inputs of the
    scheduling loop (`Sys`, `sysStep`): server events enter the scheduler through the wait and through nothing else.
(2) `C19Deadline` → `RefreshFlow`: see the end of the file (`_partial`).
-/
import ScyllaVerif.Model.C19EventWait
import ScyllaVerif.Model.C19FetchPlan
import ScyllaVerif.Model.C19Deadline
import ScyllaVerif.Model.RefreshFlow

namespace ScyllaVerif.Props.C19Compose
open ScyllaVerif

/-! ### (1) the wait feeding the scheduler -/
section WaitFeedsPlan
open ScyllaVerif.C19FetchPlan

/-- The event code of `C19EventWait` (kind * 256 + node; kinds 0 UP, 1 DOWN, else TOPOLOGY_CHANGE) as the scheduler's
`SrvEvent`. -/
def toSrv (e : Nat) : SrvEvent :=
  if e / 256 = 0 then .statusUp (e % 256) else if e / 256 = 1 then .statusDown (e % 256) else .topologyChange

/-- The status hint an event makes `handle_server_event` send. -/
def hintOf (e : Nat) : Option (Nat × Bool) :=
  if e / 256 = 0 then some (e % 256, true) else if e / 256 = 1 then some (e % 256, false) else none

structure Sys where
  conn : C19EventWait.Conn
  sched : Sched := {}

inductive SysEv where
  /-- the reader / the connection / one poll or a cancellation of the wait -/
  | conn (op : C19EventWait.Op)
  /-- any other event of `work_on_cc` (a `serverEvent` here is NOT an event of the composed system: it stutters) -/
  | loop (e : C19FetchPlan.Ev)

def sysStep (s : Sys) : SysEv → Sys
  | .conn (.poll b) =>
    match (C19EventWait.poll s.conn b).2 with
    | .event e => { conn := (C19EventWait.poll s.conn b).1, sched := C19FetchPlan.step s.sched (.serverEvent (toSrv e)) }
    | _ => { s with conn := (C19EventWait.poll s.conn b).1 }
  | .conn op => { s with conn := C19EventWait.step s.conn op }
  | .loop (.serverEvent _) => s
  | .loop e => { s with sched := C19FetchPlan.step s.sched e }

def sysRun (s : Sys) (evs : List SysEv) : Sys := evs.foldl sysStep s

/-- topology work is owed by the plan -/
def Owed (s : Sched) : Prop := s.plan = .full ∨ ∃ c, s.plan = .part c true

/-- Since logical time `c0` the peer list is owed, or a fetch that reads it was STARTED at or after `c0` (a full fetch;
a partial topology fetch still running; a partial topology fetch already published), or the loop gave the connection up
(the re-establishment fetches everything). -/
def Covered (c0 : Nat) (s : Sched) : Prop :=
  c0 ≤ s.clock ∧
  (Owed s ∨ s.gaveUp = true ∨ c0 ≤ s.lastFullStart ∨ (∃ cr t, s.pending = .part cr (some t) ∧ c0 ≤ t) ∨
   ∃ t tc, (Kind.topology, t, tc) ∈ s.merged ∧ c0 ≤ t)

private theorem owed_noteTopology (p : Plan) : p.noteTopology = .full ∨ ∃ c, p.noteTopology = .part c true := by
  cases p with
  | full => left; rfl
  | part c t => right; exact ⟨c, rfl⟩

/-- Handling ANY event the wait can return (UP / DOWN / TOPOLOGY_CHANGE) leaves topology work owed. -/
theorem delivered_event_is_owed (s : Sched) (e : Nat) (hg : s.gaveUp = false) :
    Owed (C19FetchPlan.step s (.serverEvent (toSrv e))) := by
  simp only [C19FetchPlan.step, hg, Bool.false_eq_true, ↓reduceIte]
  unfold toSrv
  split
  · exact owed_noteTopology s.plan
  · split
    · exact owed_noteTopology s.plan
    · exact owed_noteTopology s.plan

private theorem covered_handle (c0 : Nat) (s : Sched) (e : SrvEvent) (h : Covered c0 s) :
    Covered c0 (handleServerEvent s e) := by
  obtain ⟨hc, h⟩ := h
  have keep : ∀ p' : Plan, (s.plan = .full → p' = .full) → (∀ c, s.plan = .part c true → ∃ c', p' = .part c' true) →
      ∀ hs, Covered c0 { s with plan := p', hints := hs } := by
    intro p' h1 h2 hs
    refine ⟨hc, ?_⟩
    rcases h with ho | h
    · left
      rcases ho with ho | ⟨c, ho⟩
      · left; exact h1 ho
      · right; exact h2 c ho
    · right; exact h
  cases e with
  | schemaChange => exact ⟨hc, h⟩
  | topologyChange =>
    exact keep _ (by intro hp; simp [hp, Plan.noteTopology]) (by intro c hp; exact ⟨c, by simp [hp, Plan.noteTopology]⟩) s.hints
  | statusUp a =>
    exact keep _ (by intro hp; simp [hp, Plan.noteTopology]) (by intro c hp; exact ⟨c, by simp [hp, Plan.noteTopology]⟩) _
  | statusDown a =>
    exact keep _ (by intro hp; simp [hp, Plan.noteTopology]) (by intro c hp; exact ⟨c, by simp [hp, Plan.noteTopology]⟩) _
  | clientRoutesChange =>
    exact keep _ (by intro hp; simp [hp, Plan.noteClientRoutes]) (by intro c hp; exact ⟨true, by simp [hp, Plan.noteClientRoutes]⟩) s.hints

private theorem covered_startDue (c0 : Nat) (s : Sched) (h : Covered c0 s) : Covered c0 (startDue s) := by
  obtain ⟨hc, h⟩ := h
  unfold startDue
  split
  · exact ⟨by show c0 ≤ s.clock + 1; omega, Or.inr (Or.inr (Or.inl hc))⟩
  · cases hp : s.pending with
    | full t => exact ⟨hc, by simpa [hp] using h⟩
    | part cr topo =>
      cases hpl : s.plan with
      | full => exact ⟨hc, by simpa [hp, hpl] using h⟩
      | part ownCr ownTopo =>
        simp only []
        have hclk : ∀ (a b : Nat), a = s.clock ∨ a = s.clock + 1 → (b = a ∨ b = a + 1) → c0 ≤ b := by
          intro a b ha hb; omega
        cases ownTopo with
        | true =>
          cases topo with
          | none =>
            -- the topology fetch is started now, at a time ≥ c0
            by_cases hcr : (cr.isNone && ownCr) = true
            · simp only [hcr, ↓reduceIte, Option.isNone_none, Bool.and_self]
              exact ⟨by show c0 ≤ s.clock + 1 + 1; omega, Or.inr (Or.inr (Or.inr (Or.inl ⟨_, _, rfl, by show c0 ≤ s.clock + 1; omega⟩)))⟩
            · simp only [hcr, Bool.false_eq_true, ↓reduceIte, Option.isNone_none, Bool.and_self]
              exact ⟨by show c0 ≤ s.clock + 1; omega, Or.inr (Or.inr (Or.inr (Or.inl ⟨_, _, rfl, hc⟩)))⟩
          | some t =>
            by_cases hcr : (cr.isNone && ownCr) = true
            · simp only [hcr, ↓reduceIte, Option.isNone_some, Bool.false_and, Bool.false_eq_true]
              exact ⟨by show c0 ≤ s.clock + 1; omega, Or.inl (Or.inr ⟨_, rfl⟩)⟩
            · simp only [hcr, Bool.false_eq_true, ↓reduceIte, Option.isNone_some, Bool.false_and]
              exact ⟨hc, Or.inl (Or.inr ⟨_, rfl⟩)⟩
        | false =>
          have h' : s.gaveUp = true ∨ c0 ≤ s.lastFullStart ∨ (∃ t, topo = some t ∧ c0 ≤ t) ∨
              ∃ t tc, (Kind.topology, t, tc) ∈ s.merged ∧ c0 ≤ t := by
            rcases h with ho | h | h | ⟨cr', t, hpe, ht⟩ | h
            · rcases ho with ho | ⟨c, ho⟩ <;> simp [hpl] at ho
            · exact Or.inl h
            · exact Or.inr (Or.inl h)
            · rw [hp] at hpe; cases hpe; exact Or.inr (Or.inr (Or.inl ⟨t, rfl, ht⟩))
            · exact Or.inr (Or.inr (Or.inr h))
          have fin : ∀ (cr' : Option Nat) (o : Bool) (c2 : Nat), s.clock ≤ c2 →
              Covered c0 { s with pending := .part cr' topo, plan := .part o false, clock := c2 } := by
            intro cr' o c2 hc2
            refine ⟨by show c0 ≤ c2; omega, ?_⟩
            rcases h' with h | h | ⟨t, ht, htc⟩ | h
            · exact Or.inr (Or.inl h)
            · exact Or.inr (Or.inr (Or.inl h))
            · exact Or.inr (Or.inr (Or.inr (Or.inl ⟨cr', t, by simp [ht], htc⟩)))
            · exact Or.inr (Or.inr (Or.inr (Or.inr h)))
          by_cases hcr : (cr.isNone && ownCr) = true
          · simp only [hcr, ↓reduceIte, Bool.and_false, Bool.false_eq_true]
            exact fin _ _ _ (by omega)
          · simp only [hcr, Bool.false_eq_true, ↓reduceIte, Bool.and_false]
            exact fin _ _ _ (by omega)

private theorem covered_step (c0 : Nat) (s : Sched) (e : C19FetchPlan.Ev) (h : Covered c0 s) :
    Covered c0 (C19FetchPlan.step s e) := by
  by_cases hg : s.gaveUp = true
  · have : C19FetchPlan.step s e = s := by
      cases e <;> simp [C19FetchPlan.step, hg]
    rw [this]; exact h
  have hg' : s.gaveUp = false := by simpa using hg
  obtain ⟨hc, hd⟩ := h
  cases e with
  | serverEvent ev => simp only [C19FetchPlan.step, if_neg hg]; exact covered_handle c0 s ev ⟨hc, hd⟩
  | refreshRequest =>
    simp only [C19FetchPlan.step, hg', Bool.false_or]
    split
    · exact ⟨hc, hd⟩
    · exact ⟨hc, Or.inl (Or.inl rfl)⟩
  | deadline => simp only [C19FetchPlan.step, if_neg hg]; exact ⟨hc, hd⟩
  | startDue => simp only [C19FetchPlan.step, if_neg hg]; exact covered_startDue c0 s ⟨hc, hd⟩
  | fullDone ok =>
    simp only [C19FetchPlan.step, if_neg hg]
    cases hp : s.pending with
    | part cr topo => exact ⟨hc, hd⟩
    | full t =>
      simp only []
      cases ok with
      | false => exact ⟨hc, Or.inr (Or.inl rfl)⟩
      | true =>
        refine ⟨by show c0 ≤ s.clock + 1; omega, ?_⟩
        rcases hd with h | h | h | ⟨cr', t', hpe, _⟩ | ⟨t', tc, hm, ht⟩
        · exact Or.inl h
        · exact Or.inr (Or.inl h)
        · exact Or.inr (Or.inr (Or.inl h))
        · rw [hp] at hpe; cases hpe
        · exact Or.inr (Or.inr (Or.inr (Or.inr ⟨t', tc, List.mem_append_left _ hm, ht⟩)))
  | topoDone ok =>
    simp only [C19FetchPlan.step, if_neg hg]
    cases hp : s.pending with
    | full t => exact ⟨hc, hd⟩
    | part cr topo =>
      cases topo with
      | none => exact ⟨hc, hd⟩
      | some t =>
        simp only []
        cases ok with
        | false => simp only [Bool.false_eq_true, ↓reduceIte]; exact ⟨hc, Or.inl (Or.inl rfl)⟩
        | true =>
          simp only [↓reduceIte]
          refine ⟨by show c0 ≤ s.clock + 1; omega, ?_⟩
          rcases hd with h | h | h | ⟨cr', t', hpe, ht⟩ | ⟨t', tc, hm, ht⟩
          · exact Or.inl h
          · exact Or.inr (Or.inl h)
          · exact Or.inr (Or.inr (Or.inl h))
          · rw [hp] at hpe; cases hpe
            exact Or.inr (Or.inr (Or.inr (Or.inr ⟨t, s.clock, by simp, ht⟩)))
          · exact Or.inr (Or.inr (Or.inr (Or.inr ⟨t', tc, List.mem_append_left _ hm, ht⟩)))
  | routesDone ok =>
    simp only [C19FetchPlan.step, if_neg hg]
    cases hp : s.pending with
    | full t => exact ⟨hc, hd⟩
    | part cr topo =>
      cases cr with
      | none => exact ⟨hc, hd⟩
      | some t =>
        simp only []
        have pend : ∀ (pl : Plan) (m : List (Kind × Nat × Nat)) (c2 : Nat), s.clock ≤ c2 →
            (Owed s → pl = .full ∨ pl = s.plan) → (∀ x, x ∈ s.merged → x ∈ m) →
            Covered c0 { s with pending := .part none topo, plan := pl, merged := m, clock := c2 } := by
          intro pl m c2 hc2 hpl hm
          refine ⟨by show c0 ≤ c2; omega, ?_⟩
          rcases hd with h | h | h | ⟨cr', t', hpe, ht⟩ | ⟨t', tc, hmm, ht⟩
          · rcases hpl h with e | e
            · exact Or.inl (Or.inl e)
            · left; unfold Owed; show pl = _ ∨ ∃ c, pl = _; rw [e]; exact h
          · exact Or.inr (Or.inl h)
          · exact Or.inr (Or.inr (Or.inl h))
          · rw [hp] at hpe; cases hpe
            exact Or.inr (Or.inr (Or.inr (Or.inl ⟨none, t', rfl, ht⟩)))
          · exact Or.inr (Or.inr (Or.inr (Or.inr ⟨t', tc, hm _ hmm, ht⟩)))
        cases ok with
        | true => simp only [↓reduceIte]; exact pend _ _ _ (Nat.le_succ _) (fun _ => Or.inr rfl) (fun x hx => List.mem_append_left _ hx)
        | false => simp only [Bool.false_eq_true, ↓reduceIte]; exact pend _ _ _ (Nat.le_refl _) (fun _ => Or.inl rfl) (fun x hx => hx)

private theorem handle_hints (s : Sched) (e : Nat) :
    (handleServerEvent s (toSrv e)).hints = s.hints ++ (hintOf e).toList := by
  unfold toSrv hintOf
  split
  · simp [handleServerEvent]
  · split <;> simp [handleServerEvent]

private theorem fm_single (e : Nat) : List.filterMap hintOf [e] = (hintOf e).toList := by
  cases h : hintOf e <;> simp [h]

private theorem sys_sched_step (s : Sys) (e : SysEv) :
    (sysStep s e).sched = s.sched ∨ ∃ ev, (sysStep s e).sched = C19FetchPlan.step s.sched ev := by
  cases e with
  | conn op =>
    cases op with
    | poll b =>
      simp only [sysStep]
      split
      · rename_i e _; right; exact ⟨.serverEvent (toSrv e), rfl⟩
      · left; rfl
    | push _ => left; rfl
    | breakConn => left; rfl
    | dropErrSender => left; rfl
    | cancel => left; rfl
  | loop ev =>
    cases ev with
    | serverEvent _ => left; rfl
    | refreshRequest => right; exact ⟨.refreshRequest, rfl⟩
    | deadline => right; exact ⟨.deadline, rfl⟩
    | startDue => right; exact ⟨.startDue, rfl⟩
    | fullDone ok => right; exact ⟨.fullDone ok, rfl⟩
    | topoDone ok => right; exact ⟨.topoDone ok, rfl⟩
    | routesDone ok => right; exact ⟨.routesDone ok, rfl⟩

/-- COMPOSITION (1). In the composed system - the reader feeding the events channel, `wait_for_event()` polled,
cancelled and restarted, the scheduling loop running - take ANY reachable state and a poll of the wait that returns a
server event `e` there (every event the channel accepted is returned by exactly one such poll, in order:
`Props.C19.server_events_delivered_exactly_once_in_order`). Then, unless the loop has already given the connection up,
(a) right after that poll the plan owes the peer list (and the UP / DOWN hint has been sent), and (b) after EVERY
further history of the composed system the peer list is still owed, or a fetch that reads it (a full fetch, or a
partial topology fetch running or published) was STARTED after the event was handled, or the connection was given up
(re-establishment fetches everything). In particular the next full start cannot come "before" the event is in the
plan: there is no state in between - the event is in the plan at the step that returns it. -/
theorem delivered_event_covered_until_fetch_started (s : Sys) (b : Bool) (e : Nat) (later : List SysEv)
    (hpoll : (C19EventWait.poll s.conn b).2 = .event e) (hg : s.sched.gaveUp = false) :
    let s1 := sysStep s (.conn (.poll b))
    Owed s1.sched ∧ s1.sched.hints = s.sched.hints ++ (hintOf e).toList ∧
    Covered s1.sched.clock (sysRun s1 later).sched := by
  have e1 : (sysStep s (.conn (.poll b))).sched = C19FetchPlan.step s.sched (.serverEvent (toSrv e)) := by
    simp [sysStep, hpoll]
  refine ⟨by rw [e1]; exact delivered_event_is_owed _ _ hg, ?_, ?_⟩
  · rw [e1]
    simp only [C19FetchPlan.step, hg, Bool.false_eq_true, ↓reduceIte]
    unfold toSrv hintOf
    split
    · simp [handleServerEvent]
    · split <;> simp [handleServerEvent]
  · have key : ∀ (evs : List SysEv) (c0 : Nat) (t : Sys), Covered c0 t.sched → Covered c0 (sysRun t evs).sched := by
      intro evs
      induction evs with
      | nil => intro c0 t h; exact h
      | cons ev rest ih =>
        intro c0 t h
        apply ih
        rcases sys_sched_step t ev with h1 | ⟨x, h1⟩
        · rw [h1]; exact h
        · rw [h1]; exact covered_step c0 t.sched x h
    apply key
    exact ⟨Nat.le_refl _, Or.inl (by rw [e1]; exact delivered_event_is_owed _ _ hg)⟩

/-- Every hint the scheduler sent comes from an event the wait returned, in order, and (while the loop has not given
up) every status event returned has had its hint sent: hints = the hints of the delivered events. -/
theorem hints_are_those_of_delivered_events (cap : Nat) (evs : List SysEv) :
    let s := sysRun { conn := { cap } } evs
    s.sched.gaveUp = false → s.sched.hints = s.conn.delivered.filterMap hintOf := by
  have key : ∀ (evs : List SysEv) (t : Sys),
      (t.sched.gaveUp = false → t.sched.hints = t.conn.delivered.filterMap hintOf) →
      ((sysRun t evs).sched.gaveUp = false → (sysRun t evs).sched.hints = (sysRun t evs).conn.delivered.filterMap hintOf) := by
    intro evs
    induction evs with
    | nil => intro t h; exact h
    | cons ev rest ih =>
      intro t h
      apply ih
      cases ev with
      | conn op =>
        cases op with
        | poll b =>
          simp only [sysStep]
          cases hpo : C19EventWait.poll t.conn b with
          | mk c' o =>
            have hdel : o = .pending ∨ o = .broken ∨ o = .shutdown → c'.delivered = t.conn.delivered := by
              intro ho
              unfold C19EventWait.poll at hpo
              split at hpo
              · split at hpo
                · cases hpo; rfl
                · cases hpo; rcases ho with ho | ho | ho <;> cases ho
              · split at hpo <;> (cases hpo; rfl)
            have hev : ∀ e, o = .event e → c'.delivered = t.conn.delivered ++ [e] := by
              intro e ho
              unfold C19EventWait.poll at hpo
              split at hpo
              · split at hpo
                · cases hpo; simp [C19EventWait.errOut] at ho; split at ho <;> cases ho
                · cases hpo; cases ho; rfl
              · split at hpo
                · cases hpo; simp [C19EventWait.errOut] at ho; split at ho <;> cases ho
                · cases hpo; cases ho
            cases o with
            | event e =>
              simp only []
              intro hg
              have hg0 : t.sched.gaveUp = false := by
                cases hgu : t.sched.gaveUp with
                | false => rfl
                | true => simp [C19FetchPlan.step, hgu] at hg
              rw [hev e rfl, List.filterMap_append, ← h hg0]
              simp only [C19FetchPlan.step, hg0, Bool.false_eq_true, ↓reduceIte]
              rw [handle_hints, fm_single]
            | pending => simp only []; rw [hdel (Or.inl rfl)]; exact h
            | broken => simp only []; rw [hdel (Or.inr (Or.inl rfl))]; exact h
            | shutdown => simp only []; rw [hdel (Or.inr (Or.inr rfl))]; exact h
        | push e => simp only [sysStep, C19EventWait.step]; split <;> exact h
        | breakConn => simp only [sysStep, C19EventWait.step]; split <;> exact h
        | dropErrSender => simp only [sysStep, C19EventWait.step]; split <;> exact h
        | cancel => exact h
      | loop e =>
        have mono : ∀ x, (C19FetchPlan.step t.sched x).gaveUp = false → (∀ ev', x ≠ .serverEvent ev') →
            t.sched.gaveUp = false ∧ (C19FetchPlan.step t.sched x).hints = t.sched.hints := by
          intro x hx hne
          cases hgu : t.sched.gaveUp with
          | true => cases x <;> simp [C19FetchPlan.step, hgu] at hx
          | false =>
            refine ⟨rfl, ?_⟩
            cases x with
            | serverEvent ev' => exact absurd rfl (hne ev')
            | refreshRequest => simp only [C19FetchPlan.step]; split <;> rfl
            | deadline => simp [C19FetchPlan.step, hgu]
            | startDue =>
              simp only [C19FetchPlan.step, hgu, Bool.false_eq_true, ↓reduceIte]
              unfold startDue; split
              · rfl
              · split <;> rfl
            | fullDone ok => simp only [C19FetchPlan.step, hgu, Bool.false_eq_true, ↓reduceIte]; split <;> (try split) <;> rfl
            | topoDone ok => simp only [C19FetchPlan.step, hgu, Bool.false_eq_true, ↓reduceIte]; split <;> (try split) <;> rfl
            | routesDone ok => simp only [C19FetchPlan.step, hgu, Bool.false_eq_true, ↓reduceIte]; split <;> (try split) <;> rfl
        cases e with
        | serverEvent _ => exact h
        | refreshRequest => intro hg; have := mono .refreshRequest hg (by intro _ hh; cases hh); show (C19FetchPlan.step t.sched _).hints = _; rw [this.2]; exact h this.1
        | deadline => intro hg; have := mono .deadline hg (by intro _ hh; cases hh); show (C19FetchPlan.step t.sched _).hints = _; rw [this.2]; exact h this.1
        | startDue => intro hg; have := mono .startDue hg (by intro _ hh; cases hh); show (C19FetchPlan.step t.sched _).hints = _; rw [this.2]; exact h this.1
        | fullDone ok => intro hg; have := mono (.fullDone ok) hg (by intro _ hh; cases hh); show (C19FetchPlan.step t.sched _).hints = _; rw [this.2]; exact h this.1
        | topoDone ok => intro hg; have := mono (.topoDone ok) hg (by intro _ hh; cases hh); show (C19FetchPlan.step t.sched _).hints = _; rw [this.2]; exact h this.1
        | routesDone ok => intro hg; have := mono (.routesDone ok) hg (by intro _ hh; cases hh); show (C19FetchPlan.step t.sched _).hints = _; rw [this.2]; exact h this.1
  intro s
  exact key evs _ (by intro _; rfl)

/-- Non-vacuity: a DOWN event (code 259) survives a cancelled wait, is returned, its hint is sent and the partial
topology fetch it owes is started at the next loop top - after the event. -/
example :
    let s := sysRun { conn := { cap := 4 } }
      [.conn (.poll false), .conn .cancel, .conn (.push 259), .conn .cancel, .conn (.poll false), .loop .startDue]
    s.conn.delivered = [259] ∧ s.sched.hints = [(3, false)] ∧ s.sched.pending = .part none (some 1) := by decide

end WaitFeedsPlan
/-! ### (2) the deadline loop and the timed refresh flow: ONE ROUND only (`_partial`)

FULL STATEMENT WANTED (not proved): a simulation - every history of `C19Deadline` maps to a `RefreshFlow` event list
(`request ↦ request`; a full start carrying a request `↦ recvRequest`; a full start by deadline / failed partial fetch
`↦ periodicFetch`; `select fullDone ↦ fetchOk m`) with `flow.fetching = fullInFlight`,
`flow.pending.isSome = (pending ∧ fullInFlight)`, `flow.waiting.length = waiting + (pending ∧ ¬fullInFlight)` as the
relation, so that `Props.C19.answering_fetch_started_after_request` / `answered_ok_sees_fresh_published_state` transfer
to every request RECEIVED by the deadline loop. MISSING: the relation's preservation over all `C19Deadline.Ev`
(`RefreshFlow` receives and starts in ONE event, the loop in two - the refresh arm, then the next loop top), and
failed full fetches (`C19Deadline` has no `ok = false` arm). What IS proved: the round that
`waiting_request_received_before_next_full_start` describes on the loop side has, on the flow side, exactly the same
shape, with the ghost clock saying the carrying fetch starts at the reception, after the completing fetch. -/
section DeadlineRound
open ScyllaVerif.RefreshFlow

/-- The flow-side mirror of `Props.C19.waiting_request_received_before_next_full_start`: with a fetch in flight and a
request `r` waiting (both workers alive), the completion followed by the reception makes `r` the pending request of a
NEW fetch whose start time is the clock at the reception (so: not the fetch that was in flight when `r` waited, whose
start time was `t.fetchStart < t.clock` - `hfs`), and `r` is not served by the completed fetch. -/
theorem received_after_completion_gets_new_fetch_partial (t : Timed) (m : MetaUpdate.Meta) (r : Nat) (rest : List Nat)
    (hf : t.flow.fetching = true) (hp : t.flow.producerGone = false) (hc : t.flow.consumerGone = false)
    (hw : t.flow.waiting = r :: rest) (hfs : t.fetchStart < t.clock) :
    let t2 := trun t [.fetchOk m, .recvRequest]
    t2.flow.pending = some r ∧ t2.flow.fetching = true ∧ t2.flow.waiting = rest ∧
    t2.fetchStart = t.clock ∧ t.fetchStart < t2.fetchStart ∧
    t2.served = t.served ++ t.flow.pending.toList.map (fun q => (q, t.fetchStart)) := by
  simp [trun, tstep, RefreshFlow.step, hf, hp, hc, hw, hfs]

end DeadlineRound

end ScyllaVerif.Props.C19Compose

/-
C08 — `ProtocolFeatures::parse_from_supported` (scylla-cql-core/src/frame/protocol_features.rs): the features every
connection negotiates from the option map of the SUPPORTED response.  Model: `Model/C08Features.lean`; lemmas:
`Proofs/C08FeaturesNP.lean`.  Total by structural recursion on the value list.
-/
import ScyllaVerif.Proofs.C08FeaturesNP

namespace ScyllaVerif.Props.C08Features
open ScyllaVerif ScyllaVerif.C08 ScyllaVerif.C08F

/-- For EVERY option map (any keys, any value lists, any bytes in the fields) the negotiation returns a feature
struct, never a panic: the only slicing, inside `strip_prefix`, sits behind its `starts_with` test. -/
theorem no_panic_features (opts : List (Bytes × List Bytes)) (site : String) :
    parseFromSupported opts ≠ .panic site := by
  intro h
  have := parseFromSupported_np opts
  rw [h] at this
  exact this

/-- The field taken is the FIRST one of the form `key=rest`, whole key then `=`: fields in front of it that are the
bare key, the key followed by another character, or a longer name sharing the prefix, are skipped. -/
theorem extension_field_is_first_key_eq (key : Bytes) (vals : List Bytes) (r : Bytes)
    (h : getField key vals = .ok (some r)) :
    ∃ pre v post, vals = pre ++ v :: post ∧ v = key ++ 0x3D :: r ∧ ∀ w ∈ pre, fieldRest key w = .ok none :=
  getField_some key vals r h

/-! non-vacuity / the shapes of the seeded change C08-8 -/

private def rl (vals : List String) : FOut (Option Int) :=
  match parseFromSupported [(K_RATE, vals.map asciiBytes)] with
  | .ok f => .ok f.rateLimit
  | .panic s => .panic s

example : (match rl ["ERROR_CODE=61440"] with | .ok (some 61440) => true | _ => false) = true := by decide +kernel
/-- the bare key is not the field -/
example : (match rl ["ERROR_CODE"] with | .ok none => true | _ => false) = true := by decide +kernel
/-- a different field sharing the prefix, listed first, is not mistaken for it -/
example : (match rl ["ERROR_CODE2=7", "ERROR_CODE=9"] with | .ok (some 9) => true | _ => false) = true := by
  decide +kernel
/-- a first `ERROR_CODE=` field that does not parse means "not negotiated"; later fields are not tried -/
example : (match rl ["ERROR_CODE=x", "ERROR_CODE=9"] with | .ok none => true | _ => false) = true := by decide +kernel
example : (match rl ["ERROR_CODE=-2147483648"] with | .ok (some (-2147483648)) => true | _ => false) = true := by
  decide +kernel
example : (match rl ["ERROR_CODE=2147483648"] with | .ok none => true | _ => false) = true := by decide +kernel
/-- the key followed by a multi-byte character (`ERROR_CODE€61440`) -/
example : (match parseFromSupported [(K_RATE, [F_CODE ++ [0xE2, 0x82, 0xAC, 0x36]])] with
    | .ok f => f.rateLimit.isNone | _ => false) = true := by decide +kernel
example : parseU32 (asciiBytes "-0") = none ∧ parseI32 (asciiBytes "-0") = some 0 ∧ parseU32 (asciiBytes "+7") = some 7 := by
  decide +kernel

end ScyllaVerif.Props.C08Features
